(* C06 - History queries return exactly the stored, live, matching messages.
   Model: Model/Store.v (storage/ssd.go lookup and Query, storage.go window, ID.HasPrefix / Match,
   Frame.Limit), badger as an ordered map with expiry; tied to the real in-memory and on-disk
   providers by the c06 harness, which also compares every answer with the exhaustive filter
   (Check/C06.v spec_query) on every run.
   Proved here (for EVERY store content, query, limit, continuation id): soundness of the answer.
   The converse (nothing that matches is skipped by the seek-and-stop iteration) is PARTIAL: it is
   checked by the harness against the exhaustive filter, not yet proved. *)
From Emitter Require Import Lib.Base Model.MsgCodec Model.Store Proofs.StoreProofs.

(* every message of an answer is a live (not expired) entry of the store whose id passes
   ID.Match for the queried ssid and window - hence never a message of another contract, never an
   expired one - and the answer respects the limit and the reply-size cap *)
Theorem C06_lookup_sound : forall s now ssid from until start limit,
  let out := lookup s now ssid from until start limit in
  (forall m, In m out -> exists e, In e s /\ m = e_msg e /\ visible now e = true
                                   /\ id_match (m_id m) ssid from until = true
                                   /\ id_has_prefix (m_id m) ssid from = true)
  /\ len out <= limit /\ total_size out <= maxMessageSize.
Proof. exact lookup_sound. Qed.
Print Assumptions C06_lookup_sound.

(* ID.Match means: the id carries at least as many words as the query, every query word equals
   the id's word or is a wildcard, and the id's time lies in the window; in particular the
   contract (word 0) is the queried one unless the queried contract id is itself one of the two
   wildcard constants *)
Theorem C06_isolation : forall id c f from until,
  c <> wildcardW -> c <> multiWildcardW ->
  id_match id (c :: f) from until = true ->
  exists w, id_ssid id = Ok (c :: w) /\ words_match f w = true
            /\ exists t, id_time id = Ok t /\ (from <= t <= until)%Z.
Proof.
  intros id c f from until H1 H2 M. unfold id_match in M.
  destruct (id_ssid id) as [w| |]; try discriminate. destruct (id_time id) as [t| |]; try discriminate.
  apply andb_prop in M. destruct M as [M Mu]. apply andb_prop in M. destruct M as [M Mf].
  apply andb_prop in M. destruct M as [_ Mw].
  destruct w as [|c' w]; [discriminate|]. cbn [words_match] in Mw. apply andb_prop in Mw. destruct Mw as [Mc Mw].
  assert (c = c').
  { apply orb_prop in Mc. destruct Mc as [Mc|Mc]; [apply orb_prop in Mc; destruct Mc as [Mc|Mc]|];
      apply N.eqb_eq in Mc; congruence. }
  subst c'. exists w. split; [reflexivity|]. split; [exact Mw|]. exists t. split; [reflexivity|].
  apply Z.leb_le in Mf. apply Z.leb_le in Mu. split; assumption.
Qed.
Print Assumptions C06_isolation.

(* the final answer: ordered by non-decreasing time, drawn from the lookup, and the whole lookup
   when it already respects the limit (it always does, by C06_lookup_sound) *)
Theorem C06_answer_order : forall l n,
  sorted_time (frame_limit l n) /\ (forall m, In m (frame_limit l n) -> In m l)
  /\ (len l <= n -> len (frame_limit l n) = len l).
Proof. exact frame_limit_spec. Qed.
Print Assumptions C06_answer_order.
