(* C15 - Stored messages survive broker restarts and crashes.
   What is emitter's own logic: Store returns only after the engine's transaction committed, and
   the entry written is (id, Encode(message), id time + ttl); reopening is Configure again.  Model:
   Model/StoreLog.v over an engine whose committed transactions are durable and atomic - an
   ASSUMPTION about badger (SyncWrites = false: durable against process death, not machine crash),
   which the c15 harness validates on every run by killing a storing child process at arbitrary
   moments and reopening the directory.  The codec round trip of the stored value is C19. *)
From Emitter Require Import Lib.Base Model.MsgCodec Model.StoreLog Proofs.StoreLogProofs.

Theorem C15_acked_survive_nothing_invented : forall landed ops,
  let s := fold_left (dstep landed) ops d0 in
  (forall m, In m (d_acked s) -> In m (d_committed s)) /\ (forall m, In m (d_committed s) -> In m (d_tried s)).
Proof. intros landed ops. apply (acked_survive landed ops d0); intros m []. Qed.
Print Assumptions C15_acked_survive_nothing_invented.
