From Emitter Require Import Lib.Base Model.Broker.
Theorem C18_placeholder : presenceW = 3869262148.
Proof. reflexivity. Qed.
Print Assumptions C18_placeholder.
