(* Why the payload adapter of cluster/swarm.go exists (F8, repaired): mesh's sender stores the result
   of pending.Merge(new) as the new pending payload, and event.State.Merge - used directly as
   GossipData.Merge before the repair - returns the argument reduced to what the receiver lacked (or
   nil), not the union.  These witnesses are about that raw semantics ([sender_send_raw]); they are
   kept as the record of the finding, not as proof obligations. *)
From stdpp Require Import gmap.
From Coq Require Import ZArith.
From Emitter Require Import Model.Lww Model.Sender.
Local Open Scope Z_scope.

Definition A : replica := {[1%N := Ent 5 0 []]}.
Definition B : replica := {[2%N := Ent 6 0 []]}.

(* pending = {A}, new = {B}: the payload sent is {B}; A's update is lost *)
Lemma C13_coalesce_refuted_lost :
  exists out, queue_all sender_send_raw [A; B] = Some out /\ out !! 1%N = None.
Proof. eexists. split; vm_compute; reflexivity. Qed.

(* the same payload queued twice: nothing at all is sent *)
Lemma C13_coalesce_refuted_nothing : queue_all sender_send_raw [A; A] = None.
Proof. vm_compute. reflexivity. Qed.
