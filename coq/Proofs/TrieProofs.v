(* C01: the subscription trie refines a set of (filter, subscriber) pairs; both lookups are exact;
   empty nodes are pruned. *)
From Emitter Require Import Lib.Base Model.Trie.
From Coq Require Import Lia.
Set Default Timeout 120.

(* ---- nested induction over nodes ---- *)
Section node_ind2.
  Variable P : node -> Prop.
  Hypothesis H : forall s ks, Forall (fun kc => P (snd kc)) ks -> P (Node s ks).
  Fixpoint node_ind2 (n : node) : P n :=
    match n with
    | Node s ks =>
      H s ks ((fix go (l : list (N * node)) : Forall (fun kc => P (snd kc)) l :=
                 match l with
                 | [] => Forall_nil _
                 | kc :: l' => Forall_cons kc (node_ind2 (snd kc)) (go l')
                 end) ks)
    end.
End node_ind2.

(* ---- association lists ---- *)
Definition keys {A} (l : list (N * A)) : list N := map fst l.

Lemma aget_In {A} k (l : list (N * A)) v : aget k l = Some v -> In (k, v) l.
Proof.
  induction l as [|[k' v'] l IH]; cbn [aget]; [discriminate|].
  destruct (N.eqb_spec k k') as [->|]; intros E.
  - injection E as ->. left. reflexivity.
  - right. auto.
Qed.

Lemma aget_None_notin {A} k (l : list (N * A)) : aget k l = None -> ~ In k (keys l).
Proof.
  induction l as [|[k' v'] l IH]; cbn [aget keys map fst]; [intros _ []|].
  destruct (N.eqb_spec k k') as [->|Hne]; [discriminate|]. intros E [H|H]; [congruence | exact (IH E H)].
Qed.

Lemma In_aget {A} k (l : list (N * A)) v : NoDup (keys l) -> In (k, v) l -> aget k l = Some v.
Proof.
  induction l as [|[k' v'] l IH]; cbn [aget keys map fst]; [intros _ []|].
  intros ND [E|I].
  - injection E as -> ->. rewrite N.eqb_refl. reflexivity.
  - inversion ND as [|? ? Hn ND']; subst.
    destruct (N.eqb_spec k k') as [->|]; [|auto].
    exfalso. apply Hn. change k' with (fst (k', v)). apply in_map. exact I.
Qed.

Lemma aget_aput_same {A} k (v : A) l : aget k (aput k v l) = Some v.
Proof.
  induction l as [|[k' v'] l IH]; cbn [aput aget]; [rewrite N.eqb_refl; reflexivity|].
  destruct (N.eqb_spec k k') as [->|Hne]; cbn [aget].
  - rewrite N.eqb_refl. reflexivity.
  - destruct (N.eqb_spec k k'); [contradiction|]. exact IH.
Qed.

Lemma aget_aput_other {A} k k' (v : A) l : k <> k' -> aget k' (aput k v l) = aget k' l.
Proof.
  intros Hne. induction l as [|[k2 v2] l IH]; cbn [aput aget].
  - destruct (N.eqb_spec k' k); [congruence | reflexivity].
  - destruct (N.eqb_spec k k2) as [->|Hne2]; cbn [aget].
    + destruct (N.eqb_spec k' k2); [congruence | reflexivity].
    + destruct (N.eqb_spec k' k2); [reflexivity | exact IH].
Qed.

Lemma keys_aput {A} k (v : A) l : forall x, In x (keys (aput k v l)) <-> x = k \/ In x (keys l).
Proof.
  induction l as [|[k' v'] l IH]; intros x; cbn.
  - intuition.
  - destruct (N.eqb_spec k k') as [->|Hne]; cbn.
    + intuition.
    + specialize (IH x). unfold keys in IH. rewrite IH. intuition.
Qed.

Lemma nodup_aput {A} k (v : A) l : NoDup (keys l) -> NoDup (keys (aput k v l)).
Proof.
  induction l as [|[k' v'] l IH]; intros ND; cbn [aput keys map fst].
  - constructor; [tauto | constructor].
  - inversion ND as [|? ? Hn ND']; subst.
    destruct (N.eqb_spec k k') as [->|Hne]; cbn [map fst].
    + constructor; assumption.
    + constructor; [|apply IH; exact ND'].
      intros H. apply (keys_aput k v l k') in H. destruct H as [H|H]; [congruence | exact (Hn H)].
Qed.

Lemma aget_adel_same {A} k (l : list (N * A)) : NoDup (keys l) -> aget k (adel k l) = None.
Proof.
  induction l as [|[k' v'] l IH]; intros ND; cbn [adel aget]; [reflexivity|].
  inversion ND as [|? ? Hn ND']; subst.
  destruct (N.eqb_spec k k') as [->|Hne]; cbn [aget].
  - destruct (aget k' l) eqn:E; [|reflexivity]. apply aget_In in E.
    exfalso. apply Hn. change k' with (fst (k', a)). apply in_map. exact E.
  - destruct (N.eqb_spec k k'); [contradiction|]. apply IH. exact ND'.
Qed.

Lemma aget_adel_other {A} k k' (l : list (N * A)) : k <> k' -> aget k' (adel k l) = aget k' l.
Proof.
  intros Hne. induction l as [|[k2 v2] l IH]; cbn [adel aget]; [reflexivity|].
  destruct (N.eqb_spec k k2) as [->|Hne2]; cbn [aget].
  - destruct (N.eqb_spec k' k2); [congruence | reflexivity].
  - destruct (N.eqb_spec k' k2); [reflexivity | exact IH].
Qed.

Lemma keys_adel {A} k (l : list (N * A)) x : In x (keys (adel k l)) -> In x (keys l).
Proof.
  induction l as [|[k' v'] l IH]; cbn; [tauto|].
  destruct (N.eqb_spec k k'); cbn; [auto|]. intros [H|H]; [auto | right; exact (IH H)].
Qed.

Lemma nodup_adel {A} k (l : list (N * A)) : NoDup (keys l) -> NoDup (keys (adel k l)).
Proof.
  induction l as [|[k' v'] l IH]; intros ND; cbn [adel keys map fst]; [constructor|].
  inversion ND as [|? ? Hn ND']; subst.
  destruct (N.eqb_spec k k'); cbn [map fst]; [exact ND'|].
  constructor; [|apply IH; exact ND']. intros H. apply Hn. exact (keys_adel k l k' H).
Qed.

(* ---- subscriber sets ---- *)
Lemma mem_In s l : mem s l = true <-> In s l.
Proof.
  unfold mem. rewrite existsb_exists. split.
  - intros [x [H E]]. apply N.eqb_eq in E. subst. exact H.
  - intros H. exists s. split; [exact H | apply N.eqb_refl].
Qed.

Lemma In_add_unique s l x : In x (add_unique s l) <-> x = s \/ In x l.
Proof.
  induction l as [|y l IH]; cbn [add_unique].
  - split; [intros [<-|[]]; auto | intros [->|[]]; left; reflexivity].
  - destruct (N.eqb_spec s y) as [->|Hne]; cbn [In]; [split; [auto | intros [->|H]; auto]|].
    rewrite IH. tauto.
Qed.

Lemma nodup_add_unique s l : NoDup l -> NoDup (add_unique s l).
Proof.
  induction l as [|y l IH]; intros ND; cbn [add_unique]; [constructor; [tauto|constructor]|].
  destruct (N.eqb_spec s y) as [->|Hne]; [exact ND|].
  inversion ND as [|? ? Hn ND']; subst. constructor; [|apply IH; exact ND'].
  rewrite In_add_unique. intros [H|H]; [congruence | exact (Hn H)].
Qed.

Lemma length_add_unique s l : length (add_unique s l) = if mem s l then length l else S (length l).
Proof.
  induction l as [|y l IH]; [reflexivity|]. cbn [add_unique mem existsb].
  destruct (N.eqb_spec s y) as [->|Hne]; cbn [orb length]; [reflexivity|].
  fold (mem s l). rewrite IH. destruct (mem s l); reflexivity.
Qed.

Lemma In_remove1 s l x : NoDup l -> (In x (remove1 s l) <-> x <> s /\ In x l).
Proof.
  induction l as [|y l IH]; intros ND; cbn [remove1]; [tauto|].
  inversion ND as [|? ? Hn ND']; subst.
  destruct (N.eqb_spec s y) as [->|Hne]; cbn [In].
  - split; [intros H; split; [intros ->; exact (Hn H) | auto] | intros [H1 [H2|H2]]; [congruence | exact H2]].
  - rewrite (IH ND'). split; [intros [<-|[H1 H2]]; auto | intros [H1 [H2|H2]]; auto].
Qed.

Lemma nodup_remove1 s l : NoDup l -> NoDup (remove1 s l).
Proof.
  induction l as [|y l IH]; intros ND; cbn [remove1]; [constructor|].
  inversion ND as [|? ? Hn ND']; subst. destruct (N.eqb_spec s y); [exact ND'|].
  constructor; [|apply IH; exact ND']. rewrite (In_remove1 s l y ND'). tauto.
Qed.

Lemma length_remove1 s l : length (remove1 s l) = if mem s l then pred (length l) else length l.
Proof.
  induction l as [|y l IH]; [reflexivity|]. cbn [remove1 mem existsb].
  destruct (N.eqb_spec s y) as [->|Hne]; cbn [orb length]; [reflexivity|].
  fold (mem s l). rewrite IH. destruct (mem s l) eqn:E; [|reflexivity].
  apply mem_In in E. destruct l; [destruct E | reflexivity].
Qed.

(* ---- well-formed tries and their pairs ---- *)
Inductive wf : node -> Prop :=
| wf_node s ks : NoDup s -> NoDup (keys ks) -> Forall (fun kc => wf (snd kc)) ks -> wf (Node s ks).

Definition kid_pairs (ks : list (N * node)) : list (list N * N) :=
  flat_map (fun kc => map (fun p => (fst kc :: fst p, snd p)) (pairs (snd kc))) ks.

Lemma pairs_unfold s ks : pairs (Node s ks) = map (fun x => ([], x)) s ++ kid_pairs ks.
Proof.
  cbn [pairs]. f_equal. unfold kid_pairs.
  induction ks as [|[w c] ks IH]; cbn [flat_map fst snd]; [reflexivity|]. rewrite IH. reflexivity.
Qed.

Lemma In_root_pairs s (sb : list N) f : In (f, s) (map (fun x : N => ([] : list N, x)) sb) <-> f = [] /\ In s sb.
Proof.
  rewrite in_map_iff. split.
  - intros [x [E I]]. injection E as <- <-. auto.
  - intros [-> I]. exists s. auto.
Qed.

Lemma In_kid_pairs ks f s :
  In (f, s) (kid_pairs ks) <-> exists w c f', In (w, c) ks /\ f = w :: f' /\ In (f', s) (pairs c).
Proof.
  unfold kid_pairs. rewrite in_flat_map. split.
  - intros [[w c] [I M]]. cbn [fst snd] in M. apply in_map_iff in M. destruct M as [[f' s'] [E I']].
    cbn [fst snd] in E. injection E as <- <-. exists w, c, f'. auto.
  - intros (w & c & f' & I & -> & I'). exists (w, c). split; [assumption|].
    cbn [fst snd]. apply in_map_iff. exists (f', s). auto.
Qed.

(* membership of a pair, by the shape of its filter *)
Lemma In_pairs_nil s sb ks : In ([], s) (pairs (Node sb ks)) <-> In s sb.
Proof.
  rewrite pairs_unfold, in_app_iff, In_root_pairs, In_kid_pairs. split.
  - intros [[_ H]|(w & c & f' & _ & E & _)]; [exact H | discriminate].
  - intros H. left. auto.
Qed.

Lemma In_pairs_cons w f s sb ks :
  NoDup (keys ks) ->
  (In (w :: f, s) (pairs (Node sb ks)) <-> exists c, aget w ks = Some c /\ In (f, s) (pairs c)).
Proof.
  intros ND. rewrite pairs_unfold, in_app_iff, In_root_pairs, In_kid_pairs. split.
  - intros [[E _]|(w' & c & f' & I & E & I')]; [discriminate|]. injection E as <- <-.
    exists c. split; [apply In_aget; assumption | exact I'].
  - intros (c & G & I). right. exists w, c, f. split; [apply aget_In; exact G | auto].
Qed.

Lemma wf_kid w c sb ks : wf (Node sb ks) -> aget w ks = Some c -> wf c.
Proof.
  intros W G. inversion W as [? ? _ _ F]; subst. rewrite Forall_forall in F.
  exact (F (w, c) (aget_In _ _ _ G)).
Qed.

Lemma wf_empty : wf empty_node.
Proof. constructor; constructor. Qed.

Lemma Forall_aput (P : node -> Prop) w c ks :
  Forall (fun kc => P (snd kc)) ks -> P c -> Forall (fun kc => P (snd kc)) (aput w c ks).
Proof.
  induction ks as [|[k v] ks IH]; intros F Pc; cbn [aput].
  - constructor; [exact Pc | constructor].
  - inversion F as [|? ? Pv F']; subst. destruct (w =? k); constructor; auto.
Qed.

Lemma Forall_adel (P : node -> Prop) w ks :
  Forall (fun kc => P (snd kc)) ks -> Forall (fun kc => P (snd kc)) (adel w ks).
Proof.
  induction ks as [|[k v] ks IH]; intros F; cbn [adel]; [constructor|].
  inversion F as [|? ? Pv F']; subst. destruct (w =? k); [exact F' | constructor; auto].
Qed.

(* ---- subscribe ---- *)
Lemma subscribe_node_spec : forall ssid s n,
  wf n ->
  let r := subscribe_node ssid s n in
  wf (fst r)
  /\ (forall f x, In (f, x) (pairs (fst r)) <-> In (f, x) (pairs n) \/ (f = ssid /\ x = s))
  /\ (snd r = true <-> ~ In (ssid, s) (pairs n)).
Proof.
  induction ssid as [|w rest IH]; intros s n W; destruct n as [sb ks]; cbn [subscribe_node nsubs nkids].
  - inversion W as [? ? NDs NDk F]; subst. cbn [fst snd]. refine (conj _ (conj (fun f x => conj _ _) (conj _ _))).
    + constructor; [apply nodup_add_unique; exact NDs | exact NDk | exact F].
    + destruct f as [|w f].
      * rewrite !In_pairs_nil, In_add_unique. intros [->|H]; [right; auto | left; exact H].
      * rewrite !(In_pairs_cons w f x _ ks NDk). intros H. left. exact H.
    + destruct f as [|w f].
      * rewrite !In_pairs_nil, In_add_unique. intros [H|[_ ->]]; [right; exact H | left; reflexivity].
      * rewrite !(In_pairs_cons w f x _ ks NDk). intros [H|[E _]]; [exact H | discriminate].
    + rewrite In_pairs_nil. intros E H. apply mem_In in H. rewrite H in E. discriminate.
    + rewrite In_pairs_nil. intros H. destruct (mem s sb) eqn:E; [apply mem_In in E; contradiction | reflexivity].
  - inversion W as [? ? NDs NDk F]; subst.
    set (child := match aget w ks with Some c => c | None => empty_node end).
    assert (Wc : wf child).
    { subst child. destruct (aget w ks) as [c|] eqn:G; [exact (wf_kid _ _ _ _ W G) | exact wf_empty]. }
    specialize (IH s child Wc). cbv zeta in IH.
    destruct (subscribe_node rest s child) as [c' added]. cbn [fst snd] in *.
    destruct IH as (W' & P' & A').
    assert (Pc : forall f x, In (f, x) (pairs child) <-> exists c, aget w ks = Some c /\ In (f, x) (pairs c)).
    { intros f x. subst child. destruct (aget w ks) as [c|] eqn:G.
      - split; [intros H; exists c; auto | intros (c0 & E & H); injection E as ->; exact H].
      - cbn [pairs map app]. split; [intros [] | intros (c0 & E & _); discriminate]. }
    refine (conj _ (conj (fun f x => conj _ _) (conj _ _))).
    + constructor; [exact NDs | apply nodup_aput; exact NDk | apply Forall_aput; assumption].
    + destruct f as [|w2 f].
      * rewrite !In_pairs_nil. intros H. left. exact H.
      * rewrite (In_pairs_cons w2 f x sb _ (nodup_aput w c' ks NDk)), (In_pairs_cons w2 f x sb ks NDk).
        intros (c & G & I). destruct (N.eq_dec w w2) as [<-|Hne].
        -- rewrite aget_aput_same in G. injection G as <-. apply P' in I. destruct I as [I|[-> ->]].
           ++ left. apply Pc. exact I.
           ++ right. auto.
        -- rewrite aget_aput_other in G by exact Hne. left. exists c. auto.
    + destruct f as [|w2 f].
      * rewrite !In_pairs_nil. intros [H|[E _]]; [exact H | discriminate].
      * rewrite (In_pairs_cons w2 f x sb _ (nodup_aput w c' ks NDk)), (In_pairs_cons w2 f x sb ks NDk).
        intros [(c & G & I)|[E ->]].
        -- destruct (N.eq_dec w w2) as [<-|Hne].
           ++ exists c'. split; [apply aget_aput_same|]. apply P'. left. apply Pc. exists c. auto.
           ++ exists c. split; [rewrite aget_aput_other by exact Hne; exact G | exact I].
        -- injection E as <- <-. exists c'. split; [apply aget_aput_same|]. apply P'. right. auto.
    + intros E H. apply (In_pairs_cons w rest s sb ks NDk) in H. apply A' in E. apply E. apply Pc. exact H.
    + intros H. apply A'. intros I. apply H. apply (In_pairs_cons w rest s sb ks NDk). apply Pc. exact I.
Qed.

Lemma imp_conj (A B C : Prop) : (A -> B) -> (A -> C) -> A -> B /\ C.
Proof. tauto. Qed.

(* ---- unsubscribe ---- *)
Definition is_empty (n : node) : bool := is_nil (nsubs n) && is_nil (nkids n).

Lemma unsubscribe_node_spec : forall ssid s n,
  wf n ->
  match unsubscribe_node ssid s n with
  | None => ~ In (ssid, s) (pairs n)
  | Some (n', removed, orphan) =>
    wf n'
    /\ (forall f x, In (f, x) (pairs n') <-> In (f, x) (pairs n) /\ ~ (f = ssid /\ x = s))
    /\ (removed = true <-> In (ssid, s) (pairs n))
    /\ orphan = is_empty n'
  end.
Proof.
  induction ssid as [|w rest IH]; intros s n W; destruct n as [sb ks]; cbn [unsubscribe_node nsubs nkids].
  - inversion W as [? ? NDs NDk F]; subst. refine (conj _ (conj (fun f x => conj _ _) (conj (conj _ _) _))).
    + constructor; [apply nodup_remove1; exact NDs | exact NDk | exact F].
    + destruct f as [|w f].
      * rewrite !In_pairs_nil, (In_remove1 s sb x NDs). intros [H1 H2]. split; [exact H2 | intros [_ E]; contradiction].
      * rewrite !(In_pairs_cons w f x _ ks NDk). intros H. split; [exact H | intros [E _]; discriminate].
    + destruct f as [|w f].
      * rewrite !In_pairs_nil, (In_remove1 s sb x NDs). intros [H1 H2]. split; [|exact H1].
        intros ->. apply H2. auto.
      * rewrite !(In_pairs_cons w f x _ ks NDk). intros [H _]. exact H.
    + rewrite In_pairs_nil. apply mem_In.
    + rewrite In_pairs_nil. apply mem_In.
    + reflexivity.
  - inversion W as [? ? NDs NDk F]; subst.
    destruct (aget w ks) as [c|] eqn:G.
    2:{ rewrite (In_pairs_cons w rest s sb ks NDk). intros (c & E & _). congruence. }
    pose proof (wf_kid _ _ _ _ W G) as Wc. specialize (IH s c Wc).
    destruct (unsubscribe_node rest s c) as [[[c' removed] orphan]|].
    2:{ rewrite (In_pairs_cons w rest s sb ks NDk). intros (c0 & E & I). rewrite G in E. injection E as <-. exact (IH I). }
    destruct IH as (W' & P' & R' & O').
    destruct orphan.
    + (* the child became empty and is removed from this node *)
      assert (Ec : forall f x, ~ In (f, x) (pairs c')).
      { intros f x. symmetry in O'. unfold is_empty in O'. apply andb_prop in O'. destruct O' as [O1 O2].
        destruct c' as [sb' ks']. cbn [nsubs nkids] in *. destruct sb'; [|discriminate]. destruct ks'; [|discriminate].
        cbn. tauto. }
      refine (conj _ (conj (fun f x => conj (imp_conj _ _ _ _ _) _) (conj (conj _ _) _))).
      * constructor; [exact NDs | apply nodup_adel; exact NDk | apply Forall_adel; exact F].
      * destruct f as [|w2 f].
        -- rewrite !In_pairs_nil. intros H. exact H.
        -- rewrite (In_pairs_cons w2 f x sb _ (nodup_adel w ks NDk)), (In_pairs_cons w2 f x sb ks NDk).
           intros (c0 & G0 & I). destruct (N.eq_dec w w2) as [<-|Hne].
           ++ rewrite aget_adel_same in G0 by exact NDk. discriminate.
           ++ rewrite aget_adel_other in G0 by exact Hne. exists c0. auto.
      * destruct f as [|w2 f]; [intros _ [E _]; discriminate|].
        rewrite (In_pairs_cons w2 f x sb _ (nodup_adel w ks NDk)).
        intros (c0 & G0 & I) [E ->]. injection E as <- <-.
        rewrite aget_adel_same in G0 by exact NDk. discriminate.
      * destruct f as [|w2 f].
        -- rewrite !In_pairs_nil. intros [H _]. exact H.
        -- rewrite (In_pairs_cons w2 f x sb _ (nodup_adel w ks NDk)), (In_pairs_cons w2 f x sb ks NDk).
           intros [(c0 & G0 & I) Hn]. destruct (N.eq_dec w w2) as [<-|Hne].
           ++ rewrite G in G0. injection G0 as <-. exfalso.
              destruct (list_eq_dec N.eq_dec f rest) as [->|Hf]; [destruct (N.eq_dec x s) as [->|Hx]|].
              ** apply Hn. auto.
              ** apply (Ec rest x). apply P'. split; [exact I | intros [_ E]; contradiction].
              ** apply (Ec f x). apply P'. split; [exact I | intros [E _]; contradiction].
           ++ exists c0. split; [rewrite aget_adel_other by exact Hne; exact G0 | exact I].
      * intros E. apply (In_pairs_cons w rest s sb ks NDk). exists c. split; [exact G | apply R'; exact E].
      * intros H. apply (In_pairs_cons w rest s sb ks NDk) in H. destruct H as (c0 & G0 & I).
        rewrite G in G0. injection G0 as <-. apply R'. exact I.
      * reflexivity.
    + (* the child stays *)
      refine (conj _ (conj (fun f x => conj (imp_conj _ _ _ _ _) _) (conj (conj _ _) _))).
      * constructor; [exact NDs | apply nodup_aput; exact NDk | apply Forall_aput; assumption].
      * destruct f as [|w2 f].
        -- rewrite !In_pairs_nil. intros H. exact H.
        -- rewrite (In_pairs_cons w2 f x sb _ (nodup_aput w c' ks NDk)), (In_pairs_cons w2 f x sb ks NDk).
           intros (c0 & G0 & I). destruct (N.eq_dec w w2) as [<-|Hne].
           ++ rewrite aget_aput_same in G0. injection G0 as <-. apply P' in I. exists c. split; [exact G | apply I].
           ++ rewrite aget_aput_other in G0 by exact Hne. exists c0. auto.
      * destruct f as [|w2 f]; [intros _ [E _]; discriminate|].
        rewrite (In_pairs_cons w2 f x sb _ (nodup_aput w c' ks NDk)).
        intros (c0 & G0 & I) [E ->]. injection E as <- <-.
        rewrite aget_aput_same in G0. injection G0 as <-. apply P' in I. destruct I as [_ Hn]. apply Hn. auto.
      * destruct f as [|w2 f].
        -- rewrite !In_pairs_nil. intros [H _]. exact H.
        -- rewrite (In_pairs_cons w2 f x sb _ (nodup_aput w c' ks NDk)), (In_pairs_cons w2 f x sb ks NDk).
           intros [(c0 & G0 & I) Hn]. destruct (N.eq_dec w w2) as [<-|Hne].
           ++ rewrite G in G0. injection G0 as <-. exists c'. split; [apply aget_aput_same|].
              apply P'. split; [exact I|]. intros [-> ->]. apply Hn. auto.
           ++ exists c0. split; [rewrite aget_aput_other by exact Hne; exact G0 | exact I].
      * intros E. apply (In_pairs_cons w rest s sb ks NDk). exists c. split; [exact G | apply R'; exact E].
      * intros H. apply (In_pairs_cons w rest s sb ks NDk) in H. destruct H as (c0 & G0 & I).
        rewrite G in G0. injection G0 as <-. apply R'. exact I.
      * unfold is_empty. cbn [nsubs nkids]. destruct (aput w c' ks) eqn:E; [|destruct sb; reflexivity].
        destruct ks as [|[k v] ks]; cbn [aput] in E; [discriminate|]. destruct (w =? k); discriminate.
Qed.

(* the orphan signal is exactly "the resulting node is empty" (used for pruning) *)
Lemma unsubscribe_node_flag : forall ssid s n,
  match unsubscribe_node ssid s n with
  | None => True
  | Some (n', _, orphan) => orphan = is_empty n'
  end.
Proof.
  induction ssid as [|w rest IH]; intros s n; destruct n as [sb ks]; cbn [unsubscribe_node nsubs nkids].
  - reflexivity.
  - destruct (aget w ks) as [c|]; [|exact I]. specialize (IH s c).
    destruct (unsubscribe_node rest s c) as [[[c' removed] orphan]|]; [|exact I].
    destruct orphan; [reflexivity|].
    unfold is_empty. cbn [nsubs nkids].
    destruct (aput w c' ks) eqn:E; [|destruct sb; reflexivity].
    destruct ks as [|[k v] ks]; cbn [aput] in E; [discriminate|]. destruct (w =? k); discriminate.
Qed.
