(* C15: the store protocol over a key-value engine whose committed transactions are durable and
   atomic.  Store(m) = one transaction writing the entry (key = id, value = Encode(m), expiry =
   id time + ttl), acknowledged only after the commit returned.  A crash may hit before, inside or
   after a store call.  After a restart a query decodes the values of the surviving entries.  The
   engine (badger) is abstract: "what was committed is there after the crash" is the assumption about
   it, exercised by the c15 harness. *)
From Emitter Require Import Lib.Base Model.MsgCodec Model.Store.

(* what SSD.storeFrame writes for a message (the retained marker already replaced) *)
Record kv := KV { kv_key : bytes; kv_value : bytes; kv_expires : Z }.
Definition entry_of (m : msg) : kv :=
  KV (m_id m) (enc_msg m) (match id_time (m_id m) with Ok t => t + Z.of_N (m_ttl m) | _ => 0 end)%Z.
(* loadMessage *)
Definition recover (e : kv) : res cerr msg := match dec_msg (kv_value e) with Ok (m, _) => Ok m | Err x => Err x | Panic => Panic end.

Inductive sop :=
| SStore (m : msg) (completed : bool)   (* a store call; completed = it returned (was acknowledged) *)
| SCrash                                (* the process dies; the next operation runs after restart *)
| SRestartClean.                        (* clean shutdown and restart *)

(* what the engine has committed; an in-flight transaction of an interrupted call may or may not
   have committed: the choice is an input ([landed]) *)
Record dstate := D { d_committed : list kv; d_acked : list msg; d_tried : list msg }.
Definition d0 := D [] [] [].

Definition dstep (landed : msg -> bool) (s : dstate) (o : sop) : dstate :=
  match o with
  | SStore m true => D (d_committed s ++ [entry_of m]) (d_acked s ++ [m]) (d_tried s ++ [m])
  | SStore m false => D (if landed m then d_committed s ++ [entry_of m] else d_committed s) (d_acked s) (d_tried s ++ [m])
  | SCrash => s            (* committed transactions survive the crash: the engine assumption *)
  | SRestartClean => s
  end.
