(* Model of internal/event/crdt (Volatile / Durable LWW maps) and of event.State.Merge.
   std++ style: a replica is a finite map from key ids to entries.  No proofs here.
   The Go Merge loops over the remote map's keys and treats each key independently of the others,
   so it is modelled point-wise with std++'s [merge]. *)
From stdpp Require Import gmap.
From Coq Require Import ZArith.
Local Open Scope Z_scope.

Record entry := Ent { e_add : Z; e_del : Z; e_val : list N }.
Definition zero_entry := Ent 0 0 [].
Notation replica := (gmap N entry).

Definition oget (o : option entry) : entry := match o with Some e => e | None => zero_entry end.
Definition fetch (s : replica) (k : N) : entry := oget (s !! k).

(* crdt.Value predicates *)
Definition is_zero (e : entry) : bool := (e_add e =? 0) && (e_del e =? 0).
Definition is_added (e : entry) : bool := negb (e_add e =? 0) && (e_del e <=? e_add e).
Definition is_removed (e : entry) : bool := e_add e <? e_del e.

(* Add / Del.  [now] is the clock reading tested by the guard, [now'] the one stored (Volatile
   reads the clock once, Durable twice). *)
Definition lww_add (s : replica) (k : N) (v : list N) (now now' : Z) : replica :=
  let t := fetch s k in
  if e_add t <? now then <[k := Ent now' (e_del t) v]> s else s.
Definition lww_del (s : replica) (k : N) (now now' : Z) : replica :=
  let t := fetch s k in
  if e_del t <? now then <[k := Ent (e_add t) now' (e_val t)]> s else s.

Definition has (s : replica) (k : N) : bool := is_added (fetch s k).

(* one key of the Merge loop: new local entry (None = untouched) and delta entry (None = deleted
   from the remote map) *)
Definition merge_entry (st rt : entry) : option entry * option entry :=
  let adv_a := e_add st <? e_add rt in
  let adv_d := e_del st <? e_del rt in
  let rt' := Ent (if adv_a then e_add rt else 0) (if adv_d then e_del rt else 0) (e_val rt) in
  if is_zero rt' then (None, None)
  else (Some (Ent (if adv_a then e_add rt else e_add st) (if adv_d then e_del rt else e_del st) (e_val rt)),
        Some rt').

Definition merge_local (so ro : option entry) : option entry :=
  match ro with
  | None => so
  | Some rt => match fst (merge_entry (oget so) rt) with
               | Some st' => Some st'
               | None => so
               end
  end.
Definition merge_delta (so ro : option entry) : option entry :=
  match ro with
  | None => None
  | Some rt => snd (merge_entry (oget so) rt)
  end.

Definition lww_merge (s r : replica) : replica := merge merge_local s r.
Definition lww_delta (s r : replica) : replica := merge merge_delta s r.

(* State.Merge: the three subsets are independent maps; key ids encode the subset.  The returned
   gossip data is nil exactly when the delta is empty. *)
Definition state_merge (s r : replica) : replica * option replica :=
  let d := lww_delta s r in
  (lww_merge s r, if decide (d = ∅) then None else Some d).

(* the time projection the property speaks about *)
Definition times (s : replica) (k : N) : Z * Z := (e_add (fetch s k), e_del (fetch s k)).
