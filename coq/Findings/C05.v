(* C05: schedules on which the faithful model (Model/Cluster.v) - and, replayed by the c05 harness,
   the real brokers - end with routing that differs from the ground truth although every link has
   drained and two rounds of full-state exchange have run. *)
From stdpp Require Import gmap.
From Coq Require Import ZArith List.
From Emitter Require Import Model.Lww Model.Cluster.
Import ListNotations.
Local Open Scope N_scope.

Definition exchange2 : list ev := [EGossip 1 2; EGossip 2 1; EDeliver 1 2; EDeliver 2 1].

(* F4 (with the coalescing of F8): broker 2's client subscribes and unsubscribes channel 2 before the
   link to broker 1 sends; only the removal is sent; the later full state carries (add, del) of which
   the add is new to broker 1 - Swarm.merge tests IsAdded on the DELTA (add, 0) and subscribes the
   peer for a subscription that is gone: broker 1 forwards channel 2 to broker 2 for ever *)
Definition f4_schedule : list ev :=
  [ESub 2 3 2 1160; EUnsub 2 3 2 1220; EDeliver 2 1] ++ exchange2.
Theorem C05_stale_add_refuted :
  let w := run [1; 2] f4_schedule in
  quiet w = true /\ bk_remote (get_broker w 1) = [(2, 2)] /\ truth_remote w 1 = [].
Proof. vm_compute. repeat split. Qed.

(* F7: broker 3 sees broker 2 go away while broker 2's client is subscribed to channel 1.
   NotifyUnsubscribe overwrites the event's peer with the local id before Swarm.onPeerOffline deletes
   "the dead peer's" event, so the tombstone is written under broker 3's own name.  Broker 3's own
   client is subscribed to channel 1 too; when the tombstone reaches broker 1 with the full state it
   decrements broker 3's counter for channel 1 and drops broker 3 from the routing: messages
   published on broker 1 no longer reach broker 3's live subscriber *)
Definition f7_schedule : list ev :=
  [ESub 3 4 1 1040; EDeliver 3 1; EDeliver 3 2; ESub 2 2 1 1050; EDeliver 2 3; EDeliver 2 1;
   EOffline 3 2 1080; EGossip 3 1; EDeliver 3 1].
Theorem C05_offline_tombstone_refuted :
  let w := run [1; 2; 3] (f7_schedule ++ [EDeliver 1 2; EDeliver 2 3; EDeliver 3 1; EDeliver 1 2]) in
  quiet w = true /\ bk_remote (get_broker w 1) = [(1, 2)]
  /\ receivers w 1 1 = [(2, 2)] /\ live_subscribers w 1 = [(2, 2); (3, 4)].
Proof. vm_compute. repeat split. Qed.
