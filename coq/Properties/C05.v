(* C05 - Cluster routing follows the replicated subscription state.
   Model: Model/Cluster.v (Swarm.Notify / merge / findPeer / onPeerOnline / onPeerOffline, Peer.subs,
   the remote entries of the trie, mesh's gossipSender buckets with the swarm's payload adapter), tied
   to real brokers over a simulated full mesh of real gossipSenders by the c05 harness on every run.

   Proved, for EVERY schedule - any interleaving of client subscribe / unsubscribe requests (bursts on
   one channel included) with deliveries in any order, coalescing of queued payloads, relaying,
   periodic complete states, peers declared unreachable and coming back:
   (a) every broker's routing for every peer in its member list is exactly a function of its
       replicated state, nothing is forwarded to a non-member (Proofs/ClusterProofs.v);
   (b) THE PROPERTY: once gossip has quiesced (no link holds anything) and every pair that was
       separated has come back, all brokers hold the same times for every entry, every broker forwards
       a channel to another broker exactly when that one has a live local subscriber for it, and a
       publish at any broker reaches exactly the live subscribers of its channel, each once
       (Proofs/ClusterConverge.v, Proofs/ClusterRoutes.v).  The proof is an invariant of the whole
       world: nobody knows more about an entry than its owner; what the owner knows is at the other
       broker or on the direct link towards it; a broker whose entries are active somewhere is a member
       there; a broker's own entries reflect its local subscriptions.
   Hypotheses on schedules (boolean, evaluated by the check on every schedule it replays on the real
   brokers): events name brokers of the cluster; the clock readings a broker uses for its own
   operations strictly increase (crdt.Now is the wall clock in nanoseconds); at the end no pair is
   separated.  Not modelled: mesh's topology gossip and routing (full mesh), wall-clock peer activity
   (all peers active). *)
From stdpp Require Import gmap.
From Coq Require Import ZArith List.
From Emitter Require Import Model.Lww Model.Sender Model.Cluster Model.ClusterSched Proofs.LwwProofs Proofs.ClusterProofs Findings.C05
     Proofs.ClusterLinks Proofs.ClusterConverge Proofs.ClusterRoutes.
Import ListNotations.
Local Open Scope N_scope.

(* one merge of ANY payload keeps the counters and the trie in step with the state *)
Theorem C05_merge_keeps_routing_in_step : forall b payload, INV b -> INV (fst (swarm_merge b payload)).
Proof. exact swarm_merge_INV. Qed.
Print Assumptions C05_merge_keeps_routing_in_step.

(* every broker of every schedule *)
Theorem C05_all_schedules_keep_routing_in_step : forall ns es, Forall wf_ev es -> WINV (run ns es).
Proof. exact all_schedules_keep_INV. Qed.
Print Assumptions C05_all_schedules_keep_routing_in_step.

(* what the invariant says about forwarding *)
Theorem C05_routing_is_a_function_of_the_state : forall b p,
  INV b -> p <> bk_name b ->
  match member_get (bk_members b) p with
  | Some _ => forall s, In (s, p) (bk_remote b) <-> exists k, k_peer k = p /\ k_ssid k = s /\ status (bk_state b) k = true
  | None => forall s, ~ In (s, p) (bk_remote b)
  end.
Proof.
  intros b p H Hp. destruct (member_get (bk_members b) p) as [cnt|] eqn:G.
  - apply (routes_by_state b p cnt H Hp G).
  - apply (no_route_without_member b p H Hp G).
Qed.
Print Assumptions C05_routing_is_a_function_of_the_state.

(* from there to the ground truth: when the observer's view of a member peer's entries has converged
   to that peer's own (which is what C04's convergence gives once gossip has quiesced), it forwards a
   channel to the peer exactly when the peer has a live local subscriber for it; the peer's own
   entries reflect its local subscriptions (OWN), an invariant of its own client operations *)
Theorem C05_converged_routing_is_the_truth : forall b bp cnt,
  INV b -> OWN bp -> bk_name bp <> bk_name b ->
  member_get (bk_members b) (bk_name bp) = Some cnt ->
  (forall k, k_peer k = bk_name bp -> status (bk_state b) k = status (bk_state bp) k) ->
  forall s, In (s, bk_name bp) (bk_remote b) <-> exists conn, In (s, conn) (bk_local bp).
Proof. exact converged_routing_is_the_truth. Qed.
Print Assumptions C05_converged_routing_is_the_truth.

Theorem C05_own_entries_reflect_local_subscriptions : forall b conn ssid t,
  conn < kbase -> ssid < kbase -> (0 < t)%Z -> clock_ahead (bk_state b) t -> nonneg (bk_state b) -> OWN b ->
  OWN (fst (local_sub b conn ssid t)) /\ OWN (fst (local_unsub b conn ssid t))
  /\ (forall payload, bk_local (fst (swarm_merge b payload)) = bk_local b).
Proof.
  intros. split; [apply OWN_local_sub; assumption|]. split; [apply OWN_local_unsub; assumption|]. intros. apply swarm_merge_local.
Qed.
Print Assumptions C05_own_entries_reflect_local_subscriptions.

(* transport: whatever is queued on a link before it sends, the payload sent carries all of it
   (C13_coalesce); a payload queued on an empty slot is sent as it is *)
Theorem C05_transport_keeps_everything : forall pending data,
  sender_send None data = Some data /\ sender_send (Some pending) data = Some (lww_merge pending data).
Proof. intros. split; reflexivity. Qed.
Print Assumptions C05_transport_keeps_everything.

(* the schedules that used to refute the property (findings F4 / F5, F7, F7c - all repaired) now end
   with every broker's routing equal to the ground truth *)
Theorem C05_former_witnesses_route_correctly :
  (let w := run [1; 2] f5_schedule in quiet w && routing_ok w) = true
  /\ (let w := run [1; 2; 3] f7_schedule in quiet w && routing_ok w) = true
  /\ (let w := run [1; 2] f7c_schedule in quiet w && routing_ok w) = true.
Proof. exact C05_former_witnesses_route_correctly. Qed.
Print Assumptions C05_former_witnesses_route_correctly.


(* ---- the property itself ---- *)
(* once gossip has quiesced and every separated pair is back, on EVERY schedule: all views agree on
   the times of every entry, and every broker forwards a channel to another broker exactly when that
   broker has a live local subscriber for it *)
Theorem C05_quiescent_views_agree_and_routing_is_the_truth : forall ns es,
  List.NoDup ns -> sched_ok ns ghost0 es -> all_up ns (grun es) -> quiet (run ns es) = true ->
  (forall a b, In a ns -> In b ns -> forall k, times (S (run ns es) a) k = times (S (run ns es) b) k)
  /\ (forall b p, In b ns -> In p ns -> b <> p -> forall s,
        In (s, p) (bk_remote (get_broker (run ns es) b)) <-> exists conn, In (s, conn) (bk_local (get_broker (run ns es) p))).
Proof. exact schedules_converge. Qed.
Print Assumptions C05_quiescent_views_agree_and_routing_is_the_truth.

(* the same in the executable terms of the correspondence check: hypotheses as booleans, conclusion
   the check's own comparison of every broker's remote entries with the ground truth *)
Theorem C05_quiescent_routing_ok : forall ns es,
  nodupb ns = true -> sched_okb ns ghost0 es = true -> all_upb ns (grun es) = true -> quiet (run ns es) = true ->
  routing_ok (run ns es) = true.
Proof. exact quiescent_routing_ok. Qed.
Print Assumptions C05_quiescent_routing_ok.

(* a publish at any broker reaches exactly the live subscribers of its channel, each once *)
Theorem C05_quiescent_delivery_exactly_once : forall ns es,
  nodupb ns = true -> sched_okb ns ghost0 es = true -> all_upb ns (grun es) = true -> quiet (run ns es) = true ->
  forall b s, In b ns ->
    List.NoDup (receivers (run ns es) b s)
    /\ forall x, In x (receivers (run ns es) b s) <-> In x (live_subscribers (run ns es) s).
Proof. exact quiescent_delivery. Qed.
Print Assumptions C05_quiescent_delivery_exactly_once.

(* the invariant behind it, for every schedule (quiescent or not) *)
Theorem C05_world_invariant : forall ns es, List.NoDup ns -> sched_ok ns ghost0 es -> CONV ns (run ns es) (grun es).
Proof. exact CONV_run. Qed.
Print Assumptions C05_world_invariant.

(* the hypotheses are met by schedules with bursts, coalescing, complete states, a peer collected and back *)
Theorem C05_hypotheses_met :
  (sched_okb [1; 2] ghost0 f5_schedule && all_upb [1; 2] (grun f5_schedule) && quiet (run [1; 2] f5_schedule)) = true
  /\ (sched_okb [1; 2; 3] ghost0 f7_schedule && all_upb [1; 2; 3] (grun f7_schedule) && quiet (run [1; 2; 3] f7_schedule)) = true
  /\ (sched_okb [1; 2] ghost0 f7c_schedule && all_upb [1; 2] (grun f7c_schedule) && quiet (run [1; 2] f7c_schedule)) = true.
Proof. exact hypotheses_met. Qed.
Print Assumptions C05_hypotheses_met.

(* the invariant is not vacuous: a broker that merged a coalesced unsubscribe-and-resubscribe (the
   payload that the delta-counting merge counted twice) and the final unsubscribe *)
Example C05_nonvacuous :
  let k := mk_key 1 7 2 in
  let b1 := fst (swarm_merge (broker0 2) {[k := Ent 10 0 []]}) in
  let b2 := fst (swarm_merge b1 {[k := Ent 30 20 []]}) in
  let b3 := fst (swarm_merge b2 {[k := Ent 30 40 []]}) in
  bk_remote b1 = [(2, 1)] /\ bk_remote b2 = [(2, 1)] /\ bk_remote b3 = [] /\ bk_members b3 = [(1, [])].
Proof. vm_compute. repeat split. Qed.
