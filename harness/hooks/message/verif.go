//go:build verif

package message

import "sync/atomic"

// VerifNext returns the current value of the id sequence counter.
func VerifNext() uint32 { return atomic.LoadUint32(&next) }

// VerifSetNext sets the id sequence counter (to reach wrap-around values).
func VerifSetNext(v uint32) { atomic.StoreUint32(&next, v) }

// VerifUnique returns the process-wide random word of message ids.
func VerifUnique() uint32 { return unique }

// VerifPair is one stored (filter, subscriber) pair of the trie.
type VerifPair struct {
	Ssid []uint32
	Sub  uint32 // key of the subscriber in message.Subscribers (hash of its id)
}

// VerifDump returns the number of nodes of the trie and every stored pair.
func (t *Trie) VerifDump() (nodes int, pairs []VerifPair) {
	t.RLock()
	defer t.RUnlock()
	var walk func(n *node, path []uint32)
	walk = func(n *node, path []uint32) {
		nodes++
		for k := range n.subs {
			pairs = append(pairs, VerifPair{Ssid: append([]uint32{}, path...), Sub: k})
		}
		for w, c := range n.children {
			walk(c, append(append([]uint32{}, path...), w))
		}
	}
	walk(t.root, nil)
	return
}
