(* weaveworks/mesh gossipSender (gossip.go: Send / Broadcast / pick) with what emitter's Swarm hands
   to it as GossipData: a [payload] (cluster/swarm.go) around an event.State.  payload.Merge keeps
   the union of both payloads in the pending object; the complete (live) state supersedes pending
   deltas and absorbs nothing (it contains everything that was relayed).
   [sender_send_raw] is event.State.Merge used directly as GossipData.Merge - what the code did
   before the adapter existed: it returns the argument reduced to a delta (or nil), not the union
   mesh expects (Findings/C13.v). *)
From stdpp Require Import gmap.
From Coq Require Import ZArith.
From Emitter Require Import Model.Lww.

(* the per-link slot for payloads that are deltas / single operations *)
Definition sender_send (pending : option replica) (data : replica) : option replica :=
  match pending with
  | None => Some data
  | Some p => Some (lww_merge p data)     (* p.state.Merge(o.state); return p *)
  end.

Definition sender_send_raw (pending : option replica) (data : replica) : option replica :=
  match pending with
  | None => Some data
  | Some p => snd (state_merge p data)       (* s.gossip = s.gossip.Merge(data) with State.Merge *)
  end.

Definition queue_all (send : option replica -> replica -> option replica) (ps : list replica) : option replica :=
  fold_left send ps None.

(* the gossip slot, which may also hold the complete state *)
Inductive slot := SNone | SData (r : replica) | SFull.
Definition slot_send (s : slot) (full : bool) (data : replica) : slot :=
  match s with
  | SFull => SFull
  | SNone => if full then SFull else SData data
  | SData p => if full then SFull else SData (lww_merge p data)
  end.
(* what is encoded when the slot is picked; [live] = the complete state at that moment *)
Definition slot_payload (live : replica) (s : slot) : option replica :=
  match s with SNone => None | SData r => Some r | SFull => Some live end.
