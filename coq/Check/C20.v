(* Correspondence cases of C20. *)
From Emitter Require Import Lib.Base Model.MsgCodec Model.Cipher.

Inductive lic_outcome := LicOk | LicErr | LicPanic.

Inductive case :=
| CLic1 (l : lic1) (raw : bytes) (impl_roundtrip : bool)
| CLic2 (l : lic2) (inner : bytes) (impl_roundtrip : bool)
| CKey (c : cipher) (k : bytes) (impl_enc : bytes) (impl_dec : res kerr bytes)
| CStr (c : cipher) (s : bytes) (impl_dec : res kerr bytes)
(* Parse of a licence string: version class (1 = v1 path, 2 = v2/v3), length of the string, the
   base64-decoded body when it decodes, observed outcome *)
| CLicStr (ver len_s : N) (raw : option bytes) (outcome : lic_outcome).

Definition kres_eqb (a b : res kerr bytes) : bool :=
  match a, b with
  | Ok x, Ok y => bytes_eqb x y
  | Err KBadLength, Err KBadLength | Err KCorrupt, Err KCorrupt => true
  | Panic, Panic => true
  | _, _ => false
  end.

Definition in_alphabet (c : N) : bool := negb (dec_char c =? 255).

Definition lic1_eqb (a b : lic1) : bool :=
  bytes_eqb (l1_key a) (l1_key b) && (l1_user a =? l1_user b) && (l1_sign a =? l1_sign b)
  && (l1_expiry a =? l1_expiry b) && (l1_type a =? l1_type b).
Definition lic2_eqb (a b : lic2) : bool :=
  bytes_eqb (l2_key a) (l2_key b) && bytes_eqb (l2_salt a) (l2_salt b) && (l2_user a =? l2_user b)
  && (l2_sign a =? l2_sign b) && (l2_index a =? l2_index b).

Definition check (c : case) : N :=
  match c with
  | CLic1 l raw ok =>
    bit (bytes_eqb (lic1_raw l) raw) 1
    |+| bit (match parse1_raw raw with Ok l' => lic1_eqb l l' | _ => false end) 1
    |+| bit ok 2
  | CLic2 l inner ok =>
    bit (bytes_eqb (lic2_inner l) inner) 1
    |+| bit (match parse2_inner inner with Ok l' => lic2_eqb l l' | _ => false end) 1
    |+| bit ok 2
  | CKey c k e d =>
    bit (bytes_eqb (encrypt_key c k) e) 1
    |+| bit (kres_eqb (decrypt_key c e) d) 1
    (* oracle: 32 URL-safe characters that decrypt to the same key *)
    |+| bit ((len e =? 32) && forallb in_alphabet e) 2
    |+| bit (kres_eqb d (Ok k)) 2
  | CStr c s d =>
    bit (kres_eqb (decrypt_key c s) d) 1
    (* oracle: strings that are not 32 valid characters are rejected with an error *)
    |+| (if (len s =? 32) && forallb in_alphabet s then 0
         else bit (match d with Err _ => true | _ => false end) 2)
  | CLicStr ver len_s raw outcome =>
    (* model of the v1 path: short strings are refused, undecodable bodies are errors, decoded
       bodies shorter than 32 bytes are refused (fix of F13), otherwise a licence *)
    (if ver =? 1 then
       bit (match outcome, raw with
            | LicErr, None => true
            | _, None => len_s <? 5
            | o, Some r => if len_s <? 5 then match o with LicErr => true | _ => false end
                           else match parse1_raw r, o with
                                | Ok _, LicOk => true
                                | Panic, LicErr => true       (* refused with an error *)
                                | _, _ => false
                                end
            end) 1
     else 0)
    (* oracle: a licence or an error, never a panic *)
    |+| bit (match outcome with LicPanic => false | _ => true end) 2
  end.
