(* C15 - Stored messages survive broker restarts and crashes.
   What is emitter's own logic: Store returns only after the engine's transaction committed, the
   entry written is (id, Encode(message), id time + ttl), and a query after the restart decodes the
   surviving values.  Model: Model/StoreLog.v over an engine whose committed transactions are durable
   and atomic - an ASSUMPTION about badger (SyncWrites = false: durable against process death, not
   machine crash), which the c15 harness validates on every run by killing a storing child process
   at arbitrary moments (and stopping it while it is still storing) and reopening the directory. *)
From Emitter Require Import Lib.Base Model.MsgCodec Model.Store Model.StoreLog Proofs.MsgCodecProofs Proofs.StoreLogProofs.

(* for every history of stores, crashes at any point (also inside a store call) and restarts:
   every acknowledged message is recovered with identical id, channel, payload and ttl (its entry
   is committed and decodes back to it; the expiry written is the id's time plus the ttl), and
   nothing is recovered that was never handed to Store *)
Theorem C15_acked_survive_nothing_invented : forall landed ops,
  let s := fold_left (dstep landed) ops d0 in
  (forall m, In m (d_acked s) -> msg_ok m ->
     exists e, In e (d_committed s) /\ recover e = Ok m /\ kv_key e = m_id m
               /\ kv_expires e = (match id_time (m_id m) with Ok t => t + Z.of_N (m_ttl m) | _ => 0 end)%Z)
  /\ (forall e, In e (d_committed s) -> exists m, In m (d_tried s) /\ e = entry_of m).
Proof.
  intros landed ops. destruct (acked_survive landed ops d0) as [A B]; [intros m [] | intros e [] |].
  split; [|exact B]. intros m Hm Hok. exists (entry_of m). split; [apply A; exact Hm|]. split; [apply recover_entry; exact Hok|]. split; reflexivity.
Qed.
Print Assumptions C15_acked_survive_nothing_invented.

Example C15_nonvacuous :
  let m := Msg [1; 2; 3] [97] [5; 6] 60 in
  let s := fold_left (dstep (fun _ => false)) [SStore m true; SCrash; SStore m false; SRestartClean] d0 in
  d_acked s = [m] /\ map recover (d_committed s) = [Ok m].
Proof. vm_compute. split; reflexivity. Qed.
