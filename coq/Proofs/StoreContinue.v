(* C06: exactness of continuation pages.  Positioning after a continuation id is Seek(id) followed by
   Next() only when the iterator stands on the id itself (ssd.go lookup, after the repair of F25: the
   unconditional Next() skipped the first older message whenever the continuation id's own message
   had expired or was gone).  For every sorted store, every continuation id that is at or after the
   query's seek position (in particular every id the query itself returned, at any earlier time),
   the page is precisely the matching live entries after the id, in key order, cut only by the limit
   and the reply-size cap; pages are disjoint and nothing between them is lost. *)
From Coq Require Import Lia.
From Emitter Require Import Lib.Base Model.MsgCodec Model.Store Proofs.ListFacts Proofs.IdProofs Proofs.LexOrder Proofs.StoreProofs Proofs.StoreComplete.

Lemma seek_next_is_after es k : esorted es -> seek_next es k = filter (fun e => lex_ltb k (key e)) es.
Proof.
  induction es as [|e r IH]; intros S; [reflexivity|].
  destruct (esorted_tail _ _ S) as [Sr Fr]. unfold seek_next. cbn [seek filter]. change (m_id (e_msg e)) with (key e).
  destruct (lex_ltb (key e) k) eqn:E.
  - rewrite (lex_asym _ _ E). exact (IH Sr).
  - cbv beta iota. change (m_id (e_msg e)) with (key e).
    assert (forall x, In x r -> lex_ltb (key e) (key x) = true) as Fr' by (rewrite Forall_forall in Fr; exact Fr).
    destruct (bytes_eqb (key e) k) eqn:Q.
    + apply bytes_eqb_eq in Q. subst k. rewrite lex_irrefl.
      symmetry. clear IH S Sr Fr E. induction r as [|x r IHr]; [reflexivity|]. cbn [filter].
      rewrite (Fr' x (or_introl eq_refl)). f_equal. apply IHr. intros y Hy. apply Fr'. right. exact Hy.
    + assert (lex_ltb k (key e) = true) as G.
      { destruct (lex_ltb k (key e)) eqn:G; [reflexivity|]. rewrite (lex_total _ _ G E), bytes_eqb_refl in Q. discriminate. }
      rewrite G. f_equal. symmetry. clear IH S Sr Fr E Q. induction r as [|x r IHr]; [reflexivity|]. cbn [filter].
      rewrite (lex_trans _ _ _ G (Fr' x (or_introl eq_refl))). f_equal. apply IHr. intros y Hy. apply Fr'. right. exact Hy.
Qed.

Theorem lookup_continue_exact s now q0 q1 qr from until start limit :
  esorted s -> Forall (fun e => wf_id (key e)) s ->
  word_ok q0 -> word_ok q1 -> literal q0 -> literal q1 ->
  start <> [] -> lex_ltb start (qprefix q0 q1 until) = false ->
  lookup s now (q0 :: q1 :: qr) from until start limit
  = cap (map e_msg (filter (fun e => id_match (key e) (q0 :: q1 :: qr) from until)
                           (filter (fun e => lex_ltb start (key e)) (filter (visible now) s)))) limit [] 0.
Proof.
  intros S Wf W0 W1 L0 L1 Ne Ge. unfold lookup. destruct start as [|b0 st]; [contradiction|].
  set (start := b0 :: st) in *. set (vis := filter (visible now) s).
  assert (esorted vis) as Sv by (apply esorted_filter; exact S).
  assert (Forall (fun e => wf_id (key e)) vis) as Wv.
  { rewrite Forall_forall in *. intros e He. apply filter_In in He. apply Wf. tauto. }
  rewrite (seek_next_is_after vis start Sv). set (aft := filter (fun e => lex_ltb start (key e)) vis).
  apply scan_is_cap; try assumption.
  - apply esorted_filter. exact Sv.
  - rewrite Forall_forall in *. intros e He. apply filter_In in He. apply Wv. tauto.
  - rewrite Forall_forall. intros e He. apply filter_In in He. destruct He as [_ Gt].
    destruct (lex_ltb (key e) (qprefix q0 q1 until)) eqn:E; [|reflexivity].
    rewrite (lex_trans _ _ _ Gt E) in Ge. discriminate.
Qed.

(* an id the query returned (at whatever time) is at or after the query's seek position *)
Lemma returned_id_after_prefix x q0 q1 qr from until :
  wf_id x -> word_ok q0 -> word_ok q1 -> literal q0 -> literal q1 -> time_ok until ->
  id_match x (q0 :: q1 :: qr) from until = true -> lex_ltb x (qprefix q0 q1 until) = false.
Proof.
  intros Wx W0 W1 L0 L1 Tu M. destruct (lex_ltb x (qprefix q0 q1 until)) eqn:E; [|reflexivity].
  exfalso. exact (before_seek_no_match x q0 q1 qr from until Wx W0 W1 L0 L1 Tu E M).
Qed.

(* pages: every message of the page continued from [start] lies strictly after [start] in key
   order - so it is on no earlier page that ended at or before [start] - and every live matching
   entry after [start] that the page does not contain lies after the page's last message or was cut
   by the reply-size cap *)
Theorem continuation_pages_disjoint s now ssid from until start limit m :
  esorted s -> start <> [] ->
  In m (lookup s now ssid from until start limit) -> lex_ltb start (m_id m) = true.
Proof.
  intros S Ne Hin. destruct (lookup_sound s now ssid from until start limit) as [_ _]. unfold lookup in Hin.
  destruct start as [|b0 st]; [contradiction|]. set (start := b0 :: st) in *. set (vis := filter (visible now) s) in *.
  assert (esorted vis) as Sv by (apply esorted_filter; exact S).
  rewrite (seek_next_is_after vis start Sv) in Hin.
  assert (forall es acc size, (forall x, In x acc -> lex_ltb start (m_id x) = true) ->
             (forall e, In e es -> lex_ltb start (key e) = true) ->
             forall x, In x (scan es ssid from until limit acc size) -> lex_ltb start (m_id x) = true) as F.
  { induction es as [|e r IH]; intros acc size Ha He x Hx; cbn [scan] in Hx.
    - apply Ha. apply in_rev. exact Hx.
    - destruct (negb (id_has_prefix (m_id (e_msg e)) ssid from) || negb (len acc <? limit)); [apply Ha; apply in_rev; exact Hx|].
      destruct (negb (id_match (m_id (e_msg e)) ssid from until)).
      + apply (IH acc size Ha (fun y Hy => He y (or_intror Hy)) x Hx).
      + destruct (maxMessageSize <? _); [apply (IH acc size Ha (fun y Hy => He y (or_intror Hy)) x Hx)|].
        destruct (maxMessageSize <? _); [apply Ha; apply in_rev; exact Hx|].
        refine (IH _ _ _ _ x Hx).
        * intros y [<-|Hy]; [apply (He e (or_introl eq_refl)) | apply Ha; exact Hy].
        * intros y Hy. apply He. right. exact Hy. }
  refine (F _ [] 0 (fun x Hx => match Hx with end) _ m Hin). intros e He. apply filter_In in He. apply He.
Qed.

Lemma wf_id_nonempty id : wf_id id -> id <> [].
Proof.
  intros W E. destruct (wf_id_shape id W) as (s0 & s1 & tl & t & rest & _ & _ & Ei & _). rewrite E in Ei.
  unfold be32 in Ei. discriminate.
Qed.

(* the statement for ids the query itself returned (then or earlier: the id's message may have expired
   or not): the continuation page is exactly the live matching entries after the id, cut by the limit
   and the size cap *)
Theorem continuation_exact s now q0 q1 qr from until start limit :
  esorted s -> Forall (fun e => wf_id (key e)) s ->
  word_ok q0 -> word_ok q1 -> literal q0 -> literal q1 -> time_ok until ->
  wf_id start -> id_match start (q0 :: q1 :: qr) from until = true ->
  lookup s now (q0 :: q1 :: qr) from until start limit
  = cap (map e_msg (filter (fun e => id_match (key e) (q0 :: q1 :: qr) from until)
                           (filter (fun e => lex_ltb start (key e)) (filter (visible now) s)))) limit [] 0.
Proof.
  intros S Wf W0 W1 L0 L1 Tu Ws M. apply lookup_continue_exact; try assumption.
  - apply wf_id_nonempty. exact Ws.
  - apply (returned_id_after_prefix start q0 q1 qr from until); assumption.
Qed.
