(* C03's specification of "the key's target covers the requested channel", on channel levels. *)
From Emitter Require Import Lib.Base Model.Channel Model.Key.

Definition is_wild_part (p : bytes) : bool := bytes_eqb p plus || bytes_eqb p hashs.

(* levels of a target or request string "a/b/+/" or "a/b/#/": the parts, and whether it ends
   in the multi-level wildcard *)
Definition levels (s : bytes) : list bytes * bool :=
  match rev s with
  | c :: r => let body := if c =? sep then rev r else s in
              let parts := split_on sep body [] in
              if last_is parts hashs then (drop_last parts, true) else (parts, false)
  | [] => ([], false)
  end.

(* equal levels where the target has literals (a request wildcard is not accepted there), any
   level where it has a wildcard *)
Fixpoint levels_cover (t r : list bytes) : bool :=
  match t, r with
  | [], _ => true
  | _ :: _, [] => false
  | a :: t', b :: r' => (is_wild_part a || (bytes_eqb a b && negb (bytes_eqb b plus))) && levels_cover t' r'
  end.

(* same depth for exact targets, at least that depth for '#/' targets; the depth of a request does
   not count one trailing '#' *)
Definition covers (target request : bytes) : bool :=
  let '(tp, tw) := levels target in
  let '(rp, _) := levels request in
  (if tw then len tp <=? len rp else len tp =? len rp) && levels_cover tp rp.

(* known finding F2: targets with a wildcard level after their last literal level (incl. targets
   without any literal level, except the bare "#/") lose their depth in the 24-bit path *)
Fixpoint has_literal (t : list bytes) : bool :=
  match t with [] => false | a :: r => negb (is_wild_part a) || has_literal r end.
Definition trailing_wildcard (target : bytes) : bool :=
  let '(tp, _) := levels target in
  match rev tp with
  | [] => false
  | lastp :: _ => is_wild_part lastp
  end.
