(* Request-level statements over the generic broker model, under the index contract IxSpec. *)
From Coq Require Import Lia.
From Emitter Require Import Lib.Base Model.MsgCodec Model.Murmur Model.Channel Model.Cipher Model.Key
     Model.Trie Model.Store Model.Broker Spec.PubSub Spec.BrokerSpec Proofs.ListFacts Proofs.TrieProofs Proofs.BrokerProofs.

Section generic.
Context {I : Type} (X : ixops I) (abs : I -> list (list N * N)) (inv : I -> Prop) (okf : list N -> Prop) (HS : IxSpec X abs inv okf).
Notation broker := (@broker I).

Definition clear_out (b : broker) : broker := B (b_trie b) (b_conns b) (b_store b) (b_seq b) (b_queue b) [].

(* ---- C02: who receives a publish ---- *)
Theorem delivery_exact mqtt (b : broker) ssid ch payload exclude :
  inv (b_trie b) ->
  let b' := deliver X mqtt b ssid ch payload exclude in
  ext b b'
  /\ exists tg, b_out b' = b_out b ++ map (fun i => (i, PMsg ch payload)) tg /\ NoDup tg
     /\ forall i, In i tg <-> exists s f, In (f, s) (abs (b_trie b)) /\ matches mqtt f ssid = true
                                       /\ conn_of_sub (b_conns b) s 0 = Some i /\ exclude <> Some s.
Proof.
  intros Hi b'. destruct (deliver_exact X mqtt b ssid ch payload exclude) as [E O].
  destruct (ixs_lookup X abs inv okf HS mqtt ssid (b_trie b) Hi) as [ND L].
  split; [exact E|]. exists (targets X mqtt b ssid exclude). split; [exact O|]. split.
  - unfold targets. apply NoDup_targets. exact ND.
  - intros i. rewrite in_targets. split.
    + intros (s & A & B & C). apply L in A. destruct A as (f & A & M). exists s, f. auto.
    + intros (s & f & A & M & B & C). exists s. split; [apply L; exists f; auto | auto].
Qed.

(* ---- C02: a request that fails parsing or authorization changes nothing ---- *)
Theorem failed_subscribe_changes_nothing e (b : broker) i c mid topic qos b1 st :
  get_conn (b_conns b) (N.to_nat i) = Some c ->
  on_subscribe X e (clear_out b) i c topic = (b1, Some st) ->
  let r := step X e b i (OSub mid topic qos) in
  b_trie r = b_trie b /\ b_conns r = b_conns b /\ b_store r = b_store b /\ b_seq r = b_seq b
  /\ exists notes, b_out r = [(i, PError st mid); (i, PSuback mid [128])] ++ notes.
Proof.
  intros G H r. unfold r, step. fold (clear_out b). cbn [b_conns clear_out]. rewrite G. rewrite H.
  apply on_subscribe_error in H. subst b1.
  destruct (dispatch_state X e (emit (emit (clear_out b) i (PError st mid)) i (PSuback mid [128]))) as (A1 & A2 & A3 & A4 & _ & more & A6).
  rewrite A1, A2, A3, A4, A6. cbn. repeat (split; [reflexivity|]). exists more. reflexivity.
Qed.

Theorem failed_unsubscribe_changes_nothing e (b : broker) i c mid topic b1 st :
  get_conn (b_conns b) (N.to_nat i) = Some c ->
  on_unsubscribe X e (clear_out b) i c topic = (b1, Some st) ->
  let r := step X e b i (OUnsub mid topic) in
  b_trie r = b_trie b /\ b_conns r = b_conns b /\ b_store r = b_store b /\ b_seq r = b_seq b
  /\ exists notes, b_out r = [(i, PError st mid); (i, PUnsuback mid)] ++ notes.
Proof.
  intros G H r. unfold r, step. fold (clear_out b). cbn [b_conns clear_out]. rewrite G. rewrite H.
  apply on_unsubscribe_error in H. subst b1.
  destruct (dispatch_state X e (emit (emit (clear_out b) i (PError st mid)) i (PUnsuback mid))) as (A1 & A2 & A3 & A4 & _ & more & A6).
  rewrite A1, A2, A3, A4, A6. cbn. repeat (split; [reflexivity|]). exists more. reflexivity.
Qed.

Theorem failed_publish_changes_nothing e (b : broker) i c mid retain topic payload b1 st :
  get_conn (b_conns b) (N.to_nat i) = Some c ->
  on_publish X e (clear_out b) i c mid retain topic payload ENone = (b1, Some st) ->
  let r := step X e b i (OPub mid retain topic payload) in
  b_trie r = b_trie b /\ b_conns r = b_conns b /\ b_store r = b_store b /\ b_seq r = b_seq b
  /\ exists notes, b_out r = [(i, PError st mid); (i, PPuback mid)] ++ notes.
Proof.
  intros G H r. unfold r, step. fold (clear_out b). cbn [b_conns clear_out]. rewrite G. rewrite H.
  apply on_publish_error in H. subst b1.
  destruct (dispatch_state X e (emit (emit (clear_out b) i (PError st mid)) i (PPuback mid))) as (A1 & A2 & A3 & A4 & _ & more & A6).
  rewrite A1, A2, A3, A4, A6. cbn. repeat (split; [reflexivity|]). exists more. reflexivity.
Qed.

(* ---- C07: what an accepted publish stores ---- *)
Definition publish_ttl (retain : bool) (ch : chan) : N :=
  let ttl0 := if retain then retainedTTL else 0 in
  match get_option s_ttl (c_opts ch) with
  | Some v => if (0 <? v)%Z then u32z v else ttl0
  | None => ttl0
  end.

Theorem accepted_publish_stores_iff e (b : broker) i c mid retain topic payload r k :
  let ch := parse_channel (get_link c topic) in
  (c_type ch =? ChannelInvalid) = false -> (c_type ch =? ChannelStatic) = true ->
  bytes_eqb (c_key ch) s_emitter = false ->
  auth e ch AllowWrite = Some k -> has_permission k AllowExtend = false ->
  let ssid := key_contract k :: c_query ch in
  let ttl := publish_ttl retain ch in
  exists b', on_publish X e b i c mid retain topic payload r = (b', None)
    /\ b_store b' = (if (0 <? ttl) && has_permission k AllowStore
                     then store_msg (e_retain e) (b_store b) (Msg (fresh_id e b ssid) (c_chan ch) payload ttl)
                     else b_store b)
    /\ b_trie b' = b_trie b /\ b_conns b' = b_conns b.
Proof.
  intros ch T1 T2 K A E ssid ttl. unfold on_publish. fold ch. rewrite T1, T2. cbn [negb]. rewrite K, A, E.
  eexists. split; [reflexivity|].
  match goal with |- context [deliver X ?m ?b1 ?s ?c ?p ?x] => destruct (deliver_exact X m b1 s c p x) as [(D1 & D2 & D3 & _) _] end.
  rewrite D3, D1, D2. unfold ttl, publish_ttl, ssid. rewrite store_if_store.
  match goal with |- context [b_trie (store_if e b k ?s ?c ?p ?t)] => destruct (store_if_rest e b k s c p t) as (S1 & S2 & _) end.
  rewrite S1, S2. auto.
Qed.

(* ---- C07: replay precedes the SUBACK ---- *)
Lemma fold_emit_out (i : N) (f : msg -> pkt) : forall (l : list msg) (b : broker),
  ext b (fold_left (fun acc m => emit acc i (f m)) l b)
  /\ b_out (fold_left (fun acc m => emit acc i (f m)) l b) = b_out b ++ map (fun m => (i, f m)) l.
Proof.
  induction l as [|m l IH]; intros b; cbn [fold_left map]; [split; [apply ext_refl | rewrite app_nil_r; reflexivity]|].
  destruct (IH (emit b i (f m))) as [E O]. split; [eapply ext_trans; [apply ext_emit | exact E]|].
  rewrite O. cbn. rewrite <- app_assoc. reflexivity.
Qed.

Definition is_presence (x : N * pkt) : Prop := match snd x with PPresence _ _ _ _ => True | _ => False end.

Lemma dispatch_only_presence e : forall (b : broker),
  exists notes, b_out (dispatch X e b) = b_out b ++ notes /\ Forall is_presence notes.
Proof.
  intros b. unfold dispatch. cbn [b_out].
  assert (forall q (acc : broker), exists notes,
            b_out (fold_left (fun acc n =>
                         fold_left (fun acc2 s =>
                                      match conn_of_sub (b_conns acc2) s 0 with
                                      | Some i => emit acc2 i (PPresence (nf_sub n) (nf_chan n) (nf_who n) (nf_user n))
                                      | None => acc2
                                      end)
                                   (ix_lookup X (e_mqtt e) (nf_ssid n) (b_trie acc)) acc) q acc) = b_out acc ++ notes
            /\ Forall is_presence notes) as H.
  { induction q as [|n q IH]; intros acc; cbn [fold_left]; [exists []; rewrite app_nil_r; split; [reflexivity | constructor]|].
    pose proof (deliver_fold (PPresence (nf_sub n) (nf_chan n) (nf_who n) (nf_user n)) None (b_conns acc)
                             (ix_lookup X (e_mqtt e) (nf_ssid n) (b_trie acc)) acc eq_refl) as [_ O]. cbn beta in O.
    match goal with |- context [fold_left _ q ?a] => destruct (IH a) as (notes & O2 & F) end.
    eexists. split; [rewrite O2, O, <- app_assoc; reflexivity|].
    apply Forall_app. split; [|exact F]. apply Forall_forall. intros x Hx. apply in_map_iff in Hx. destruct Hx as (j & <- & _). exact Logic.I. }
  apply H.
Qed.

Theorem replay_precedes_suback e (b : broker) i c mid topic qos b1 :
  get_conn (b_conns b) (N.to_nat i) = Some c ->
  on_subscribe X e (clear_out b) i c topic = (b1, None) ->
  exists replay notes,
    b_out (step X e b i (OSub mid topic qos)) = map (fun m => (i, PMsg (m_chan m) (m_payload m))) replay ++ [(i, PSuback mid [qos])] ++ notes
    /\ Forall is_presence notes
    /\ b_out b1 = map (fun m => (i, PMsg (m_chan m) (m_payload m))) replay.
Proof.
  intros G H. unfold step. fold (clear_out b). cbn [b_conns clear_out]. rewrite G, H.
  destruct (dispatch_only_presence e (emit b1 i (PSuback mid [qos]))) as (notes & O & F).
  assert (exists replay, b_out b1 = map (fun m => (i, PMsg (m_chan m) (m_payload m))) replay) as (replay & R).
  { revert H. unfold on_subscribe. destruct (c_type _ =? ChannelInvalid); [discriminate|].
    destruct (auth e _ AllowRead) as [k|]; [|discriminate].
    destruct (has_permission k AllowExtend); [discriminate|].
    match goal with |- context [subscribe_ev X ?bb i c ?ss ?cc] => set (b2 := subscribe_ev X bb i c ss cc) end.
    assert (b_out b2 = []) as O2.
    { unfold b2. destruct (has_ctr c (key_contract k :: c_query (parse_channel (repl_dslash (repl_hash topic))))) eqn:E.
      - rewrite subscribe_ev_repeat by exact E. reflexivity.
      - destruct (subscribe_ev_effect X (clear_out b) i c _ (c_chan (parse_channel (repl_dslash (repl_hash topic)))) E) as (_ & _ & O3 & _). rewrite O3. reflexivity. }
    destruct (has_permission k AllowLoad).
    - destruct (chan_window _) as [t0 t1]. intros H. inversion H; subst.
      match goal with |- context [fold_left _ ?l b2] => exists l; destruct (fold_emit_out i (fun m => PMsg (m_chan m) (m_payload m)) l b2) as [_ O4] end.
      rewrite O4, O2. reflexivity.
    - intros H. inversion H; subst. exists []. exact O2. }
  exists replay, notes. rewrite O. cbn [emit b_out]. rewrite R, <- app_assoc. auto.
Qed.

(* a subscription without the load permission replays nothing; with it, what the store query returns *)
Theorem replay_is_query e (b : broker) i c topic k :
  let ch := parse_channel (repl_dslash (repl_hash topic)) in
  (c_type ch =? ChannelInvalid) = false -> auth e ch AllowRead = Some k -> has_permission k AllowExtend = false ->
  let ssid := key_contract k :: c_query ch in
  let limit := match get_option s_last (c_opts ch) with Some v => Z.to_N v | None => 1 end in
  exists b1, on_subscribe X e (clear_out b) i c topic = (b1, None)
    /\ b_out b1 = if has_permission k AllowLoad
                  then map (fun m => (i, PMsg (m_chan m) (m_payload m)))
                           (query (b_store b) (e_now e) ssid (fst (chan_window ch)) (snd (chan_window ch)) [] limit)
                  else [].
Proof.
  intros ch T A E ssid limit. unfold on_subscribe. fold ch. rewrite T, A, E. fold ssid.
  set (b2 := subscribe_ev X (clear_out b) i c ssid (c_chan ch)).
  assert (b_out b2 = [] /\ b_store b2 = b_store b) as [O2 S2].
  { unfold b2. destruct (has_ctr c ssid) eqn:Hc.
    - rewrite subscribe_ev_repeat by exact Hc. split; reflexivity.
    - destruct (subscribe_ev_effect X (clear_out b) i c ssid (c_chan ch) Hc) as (_ & _ & O3 & S3). rewrite O3, S3. split; reflexivity. }
  destruct (has_permission k AllowLoad).
  - destruct (chan_window ch) as [t0 t1]. eexists. split; [reflexivity|].
    match goal with |- context [fold_left _ ?l b2] => destruct (fold_emit_out i (fun m => PMsg (m_chan m) (m_payload m)) l b2) as [_ O4] end.
    rewrite O4, O2, S2. reflexivity.
  - eexists. split; [reflexivity | exact O2].
Qed.

(* ---- C18: presence status ---- *)
Theorem presence_status_exact mqtt (b : broker) ssid i u :
  inv (b_trie b) ->
  (In (i, u) (presence_who X mqtt b ssid) <->
   exists s f c, In (f, s) (abs (b_trie b)) /\ matches mqtt f ssid = true
                 /\ conn_of_sub (b_conns b) s 0 = Some i /\ get_conn (b_conns b) (N.to_nat i) = Some c /\ u = cn_user c).
Proof.
  intros Hi. destruct (ixs_lookup X abs inv okf HS mqtt ssid (b_trie b) Hi) as [_ L]. rewrite in_presence_who. split.
  - intros (s & c & A & B & G & U). apply L in A. destruct A as (f & A & M). exists s, f, c. auto.
  - intros (s & f & c & A & M & B & G & U). exists s, c. split; [apply L; exists f; auto | auto].
Qed.

(* every transition queues exactly one notification, in the order of the transitions; a repeated
   subscribe or an unsubscribe of something not held queues none *)
Theorem transitions_notify (b : broker) mqtt i c ssid ch :
  (has_ctr c ssid = false ->
     b_queue (subscribe_ev X b i c ssid ch) = b_queue b ++ [Notif true (0 :: presenceW :: ssid) ch i (cn_user c)])
  /\ (has_ctr c ssid = true -> b_queue (subscribe_ev X b i c ssid ch) = b_queue b)
  /\ (has_ctr c ssid = true ->
     b_queue (unsubscribe_ev X mqtt b i c ssid ch) = b_queue b ++ [Notif false (0 :: presenceW :: ssid) ch i (cn_user c)])
  /\ (has_ctr c ssid = false -> b_queue (unsubscribe_ev X mqtt b i c ssid ch) = b_queue b).
Proof.
  repeat split; intros H.
  - apply subscribe_ev_effect. exact H.
  - rewrite subscribe_ev_repeat by exact H. reflexivity.
  - apply unsubscribe_ev_effect. exact H.
  - rewrite unsubscribe_ev_not_held by exact H. reflexivity.
Qed.

(* a queued notification is written, once each, to the connections subscribed to its presence
   channel when it is dispatched *)
Theorem notification_dispatch_exact e (acc : broker) n :
  inv (b_trie acc) ->
  let f := (fun acc2 s => match conn_of_sub (b_conns acc2) s 0 with
                          | Some i => emit acc2 i (PPresence (nf_sub n) (nf_chan n) (nf_who n) (nf_user n))
                          | None => acc2 end) in
  let r := fold_left f (ix_lookup X (e_mqtt e) (nf_ssid n) (b_trie acc)) acc in
  exists tg, b_out r = b_out acc ++ map (fun i => (i, PPresence (nf_sub n) (nf_chan n) (nf_who n) (nf_user n))) tg
    /\ NoDup tg
    /\ forall i, In i tg <-> exists s g, In (g, s) (abs (b_trie acc)) /\ matches (e_mqtt e) g (nf_ssid n) = true
                                         /\ conn_of_sub (b_conns acc) s 0 = Some i.
Proof.
  intros Hi f r.
  pose proof (deliver_fold (PPresence (nf_sub n) (nf_chan n) (nf_who n) (nf_user n)) None (b_conns acc)
                           (ix_lookup X (e_mqtt e) (nf_ssid n) (b_trie acc)) acc eq_refl) as [_ O]. cbn beta in O.
  destruct (ixs_lookup X abs inv okf HS (e_mqtt e) (nf_ssid n) (b_trie acc) Hi) as [ND L].
  exists (flat_map (target_of (b_conns acc) None) (ix_lookup X (e_mqtt e) (nf_ssid n) (b_trie acc))).
  split; [exact O|]. split; [apply NoDup_targets; exact ND|].
  intros i. rewrite in_flat_map. split.
  - intros (s & A & B). apply in_target_of in B. destruct B as [B _]. apply L in A. destruct A as (g & A & M). exists s, g. auto.
  - intros (s & g & A & M & B). exists s. split; [apply L; exists g; auto|]. apply in_target_of. split; [exact B | discriminate].
Qed.

(* ---- C08: the end of a connection ---- *)
Lemma matches_refl m f : matches m f f = true.
Proof.
  destruct m; cbn; induction f as [|a f IH]; cbn; try reflexivity.
  - rewrite N.eqb_refl, IH. cbn. apply orb_true_r.
  - rewrite N.eqb_refl, IH. reflexivity.
Qed.

Lemma get_set_same : forall (l : list (option conn)) i c x, get_conn l i = Some c -> get_conn (set_conn l i x) i = x.
Proof.
  induction l as [|y l IH]; intros i c x H; destruct i; cbn in *; try discriminate; [reflexivity | eapply IH; exact H].
Qed.

Definition drop_ctr (c : conn) (ssid : list N) : conn :=
  Conn (cn_sub c) (cn_user c) (cn_will c) (cn_connected c)
       (filter (fun k => negb (ssid_eqb (k_ssid k) ssid)) (cn_ctrs c)) (cn_links c).

Lemma unsubscribe_ev_held mqtt (b : broker) i c ssid ch :
  inv (b_trie b) -> has_ctr c ssid = true -> get_conn (b_conns b) (N.to_nat i) = Some c ->
  let b' := unsubscribe_ev X mqtt b i c ssid ch in
  inv (b_trie b')
  /\ (forall p, In p (abs (b_trie b')) <-> In p (abs (b_trie b)) /\ p <> (ssid, cn_sub c))
  /\ get_conn (b_conns b') (N.to_nat i) = Some (drop_ctr c ssid)
  /\ b_queue b' = b_queue b ++ [Notif false (0 :: presenceW :: ssid) ch i (cn_user c)]
  /\ b_out b' = b_out b /\ b_store b' = b_store b /\ b_seq b' = b_seq b.
Proof.
  intros Hi Hc G b'. unfold b', unsubscribe_ev. rewrite Hc. cbn [negb]. cbn.
  fold (drop_ctr c ssid).
  destruct (ixs_lookup X abs inv okf HS mqtt ssid (b_trie b) Hi) as [_ L].
  destruct (mem (cn_sub c) (ix_lookup X mqtt ssid (b_trie b))) eqn:M; cbn.
  - destruct (ixs_unsub X abs inv okf HS ssid (cn_sub c) (b_trie b) Hi) as [I2 A2].
    split; [exact I2|]. split; [exact A2|]. split; [eapply get_set_same; exact G|]. auto.
  - split; [exact Hi|]. split.
    + intros p. split; [|intros [A _]; exact A]. intros A. split; [exact A|]. intros ->.
      assert (In (cn_sub c) (ix_lookup X mqtt ssid (b_trie b))) as Hin by (apply L; exists ssid; split; [exact A | apply matches_refl]).
      apply Proofs.TrieProofs.mem_In in Hin. rewrite Hin in M. discriminate.
    + split; [eapply get_set_same; exact G|]. auto.
Qed.

Lemma has_ctr_drop_other c s1 s2 : ssid_eqb s2 s1 = false -> has_ctr (drop_ctr c s1) s2 = has_ctr c s2.
Proof.
  intros H. unfold has_ctr, drop_ctr. cbn [cn_ctrs]. induction (cn_ctrs c) as [|k ks IH]; cbn; [reflexivity|].
  destruct (ssid_eqb (k_ssid k) s1) eqn:E; cbn.
  - rewrite IH. destruct (ssid_eqb (k_ssid k) s2) eqn:E2; [|reflexivity].
    apply (list_eqb_eq N.eqb) in E; [|intros x y; apply N.eqb_eq]. apply (list_eqb_eq N.eqb) in E2; [|intros x y; apply N.eqb_eq].
    rewrite <- E, E2 in H. unfold ssid_eqb in H. rewrite list_eqb_refl in H; [discriminate | apply N.eqb_refl].
  - rewrite IH. reflexivity.
Qed.

Lemma close_fold mqtt i : forall (ks : list counter) (b : broker) c,
  inv (b_trie b) -> get_conn (b_conns b) (N.to_nat i) = Some c ->
  NoDup (map k_ssid ks) -> (forall k, In k ks -> has_ctr c (k_ssid k) = true) ->
  let r := fold_left (fun acc k =>
                         match get_conn (b_conns acc) (N.to_nat i) with
                         | Some c' => unsubscribe_ev X mqtt acc i c' (k_ssid k) (k_chan k)
                         | None => acc
                         end) ks b in
  inv (b_trie r)
  /\ (forall p, In p (abs (b_trie r)) <-> In p (abs (b_trie b)) /\ forall k, In k ks -> p <> (k_ssid k, cn_sub c))
  /\ b_queue r = b_queue b ++ map (fun k => Notif false (0 :: presenceW :: k_ssid k) (k_chan k) i (cn_user c)) ks
  /\ b_out r = b_out b /\ b_store r = b_store b /\ b_seq r = b_seq b
  /\ exists c', get_conn (b_conns r) (N.to_nat i) = Some c' /\ cn_sub c' = cn_sub c /\ cn_will c' = cn_will c /\ cn_connected c' = cn_connected c.
Proof.
  induction ks as [|k ks IH]; intros b c Hi G ND Hc r.
  - cbn in r. unfold r. split; [exact Hi|]. split; [intros p; split; [intros A; split; [exact A | intros k []] | intros [A _]; exact A]|].
    cbn. rewrite app_nil_r. repeat (split; [reflexivity|]). exists c. auto.
  - unfold r. cbn [fold_left]. rewrite G.
    destruct (unsubscribe_ev_held mqtt b i c (k_ssid k) (k_chan k) Hi (Hc k (or_introl eq_refl)) G) as (I1 & A1 & G1 & Q1 & O1 & S1 & N1).
    cbn [map] in ND. inversion ND as [|? ? Hn ND']; subst.
    assert (forall k2, In k2 ks -> has_ctr (drop_ctr c (k_ssid k)) (k_ssid k2) = true) as Hc'.
    { intros k2 H2. rewrite has_ctr_drop_other; [apply Hc; right; exact H2|].
      destruct (ssid_eqb (k_ssid k2) (k_ssid k)) eqn:E; [|reflexivity].
      apply (list_eqb_eq N.eqb) in E; [|intros x y; apply N.eqb_eq]. exfalso. apply Hn. rewrite <- E. apply in_map. exact H2. }
    destruct (IH _ _ I1 G1 ND' Hc') as (I2 & A2 & Q2 & O2 & S2 & N2 & c' & G2 & E1 & E2 & E3).
    split; [exact I2|]. split.
    + intros p. rewrite A2, A1. cbn [drop_ctr cn_sub]. split.
      * intros [[A B] C]. split; [exact A|]. intros k2 [->|H2]; [exact B | apply C; exact H2].
      * intros [A C]. split; [split; [exact A | apply C; left; reflexivity] | intros k2 H2; apply C; right; exact H2].
    + rewrite Q2, Q1, O2, O1, S2, S1, N2, N1. cbn [map drop_ctr cn_user]. rewrite <- app_assoc. cbn.
      repeat (split; [reflexivity|]). exists c'. cbn [drop_ctr cn_sub cn_will cn_connected] in *. auto.
Qed.

Lemma on_last_will_trie e (b : broker) c :
  b_trie (on_last_will X e b c) = b_trie b /\ b_queue (on_last_will X e b c) = b_queue b.
Proof.
  unfold on_last_will. destruct (cn_will c) as [[retain topic msg]|]; [|auto].
  destruct (negb _); [auto|]. destruct (auth e _ AllowWrite) as [k|]; [|auto].
  destruct (has_permission k AllowExtend); [auto|].
  match goal with |- context [deliver X ?m ?b1 ?s ?cc ?p ?x] => destruct (deliver_exact X m b1 s cc p x) as [(D1 & _ & _ & _ & D5 & _) _] end.
  rewrite D1, D5. match goal with |- context [store_if e b k ?s ?cc ?p ?t] => destruct (store_if_rest e b k s cc p t) as (S1 & _ & _ & S4) end.
  rewrite S1, S4. auto.
Qed.

(* when a connection ends: its slot is gone, exactly its counted subscriptions are removed from the
   index (nothing of anybody else), and one 'unsubscribe' notification per subscription is queued in
   the order they were made *)
Theorem close_cleans e (b : broker) i c :
  inv (b_trie b) -> get_conn (b_conns b) (N.to_nat i) = Some c -> NoDup (map k_ssid (cn_ctrs c)) ->
  let r := close_conn X e b i c in
  get_conn (b_conns r) (N.to_nat i) = None
  /\ (forall p, In p (abs (b_trie r)) <-> In p (abs (b_trie b)) /\ forall k, In k (cn_ctrs c) -> p <> (k_ssid k, cn_sub c))
  /\ b_queue r = b_queue b ++ map (fun k => Notif false (0 :: presenceW :: k_ssid k) (k_chan k) i (cn_user c)) (cn_ctrs c).
Proof.
  intros Hi G ND r. unfold r, close_conn.
  assert (forall k, In k (cn_ctrs c) -> has_ctr c (k_ssid k) = true) as Hc.
  { intros k H. unfold has_ctr. apply existsb_exists. exists k. split; [exact H|]. apply list_eqb_refl. apply N.eqb_refl. }
  destruct (close_fold (e_mqtt e) i (cn_ctrs c) b c Hi G ND Hc) as (I2 & A2 & Q2 & O2 & S2 & N2 & c' & G2 & _).
  match goal with |- context [fold_left ?f (cn_ctrs c) b] => set (b1 := fold_left f (cn_ctrs c) b) in * end.
  set (b2 := if cn_connected c then on_last_will X e b1 c else b1).
  assert (b_trie b2 = b_trie b1 /\ b_queue b2 = b_queue b1 /\ exists cc, get_conn (b_conns b2) (N.to_nat i) = Some cc) as (T & Q & cc & Gc).
  { unfold b2. destruct (cn_connected c); [|split; [reflexivity | split; [reflexivity | exists c'; exact G2]]].
    destruct (on_last_will_trie e b1 c) as [T Q]. split; [exact T|]. split; [exact Q|].
    exists c'. unfold on_last_will. destruct (cn_will c) as [[retain topic msg]|]; [|exact G2].
    destruct (negb _); [exact G2|]. destruct (auth e _ AllowWrite) as [k|]; [|exact G2].
    destruct (has_permission k AllowExtend); [exact G2|].
    match goal with |- context [deliver X ?m ?bb ?s ?x ?p ?y] => destruct (deliver_exact X m bb s x p y) as [(_ & D2 & _) _] end.
    rewrite D2. match goal with |- context [store_if e b1 k ?s ?x ?p ?t] => destruct (store_if_rest e b1 k s x p t) as (_ & S2' & _) end.
    rewrite S2'. exact G2. }
  cbn [b_conns b_trie b_queue]. split; [eapply get_set_same; exact Gc|]. rewrite T, Q. split; [exact A2 | exact Q2].
Qed.

(* if the per-connection bookkeeping covers what the index holds for that connection, nothing of
   it is left, and every other subscriber's entries are untouched *)
Corollary close_leaves_nothing e (b : broker) i c :
  inv (b_trie b) -> get_conn (b_conns b) (N.to_nat i) = Some c -> NoDup (map k_ssid (cn_ctrs c)) ->
  (forall f, In (f, cn_sub c) (abs (b_trie b)) -> has_ctr c f = true) ->
  let r := close_conn X e b i c in
  (forall f, ~ In (f, cn_sub c) (abs (b_trie r)))
  /\ (forall f s, s <> cn_sub c -> (In (f, s) (abs (b_trie r)) <-> In (f, s) (abs (b_trie b)))).
Proof.
  intros Hi G ND Cov r. destruct (close_cleans e b i c Hi G ND) as (_ & A & _). fold r in A. split.
  - intros f H. apply A in H. destruct H as [H1 H2]. apply Cov in H1. unfold has_ctr in H1.
    apply existsb_exists in H1. destruct H1 as (k & Hk & E). apply (list_eqb_eq N.eqb) in E; [|intros x y; apply N.eqb_eq].
    apply (H2 k Hk). rewrite E. reflexivity.
  - intros f s Hs. rewrite A. split; [intros [H _]; exact H|]. intros H. split; [exact H|]. intros k _ E. inversion E. contradiction.
Qed.

(* the last will: published once to the subscribers of its channel if the key allows writing there,
   otherwise not at all *)
Theorem last_will_once e (b : broker) c retain topic msg k :
  inv (b_trie b) -> cn_will c = Some (Will retain topic msg) ->
  let ch := parse_channel topic in
  (c_type ch =? ChannelStatic) = true -> auth e ch AllowWrite = Some k -> has_permission k AllowExtend = false ->
  exists tg, b_out (on_last_will X e b c) = b_out b ++ map (fun i => (i, PMsg (c_chan ch) msg)) tg /\ NoDup tg
    /\ forall i, In i tg <-> exists s f, In (f, s) (abs (b_trie b)) /\ matches (e_mqtt e) f (key_contract k :: c_query ch) = true
                                       /\ conn_of_sub (b_conns b) s 0 = Some i.
Proof.
  intros Hi W ch T A E. unfold on_last_will. rewrite W. fold ch. rewrite T. cbn [negb]. rewrite A, E.
  match goal with |- context [store_if e b k ?s ?x ?p ?t] =>
    destruct (store_if_rest e b k s x p t) as (S1 & S2 & S3 & _); set (b1 := store_if e b k s x p t) in * end.
  assert (inv (b_trie b1)) as Hi1 by (rewrite S1; exact Hi).
  destruct (delivery_exact (e_mqtt e) b1 (key_contract k :: c_query ch) (c_chan ch) msg None Hi1) as (_ & tg & O & ND & L).
  exists tg. rewrite O, S3. split; [reflexivity|]. split; [exact ND|].
  intros i. rewrite L, S1, S2. split; intros (s & f & H1 & H2 & H3 & _) || intros (s & f & H1 & H2 & H3); exists s, f; auto.
  repeat split; auto. discriminate.
Qed.

Theorem last_will_silent e (b : broker) c :
  (cn_will c = None
   \/ (exists retain topic msg, cn_will c = Some (Will retain topic msg)
         /\ ((c_type (parse_channel topic) =? ChannelStatic) = false \/ auth e (parse_channel topic) AllowWrite = None
             \/ exists k, auth e (parse_channel topic) AllowWrite = Some k /\ has_permission k AllowExtend = true))) ->
  on_last_will X e b c = b.
Proof.
  unfold on_last_will. intros [W|(retain & topic & msg & W & [T|[A|(k & A & E)]])]; rewrite W; [reflexivity| | |].
  - rewrite T. reflexivity.
  - destruct (negb _); [reflexivity|]. rewrite A. reflexivity.
  - destruct (negb _); [reflexivity|]. rewrite A, E. reflexivity.
Qed.

End generic.
