#!/usr/bin/env python3
"""dbg_case.py <prop> <case index> <coq expression over c>: evaluate an expression on one generated case."""
import sys, re, glob, os, subprocess
prop, idx, expr = sys.argv[1], int(sys.argv[2]), sys.argv[3]
d = '/verif/.build/cases/' + prop
for f in sorted(glob.glob(d + '/shard_*.v')):
    s = open(f).read()
    first = int(re.search(r'first case index (\d+)', s).group(1))
    body = s[s.index(':= [\n') + 5:s.rindex('\n].')]
    cases = body.split(';\n ')
    if first <= idx < first + len(cases):
        header = s[:s.index('Definition cases')]
        c = cases[idx - first].strip()
        open('/tmp/dbg_case.v', 'w').write(header + '\nDefinition c := ' + c + '.\nEval vm_compute in (' + expr + ').\n')
        out = subprocess.run(['coqtop', '-Q', '/verif/coq', 'Emitter', '-batch', '-l', '/tmp/dbg_case.v'], capture_output=True, text=True)
        print(out.stdout[-6000:], out.stderr[-2000:])
        break
