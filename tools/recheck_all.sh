#!/bin/bash
# Applies every stored seeded defect to /repo again (one at a time, reverted afterwards) and runs the
# checks recorded for it.  About an hour.  Output: one line per defect.
cd /verif
for d in seeded/*/; do
  n=$(basename $d); p=${n%%-*}; m=${n#*-}
  checks=$(python3 -c "
import json
m=json.load(open('$d/meta.json'))
ks=sorted({k.split()[0] for k in m.get('evaluation',{}).get('our_checks',{}) if k!='apply'})
print(' '.join(ks) or '$p')")
  r=$(RECHECK=1 SEED_NAME=$m python3 tools/seed_eval.py $p /verif/seeded/$n $checks 2>&1 | grep -h '"detected"\|"apply"' | tr -d '\n')
  echo "$n [$checks] $r"
done
echo ALLDONE
