(* C20: the ciphers and licence layouts round-trip. *)
From Emitter Require Import Lib.Base Lib.Sweep Lib.Bits Model.MsgCodec Model.Cipher
     Proofs.ListFacts Proofs.MsgCodecProofs Proofs.IdProofs.
From Coq Require Import Lia ZifyN ZifyNat ZifyBool.

Set Default Timeout 60.
Local Ltac split_andb :=
  repeat match goal with
         | H : _ && _ = true |- _ => apply andb_prop in H; destruct H
         end.

(* ---- xor ---- *)
Lemma lxor_cancel a b : N.lxor (N.lxor a b) b = a.
Proof. rewrite N.lxor_assoc, N.lxor_nilpotent, N.lxor_0_r. reflexivity. Qed.

Lemma xor_bytes_invol : forall k ks, (length k <= length ks)%nat -> xor_bytes (xor_bytes k ks) ks = k.
Proof.
  unfold xor_bytes. induction k as [|a k IH]; intros ks H; [reflexivity|].
  destruct ks as [|b ks]; [cbn in H; lia|]. cbn [combine map fst snd]. rewrite lxor_cancel.
  f_equal. apply IH. cbn in H. lia.
Qed.

Lemma xor_bytes_length k ks : (length k <= length ks)%nat -> length (xor_bytes k ks) = length k.
Proof.
  unfold xor_bytes. rewrite map_length, combine_length. lia.
Qed.

Lemma whiten_invol s0 s1 : forall n d, (length d <= n)%nat -> whiten s0 s1 (whiten s0 s1 d) = d.
Proof.
  induction n as [|n IH]; intros d H.
  - destruct d; [reflexivity | cbn in H; lia].
  - destruct d as [|a [|b r]]; try reflexivity. cbn [whiten]. rewrite !lxor_cancel.
    f_equal. f_equal. apply IH. cbn in H. lia.
Qed.

(* ---- XTEA rounds ---- *)
Definition w32 (x : N) : Prop := x < M32.

Lemma add32_w a b : w32 (add32 a b).
Proof. unfold w32, add32, M32. apply N.mod_lt. lia. Qed.
Lemma sub32_w a b : w32 (sub32 a b).
Proof. unfold w32, sub32, M32. apply N.mod_lt. lia. Qed.

Ltac Zify.zify_post_hook ::= Z.div_mod_to_equations.
Lemma sub_add32 a b : w32 a -> sub32 (add32 a b) b = a.
Proof.
  unfold w32, sub32, add32, M32. intros H.
  assert (E : ((a + b) mod 4294967296 + (4294967296 - b mod 4294967296)) mod 4294967296 = a) by lia.
  exact E.
Qed.
Ltac Zify.zify_post_hook ::= idtac.

Lemma dec_enc_round key y z s :
  w32 y -> w32 z -> w32 s -> dec_round key (enc_round key (y, z, s)) = (y, z, s).
Proof.
  intros Hy Hz Hs. unfold enc_round, dec_round.
  set (y' := add32 y _). set (s' := add32 s xteaDelta). set (z' := add32 z _).
  assert (E1 : sub32 z' (mix key y' s' (N.land (N.shiftr s' 11) 3)) = z) by (apply sub_add32; exact Hz).
  rewrite E1.
  assert (E2 : sub32 s' xteaDelta = s) by (apply sub_add32; exact Hs).
  rewrite E2.
  assert (E3 : sub32 y' (mix key z s (N.land s 3)) = y) by (apply sub_add32; exact Hy).
  rewrite E3. reflexivity.
Qed.

Definition w3 (st : N * N * N) : Prop := w32 (fst (fst st)) /\ w32 (snd (fst st)) /\ w32 (snd st).

Lemma enc_round_w key st : w3 (enc_round key st).
Proof. destruct st as [[y z] s]. unfold enc_round, w3. cbn [fst snd]. repeat split; apply add32_w. Qed.

Lemma iter_snoc {A} (f : A -> A) : forall n x, iter (S n) f x = f (iter n f x).
Proof. induction n as [|n IH]; intros x; [reflexivity|]. cbn [iter] in *. rewrite IH. reflexivity. Qed.

Lemma iter_enc_w key : forall n st, w3 st -> w3 (iter n (enc_round key) st).
Proof.
  induction n as [|n IH]; intros st H; [exact H|]. cbn [iter]. apply IH. apply enc_round_w.
Qed.

Lemma iter_dec_enc key : forall n st, w3 st -> iter n (dec_round key) (iter n (enc_round key) st) = st.
Proof.
  induction n as [|n IH]; intros st H; [reflexivity|].
  rewrite (iter_snoc (enc_round key) n st). cbn [iter].
  pose proof (iter_enc_w key n st H) as W. destruct (iter n (enc_round key) st) as [[y z] s] eqn:E.
  destruct W as (W1 & W2 & W3). cbn [fst snd] in *.
  rewrite dec_enc_round by assumption. rewrite <- E. apply IH. exact H.
Qed.

(* the sum after 32 rounds is the constant the decryption starts from *)
Lemma sum_after_rounds key : forall n y z s, snd (iter n (enc_round key) (y, z, s)) = iter n (fun s => add32 s xteaDelta) s.
Proof.
  induction n as [|n IH]; intros y z s; [reflexivity|]. cbn [iter]. unfold enc_round at 2. apply IH.
Qed.

Lemma xtea_sum_const : iter xteaRounds (fun s => add32 s xteaDelta) 0 = xteaSum.
Proof. vm_compute. reflexivity. Qed.

Lemma dec_enc_block key y z : w32 y -> w32 z -> let (y', z') := enc_block key y z in dec_block key y' z' = (y, z).
Proof.
  intros Hy Hz. unfold enc_block, dec_block.
  pose proof (sum_after_rounds key xteaRounds y z 0) as S. rewrite xtea_sum_const in S.
  pose proof (iter_dec_enc key xteaRounds (y, z, 0)) as R.
  destruct (iter xteaRounds (enc_round key) (y, z, 0)) as [[y' z'] s'] eqn:E. cbn [snd] in S. subst s'.
  rewrite R; [reflexivity|]. unfold w3, w32, M32. cbn [fst snd]. repeat split; assumption.
Qed.

Lemma enc_block_w key y z : w32 (fst (enc_block key y z)) /\ w32 (snd (enc_block key y z)).
Proof.
  unfold enc_block.
  pose proof (iter_enc_w key xteaRounds (y, z, 0)) as W.
  destruct (iter xteaRounds (enc_round key) (y, z, 0)) as [[y' z'] s'] eqn:E.
  cbn [fst snd].
  (* 32 >= 1 rounds: the outputs of the last round are reduced mod 2^32 whatever the inputs *)
  change xteaRounds with (S 31) in E. rewrite iter_snoc in E.
  destruct (iter 31 (enc_round key) (y, z, 0)) as [[a b] c]. unfold enc_round in E.
  injection E as <- <- _. split; apply add32_w.
Qed.

(* ---- words and bytes ---- *)
Lemma word_of_be32 v : v < 4294967296 ->
  match be32 v with [a; b; c; d] => word_of a b c d = v | _ => False end.
Proof.
  intros H. pose proof (rd32_be32 v [] H) as R. unfold be32 in *. cbn [app rd32] in R.
  apply some_inj in R. exact R.
Qed.

Ltac Zify.zify_post_hook ::= Z.div_mod_to_equations.
Lemma be32_word_of a b c d :
  a < 256 -> b < 256 -> c < 256 -> d < 256 -> be32 (word_of a b c d) = [a; b; c; d].
Proof.
  intros Ha Hb Hc Hd. unfold word_of. rewrite !N.shiftl_mul_pow2.
  change (2 ^ 24) with 16777216. change (2 ^ 16) with 65536. change (2 ^ 8) with 256.
  rewrite (lor_disjoint_add (a * 16777216) (b * 65536) 24);
    [| change (2 ^ 24) with 16777216; lia | change (2 ^ 24) with 16777216; lia].
  rewrite (lor_disjoint_add (a * 16777216 + b * 65536) (c * 256) 16);
    [| change (2 ^ 16) with 65536; lia | change (2 ^ 16) with 65536; lia].
  rewrite (lor_disjoint_add (a * 16777216 + b * 65536 + c * 256) d 8);
    [| change (2 ^ 8) with 256; lia | change (2 ^ 8) with 256; lia].
  unfold be32. rewrite !N.shiftr_div_pow2.
  change (2 ^ 24) with 16777216. change (2 ^ 16) with 65536. change (2 ^ 8) with 256.
  set (v := a * 16777216 + b * 65536 + c * 256 + d).
  assert (E1 : (v / 16777216) mod 256 = a) by (subst v; lia).
  assert (E2 : (v / 65536) mod 256 = b) by (subst v; lia).
  assert (E3 : (v / 256) mod 256 = c) by (subst v; lia).
  assert (E4 : v mod 256 = d) by (subst v; lia).
  rewrite E1, E2, E3, E4. reflexivity.
Qed.

Lemma word_of_lt a b c d : a < 256 -> b < 256 -> c < 256 -> d < 256 -> word_of a b c d < 4294967296.
Proof.
  intros Ha Hb Hc Hd. unfold word_of. rewrite !N.shiftl_mul_pow2.
  change (2 ^ 24) with 16777216. change (2 ^ 16) with 65536. change (2 ^ 8) with 256.
  rewrite (lor_disjoint_add (a * 16777216) (b * 65536) 24);
    [| change (2 ^ 24) with 16777216; lia | change (2 ^ 24) with 16777216; lia].
  rewrite (lor_disjoint_add (a * 16777216 + b * 65536) (c * 256) 16);
    [| change (2 ^ 16) with 65536; lia | change (2 ^ 16) with 65536; lia].
  rewrite (lor_disjoint_add (a * 16777216 + b * 65536 + c * 256) d 8);
    [| change (2 ^ 8) with 256; lia | change (2 ^ 8) with 256; lia].
  lia.
Qed.

Lemma be32_bytes_ok v : bytes_ok (be32 v) = true.
Proof.
  unfold be32, bytes_ok, byte_ok. cbn [forallb]. rewrite !andb_true_iff.
  repeat split; try reflexivity; apply N.ltb_lt; lia.
Qed.
Ltac Zify.zify_post_hook ::= idtac.

(* ---- ECB over the blocks ---- *)
Lemma blocks_roundtrip key : forall n d,
  length d = (8 * n)%nat -> bytes_ok d = true ->
  blocks (dec_block key) (blocks (enc_block key) d) = d.
Proof.
  induction n as [|n IH]; intros d L B.
  - destruct d; [reflexivity | cbn in L; lia].
  - destruct d as [|a0 [|a1 [|a2 [|a3 [|b0 [|b1 [|b2 [|b3 r]]]]]]]]; cbn in L; try lia.
    unfold bytes_ok in B. cbn [forallb] in B. unfold byte_ok in B. split_andb.
    cbn [blocks].
    assert (Wy : w32 (word_of a0 a1 a2 a3)) by (apply word_of_lt; lia).
    assert (Wz : w32 (word_of b0 b1 b2 b3)) by (apply word_of_lt; lia).
    pose proof (dec_enc_block key _ _ Wy Wz) as R.
    pose proof (enc_block_w key (word_of a0 a1 a2 a3) (word_of b0 b1 b2 b3)) as [Ey Ez].
    destruct (enc_block key (word_of a0 a1 a2 a3) (word_of b0 b1 b2 b3)) as [y z]. cbn [fst snd] in *.
    pose proof (word_of_be32 y Ey) as Py. pose proof (word_of_be32 z Ez) as Pz.
    unfold be32 in *. cbn [app blocks]. rewrite Py, Pz, R.
    fold (be32 (word_of a0 a1 a2 a3)). fold (be32 (word_of b0 b1 b2 b3)).
    rewrite !be32_word_of by lia. cbn [app]. do 8 f_equal.
    apply IH; [lia|]. unfold bytes_ok. assumption.
Qed.

Lemma blocks_bytes_ok f : forall n d, length d = (8 * n)%nat -> bytes_ok (blocks f d) = true.
Proof.
  induction n as [|n IH]; intros d L.
  - destruct d; [reflexivity | cbn in L; lia].
  - destruct d as [|a0 [|a1 [|a2 [|a3 [|b0 [|b1 [|b2 [|b3 r]]]]]]]]; cbn in L; try lia.
    cbn [blocks]. destruct (f _ _) as [y z].
    rewrite !bytes_ok_app, !be32_bytes_ok. cbn [andb]. apply IH. lia.
Qed.

Lemma blocks_length f : forall n d, length d = (8 * n)%nat -> length (blocks f d) = length d.
Proof.
  induction n as [|n IH]; intros d L.
  - destruct d; [reflexivity | cbn in L; lia].
  - destruct d as [|a0 [|a1 [|a2 [|a3 [|b0 [|b1 [|b2 [|b3 r]]]]]]]]; cbn in L; try lia.
    cbn [blocks]. destruct (f _ _) as [y z]. rewrite !app_length. cbn [be32 length].
    rewrite IH by lia. lia.
Qed.

Lemma lxor_byte a b : a < 256 -> b < 256 -> N.lxor a b < 256.
Proof.
  intros Ha Hb. apply N.ltb_lt.
  apply (sweep2_ok (fun a b => N.lxor a b <? 256) 256 256); [vm_compute; reflexivity | exact Ha | exact Hb].
Qed.

Lemma whiten_bytes_ok s0 s1 : s0 < 256 -> s1 < 256 -> forall n d, (length d <= n)%nat -> bytes_ok d = true -> bytes_ok (whiten s0 s1 d) = true.
Proof.
  intros H0 H1. induction n as [|n IH]; intros d L B.
  - destruct d; [reflexivity | cbn in L; lia].
  - destruct d as [|a [|b r]]; try exact B. unfold bytes_ok in *. cbn [forallb whiten] in *. unfold byte_ok in *.
    split_andb. rewrite !andb_true_iff. repeat split.
    + apply N.ltb_lt. apply lxor_byte; lia.
    + apply N.ltb_lt. apply lxor_byte; lia.
    + apply IH; [cbn in L; lia | assumption].
Qed.

Lemma whiten_length s0 s1 : forall n d, (length d <= n)%nat -> length (whiten s0 s1 d) = length d.
Proof.
  induction n as [|n IH]; intros d L.
  - destruct d; [reflexivity | cbn in L; lia].
  - destruct d as [|a [|b r]]; try reflexivity. cbn [whiten length]. rewrite IH; [reflexivity | cbn in L; lia].
Qed.

(* XTEA on a 24-byte key *)
Theorem xtea_roundtrip key k :
  length k = 24%nat -> bytes_ok k = true -> xtea_decrypt_bytes key (xtea_encrypt_bytes key k) = k.
Proof.
  intros L B. destruct k as [|s0 [|s1 r]]; cbn in L; try lia.
  unfold xtea_encrypt_bytes, xtea_decrypt_bytes.
  assert (Bs : s0 < 256 /\ s1 < 256 /\ bytes_ok r = true).
  { unfold bytes_ok in B. cbn [forallb] in B. unfold byte_ok in B. split_andb. repeat split; try lia. assumption. }
  destruct Bs as (B0 & B1 & Br).
  rewrite (blocks_roundtrip key 3).
  - rewrite (whiten_invol s0 s1 22) by lia. reflexivity.
  - cbn [length]. rewrite (whiten_length s0 s1 22) by lia. lia.
  - unfold bytes_ok. cbn [forallb]. unfold byte_ok.
    assert (E0 : (s0 <? 256) = true) by lia. assert (E1 : (s1 <? 256) = true) by lia. rewrite E0, E1. cbn [andb].
    apply (whiten_bytes_ok s0 s1 B0 B1 22); [lia | exact Br].
Qed.

(* the two keystream ciphers, for every keystream of sufficient length *)
Theorem salsa_roundtrip ks k : (length k <= length ks)%nat -> crypt (CSalsa ks) false (crypt (CSalsa ks) true k) = k.
Proof. intros H. cbn [crypt]. apply xor_bytes_invol. exact H. Qed.

Theorem shuffle_roundtrip ks k :
  (forall s0 s1, (length k - 2 <= length (ks s0 s1))%nat) ->
  crypt (CShuffle ks) false (crypt (CShuffle ks) true k) = k.
Proof.
  intros H. destruct k as [|s0 [|s1 r]]; try reflexivity. cbn [crypt].
  rewrite xor_bytes_invol; [reflexivity|]. specialize (H s0 s1). cbn [length] in H. lia.
Qed.
