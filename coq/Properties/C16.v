(* C16 - The MQTT codec agrees with MQTT 3.1.1 for every packet it handles.
   Only statements, each closed by a lemma of Proofs/, with Print Assumptions beneath.
   Model: Model/Mqtt.v (tied to internal/network/mqtt/mqtt.go by the c16 harness on every run);
   standard: Spec/Mqtt311.v (compared byte for byte with paho on every run). *)
From Coq Require Import Lia.
From Emitter Require Import Lib.Base Model.Mqtt Spec.Mqtt311 Proofs.ListFacts Proofs.MqttWords Proofs.MqttCodec.

(* Every well-formed packet value whose body fits the 64 KiB buffer (65530 bytes after the header
   room) is encoded to exactly the bytes the standard prescribes - all 14 types, every flag
   combination, every QoS incl. will QoS, empty strings and payloads, all lengths. *)
Theorem C16_encode_matches_spec : forall p,
  wf311 p = true -> len (body311 p) <= bodyRoom -> encode p = Ok (encode311 p).
Proof. exact encode_matches_spec. Qed.
Print Assumptions C16_encode_matches_spec.

(* Every standard encoding of a well-formed value within the configured size limit is decoded to
   the same field values, and the bytes that follow it in the stream are left unread. *)
Theorem C16_decode_matches_spec : forall p rest max,
  wf311 p = true -> len (body311 p) < 268435456 -> len (body311 p) <= max ->
  decode_packet (encode311 p ++ rest) max = Ok (p, rest).
Proof. exact decode_spec. Qed.
Print Assumptions C16_decode_matches_spec.

(* Encoding then decoding returns the value. *)
Theorem C16_roundtrip : forall p bs rest max,
  wf311 p = true -> len (body311 p) <= bodyRoom -> len (body311 p) <= max ->
  encode p = Ok bs -> decode_packet (bs ++ rest) max = Ok (p, rest).
Proof.
  intros p bs rest max W F M E. rewrite encode_matches_spec in E by assumption.
  injection E as <-. apply decode_spec; try assumption.
  unfold bodyRoom, MaxMessageSize, maxHeaderSize in F. apply N.le_lt_trans with (1 := F). reflexivity.
Qed.
Print Assumptions C16_roundtrip.

(* The remaining-length field: 1/2/3/4 bytes with the boundaries at 128, 16384, 2097152, and the
   decoder's loop inverts it for every value below 2^28. *)
Theorem C16_remaining_length_boundaries : forall n rest,
  n < 268435456 ->
  len (remaining_length n) = (if n <? 128 then 1 else if n <? 16384 then 2 else if n <? 2097152 then 3 else 4)
  /\ dec_len (remaining_length n ++ rest) 1 0 = Some (n, rest).
Proof. intros n rest H. split; [apply remaining_length_size | apply dec_len_remaining_length]; exact H. Qed.
Print Assumptions C16_remaining_length_boundaries.

(* The header written by the broker carries the standard's digits for every body it can hold. *)
Theorem C16_header_length_digits : forall n, n <= bodyRoom -> hdr_len_bytes n = remaining_length n.
Proof. exact hdr_len_bytes_spec. Qed.
Print Assumptions C16_header_length_digits.

(* non-vacuity: concrete packets meeting the hypotheses, incl. a will QoS 2 CONNECT, an empty
   payload, and a body of 16384 bytes (3-byte length field) *)
Example C16_nonvacuous :
  wf311 (Connect [77;81;84;84] 4 true false true 2 true true 60 [99] [97] [] [117] []) = true
  /\ wf311 (Publish (Hdr true 2 true) [97;47] 7 []) = true
  /\ wf311 (Publish (Hdr false 0 false) [97] 0 (rep 16381 0)) = true
  /\ len (body311 (Publish (Hdr false 0 false) [97] 0 (rep 16381 0))) = 16384
  /\ decode_packet (encode311 (Subscribe (Hdr false 1 false) 9 [([97;47], 1); ([], 0)]) ++ [1;2]) 65536
     = Ok (Subscribe (Hdr false 1 false) 9 [([97;47], 1); ([], 0)], [1;2]).
Proof. vm_compute. repeat split; reflexivity. Qed.

(* a PUBLISH of any size is either encoded or refused with ErrMessageTooLarge: the encoder never runs
   past its buffer (F12, repaired: the size check leaves room for the header) *)
Theorem C16_publish_encode_never_panics : forall h topic mid payload,
  encode (Publish h topic mid payload) <> Panic.
Proof.
  intros h topic mid payload. cbn [encode]. unfold publish_too_large.
  destruct (bodyRoom <? 2 + len topic + len payload + (if 0 <? h_qos h then 2 else 0)) eqn:E; [discriminate|].
  unfold finish.
  assert (len (w_str topic ++ (if 0 <? h_qos h then w_u16 mid else []) ++ payload)
          = 2 + len topic + len payload + (if 0 <? h_qos h then 2 else 0)) as L.
  { unfold w_str, w_u16. destruct (0 <? h_qos h); unfold len; rewrite ?app_length; cbn [length]; rewrite ?app_length; cbn [length]; lia. }
  rewrite L, E. discriminate.
Qed.
Print Assumptions C16_publish_encode_never_panics.
