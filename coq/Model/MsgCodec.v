(* Model of internal/message/codec.go + the Encode/Decode of Message and Frame in message.go
   (the part inside the snappy envelope), of kelindar/binary's uvarint reader/writer as used
   there, of Frame.Split, and of message ids (id.go).  No proofs here. *)
From Emitter Require Import Lib.Base.

Inductive cerr := CEOF | COverflow.

Definition u64 (x : N) := x mod 18446744073709551616.
Definition u32' (x : N) := x mod 4294967296.

(* Encoder.WriteUvarint: at most 10 rounds for a uint64 *)
Fixpoint uvarint_enc (fuel : nat) (x : N) : bytes :=
  match fuel with
  | O => []
  | S f => if x <? 128 then [x] else N.lor (x mod 256) 128 :: uvarint_enc f (N.shiftr x 7)
  end.
Definition uvarint (x : N) : bytes := uvarint_enc 10 x.

(* sliceReader.ReadUvarint: s = 0, 7, .., 63 *)
Fixpoint uvarint_dec (fuel : nat) (s x : N) (d : bytes) : res cerr (N * bytes) :=
  match fuel with
  | O => Err COverflow
  | S f =>
    match d with
    | [] => Err CEOF
    | b :: r =>
      if b <? 128 then
        if (s =? 63) && (1 <? b) then Err COverflow
        else Ok (N.lor x (u64 (N.shiftl b s)), r)
      else uvarint_dec f (s + 7) (N.lor x (u64 (N.shiftl (N.land b 127) s))) r
    end
  end.
Definition read_uvarint (d : bytes) : res cerr (N * bytes) := uvarint_dec 10 0 0 d.

Record msg := Msg { m_id : bytes; m_chan : bytes; m_payload : bytes; m_ttl : N }.

Definition enc_bytes (b : bytes) : bytes := uvarint (len b) ++ b.
Definition enc_msg (m : msg) : bytes :=
  enc_bytes (m_id m) ++ enc_bytes (m_chan m) ++ enc_bytes (m_payload m) ++ uvarint (m_ttl m).

(* readBytes: length 0 reads nothing; Slice(int(l)): a length >= 2^63 becomes a negative int,
   passes the bounds test and panics in the slice expression *)
Definition read_bytes (d : bytes) : res cerr (bytes * bytes) :=
  do (l, d) <- read_uvarint d;
  if l =? 0 then Ok ([], d)
  else if 9223372036854775808 <=? l then Panic
  else if len d <? l then Err CEOF
  else Ok (take l d, drop l d).

Definition dec_msg (d : bytes) : res cerr (msg * bytes) :=
  do (id, d) <- read_bytes d;
  do (ch, d) <- read_bytes d;
  do (pl, d) <- read_bytes d;
  do (ttl, d) <- read_uvarint d;
  Ok (Msg id ch pl (u32' ttl), d).

Definition enc_frame (f : list msg) : bytes := uvarint (len f) ++ flat_map enc_msg f.

Fixpoint dec_msgs (n : nat) (d : bytes) : res cerr (list msg * bytes) :=
  match n with
  | O => Ok ([], d)
  | S k => do (m, d) <- dec_msg d; do (ms, d) <- dec_msgs k d; Ok (m :: ms, d)
  end.

(* reflectSliceCodec.DecodeTo: count, MakeSlice(count), then the elements.  A count >= 2^63 is a
   negative int (reflect.MakeSlice panics).  Every element consumes at least 4 bytes, so a count
   beyond the remaining input ends in EOF; the model iterates min(count, |d|+1) times. *)
Definition dec_frame (d : bytes) : res cerr (list msg) :=
  do (l, d) <- read_uvarint d;
  if l =? 0 then Ok []
  else if 9223372036854775808 <=? l then Panic
  else do (ms, _) <- dec_msgs (N.to_nat (N.min l (len d + 1))) d; Ok ms.

(* Frame.Split *)
Definition msize (m : msg) : N := len (m_payload m) + len (m_id m) + len (m_chan m) + 20.
Fixpoint split_go (f : list msg) (sum max : N) : list msg * list msg :=
  match f with
  | [] => ([], [])
  | m :: r =>
    if max <=? sum + msize m then ([], f)
    else let (h, t) := split_go r (sum + msize m) max in (m :: h, t)
  end.
Definition split (f : list msg) (max : N) := split_go f 0 max.

(* ---- message ids (id.go) ---------------------------------------------------------------- *)
Definition maxU32 : N := 4294967295.
Definition id_offset : Z := 1514764800.   (* security.MinTime *)
Definition fixed : N := 16.

Definition be32 (v : N) : bytes :=
  [N.shiftr v 24 mod 256; N.shiftr v 16 mod 256; N.shiftr v 8 mod 256; v mod 256].
Definition rd32 (d : bytes) : option N :=
  match d with
  | a :: b :: c :: e :: _ => Some (N.lor (N.lor (N.lor (N.shiftl a 24) (N.shiftl b 16)) (N.shiftl c 8)) e)
  | _ => None
  end.
Definition rd32_at (d : bytes) (off : N) : option N := rd32 (drop off d).

Definition u32z (z : Z) : N := Z.to_N (z mod 4294967296).

(* NewID(ssid) at unix time [now], with the value [seq] returned by atomic.AddUint32(&next, 1)
   and the process-wide random [unique] *)
Definition new_id (ssid : list N) (now : Z) (seq unique : N) : res unit bytes :=
  match ssid with
  | s0 :: s1 :: _ =>
    Ok (be32 (N.lxor s0 s1) ++ be32 (maxU32 - u32z (now - id_offset)) ++ be32 (maxU32 - seq)
        ++ be32 unique ++ flat_map be32 ssid)
  | _ => Panic
  end.

Definition new_prefix (ssid : list N) (from : Z) : res unit bytes :=
  match ssid with
  | s0 :: s1 :: _ => Ok (be32 (N.lxor s0 s1) ++ be32 (maxU32 - u32z (from - id_offset)))
  | _ => Panic
  end.

Definition id_time (id : bytes) : res unit Z :=
  match rd32_at id 4 with
  | Some v => Ok (Z.of_N (maxU32 - v) + id_offset)%Z
  | None => Panic
  end.

Definition id_contract (id : bytes) : res unit N :=
  match rd32_at id fixed with Some v => Ok v | None => Panic end.

Fixpoint rd_words (n : nat) (d : bytes) : option (list N) :=
  match n with
  | O => Some []
  | S k => match rd32 d with
           | Some v => match rd_words k (drop 4 d) with Some r => Some (v :: r) | None => None end
           | None => None
           end
  end.

(* ID.Ssid(): make(Ssid, (len(id)-fixed)/4) - Go's int division truncates toward zero, so the
   length is negative (panic) exactly when len(id) <= 12 *)
Definition id_ssid (id : bytes) : res unit (list N) :=
  if len id <=? 12 then Panic
  else match rd_words (N.to_nat ((len id - fixed) / 4)) (drop fixed id) with
       | Some w => Ok w
       | None => Panic
       end.

(* lexicographic order of byte strings (the order of the storage keys): a < b *)
Fixpoint lex_ltb (a b : bytes) : bool :=
  match a, b with
  | [], [] => false
  | [], _ => true
  | _, [] => false
  | x :: a', y :: b' => if x <? y then true else if y <? x then false else lex_ltb a' b'
  end.
