(* Correspondence cases of C16: what the harness observed on the real codec (and on paho), the
   model's answer, and the property oracle (Spec.Mqtt311) on the observations. *)
From Emitter Require Import Lib.Base Model.Mqtt Spec.Mqtt311.

Inductive case :=
(* a packet value: EncodeTo's outcome, and DecodePacket on the produced bytes ++ trailer
   (observed: packet and number of unread bytes) *)
| CEnc (p : packet) (impl_enc : res merr bytes) (trailer : bytes)
       (impl_dec : option (res merr (packet * N)))
(* a byte string handed to DecodePacket with the given maximum size *)
| CDec (s : bytes) (max : N) (impl_dec : res merr (packet * N))
(* a well-formed packet encoded by paho (independent implementation), decoded by the broker;
   and the broker's encoding decoded by paho (true = paho returned the same field values) *)
| CPaho (p : packet) (paho_bytes : bytes) (impl_dec : res merr (packet * N))
        (paho_reads_impl : bool)
(* PUBLISH packets encoded concurrently: how many the writer received, how many of them were not one
   of the packets sent, or were lost or duplicated *)
| CEncStress (total bad : N).

Definition pn_eqb (a b : packet * N) : bool := packet_eqb (fst a) (fst b) && (snd a =? snd b).
Definition with_left (r : res merr (packet * bytes)) : res merr (packet * N) :=
  match r with Ok (p, rest) => Ok (p, len rest) | Err e => Err e | Panic => Panic end.

Definition body_fits (p : packet) : bool := len (body311 p) <=? bodyRoom.

Definition check (c : case) : N :=
  match c with
  | CEncStress total bad => bit (bad =? 0) 2
  | CEnc p ie trailer id =>
    (* bit 0: model = implementation *)
    bit (res_eqb bytes_eqb (encode p) ie) 1
    |+| match ie, id with
      | Ok bs, Some d => bit (res_eqb pn_eqb (with_left (decode_packet (bs ++ trailer) MaxMessageSize)) d) 1
      | _, _ => 0
      end
    (* bit 1: oracle - a well-formed value that fits is encoded as the standard says and
       decodes back to itself, leaving the trailer unread *)
    |+| (if wf311 p && body_fits p then
         bit (res_eqb bytes_eqb ie (Ok (encode311 p))) 2
         |+| match id with
           | Some d => bit (res_eqb pn_eqb d (Ok (p, len trailer))) 4
           | None => 0
           end
       else 0)
  | CDec s max id =>
    bit (res_eqb pn_eqb (with_left (decode_packet s max)) id) 1
  | CPaho p pb id ok =>
    bit (res_eqb pn_eqb (with_left (decode_packet pb MaxMessageSize)) id) 1
    (* bit 3 (8): the spec itself disagrees with paho - a defect of the spec, not of the broker *)
    |+| (if wf311 p && body_fits p then
         bit (bytes_eqb pb (encode311 p)) 8
         |+| bit (res_eqb pn_eqb id (Ok (p, 0))) 4
         |+| bit ok 16
       else 0)
  end.
