// Package vlib holds what every correspondence harness shares: the seeded PRNG, printers of
// Gallina terms, and the shard writer.  It is compiled into /repo's module through
// `go build -overlay` (no file is added to /repo).
package vlib

import (
	"bufio"
	"encoding/json"
	"flag"
	"fmt"
	"math/rand"
	"os"
	"path/filepath"
	"sort"
	"strings"
)

// ---- Gallina printers -------------------------------------------------------------------------

// N prints a natural number of Coq type N (N_scope is open in every shard).
func N(v uint64) string { return fmt.Sprintf("%d", v) }

// Z prints an integer of Coq type Z.
func Z(v int64) string {
	if v < 0 {
		return fmt.Sprintf("(%d)%%Z", v)
	}
	return fmt.Sprintf("%d%%Z", v)
}

// Bool prints a Coq bool.
func Bool(b bool) string {
	if b {
		return "true"
	}
	return "false"
}

// Bytes prints a byte string as `list N`, compressing runs of >= 24 equal bytes with `rep`.
func Bytes(b []byte) string {
	if len(b) == 0 {
		return "[]"
	}
	var parts []string
	var lit []string
	flush := func() {
		if len(lit) > 0 {
			parts = append(parts, "["+strings.Join(lit, ";")+"]")
			lit = nil
		}
	}
	for i := 0; i < len(b); {
		j := i
		for j < len(b) && b[j] == b[i] {
			j++
		}
		if j-i >= 24 {
			flush()
			parts = append(parts, fmt.Sprintf("rep %d %d", j-i, b[i]))
		} else {
			for k := i; k < j; k++ {
				lit = append(lit, fmt.Sprintf("%d", b[k]))
			}
		}
		i = j
	}
	flush()
	if len(parts) == 1 {
		if strings.HasPrefix(parts[0], "rep") {
			return "(" + parts[0] + ")"
		}
		return parts[0]
	}
	return "(" + strings.Join(parts, " ++ ") + ")"
}

// Str prints a Go string as a byte list.
func Str(s string) string { return Bytes([]byte(s)) }

// List prints a Coq list from already printed elements.
func List(items []string) string { return "[" + strings.Join(items, "; ") + "]" }

// NList prints a list of N.
func NList(v []uint64) string {
	s := make([]string, len(v))
	for i, x := range v {
		s[i] = N(x)
	}
	return List(s)
}

// Opt prints an option.
func Opt(present bool, s string) string {
	if !present {
		return "None"
	}
	return "(Some " + s + ")"
}

// App prints a constructor application.
func App(ctor string, args ...string) string {
	if len(args) == 0 {
		return ctor
	}
	return "(" + ctor + " " + strings.Join(args, " ") + ")"
}

// Pair prints a pair.
func Pair(a, b string) string { return "(" + a + ", " + b + ")" }

// ---- run configuration ------------------------------------------------------------------------

// Config is what the driver passes to each harness.
type Config struct {
	Seed   int64
	Tier   string
	Out    string
	Only   int // run only this case index (replay); -1 = all
	Mult   int // case multiplier chosen by the driver
	Extra  string
	Rng    *rand.Rand
	shards *Shards
}

// ParseFlags reads the common flags.
func ParseFlags() *Config {
	c := &Config{}
	flag.Int64Var(&c.Seed, "seed", 1, "PRNG seed")
	flag.StringVar(&c.Tier, "tier", "quick", "quick|thorough")
	flag.StringVar(&c.Out, "out", "", "output directory")
	flag.IntVar(&c.Only, "only", -1, "run only this case index")
	flag.IntVar(&c.Mult, "mult", 1, "case count multiplier")
	flag.StringVar(&c.Extra, "extra", "", "harness specific argument")
	flag.Parse()
	if c.Out == "" {
		fmt.Fprintln(os.Stderr, "missing -out")
		os.Exit(2)
	}
	os.MkdirAll(c.Out, 0o755)
	c.Rng = rand.New(rand.NewSource(c.Seed))
	return c
}

// Thorough reports whether the thorough tier is requested.
func (c *Config) Thorough() bool { return c.Tier == "thorough" }

// ---- shard writer -----------------------------------------------------------------------------

// Shards writes the cases as Coq source (one file per `PerShard` cases) and, aligned by index,
// as JSON lines for humans and replay files.
type Shards struct {
	dir      string
	prefix   string // e.g. "C16"
	requires string // e.g. "From Emitter Require Import Lib.Base Model.Mqtt Check.C16."
	caseType string // e.g. "C16.case"
	checkFn  string // e.g. "C16.check"
	HypFn    string // optional: boolean on cases = the hypotheses of the property theorem; counted per shard
	PerShard int
	n        int
	cur      *bufio.Writer
	curFile  *os.File
	curCount int
	shardNo  int
	jsonl    *bufio.Writer
	jsonlF   *os.File
	Dist     map[string]int
	distinct map[string]struct{}
	NonTriv  int
	Samples  []interface{}
	Notes    map[string]interface{}
}

// NewShards creates the writer.
func NewShards(dir, prefix, requires, caseType, checkFn string, perShard int) *Shards {
	f, err := os.Create(filepath.Join(dir, "cases.jsonl"))
	if err != nil {
		panic(err)
	}
	return &Shards{dir: dir, prefix: prefix, requires: requires, caseType: caseType, checkFn: checkFn,
		PerShard: perShard, jsonlF: f, jsonl: bufio.NewWriterSize(f, 1<<20), Dist: map[string]int{},
		distinct: map[string]struct{}{}, Notes: map[string]interface{}{}}
}

func (s *Shards) open() {
	name := filepath.Join(s.dir, fmt.Sprintf("shard_%04d.v", s.shardNo))
	f, err := os.Create(name)
	if err != nil {
		panic(err)
	}
	s.curFile = f
	s.cur = bufio.NewWriterSize(f, 1<<20)
	fmt.Fprintf(s.cur, "(* generated: shard %d, first case index %d *)\n%s\nOpen Scope N_scope.\nDefinition cases : list %s := [\n", s.shardNo, s.n, s.requires, s.caseType)
	s.curCount = 0
}

func (s *Shards) close() {
	if s.cur == nil {
		return
	}
	fmt.Fprintf(s.cur, "\n].\nDefinition R := Eval vm_compute in failing %s cases.\nPrint R.\nDefinition Cnt := Eval vm_compute in len cases.\nPrint Cnt.\n", s.checkFn)
	if s.HypFn != "" {
		fmt.Fprintf(s.cur, "Definition Hyp := Eval vm_compute in len (filter %s cases).\nPrint Hyp.\n", s.HypFn)
	}
	s.cur.Flush()
	s.curFile.Close()
	s.cur = nil
	s.shardNo++
}

// Add appends one case: its Gallina term, a human-readable JSON description, the distribution
// class it is counted under, and whether it is non-trivial by the harness' stated rule.
func (s *Shards) Add(term string, human interface{}, class string, nontrivial bool) int {
	if s.cur == nil {
		s.open()
	}
	if s.curCount > 0 {
		s.cur.WriteString(";\n")
	}
	s.cur.WriteString(" ")
	s.cur.WriteString(term)
	s.curCount++
	idx := s.n
	s.n++
	b, _ := json.Marshal(map[string]interface{}{"index": idx, "class": class, "case": human})
	s.jsonl.Write(b)
	s.jsonl.WriteByte('\n')
	s.Dist[class]++
	if nontrivial {
		if _, seen := s.distinct[term]; !seen {
			s.distinct[term] = struct{}{}
			s.NonTriv++
		}
	}
	if len(s.Samples) < 6 && (idx%97 == 0 || len(s.Samples) == 0) {
		s.Samples = append(s.Samples, map[string]interface{}{"index": idx, "class": class, "case": human})
	}
	if s.curCount >= s.PerShard {
		s.close()
	}
	return idx
}

// Count is the number of cases added so far.
func (s *Shards) Count() int { return s.n }

// Finish closes the files and writes summary.json.
func (s *Shards) Finish(rule string) {
	s.close()
	s.jsonl.Flush()
	s.jsonlF.Close()
	keys := make([]string, 0, len(s.Dist))
	for k := range s.Dist {
		keys = append(keys, k)
	}
	sort.Strings(keys)
	sum := map[string]interface{}{
		"cases":               s.n,
		"shards":              s.shardNo,
		"distribution":        s.Dist,
		"distinct_nontrivial": s.NonTriv,
		"rule":                rule,
		"samples":             s.Samples,
		"notes":               s.Notes,
	}
	b, _ := json.MarshalIndent(sum, "", " ")
	os.WriteFile(filepath.Join(s.dir, "summary.json"), b, 0o644)
}

// Catch runs f and reports whether it panicked (with the panic value's text).
func Catch(f func()) (panicked bool, msg string) {
	defer func() {
		if r := recover(); r != nil {
			panicked = true
			msg = fmt.Sprint(r)
		}
	}()
	f()
	return false, ""
}

// RandBytes returns n random bytes.
func RandBytes(r *rand.Rand, n int) []byte {
	b := make([]byte, n)
	for i := range b {
		b[i] = byte(r.Intn(256))
	}
	return b
}

// Pick returns one of the given ints.
func Pick(r *rand.Rand, v ...int) int { return v[r.Intn(len(v))] }

// Pick2 returns one of the given strings.
func Pick2(r *rand.Rand, v ...string) string { return v[r.Intn(len(v))] }
