(* The two directions of C16 on the model: EncodeTo produces the standard's bytes for every
   well-formed packet value that fits the buffer, and DecodePacket reads every standard encoding
   back to the same value, leaving the following bytes unread. *)
From Emitter Require Import Lib.Base Lib.Sweep Model.Mqtt Spec.Mqtt311 Proofs.ListFacts Proofs.MqttWords.
From Coq Require Import Lia ZifyN ZifyNat ZifyBool.

Local Ltac split_andb :=
  repeat match goal with
         | H : _ && _ = true |- _ => apply andb_prop in H; destruct H
         end.

(* ---------------------------------------------------------------------------------------- *)
(* encode                                                                                    *)

Lemma finish_spec mt h body fb :
  len body <= bodyRoom -> first_byte mt h = fb ->
  finish mt h body = Ok (fb :: remaining_length (len body) ++ body).
Proof.
  intros Hl Hf. unfold finish.
  assert (E : (bodyRoom <? len body) = false) by lia. rewrite E.
  rewrite write_header_eq, Hf, hdr_len_bytes_spec by exact Hl. reflexivity.
Qed.

Lemma first_byte_publish h :
  h_qos h < 3 -> first_byte 3 (Some h) = 16 * 3 + (8 * b2n (h_dup h) + 2 * h_qos h + b2n (h_retain h)).
Proof.
  destruct h as [d q r]. cbn [h_qos h_dup h_retain]. intros H.
  assert (q = 0 \/ q = 1 \/ q = 2) as [-> | [-> | ->]] by lia; destruct d, r; reflexivity.
Qed.

Lemma std_hdr_eq h : std_hdr h = true -> h = Hdr false 1 false.
Proof.
  destruct h as [d q r]. unfold std_hdr. cbn [h_qos h_dup h_retain]. intros H. split_andb.
  destruct d, r; try discriminate. f_equal. lia.
Qed.

Lemma flag_byte_spec uf pf wr wq wf cs :
  wq < 3 ->
  flag_byte uf pf wr wq wf cs = 128 * b2n uf + 64 * b2n pf + 32 * b2n wr + 8 * wq + 4 * b2n wf + 2 * b2n cs.
Proof.
  intros H. assert (wq = 0 \/ wq = 1 \/ wq = 2) as [-> | [-> | ->]] by lia;
    destruct uf, pf, wr, wf, cs; reflexivity.
Qed.

Lemma enc_subs_spec subs :
  forallb (fun t => str_ok (fst t) && (snd t <? 256)) subs = true ->
  enc_subs subs = flat_map (fun t => field (fst t) ++ [snd t]) subs.
Proof.
  induction subs as [|[t q] l IH]; intros H; [reflexivity|].
  cbn [forallb fst snd] in H. split_andb.
  unfold enc_subs in *. cbn [flat_map fst snd]. rewrite IH by assumption.
  rewrite w_str_field by (apply str_ok_len; assumption). reflexivity.
Qed.

Lemma enc_topics_spec ts :
  forallb str_ok ts = true -> enc_topics ts = flat_map field ts.
Proof.
  induction ts as [|t l IH]; intros H; [reflexivity|].
  cbn [forallb] in H. split_andb.
  unfold enc_topics in *. cbn [flat_map]. rewrite IH by assumption.
  rewrite w_str_field by (apply str_ok_len; assumption). reflexivity.
Qed.

Definition body_fits (p : packet) : Prop := len (body311 p) <= bodyRoom.

Lemma encode_matches_spec p :
  wf311 p = true -> body_fits p -> encode p = Ok (encode311 p).
Proof.
  unfold body_fits, encode311. intros W F.
  destruct p as [proto ver uf pf wr wq wf cs ka cid wt wm un pw | rc | h topic mid payload | mid | mid
                 | h mid | mid | h mid subs | mid codes | h mid topics | mid | | | ];
    cbn [wf311] in W; split_andb; cbn [encode type_code fixed_flags].
  - (* Connect *)
    assert (Hb : w_str proto ++ [ver] ++ [flag_byte uf pf wr wq wf cs] ++ w_u16 ka ++ w_str cid
                 ++ (if wf then w_str wt ++ w_str wm else []) ++ (if uf then w_str un else [])
                 ++ (if pf then w_str pw else [])
                 = body311 (Connect proto ver uf pf wr wq wf cs ka cid wt wm un pw)).
    { cbn [body311]. rewrite flag_byte_spec by lia.
      rewrite !w_str_field by (apply str_ok_len; assumption).
      rewrite w_u16_be16 by lia. reflexivity. }
    rewrite Hb. apply finish_spec; [exact F | reflexivity].
  - (* Connack *) apply finish_spec; [exact F | reflexivity].
  - (* Publish *)
    assert (Hb : w_str topic ++ (if 0 <? h_qos h then w_u16 mid else []) ++ payload
                 = body311 (Publish h topic mid payload)).
    { cbn [body311]. rewrite w_str_field by (apply str_ok_len; assumption).
      rewrite w_u16_be16 by lia.
      destruct (h_qos h =? 0) eqn:E1; destruct (0 <? h_qos h) eqn:E2; try reflexivity; lia. }
    assert (Hl : 2 + len topic + len payload + (if 0 <? h_qos h then 2 else 0)
                 = len (body311 (Publish h topic mid payload))).
    { cbn [body311].
      destruct (h_qos h =? 0) eqn:E1; destruct (0 <? h_qos h) eqn:E2; try lia;
        cbn [app]; rewrite !len_app, len_field, ?be16_len; lia. }
    rewrite Hl, Hb. unfold publish_too_large.
    assert (E : (bodyRoom <? len (body311 (Publish h topic mid payload))) = false).
    { unfold bodyRoom, MaxMessageSize, maxHeaderSize in *. lia. }
    rewrite E. apply finish_spec; [exact F|]. rewrite first_byte_publish by lia. reflexivity.
  - rewrite w_u16_be16 by lia. apply finish_spec; [exact F | reflexivity].
  - rewrite w_u16_be16 by lia. apply finish_spec; [exact F | reflexivity].
  - (* Pubrel *)
    match goal with H : std_hdr h = true |- _ => apply std_hdr_eq in H; subst h end.
    rewrite w_u16_be16 by lia. apply finish_spec; [exact F | reflexivity].
  - rewrite w_u16_be16 by lia. apply finish_spec; [exact F | reflexivity].
  - (* Subscribe *)
    match goal with H : std_hdr h = true |- _ => apply std_hdr_eq in H; subst h end.
    rewrite w_u16_be16 by lia. rewrite enc_subs_spec by assumption.
    apply finish_spec; [exact F | reflexivity].
  - rewrite w_u16_be16 by lia. apply finish_spec; [exact F | reflexivity].
  - (* Unsubscribe *)
    match goal with H : std_hdr h = true |- _ => apply std_hdr_eq in H; subst h end.
    rewrite w_u16_be16 by lia. rewrite enc_topics_spec by assumption.
    apply finish_spec; [exact F | reflexivity].
  - rewrite w_u16_be16 by lia. apply finish_spec; [exact F | reflexivity].
  - reflexivity.
  - reflexivity.
  - reflexivity.
Qed.

(* ---------------------------------------------------------------------------------------- *)
(* decode                                                                                    *)

Lemma mt_of_first_byte t fl : t < 16 -> fl < 16 -> N.shiftr (N.land (16 * t + fl) 240) 4 = t.
Proof.
  intros Ht Hf.
  assert (E : (N.shiftr (N.land (16 * t + fl) 240) 4 =? t) = true).
  { apply (sweep2_ok (fun t fl => N.shiftr (N.land (16 * t + fl) 240) 4 =? t) 16 16);
      [vm_compute; reflexivity | exact Ht | exact Hf]. }
  apply N.eqb_eq. exact E.
Qed.

Lemma hdr_bits_publish h :
  h_qos h < 3 ->
  dec_hdr_bits (16 * 3 + (8 * b2n (h_dup h) + 2 * h_qos h + b2n (h_retain h))) = h.
Proof.
  destruct h as [d q r]. cbn [h_qos h_dup h_retain]. intros H.
  assert (q = 0 \/ q = 1 \/ q = 2) as [-> | [-> | ->]] by lia; destruct d, r; reflexivity.
Qed.

(* the frame: header, length, body are split exactly; what follows is untouched *)
Lemma decode_header_frame t fl body rest :
  t < 16 -> fl < 16 -> len body < 268435456 ->
  decode_header ((16 * t + fl) :: remaining_length (len body) ++ body ++ rest)
  = Some (if has_hdr t then dec_hdr_bits (16 * t + fl) else hdr0, len body, t, body ++ rest).
Proof.
  intros Ht Hf Hl. unfold decode_header.
  rewrite mt_of_first_byte by assumption.
  rewrite dec_len_remaining_length by exact Hl. reflexivity.
Qed.

Lemma r_str_field_nil s : len s < 65536 -> r_str (field s) = Ok (s, []).
Proof. intros H. rewrite <- (app_nil_r (field s)). apply r_str_field. exact H. Qed.

Lemma r_u8_cons b d : r_u8 (b :: d) = Ok (b, d).
Proof. reflexivity. Qed.

Lemma connect_flags_decode uf pf wr wq wf cs :
  wq < 3 ->
  let flags := 128 * b2n uf + 64 * b2n pf + 32 * b2n wr + 8 * wq + 4 * b2n wf + 2 * b2n cs in
  (0 <? N.land flags 128) = uf /\ (0 <? N.land flags 64) = pf /\ (0 <? N.land flags 32) = wr
  /\ will_qos_of_flags flags = wq /\ (0 <? N.land flags 4) = wf /\ (0 <? N.land flags 2) = cs.
Proof.
  intros H. assert (wq = 0 \/ wq = 1 \/ wq = 2) as [-> | [-> | ->]] by lia;
    destruct uf, pf, wr, wf, cs; vm_compute; repeat split; reflexivity.
Qed.

Lemma dec_subs_spec : forall subs fuel,
  forallb (fun t => str_ok (fst t) && (snd t <? 256)) subs = true ->
  (length (flat_map (fun t => field (fst t) ++ [snd t]) subs) <= fuel)%nat ->
  dec_subs fuel (flat_map (fun t => field (fst t) ++ [snd t]) subs) = Ok subs.
Proof.
  induction subs as [|[t q] l IH]; intros fuel H Hf.
  - destruct fuel; reflexivity.
  - cbn [forallb fst snd] in H. split_andb.
    cbn [flat_map fst snd] in *.
    destruct fuel as [|fuel].
    { unfold field, be16 in Hf. cbn [app length] in Hf. lia. }
    assert (Hshape : exists b0 d0, (field t ++ [q]) ++ flat_map (fun t => field (fst t) ++ [snd t]) l = b0 :: d0).
    { unfold field, be16. cbn [app]. eexists. eexists. reflexivity. }
    destruct Hshape as (b0 & d0 & Hs). rewrite Hs. cbn [dec_subs]. rewrite <- Hs.
    rewrite <- !app_assoc. rewrite r_str_field by (apply str_ok_len; assumption).
    cbn [bindr app r_u8]. rewrite IH.
    + reflexivity.
    + assumption.
    + rewrite !app_length in Hf. assert (Lf : length (field t) = S (S (length t))) by reflexivity.
      rewrite Lf in Hf. cbn [length] in Hf. lia.
Qed.

Lemma dec_topics_spec : forall ts fuel,
  forallb str_ok ts = true ->
  (length (flat_map field ts) <= fuel)%nat ->
  dec_topics fuel (flat_map field ts) = Ok ts.
Proof.
  induction ts as [|t l IH]; intros fuel H Hf.
  - destruct fuel; reflexivity.
  - cbn [forallb] in H. split_andb. cbn [flat_map] in *.
    destruct fuel as [|fuel].
    { unfold field, be16 in Hf. cbn [app length] in Hf. lia. }
    assert (Hshape : exists b0 d0, field t ++ flat_map field l = b0 :: d0).
    { unfold field, be16. cbn [app]. eexists. eexists. reflexivity. }
    destruct Hshape as (b0 & d0 & Hs). rewrite Hs. cbn [dec_topics]. rewrite <- Hs.
    rewrite r_str_field by (apply str_ok_len; assumption).
    cbn [bindr]. rewrite IH.
    + reflexivity.
    + assumption.
    + rewrite app_length in Hf. assert (Lf : length (field t) = S (S (length t))) by reflexivity.
      rewrite Lf in Hf. lia.
Qed.

Lemma body_decode_frame t fl body rest max :
  t < 12 -> fl < 16 -> len body < 268435456 -> len body <= max ->
  decode_packet ((16 * t + fl) :: remaining_length (len body) ++ body ++ rest) max
  = let h := if has_hdr t then dec_hdr_bits (16 * t + fl) else hdr0 in
    do p <- (if t =? 1 then decode_connect body
             else if t =? 2 then decode_connack body
             else if t =? 3 then decode_publish body h
             else if t =? 4 then decode_mid Puback body
             else if t =? 5 then decode_mid Pubrec body
             else if t =? 6 then decode_mid (Pubrel h) body
             else if t =? 7 then decode_mid Pubcomp body
             else if t =? 8 then decode_subscribe body h
             else if t =? 9 then decode_suback body
             else if t =? 10 then decode_unsubscribe body h
             else if t =? 11 then decode_mid Unsuback body
             else Err EInvalidType);
    Ok (p, rest).
Proof.
  intros Ht Hf Hl Hm. unfold decode_packet.
  rewrite decode_header_frame by (try assumption; lia).
  assert (E12 : (t =? 12) = false) by lia. assert (E13 : (t =? 13) = false) by lia.
  assert (E14 : (t =? 14) = false) by lia. rewrite E12, E13, E14.
  assert (E1 : (max <? len body) = false) by lia. rewrite E1.
  assert (E2 : (len (body ++ rest) <? len body) = false) by (rewrite len_app; lia). rewrite E2.
  rewrite take_len_app, drop_len_app. reflexivity.
Qed.

Lemma decode_spec p rest max :
  wf311 p = true -> len (body311 p) < 268435456 -> len (body311 p) <= max ->
  decode_packet (encode311 p ++ rest) max = Ok (p, rest).
Proof.
  intros W Hl Hm. unfold encode311. cbn [app]. rewrite <- app_assoc.
  destruct p as [proto ver uf pf wr wq wf cs ka cid wt wm un pw | rc | h topic mid payload | mid | mid
                 | h mid | mid | h mid subs | mid codes | h mid topics | mid | | | ];
    cbn [wf311] in W; split_andb; cbn [type_code fixed_flags];
    try (rewrite body_decode_frame by (try assumption; try lia; cbn [h_qos]; try lia);
         cbn [N.eqb Pos.eqb has_hdr orb]).
  - (* Connect *)
    cbn [body311]. unfold decode_connect.
    rewrite <- ?app_assoc. rewrite r_str_field by (apply str_ok_len; assumption).
    cbn [bindr app r_u8]. rewrite r_u16_be16 by lia. cbn [bindr].
    rewrite r_str_field by (apply str_ok_len; assumption). cbn [bindr].
    destruct (connect_flags_decode uf pf wr wq wf cs ltac:(lia)) as (F1 & F2 & F3 & F4 & F5 & F6).
    cbv zeta in F1, F2, F3, F4, F5, F6. rewrite F1, F2, F3, F4, F5, F6.
    destruct wf, uf, pf; cbn [orb] in *; split_andb;
      repeat match goal with
             | H : (len ?x =? 0) = true |- _ => apply N.eqb_eq in H; apply len_zero_nil in H; subst x
             end;
      cbn [app bindr]; rewrite <- ?app_assoc;
      repeat (first [ rewrite r_str_field by (apply str_ok_len; assumption)
                    | rewrite r_str_field_nil by (apply str_ok_len; assumption) ]; cbn [bindr app]);
      reflexivity.
  - (* Connack *) reflexivity.
  - (* Publish *)
    assert (Hfl : 8 * b2n (h_dup h) + 2 * h_qos h + b2n (h_retain h) < 16)
      by (destruct (h_dup h), (h_retain h); cbn [b2n]; lia).
    rewrite body_decode_frame by (try assumption; lia). cbn [N.eqb Pos.eqb has_hdr orb].
    rewrite hdr_bits_publish by lia.
    cbn [body311]. unfold decode_publish. rewrite <- ?app_assoc.
    rewrite r_str_field by (apply str_ok_len; assumption). cbn [bindr].
    destruct (h_qos h =? 0) eqn:E1; destruct (0 <? h_qos h) eqn:E2; try lia.
    + cbn [app bindr]. assert (mid = 0) by (cbn [orb] in *; lia).
      subst mid. reflexivity.
    + rewrite r_u16_be16 by lia. cbn [bindr]. destruct h; reflexivity.
  - cbn [body311]. unfold decode_mid. rewrite <- (app_nil_r (be16 mid)). rewrite r_u16_be16 by lia. reflexivity.
  - cbn [body311]. unfold decode_mid. rewrite <- (app_nil_r (be16 mid)). rewrite r_u16_be16 by lia. reflexivity.
  - match goal with H : std_hdr h = true |- _ => apply std_hdr_eq in H; subst h end.
    cbn [body311]. unfold decode_mid. rewrite <- (app_nil_r (be16 mid)). rewrite r_u16_be16 by lia. reflexivity.
  - cbn [body311]. unfold decode_mid. rewrite <- (app_nil_r (be16 mid)). rewrite r_u16_be16 by lia. reflexivity.
  - match goal with H : std_hdr h = true |- _ => apply std_hdr_eq in H; subst h end.
    cbn [body311]. unfold decode_subscribe. rewrite r_u16_be16 by lia. cbn [bindr].
    rewrite dec_subs_spec by (try assumption; apply Nat.le_refl). reflexivity.
  - cbn [body311]. unfold decode_suback. rewrite r_u16_be16 by lia. reflexivity.
  - match goal with H : std_hdr h = true |- _ => apply std_hdr_eq in H; subst h end.
    cbn [body311]. unfold decode_unsubscribe. rewrite r_u16_be16 by lia. cbn [bindr].
    rewrite dec_topics_spec by (try assumption; apply Nat.le_refl). reflexivity.
  - cbn [body311]. unfold decode_mid. rewrite <- (app_nil_r (be16 mid)). rewrite r_u16_be16 by lia. reflexivity.
  - reflexivity.
  - reflexivity.
  - reflexivity.
Qed.
