//go:build verif

package mesh

// VerifSender drives a real gossipSender (Send / Broadcast / pick / deliver) over a recording
// protocol sender, without the sender goroutine, so that a harness decides when delivery happens.
type VerifSender struct {
	s    *gossipSender
	Sent [][]byte
	stop chan struct{}
}

type verifRecorder struct{ v *VerifSender }

func (r verifRecorder) SendProtocolMsg(m protocolMsg) error {
	r.v.Sent = append(r.v.Sent, append([]byte{}, m.msg...))
	return nil
}

// NewVerifSender builds the sender.
func NewVerifSender() *VerifSender {
	v := &VerifSender{stop: make(chan struct{})}
	v.s = &gossipSender{
		makeMsg:          func(msg []byte) protocolMsg { return protocolMsg{ProtocolGossip, msg} },
		makeBroadcastMsg: func(srcName PeerName, msg []byte) protocolMsg { return protocolMsg{ProtocolGossipBroadcast, msg} },
		sender:           verifRecorder{v},
		broadcasts:       make(map[PeerName]GossipData),
		more:             make(chan struct{}, 1),
	}
	return v
}

// Send queues gossip data on the link.
func (v *VerifSender) Send(d GossipData) { v.s.Send(d) }

// Broadcast queues broadcast data of the given source on the link.
func (v *VerifSender) Broadcast(src PeerName, d GossipData) { v.s.Broadcast(src, d) }

// Deliver sends everything that is pending and returns the messages handed to the connection.
func (v *VerifSender) Deliver() [][]byte {
	v.Sent = nil
	v.s.deliver(v.stop)
	return v.Sent
}
