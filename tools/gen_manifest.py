#!/usr/bin/env python3
"""Regenerates MANIFEST.json from lib/props.py and properties.jsonl (keeps them in sync)."""
import json, os, sys
V = os.path.dirname(os.path.dirname(os.path.abspath(__file__)))
sys.path.insert(0, os.path.join(V, "lib"))
from props import PROPS
ids = [json.loads(l)["id"] for l in open(os.path.join(V, "properties.jsonl"))]
checks = []
for pid in ids:
    if pid not in PROPS:
        continue
    s = PROPS[pid]
    checks.append({
        "property_id": pid,
        "quick_cmd": "./check %s --tier quick" % pid,
        "thorough_cmd": "./check %s --tier thorough" % pid,
        "evidence_file": "/verif/evidence/%s.json" % pid,
        "replay_cmd_template": "./check %s --replay {path}" % pid,
        "engine": "coq-model+correspondence",
        "level_claimed": {"category": "proof", "text": s["level_text"], "design_ref": s.get("design_ref", "DESIGN.md section 5, " + pid)},
        "level_note": s["level_note"],
        "technique": s.get("technique", "machine-checked Coq proof over an executable Gallina model + differential correspondence check against the Go implementation"),
    })
na = [{"property_id": p, "reason": PROPS_NA.get(p, "check not built yet in this round (work in progress; see DESIGN.md section 9)")} for p in ids if p not in PROPS] if (PROPS_NA := {}) is not None else []
m = {
    "version": 1,
    "setup_cmd": "./setup.sh",
    "hooks": {
        "guard": "verif",
        "enable": "go build -tags verif -overlay /verif/.build/overlay.json (hook files live in /verif/harness/hooks and are added to /repo's packages by the overlay only; no hook is committed to /repo)",
        "baseline_off_cmd": "cd /repo && GOFLAGS=-mod=mod GOPROXY=off go test -vet=off -count=1 -timeout 25m ./...",
        "source_commits": [],
        "add_only": True,
    },
    "engines": [{"name": "coq-model+correspondence", "path": "/verif/check",
                 "serves_properties": [c["property_id"] for c in checks],
                 "kind_free_text": "Coq 8.16 development (coq/): executable Gallina models, specs, theorems; Go harnesses compiled into /repo via overlay; model and property oracle evaluated on the observed cases with vm_compute"}],
    "checks": checks,
    "not_applicable": na,
    "notes": "fix: commits in /repo and open findings are listed in /verif/known_findings.json",
}
json.dump(m, open(os.path.join(V, "MANIFEST.json"), "w"), indent=1)
print("MANIFEST.json: %d checks, %d not claimed" % (len(checks), len(na)))
