#!/usr/bin/env python3
"""Regenerates the two generated tables of DESIGN.md (between the BEGIN/END markers): the seeded
defects with the checks that catch them, and the per-property list of theorems."""
import glob, json, os, re

V = "/verif"
STRENGTH = {
    "C13-m1": "missed at first; caught after the harness kept delta objects alive until 'sent' and added the OpDeltaCheck step",
    "C19-m1": "missed at first; caught after adding concurrent publishers against the flusher (CQStress)",
    "C19-m2": "missed at first; caught after encoding everything before decoding anything (two-phase)",
    "C20-m2": "missed at first; caught after using fresh, shared and reference cipher instances side by side",
    "C01-m2": "missed at first; caught after adding contended concurrent trie cases",
    "C11-m2": "missed at first; caught after adding odd channel strings (users/bob#/ ...)",
    "C12-m2": "missed at first; caught after adding licences with Sign = 0",
    "C03-m2": "missed at first; caught after re-authorising the parent key after an extension (CProbe)",
    "C06-m2": "missed at first; caught after adding channel words whose ids end in 0xff",
    "C08-m1": "missed at first; caught after the directed colliding-filter scenarios (every subscribe / remove order)",
    "C02-m1": "missed at first; caught after the directed colliding-filter scenarios",
    "C08-m2": "missed by C08 at first (caught by C09's live broker); C08 catches it since a panicking packet is one of the ways of ending",
    "C07-m2": "missed at first; caught after ttl values above the retention period and the end-of-history store dump (channel, payload, ttl)",
    "C20-m4": "missed at first; caught after adding licences with boundary contract / signature / master index values",
    "C11-m3": "missed at first; caught after calling CreateKey directly (the HTTP form's path) with expired masters",
    "C14-m3": "missed at first; caught after observing whether the persisted ban record carries an expiry",
    "C14-m4": "missed at first; caught after the lookups-racing-toggles case",
    "C07-m1": "caught by random histories at first, missed after the generator changed, caught for good by the directed replay scenarios",
    "C05-m2": "written against the delta-counting merge that was later repaired (d18db5e): no longer applies",
    "C02-m5": "missed at first; caught after repeated CONNECT packets with the clean-session flag on a connection that holds subscriptions and links",
    "C02-m6": "missed at first; caught after the colliding pair y/ , y/x/x/ (one stored filter a proper prefix of the other, same bookkeeping key)",
    "C07-m5": "missed at first; caught after last values of 2^31 and above (subscribe and history requests)",
    "C07-m6": "missed at first; caught after retained publishes without payload",
    "C08-m6": "missed at first; caught after sessions that never send CONNECT",
    "C09-m5": "missed at first; caught after survey answers that arrive after the survey ended (stub gossiper with 1-3 peers)",
    "C09-m6": "missed at first; caught after the subscriber that never reads (a connection whose writes block until the write deadline, clock scaled 400x)",
    "C12-m5": "missed at first; caught after key texts crafted to have a chosen 32-bit murmur hash (same as the original, or differing by two permission bits), presented after the original",
    "C16-m5": "missed at first; caught after 24 goroutines encoding different PUBLISH packets into a writer that yields before it copies",
    "C19-m5": "missed at first; caught after 8 goroutines creating 20000 ids each",
    "C19-m6": "missed at first; caught after messages encoded right after frames (shared encoder pool)",
    "C10-m5": "missed at first; caught by C16 after refused oversize packets between the concurrent encoders",
    "C10-m6": "missed at first; caught after packets of 8192-20000 bytes in the write-queue scripts",
    "C15-m5": "missed at first; caught after a second store is opened on the directory while the storing child is alive",
    "C15-m6": "missed at first; caught after messages of exactly the largest returnable size (65536 bytes and up to 8 less)",
    "C17-m5": "missed at first; caught after driving the whole multiplexing listener (hook VerifNewListener over a scripted root listener) with a read timeout and an acceptor that reads at once",
    "C17-m6": "missed at first; caught after WebSocket writes of 16384-65536 bytes",
    "C18-m5": "missed at first; caught after a connection that ends while it holds both filters of a colliding pair",
    "C18-m6": "missed at first; caught after the overlapping-filters scenario (a/ and a/b/, a/+/ and a/b/ on one connection, watchers on both)",
    "C02-m7": "missed at first; caught after three filters of one connection in one bookkeeping bucket",
    "C02-m8": "missed at first; caught after a link name used, registered again for another channel and used again",
    "C07-m7": "missed at first; caught after subscriptions with a from / until window and no last option",
    "C07-m8": "missed at first; caught after option values written with leading zeros and 0x prefixes",
    "C08-m7": "missed at first; caught after a delivery whose socket write reports an error while the connection lives on (injected at the broker's end of the pipe)",
    "C08-m8": "missed at first; caught after three filters of one connection in one bookkeeping bucket, ended by the connection",
    "C09-m8": "missed at first; caught after brokers configured with limit.messageSize up to 2^30 receive a packet announcing 256 MiB",
    "C10-m8": "missed at first; caught after a publisher that exceeds its read rate (20 / s) while writing 50 packets back to back",
    "C15-m7": "rebased after the repairs in ssd.go; caught by the kill / restart cycles",
    "C15-m8": "missed at first; caught after messages published 40 days ago with a ttl of one year",
    "C18-m7": "caught because the harness run did not end in time (missing packets); no failing input shown",
    "C06-m10": "missed at first; caught after emitter/history/ requests are paged through the real handler with startFromID (filters shallower than the stored channel)",
    "C09-m10": "missed at first (the inflated id lengths were too rare and too small); caught after every third survey request announces a large id length behind a well-formed ssid",
    "C11-m10": "missed at first; caught after SUBSCRIBE requests with wildcards under and over the extendable key's channel",
    "C14-m9": "missed at first; caught after ban / unban toggles that arrive from another broker between the requests",
    "C01-m6": "missed at first; caught after share groups of 129-300 members that are looked up, dissolved and followed by lookups of lone members",
    "C03-m5": "missed at first; caught after keys expiring at the edges of the 32-bit expiry field (2010, 2106-2146, clamped dates)",
    "C03-m6": "not seen by C03 / C14 (the alternate spelling decrypts to the same key); caught by C20 (the decoder must reject characters outside its alphabet)",
    "C06-m5": "missed at first; caught after stores on one channel with payloads of 2 / 20000 / 30000 / 40000 bytes mixed (cap crossed in the middle of a page)",
    "C06-m6": "missed at first; caught after one-second and inverted windows",
    "C11-m5": "missed at first because the expiry comparison tolerated 0 next to 1-3 (a looseness of the check, corrected: 0 = never expires is near nothing else)",
    "C02-m3": "missed at first; caught after re-subscribing held filters (generator bias + the filter-subscribed-twice scenario)",
    "C02-m4": "missed at first; caught after links that carry channel options (me=0, ttl) used by a subscribed connection",
    "C07-m3": "missed at first; caught after retained publishes with ttl=0",
    "C08-m3": "missed at first; caught after the filter-subscribed-twice scenario ending in all four ways",
    "C08-m4": "missed at first; caught after last wills with the extendable key (write permission, may not publish)",
    "C09-m4": "missed at first; caught after malformed option lists (bare keys, empty keys / values, stray separators) against the live broker child",
    "C10-m3": "missed at first; caught after concurrent senders through the WebSocket transport over a one-writer-at-a-time socket",
    "C10-m4": "missed at first; caught after the wide-channel scenario on a real broker (14-20 subscribers, 60 publishes back to back)",
    "C18-m3": "missed at first; caught after cancelling a presence watch with status:false",
    "C18-m4": "missed at first; caught after channels whose first word is 'presence'",
    "C18-m2": "missed at first; caught after the presence-burst scenario (watcher not reading while 150 / 260 subscriptions are made)",
}


def mutants():
    out = ["| seeded defect | files | what it breaks | caught by | note |", "|---|---|---|---|---|"]
    for d in sorted(glob.glob(V + "/seeded/*/meta.json")):
        m = json.load(open(d))
        name = os.path.basename(os.path.dirname(d))
        ev = m.get("evaluation", {})
        det = sorted({k.split()[0] for k, v in ev.get("our_checks", {}).items() if isinstance(v, dict) and v.get("exit") != 0})
        what = m.get("what_it_breaks") or ""
        if isinstance(what, list):
            what = " ".join(what)
        what = re.sub(r"\s+", " ", what).replace("|", "/")
        if len(what) > 170:
            what = what[:167] + "..."
        files = ", ".join(os.path.basename(f) for f in m.get("files_changed", []))
        out.append("| %s | %s | %s | %s | %s |" % (name, files, what, ", ".join(det) or "NOT CAUGHT", STRENGTH.get(name, "")))
    return "\n".join(out)


def theorems():
    out = ["| property | theorems in coq/Properties (all `Closed under the global context`) |", "|---|---|"]
    for f in sorted(glob.glob(V + "/coq/Properties/C*.v")):
        names = re.findall(r"^(?:Theorem|Corollary)\s+(\w+)", open(f).read(), flags=re.M)
        out.append("| %s | %s |" % (os.path.basename(f)[:-2], ", ".join("`%s`" % n for n in names)))
    return "\n".join(out)


def main():
    p = V + "/DESIGN.md"
    s = open(p).read()
    for tag, gen in (("MUTANTS", mutants), ("THEOREMS", theorems)):
        a, b = "<!-- BEGIN %s -->" % tag, "<!-- END %s -->" % tag
        if a in s:
            s = s[:s.index(a) + len(a)] + "\n" + gen() + "\n" + s[s.index(b):]
    open(p, "w").write(s)


if __name__ == "__main__":
    main()
