(* C04 - Replicated cluster state converges regardless of delivery order.
   Model: Model/Lww.v (crdt.Volatile / crdt.Durable / event.State.Merge), tied to the code by the
   crdt harness on every run.  [times s k] = (latest add, latest remove) of key k at replica s. *)
From stdpp Require Import gmap.
From Coq Require Import ZArith.
From Emitter Require Import Model.Lww Proofs.LwwProofs.
Local Open Scope Z_scope.

(* merging is the point-wise maximum of add and remove times *)
Theorem C04_merge_is_pointwise_max : forall s r k,
  nonneg s ->
  tadd (lww_merge s r) k = Z.max (tadd s k) (tadd r k) /\ tdel (lww_merge s r) k = Z.max (tdel s k) (tdel r k).
Proof. exact merge_times. Qed.
Print Assumptions C04_merge_is_pointwise_max.

Theorem C04_merge_comm : forall s r k, nonneg s -> nonneg r -> times (lww_merge s r) k = times (lww_merge r s) k.
Proof. exact merge_comm_times. Qed.
Print Assumptions C04_merge_comm.

Theorem C04_merge_assoc : forall a b c k, nonneg a -> nonneg b ->
  times (lww_merge (lww_merge a b) c) k = times (lww_merge a (lww_merge b c)) k.
Proof. exact merge_assoc_times. Qed.
Print Assumptions C04_merge_assoc.

Theorem C04_merge_idem : forall s k, nonneg s -> times (lww_merge s s) k = times s k.
Proof. exact merge_idem_times. Qed.
Print Assumptions C04_merge_idem.

(* any two replicas that started from the same state and received the same SET of payloads - in
   any order, any number of times each - hold the same add and remove times for every key *)
Theorem C04_order_insensitive : forall ps ps' s k,
  nonneg s -> (forall p, In p ps <-> In p ps') ->
  times (fold_left lww_merge ps s) k = times (fold_left lww_merge ps' s) k.
Proof. exact order_insensitive. Qed.
Print Assumptions C04_order_insensitive.

(* grouping: a snapshot of a replica that had merged qs into q0 is worth q0 and qs one by one *)
Theorem C04_grouping : forall qs q0 s k, nonneg s -> nonneg q0 ->
  times (lww_merge s (fold_left lww_merge qs q0)) k = times (fold_left lww_merge (q0 :: qs) s) k.
Proof. exact grouping. Qed.
Print Assumptions C04_grouping.

(* relaying the delta of a merge instead of the payload loses nothing *)
Theorem C04_delta_lossless : forall s r k, nonneg s ->
  times (lww_merge s (lww_delta s r)) k = times (lww_merge s r) k.
Proof. exact delta_lossless. Qed.
Print Assumptions C04_delta_lossless.

(* local operations (one clock reading) are merges of single-entry payloads, so histories of
   operations are histories of payloads *)
Theorem C04_local_ops_are_merges : forall s k v now k', nonneg s ->
  times (lww_add s k v now now) k' = times (lww_merge s {[k := Ent now 0 v]}) k'
  /\ times (lww_del s k now now) k' = times (lww_merge s {[k := Ent 0 now []]}) k'.
Proof. intros. split; [apply add_is_merge | apply del_is_merge]; assumption. Qed.
Print Assumptions C04_local_ops_are_merges.

(* the invariant the laws need is established by the code itself: non-negative clock readings
   keep every replica non-negative, whatever payloads (hostile ones included) are merged *)
Theorem C04_nonneg_invariant : forall s r k v now now',
  nonneg s -> 0 <= now' ->
  nonneg (lww_merge s r) /\ nonneg (lww_add s k v now now') /\ nonneg (lww_del s k now now').
Proof. intros. split; [|split]; [apply merge_nonneg | apply add_nonneg | apply del_nonneg]; assumption. Qed.
Print Assumptions C04_nonneg_invariant.

(* an entry is active exactly when it has been added and its latest add is not older than its
   latest remove (ties count as added) *)
Theorem C04_active_iff : forall s k, has s k = true <-> tadd s k <> 0 /\ tdel s k <= tadd s k.
Proof. exact active_iff. Qed.
Print Assumptions C04_active_iff.

Example C04_nonvacuous :
  nonneg (lww_add (lww_del ∅ 7%N 5 5) 7%N [1%N] 5 5)
  /\ has (lww_add (lww_del ∅ 7%N 5 5) 7%N [1%N] 5 5) 7%N = true
  /\ times (lww_merge (lww_add ∅ 1%N [] 3 3) (lww_del ∅ 1%N 9 9)) 1%N = (3, 9).
Proof.
  split; [|split; vm_compute; reflexivity].
  apply add_nonneg; [apply del_nonneg; [apply nonneg_empty|]|]; lia.
Qed.
