(* C20: EncryptKey / DecryptKey of the three ciphers compose to the identity on 24-byte keys,
   are injective, reject malformed strings; licence layouts round-trip. *)
From Emitter Require Import Lib.Base Lib.Sweep Lib.Bits Model.MsgCodec Model.Cipher
     Proofs.ListFacts Proofs.MsgCodecProofs Proofs.IdProofs Proofs.CipherProofs Proofs.Base64Proofs.
From Coq Require Import Lia ZifyN ZifyNat ZifyBool.
Set Default Timeout 120.

Local Ltac split_andb :=
  repeat match goal with
         | H : _ && _ = true |- _ => apply andb_prop in H; destruct H
         end.

(* what the keystream must be: bytes, and long enough (it is 24 resp. 22 bytes in the code) *)
Definition cipher_ok (c : cipher) : Prop :=
  match c with
  | CXtea _ => True
  | CSalsa ks => (24 <= length ks)%nat /\ bytes_ok ks = true
  | CShuffle ks => forall s0 s1, (22 <= length (ks s0 s1))%nat /\ bytes_ok (ks s0 s1) = true
  end.

Lemma xor_bytes_ok : forall k ks, bytes_ok k = true -> bytes_ok ks = true -> bytes_ok (xor_bytes k ks) = true.
Proof.
  unfold xor_bytes. induction k as [|a k IH]; intros ks B1 B2; [reflexivity|].
  destruct ks as [|b ks]; [reflexivity|]. cbn [combine map fst snd].
  unfold bytes_ok in *. cbn [forallb] in *. unfold byte_ok in *. split_andb.
  rewrite andb_true_iff. split; [apply N.ltb_lt, lxor_byte; lia | apply IH; assumption].
Qed.

Lemma crypt_enc_shape c k :
  cipher_ok c -> length k = 24%nat -> bytes_ok k = true ->
  length (crypt c true k) = 24%nat /\ bytes_ok (crypt c true k) = true.
Proof.
  intros C L B. destruct c as [key | ks | ks]; cbn [crypt].
  - destruct k as [|s0 [|s1 r]]; cbn in L; try lia. unfold xtea_encrypt_bytes.
    assert (L' : length (s0 :: s1 :: whiten s0 s1 r) = (8 * 3)%nat)
      by (cbn [length]; rewrite (whiten_length s0 s1 22) by lia; lia).
    split; [rewrite (blocks_length _ 3) by exact L'; exact L' | apply (blocks_bytes_ok _ 3); exact L'].
  - destruct C as [C1 C2]. split; [rewrite xor_bytes_length; lia | apply xor_bytes_ok; assumption].
  - destruct k as [|s0 [|s1 r]]; cbn in L; try lia. destruct (C s0 s1) as [C1 C2].
    unfold bytes_ok in B. cbn [forallb] in B. split_andb.
    split.
    + cbn [length]. rewrite xor_bytes_length by lia. lia.
    + unfold bytes_ok. cbn [forallb]. rewrite !andb_true_iff. repeat split; try assumption.
      apply xor_bytes_ok; assumption.
Qed.

Lemma crypt_roundtrip c k :
  cipher_ok c -> length k = 24%nat -> bytes_ok k = true -> crypt c false (crypt c true k) = k.
Proof.
  intros C L B. destruct c as [key | ks | ks].
  - cbn [crypt]. apply xtea_roundtrip; assumption.
  - apply salsa_roundtrip. destruct C. lia.
  - apply shuffle_roundtrip. intros s0 s1. destruct (C s0 s1). lia.
Qed.

(* every 24-byte key encrypts to a 32-character URL-safe string that decrypts to the same key *)
Theorem key_roundtrip c k :
  cipher_ok c -> length k = 24%nat -> bytes_ok k = true ->
  len (encrypt_key c k) = 32
  /\ forallb (fun ch => negb (dec_char ch =? 255)) (encrypt_key c k) = true
  /\ decrypt_key c (encrypt_key c k) = Ok k.
Proof.
  intros C L B. unfold encrypt_key.
  assert (F : firstn 24 k = k) by (rewrite <- L; apply firstn_all). rewrite F.
  destruct (crypt_enc_shape c k C L B) as [L2 B2].
  assert (L3 : length (b64_encode (crypt c true k)) = (4 * 8)%nat) by (apply (b64_encode_length 8); exact L2).
  repeat split.
  - unfold len. rewrite L3. reflexivity.
  - apply (b64_encode_alphabet 8); assumption.
  - unfold decrypt_key. unfold len. rewrite L3. cbn [N.of_nat Pos.of_succ_nat N.eqb negb].
    change (N.of_nat (4 * 8)) with 32. cbn [N.eqb Pos.eqb negb].
    rewrite (decode_key_pure _ 8 L3). rewrite (b64_roundtrip 8) by assumption.
    rewrite crypt_roundtrip by assumption. reflexivity.
Qed.

(* distinct keys give distinct strings *)
Theorem key_injective c k1 k2 :
  cipher_ok c -> length k1 = 24%nat -> bytes_ok k1 = true -> length k2 = 24%nat -> bytes_ok k2 = true ->
  encrypt_key c k1 = encrypt_key c k2 -> k1 = k2.
Proof.
  intros C L1 B1 L2 B2 E.
  destruct (key_roundtrip c k1 C L1 B1) as (_ & _ & D1). destruct (key_roundtrip c k2 C L2 B2) as (_ & _ & D2).
  rewrite E in D1. rewrite D1 in D2. apply ok_inj in D2. exact D2.
Qed.

(* strings that are not 32 valid characters are rejected with an error (never a key, never a panic) *)
Lemma decode4_bad : forall n s,
  length s = (4 * n)%nat -> forallb (fun ch => negb (dec_char ch =? 255)) s = false -> b64_decode4 s = None.
Proof.
  induction n as [|n IH]; intros s L B.
  - destruct s; [discriminate | cbn in L; lia].
  - destruct s as [|a [|b [|c [|d r]]]]; cbn in L; try lia.
    cbn [forallb] in B. cbn [b64_decode4].
    destruct (dec_char a =? 255); [reflexivity|]. destruct (dec_char b =? 255); [reflexivity|].
    destruct (dec_char c =? 255); [reflexivity|]. destruct (dec_char d =? 255); [reflexivity|].
    cbn [negb andb orb] in *. rewrite (IH r) by (try lia; exact B). reflexivity.
Qed.

Theorem reject_malformed c s :
  (len s =? 32) && forallb (fun ch => negb (dec_char ch =? 255)) s = false ->
  exists e, decrypt_key c s = Err e.
Proof.
  intros H. unfold decrypt_key. destruct (len s =? 32) eqn:E; cbn [negb andb] in *.
  - assert (L : length s = (4 * 8)%nat) by (unfold len in E; lia).
    rewrite (decode_key_pure s 8 L). rewrite (decode4_bad 8 s L H). eexists. reflexivity.
  - eexists. reflexivity.
Qed.

(* ---- licences ---- *)
Definition lic1_ok (l : lic1) : Prop :=
  length (l1_key l) = 16%nat /\ l1_user l < 4294967296 /\ l1_sign l < 4294967296
  /\ l1_expiry l < 4294967296 /\ l1_type l < 4294967296.

Theorem lic1_roundtrip l : lic1_ok l -> parse1_raw (lic1_raw l) = Ok l.
Proof.
  intros (K & U & S & E & T). destruct l as [key u s e t]. cbn [l1_key l1_user l1_sign l1_expiry l1_type] in *.
  unfold parse1_raw, lic1_raw. cbn [l1_key l1_user l1_sign l1_expiry l1_type].
  assert (Lk : len key = 16) by (unfold len; rewrite K; reflexivity).
  assert (LL : (len (key ++ be32 u ++ be32 s ++ be32 e ++ be32 t) <? 32) = false)
    by (rewrite !len_app, !len_be32, Lk; reflexivity).
  rewrite LL.
  assert (D16 : drop 16 (key ++ be32 u ++ be32 s ++ be32 e ++ be32 t) = be32 u ++ be32 s ++ be32 e ++ be32 t)
    by (rewrite <- Lk; apply drop_len_app).
  assert (D20 : drop 20 (key ++ be32 u ++ be32 s ++ be32 e ++ be32 t) = be32 s ++ be32 e ++ be32 t)
    by (change 20 with (16 + 4); rewrite <- drop_drop, D16; apply drop4_be32).
  assert (D24 : drop 24 (key ++ be32 u ++ be32 s ++ be32 e ++ be32 t) = be32 e ++ be32 t)
    by (change 24 with (20 + 4); rewrite <- drop_drop, D20; apply drop4_be32).
  assert (D28 : drop 28 (key ++ be32 u ++ be32 s ++ be32 e ++ be32 t) = be32 t)
    by (change 28 with (24 + 4); rewrite <- drop_drop, D24; apply drop4_be32).
  unfold rd32_at. rewrite D16, D20, D24, D28.
  rewrite !rd32_be32 by assumption. rewrite <- (app_nil_r (be32 t)). rewrite rd32_be32 by assumption.
  rewrite <- K. rewrite firstn_app, Nat.sub_diag, firstn_all. cbn [firstn]. rewrite app_nil_r. reflexivity.
Qed.

Definition lic2_ok (l : lic2) : Prop :=
  len (l2_key l) < 9223372036854775808 /\ len (l2_salt l) < 9223372036854775808
  /\ l2_user l < 4294967296 /\ l2_sign l < 4294967296 /\ l2_index l < 4294967296.

Theorem lic2_roundtrip l : lic2_ok l -> parse2_inner (lic2_inner l) = Ok l.
Proof.
  intros (K & S & U & G & I). unfold parse2_inner, lic2_inner. rewrite <- ?app_assoc.
  rewrite read_bytes_enc by exact K. cbn [bindr].
  rewrite read_bytes_enc by exact S. cbn [bindr].
  rewrite read_uvarint_uvarint by lia. cbn [bindr].
  rewrite read_uvarint_uvarint by lia. cbn [bindr].
  rewrite <- (app_nil_r (uvarint (l2_index l))). rewrite read_uvarint_uvarint by lia. cbn [bindr].
  unfold u32'. rewrite !N.mod_small by assumption. destruct l; reflexivity.
Qed.
