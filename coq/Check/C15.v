(* Correspondence cases of C15: kill / restart cycles on one state directory. *)
From Emitter Require Import Lib.Base Model.MsgCodec.

Inductive cycle := Cycle (clean opened : bool) (tried : list (N * msg)) (acked : list N) (reopened : bool) (recovered : list msg).
Inductive case := CKill (cycles : list cycle).

Definition msg_eqb (a b : msg) : bool :=
  bytes_eqb (m_id a) (m_id b) && bytes_eqb (m_chan a) (m_chan b) && bytes_eqb (m_payload a) (m_payload b)
  && (m_ttl a =? m_ttl b).

(* after each cycle: the store reopened; every message acknowledged in this or an earlier cycle is
   returned with identical id, channel, payload and ttl; nothing is returned that was never handed
   to Store; a clean stop loses nothing that was tried-and-acknowledged either *)
Fixpoint cycles_ok (cs : list cycle) (acked_so_far tried_so_far : list msg) : bool :=
  match cs with
  | [] => true
  | Cycle clean opened tried acked reopened recovered :: r =>
    let tried_msgs := map snd tried in
    let acked_msgs := flat_map (fun i => match find (fun t => fst t =? i) tried with Some t => [snd t] | None => [] end) acked in
    let A := acked_so_far ++ acked_msgs in
    let T := tried_so_far ++ tried_msgs in
    opened && reopened
    && forallb (fun m => existsb (msg_eqb m) recovered) A
    && forallb (fun m => existsb (msg_eqb m) T) recovered
    && cycles_ok r A T
  end.

Definition check (c : case) : N :=
  match c with CKill cs => bit (cycles_ok cs [] []) 2 end.
