(* C05: a schedule on which the faithful model (Model/Cluster.v) - and, replayed by the c05 harness,
   the real brokers - end with routing that differs from the ground truth although every link has
   drained and two rounds of full-state exchange have run. *)
From stdpp Require Import gmap.
From Coq Require Import ZArith List.
From Emitter Require Import Model.Lww Model.Cluster.
Import ListNotations.
Local Open Scope N_scope.

(* F7: broker 3 sees broker 2 go away while broker 2's client is subscribed to channel 1, and the
   connection comes back (full-state exchange).  Swarm.onPeerOffline drops the member and its trie
   entries; the member is only created again by a payload that changes one of that peer's entries -
   the full state brings nothing new about broker 2, so broker 3 keeps not forwarding channel 1 to
   broker 2 although its subscriber is still there.  (The tombstone onPeerOffline writes lands under
   broker 3's own name, because NotifyUnsubscribe overwrites the event's peer: garbage entries that
   no longer harm since Swarm.merge counts transitions of the merged state.) *)
Definition drain3 : list ev := [EDeliver 1 2; EDeliver 1 3; EDeliver 2 1; EDeliver 2 3; EDeliver 3 1; EDeliver 3 2].
Definition f7_schedule : list ev :=
  [ESub 3 4 1 1040; EDeliver 3 1; EDeliver 3 2; ESub 2 2 1 1050; EDeliver 2 3; EDeliver 2 1;
   EOffline 3 2 1080; EOnline 3 2] ++ drain3 ++ drain3 ++ drain3.
Theorem C05_returning_peer_refuted :
  let w := run [1; 2; 3] f7_schedule in
  quiet w = true /\ bk_remote (get_broker w 3) = []
  /\ receivers w 3 1 = [(3, 4)] /\ live_subscribers w 1 = [(2, 2); (3, 4)].
Proof. vm_compute. repeat split. Qed.
