//go:build verif

package listener

import (
	"io"
	"net"
)

// VerifNewConn wraps a connection with the sniffing / write-buffering connection.
func VerifNewConn(c net.Conn, writeRate int) *Conn { return newConn(c, writeRate) }

// VerifStartSniffing starts a sniffing round and returns the reader a matcher is given.
func (m *Conn) VerifStartSniffing() io.Reader { return m.startSniffing() }

// VerifDoneSniffing ends sniffing: subsequent reads replay everything sniffed.
func (m *Conn) VerifDoneSniffing() { m.doneSniffing() }

// VerifNewListener builds a multiplexing listener over a supplied root listener.
func VerifNewListener(root net.Listener, flushRate int) *Listener {
	return &Listener{
		root:         root,
		bufferSize:   1024,
		errorHandler: func(_ error) bool { return true },
		closing:      make(chan struct{}),
		readTimeout:  noTimeout,
		config:       Config{FlushRate: flushRate},
	}
}
