(* internal/security/hash/murmur.go: murmur3-32 with seed 37 and the byte-swapped result. *)
From Emitter Require Import Lib.Base.

Definition m32 (x : N) := x mod 4294967296.
Definition rotl32 (x r : N) : N := m32 (N.lor (N.shiftl x r) (N.shiftr x (32 - r))).
Definition c1_32 : N := 3432918353.  (* 0xcc9e2d51 *)
Definition c2_32 : N := 461845907.   (* 0x1b873593 *)

Definition mix_k (k1 : N) : N := m32 (rotl32 (m32 (k1 * c1_32)) 15 * c2_32).

Fixpoint murmur_body (fuel : nat) (d : bytes) (h1 : N) : N * bytes :=
  match fuel with
  | O => (h1, d)
  | S f =>
    match d with
    | b0 :: b1 :: b2 :: b3 :: r =>
      let k1 := N.lor (N.lor (N.lor b0 (N.shiftl b1 8)) (N.shiftl b2 16)) (N.shiftl b3 24) in
      let h := N.lxor h1 (mix_k k1) in
      let h := rotl32 h 13 in
      let h := m32 (h * 5 + 3864292196) in     (* 0xe6546b64 *)
      murmur_body f r h
    | _ => (h1, d)
    end
  end.

Definition murmur (data : bytes) : N :=
  let '(h1, tail) := murmur_body (length data) data 37 in
  let k1 := match tail with
            | [a] => a
            | [a; b] => N.lxor (N.shiftl b 8) a
            | [a; b; c] => N.lxor (N.lxor (N.shiftl c 16) (N.shiftl b 8)) a
            | _ => 0
            end in
  let h1 := match tail with [] => h1 | _ => N.lxor h1 (mix_k k1) end in
  let h1 := N.lxor h1 (len data) in
  let h1 := N.lxor h1 (N.shiftr h1 16) in
  let h1 := m32 (h1 * 2246822507) in           (* 0x85ebca6b *)
  let h1 := N.lxor h1 (N.shiftr h1 13) in
  let h1 := m32 (h1 * 3266489909) in           (* 0xc2b2ae35 *)
  let h1 := N.lxor h1 (N.shiftr h1 16) in
  N.lor (N.lor (N.lor (m32 (N.shiftl h1 24)) (N.land (N.shiftl (N.shiftr h1 8) 16) 16711680))
               (N.land (N.shiftl (N.shiftr h1 16) 8) 65280))
        (N.shiftr h1 24).

(* the magic words of message/sub.go are the hashes of "+", "#", "$share"; hash("") is the
   constant tested in Key.ValidateChannel *)
Example murmur_constants :
  murmur [43] = 1815237614 /\ murmur [35] = 4285801373 /\ murmur [36;115;104;97;114;101] = 1480642916
  /\ murmur [] = 1325880984.
Proof. vm_compute. repeat split; reflexivity. Qed.
