// Harness for C11: key-generation and link-extension requests against the real keygen service
// (real cipher, single-contract provider, broker.Service as authorizer).
package main

import (
	"context"
	"encoding/json"
	"fmt"
	"time"

	"github.com/emitter-io/emitter/internal/broker"
	"github.com/emitter-io/emitter/internal/config"
	"github.com/emitter-io/emitter/internal/errors"
	"github.com/emitter-io/emitter/internal/provider/contract"
	"github.com/emitter-io/emitter/internal/provider/logging"
	"github.com/emitter-io/emitter/internal/provider/usage"
	"github.com/emitter-io/emitter/internal/security"
	"github.com/emitter-io/emitter/internal/security/license"
	"github.com/emitter-io/emitter/internal/service/fake"
	"github.com/emitter-io/emitter/internal/service/keygen"
	"github.com/emitter-io/emitter/internal/zzverif/vlib"
)

var cfg *vlib.Config

type quiet struct{}

func (quiet) Name() string                                  { return "quiet" }
func (quiet) Configure(config map[string]interface{}) error { return nil }
func (quiet) Printf(format string, v ...interface{})        {}

func main() {
	cfg = vlib.ParseFlags()
	r := cfg.Rng
	sh := vlib.NewShards(cfg.Out, "C11", "From Emitter Require Import Lib.Base Model.MsgCodec Model.Channel Model.Cipher Model.Key Check.C11.", "case", "check", 120)

	channels := []string{"a/", "a/b/", "a/b/c/", "a/+/c/", "+/b/", "a/#/", "#/", "a/b/#/", "a", "a/b", "", "/", "a b/", "a//b/", "a/b#/", "x#/", "a/#b/", "a/b+/", "a/+b/", "#a/", "a/b/#", "a/#/#/", "users/bob#/", "a/b/c/d/e/f/g/h/i/j/k/l/m/n/o/p/q/r/s/t/u/v/w/x/", "x/y/"}
	types := []string{"r", "w", "rw", "rwslp", "rwslpex", "e", "re", "x", "", "zzz", "rwq", "slp", "rwe", "p"}
	ttls := []int32{0, 0, 1, 60, 3600, 86400 * 365, 2147483647, -1, -3600, -2147483648, -600000000, -(int32(time.Now().Unix()) - 10)}

	for _, lic := range []license.License{license.NewV1(), license.NewV2(), license.NewV3()} {
		c := config.NewDefault().(*config.Config)
		c.License = lic.String()
		c.Cluster = nil
		svc, err := broker.NewService(context.Background(), c)
		if err != nil {
			panic(err)
		}
		logging.Logger = quiet{}
		cipher, _ := lic.Cipher()
		provider := contract.NewSingleContractProvider(lic, usage.NewNoop())
		kg := keygen.New(cipher, provider, svc)
		now0 := time.Now().Unix()

		mkParent := func(kind int) (security.Key, string, string) {
			k := security.Key(make([]byte, 24))
			k.SetSalt(uint16(r.Intn(65536)))
			k.SetMaster(1)
			k.SetContract(lic.Contract())
			k.SetSignature(lic.Signature())
			name := ""
			switch kind {
			case 0:
				k.SetPermissions(security.AllowMaster)
				name = "master"
			case 1: // extendable, random other permissions
				k.SetPermissions(security.AllowExtend | uint8(r.Intn(256))&^security.AllowMaster)
				k.SetTarget(vlib.Pick2(r, "a/", "a/b/", "x/y/"))
				name = "extendable"
			case 2: // ordinary
				k.SetPermissions(uint8(r.Intn(256)) &^ (security.AllowExtend | security.AllowMaster))
				k.SetTarget("a/")
				name = "ordinary"
			case 3: // expired master
				k.SetPermissions(security.AllowMaster)
				k.SetExpires(time.Unix(now0-5000, 0))
				name = "expired-master"
			case 4: // master of a foreign contract
				k.SetPermissions(security.AllowMaster)
				k.SetContract(lic.Contract() + 7)
				name = "foreign-master"
			case 5: // master with a wrong signature
				k.SetPermissions(security.AllowMaster)
				k.SetSignature(lic.Signature() + 1)
				name = "bad-signature-master"
			case 6: // master bit together with other bits: not a master key
				k.SetPermissions(security.AllowMaster | security.AllowRead)
				name = "master-plus-read"
			case 7: // expired extendable
				k.SetPermissions(security.AllowExtend | security.AllowRead)
				k.SetTarget("a/")
				k.SetExpires(time.Unix(now0-5000, 0))
				name = "expired-extendable"
			}
			enc, _ := cipher.EncryptKey(k)
			return k, enc, name
		}

		// a pool of parent keys that are presented again and again (a key string is long-lived)
		type par struct {
			k    security.Key
			enc  string
			name string
			kind int
		}
		var pool []par
		for _, kind := range []int{0, 0, 1, 1, 1, 2, 3, 4, 5, 6, 7} {
			k, e, nme := mkParent(kind)
			pool = append(pool, par{k, e, nme, kind})
		}
		n := 250 * cfg.Mult
		for i := 0; i < n; i++ {
			pp := pool[r.Intn(len(pool))]
			kind := pp.kind
			parent, penc, pname := pp.k, pp.enc, pp.name
			if r.Intn(5) == 0 {
				kind = []int{0, 0, 0, 1, 1, 1, 2, 3, 4, 5, 6, 7}[r.Intn(12)]
				parent, penc, pname = mkParent(kind)
			}
			parentTerm := vlib.App("Ok", vlib.Bytes(parent))
			if r.Intn(25) == 0 {
				penc = string(vlib.RandBytes(r, 32))
				parentTerm = "(Err KCorrupt)"
				pname = "garbage"
			}
			ch := channels[r.Intn(len(channels))]
			if kind == 1 && r.Intn(3) != 0 { // extension requests mostly on the extendable channel
				ch = vlib.Pick2(r, "a/", "a/b/", "x/y/", "a/#/", "a/b/#/")
			}
			ty := types[r.Intn(len(types))]
			ttl := ttls[r.Intn(len(ttls))]
			conn := &fake.Conn{ConnID: 1000 + r.Intn(5)}
			payload, _ := json.Marshal(map[string]interface{}{"key": penc, "channel": ch, "type": ty, "ttl": ttl})
			t0 := time.Now().Unix()
			var resp interface{}
			var ok bool
			p, _ := vlib.Catch(func() { resp, ok = kg.OnRequest(conn, payload) })
			outcome := ""
			switch {
			case p:
				outcome = "GPanic"
			case ok:
				rr := resp.(*keygen.Response)
				dk, derr := cipher.DecryptKey([]byte(rr.Key))
				if derr != nil {
					outcome = "GPanic"
				} else {
					outcome = vlib.App("GOk", vlib.Bytes(dk), vlib.Str(rr.Channel))
				}
			default:
				e, _ := resp.(*errors.Error)
				code := "EOther"
				switch e {
				case errors.ErrUnauthorized:
					code = "GUnauthorized"
				case errors.ErrNotFound:
					code = "GNotFound"
				case errors.ErrTargetInvalid:
					code = "GTargetInvalid"
				case errors.ErrTargetTooLong:
					code = "GTargetTooLong"
				case errors.ErrBadRequest:
					code = "GBadRequest"
				default:
					code = "GOther"
				}
				outcome = vlib.App("GErr", code)
			}
			expires := int64(0)
			if ttl != 0 {
				expires = t0 + int64(ttl)
			}
			defer func() {}()
			sh.Add(vlib.App("CGen", parentTerm, vlib.Str(penc),
				vlib.App("Contract", vlib.N(uint64(lic.Contract())), "1", vlib.N(uint64(lic.Signature())), "true"),
				vlib.Z(t0), vlib.Str(ch), vlib.Str(ty), vlib.Z(int64(ttl)), vlib.Z(expires), vlib.Str(fmt.Sprintf("%d", conn.ConnID)), outcome),
				map[string]interface{}{"op": "keygen", "parent": pname, "channel": ch, "type": ty, "ttl": ttl}, "keygen/"+pname, true)
			// the parent key string is presented again afterwards: it must still be the same key
			if parentTerm != "(Err KCorrupt)" {
				for _, pr := range []struct {
					ch   string
					perm uint8
				}{{"a/", security.AllowExtend}, {"a/", security.AllowRead}, {"a/1001/", security.AllowRead}, {"a/b/", security.AllowExtend}, {"x/y/", security.AllowWrite}} {
					text := penc + "/" + pr.ch
					pch := security.ParseChannel([]byte(text))
					ok2 := false
					vlib.Catch(func() { _, _, ok2 = svc.Authorize(pch, pr.perm) })
					sh.Add(vlib.App("CProbe", parentTerm, vlib.Str(penc),
						vlib.App("Contract", vlib.N(uint64(lic.Contract())), "1", vlib.N(uint64(lic.Signature())), "true"),
						vlib.Z(t0), vlib.Str(text), vlib.N(uint64(pr.perm)), vlib.Bool(ok2)),
						map[string]interface{}{"op": "authorize parent again", "parent": pname, "channel": pr.ch, "perm": pr.perm}, "probe/"+pname, true)
				}
			}
		}
		// the same service called the way the HTTP key-generation form calls it: CreateKey directly
		for i := 0; i < 80*cfg.Mult; i++ {
			pp := pool[r.Intn(len(pool))]
			parentTerm := vlib.App("Ok", vlib.Bytes(pp.k))
			penc, pname := pp.enc, pp.name
			if r.Intn(25) == 0 {
				penc, parentTerm, pname = string(vlib.RandBytes(r, 32)), "(Err KCorrupt)", "garbage"
			}
			ch := channels[r.Intn(len(channels))]
			access := uint8(r.Intn(256))
			ttl := ttls[r.Intn(len(ttls))]
			t0 := time.Now().Unix()
			expires := int64(0)
			exp := time.Unix(0, 0)
			if ttl != 0 {
				expires = t0 + int64(ttl)
				exp = time.Unix(expires, 0)
			}
			var key string
			var kerr *errors.Error
			p, _ := vlib.Catch(func() { key, kerr = kg.CreateKey(penc, ch, access, exp) })
			outcome := ""
			switch {
			case p:
				outcome = "GPanic"
			case kerr == nil:
				dk, derr := cipher.DecryptKey([]byte(key))
				if derr != nil {
					outcome = "GPanic"
				} else {
					outcome = vlib.App("GOk", vlib.Bytes(dk), "[]")
				}
			default:
				code := "GOther"
				switch kerr {
				case errors.ErrUnauthorized:
					code = "GUnauthorized"
				case errors.ErrNotFound:
					code = "GNotFound"
				case errors.ErrTargetInvalid:
					code = "GTargetInvalid"
				case errors.ErrTargetTooLong:
					code = "GTargetTooLong"
				case errors.ErrBadRequest:
					code = "GBadRequest"
				}
				outcome = vlib.App("GErr", code)
			}
			sh.Add(vlib.App("CCreate", parentTerm, vlib.Str(penc),
				vlib.App("Contract", vlib.N(uint64(lic.Contract())), "1", vlib.N(uint64(lic.Signature())), "true"),
				vlib.Z(t0), vlib.Str(ch), vlib.N(uint64(access)), vlib.Z(expires), outcome),
				map[string]interface{}{"op": "CreateKey (HTTP form path)", "parent": pname, "channel": ch, "access": access, "ttl": ttl}, "createkey/"+pname, true)
		}
		svc.Close()
	}
	sh.Finish("keygen requests through the real keygen.Service under each licence version: parents master / extendable with random masks / ordinary / expired / foreign contract / wrong signature / master+other bits / undecryptable; 16 channels (valid, wildcard, '#/', missing slash, empty, 24 levels), 14 type strings (every letter, junk), 12 ttl values (0, positive, 2^31-1, negative incl. -2^31); the same parents through CreateKey directly (the HTTP form's path) with every access byte; non-trivial: all")
}
