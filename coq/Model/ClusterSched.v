(* C05: ghost state and hypotheses of the quiescence theorem as executable definitions, shared by the
   proofs (Proofs/ClusterConverge.v, Proofs/ClusterRoutes.v) and by the correspondence check, which
   evaluates them on every schedule it replays on the real brokers.  No proofs here. *)
From stdpp Require Import gmap.
From Coq Require Import ZArith List.
From Emitter Require Import Model.Lww Model.Sender Model.Cluster.
Import ListNotations.
Local Open Scope N_scope.

(* ---- ghost state: connected pairs, last clock reading per broker ---- *)
Record ghost := GH { g_up : N -> N -> bool; g_clk : N -> Z }.
Definition set2 (f : N -> N -> bool) (a b : N) (v : bool) : N -> N -> bool :=
  fun x y => if ((x =? a) && (y =? b)) || ((x =? b) && (y =? a)) then v else f x y.
Definition gstep (g : ghost) (e : ev) : ghost :=
  match e with
  | ESub b _ _ t | EUnsub b _ _ t => GH (g_up g) (fun n => if n =? b then t else g_clk g n)
  | EOffline b p _ => GH (set2 (g_up g) b p false) (g_clk g)
  | EOnline a b => GH (set2 (g_up g) a b true) (g_clk g)
  | _ => g
  end.
Definition ghost0 : ghost := GH (fun _ _ => true) (fun _ => 0%Z).

Definition grun (es : list ev) : ghost := fold_left gstep es ghost0.

(* ---- the hypotheses on schedules, as booleans ---- *)
Definition inb (n : N) (ns : list N) : bool := existsb (N.eqb n) ns.
Definition wf_evb (e : ev) : bool :=
  match e with
  | ESub _ c s t | EUnsub _ c s t => (c <? kbase) && (s <? kbase) && (0 <=? t)%Z
  | EOffline b p t => negb (p =? b) && (0 <=? t)%Z
  | EOnline a b => negb (a =? b)
  | _ => true
  end.
Definition ev_okb (ns : list N) (g : ghost) (e : ev) : bool :=
  wf_evb e &&
  match e with
  | ESub b _ _ t | EUnsub b _ _ t => inb b ns && (g_clk g b <? t)%Z
  | EOffline b p _ => inb b ns && inb p ns
  | EOnline a b => inb a ns && inb b ns
  | _ => true
  end.
Fixpoint sched_okb (ns : list N) (g : ghost) (es : list ev) : bool :=
  match es with
  | [] => true
  | e :: r => ev_okb ns g e && sched_okb ns (gstep g e) r
  end.
Definition all_upb (ns : list N) (g : ghost) : bool := forallb (fun a => forallb (fun b => (a =? b) || g_up g a b) ns) ns.
Fixpoint nodupb (ns : list N) : bool := match ns with [] => true | x :: r => negb (inb x r) && nodupb r end.

