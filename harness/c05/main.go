// Harness for C05: 2-3 real brokers (broker.Service with its cluster.Swarm) in one process; the sending
// side of the gossip layer is replaced by a simulated full mesh whose links are real mesh gossipSenders
// (hook), so that the harness decides when each link delivers one piece.  Clients are real MQTT
// connections (in-memory).  A seeded schedule of subscribe / unsubscribe / deliver / full-state gossip /
// peer offline-online events is run on the real code and written, with what was observed after every
// event, as a Coq case for the model (Model/Cluster.v).
package main

import (
	"bufio"
	"context"
	"fmt"
	"net"
	"os"
	"path/filepath"
	"sort"
	"strings"
	"sync"
	"sync/atomic"
	"time"

	"github.com/emitter-io/emitter/internal/broker"
	"github.com/emitter-io/emitter/internal/config"
	"github.com/emitter-io/emitter/internal/event/crdt"
	"github.com/emitter-io/emitter/internal/message"
	"github.com/emitter-io/emitter/internal/network/mqtt"
	"github.com/emitter-io/emitter/internal/provider/logging"
	"github.com/emitter-io/emitter/internal/security"
	"github.com/emitter-io/emitter/internal/security/hash"
	"github.com/emitter-io/emitter/internal/security/license"
	"github.com/emitter-io/emitter/internal/zzverif/vlib"
	"github.com/weaveworks/mesh"
)

var cfg *vlib.Config
var clock int64

type quiet struct{}

func (quiet) Name() string                                  { return "quiet" }
func (quiet) Configure(config map[string]interface{}) error { return nil }
func (quiet) Printf(format string, v ...interface{})        {}

const licText = "N7b6urJ1yn0mnB5BCbNgG7tG2D2UfBpCbXYxVyWGGI0RV2wwB1XTLVDIqoWbtlM5aSTYBnKNcxXbQO8jY5Y30BZeqO5dAGGkCfY3FdTo02DWxC6SHSaBTAH2aPpGIfsC"

// a/b/ and b/a/ collide in the XOR hash code of message.Counters; no channel is a prefix of another
var chans = []string{"a/b/", "b/a/", "c/"}

type client struct {
	node   int
	idx    int // cluster-wide index (model conn id)
	conn   net.Conn
	luid   uint64
	idhash uint32
	mu     sync.Mutex
	got    []string
	acks   chan mqtt.Message
	held   map[int]bool
}

type node struct {
	name    mesh.PeerName
	svc     *broker.Service
	clients []*client
	pub     *client
}

type cluster struct {
	nodes   []*node
	links   map[[2]int]*mesh.VerifSender
	key     string
	ssids   []message.Ssid
	byLuid  map[uint64]*client
	base    uint64 // connection ids are base+1, base+2, ...: the model's connection id is the offset
	gossips []*simGossip
}

// simGossip is the sending side of one node's gossip layer.
type simGossip struct {
	c    *cluster
	self int
	dead int32
}

func (g *simGossip) GossipUnicast(dst mesh.PeerName, msg []byte) error {
	for i, n := range g.c.nodes {
		if n.name == dst {
			return g.c.nodes[i].svc.VerifSwarm().OnGossipUnicast(g.c.nodes[g.self].name, msg)
		}
	}
	return fmt.Errorf("unknown peer")
}

func (g *simGossip) GossipBroadcast(update mesh.GossipData) {
	if atomic.LoadInt32(&g.dead) != 0 {
		return
	}
	for p := range g.c.nodes {
		if p != g.self {
			g.c.links[[2]int{g.self, p}].Broadcast(g.c.nodes[g.self].name, update)
		}
	}
}

func (g *simGossip) GossipNeighbourSubset(update mesh.GossipData) {}

func (c *cluster) newClient(ni int, idx int) *client {
	a, b := net.Pipe()
	cl := &client{node: ni, idx: idx, conn: a, acks: make(chan mqtt.Message, 64), held: map[int]bool{}}
	luid, id := c.nodes[ni].svc.VerifAttachConn(b)
	cl.luid, cl.idhash = luid, hash.OfString(id)
	go func() {
		rd := bufio.NewReaderSize(a, 65536)
		for {
			m, err := mqtt.DecodePacket(rd, 1<<20)
			if err != nil {
				return
			}
			if p, ok := m.(*mqtt.Publish); ok {
				cl.mu.Lock()
				cl.got = append(cl.got, string(p.Payload))
				cl.mu.Unlock()
			} else {
				select {
				case cl.acks <- m:
				default:
				}
			}
		}
	}()
	(&mqtt.Connect{ProtoName: []byte("MQTT"), Version: 4, ClientID: []byte(fmt.Sprintf("c%d", idx))}).EncodeTo(a)
	cl.wait(mqtt.TypeOfConnack)
	return cl
}

func (cl *client) wait(t uint8) bool {
	deadline := time.After(3 * time.Second)
	for {
		select {
		case m := <-cl.acks:
			if m.Type() == t {
				return true
			}
		case <-deadline:
			if os.Getenv("VERIF_TIMING") != "" {
				fmt.Fprintln(os.Stderr, "wait timeout for type", t, "client", cl.idx)
			}
			return false
		}
	}
}

func mkKey(lic license.License, target string, perms uint8) string {
	cipher, _ := lic.Cipher()
	k := security.Key(make([]byte, 24))
	k.SetSalt(777)
	k.SetMaster(1)
	k.SetContract(lic.Contract())
	k.SetSignature(lic.Signature())
	k.SetPermissions(perms)
	k.SetTarget(target)
	s, _ := cipher.EncryptKey(k)
	return s
}

func newCluster(n int, dir string, clientsPer []int, sameIDs bool) *cluster {
	lic, _ := license.Parse(licText)
	c := &cluster{links: map[[2]int]*mesh.VerifSender{}, byLuid: map[uint64]*client{}}
	c.key = mkKey(lic, "#/", security.AllowRead|security.AllowWrite)
	for _, ch := range chans {
		ssid := message.Ssid{lic.Contract()}
		for _, lvl := range strings.Split(strings.TrimSuffix(ch, "/"), "/") {
			ssid = append(ssid, hash.OfString(lvl))
		}
		c.ssids = append(c.ssids, ssid)
	}
	for i := 0; i < n; i++ {
		conf := config.NewDefault().(*config.Config)
		conf.License = licText
		conf.Cluster = &config.ClusterConfig{
			NodeName:      fmt.Sprintf("00:00:00:00:00:%02x", i+1),
			ListenAddr:    fmt.Sprintf(":%d", 4100+i),
			AdvertiseAddr: fmt.Sprintf(":%d", 4100+i),
			Directory:     filepath.Join(dir, fmt.Sprintf("n%d", i)),
		}
		svc, err := broker.NewService(context.Background(), conf)
		if err != nil {
			panic(err)
		}
		logging.Logger = quiet{}
		c.nodes = append(c.nodes, &node{name: mesh.PeerName(i + 1), svc: svc})
	}
	for i := range c.nodes {
		for j := range c.nodes {
			if i != j {
				c.links[[2]int{i, j}] = mesh.NewVerifSender()
			}
		}
		g := &simGossip{c: c, self: i}
		c.gossips = append(c.gossips, g)
		c.nodes[i].svc.VerifSwarm().VerifSetGossip(g)
	}
	c.base = security.VerifNextID()
	for i, k := range clientsPer {
		if sameIDs {
			// brokers started within the same second count their connections from the same number
			security.VerifSetNextID(c.base)
		}
		for j := 0; j < k; j++ {
			cl := c.newClient(i, 0)
			cl.idx = int(cl.luid - c.base)
			c.nodes[i].clients = append(c.nodes[i].clients, cl)
			c.drainAll()
		}
	}
	security.VerifSetNextID(c.base + 500)
	for i := range clientsPer {
		c.nodes[i].pub = c.newClient(i, 900+i)
		c.drainAll()
	}
	return c
}

// deliver lets the sender of link a -> b pick one piece and hands it to b.
func (c *cluster) deliver(a, b int) (done bool, panicked bool) {
	piece, ok := c.links[[2]int{a, b}].DeliverOne()
	if !ok {
		return false, false
	}
	sw := c.nodes[b].svc.VerifSwarm()
	for _, msg := range piece.Msgs {
		if piece.Broadcast {
			sw.OnGossipBroadcast(piece.Src, msg) // full mesh: the delta is not relayed further
		} else {
			delta, _ := sw.OnGossip(msg)
			if delta != nil {
				for x := range c.nodes {
					if x != a && x != b {
						p, _ := vlib.Catch(func() { c.links[[2]int{b, x}].Send(delta) })
						panicked = panicked || p
					}
				}
			}
		}
	}
	return true, panicked
}

func (c *cluster) drainAll() {
	for c.pendingAny() {
		for k := range c.links {
			c.deliver(k[0], k[1])
		}
	}
}

func (c *cluster) pendingAny() bool {
	for _, l := range c.links {
		g, b := l.Pending()
		if g || b > 0 {
			return true
		}
	}
	return false
}

func (c *cluster) ssidIdx(s message.Ssid) int {
	for i, x := range c.ssids {
		if len(x) != len(s) {
			continue
		}
		same := true
		for j := range x {
			same = same && x[j] == s[j]
		}
		if same {
			return i
		}
	}
	return 99
}

// obsTerm: what every broker holds now (remote entries of its trie, subscription entries of its
// replicated state, member counters)
func (c *cluster) obsTerm() string {
	var per []string
	for _, n := range c.nodes {
		_, pairs := n.svc.VerifTrie().VerifDump()
		var remote []string
		for _, p := range pairs {
			for pi, pn := range c.nodes {
				if p.Sub == hash.OfString(pn.name.String()) {
					remote = append(remote, vlib.Pair(vlib.N(uint64(c.ssidIdx(message.Ssid(p.Ssid)))), vlib.N(uint64(pi+1))))
				}
			}
		}
		sort.Strings(remote)
		var dump []string
		for k, v := range n.svc.VerifSwarm().VerifState().VerifDump()[0] {
			kb := []byte(k)
			if len(kb) < 24 {
				continue
			}
			peer := be64(kb[0:8])
			luid := be64(kb[8:16])
			var ssid message.Ssid
			for o := 16; o+4 <= len(kb); o += 4 {
				ssid = append(ssid, be32(kb[o:o+4]))
			}
			ci := uint64(999)
			if luid > c.base && luid <= c.base+400 {
				ci = luid - c.base
			}
			dump = append(dump, fmt.Sprintf("(%d, %s, %s)", modelKey(peer, ci, uint64(c.ssidIdx(ssid))), vlib.Z(v.AddTime()), vlib.Z(v.DelTime())))
		}
		sort.Strings(dump)
		names, counters := n.svc.VerifSwarm().VerifMembers()
		var ms, cs []string
		for _, x := range names {
			ms = append(ms, vlib.N(uint64(x)))
		}
		for _, x := range counters {
			cs = append(cs, fmt.Sprintf("(%d, %d, %d)", uint64(x.Peer), c.ssidIdx(x.Ssid), x.Count))
		}
		sort.Strings(ms)
		sort.Strings(cs)
		per = append(per, vlib.App("Obs", vlib.List(remote), vlib.List(dump), vlib.List(ms), vlib.List(cs)))
	}
	return vlib.List(per)
}

func be64(b []byte) uint64 {
	var x uint64
	for _, c := range b {
		x = x<<8 | uint64(c)
	}
	return x
}
func be32(b []byte) uint32                    { return uint32(be64(b)) }
func modelKey(peer, conn, ssid uint64) uint64 { return (peer*1048576+conn)*1048576 + ssid }

// sev is one scripted event (directed scenarios: the witnesses of the known findings).
type sev struct {
	kind string // toggle, deliver, gossip, offline
	a, b int    // brokers (0-based); for toggle: a = client index (1-based, cluster-wide), b = channel
}

func history(n int, steps int, faults bool, dir string, clientsPer []int, script []sev, sameIDs bool) (string, map[string]interface{}) {
	r := cfg.Rng
	if clientsPer == nil {
		clientsPer = make([]int, n)
		for i := range clientsPer {
			clientsPer[i] = 1 + r.Intn(2)
		}
	}
	atomic.StoreInt64(&clock, 1000)
	t0 := time.Now()
	c := newCluster(n, dir, clientsPer, sameIDs)
	if os.Getenv("VERIF_TIMING") != "" {
		fmt.Fprintln(os.Stderr, "newCluster", time.Since(t0))
		defer func() { fmt.Fprintln(os.Stderr, "history total", time.Since(t0)) }()
	}
	// the connection events of the clients are out of the way before the schedule starts
	for c.pendingAny() {
		for k := range c.links {
			c.deliver(k[0], k[1])
		}
	}
	var all []*client
	for _, nd := range c.nodes {
		all = append(all, nd.clients...)
	}
	var evs []string
	kinds := map[string]int{}
	t := int64(1000)
	record := func(term, kind string) {
		evs = append(evs, vlib.Pair(term, c.obsTerm()))
		kinds[kind]++
	}
	var deliver func(a, b int)
	toggle := func(cl *client, ch int) {
		t += 10
		atomic.StoreInt64(&clock, t)
		topic := []byte(c.key + "/" + chans[ch])
		if cl.held[ch] {
			(&mqtt.Unsubscribe{Header: mqtt.Header{QOS: 1}, MessageID: 1, Topics: []mqtt.TopicQOSTuple{{Topic: topic}}}).EncodeTo(cl.conn)
			cl.wait(mqtt.TypeOfUnsuback)
			cl.held[ch] = false
			record(vlib.App("EUnsub", vlib.N(uint64(cl.node+1)), vlib.N(uint64(cl.idx)), vlib.N(uint64(ch)), vlib.Z(t)), "unsubscribe")
		} else {
			(&mqtt.Subscribe{Header: mqtt.Header{QOS: 1}, MessageID: 1, Subscriptions: []mqtt.TopicQOSTuple{{Topic: topic}}}).EncodeTo(cl.conn)
			cl.wait(mqtt.TypeOfSuback)
			cl.held[ch] = true
			record(vlib.App("ESub", vlib.N(uint64(cl.node+1)), vlib.N(uint64(cl.idx)), vlib.N(uint64(ch)), vlib.Z(t)), "subscribe")
		}
	}
	deliver = func(a, b int) {
		t += 10
		atomic.StoreInt64(&clock, t)
		c.deliver(a, b)
		record(vlib.App("EDeliver", vlib.N(uint64(a+1)), vlib.N(uint64(b+1))), "deliver")
	}
	gossip := func(a, b int) {
		c.links[[2]int{a, b}].Send(c.nodes[a].svc.VerifSwarm().Gossip())
		record(vlib.App("EGossip", vlib.N(uint64(a+1)), vlib.N(uint64(b+1))), "full-state")
	}
	pick2 := func() (int, int) {
		a := r.Intn(n)
		b := r.Intn(n - 1)
		if b >= a {
			b++
		}
		return a, b
	}
	offline := map[[2]int]bool{}
	for _, e := range script {
		switch e.kind {
		case "toggle":
			toggle(all[e.a-1], e.b)
		case "deliver":
			deliver(e.a, e.b)
		case "gossip":
			gossip(e.a, e.b)
		case "online":
			c.nodes[e.a].svc.VerifSwarm().VerifPeerSeen(c.nodes[e.b].name)
			c.nodes[e.b].svc.VerifSwarm().VerifPeerSeen(c.nodes[e.a].name)
			c.links[[2]int{e.a, e.b}].Send(c.nodes[e.a].svc.VerifSwarm().Gossip())
			c.links[[2]int{e.b, e.a}].Send(c.nodes[e.b].svc.VerifSwarm().Gossip())
			offline[[2]int{e.a, e.b}] = false
			record(vlib.App("EOnline", vlib.N(uint64(e.a+1)), vlib.N(uint64(e.b+1))), "online")
		case "offline":
			t += 10
			atomic.StoreInt64(&clock, t)
			c.nodes[e.a].svc.VerifSwarm().VerifOffline(c.nodes[e.b].name)
			c.links[[2]int{e.a, e.b}] = mesh.NewVerifSender()
			c.links[[2]int{e.b, e.a}] = mesh.NewVerifSender()
			offline[[2]int{e.a, e.b}] = true
			record(vlib.App("EOffline", vlib.N(uint64(e.a+1)), vlib.N(uint64(e.b+1)), vlib.Z(t)), "offline")
		}
	}
	if script != nil {
		steps = 0
	}
	for s := 0; s < steps; s++ {
		x := r.Intn(100)
		switch {
		case x < 38:
			toggle(all[r.Intn(len(all))], r.Intn(len(chans)))
		case x < 84 || !faults:
			a, b := pick2()
			deliver(a, b)
		case x < 92:
			a, b := pick2()
			gossip(a, b)
		default:
			b, p := pick2()
			if offline[[2]int{b, p}] {
				// the connection comes back: both sides queue their full state
				c.nodes[b].svc.VerifSwarm().VerifPeerSeen(c.nodes[p].name)
				c.nodes[p].svc.VerifSwarm().VerifPeerSeen(c.nodes[b].name)
				c.links[[2]int{b, p}].Send(c.nodes[b].svc.VerifSwarm().Gossip())
				c.links[[2]int{p, b}].Send(c.nodes[p].svc.VerifSwarm().Gossip())
				offline[[2]int{b, p}] = false
				record(vlib.App("EOnline", vlib.N(uint64(b+1)), vlib.N(uint64(p+1))), "online")
			} else {
				t += 10
				atomic.StoreInt64(&clock, t)
				c.nodes[b].svc.VerifSwarm().VerifOffline(c.nodes[p].name)
				c.links[[2]int{b, p}] = mesh.NewVerifSender()
				c.links[[2]int{p, b}] = mesh.NewVerifSender()
				offline[[2]int{b, p}] = true
				record(vlib.App("EOffline", vlib.N(uint64(b+1)), vlib.N(uint64(p+1)), vlib.Z(t)), "offline")
			}
		}
	}
	// quiescence: drain every link, then two rounds of full-state exchange on every link, drained
	drain := func() {
		for round := 0; round < 50 && c.pendingAny(); round++ {
			for a := 0; a < n; a++ {
				for b := 0; b < n; b++ {
					if a != b {
						if g, bc := c.links[[2]int{a, b}].Pending(); g || bc > 0 {
							deliver(a, b)
						}
					}
				}
			}
		}
	}
	schedLen := len(evs)
	// whoever was declared unreachable is back before the cluster is left alone
	for pr, off := range offline {
		if off {
			b, p := pr[0], pr[1]
			c.nodes[b].svc.VerifSwarm().VerifPeerSeen(c.nodes[p].name)
			c.nodes[p].svc.VerifSwarm().VerifPeerSeen(c.nodes[b].name)
			c.links[[2]int{b, p}].Send(c.nodes[b].svc.VerifSwarm().Gossip())
			c.links[[2]int{p, b}].Send(c.nodes[p].svc.VerifSwarm().Gossip())
			record(vlib.App("EOnline", vlib.N(uint64(b+1)), vlib.N(uint64(p+1))), "online")
		}
	}
	drain()
	for round := 0; round < 2; round++ {
		for a := 0; a < n; a++ {
			for b := 0; b < n; b++ {
				if a != b {
					gossip(a, b)
				}
			}
		}
		drain()
	}
	// one publish per broker and channel; who receives it
	var pubs []string
	for bi, nd := range c.nodes {
		for ch := range chans {
			payload := fmt.Sprintf("pub-%d-%d", bi, ch)
			(&mqtt.Publish{Header: mqtt.Header{QOS: 1}, MessageID: 5, Topic: []byte(c.key + "/" + chans[ch]), Payload: []byte(payload)}).EncodeTo(nd.pub.conn)
			nd.pub.wait(mqtt.TypeOfPuback)
		}
	}
	for _, nd := range c.nodes {
		nd.svc.VerifSwarm().VerifFlushAll()
	}
	time.Sleep(60 * time.Millisecond)
	for bi := range c.nodes {
		for ch := range chans {
			payload := fmt.Sprintf("pub-%d-%d", bi, ch)
			var recv []string
			for _, cl := range all {
				cl.mu.Lock()
				for _, g := range cl.got {
					if g == payload {
						recv = append(recv, vlib.Pair(vlib.N(uint64(cl.node+1)), vlib.N(uint64(cl.idx))))
					}
				}
				cl.mu.Unlock()
			}
			sort.Strings(recv)
			pubs = append(pubs, vlib.App("Pub", vlib.N(uint64(bi+1)), vlib.N(uint64(ch)), vlib.List(recv)))
		}
	}
	if os.Getenv("VERIF_TIMING") != "" {
		fmt.Fprintln(os.Stderr, "before teardown", time.Since(t0))
	}
	for _, g := range c.gossips {
		atomic.StoreInt32(&g.dead, 1) // teardown: what the closing clients broadcast goes nowhere
	}
	for _, nd := range c.nodes {
		for _, cl := range nd.clients {
			cl.conn.Close()
		}
		nd.pub.conn.Close()
		nd.svc.Close()
	}
	var names []uint64
	for i := range c.nodes {
		names = append(names, uint64(i+1))
	}
	return vlib.App("CCluster", vlib.NList(names), vlib.N(uint64(schedLen)), vlib.List(evs), vlib.List(pubs)),
		map[string]interface{}{"brokers": n, "clients": len(all), "events": len(evs), "kinds": kinds, "faults": faults}
}

func main() {
	cfg = vlib.ParseFlags()
	logging.Logger = quiet{}
	crdt.Now = func() int64 { return atomic.LoadInt64(&clock) }
	sh := vlib.NewShards(cfg.Out, "C05", "From Emitter Require Import Lib.Base Model.Lww Model.Cluster Check.C05.", "case", "check", 10)
	sh.HypFn = "within"
	r := cfg.Rng
	nCases := 60 * cfg.Mult
	for i := 0; i < nCases; i++ {
		n := 2 + r.Intn(2)
		faults := i%3 == 2
		t, h := history(n, 12+r.Intn(25), faults, filepath.Join(cfg.Out, fmt.Sprintf("swarm%d", i)), nil, nil, i%4 == 3)
		class := "clean-schedule"
		if faults {
			class = "schedule-with-full-state-and-offline"
		}
		sh.Add(t, h, fmt.Sprintf("%s/%d-brokers", class, n), true)
	}
	// the former witnesses of F4 / F5, F7 and F7c (coq/Findings/C05.v; all repaired), replayed on the
	// real brokers as regression scenarios
	{
		t, h := history(2, 0, true, filepath.Join(cfg.Out, "swarmF4"), []int{2, 1},
			[]sev{{"toggle", 3, 2}, {"deliver", 1, 0}, {"toggle", 3, 2}, {"toggle", 3, 2}, {"deliver", 1, 0}, {"toggle", 3, 2}, {"deliver", 1, 0}}, false)
		sh.Add(t, h, "witness/F5-recount-repaired", true)
		t, h = history(3, 0, true, filepath.Join(cfg.Out, "swarmF7"), []int{1, 1, 2},
			[]sev{{"toggle", 4, 1}, {"deliver", 2, 0}, {"deliver", 2, 1}, {"toggle", 2, 1}, {"deliver", 1, 2}, {"deliver", 1, 0},
				{"offline", 2, 1}, {"online", 2, 1}}, false)
		sh.Add(t, h, "witness/F7-returning-peer", true)
		// two brokers whose connection ids coincide (started within the same second), one client each on
		// the same channel; broker 1 sees broker 2 go away and come back
		t, h = history(2, 0, true, filepath.Join(cfg.Out, "swarmF7c"), []int{1, 1},
			[]sev{{"toggle", 1, 0}, {"toggle", 2, 0}, {"deliver", 0, 1}, {"deliver", 1, 0}, {"offline", 0, 1}, {"online", 0, 1}}, true)
		sh.Add(t, h, "witness/F7c-colliding-connection-ids", true)
	}
	sh.Finish("2-3 brokers with 1-2 subscribing clients each over channels a/b/ b/a/ c/ (the first two collide in the counters' hash code); schedules of 12-36 events: client subscribe / unsubscribe toggles, single-piece deliveries on random links (so queued payloads coalesce and arrive late), and in every third case periodic full-state gossip and peer offline / online; then quiescence (all links drained, two rounds of full-state exchange) and one publish per broker and channel; observed after every event: every broker's remote trie entries, replicated subscription entries, members and per-peer counters; non-trivial: all")
}
