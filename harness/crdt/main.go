// Harness for C04 / C13 / C14: histories of local operations and payload exchanges over several
// real event.State replicas (volatile and durable), with crdt.Now replaced by a scripted clock.
package main

import (
	"bufio"
	"context"
	"encoding/json"
	"fmt"
	"net"
	"os"
	"path/filepath"
	"sort"
	"strings"
	"sync"
	"sync/atomic"
	"time"

	"github.com/emitter-io/emitter/internal/broker"
	"github.com/emitter-io/emitter/internal/config"
	"github.com/emitter-io/emitter/internal/event"
	"github.com/emitter-io/emitter/internal/event/crdt"
	"github.com/emitter-io/emitter/internal/network/mqtt"
	"github.com/emitter-io/emitter/internal/provider/logging"
	"github.com/emitter-io/emitter/internal/security"
	"github.com/emitter-io/emitter/internal/security/license"
	"github.com/emitter-io/emitter/internal/service/cluster"
	"github.com/emitter-io/emitter/internal/zzverif/vlib"
	"github.com/weaveworks/mesh"
)

var cfg *vlib.Config

// ---- key universe ---------------------------------------------------------------------------

type kdef struct {
	id  uint64
	mk  func(variant int) event.Event
	typ uint8
}

func ban(s string) event.Event { b := event.Ban(s); return &b }

var universe = []kdef{
	{0, func(v int) event.Event {
		return &event.Subscription{Peer: 1, Conn: 5, Ssid: []uint32{1, 2}, User: "u", Channel: []byte{'a' + byte(v)}}
	}, 0},
	{1, func(v int) event.Event {
		return &event.Subscription{Peer: 1, Conn: 5, Ssid: []uint32{2, 1}, Channel: []byte("b/a/")}
	}, 0},
	{2, func(v int) event.Event {
		return &event.Subscription{Peer: 2, Conn: 9, Ssid: []uint32{1, 2, 3}, Channel: []byte{'x', byte('0' + v)}}
	}, 0},
	{100, func(v int) event.Event { return ban("key-one") }, 1},
	{101, func(v int) event.Event { return ban("key-two") }, 1},
	{102, func(v int) event.Event { return ban("k3") }, 1},
	{200, func(v int) event.Event {
		return &event.Connection{Peer: 1, Conn: 5, WillFlag: v == 1, ClientID: []byte("c")}
	}, 2},
	{201, func(v int) event.Event { return &event.Connection{Peer: 2, Conn: 9, Username: []byte{byte('u' + v)}} }, 2},
}

var keyID = map[string]uint64{} // "<typ>/<key>" -> id

func init() {
	for _, k := range universe {
		keyID[fmt.Sprintf("%d/%s", k.typ, k.mk(0).Key())] = k.id
	}
}

// ---- scripted clock -------------------------------------------------------------------------

var clockScript []int64
var clockUsed []int64

func setClock(vals ...int64) {
	clockScript = vals
	clockUsed = nil
	crdt.Now = func() int64 {
		if len(clockScript) == 0 {
			panic("clock script exhausted")
		}
		v := clockScript[0]
		if len(clockScript) > 1 {
			clockScript = clockScript[1:]
		}
		clockUsed = append(clockUsed, v)
		return v
	}
}

var timePool = []int64{1, 2, 3, 4, 5, 6, 7, 8, 3, 4, 5, 5, -3, 0, 4611686018427387904, 1 << 32}

func pickTime() int64 { return timePool[cfg.Rng.Intn(len(timePool))] }

// ---- dumps ----------------------------------------------------------------------------------

func dumpTerm(st *event.State) string {
	d := st.VerifDump()
	type ent struct {
		id uint64
		s  string
	}
	var ents []ent
	for typ, m := range d {
		for k, v := range m {
			id, ok := keyID[fmt.Sprintf("%d/%s", typ, k)]
			if !ok {
				panic("unknown key in dump")
			}
			ents = append(ents, ent{id, vlib.Pair(vlib.N(id), vlib.App("Ent", vlib.Z(v.AddTime()), vlib.Z(v.DelTime()), vlib.Bytes(v.Value())))})
		}
	}
	sort.Slice(ents, func(i, j int) bool { return ents[i].id < ents[j].id })
	items := make([]string, len(ents))
	for i, e := range ents {
		items[i] = e.s
	}
	return vlib.List(items)
}

func hasTerm(st *event.State) string {
	items := []string{}
	for _, k := range universe {
		items = append(items, vlib.Bool(st.Has(k.mk(0))))
	}
	return vlib.List(items)
}

func newReplica(durable bool, dir string) *event.State {
	if durable {
		if dir == "" {
			dir = ":memory:"
		}
		return event.NewState(dir)
	}
	return event.NewState("")
}

// ---- history generation -----------------------------------------------------------------------

func history(durable bool, n int, steps int) (string, map[string]interface{}) {
	r := cfg.Rng
	reps := make([]*event.State, n)
	for i := range reps {
		reps[i] = newReplica(durable, "")
	}
	defer func() {
		for _, s := range reps {
			s.Close()
		}
	}()
	var payloads [][]byte // immutable encoded payloads
	var ops []string
	kinds := map[string]int{}

	addPayload := func(st *event.State) int {
		enc := st.Encode()
		payloads = append(payloads, enc[0])
		return len(payloads) - 1
	}
	// deltas returned by Merge stay alive as objects (as in mesh's sender queue) and are encoded
	// only when they are "sent", i.e. first used; what is sent must still be the delta of the merge
	pending := map[int]*event.State{}
	materialise := func(p int) {
		if ds, ok := pending[p]; ok {
			delete(pending, p)
			ops = append(ops, vlib.App("OpDeltaCheck", vlib.N(uint64(p)), dumpTerm(ds)))
			payloads[p] = ds.Encode()[0]
		}
	}
	doMerge := func(dst int, p int) {
		materialise(p)
		other, err := event.DecodeState(payloads[p])
		if err != nil {
			panic(err)
		}
		delta := reps[dst].Merge(other)
		dterm := "None"
		if delta != nil {
			ds := delta.(*event.State)
			dterm = "(Some " + dumpTerm(ds) + ")"
			payloads = append(payloads, []byte{})
			pending[len(payloads)-1] = ds
		} else {
			payloads = append(payloads, nil) // keeps payload numbering aligned with the model
		}
		ops = append(ops, vlib.App("OpMerge", vlib.N(uint64(dst)), vlib.N(uint64(p)), dumpTerm(reps[dst]), hasTerm(reps[dst]), dterm))
	}
	for s := 0; s < steps; s++ {
		x := r.Intn(100)
		switch {
		case x < 30: // local add
			k := universe[r.Intn(len(universe))]
			v := r.Intn(2)
			i := r.Intn(n)
			t1 := pickTime()
			t2 := t1
			if r.Intn(4) == 0 {
				t2 = t1 + int64(r.Intn(3))
			}
			setClock(t1, t2)
			ev := k.mk(v)
			reps[i].Add(ev)
			now, now2 := clockUsed[0], clockUsed[len(clockUsed)-1]
			ops = append(ops, vlib.App("OpAdd", vlib.N(uint64(i)), vlib.N(k.id), vlib.Bytes(ev.Val()), vlib.Z(now), vlib.Z(now2), dumpTerm(reps[i]), hasTerm(reps[i])))
			kinds["add"]++
		case x < 50: // local del
			k := universe[r.Intn(len(universe))]
			i := r.Intn(n)
			t1 := pickTime()
			t2 := t1
			if r.Intn(4) == 0 {
				t2 = t1 + int64(r.Intn(3))
			}
			setClock(t1, t2)
			reps[i].Del(k.mk(0))
			now, now2 := clockUsed[0], clockUsed[len(clockUsed)-1]
			ops = append(ops, vlib.App("OpDel", vlib.N(uint64(i)), vlib.N(k.id), vlib.Z(now), vlib.Z(now2), dumpTerm(reps[i]), hasTerm(reps[i])))
			kinds["del"]++
		case x < 62: // snapshot of a replica becomes a payload
			i := r.Intn(n)
			addPayload(reps[i])
			ops = append(ops, vlib.App("OpSnap", vlib.N(uint64(i))))
			kinds["snapshot"]++
		case x < 72: // a single-operation payload, as Swarm.Notify builds it
			k := universe[r.Intn(len(universe))]
			v := r.Intn(2)
			t := pickTime()
			setClock(t)
			op := event.NewState("")
			isAdd := r.Intn(2) == 0
			ev := k.mk(v)
			if isAdd {
				op.Add(ev)
			} else {
				op.Del(ev)
			}
			addPayload(op)
			ops = append(ops, vlib.App("OpSingle", vlib.N(k.id), vlib.Bool(isAdd), vlib.Bytes(ev.Val()), vlib.Z(t)))
			kinds["single-op"]++
		default: // merge some existing payload (snapshot, single op or an earlier delta) into a replica
			if len(payloads) == 0 {
				continue
			}
			p := r.Intn(len(payloads))
			if payloads[p] == nil {
				continue
			}
			if _, isPending := pending[p]; isPending && r.Intn(2) == 0 {
				continue // leave it queued a little longer
			}
			doMerge(r.Intn(n), p)
			kinds["merge"]++
		}
	}
	for p := 0; p < len(payloads); p++ {
		materialise(p)
	}
	// closing phase: everybody receives everybody's full state (twice, so that relayed knowledge
	// arrives too): afterwards all replicas have received the same set of updates
	for round := 0; round < 2; round++ {
		for i := 0; i < n; i++ {
			p := addPayload(reps[i])
			ops = append(ops, vlib.App("OpSnap", vlib.N(uint64(i))))
			for j := 0; j < n; j++ {
				if j != i {
					doMerge(j, p)
				}
			}
		}
	}
	finals := make([]string, n)
	for i := range reps {
		finals[i] = vlib.Pair(dumpTerm(reps[i]), hasTerm(reps[i]))
	}
	term := vlib.App("CHist", vlib.Bool(durable), vlib.N(uint64(n)), vlib.List(ops), vlib.List(finals))
	return term, map[string]interface{}{"durable": durable, "replicas": n, "ops": len(ops), "kinds": kinds}
}

// ---- C14: ban / unban / use / restart / merge-into-second-broker ---------------------------------

// banRace: lookups of a key run concurrently with its ban / unban toggles; every answer read right
// after an acknowledged toggle must already show it (a lookup that started earlier must not put the
// old record back into the read cache).
func banRace() (string, map[string]interface{}) {
	dir, _ := os.MkdirTemp(cfg.Out, "banrace")
	defer os.RemoveAll(dir)
	a := event.NewState(dir)
	defer a.Close()
	k := event.Ban("raced-key")
	var stop int32
	var wg sync.WaitGroup
	for g := 0; g < 8; g++ {
		wg.Add(1)
		go func() {
			defer wg.Done()
			for atomic.LoadInt32(&stop) == 0 {
				a.Has(&k)
			}
		}()
	}
	setClock(1000)
	toggles, wrong := 0, 0
	deadline := time.Now().Add(1500 * time.Millisecond)
	clk := int64(1000)
	for time.Now().Before(deadline) {
		clk++
		setClock(clk)
		a.Add(&k)
		if !a.Has(&k) {
			wrong++
		}
		clk++
		setClock(clk)
		a.Del(&k)
		if a.Has(&k) {
			wrong++
		}
		toggles += 2
	}
	atomic.StoreInt32(&stop, 1)
	wg.Wait()
	return vlib.App("CBanRace", vlib.N(uint64(toggles)), vlib.N(uint64(wrong))), map[string]interface{}{"op": "lookups racing ban / unban toggles", "toggles": toggles, "stale_answers": wrong}
}

// ---- C14 at the request level: emitter/keyban/ requests and uses of the key against a real broker -----

type nullGossip struct{}

func (nullGossip) GossipUnicast(dst mesh.PeerName, msg []byte) error { return nil }
func (nullGossip) GossipBroadcast(update mesh.GossipData)            {}
func (nullGossip) GossipNeighbourSubset(update mesh.GossipData)      {}

type quietLog struct{}

func (quietLog) Name() string                                  { return "quiet" }
func (quietLog) Configure(config map[string]interface{}) error { return nil }
func (quietLog) Printf(format string, v ...interface{})        {}

type reqClient struct {
	conn net.Conn
	pkts chan mqtt.Message
}

func newReqClient(svc *broker.Service) *reqClient {
	a, b := net.Pipe()
	c := &reqClient{conn: a, pkts: make(chan mqtt.Message, 256)}
	svc.VerifAttach(b)
	go func() {
		rd := bufio.NewReaderSize(a, 65536)
		for {
			m, err := mqtt.DecodePacket(rd, 1<<20)
			if err != nil {
				close(c.pkts)
				return
			}
			c.pkts <- m
		}
	}()
	c.roundTrip(&mqtt.Connect{ClientID: []byte("c14")}, mqtt.TypeOfConnack)
	return c
}

func (c *reqClient) roundTrip(m mqtt.Message, ack uint8) (got []mqtt.Message) {
	m.EncodeTo(c.conn)
	timeout := time.After(3 * time.Second)
	for {
		select {
		case p, ok := <-c.pkts:
			if !ok {
				return
			}
			got = append(got, p)
			if p.Type() == ack {
				return
			}
		case <-timeout:
			return
		}
	}
}

// statusOf: the status of the emitter response / error among the packets (0 = none: plain success)
func statusOf(got []mqtt.Message) int {
	for _, m := range got {
		if p, ok := m.(*mqtt.Publish); ok && strings.HasPrefix(string(p.Topic), "emitter/") {
			var e struct {
				Status int `json:"status"`
			}
			json.Unmarshal(p.Payload, &e)
			return e.Status
		}
	}
	return 0
}

func banRequests(steps int) (string, map[string]interface{}) {
	r := cfg.Rng
	dir, _ := os.MkdirTemp(cfg.Out, "banreq")
	defer os.RemoveAll(dir)
	lic := license.NewV3()
	start := func() *broker.Service {
		conf := config.NewDefault().(*config.Config)
		conf.License = lic.String()
		conf.Cluster = &config.ClusterConfig{NodeName: "00:00:00:00:00:01", ListenAddr: ":4190", AdvertiseAddr: ":4190", Directory: dir}
		svc, err := broker.NewService(context.Background(), conf)
		if err != nil {
			panic(err)
		}
		logging.Logger = quietLog{}
		svc.VerifSwarm().VerifSetGossip(nullGossip{})
		return svc
	}
	cipher, _ := lic.Cipher()
	mk := func(perms uint8, target string, contract uint32) string {
		k := security.Key(make([]byte, 24))
		k.SetSalt(uint16(r.Intn(65536)))
		k.SetMaster(1)
		k.SetContract(contract)
		k.SetSignature(lic.Signature())
		k.SetPermissions(perms)
		k.SetTarget(target)
		e, _ := cipher.EncryptKey(k)
		return e
	}
	master := mk(security.AllowMaster, "#/", lic.Contract())
	targets := []string{mk(security.AllowRead|security.AllowWrite, "a/", lic.Contract()), mk(security.AllowRead|security.AllowWrite|security.AllowPresence, "a/", lic.Contract())}
	clock := int64(1000)
	tick := func() { clock += 10; setClock(clock, clock+1, clock+2, clock+3, clock+4, clock+5) }
	tick()
	svc := start()
	cl := newReqClient(svc)
	var ops []string
	restarts := 0
	for s := 0; s < steps; s++ {
		k := r.Intn(2)
		tick()
		switch x := r.Intn(100); {
		case x < 40: // ban / unban request signed by the master key
			banned := r.Intn(2) == 0
			req, _ := json.Marshal(map[string]interface{}{"secret": master, "target": targets[k], "banned": banned})
			st := statusOf(cl.roundTrip(&mqtt.Publish{Header: mqtt.Header{QOS: 1}, MessageID: uint16(s + 1), Topic: []byte("emitter/keyban/"), Payload: req}, mqtt.TypeOfPuback))
			ops = append(ops, vlib.App("RBan", vlib.N(uint64(k)), vlib.Bool(banned), vlib.Z(clock), vlib.N(uint64(st))))
		case x < 44: // the same toggle arrives from another broker (merged gossip), not through a request here
			banned := r.Intn(2) == 0
			b := event.Ban(targets[k])
			svc.VerifSwarm().Notify(&b, banned)
			ops = append(ops, vlib.App("RBan", vlib.N(uint64(k)), vlib.Bool(banned), vlib.Z(clock), "200"))
		case x < 52: // a request that must be refused: not a master key / a target of another contract
			secret, target := targets[1-k], targets[k]
			if r.Intn(2) == 0 {
				secret, target = master, mk(security.AllowRead, "a/", lic.Contract()+1)
			}
			req, _ := json.Marshal(map[string]interface{}{"secret": secret, "target": target, "banned": true})
			st := statusOf(cl.roundTrip(&mqtt.Publish{Header: mqtt.Header{QOS: 1}, MessageID: uint16(s + 1), Topic: []byte("emitter/keyban/"), Payload: req}, mqtt.TypeOfPuback))
			ops = append(ops, vlib.App("RRefused", vlib.N(uint64(st))))
		case x < 90: // the key is presented: publish, subscribe or presence
			var st int
			switch r.Intn(3) {
			case 0:
				st = statusOf(cl.roundTrip(&mqtt.Publish{Header: mqtt.Header{QOS: 1}, MessageID: uint16(s + 1), Topic: []byte(targets[k] + "/a/"), Payload: []byte("x")}, mqtt.TypeOfPuback))
			case 1:
				st = statusOf(cl.roundTrip(&mqtt.Subscribe{Header: mqtt.Header{QOS: 1}, MessageID: uint16(s + 1), Subscriptions: []mqtt.TopicQOSTuple{{Topic: []byte(targets[k] + "/a/")}}}, mqtt.TypeOfSuback))
			default:
				st = statusOf(cl.roundTrip(&mqtt.Unsubscribe{Header: mqtt.Header{QOS: 1}, MessageID: uint16(s + 1), Topics: []mqtt.TopicQOSTuple{{Topic: []byte(targets[k] + "/a/")}}}, mqtt.TypeOfUnsuback))
			}
			ops = append(ops, vlib.App("RUse", vlib.N(uint64(k)), vlib.N(uint64(st))))
		default: // the broker restarts on the same state directory
			cl.conn.Close()
			svc.Close()
			tick()
			svc = start()
			cl = newReqClient(svc)
			restarts++
			ops = append(ops, "RRestart")
		}
	}
	cl.conn.Close()
	svc.Close()
	return vlib.App("CBanReq", vlib.List(ops)), map[string]interface{}{"ops": len(ops), "restarts": restarts}
}

func banHistory(steps int) (string, map[string]interface{}) {
	r := cfg.Rng
	dir, _ := os.MkdirTemp(cfg.Out, "ban")
	defer os.RemoveAll(dir)
	os.MkdirAll(filepath.Join(dir, "b"), 0o755)
	a := event.NewState(dir)
	b := event.NewState(filepath.Join(dir, "b"))
	var ops []string
	clock := int64(10)
	keys := []event.Ban{"key-one", "key-two"}
	restarts := 0
	for s := 0; s < steps; s++ {
		k := keys[r.Intn(2)]
		kid := uint64(100)
		if k == "key-two" {
			kid = 101
		}
		switch x := r.Intn(100); {
		case x < 22: // ban (keyban's toggle: Add only when not contained)
			clock++
			setClock(clock)
			was := a.Has(&k)
			if !was {
				a.Add(&k)
			}
			ops = append(ops, vlib.App("BBan", vlib.N(kid), vlib.Z(clock), vlib.Bool(was)))
			ops = append(ops, vlib.App("BExpiry", vlib.N(kid), vlib.Bool(a.VerifBanExpires(&k))))
		case x < 44: // unban
			clock++
			setClock(clock)
			was := a.Has(&k)
			if was {
				a.Del(&k)
			}
			ops = append(ops, vlib.App("BUnban", vlib.N(kid), vlib.Z(clock), vlib.Bool(was)))
			ops = append(ops, vlib.App("BExpiry", vlib.N(kid), vlib.Bool(a.VerifBanExpires(&k))))
		case x < 80: // use: Authorize consults Contains
			ops = append(ops, vlib.App("BUse", vlib.N(kid), vlib.Bool(a.Has(&k))))
		case x < 88: // restart on the same directory
			a.Close()
			a = event.NewState(dir)
			restarts++
			ops = append(ops, "BRestart")
		default: // gossip: full state of a merged into b; b may or may not have looked the key up
			if r.Intn(2) == 0 {
				ops = append(ops, vlib.App("BUseB", vlib.N(kid), vlib.Bool(b.Has(&k))))
			}
			other, err := event.DecodeState(a.Encode()[0])
			if err != nil {
				panic(err)
			}
			b.Merge(other)
			ops = append(ops, vlib.App("BMergeAB", vlib.List([]string{vlib.Bool(b.Has(&keys[0])), vlib.Bool(b.Has(&keys[1]))})))
		}
	}
	a.Close()
	b.Close()
	return vlib.App("CBan", vlib.List(ops)), map[string]interface{}{"ops": len(ops), "restarts": restarts}
}

// ---- C13, second sentence: payloads queued on one link of the real mesh gossipSender ---------------

func senderCase() (string, map[string]interface{}) {
	r := cfg.Rng
	n := 1 + r.Intn(5)
	v := mesh.NewVerifSender()
	// the broker's own (durable) state: every delta it relays was merged into it first, every
	// operation it broadcasts was applied to it first
	live := newReplica(true, "")
	var ps []string
	kinds := []string{}
	panicked := false
	for i := 0; i < n && !panicked; i++ {
		switch r.Intn(5) {
		case 0: // periodic gossip: the complete state
			kinds = append(kinds, "full")
			ps = append(ps, vlib.Pair("true", "[]"))
			p, _ := vlib.Catch(func() { v.Send(cluster.VerifPayload(live, true)) })
			panicked = panicked || p
		default: // a delta: what OnGossip hands back after merging a received payload, or an own operation
			st := newReplica(false, "")
			for e := 0; e < 1+r.Intn(3); e++ {
				k := universe[r.Intn(len(universe))]
				setClock(pickTime())
				if r.Intn(3) == 0 {
					st.Del(k.mk(0))
				} else {
					st.Add(k.mk(r.Intn(2)))
				}
			}
			x, err := event.DecodeState(st.Encode()[0])
			if err != nil {
				panic(err)
			}
			if live.Merge(x) == nil {
				kinds = append(kinds, "nothing-new")
				continue // nothing new: nothing is relayed
			}
			kinds = append(kinds, "delta")
			ps = append(ps, vlib.Pair("false", dumpTerm(x)))
			p, _ := vlib.Catch(func() { v.Send(cluster.VerifPayload(x, false)) })
			panicked = panicked || p
			st.Close()
		}
	}
	var sent []string
	if !panicked {
		p, _ := vlib.Catch(func() {
			for _, b := range v.Deliver() {
				d, err := event.DecodeState(b)
				if err != nil {
					panic(err)
				}
				sent = append(sent, dumpTerm(d))
			}
		})
		panicked = panicked || p
	}
	liveDump := dumpTerm(live)
	live.Close()
	return vlib.App("CSender", vlib.List(ps), liveDump, vlib.List(sent), vlib.Bool(panicked)),
		map[string]interface{}{"op": "gossipSender", "payloads": kinds, "sent": len(sent), "panicked": panicked}
}

func main() {
	cfg = vlib.ParseFlags()
	sh := vlib.NewShards(cfg.Out, "CRDT", "From Coq Require Import ZArith List. From Emitter Require Import Lib.Base Model.Lww Model.BanStore Check.Crdt. Import ListNotations.", "case", "check", 40)
	mode := cfg.Extra
	r := cfg.Rng
	if mode == "ban" {
		for i := 0; i < 120*cfg.Mult; i++ {
			t, h := banHistory(10 + r.Intn(30))
			sh.Add(t, h, "ban-history", true)
		}
		for i := 0; i < 2; i++ {
			t, h := banRace()
			sh.Add(t, h, "ban-race", true)
		}
		for i := 0; i < 12*cfg.Mult; i++ {
			t, h := banRequests(15 + r.Intn(25))
			sh.Add(t, h, "ban-requests", true)
		}
		sh.Finish("emitter/keyban/ requests (ban, unban, refused ones), the same toggles arriving from another broker, and uses of the key (publish, subscribe, unsubscribe) through a real clustered broker.Service over in-memory connections, with restarts on the same state directory; random sequences of ban / unban / use on broker A over a real durable state directory, restarts of A on the same directory after any prefix, and full-state merges into a second durable broker B that has or has not looked the key up before; the persisted record's expiry after every ban / unban; two runs of 8 concurrent readers against 1.5 s of ban / unban toggles; non-trivial: all (every history has >= 10 operations)")
		return
	}
	for i := 0; i < 150*cfg.Mult; i++ {
		durable := i%2 == 1
		n := 3 + r.Intn(2)
		t, h := history(durable, n, 12+r.Intn(25))
		cl := "volatile"
		if durable {
			cl = "durable"
		}
		sh.Add(t, h, cl, true)
	}
	for i := 0; i < 150*cfg.Mult; i++ {
		t, h := senderCase()
		sh.Add(t, h, "sender", true)
	}
	sh.Finish("histories over 3-4 replicas (alternating volatile / durable backend): local Add/Del with scripted clocks (ties, out-of-order, negative, zero, 2^62), snapshots, single-op payloads, merges of any earlier payload incl. relayed deltas, every payload through Encode/DecodeState; closing all-to-all exchange; non-trivial: all histories (>= 12 operations); plus 1-4 payloads (volatile decoded states, occasionally a live durable state) queued on one link of the real mesh gossipSender before delivery")
}
