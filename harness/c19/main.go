// Harness for C19: message/frame codec, message ids, Frame.Split, Peer send queue.
package main

import (
	"sync"
	"time"

	"github.com/emitter-io/emitter/internal/message"
	"github.com/emitter-io/emitter/internal/service/cluster"
	"github.com/emitter-io/emitter/internal/zzverif/vlib"
	"github.com/golang/snappy"
	"github.com/weaveworks/mesh"
)

var cfg *vlib.Config

func msgTerm(m message.Message) string {
	return vlib.App("Msg", vlib.Bytes(m.ID), vlib.Bytes(m.Channel), vlib.Bytes(m.Payload), vlib.N(uint64(m.TTL)))
}

func frameTerm(f message.Frame) string {
	items := make([]string, len(f))
	for i, m := range f {
		items[i] = msgTerm(m)
	}
	return vlib.List(items)
}

func randLen() int {
	r := cfg.Rng
	switch r.Intn(8) {
	case 0:
		return 0
	case 1:
		return vlib.Pick(r, 127, 128, 129, 300)
	case 2:
		return vlib.Pick(r, 16383, 16384, 20000)
	}
	return r.Intn(20)
}

func blob(n int) []byte {
	r := cfg.Rng
	if n <= 40 {
		return vlib.RandBytes(r, n)
	}
	b := make([]byte, n)
	v := byte(r.Intn(256))
	for i := range b {
		b[i] = v
	}
	copy(b, vlib.RandBytes(r, 5))
	return b
}

func randTTL() uint32 {
	r := cfg.Rng
	switch r.Intn(6) {
	case 0:
		return 0
	case 1:
		return uint32(vlib.Pick(r, 1, 127, 128, 16383, 16384))
	case 2:
		return 4294967295
	case 3:
		return uint32(r.Int63n(1 << 32))
	}
	return uint32(r.Intn(100000))
}

func randMsg() message.Message {
	return message.Message{ID: blob(randLen()), Channel: blob(randLen()), Payload: blob(randLen()), TTL: randTTL()}
}

func smallMsg(tag int) message.Message {
	r := cfg.Rng
	return message.Message{ID: []byte{byte(tag), byte(tag >> 8)}, Channel: vlib.RandBytes(r, r.Intn(4)), Payload: vlib.RandBytes(r, r.Intn(30)), TTL: uint32(r.Intn(3))}
}

func resMsg(m message.Message, err error, panicked bool) string {
	if panicked {
		return "Panic"
	}
	if err != nil {
		return "(Err CEOF)"
	}
	return vlib.App("Ok", msgTerm(m))
}

type fakeGossip struct{ sent [][]byte }

func (g *fakeGossip) GossipUnicast(dst mesh.PeerName, msg []byte) error {
	g.sent = append(g.sent, append([]byte{}, msg...))
	return nil
}
func (g *fakeGossip) GossipBroadcast(update mesh.GossipData)       {}
func (g *fakeGossip) GossipNeighbourSubset(update mesh.GossipData) {}

func main() {
	cfg = vlib.ParseFlags()
	r := cfg.Rng
	sh := vlib.NewShards(cfg.Out, "C19", "From Emitter Require Import Lib.Base Model.MsgCodec Model.PeerQueue Check.C19.", "case", "check", 200)

	// 1. messages: all are encoded first and decoded afterwards (an encoded message must stay
	// intact while later ones are encoded - encoders come from a pool)
	nMsg := 500 * cfg.Mult
	msgs := make([]message.Message, nMsg)
	encs := make([][]byte, nMsg)
	for i := range msgs {
		msgs[i] = randMsg()
		encs[i] = msgs[i].Encode()
	}
	for i := 0; i < nMsg; i++ {
		m := msgs[i]
		enc := encs[i]
		inner, err := snappy.Decode(nil, enc)
		if err != nil {
			inner = nil
		}
		var out message.Message
		var derr error
		p, _ := vlib.Catch(func() { out, derr = message.DecodeMessage(enc) })
		sh.Add(vlib.App("CMsg", msgTerm(m), vlib.Bytes(inner), resMsg(out, derr, p)),
			map[string]interface{}{"op": "message", "id": len(m.ID), "chan": len(m.Channel), "payload": len(m.Payload), "ttl": m.TTL},
			"message", len(m.ID)+len(m.Channel)+len(m.Payload) > 0)
	}
	// 2. frames (two phases as well)
	nFr := 200 * cfg.Mult
	frames := make([]message.Frame, nFr)
	fencs := make([][]byte, nFr)
	var midMsgs []message.Message
	var midEncs [][]byte
	for i := range frames {
		n := r.Intn(6)
		if r.Intn(10) == 0 {
			n = vlib.Pick(r, 127, 128, 130)
		}
		f := message.Frame{}
		for k := 0; k < n; k++ {
			if n > 10 {
				f = append(f, smallMsg(k))
			} else {
				f = append(f, randMsg())
			}
		}
		frames[i] = f
		fencs[i] = f.Encode()
		if r.Intn(2) == 0 { // a message encoded right after a frame (the encoders come from one pool)
			m := randMsg()
			midMsgs = append(midMsgs, m)
			midEncs = append(midEncs, m.Encode())
		}
	}
	for i, m := range midMsgs {
		enc := midEncs[i]
		inner, err := snappy.Decode(nil, enc)
		if err != nil {
			inner = nil
		}
		var out message.Message
		var derr error
		p, _ := vlib.Catch(func() { out, derr = message.DecodeMessage(enc) })
		sh.Add(vlib.App("CMsg", msgTerm(m), vlib.Bytes(inner), resMsg(out, derr, p)),
			map[string]interface{}{"op": "message after a frame", "id": len(m.ID), "chan": len(m.Channel), "payload": len(m.Payload), "ttl": m.TTL},
			"message/after-frame", true)
	}
	for i := 0; i < nFr; i++ {
		f := frames[i]
		n := len(f)
		enc := fencs[i]
		inner, _ := snappy.Decode(nil, enc)
		var out message.Frame
		var derr error
		p, _ := vlib.Catch(func() { out, derr = message.DecodeFrame(enc) })
		res := "Panic"
		if !p {
			if derr != nil {
				res = "(Err CEOF)"
			} else {
				res = vlib.App("Ok", frameTerm(out))
			}
		}
		sh.Add(vlib.App("CFrame", frameTerm(f), vlib.Bytes(inner), res),
			map[string]interface{}{"op": "frame", "messages": n}, "frame", n > 0)
	}
	// 2b. damaged encodings: every kind of cut and a few flipped bytes of small messages and frames,
	// handed (snappy-wrapped again) to DecodeMessage / DecodeFrame - an error is an answer, a value
	// that was not encoded is not
	for i := 0; i < 150*cfg.Mult; i++ {
		m := randMsg()
		if len(m.Payload) > 40 {
			m.Payload = m.Payload[:40]
		}
		inner, _ := snappy.Decode(nil, m.Encode())
		cut := inner[:r.Intn(len(inner)+1)]
		if r.Intn(4) == 0 && len(cut) > 0 {
			cut = append([]byte{}, cut...)
			cut[r.Intn(len(cut))] ^= byte(1 << uint(r.Intn(8)))
		}
		var out message.Message
		var derr error
		p, _ := vlib.Catch(func() { out, derr = message.DecodeMessage(snappy.Encode(nil, cut)) })
		sh.Add(vlib.App("CRawMsg", vlib.Bytes(cut), resMsg(out, derr, p)),
			map[string]interface{}{"op": "damaged message", "bytes": len(cut), "of": len(inner)}, "damaged-message", true)
	}
	for i := 0; i < 100*cfg.Mult; i++ {
		f := message.Frame{}
		for k := 0; k < 1+r.Intn(3); k++ {
			f = append(f, smallMsg(k))
		}
		inner, _ := snappy.Decode(nil, f.Encode())
		cut := inner[:r.Intn(len(inner)+1)]
		var out message.Frame
		var derr error
		p, _ := vlib.Catch(func() { out, derr = message.DecodeFrame(snappy.Encode(nil, cut)) })
		res := "Panic"
		if !p {
			if derr != nil {
				res = "(Err CEOF)"
			} else {
				res = vlib.App("Ok", frameTerm(out))
			}
		}
		sh.Add(vlib.App("CRawFrame", vlib.Bytes(cut), res),
			map[string]interface{}{"op": "damaged frame", "bytes": len(cut), "of": len(inner)}, "damaged-frame", true)
	}
	// 3. ids: creation (time observed, sequence and unique read through the hook)
	for i := 0; i < 300*cfg.Mult; i++ {
		n := 2 + r.Intn(5)
		ssid := make(message.Ssid, n)
		for k := range ssid {
			ssid[k] = uint32(r.Int63n(1 << 32))
			if r.Intn(5) == 0 {
				ssid[k] = uint32(vlib.Pick(r, 0, 1, 255, 256, 4294967295, 1815237614))
			}
		}
		if r.Intn(4) == 0 {
			message.VerifSetNext(uint32(vlib.Pick(r, 0, 4294967294, 4294967295, 65535)))
		}
		var id message.ID
		var seq uint32
		var t0, t1 int64
		for {
			t0 = time.Now().Unix()
			id = message.NewID(ssid)
			seq = message.VerifNext()
			t1 = time.Now().Unix()
			if t0 == t1 {
				break
			}
		}
		words := make([]uint64, n)
		for k, v := range ssid {
			words[k] = uint64(v)
		}
		got := id.Ssid()
		gw := make([]uint64, len(got))
		for k, v := range got {
			gw[k] = uint64(v)
		}
		sh.Add(vlib.App("CId", vlib.NList(words), vlib.Z(t0), vlib.N(uint64(seq)), vlib.N(uint64(message.VerifUnique())),
			vlib.Bytes(id), vlib.NList(gw), vlib.N(uint64(id.Contract())), vlib.Z(id.Time())),
			map[string]interface{}{"op": "NewID", "ssid": words, "time": t0, "seq": seq}, "id/new", true)
	}
	// 3b. SetTime / Time over the whole supported range and outside it
	for i := 0; i < 300*cfg.Mult; i++ {
		id := message.NewID(message.Ssid{1, 2, 3})
		var t int64
		switch r.Intn(6) {
		case 0:
			t = 1514764800 + int64(vlib.Pick(r, 0, 1, 255, 256, 65535, 65536))
		case 1:
			t = 1514764800 + (1 << 32) - 1 - int64(r.Intn(3))
		case 2:
			t = 1514764800 + (1 << 32) + int64(r.Intn(1000)) // beyond the range: wraps
		case 3:
			t = int64(r.Intn(1514764800)) // before 2018: wraps
		default:
			t = 1514764800 + r.Int63n(1<<32)
		}
		before := append(message.ID{}, id...)
		id.SetTime(t)
		sh.Add(vlib.App("CIdTime", vlib.Bytes(before), vlib.Z(t), vlib.Bytes(id), vlib.Z(id.Time())),
			map[string]interface{}{"op": "SetTime", "t": t}, "id/time", true)
	}
	message.VerifSetNext(1000) // no sequence wrap inside the ordering pairs
	// 3c. ordering: pairs created later sort before (byte-wise) - recorded as observations
	for i := 0; i < 100*cfg.Mult; i++ {
		ssid := message.Ssid{uint32(r.Intn(1000)), uint32(r.Intn(1000)), 5}
		a := message.NewID(ssid)
		b := message.NewID(ssid)
		dt := int64(r.Intn(3))
		tb := a.Time() + dt
		b.SetTime(tb)
		sh.Add(vlib.App("CIdOrder", vlib.Bytes(a), vlib.Bytes(b)),
			map[string]interface{}{"op": "order", "dt": dt}, "id/order", true)
	}
	// 3d. concurrent creation: no two ids equal, each creator's ids in creation order
	for i := 0; i < 2*cfg.Mult; i++ {
		const creators, per = 8, 20000
		ssid := message.Ssid{7, 8, 9}
		all := make([][]message.ID, creators)
		var wg sync.WaitGroup
		for g := 0; g < creators; g++ {
			wg.Add(1)
			go func(g int) {
				defer wg.Done()
				ids := make([]message.ID, per)
				for k := range ids {
					ids[k] = message.NewID(ssid)
				}
				all[g] = ids
			}(g)
		}
		wg.Wait()
		seen := make(map[string]struct{}, creators*per)
		dups, disorder := 0, 0
		for _, ids := range all {
			for k, id := range ids {
				if _, ok := seen[string(id)]; ok {
					dups++
				}
				seen[string(id)] = struct{}{}
				// a later id of the same second sorts before an earlier one (strictly)
				if k > 0 && id.Time() == ids[k-1].Time() && string(id) >= string(ids[k-1]) {
					disorder++
				}
			}
		}
		sh.Add(vlib.App("CIdStress", vlib.N(creators*per), vlib.N(uint64(dups)), vlib.N(uint64(disorder))),
			map[string]interface{}{"op": "concurrent NewID", "creators": creators, "each": per, "duplicates": dups, "out_of_order": disorder}, "id/concurrent", true)
	}
	// 4. Split
	for i := 0; i < 400*cfg.Mult; i++ {
		n := r.Intn(8)
		f := message.Frame{}
		for k := 0; k < n; k++ {
			f = append(f, smallMsg(k))
		}
		total := 0
		for _, m := range f {
			total += len(m.Payload) + len(m.ID) + len(m.Channel) + 20
		}
		max := r.Intn(total + 30)
		if r.Intn(5) == 0 && n > 0 {
			// exactly at a cut boundary
			s := 0
			for k := 0; k <= r.Intn(n); k++ {
				s += len(f[k].Payload) + len(f[k].ID) + len(f[k].Channel) + 20
			}
			max = s + vlib.Pick(r, -1, 0, 1)
			if max < 0 {
				max = 0
			}
		}
		h, t := f.Split(max)
		sh.Add(vlib.App("CSplit", frameTerm(f), vlib.N(uint64(max)), frameTerm(h), frameTerm(t)),
			map[string]interface{}{"op": "split", "messages": n, "bound": max, "total": total}, "split", n > 1)
	}
	// 5. peer queue: scripted Send / Flush sequences against a recording sender
	nq := 150 * cfg.Mult
	for i := 0; i < nq; i++ {
		g := &fakeGossip{}
		p := cluster.VerifNewPeer(g, mesh.PeerName(42))
		p.VerifSetActivity(time.Now().Unix())
		ops := []string{}
		tag := 0
		big := cfg.Thorough() && i < 2 // one frame above the 10 MiB bound (two chunks)
		steps := 1 + r.Intn(12)
		for k := 0; k < steps; k++ {
			switch x := r.Intn(10); {
			case x < 6:
				burst := 1 + r.Intn(4)
				if big && k == 0 {
					burst = 180
				}
				for b := 0; b < burst; b++ {
					m := smallMsg(tag)
					if big && k == 0 {
						m.Payload = make([]byte, 60000)
					}
					tag++
					p.Send(&m)
					ops = append(ops, vlib.App("QSend", msgTerm(m), "true"))
				}
			case x < 7:
				p.VerifSetActivity(0)
				m := smallMsg(tag)
				tag++
				p.Send(&m)
				ops = append(ops, vlib.App("QSend", msgTerm(m), "false"))
				p.VerifSetActivity(time.Now().Unix())
			default:
				p.VerifFlush()
				ops = append(ops, "QFlush")
			}
		}
		p.VerifFlush()
		ops = append(ops, "QFlush")
		chunks := []string{}
		for _, b := range g.sent {
			f, err := message.DecodeFrame(b)
			if err != nil {
				panic(err)
			}
			chunks = append(chunks, frameTerm(f))
		}
		sh.Add(vlib.App("CQueue", vlib.List(ops), vlib.List(chunks)),
			map[string]interface{}{"op": "peer-queue", "steps": len(ops), "chunks_sent": len(chunks)}, "queue", tag > 1)
	}
	// 6. concurrent senders against the flusher: per-publisher order, nothing lost or duplicated
	for i := 0; i < 3*cfg.Mult; i++ {
		g := &fakeGossip{}
		p := cluster.VerifNewPeer(g, mesh.PeerName(43))
		p.VerifSetActivity(time.Now().Unix() + 1000)
		const pubs, per = 6, 1500
		var wg sync.WaitGroup
		stop := make(chan struct{})
		done := make(chan struct{})
		go func() {
			defer close(done)
			for {
				select {
				case <-stop:
					return
				default:
					p.VerifFlush()
				}
			}
		}()
		for w := 0; w < pubs; w++ {
			wg.Add(1)
			go func(w int) {
				defer wg.Done()
				for k := 0; k < per; k++ {
					m := message.Message{ID: []byte{byte(w)}, Channel: []byte{byte(k >> 8), byte(k)}, Payload: make([]byte, 40)}
					p.Send(&m)
				}
			}(w)
		}
		wg.Wait()
		close(stop)
		<-done
		p.VerifFlush()
		var seq []string
		for _, b := range g.sent {
			f, err := message.DecodeFrame(b)
			if err != nil {
				seq = append(seq, vlib.Pair("999", "0"))
				continue
			}
			for _, m := range f {
				if len(m.ID) != 1 || len(m.Channel) != 2 {
					seq = append(seq, vlib.Pair("999", "1"))
					continue
				}
				seq = append(seq, vlib.Pair(vlib.N(uint64(m.ID[0])), vlib.N(uint64(m.Channel[0])<<8|uint64(m.Channel[1]))))
			}
		}
		sh.Add(vlib.App("CQStress", vlib.N(pubs), vlib.N(per), vlib.List(seq)),
			map[string]interface{}{"op": "peer-queue stress", "publishers": pubs, "per_publisher": per, "frames": len(g.sent)}, "queue-stress", true)
	}
	sh.Finish("messages/frames with empty, small, 127/128/16383/16384-byte fields and ttl 0..2^32-1; ids over random ssids, sequence counter near wrap, SetTime over and beyond the 2018+2^32 s range; Split with bounds at and around every cut; Send/Flush scripts with inactive periods; non-trivial = non-empty message / frame, >1 message for split and queue")
}
