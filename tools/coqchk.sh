#!/bin/bash
# Re-checks every compiled property file (and everything it depends on) with Coq's independent
# checker and prints the axioms relied on.  ~4 minutes.  The last report is committed as
# /verif/coqchk-report.txt.
cd /verif/coq && make -j16 >/dev/null && coqchk -silent -o -Q . Emitter $(ls Properties/*.v | sed 's/\.v$//; s/\//./; s/^/Emitter./')
