(* C04 / C13: algebra of the LWW merge and exactness of the delta (std++ style). *)
From stdpp Require Import gmap.
From Coq Require Import ZArith Lia.
From Emitter Require Import Model.Lww.
Local Open Scope Z_scope.

Definition tadd (s : replica) (k : N) : Z := e_add (fetch s k).
Definition tdel (s : replica) (k : N) : Z := e_del (fetch s k).

Lemma times_eq s k : times s k = (tadd s k, tdel s k).
Proof. reflexivity. Qed.

(* replicas only ever hold non-negative times (clock readings are non-negative and a remote time
   is adopted only when it exceeds the local one); payloads may hold anything *)
Definition nonneg (s : replica) : Prop := forall k, 0 <= tadd s k /\ 0 <= tdel s k.

Lemma nonneg_empty : nonneg ∅.
Proof. intros k. unfold tadd, tdel, fetch. rewrite lookup_empty. cbn. lia. Qed.

Ltac zeqb :=
  repeat match goal with
         | |- context [?a <? ?b] => destruct (Z.ltb_spec a b); cbv iota
         | |- context [?a <=? ?b] => destruct (Z.leb_spec a b); cbv iota
         end;
  repeat match goal with
         | |- context [?a =? ?b] => destruct (Z.eqb_spec a b); cbv iota
         end.

(* one key *)
Lemma merge_entry_times st rt :
  0 <= e_add st -> 0 <= e_del st ->
  let st' := match fst (merge_entry st rt) with Some x => x | None => st end in
  e_add st' = Z.max (e_add st) (e_add rt) /\ e_del st' = Z.max (e_del st) (e_del rt).
Proof.
  intros P1 P2. unfold merge_entry, is_zero. cbv zeta. cbn [e_add e_del e_val].
  zeqb; cbn [andb fst e_add e_del]; lia.
Qed.

Lemma lookup_lww_merge s r k : lww_merge s r !! k = merge_local (s !! k) (r !! k).
Proof.
  unfold lww_merge. rewrite lookup_merge. unfold diag_None.
  destruct (s !! k), (r !! k); reflexivity.
Qed.

Lemma lookup_lww_delta s r k : lww_delta s r !! k = merge_delta (s !! k) (r !! k).
Proof.
  unfold lww_delta. rewrite lookup_merge. unfold diag_None.
  destruct (s !! k), (r !! k); reflexivity.
Qed.

(* the merge is the point-wise maximum of both times *)
Lemma merge_times s r k :
  nonneg s ->
  tadd (lww_merge s r) k = Z.max (tadd s k) (tadd r k)
  /\ tdel (lww_merge s r) k = Z.max (tdel s k) (tdel r k).
Proof.
  intros Hs. specialize (Hs k). revert Hs.
  unfold tadd, tdel, fetch. rewrite lookup_lww_merge. unfold merge_local.
  destruct (r !! k) as [rt|] eqn:Hr; cbn [oget]; intros Hs.
  - pose proof (merge_entry_times (oget (s !! k)) rt (proj1 Hs) (proj2 Hs)) as H. cbv zeta in H.
    destruct (fst (merge_entry (oget (s !! k)) rt)) as [x|]; cbn [oget]; exact H.
  - cbn [zero_entry e_add e_del]. lia.
Qed.

Lemma merge_nonneg s r : nonneg s -> nonneg (lww_merge s r).
Proof.
  intros Hs k. destruct (merge_times s r k Hs) as [-> ->]. specialize (Hs k). lia.
Qed.

(* ---- C04: algebraic laws on the time projection ---- *)

Lemma merge_comm_times s r k : nonneg s -> nonneg r -> times (lww_merge s r) k = times (lww_merge r s) k.
Proof.
  intros Hs Hr. rewrite !times_eq.
  destruct (merge_times s r k Hs) as [-> ->]. destruct (merge_times r s k Hr) as [-> ->].
  f_equal; lia.
Qed.

Lemma merge_assoc_times a b c k :
  nonneg a -> nonneg b ->
  times (lww_merge (lww_merge a b) c) k = times (lww_merge a (lww_merge b c)) k.
Proof.
  intros Ha Hb. rewrite !times_eq.
  destruct (merge_times (lww_merge a b) c k (merge_nonneg a b Ha)) as [-> ->].
  destruct (merge_times a b k Ha) as [-> ->].
  destruct (merge_times a (lww_merge b c) k Ha) as [-> ->].
  destruct (merge_times b c k Hb) as [-> ->].
  f_equal; lia.
Qed.

Lemma merge_idem_times s k : nonneg s -> times (lww_merge s s) k = times s k.
Proof.
  intros Hs. rewrite !times_eq. destruct (merge_times s s k Hs) as [-> ->]. f_equal; lia.
Qed.

(* a replica that has merged the payloads ps (in this order) holds the maximum over them *)
Definition tmax_add (ps : list replica) (k : N) (a0 : Z) : Z := fold_left (fun a p => Z.max a (tadd p k)) ps a0.
Definition tmax_del (ps : list replica) (k : N) (a0 : Z) : Z := fold_left (fun a p => Z.max a (tdel p k)) ps a0.

Lemma fold_merge_times : forall ps s k,
  nonneg s ->
  nonneg (fold_left lww_merge ps s)
  /\ tadd (fold_left lww_merge ps s) k = tmax_add ps k (tadd s k)
  /\ tdel (fold_left lww_merge ps s) k = tmax_del ps k (tdel s k).
Proof.
  induction ps as [|p ps IH]; intros s k Hs; cbn [fold_left].
  - repeat split; try reflexivity. apply Hs. apply Hs.
  - destruct (IH (lww_merge s p) k (merge_nonneg s p Hs)) as (H1 & H2 & H3).
    destruct (merge_times s p k Hs) as [E1 E2].
    split; [exact H1|]. unfold tmax_add, tmax_del in *. cbn [fold_left]. rewrite H2, H3, E1, E2. split; reflexivity.
Qed.

(* the maximum over a list depends only on the set of its elements *)
Lemma fold_max_ge (f : replica -> Z) ps a : a <= fold_left (fun a p => Z.max a (f p)) ps a.
Proof. revert a. induction ps as [|p ps IH]; intros a; cbn [fold_left]; [lia|]. specialize (IH (Z.max a (f p))). lia. Qed.

Lemma fold_max_in (f : replica -> Z) ps a p : In p ps -> f p <= fold_left (fun a p => Z.max a (f p)) ps a.
Proof.
  revert a. induction ps as [|q ps IH]; intros a Hin; [destruct Hin|]. destruct Hin as [->|Hin]; cbn [fold_left].
  - pose proof (fold_max_ge f ps (Z.max a (f p))). lia.
  - apply IH. exact Hin.
Qed.

Lemma fold_max_bound (f : replica -> Z) ps a b :
  a <= b -> (forall p, In p ps -> f p <= b) -> fold_left (fun a p => Z.max a (f p)) ps a <= b.
Proof.
  revert a. induction ps as [|q ps IH]; intros a Ha H; cbn [fold_left]; [exact Ha|].
  apply IH; [|intros p Hp; apply H; right; exact Hp].
  specialize (H q (or_introl eq_refl)). lia.
Qed.

Lemma fold_max_set (f : replica -> Z) ps ps' a :
  (forall p, In p ps <-> In p ps') ->
  fold_left (fun a p => Z.max a (f p)) ps a = fold_left (fun a p => Z.max a (f p)) ps' a.
Proof.
  intros H. apply Z.le_antisymm.
  - apply fold_max_bound; [apply fold_max_ge|]. intros p Hp. apply fold_max_in. apply H. exact Hp.
  - apply fold_max_bound; [apply fold_max_ge|]. intros p Hp. apply fold_max_in. apply H. exact Hp.
Qed.

(* order, duplication: two replicas that started equal and received the same SET of payloads, in
   any order and any number of times each, hold the same times *)
Theorem order_insensitive ps ps' s k :
  nonneg s -> (forall p, In p ps <-> In p ps') ->
  times (fold_left lww_merge ps s) k = times (fold_left lww_merge ps' s) k.
Proof.
  intros Hs H. rewrite !times_eq.
  destruct (fold_merge_times ps s k Hs) as (_ & -> & ->).
  destruct (fold_merge_times ps' s k Hs) as (_ & -> & ->).
  unfold tmax_add, tmax_del. f_equal; apply fold_max_set; exact H.
Qed.

(* grouping: receiving payloads pre-merged into one (a snapshot of an intermediate replica that
   had merged qs into q0) is the same as receiving them one by one *)
Theorem grouping qs q0 s k :
  nonneg s -> nonneg q0 ->
  times (lww_merge s (fold_left lww_merge qs q0)) k = times (fold_left lww_merge (q0 :: qs) s) k.
Proof.
  intros Hs Hq. rewrite !times_eq.
  destruct (merge_times s (fold_left lww_merge qs q0) k Hs) as [-> ->].
  destruct (fold_merge_times qs q0 k Hq) as (_ & -> & ->).
  destruct (fold_merge_times (q0 :: qs) s k Hs) as (_ & -> & ->).
  unfold tmax_add, tmax_del. cbn [fold_left].
  assert (G : forall (f : replica -> Z) l a b, Z.max a (fold_left (fun a p => Z.max a (f p)) l b)
                                       = fold_left (fun a p => Z.max a (f p)) l (Z.max a b)).
  { intros f l. induction l as [|x l IH]; intros a b; cbn [fold_left]; [reflexivity|].
    rewrite IH. f_equal. lia. }
  f_equal; apply G.
Qed.

(* ---- delta ---- *)

Lemma delta_entry st rt :
  0 <= e_add st -> 0 <= e_del st ->
  match snd (merge_entry st rt) with
  | None => Z.max (e_add st) (e_add rt) = e_add st /\ Z.max (e_del st) (e_del rt) = e_del st
  | Some d =>
    (e_add d = if e_add st <? e_add rt then e_add rt else 0)
    /\ (e_del d = if e_del st <? e_del rt then e_del rt else 0)
    /\ e_val d = e_val rt
    /\ (e_add st < e_add rt \/ e_del st < e_del rt)
  end.
Proof.
  intros P1 P2. unfold merge_entry, is_zero. cbn [e_add e_del e_val].
  zeqb; cbn [andb snd e_add e_del e_val]; repeat split; try lia; zeqb; try lia.
Qed.

(* C13: the delta holds exactly the keys whose times changed, with exactly the changed fields
   (the others zeroed), and the payload's value *)
Theorem delta_exact s r k :
  nonneg s ->
  match lww_delta s r !! k with
  | None => times (lww_merge s r) k = times s k
  | Some d =>
    times (lww_merge s r) k <> times s k
    /\ e_add d = (if tadd s k =? tadd (lww_merge s r) k then 0 else tadd (lww_merge s r) k)
    /\ e_del d = (if tdel s k =? tdel (lww_merge s r) k then 0 else tdel (lww_merge s r) k)
  end.
Proof.
  intros Hs. rewrite !times_eq. destruct (merge_times s r k Hs) as [-> ->].
  pose proof (Hs k) as [Ha Hd]. revert Ha Hd.
  rewrite lookup_lww_delta. unfold merge_delta, tadd, tdel, fetch.
  destruct (r !! k) as [rt|] eqn:Hr; cbn [oget].
  - intros Ha Hd. pose proof (delta_entry (oget (s !! k)) rt Ha Hd) as H. revert Ha Hd.
    destruct (snd (merge_entry (oget (s !! k)) rt)) as [d|].
    + destruct H as (H1 & H2 & _ & H4). intros Ha Hd. rewrite H1, H2.
      split; [intros E; injection E as E1 E2; lia|]. split; zeqb; lia.
    + destruct H as [H1 H2]. intros _ _. rewrite H1, H2. reflexivity.
  - intros Ha Hd. cbn [zero_entry e_add e_del]. f_equal; lia.
Qed.

Theorem delta_empty_iff s r :
  nonneg s -> (lww_delta s r = ∅ <-> forall k, times (lww_merge s r) k = times s k).
Proof.
  intros Hs. split.
  - intros E k. pose proof (delta_exact s r k Hs) as H. rewrite E, lookup_empty in H. exact H.
  - intros H. apply map_eq. intros k. rewrite lookup_empty.
    pose proof (delta_exact s r k Hs) as D. destruct (lww_delta s r !! k); [|reflexivity].
    destruct D as [D _]. contradiction (D (H k)).
Qed.

(* relaying the delta instead of the payload loses nothing: merging it gives the same times *)
Theorem delta_lossless s r k :
  nonneg s -> times (lww_merge s (lww_delta s r)) k = times (lww_merge s r) k.
Proof.
  intros Hs. rewrite !times_eq.
  destruct (merge_times s (lww_delta s r) k Hs) as [-> ->].
  pose proof (delta_exact s r k Hs) as D. pose proof (Hs k) as [Ha Hd].
  destruct (merge_times s r k Hs) as [E1 E2].
  set (A := tadd (lww_merge s r) k) in *. set (B := tdel (lww_merge s r) k) in *.
  assert (F : tadd (lww_delta s r) k = e_add (oget (lww_delta s r !! k))) by reflexivity.
  assert (G : tdel (lww_delta s r) k = e_del (oget (lww_delta s r !! k))) by reflexivity.
  rewrite F, G. clear F G.
  destruct (lww_delta s r !! k) as [d|]; cbn [oget].
  - destruct D as (_ & D1 & D2). rewrite D1, D2. f_equal; zeqb; lia.
  - rewrite !times_eq in D. injection D as D1 D2. cbn [zero_entry e_add e_del]. f_equal; lia.
Qed.

(* ---- local operations are merges of single-entry payloads (single clock reading) ---- *)
Lemma lookup_singleton_fetch k k' e : fetch ({[k := e]} : replica) k' = if decide (k = k') then e else zero_entry.
Proof.
  unfold fetch. destruct (decide (k = k')) as [->|Hne].
  - rewrite lookup_singleton. reflexivity.
  - rewrite lookup_singleton_ne by exact Hne. reflexivity.
Qed.

Theorem add_is_merge s k v now k' :
  nonneg s ->
  times (lww_add s k v now now) k' = times (lww_merge s {[k := Ent now 0 v]}) k'.
Proof.
  intros Hs. rewrite !times_eq. destruct (merge_times s {[k := Ent now 0 v]} k' Hs) as [-> ->].
  pose proof (Hs k') as [Ha Hd].
  assert (F : tadd ({[k := Ent now 0 v]} : replica) k' = e_add (if decide (k = k') then Ent now 0 v else zero_entry))
    by (unfold tadd; rewrite lookup_singleton_fetch; reflexivity).
  assert (G : tdel ({[k := Ent now 0 v]} : replica) k' = e_del (if decide (k = k') then Ent now 0 v else zero_entry))
    by (unfold tdel; rewrite lookup_singleton_fetch; reflexivity).
  rewrite F, G. clear F G.
  unfold lww_add. destruct (Z.ltb_spec (e_add (fetch s k)) now) as [Hlt|Hge].
  - unfold tadd, tdel, fetch in *. destruct (decide (k = k')) as [->|Hne].
    + rewrite lookup_insert. cbn [oget e_add e_del]. f_equal; lia.
    + rewrite lookup_insert_ne by exact Hne. cbn [zero_entry e_add e_del]. f_equal; lia.
  - unfold tadd, tdel in *. destruct (decide (k = k')) as [->|Hne]; cbn [zero_entry e_add e_del]; f_equal; lia.
Qed.

Theorem del_is_merge s k now k' :
  nonneg s ->
  times (lww_del s k now now) k' = times (lww_merge s {[k := Ent 0 now []]}) k'.
Proof.
  intros Hs. rewrite !times_eq. destruct (merge_times s {[k := Ent 0 now []]} k' Hs) as [-> ->].
  pose proof (Hs k') as [Ha Hd].
  assert (F : tadd ({[k := Ent 0 now []]} : replica) k' = e_add (if decide (k = k') then Ent 0 now [] else zero_entry))
    by (unfold tadd; rewrite lookup_singleton_fetch; reflexivity).
  assert (G : tdel ({[k := Ent 0 now []]} : replica) k' = e_del (if decide (k = k') then Ent 0 now [] else zero_entry))
    by (unfold tdel; rewrite lookup_singleton_fetch; reflexivity).
  rewrite F, G. clear F G.
  unfold lww_del. destruct (Z.ltb_spec (e_del (fetch s k)) now) as [Hlt|Hge].
  - unfold tadd, tdel, fetch in *. destruct (decide (k = k')) as [->|Hne].
    + rewrite lookup_insert. cbn [oget e_add e_del]. f_equal; lia.
    + rewrite lookup_insert_ne by exact Hne. cbn [zero_entry e_add e_del]. f_equal; lia.
  - unfold tadd, tdel in *. destruct (decide (k = k')) as [->|Hne]; cbn [zero_entry e_add e_del]; f_equal; lia.
Qed.

(* local operations keep times non-negative when the clock readings are *)
Lemma add_nonneg s k v now now' : nonneg s -> 0 <= now' -> nonneg (lww_add s k v now now').
Proof.
  intros Hs Hn k'. unfold lww_add. destruct (e_add (fetch s k) <? now); [|apply Hs].
  pose proof (Hs k') as [Ha Hd]. pose proof (Hs k) as [Ha' Hd'].
  unfold tadd, tdel, fetch in *. destruct (decide (k = k')) as [->|Hne].
  - rewrite lookup_insert. cbn [oget e_add e_del]. lia.
  - rewrite lookup_insert_ne by exact Hne. lia.
Qed.

Lemma del_nonneg s k now now' : nonneg s -> 0 <= now' -> nonneg (lww_del s k now now').
Proof.
  intros Hs Hn k'. unfold lww_del. destruct (e_del (fetch s k) <? now); [|apply Hs].
  pose proof (Hs k') as [Ha Hd]. pose proof (Hs k) as [Ha' Hd'].
  unfold tadd, tdel, fetch in *. destruct (decide (k = k')) as [->|Hne].
  - rewrite lookup_insert. cbn [oget e_add e_del]. lia.
  - rewrite lookup_insert_ne by exact Hne. lia.
Qed.

(* activity *)
Theorem active_iff s k : has s k = true <-> tadd s k <> 0 /\ tdel s k <= tadd s k.
Proof.
  unfold has, is_added, tadd, tdel. rewrite andb_true_iff, negb_true_iff, Z.eqb_neq, Z.leb_le. reflexivity.
Qed.
