(* Correspondence cases of C03. *)
From Emitter Require Import Lib.Base Model.MsgCodec Model.Murmur Model.Channel Model.Cipher Model.Key Spec.KeyAuth.

Inductive case :=
(* SetTarget(target) -> (bit path, hash) or error; ParseChannel("K/"+request) and ValidateChannel *)
| CVal (target request : bytes) (st : res terr (N * N)) (valid : bool)
(* Service.Authorize: the decrypted key bytes, the contract on file, the time, the full channel
   text, the target the key was issued for, the permission asked *)
| CAuth (k : bytes) (ct : contract) (now : Z) (text target : bytes) (perm : N) (ok : bool).

(* the property speaks of well-formed targets: no empty level *)
Definition wf_target (t : bytes) : bool := forallb (fun p => negb (is_nil p)) (fst (levels t)).

Definition kprefix : bytes := [75; 47].   (* "K/" *)

Definition check (c : case) : N :=
  match c with
  | CVal target request st valid =>
    match set_target murmur (rep 24 0) target, st with
    | Ok k, Ok (p, hv) =>
      let ch := parse_channel (kprefix ++ request) in
      let mv := negb (c_type ch =? ChannelInvalid) && validate_channel murmur k ch in
      bit ((key_path k =? p) && (key_target k =? hv)) 1
      |+| bit (Bool.eqb mv valid) 1
      (* oracle: accepted iff the target covers the request; the under-permission of targets with
         a trailing wildcard level is the known finding F2 (never over-permission) *)
      |+| (if Bool.eqb valid (covers target request) || negb (wf_target target) then 0
           else if trailing_wildcard target && negb valid && Bool.eqb mv valid then 16 else 2)
    | Err TargetInvalid, Err TargetInvalid | Err TargetTooLong, Err TargetTooLong => 0
    | _, _ => 1
    end
  | CAuth k ct now text target perm ok =>
    let ch := parse_channel text in
    let m := authorize murmur (fun _ => false) (fun _ => Ok k)
                       (fun id => if id =? ct_id ct then Some ct else None) now ch perm in
    let mok := match m with Some _ => true | None => false end in
    let request := c_chan ch in
    (* the property, factor by factor *)
    let spec := negb (c_type ch =? ChannelInvalid) && negb (is_expired k now)
                && (key_contract k =? ct_id ct) && (key_signature k =? ct_signature ct)
                && (key_master k =? ct_master ct) && ct_allowed ct
                && (N.land (key_perms k) perm =? perm)
                && covers target request in
    bit (Bool.eqb mok ok) 1
    |+| (if Bool.eqb ok spec then 0
         else if trailing_wildcard target && negb ok && Bool.eqb mok ok then 16 else 2)
  end.
