(* Executable model of internal/network/mqtt/mqtt.go: EncodeTo of the 14 packet types on the
   pooled 64 KiB buffer with 6 bytes of header room, decodeHeader, DecodePacket and the eleven
   body decoders, with every unguarded index as a Panic and every returned error as a value.
   No proofs in this file. *)
From Emitter Require Import Lib.Base.

Record hdr := Hdr { h_dup : bool; h_qos : N; h_retain : bool }.
Definition hdr0 := Hdr false 0 false.

Inductive packet :=
| Connect (proto : bytes) (ver : N) (uflag pflag wretain : bool) (wqos : N) (wflag clean : bool)
          (keepalive : N) (cid wtopic wmsg user pass : bytes)
| Connack (rc : N)
| Publish (h : hdr) (topic : bytes) (mid : N) (payload : bytes)
| Puback (mid : N)
| Pubrec (mid : N)
| Pubrel (h : hdr) (mid : N)
| Pubcomp (mid : N)
| Subscribe (h : hdr) (mid : N) (subs : list (bytes * N))
| Suback (mid : N) (qos : list N)
| Unsubscribe (h : hdr) (mid : N) (topics : list bytes)
| Unsuback (mid : N)
| Pingreq
| Pingresp
| Disconnect.

Inductive merr := EEOF | ETooLarge | EBadPacket | EInvalidType.

(* constants of mqtt.go *)
Definition maxHeaderSize : N := 6.
Definition MaxMessageSize : N := 65536.
Definition bodyRoom : N := MaxMessageSize - maxHeaderSize.

Definition u8 (x : N) := x mod 256.
Definition u16 (x : N) := x mod 65536.
Definition u32 (x : N) := x mod 4294967296.

(* ---- encoding --------------------------------------------------------------------------- *)

(* encodeLength: returns (numBytes, bitField); the Go loop runs while bodyLength > 0, at most
   5 times for a uint32 *)
Fixpoint enc_len_loop (fuel : nat) (body bitField numBytes : N) : N * N :=
  match fuel with
  | O => (numBytes, bitField)
  | S f =>
    if body =? 0 then (numBytes, bitField) else
      let bf := u32 (N.shiftl bitField 8) in
      let dig := u8 (body mod 128) in
      let body' := body / 128 in
      let dig' := if 0 <? body' then N.lor dig 128 else dig in
      enc_len_loop f body' (N.lor bf dig') (u8 (numBytes + 1))
  end.
Definition encode_length (body : N) : N * N :=
  if body =? 0 then (1, 0) else enc_len_loop 5 body 0 0.

(* the blit of writeHeader: bytes of bitField from the most significant used one down *)
Fixpoint blit (n : nat) (bitField : N) : bytes :=
  match n with
  | O => []
  | S m => u8 (N.shiftr bitField (N.of_nat m * 8)) :: blit m bitField
  end.

Definition first_byte (mt : N) (h : option hdr) : N :=
  let fb := u8 (N.shiftl mt 4) in
  match h with
  | None => fb
  | Some h => N.lor (N.lor (N.lor fb (u8 (N.shiftl (b2n (h_dup h)) 3)))
                           (u8 (N.shiftl (h_qos h) 1)))
                    (b2n (h_retain h))
  end.

Definition write_header (mt : N) (h : option hdr) (length : N) : bytes :=
  let '(nb, bf) := encode_length (u32 length) in
  first_byte mt h :: blit (N.to_nat nb) bf.

Definition w_u16 (v : N) : bytes := (N.land v 65280 / 256) :: N.land v 255 :: nil.
Definition w_str (v : bytes) : bytes := w_u16 (u16 (len v)) ++ v.

Definition flag_byte (uflag pflag wretain : bool) (wqos : N) (wflag clean : bool) : N :=
  fold_left N.lor
    [ u8 (N.shiftl (b2n uflag) 7); u8 (N.shiftl (b2n pflag) 6); u8 (N.shiftl (b2n wretain) 5);
      u8 (N.shiftl wqos 3); u8 (N.shiftl (b2n wflag) 2); u8 (N.shiftl (b2n clean) 1) ] 0.

(* finish: the body was written at buf[6:]; if it does not fit the 65530 bytes of room some
   slice expression panics (at the latest array.Slice(start, 6+offset)) *)
Definition finish (mt : N) (h : option hdr) (body : bytes) : res merr bytes :=
  if bodyRoom <? len body then Panic
  else Ok (write_header mt h (len body) ++ body).

Definition enc_subs (l : list (bytes * N)) : bytes :=
  flat_map (fun t => w_str (fst t) ++ [snd t]) l.
Definition enc_topics (l : list bytes) : bytes := flat_map w_str l.

(* guard of Publish.EncodeTo: [length > MaxMessageSize] *)
Definition publish_too_large (length : N) : bool := bodyRoom <? length.

Definition encode (p : packet) : res merr bytes :=
  match p with
  | Connect proto ver uf pf wr wq wf cs ka cid wt wm un pw =>
    finish 1 None
      (w_str proto ++ [ver] ++ [flag_byte uf pf wr wq wf cs] ++ w_u16 ka ++ w_str cid
       ++ (if wf then w_str wt ++ w_str wm else [])
       ++ (if uf then w_str un else [])
       ++ (if pf then w_str pw else []))
  | Connack rc => finish 2 None [0; rc]
  | Publish h topic mid payload =>
    let length := 2 + len topic + len payload + (if 0 <? h_qos h then 2 else 0) in
    if publish_too_large length then Err ETooLarge
    else finish 3 (Some h) (w_str topic ++ (if 0 <? h_qos h then w_u16 mid else []) ++ payload)
  | Puback mid => finish 4 None (w_u16 mid)
  | Pubrec mid => finish 5 None (w_u16 mid)
  | Pubrel h mid => finish 6 (Some h) (w_u16 mid)
  | Pubcomp mid => finish 7 None (w_u16 mid)
  | Subscribe h mid subs => finish 8 (Some h) (w_u16 mid ++ enc_subs subs)
  | Suback mid qos => finish 9 None (w_u16 mid ++ qos)
  | Unsubscribe h mid topics => finish 10 (Some h) (w_u16 mid ++ enc_topics topics)
  | Unsuback mid => finish 11 None (w_u16 mid)
  | Pingreq => Ok [192; 0]
  | Pingresp => Ok [208; 0]
  | Disconnect => Ok [224; 0]
  end.

(* ---- decoding --------------------------------------------------------------------------- *)

(* the length loop of decodeHeader; None = the reader ran out (error from ReadByte) *)
Fixpoint dec_len (s : bytes) (mult length : N) : option (N * bytes) :=
  match s with
  | [] => None
  | b :: r =>
    let length' := u32 (length + u32 (N.land b 127 * mult)) in
    let mult' := u32 (mult * 128) in
    if N.land b 128 =? 0 then Some (length', r) else dec_len r mult' length'
  end.

Definition has_hdr (mt : N) : bool := (mt =? 3) || (mt =? 8) || (mt =? 10) || (mt =? 6).

Definition dec_hdr_bits (fb : N) : hdr :=
  Hdr (0 <? N.land fb 8) (N.shiftr (N.land fb 6) 1) (0 <? N.land fb 1).

(* decodeHeader: (hdr, length, messageType, rest) *)
Definition decode_header (s : bytes) : option (hdr * N * N * bytes) :=
  match s with
  | [] => None
  | fb :: r =>
    let mt := N.shiftr (N.land fb 240) 4 in
    let h := if has_hdr mt then dec_hdr_bits fb else hdr0 in
    match dec_len r 1 0 with
    | None => None
    | Some (l, r') => Some (h, l, mt, r')
    end
  end.

(* readUint16: both index expressions are unguarded *)
Definition r_u16 (d : bytes) : res merr (N * bytes) :=
  match d with
  | b0 :: b1 :: r => Ok (u16 (u16 (N.shiftl b0 8) + b1), r)
  | _ => Panic
  end.

(* readString *)
Definition r_str (d : bytes) : res merr (bytes * bytes) :=
  do (l, r) <- r_u16 d;
  if len r <? l then Err EBadPacket else Ok (take l r, drop l r).

Definition r_u8 (d : bytes) : res merr (N * bytes) :=
  match d with b :: r => Ok (b, r) | [] => Panic end.

(* the will-QoS expression of decodeConnect *)
Definition will_qos_of_flags (flags : N) : N := N.land (N.shiftr flags 3) 3.

Definition decode_connect (d : bytes) : res merr packet :=
  do (proto, d) <- r_str d;
  do (ver, d) <- r_u8 d;
  do (flags, d) <- r_u8 d;
  do (ka, d) <- r_u16 d;
  do (cid, d) <- r_str d;
  let uf := 0 <? N.land flags 128 in
  let pf := 0 <? N.land flags 64 in
  let wr := 0 <? N.land flags 32 in
  let wq := will_qos_of_flags flags in
  let wf := 0 <? N.land flags 4 in
  let cs := 0 <? N.land flags 2 in
  do (wt, wm, d) <- (if wf then do (wt, d) <- r_str d; do (wm, d) <- r_str d; Ok (wt, wm, d)
                      else Ok ([], [], d));
  do (un, d) <- (if uf then r_str d else Ok ([], d));
  do (pw, d) <- (if pf then r_str d else Ok ([], d));
  Ok (Connect proto ver uf pf wr wq wf cs ka cid wt wm un pw).

Definition decode_connack (d : bytes) : res merr packet :=
  match d with
  | _ :: rc :: _ => Ok (Connack rc)
  | _ => Panic
  end.

Definition decode_publish (d : bytes) (h : hdr) : res merr packet :=
  do (topic, d) <- r_str d;
  do (mid, d) <- (if 0 <? h_qos h then r_u16 d else Ok (0, d));
  Ok (Publish h topic mid d).

Definition decode_mid (mk : N -> packet) (d : bytes) : res merr packet :=
  do (mid, _) <- r_u16 d; Ok (mk mid).

(* the tuple loops: [for bookmark < maxlen]; fuel = remaining length, each round consumes >= 2 *)
Fixpoint dec_subs (fuel : nat) (d : bytes) : res merr (list (bytes * N)) :=
  match d with
  | [] => Ok []
  | _ => match fuel with
         | O => Panic
         | S f =>
           do (t, d) <- r_str d;
           do (q, d) <- r_u8 d;
           do rest <- dec_subs f d;
           Ok ((t, q) :: rest)
         end
  end.

Fixpoint dec_topics (fuel : nat) (d : bytes) : res merr (list bytes) :=
  match d with
  | [] => Ok []
  | _ => match fuel with
         | O => Panic
         | S f =>
           do (t, d) <- r_str d;
           do rest <- dec_topics f d;
           Ok (t :: rest)
         end
  end.

Definition decode_subscribe (d : bytes) (h : hdr) : res merr packet :=
  do (mid, d) <- r_u16 d;
  do subs <- dec_subs (length d) d;
  Ok (Subscribe h mid subs).

Definition decode_suback (d : bytes) : res merr packet :=
  do (mid, d) <- r_u16 d; Ok (Suback mid d).

Definition decode_unsubscribe (d : bytes) (h : hdr) : res merr packet :=
  do (mid, d) <- r_u16 d;
  do ts <- dec_topics (length d) d;
  Ok (Unsubscribe h mid ts).

(* DecodePacket: returns the packet and the unread rest of the stream.  [max] is the
   configured maximum message size (int64 in Go; a non-negative number here). *)
Definition decode_packet (s : bytes) (max : N) : res merr (packet * bytes) :=
  match decode_header s with
  | None => Err EEOF
  | Some (h, size, mt, r) =>
    if mt =? 12 then Ok (Pingreq, r)
    else if mt =? 13 then Ok (Pingresp, r)
    else if mt =? 14 then Ok (Disconnect, r)
    else if max <? size then Err ETooLarge
    else if len r <? size then Err EEOF
    else
      let body := take size r in
      let rest := drop size r in
      do p <- (if mt =? 1 then decode_connect body
               else if mt =? 2 then decode_connack body
               else if mt =? 3 then decode_publish body h
               else if mt =? 4 then decode_mid Puback body
               else if mt =? 5 then decode_mid Pubrec body
               else if mt =? 6 then decode_mid (Pubrel h) body
               else if mt =? 7 then decode_mid Pubcomp body
               else if mt =? 8 then decode_subscribe body h
               else if mt =? 9 then decode_suback body
               else if mt =? 10 then decode_unsubscribe body h
               else if mt =? 11 then decode_mid Unsuback body
               else Err EInvalidType);
      Ok (p, rest)
  end.

(* ---- equality on packets (for the correspondence) ----------------------------------------- *)

Definition hdr_eqb (a b : hdr) : bool :=
  Bool.eqb (h_dup a) (h_dup b) && (h_qos a =? h_qos b) && Bool.eqb (h_retain a) (h_retain b).

Definition packet_eqb (a b : packet) : bool :=
  match a, b with
  | Connect p1 v1 u1 pf1 wr1 wq1 wf1 c1 k1 ci1 wt1 wm1 un1 pw1,
    Connect p2 v2 u2 pf2 wr2 wq2 wf2 c2 k2 ci2 wt2 wm2 un2 pw2 =>
    bytes_eqb p1 p2 && (v1 =? v2) && Bool.eqb u1 u2 && Bool.eqb pf1 pf2 && Bool.eqb wr1 wr2
    && (wq1 =? wq2) && Bool.eqb wf1 wf2 && Bool.eqb c1 c2 && (k1 =? k2) && bytes_eqb ci1 ci2
    && bytes_eqb wt1 wt2 && bytes_eqb wm1 wm2 && bytes_eqb un1 un2 && bytes_eqb pw1 pw2
  | Connack a, Connack b => a =? b
  | Publish h1 t1 m1 p1, Publish h2 t2 m2 p2 =>
    hdr_eqb h1 h2 && bytes_eqb t1 t2 && (m1 =? m2) && bytes_eqb p1 p2
  | Puback a, Puback b => a =? b
  | Pubrec a, Pubrec b => a =? b
  | Pubrel h1 a, Pubrel h2 b => hdr_eqb h1 h2 && (a =? b)
  | Pubcomp a, Pubcomp b => a =? b
  | Subscribe h1 m1 s1, Subscribe h2 m2 s2 =>
    hdr_eqb h1 h2 && (m1 =? m2)
    && list_eqb (fun x y => bytes_eqb (fst x) (fst y) && (snd x =? snd y)) s1 s2
  | Suback m1 q1, Suback m2 q2 => (m1 =? m2) && bytes_eqb q1 q2
  | Unsubscribe h1 m1 t1, Unsubscribe h2 m2 t2 =>
    hdr_eqb h1 h2 && (m1 =? m2) && list_eqb bytes_eqb t1 t2
  | Unsuback a, Unsuback b => a =? b
  | Pingreq, Pingreq => true
  | Pingresp, Pingresp => true
  | Disconnect, Disconnect => true
  | _, _ => false
  end.

Definition merr_eqb (a b : merr) : bool :=
  match a, b with
  | EEOF, EEOF | ETooLarge, ETooLarge | EBadPacket, EBadPacket | EInvalidType, EInvalidType => true
  | _, _ => false
  end.

Definition res_eqb {A} (eq : A -> A -> bool) (a b : res merr A) : bool :=
  match a, b with
  | Ok x, Ok y => eq x y
  | Err x, Err y => merr_eqb x y
  | Panic, Panic => true
  | _, _ => false
  end.
