(* C05, the composition: see the header of Proofs/ClusterLinks.v.  This file: what one merge does to
   the member list, the ghost state, the invariant and its preservation by every step. *)
From stdpp Require Import gmap.
From Coq Require Import ZArith List Lia.
From Emitter Require Import Model.Lww Model.Sender Model.Cluster Model.ClusterSched Proofs.LwwProofs Proofs.ClusterProofs Proofs.ClusterLinks.
Import ListNotations.
Local Open Scope N_scope.

(* ---- one broker ---- *)
Lemma find_peer_fields b p :
  bk_name (find_peer b p) = bk_name b /\ bk_state (find_peer b p) = bk_state b /\ bk_local (find_peer b p) = bk_local b.
Proof.
  unfold find_peer. destruct (member_get (bk_members b) p); [auto|].
  destruct (fold_left _ _ _) as [c r]. auto.
Qed.

Lemma find_peer_member b p q :
  member_get (bk_members (find_peer b p)) q = None -> q <> p /\ member_get (bk_members b) q = None.
Proof.
  unfold find_peer. destruct (member_get (bk_members b) p) as [c|] eqn:G.
  - intros H. split; [intros ->; congruence | exact H].
  - destruct (fold_left _ _ _) as [c r]. cbn [bk_members]. rewrite member_get_set.
    destruct (p =? q) eqn:E; [discriminate|]. apply N.eqb_neq in E. intros H. split; [intros ->; apply E; reflexivity | exact H].
Qed.

Lemma merge_entry_effect_fields st0 acc k :
  bk_name (fst (merge_entry_effect st0 acc k)) = bk_name (fst acc)
  /\ bk_state (fst (merge_entry_effect st0 acc k)) = bk_state (fst acc).
Proof.
  destruct acc as [b fresh]. unfold merge_entry_effect. destruct (k_peer k =? bk_name b); [auto|].
  destruct (member_get (bk_members b) (k_peer k)) as [c0|] eqn:G.
  - destruct (existsb (N.eqb (k_peer k)) fresh); [auto|].
    destruct (if negb (is_added (fetch st0 k)) && is_added (fetch (bk_state b) k) then cnt_inc c0 (k_ssid k) else (c0, false)) as [c1 first].
    destruct (if is_added (fetch st0 k) && negb (is_added (fetch (bk_state b) k)) then cnt_dec c1 (k_ssid k) else (c1, false)) as [c2 last]. auto.
  - cbn [fst]. destruct (find_peer_fields b (k_peer k)) as (A & B & _). auto.
Qed.

(* members are never dropped by a merge, and the peer of every visited key is one afterwards *)
Lemma merge_entry_effect_member st0 acc k q :
  member_get (bk_members (fst (merge_entry_effect st0 acc k))) q = None ->
  member_get (bk_members (fst acc)) q = None /\ (k_peer k = q -> q = bk_name (fst acc)).
Proof.
  destruct acc as [b fresh]. unfold merge_entry_effect. cbn [fst]. destruct (k_peer k =? bk_name b) eqn:En.
  - apply N.eqb_eq in En. cbn [fst]. intros H. split; [exact H | intros <-; exact En].
  - destruct (member_get (bk_members b) (k_peer k)) as [c0|] eqn:G.
    + destruct (existsb (N.eqb (k_peer k)) fresh).
      * cbn [fst]. intros H. split; [exact H | intros <-; congruence].
      * destruct (if negb (is_added (fetch st0 k)) && is_added (fetch (bk_state b) k) then cnt_inc c0 (k_ssid k) else (c0, false)) as [c1 first].
        destruct (if is_added (fetch st0 k) && negb (is_added (fetch (bk_state b) k)) then cnt_dec c1 (k_ssid k) else (c1, false)) as [c2 last].
        cbn [fst bk_members]. rewrite member_get_set. destruct (k_peer k =? q) eqn:E; [discriminate|].
        apply N.eqb_neq in E. intros H. split; [exact H | intros X; contradiction].
    + cbn [fst]. intros H. apply find_peer_member in H. destruct H as [H1 H2]. split; [exact H2 | intros X; exfalso; apply H1; symmetry; exact X].
Qed.

Lemma swarm_merge_fields b payload :
  bk_name (fst (swarm_merge b payload)) = bk_name b
  /\ bk_state (fst (swarm_merge b payload)) = lww_merge (bk_state b) payload.
Proof.
  unfold swarm_merge, state_merge. destruct (decide (lww_delta (bk_state b) payload = ∅)); cbn [fst]; [auto|].
  set (b0 := BK (bk_name b) (lww_merge (bk_state b) payload) (bk_members b) (bk_remote b) (bk_local b)).
  assert (forall (l : list (N * entry)) (acc : broker * list N),
             bk_name (fst (fold_left (fun acc ke => merge_entry_effect (bk_state b) acc (fst ke)) l acc)) = bk_name (fst acc)
             /\ bk_state (fst (fold_left (fun acc ke => merge_entry_effect (bk_state b) acc (fst ke)) l acc)) = bk_state (fst acc)) as F.
  { induction l as [|x l IH]; intros acc; cbn [fold_left]; [auto|]. destruct (IH (merge_entry_effect (bk_state b) acc (fst x))) as [A B].
    destruct (merge_entry_effect_fields (bk_state b) acc (fst x)) as [C D]. rewrite A, B. auto. }
  destruct (F (map_to_list (lww_delta (bk_state b) payload)) (b0, [])) as [A B]. rewrite A, B. auto.
Qed.

Lemma swarm_merge_member b payload q : q <> bk_name b -> nonneg (bk_state b) ->
  member_get (bk_members (fst (swarm_merge b payload))) q = None ->
  member_get (bk_members b) q = None
  /\ forall k, k_peer k = q -> status (lww_merge (bk_state b) payload) k = status (bk_state b) k.
Proof.
  intros Hq Hn. unfold swarm_merge, state_merge. set (delta := lww_delta (bk_state b) payload).
  destruct (decide (delta = ∅)) as [Emp|Ne]; cbn [fst].
  - cbn [bk_members]. intros H. split; [exact H|]. intros k _. apply status_unchanged; [exact Hn|]. fold delta. rewrite Emp. apply lookup_empty.
  - set (b0 := BK (bk_name b) (lww_merge (bk_state b) payload) (bk_members b) (bk_remote b) (bk_local b)).
    assert (forall (l : list (N * entry)) (acc : broker * list N), bk_name (fst acc) = bk_name b ->
               member_get (bk_members (fst (fold_left (fun acc ke => merge_entry_effect (bk_state b) acc (fst ke)) l acc))) q = None ->
               member_get (bk_members (fst acc)) q = None /\ forall ke, In ke l -> k_peer (fst ke) <> q) as F.
    { induction l as [|x l IH]; intros acc Hname; cbn [fold_left]; [intros H; split; [exact H | intros ke []]|].
      intros H. destruct (IH (merge_entry_effect (bk_state b) acc (fst x))) as [A B].
      - rewrite (proj1 (merge_entry_effect_fields (bk_state b) acc (fst x))). exact Hname.
      - exact H.
      - apply merge_entry_effect_member in A. destruct A as [A1 A2]. split; [exact A1|].
        intros ke [<-|Hin]; [|apply B; exact Hin]. intros X. apply Hq. rewrite <- Hname. apply A2. exact X. }
    intros H. destruct (F (map_to_list delta) (b0, []) eq_refl H) as [A B]. split; [exact A|].
    intros k Hk. apply status_unchanged; [exact Hn|]. fold delta. destruct (delta !! k) as [e|] eqn:D; [|reflexivity].
    exfalso. apply (B (k, e)); [|exact Hk]. apply elem_of_list_In, elem_of_map_to_list. exact D.
Qed.

Lemma peer_offline_fields b p t :
  bk_name (peer_offline b p t) = bk_name b /\ bk_state (peer_offline b p t) = bk_state b /\ bk_local (peer_offline b p t) = bk_local b.
Proof. unfold peer_offline. destruct (member_get (bk_members b) p); auto. Qed.

Lemma peer_offline_member b p t q : q <> p ->
  member_get (bk_members (peer_offline b p t)) q = member_get (bk_members b) q.
Proof.
  intros H. unfold peer_offline. destruct (member_get (bk_members b) p); [|reflexivity]. cbn [bk_members].
  apply member_get_del. intros E. apply H. symmetry. exact E.
Qed.

(* OWN only looks at the broker's name, its local subscriptions and the status of its own entries *)
Lemma OWN_ext b b' : bk_name b' = bk_name b -> bk_local b' = bk_local b ->
  (forall k, k_peer k = bk_name b -> status (bk_state b') k = status (bk_state b) k) -> OWN b -> OWN b'.
Proof.
  intros En El Es [Ho Hb]. split.
  - intros k Hk. rewrite En in Hk. rewrite (Es k Hk), El. apply Ho. exact Hk.
  - rewrite El. exact Hb.
Qed.

Lemma status_times st st' k : times st' k = times st k -> status st' k = status st k.
Proof. rewrite !times_eq. intros E. injection E as E1 E2. unfold status, is_added. unfold tadd, tdel in *. rewrite E1, E2. reflexivity. Qed.

(* schedules: well-formed events on brokers of the cluster, strictly increasing clock readings per
   broker *)
Definition ev_ok (ns : list N) (g : ghost) (e : ev) : Prop :=
  wf_ev e /\
  match e with
  | ESub b _ _ t | EUnsub b _ _ t => In b ns /\ (g_clk g b < t)%Z
  | EOffline b p _ => In b ns /\ In p ns
  | EOnline a b => In a ns /\ In b ns
  | _ => True
  end.
Fixpoint sched_ok (ns : list N) (g : ghost) (es : list ev) : Prop :=
  match es with
  | [] => True
  | e :: r => ev_ok ns g e /\ sched_ok ns (gstep g e) r
  end.

(* ---- the invariant ---- *)
Definition bc_add (l : link) (k : N) : Z := match l_bcast l with Some r => tadd r k | None => 0 end.
Definition bc_del (l : link) (k : N) : Z := match l_bcast l with Some r => tdel r k | None => 0 end.
Definition go_add (from : replica) (l : link) (k : N) : Z :=
  match l_gossip l with GData r => tadd r k | GLive => tadd from k | GNone => 0 end.
Definition go_del (from : replica) (l : link) (k : N) : Z :=
  match l_gossip l with GData r => tdel r k | GLive => tdel from k | GNone => 0 end.
(* what o knows about k is at y or on the way to y *)
Definition cov_link (w : world) (o y : N) (l : link) (k : N) : Prop :=
  (tadd (S w o) k <= Z.max (tadd (S w y) k) (Z.max (bc_add l k) (go_add (S w o) l k)))%Z
  /\ (tdel (S w o) k <= Z.max (tdel (S w y) k) (Z.max (bc_del l k) (go_del (S w o) l k)))%Z.
Definition slot_has (l : link) (r : replica) : Prop := l_bcast l = Some r \/ l_gossip l = GData r.
Definition payload_ok (w : world) (r : replica) : Prop := nonneg r /\ forall k, le_at r (S w (k_peer k)) k.

Record CONV (ns : list N) (w : world) (g : ghost) : Prop := {
  c_names : names w = ns;
  c_links : forall a b, has_link w a b = true <-> In a ns /\ In b ns /\ a <> b;
  c_winv : WINV w;
  c_slots : forall a b r, slot_has (get_link w a b) r -> payload_ok w r;
  c_i1 : forall n k, le_at (S w n) (S w (k_peer k)) k;
  c_i2 : forall o y, In o ns -> In y ns -> o <> y -> g_up g o y = true ->
                     forall k, k_peer k = o -> cov_link w o y (get_link w o y) k;
  c_clk : forall n, (0 <= g_clk g n)%Z /\ forall k, k_peer k = n -> (tadd (S w n) k <= g_clk g n)%Z /\ (tdel (S w n) k <= g_clk g n)%Z;
  c_own : forall n, OWN (get_broker w n);
  c_mem : forall b p, In b ns -> b <> p -> g_up g b p = true -> member_get (bk_members (get_broker w b)) p = None ->
                      forall k, k_peer k = p -> status (S w b) k = false
}.

Definition weq (w w' : world) : Prop := w_brokers w' = w_brokers w /\ w_links w' = w_links w.

Lemma CONV_weq ns w w' g : weq w w' -> CONV ns w g -> CONV ns w' g.
Proof.
  intros [Eb El] C.
  assert (forall n, get_broker w' n = get_broker w n) as GB by (intros; apply get_broker_ext; exact Eb).
  assert (forall a b, get_link w' a b = get_link w a b) as GL by (intros; apply get_link_ext; exact El).
  assert (forall n, S w' n = S w n) as GS by (intros n; unfold S; rewrite GB; reflexivity).
  constructor.
  - rewrite (names_ext w w' Eb). apply C.
  - intros a b. rewrite (has_link_ext w w' a b El). apply C.
  - eapply WINV_links; [exact Eb | apply C].
  - intros a b r. rewrite GL. intros H. destruct (c_slots _ _ _ C a b r H) as [A B]. split; [exact A|]. intros k. rewrite GS. apply B.
  - intros n k. rewrite !GS. apply C.
  - intros o y Ho Hy Hn Hu k Hk. rewrite GL. unfold cov_link. rewrite !GS. apply (c_i2 _ _ _ C o y Ho Hy Hn Hu k Hk).
  - intros n. destruct (c_clk _ _ _ C n) as [A B]. split; [exact A|]. intros k Hk. rewrite GS. apply B. exact Hk.
  - intros n. rewrite GB. apply C.
  - intros b p Hb Hn Hu. rewrite GB, GS. apply (c_mem _ _ _ C b p Hb Hn Hu).
Qed.

Lemma CONV_world0 ns : CONV ns (world0 ns) ghost0.
Proof.
  assert (forall n, get_broker (world0 ns) n = broker0 n) as GB.
  { intros n. unfold get_broker, world0. cbn [w_brokers]. induction ns as [|x r IH]; cbn [map find]; [reflexivity|].
    cbn [broker0 bk_name]. destruct (x =? n) eqn:E; [apply N.eqb_eq in E; subst; reflexivity | exact IH]. }
  assert (forall n, S (world0 ns) n = ∅) as GS by (intros n; unfold S; rewrite GB; reflexivity).
  assert (forall a b, get_link (world0 ns) a b = LK a b GNone None) as GL.
  { intros a b. unfold get_link. destruct (find _ _) as [l|] eqn:F; [|reflexivity]. apply find_some in F. destruct F as [Hin F].
    apply andb_prop in F. destruct F as [F1 F2]. apply N.eqb_eq in F1, F2.
    unfold world0 in Hin. cbn [w_links] in Hin. apply in_flat_map in Hin. destruct Hin as (x & _ & Hl). apply in_map_iff in Hl.
    destruct Hl as (y & <- & _). cbn in F1, F2. subst. reflexivity. }
  constructor.
  - unfold names, world0. cbn [w_brokers]. rewrite map_map. cbn. apply map_id.
  - intros a b. split; [apply has_link_world0_inv | intros (A & B & C); apply has_link_world0; assumption].
  - apply WINV_world0.
  - intros a b r. rewrite GL. intros [H|H]; discriminate.
  - intros n k. rewrite !GS. apply le_refl.
  - intros o y _ _ _ _ k _. rewrite GL. unfold cov_link. rewrite !GS. cbn. split; reflexivity.
  - intros n. split; [cbn; lia|]. intros k _. rewrite GS. cbn. split; reflexivity.
  - intros n. rewrite GB. split; [|intros s c []]. intros k _. cbn. split; [discriminate | intros []].
  - intros b p _ _ _ _ k _. rewrite GS. reflexivity.
Qed.

(* ---- primitive transformations that keep the invariant ---- *)
Lemma in_names_existsb w n : In n (names w) -> existsb (N.eqb n) (names w) = true.
Proof. apply existsb_eqb_in. Qed.

Lemma tadd_times st st' k : times st' k = times st k -> tadd st' k = tadd st k /\ tdel st' k = tdel st k.
Proof. rewrite !times_eq. intros E. injection E as E1 E2. auto. Qed.

(* a broker absorbs a payload that says nothing its owners do not know *)
Lemma CONV_merge ns w g b P : CONV ns w g -> In b ns -> payload_ok w P ->
  CONV ns (set_broker w (fst (swarm_merge (get_broker w b) P))) g.
Proof.
  intros C Hb [Pn Pl]. set (b' := fst (swarm_merge (get_broker w b) P)). set (w' := set_broker w b').
  pose proof (c_winv _ _ _ C) as WI. destruct (WI b) as [[Hnn Hinv] Hname].
  destruct (swarm_merge_fields (get_broker w b) P) as [Fn Fs]. fold b' in Fn, Fs. rewrite Hname in Fn.
  assert (forall n, get_broker w' n = if b =? n then b' else get_broker w n) as GB.
  { intros n. unfold w'. rewrite get_broker_set_eq, Fn. destruct (b =? n) eqn:E; [|reflexivity].
    apply N.eqb_eq in E. subst n. rewrite in_names_existsb; [reflexivity|]. rewrite (c_names _ _ _ C). exact Hb. }
  assert (forall n, S w' n = if b =? n then lww_merge (S w b) P else S w n) as GS.
  { intros n. unfold S at 1. rewrite GB. destruct (b =? n); [exact Fs | reflexivity]. }
  assert (forall a c, get_link w' a c = get_link w a c) as GL by reflexivity.
  assert (forall n k, le_at (S w n) (S w' n) k) as Grow.
  { intros n k. rewrite GS. destruct (b =? n) eqn:E; [|apply le_refl]. apply N.eqb_eq in E. subst n. apply merge_le_l. exact Hnn. }
  assert (forall n k, k_peer k = n -> times (S w' n) k = times (S w n) k) as OwnK.
  { intros n k Hk. rewrite GS. destruct (b =? n) eqn:E; [|reflexivity]. apply N.eqb_eq in E.
    rewrite <- E in *. apply merge_absorb; [exact Hnn|]. pose proof (Pl k) as X. rewrite Hk in X. exact X. }
  constructor.
  - unfold w'. rewrite names_set_broker. apply C.
  - intros a c. apply (c_links _ _ _ C).
  - apply WINV_set; [exact WI|]. apply swarm_merge_INV. split; assumption.
  - intros a c r. rewrite GL. intros H. destruct (c_slots _ _ _ C a c r H) as [A B]. split; [exact A|].
    intros k. eapply le_trans; [apply B | apply Grow].
  - intros n k. eapply le_trans; [|apply Grow]. rewrite GS. destruct (b =? n) eqn:E; [|apply C].
    apply merge_lub; [exact Hnn | apply C | apply Pl].
  - intros o y Ho Hy Hn Hu k Hk. rewrite GL. destruct (c_i2 _ _ _ C o y Ho Hy Hn Hu k Hk) as [I1 I2].
    destruct (tadd_times _ _ k (OwnK o k Hk)) as [T1 T2]. destruct (Grow y k) as [G1 G2].
    unfold cov_link, go_add, go_del in *. rewrite T1, T2. split; lia.
  - intros n. destruct (c_clk _ _ _ C n) as [A B]. split; [exact A|]. intros k Hk.
    destruct (tadd_times _ _ k (OwnK n k Hk)) as [T1 T2]. rewrite T1, T2. apply B. exact Hk.
  - intros n. rewrite GB. destruct (b =? n) eqn:E; [|apply C]. apply N.eqb_eq in E. subst n.
    apply (OWN_ext (get_broker w b)); [rewrite Fn; symmetry; exact Hname | apply swarm_merge_local | | apply C].
    intros k Hk. rewrite Hname in Hk. apply status_times. rewrite Fs. specialize (OwnK b k Hk). rewrite GS, N.eqb_refl in OwnK. exact OwnK.
  - intros b0 p Hb0 Hn Hu. rewrite GB, GS. destruct (b =? b0) eqn:E; [|apply (c_mem _ _ _ C b0 p Hb0 Hn Hu)].
    apply N.eqb_eq in E. subst b0. intros Hm k Hk.
    destruct (swarm_merge_member (get_broker w b) P p) as [M1 M2]; [rewrite Hname; intros X; apply Hn; symmetry; exact X | exact Hnn | exact Hm|].
    change (bk_state (get_broker w b)) with (S w b) in M2. rewrite (M2 k Hk). apply (c_mem _ _ _ C b p Hb0 Hn Hu M1 k Hk).
Qed.

(* a link is rewritten: what it holds afterwards is fine, and (for a connected pair) it still covers
   what it covered *)
Lemma CONV_link_op ns w g T a b G : link_op T a b G -> CONV ns w g ->
  let l := get_link w a b in
  ((forall r, slot_has l r -> payload_ok w r) -> forall r, slot_has (G l) r -> payload_ok w r) ->
  ((forall r, slot_has l r -> nonneg r) -> g_up g a b = true ->
   forall k, k_peer k = a -> cov_link w a b l k -> cov_link w a b (G l) k) ->
  CONV ns (T w) g.
Proof.
  intros HT C l H1 H2. destruct (HT w) as (Eb & Hh & Hg).
  assert (forall n, get_broker (T w) n = get_broker w n) as GB by (intros; apply get_broker_ext; exact Eb).
  assert (forall n, S (T w) n = S w n) as GS by (intros n; unfold S; rewrite GB; reflexivity).
  assert (forall r, payload_ok w r -> payload_ok (T w) r) as PO.
  { intros r [A B]. split; [exact A|]. intros k. rewrite GS. apply B. }
  assert (forall r, slot_has l r -> payload_ok w r) as Old by (intros r; apply (c_slots _ _ _ C a b r)).
  constructor.
  - rewrite (names_ext w (T w) Eb). apply C.
  - intros a' b'. rewrite Hh. apply C.
  - eapply WINV_links; [exact Eb | apply C].
  - intros a' b' r. rewrite Hg. destruct ((a =? a') && (b =? b') && has_link w a b).
    + intros X. apply PO. apply H1; [exact Old | exact X].
    + intros X. apply PO. apply (c_slots _ _ _ C a' b' r X).
  - intros n k. rewrite !GS. apply C.
  - intros o y Ho Hy Hn Hu k Hk. rewrite Hg. unfold cov_link. rewrite !GS.
    pose proof (c_i2 _ _ _ C o y Ho Hy Hn Hu k Hk) as I.
    destruct ((a =? o) && (b =? y) && has_link w a b) eqn:E; [|exact I].
    apply andb_prop in E. destruct E as [E _]. apply andb_prop in E. destruct E as [E1 E2]. apply N.eqb_eq in E1, E2. rewrite <- E1, <- E2 in *.
    apply H2; [intros r X; apply (Old r X) | exact Hu | exact Hk | exact I].
  - intros n. destruct (c_clk _ _ _ C n) as [A B]. split; [exact A|]. intros k Hk. rewrite GS. apply B. exact Hk.
  - intros n. rewrite GB. apply C.
  - intros b0 p Hb Hn Hu. rewrite GB, GS. apply (c_mem _ _ _ C b0 p Hb Hn Hu).
Qed.

(* relaying / queueing a payload that is fine *)
Lemma CONV_send ns w g a b d : CONV ns w g -> payload_ok w d -> CONV ns (link_send w a b d) g.
Proof.
  intros C [Dn Dl]. apply (CONV_link_op ns w g (fun w => link_send w a b d) a b (send_fn a b d) (link_op_send a b d) C).
  - intros Old r [X|X]; [apply Old; left; exact X|]. unfold send_fn in X. cbn [l_gossip] in X.
    destruct (l_gossip (get_link w a b)) as [| |p] eqn:G; [injection X as <-; split; assumption | discriminate|].
    cbn [sender_send] in X. injection X as <-. destruct (Old p (or_intror G)) as [Pn Pl].
    split; [apply merge_nonneg; exact Pn|]. intros k. apply merge_lub; [exact Pn | apply Pl | apply Dl].
  - intros Old _ k _ [I1 I2]. unfold cov_link, send_fn, bc_add, bc_del, go_add, go_del in *. cbn [l_gossip l_bcast].
    destruct (l_gossip (get_link w a b)) as [| |p] eqn:G.
    + destruct (Dn k). split; lia.
    + split; assumption.
    + cbn [sender_send]. destruct (merge_le_l p d k (Old p (or_intror G))). split; lia.
Qed.

Lemma S_ext w w' n : w_brokers w' = w_brokers w -> S w' n = S w n.
Proof. intros E. unfold S. rewrite (get_broker_ext w w' n E). reflexivity. Qed.
Lemma payload_ok_ext w w' r : w_brokers w' = w_brokers w -> payload_ok w r -> payload_ok w' r.
Proof. intros E [A B]. split; [exact A|]. intros k. rewrite (S_ext w w' _ E). apply B. Qed.

Lemma CONV_sends ns g b d : forall l w, payload_ok w d -> CONV ns w g -> CONV ns (fold_left (fun acc p => link_send acc b p d) l w) g.
Proof.
  induction l as [|p l IH]; intros w Hd C; cbn [fold_left]; [exact C|].
  apply IH; [|apply CONV_send; assumption]. apply (payload_ok_ext w); [apply link_send_brokers | exact Hd].
Qed.

(* the complete state is queued: it covers everything *)
Lemma CONV_live ns w g a b : CONV ns w g -> CONV ns (link_send_live w a b) g.
Proof.
  intros C. apply (CONV_link_op ns w g (fun w => link_send_live w a b) a b (live_fn a b) (link_op_live a b) C).
  - intros Old r [X|X]; [apply Old; left; exact X | discriminate].
  - intros _ _ k _ _. unfold cov_link, live_fn, go_add, go_del. cbn [l_gossip]. split; lia.
Qed.

Lemma cov_live w a b k : has_link w a b = true -> cov_link (link_send_live w a b) a b (get_link (link_send_live w a b) a b) k.
Proof.
  intros H. destruct (link_op_live a b w) as (_ & _ & Hg). rewrite Hg, !N.eqb_refl, H. cbn [andb].
  unfold cov_link, live_fn, go_add, go_del. cbn [l_gossip]. split; lia.
Qed.

(* a link drops (part of) what it holds: harmless when the pair is not connected, or when the
   receiver has absorbed it *)
Lemma CONV_clear ns w g a b f : keeps_ends a b f -> CONV ns w g ->
  let l := get_link w a b in
  (forall r, slot_has (f l) r -> slot_has l r) ->
  (g_up g a b = true -> forall k, k_peer k = a -> cov_link w a b l k -> cov_link w a b (f l) k) ->
  CONV ns (upd_link w a b f) g.
Proof.
  intros Hf C l H1 H2. apply (CONV_link_op ns w g (fun w => upd_link w a b f) a b f (link_op_upd a b f Hf) C).
  - intros Old r X. apply Old. apply H1. exact X.
  - intros _. exact H2.
Qed.

(* ghost: a pair is declared separated *)
Lemma CONV_down ns w g a b : CONV ns w g -> CONV ns w (GH (set2 (g_up g) a b false) (g_clk g)).
Proof.
  intros C.
  assert (forall x y, set2 (g_up g) a b false x y = true -> g_up g x y = true) as U.
  { intros x y. unfold set2. destruct (_ || _); [discriminate | auto]. }
  constructor; try apply C.
  - intros o y Ho Hy Hn Hu. apply (c_i2 _ _ _ C o y Ho Hy Hn (U _ _ Hu)).
  - intros b0 p Hb Hn Hu. apply (c_mem _ _ _ C b0 p Hb Hn (U _ _ Hu)).
Qed.

(* ghost: a pair is declared connected again - both directions are covered and both are members *)
Lemma CONV_up ns w g a b : CONV ns w g ->
  (forall k, k_peer k = a -> cov_link w a b (get_link w a b) k) ->
  (forall k, k_peer k = b -> cov_link w b a (get_link w b a) k) ->
  member_get (bk_members (get_broker w a)) b <> None -> member_get (bk_members (get_broker w b)) a <> None ->
  CONV ns w (GH (set2 (g_up g) a b true) (g_clk g)).
Proof.
  intros C Cab Cba Mab Mba.
  assert (forall x y, set2 (g_up g) a b true x y = true -> (x = a /\ y = b) \/ (x = b /\ y = a) \/ g_up g x y = true) as U.
  { intros x y. unfold set2. destruct ((x =? a) && (y =? b)) eqn:E1.
    - apply andb_prop in E1. destruct E1 as [E1 E2]. apply N.eqb_eq in E1, E2. auto.
    - destruct ((x =? b) && (y =? a)) eqn:E2; cbn [orb]; [|auto].
      apply andb_prop in E2. destruct E2 as [E2 E3]. apply N.eqb_eq in E2, E3. auto. }
  constructor; try apply C.
  - intros o y Ho Hy Hn Hu. destruct (U _ _ Hu) as [[-> ->]|[[-> ->]|X]]; [exact Cab | exact Cba | apply (c_i2 _ _ _ C o y Ho Hy Hn X)].
  - intros b0 p Hb Hn Hu Hm. destruct (U _ _ Hu) as [[-> ->]|[[-> ->]|X]]; [contradiction | contradiction | apply (c_mem _ _ _ C b0 p Hb Hn X Hm)].
Qed.

(* a broker's member list / trie entries change, its state and local subscriptions do not *)
Lemma CONV_members ns w g b b' : CONV ns w g -> In b ns ->
  bk_name b' = b -> bk_state b' = S w b -> bk_local b' = bk_local (get_broker w b) -> INV b' ->
  (forall q, b <> q -> g_up g b q = true -> member_get (bk_members b') q = None -> member_get (bk_members (get_broker w b)) q = None) ->
  CONV ns (set_broker w b') g.
Proof.
  intros C Hb Fn Fs Fl Hinv Hm. set (w' := set_broker w b').
  pose proof (c_winv _ _ _ C) as WI. destruct (WI b) as [_ Hname].
  assert (forall n, get_broker w' n = if b =? n then b' else get_broker w n) as GB.
  { intros n. unfold w'. rewrite get_broker_set_eq, Fn. destruct (b =? n) eqn:E; [|reflexivity].
    apply N.eqb_eq in E. subst n. rewrite in_names_existsb; [reflexivity|]. rewrite (c_names _ _ _ C). exact Hb. }
  assert (forall n, S w' n = S w n) as GS.
  { intros n. unfold S at 1. rewrite GB. destruct (b =? n) eqn:E; [|reflexivity]. apply N.eqb_eq in E. subst n. exact Fs. }
  assert (forall a c, get_link w' a c = get_link w a c) as GL by reflexivity.
  constructor.
  - unfold w'. rewrite names_set_broker. apply C.
  - intros a c. apply (c_links _ _ _ C).
  - apply WINV_set; [exact WI | exact Hinv].
  - intros a c r. rewrite GL. intros H. destruct (c_slots _ _ _ C a c r H) as [A B]. split; [exact A|]. intros k. rewrite GS. apply B.
  - intros n k. rewrite !GS. apply C.
  - intros o y Ho Hy Hn Hu k Hk. rewrite GL. unfold cov_link. rewrite !GS. apply (c_i2 _ _ _ C o y Ho Hy Hn Hu k Hk).
  - intros n. destruct (c_clk _ _ _ C n) as [A B]. split; [exact A|]. intros k Hk. rewrite GS. apply B. exact Hk.
  - intros n. rewrite GB. destruct (b =? n) eqn:E; [|apply C]. apply N.eqb_eq in E. subst n.
    apply (OWN_ext (get_broker w b)); [rewrite Fn; symmetry; exact Hname | exact Fl | | apply C].
    intros k _. rewrite Fs. reflexivity.
  - intros b0 p Hb0 Hn Hu. rewrite GB, GS. destruct (b =? b0) eqn:E; [|apply (c_mem _ _ _ C b0 p Hb0 Hn Hu)].
    apply N.eqb_eq in E. subst b0. intros Hq. apply (c_mem _ _ _ C b p Hb Hn Hu). apply Hm; assumption.
Qed.

(* a client operation at broker b: the own entry k0 advances to the clock reading t, the operation is
   queued for every other broker *)
Lemma CONV_local ns w g b b' op t : List.NoDup ns -> CONV ns w g -> In b ns -> (g_clk g b < t)%Z ->
  bk_name b' = b -> bk_members b' = bk_members (get_broker w b) -> OWN b' -> INV b' ->
  (forall k, k_peer k <> b -> times (bk_state b') k = times (S w b) k) ->
  (forall k, le_at (S w b) (bk_state b') k) ->
  (forall k, k_peer k = b -> (tadd (bk_state b') k <= t)%Z /\ (tdel (bk_state b') k <= t)%Z) ->
  nonneg op -> (forall k, le_at op (bk_state b') k) ->
  (forall k, (tadd (bk_state b') k <= Z.max (tadd (S w b) k) (tadd op k))%Z /\ (tdel (bk_state b') k <= Z.max (tdel (S w b) k) (tdel op k))%Z) ->
  CONV ns (fold_left (fun acc p => link_bcast acc b p op) (others w b) (set_broker w b'))
       (GH (g_up g) (fun n => if n =? b then t else g_clk g n)).
Proof.
  intros ND C Hb Hclk Fn Fm Hown Hinv Hoth Hgrow Hle Opn Ople Hcov.
  set (w1 := set_broker w b'). set (w' := fold_left _ _ _).
  pose proof (c_winv _ _ _ C) as WI. destruct (WI b) as [[Hnn _] Hname].
  assert (List.NoDup (others w b)) as NDo by (unfold others; apply List.NoDup_filter; rewrite (c_names _ _ _ C); exact ND).
  destruct (fold_link_ops (fun acc p => link_bcast acc b p op) b (fun p => bcast_fn b p op)
              (fun p => link_op_bcast b p op) (others w b) NDo w1) as (Eb & Hh & Hg). fold w' in Eb, Hh, Hg.
  assert (forall n, get_broker w' n = if b =? n then b' else get_broker w n) as GB.
  { intros n. rewrite (get_broker_ext w1 w' n Eb). unfold w1. rewrite get_broker_set_eq, Fn. destruct (b =? n) eqn:E; [|reflexivity].
    apply N.eqb_eq in E. subst n. rewrite in_names_existsb; [reflexivity|]. rewrite (c_names _ _ _ C). exact Hb. }
  assert (forall n, S w' n = if b =? n then bk_state b' else S w n) as GS.
  { intros n. unfold S at 1. rewrite GB. destruct (b =? n); reflexivity. }
  assert (forall n k, le_at (S w n) (S w' n) k) as Grow.
  { intros n k. rewrite GS. destruct (b =? n) eqn:E; [|apply le_refl]. apply N.eqb_eq in E. subst n. apply Hgrow. }
  assert (forall a c, has_link w' a c = has_link w a c) as HL by (intros; rewrite Hh; reflexivity).
  assert (forall a c, get_link w' a c = if (b =? a) && existsb (N.eqb c) (others w b) && has_link w b c
                                        then bcast_fn b c op (get_link w b c) else get_link w a c) as GL.
  { intros a c. rewrite Hg. reflexivity. }
  assert (forall k, le_at op (S w' (k_peer k)) k) as OpOk.
  { intros k. rewrite GS. destruct (b =? k_peer k) eqn:E; [apply Ople|]. apply N.eqb_neq in E.
    destruct (Ople k) as [A B]. destruct (tadd_times _ _ k (Hoth k ltac:(intros X; apply E; symmetry; exact X))) as [T1 T2].
    destruct (c_i1 _ _ _ C b k) as [I1 I2]. split; lia. }
  assert (forall r, payload_ok w r -> payload_ok w' r) as PO.
  { intros r [A B]. split; [exact A|]. intros k. eapply le_trans; [apply B | apply Grow]. }
  constructor.
  - rewrite (names_ext w1 w' Eb). unfold w1. rewrite names_set_broker. apply C.
  - intros a c. rewrite HL. apply C.
  - eapply WINV_links; [exact Eb|]. apply WINV_set; [exact WI | exact Hinv].
  - intros a c r. rewrite GL. destruct ((b =? a) && existsb (N.eqb c) (others w b) && has_link w b c).
    + unfold bcast_fn. intros [X|X]; cbn [l_bcast l_gossip] in X.
      * destruct (l_bcast (get_link w b c)) as [p|] eqn:Bc; cbn [sender_send] in X; injection X as <-.
        -- destruct (c_slots _ _ _ C b c p (or_introl Bc)) as [Pn Pl]. split; [apply merge_nonneg; exact Pn|].
           intros k. apply merge_lub; [exact Pn | | apply OpOk]. eapply le_trans; [apply Pl | apply Grow].
        -- split; [exact Opn | exact OpOk].
      * apply PO. apply (c_slots _ _ _ C b c r). right. exact X.
    + intros X. apply PO. apply (c_slots _ _ _ C a c r X).
  - intros n k. rewrite GS. destruct (b =? n) eqn:E.
    + apply N.eqb_eq in E. subst n. rewrite GS. destruct (b =? k_peer k) eqn:E2; [apply le_refl|]. apply N.eqb_neq in E2.
      destruct (tadd_times _ _ k (Hoth k ltac:(intros X; apply E2; symmetry; exact X))) as [T1 T2].
      destruct (c_i1 _ _ _ C b k) as [I1 I2]. split; lia.
    + eapply le_trans; [apply C | apply Grow].
  - cbn [g_up]. intros o y Ho Hy Hn Hu k Hk. pose proof (c_i2 _ _ _ C o y Ho Hy Hn Hu k Hk) as [I1 I2].
    rewrite GL. destruct (Grow y k) as [Gy1 Gy2]. destruct (b =? o) eqn:E.
    + apply N.eqb_eq in E. rewrite <- E in *. clear E.
      assert (existsb (N.eqb y) (others w b) = true) as Hin.
      { apply existsb_eqb_in. unfold others. apply filter_In. rewrite (c_names _ _ _ C). split; [exact Hy|].
        apply negb_true_iff, N.eqb_neq. intros X. apply Hn. symmetry. exact X. }
      assert (has_link w b y = true) as Hl by (apply (c_links _ _ _ C); auto).
      rewrite Hin, Hl. cbn [andb]. destruct (Hcov k) as [V1 V2].
      unfold cov_link, bcast_fn, bc_add, bc_del, go_add, go_del in *. cbn [l_bcast l_gossip]. rewrite !GS, N.eqb_refl.
      assert ((b =? y) = false) as Eby by (apply N.eqb_neq; exact Hn). rewrite Eby. rewrite GS, Eby in Gy1, Gy2.
      destruct (Grow b k) as [Gb1 Gb2]. rewrite GS, N.eqb_refl in Gb1, Gb2.
      destruct (l_bcast (get_link w b y)) as [p|] eqn:Bc; cbn [sender_send].
      * destruct (c_slots _ _ _ C b y p (or_introl Bc)) as [Pn _]. destruct (merge_times p op k Pn) as [M1 M2]. rewrite M1, M2.
        destruct (l_gossip (get_link w b y)); split; lia.
      * destruct (Opn k). destruct (l_gossip (get_link w b y)); split; lia.
    + cbn [andb]. unfold cov_link, go_add, go_del in *. rewrite !GS, E. rewrite GS in Gy1, Gy2.
      destruct (l_gossip (get_link w o y)); split; lia.
  - cbn [g_clk]. intros n. destruct (c_clk _ _ _ C n) as [A B]. destruct (n =? b) eqn:E.
    + apply N.eqb_eq in E. subst n. split; [lia|]. intros k Hk. rewrite GS, N.eqb_refl. apply Hle. exact Hk.
    + split; [exact A|]. intros k Hk. rewrite GS, (N.eqb_sym b n), E. apply B. exact Hk.
  - intros n. rewrite GB. destruct (b =? n); [exact Hown | apply C].
  - cbn [g_up]. intros b0 p Hb0 Hn Hu. rewrite GB, GS. destruct (b =? b0) eqn:E; [|apply (c_mem _ _ _ C b0 p Hb0 Hn Hu)].
    apply N.eqb_eq in E. subst b0. rewrite Fm. intros Hq k Hk.
    rewrite (status_times (S w b) (bk_state b') k); [apply (c_mem _ _ _ C b p Hb Hn Hu Hq k Hk)|].
    apply Hoth. rewrite Hk. intros X. apply Hn. symmetry. exact X.
Qed.

(* ---- the client operations, as seen by CONV_local ---- *)
Lemma add_times st k v t k' :
  tadd (lww_add st k v t t) k' = (if decide (k = k') then (if (tadd st k <? t)%Z then t else tadd st k) else tadd st k')
  /\ tdel (lww_add st k v t t) k' = tdel st k'.
Proof.
  unfold lww_add, tadd, tdel. destruct (e_add (fetch st k) <? t)%Z eqn:E.
  - rewrite fetch_insert. destruct (decide (k = k')) as [->|]; cbn [e_add e_del]; auto.
  - destruct (decide (k = k')) as [->|]; auto.
Qed.
Lemma del_times st k t k' :
  tadd (lww_del st k t t) k' = tadd st k'
  /\ tdel (lww_del st k t t) k' = (if decide (k = k') then (if (tdel st k <? t)%Z then t else tdel st k) else tdel st k').
Proof.
  unfold lww_del, tadd, tdel. destruct (e_del (fetch st k) <? t)%Z eqn:E.
  - rewrite fetch_insert. destruct (decide (k = k')) as [->|]; cbn [e_add e_del]; auto.
  - destruct (decide (k = k')) as [->|]; auto.
Qed.
Lemma empty_times k : tadd (∅ : replica) k = 0%Z /\ tdel (∅ : replica) k = 0%Z.
Proof. split; reflexivity. Qed.

Lemma OWN_local_sub' (b : broker) conn ssid (t : Z) :
  conn < kbase -> ssid < kbase -> (0 < t)%Z ->
  (tadd (bk_state b) (mk_key (bk_name b) conn ssid) < t)%Z -> (tdel (bk_state b) (mk_key (bk_name b) conn ssid) < t)%Z ->
  OWN b -> OWN (fst (local_sub b conn ssid t)).
Proof.
  intros Hc Hs Ht Ca Cd [Ho Hb]. unfold local_sub. cbn [fst]. split; cbn [bk_name bk_state bk_local].
  - intros k Hk. destruct (key_parts (bk_name b) conn ssid Hc Hs) as (P1 & P2 & P3).
    unfold lww_add. unfold tadd, tdel in Ca, Cd.
    destruct (e_add (fetch (bk_state b) (mk_key (bk_name b) conn ssid)) <? t)%Z eqn:E; [|apply Z.ltb_ge in E; lia].
    rewrite in_set_add. destruct (N.eq_dec (mk_key (bk_name b) conn ssid) k) as [<-|Nk].
    + rewrite P2, P3. unfold status. rewrite fetch_insert. destruct (decide _) as [_|X]; [|contradiction].
      unfold is_added. cbn. destruct (t =? 0)%Z eqn:Z0; [apply Z.eqb_eq in Z0; lia|]. cbn.
      split; [intros _; right; reflexivity | intros _; apply Z.leb_le; lia].
    + rewrite status_insert_other by exact Nk. rewrite (Ho k Hk). split; [auto|]. intros [H|H]; [exact H|].
      exfalso. apply Nk. symmetry. apply own_key_eq; assumption.
  - intros s c H. apply in_set_add in H. destruct H as [H|H]; [apply (Hb s c H) | inversion H; subst; auto].
Qed.

Lemma OWN_local_unsub' (b : broker) conn ssid (t : Z) :
  conn < kbase -> ssid < kbase -> (0 < t)%Z ->
  (tadd (bk_state b) (mk_key (bk_name b) conn ssid) < t)%Z -> (tdel (bk_state b) (mk_key (bk_name b) conn ssid) < t)%Z ->
  OWN b -> OWN (fst (local_unsub b conn ssid t)).
Proof.
  intros Hc Hs Ht Ca Cd [Ho Hb]. unfold local_unsub. cbn [fst]. split; cbn [bk_name bk_state bk_local].
  - intros k Hk. destruct (key_parts (bk_name b) conn ssid Hc Hs) as (P1 & P2 & P3).
    unfold lww_del. unfold tadd, tdel in Ca, Cd.
    destruct (e_del (fetch (bk_state b) (mk_key (bk_name b) conn ssid)) <? t)%Z eqn:E; [|apply Z.ltb_ge in E; lia].
    rewrite in_set_del. destruct (N.eq_dec (mk_key (bk_name b) conn ssid) k) as [<-|Nk].
    + rewrite P2, P3. unfold status. rewrite fetch_insert. destruct (decide _) as [_|X]; [|contradiction].
      unfold is_added. cbn. split; [|intros [_ H]; exfalso; apply H; reflexivity].
      intros H. apply andb_prop in H. destruct H as [_ H]. apply Z.leb_le in H. lia.
    + rewrite status_insert_other by exact Nk. rewrite (Ho k Hk). split; [|intros [H _]; exact H]. intros H. split; [exact H|].
      intros E2. apply Nk. symmetry. apply own_key_eq; assumption.
  - intros s c H. apply in_set_del in H. destruct H as [H _]. apply (Hb s c H).
Qed.

Lemma CONV_sub ns w g b c s t : List.NoDup ns -> CONV ns w g -> ev_ok ns g (ESub b c s t) ->
  CONV ns (step w (ESub b c s t)) (gstep g (ESub b c s t)).
Proof.
  intros ND C [(Hc & Hs & Ht0) [Hb Hclk]]. cbn [step gstep].
  pose proof (c_winv _ _ _ C) as WI. destruct (WI b) as [Hinv Hname]. pose proof (proj1 Hinv) as Hnn.
  destruct (c_clk _ _ _ C b) as [Clk0 Clk].
  destruct (key_parts b c s Hc Hs) as (P1 & P2 & P3).
  set (k0 := mk_key b c s) in *.
  destruct (Clk k0 P1) as [Ca Cd].
  assert (0 < t)%Z as Ht by lia.
  destruct (local_sub (get_broker w b) c s t) as [b' op] eqn:E.
  assert (b' = fst (local_sub (get_broker w b) c s t)) as Eb by (rewrite E; reflexivity).
  assert (op = lww_add ∅ k0 [] t t) as Eo by (unfold local_sub in E; rewrite Hname in E; injection E as _ <-; reflexivity).
  assert (bk_state b' = lww_add (S w b) k0 [] t t) as Es by (unfold local_sub in E; rewrite Hname in E; injection E as <- _; reflexivity).
  assert (forall k, tadd (bk_state b') k = (if decide (k0 = k) then t else tadd (S w b) k) /\ tdel (bk_state b') k = tdel (S w b) k) as T.
  { intros k. rewrite Es. destruct (add_times (S w b) k0 [] t k) as [A B]. rewrite A, B. split; [|reflexivity].
    destruct (decide (k0 = k)); [|reflexivity]. destruct (tadd (S w b) k0 <? t)%Z eqn:X; [reflexivity | apply Z.ltb_ge in X; lia]. }
  assert (forall k, tadd op k = (if decide (k0 = k) then t else 0%Z) /\ tdel op k = 0%Z) as TO.
  { intros k. rewrite Eo. destruct (add_times ∅ k0 [] t k) as [A B]. rewrite A, B. destruct (empty_times k) as [-> ->]. split; [|reflexivity].
    destruct (decide (k0 = k)); [|reflexivity]. destruct (empty_times k0) as [-> _]. destruct (0 <? t)%Z eqn:X; [reflexivity | apply Z.ltb_ge in X; lia]. }
  apply (CONV_local ns w g b b' op t ND C Hb Hclk).
  - rewrite Eb. cbn. exact Hname.
  - rewrite Eb. reflexivity.
  - rewrite Eb. apply OWN_local_sub'; try assumption; [rewrite Hname; change (tadd (S w b) k0 < t)%Z; lia | rewrite Hname; change (tdel (S w b) k0 < t)%Z; lia | apply C].
  - rewrite Eb. apply INV_local_sub; assumption.
  - intros k Hk. rewrite !times_eq. destruct (T k) as [A B]. rewrite A, B. destruct (decide (k0 = k)) as [<-|]; [contradiction | reflexivity].
  - intros k. destruct (T k) as [A B]. split; [rewrite A | rewrite B; lia]. destruct (decide (k0 = k)) as [<-|]; lia.
  - intros k Hk. destruct (T k) as [A B]. destruct (Clk k Hk). rewrite A, B. destruct (decide (k0 = k)); split; lia.
  - rewrite Eo. apply add_nonneg; [apply nonneg_empty | lia].
  - intros k. destruct (T k) as [A B]. destruct (TO k) as [A' B']. destruct (Hnn k) as [N1 N2]. fold (S w b) in N1, N2. split; [rewrite A, A' | rewrite B, B'; exact N2].
    destruct (decide (k0 = k)); lia.
  - intros k. destruct (T k) as [A B]. destruct (TO k) as [A' B']. rewrite A, B, A', B'. destruct (decide (k0 = k)); split; lia.
Qed.

Lemma CONV_unsub ns w g b c s t : List.NoDup ns -> CONV ns w g -> ev_ok ns g (EUnsub b c s t) ->
  CONV ns (step w (EUnsub b c s t)) (gstep g (EUnsub b c s t)).
Proof.
  intros ND C [(Hc & Hs & Ht0) [Hb Hclk]]. cbn [step gstep].
  pose proof (c_winv _ _ _ C) as WI. destruct (WI b) as [Hinv Hname]. pose proof (proj1 Hinv) as Hnn.
  destruct (c_clk _ _ _ C b) as [Clk0 Clk].
  destruct (key_parts b c s Hc Hs) as (P1 & P2 & P3).
  set (k0 := mk_key b c s) in *.
  destruct (Clk k0 P1) as [Ca Cd].
  assert (0 < t)%Z as Ht by lia.
  destruct (local_unsub (get_broker w b) c s t) as [b' op] eqn:E.
  assert (b' = fst (local_unsub (get_broker w b) c s t)) as Eb by (rewrite E; reflexivity).
  assert (op = lww_del ∅ k0 t t) as Eo by (unfold local_unsub in E; rewrite Hname in E; injection E as _ <-; reflexivity).
  assert (bk_state b' = lww_del (S w b) k0 t t) as Es by (unfold local_unsub in E; rewrite Hname in E; injection E as <- _; reflexivity).
  assert (forall k, tadd (bk_state b') k = tadd (S w b) k /\ tdel (bk_state b') k = (if decide (k0 = k) then t else tdel (S w b) k)) as T.
  { intros k. rewrite Es. destruct (del_times (S w b) k0 t k) as [A B]. rewrite A, B. split; [reflexivity|].
    destruct (decide (k0 = k)); [|reflexivity]. destruct (tdel (S w b) k0 <? t)%Z eqn:X; [reflexivity | apply Z.ltb_ge in X; lia]. }
  assert (forall k, tadd op k = 0%Z /\ tdel op k = (if decide (k0 = k) then t else 0%Z)) as TO.
  { intros k. rewrite Eo. destruct (del_times ∅ k0 t k) as [A B]. rewrite A, B. destruct (empty_times k) as [-> ->]. split; [reflexivity|].
    destruct (decide (k0 = k)); [|reflexivity]. destruct (empty_times k0) as [_ ->]. destruct (0 <? t)%Z eqn:X; [reflexivity | apply Z.ltb_ge in X; lia]. }
  apply (CONV_local ns w g b b' op t ND C Hb Hclk).
  - rewrite Eb. cbn. exact Hname.
  - rewrite Eb. reflexivity.
  - rewrite Eb. apply OWN_local_unsub'; try assumption; [rewrite Hname; change (tadd (S w b) k0 < t)%Z; lia | rewrite Hname; change (tdel (S w b) k0 < t)%Z; lia | apply C].
  - rewrite Eb. apply INV_local_unsub; assumption.
  - intros k Hk. rewrite !times_eq. destruct (T k) as [A B]. rewrite A, B. destruct (decide (k0 = k)) as [<-|]; [contradiction | reflexivity].
  - intros k. destruct (T k) as [A B]. split; [rewrite A; lia | rewrite B]. destruct (decide (k0 = k)) as [<-|]; lia.
  - intros k Hk. destruct (T k) as [A B]. destruct (Clk k Hk). rewrite A, B. destruct (decide (k0 = k)); split; lia.
  - rewrite Eo. apply del_nonneg; [apply nonneg_empty | lia].
  - intros k. destruct (T k) as [A B]. destruct (TO k) as [A' B']. destruct (Hnn k) as [N1 N2]. fold (S w b) in N1, N2. split; [rewrite A, A'; exact N1 | rewrite B, B'].
    destruct (decide (k0 = k)); lia.
  - intros k. destruct (T k) as [A B]. destruct (TO k) as [A' B']. rewrite A, B, A', B'. destruct (decide (k0 = k)); split; lia.
Qed.

(* ---- deliveries ---- *)
Lemma weq_refl w : weq w w. Proof. split; reflexivity. Qed.
Lemma weq_trans w1 w2 w3 : weq w1 w2 -> weq w2 w3 -> weq w1 w3.
Proof. intros [A B] [C D]. split; congruence. Qed.

Lemma link_send_weq w w' a b d : weq w w' -> weq (link_send w a b d) (link_send w' a b d).
Proof.
  destruct w as [br lk f1 f2 f3 f4 f5], w' as [br' lk' g1 g2 g3 g4 g5]. intros [A B]. cbn in A, B. subst br' lk'.
  unfold link_send, get_link. cbn [w_links].
  destruct (l_gossip _) as [| |p]; split; reflexivity.
Qed.
Lemma fold_sends_weq b d : forall l w w', weq w w' ->
  weq (fold_left (fun acc p => link_send acc b p d) l w) (fold_left (fun acc p => link_send acc b p d) l w').
Proof. induction l as [|p l IH]; intros w w' H; cbn [fold_left]; [exact H|]. apply IH. apply link_send_weq. exact H. Qed.

Lemma S_set_broker w b b' n : In b (names w) -> bk_name b' = b ->
  S (set_broker w b') n = if b =? n then bk_state b' else S w n.
Proof.
  intros Hb Fn. unfold S at 1. rewrite get_broker_set_eq, Fn. destruct (b =? n) eqn:E; [|reflexivity].
  apply N.eqb_eq in E. subst n. rewrite in_names_existsb by exact Hb. reflexivity.
Qed.

Lemma swarm_merge_snd b P :
  snd (swarm_merge b P) = if decide (lww_delta (bk_state b) P = ∅) then None else Some (lww_delta (bk_state b) P).
Proof. unfold swarm_merge, state_merge. destruct (decide _); reflexivity. Qed.

Lemma CONV_deliver_bcast ns w g a b P : CONV ns w g -> has_link w a b = true ->
  l_gossip (get_link w a b) = GNone -> l_bcast (get_link w a b) = Some P ->
  CONV ns (upd_link (set_broker w (fst (swarm_merge (get_broker w b) P))) a b (fun _ => LK a b GNone None)) g.
Proof.
  intros C HL G Bc. apply (c_links _ _ _ C) in HL. destruct HL as (Ha & Hb & Hab).
  assert (payload_ok w P) as PO by (apply (c_slots _ _ _ C a b P); left; exact Bc).
  pose proof (CONV_merge ns w g b P C Hb PO) as C1.
  set (b' := fst (swarm_merge (get_broker w b) P)) in *. set (wm := set_broker w b') in *.
  destruct (swarm_merge_fields (get_broker w b) P) as [Fn Fs]. fold b' in Fn, Fs.
  destruct (c_winv _ _ _ C b) as [[Hnn _] Hname]. rewrite Hname in Fn.
  assert (forall n, S wm n = if b =? n then lww_merge (S w b) P else S w n) as GS.
  { intros n. unfold wm. rewrite (S_set_broker w b b' n); [|rewrite (c_names _ _ _ C); exact Hb | exact Fn]. rewrite Fs. reflexivity. }
  apply CONV_clear; [intros l; split; reflexivity | exact C1 | |].
  - intros r [X|X]; discriminate.
  - intros _ k Hk [I1 I2]. change (get_link wm a b) with (get_link w a b) in *.
    unfold cov_link, bc_add, bc_del, go_add, go_del in *. cbn [l_bcast l_gossip]. rewrite G, Bc in I1, I2.
    rewrite !GS in *. rewrite N.eqb_refl in *. assert ((b =? a) = false) as E by (apply N.eqb_neq; intros X; apply Hab; symmetry; exact X).
    rewrite E in *. destruct (merge_le_r (S w b) P k Hnn). split; lia.
Qed.

Lemma CONV_deliver_gossip ns w g a b P : CONV ns w g -> has_link w a b = true -> payload_ok w P ->
  (forall k, go_add (S w a) (get_link w a b) k = tadd P k /\ go_del (S w a) (get_link w a b) k = tdel P k) ->
  forall targets,
  CONV ns (let wc := upd_link (set_broker w (fst (swarm_merge (get_broker w b) P))) a b (fun l => LK a b GNone (l_bcast l)) in
           match snd (swarm_merge (get_broker w b) P) with
           | None => wc
           | Some delta => fold_left (fun acc p => link_send acc b p delta) targets wc
           end) g.
Proof.
  intros C HL PO HP targets. apply (c_links _ _ _ C) in HL. destruct HL as (Ha & Hb & Hab).
  pose proof (CONV_merge ns w g b P C Hb PO) as C1.
  set (b' := fst (swarm_merge (get_broker w b) P)) in *. set (wm := set_broker w b') in *.
  destruct (swarm_merge_fields (get_broker w b) P) as [Fn Fs]. fold b' in Fn, Fs.
  destruct (c_winv _ _ _ C b) as [[Hnn _] Hname]. rewrite Hname in Fn.
  assert (forall n, S wm n = if b =? n then lww_merge (S w b) P else S w n) as GS.
  { intros n. unfold wm. rewrite (S_set_broker w b b' n); [|rewrite (c_names _ _ _ C); exact Hb | exact Fn]. rewrite Fs. reflexivity. }
  assert ((b =? a) = false) as E by (apply N.eqb_neq; intros X; apply Hab; symmetry; exact X).
  assert (CONV ns (upd_link wm a b (fun l => LK a b GNone (l_bcast l))) g) as C2.
  { apply CONV_clear; [intros l; split; reflexivity | exact C1 | |].
    - intros r [X|X]; [left; exact X | discriminate].
    - intros _ k Hk [I1 I2]. change (get_link wm a b) with (get_link w a b) in *. destruct (HP k) as [HP1 HP2].
      unfold cov_link, bc_add, bc_del in *. rewrite !GS in *. rewrite N.eqb_refl in *. rewrite E in *. rewrite HP1 in I1. rewrite HP2 in I2.
      unfold go_add, go_del. cbn [l_bcast l_gossip]. destruct (merge_le_r (S w b) P k Hnn). split; lia. }
  cbv zeta. rewrite swarm_merge_snd. destruct (decide _) as [_|_]; [exact C2|].
  apply CONV_sends; [|exact C2]. change (bk_state (get_broker w b)) with (S w b).
  split; [apply delta_nonneg; exact Hnn|]. intros k.
  rewrite (S_ext wm (upd_link wm a b (fun l => LK a b GNone (l_bcast l))) _ eq_refl).
  eapply le_trans; [apply delta_le; exact Hnn|]. pose proof (c_i1 _ _ _ C1 b k) as X. rewrite (GS b), N.eqb_refl in X. exact X.
Qed.

Lemma CONV_deliver ns w g a b : CONV ns w g -> CONV ns (step w (EDeliver a b)) g.
Proof.
  intros C. cbn [step]. destruct (has_link w a b) eqn:HL.
  2: { rewrite (get_link_none w a b HL). cbn. exact C. }
  destruct (l_gossip (get_link w a b)) as [| |r] eqn:G.
  - destruct (l_bcast (get_link w a b)) as [P|] eqn:Bc; [|exact C].
    pose proof (CONV_deliver_bcast ns w g a b P C HL G Bc) as C2.
    change (get_broker (upd_link w a b (fun _ => LK a b GNone None)) b) with (get_broker w b).
    destruct (swarm_merge (get_broker w b) P) as [b' d] eqn:E. cbn [fst] in C2.
    eapply CONV_weq; [|exact C2]. split; reflexivity.
  - assert (payload_ok w (bk_state (get_broker w a))) as PO.
    { split; [apply (c_winv _ _ _ C a)|]. intros k. apply (c_i1 _ _ _ C a k). }
    change (get_broker (upd_link w a b (fun l => LK a b GNone (l_bcast l))) b) with (get_broker w b).
    assert (forall k, go_add (S w a) (get_link w a b) k = tadd (bk_state (get_broker w a)) k /\ go_del (S w a) (get_link w a b) k = tdel (bk_state (get_broker w a)) k) as HP.
    { intros k. unfold go_add, go_del. rewrite G. split; reflexivity. }
    set (w1 := upd_link w a b (fun l => LK a b GNone (l_bcast l))).
    pose proof (fun targets => CONV_deliver_gossip ns w g a b _ C HL PO HP targets) as C2. cbv zeta in C2.
    destruct (swarm_merge (get_broker w b) (bk_state (get_broker w a))) as [b' d] eqn:E. cbn [fst snd] in C2.
    destruct d as [delta|].
    + eapply CONV_weq; [|apply (C2 (filter (fun x => negb (x =? a)) (others (flag (set_broker w1 b') false false false (order_sensitive b delta) false) b)))].
      apply fold_sends_weq. split; reflexivity.
    + eapply CONV_weq; [|apply (C2 [])]. split; reflexivity.
  - assert (payload_ok w r) as PO by (apply (c_slots _ _ _ C a b r); right; exact G).
    change (get_broker (upd_link w a b (fun l => LK a b GNone (l_bcast l))) b) with (get_broker w b).
    assert (forall k, go_add (S w a) (get_link w a b) k = tadd r k /\ go_del (S w a) (get_link w a b) k = tdel r k) as HP.
    { intros k. unfold go_add, go_del. rewrite G. split; reflexivity. }
    set (w1 := upd_link w a b (fun l => LK a b GNone (l_bcast l))).
    pose proof (fun targets => CONV_deliver_gossip ns w g a b _ C HL PO HP targets) as C2. cbv zeta in C2.
    destruct (swarm_merge (get_broker w b) r) as [b' d] eqn:E. cbn [fst snd] in C2.
    destruct d as [delta|].
    + eapply CONV_weq; [|apply (C2 (filter (fun x => negb (x =? a)) (others (flag (set_broker w1 b') false false false (order_sensitive b delta) false) b)))].
      apply fold_sends_weq. split; reflexivity.
    + eapply CONV_weq; [|apply (C2 [])]. split; reflexivity.
Qed.

(* ---- peers collected and coming back ---- *)
Lemma set2_off (f : N -> N -> bool) a b : set2 f a b false a b = false /\ set2 f a b false b a = false.
Proof. unfold set2. rewrite !N.eqb_refl. cbn [andb orb]. rewrite orb_true_r. auto. Qed.

Lemma set2_other (f : N -> N -> bool) a b v x y : set2 f a b v x y = true -> v = false -> (x, y) <> (a, b) /\ (x, y) <> (b, a).
Proof.
  unfold set2. intros H ->. destruct (((x =? a) && (y =? b)) || ((x =? b) && (y =? a))) eqn:E; [discriminate|].
  apply orb_false_elim in E. destruct E as [E1 E2]. split; intros X; injection X as -> ->; rewrite !N.eqb_refl in *; discriminate.
Qed.

Lemma CONV_offline ns w g b p t : CONV ns w g -> ev_ok ns g (EOffline b p t) ->
  CONV ns (step w (EOffline b p t)) (gstep g (EOffline b p t)).
Proof.
  intros C [[Hpb Ht] [Hb Hp]]. cbn [step gstep].
  pose proof (CONV_down ns w g b p C) as Cd. set (g' := GH (set2 (g_up g) b p false) (g_clk g)) in *.
  destruct (c_winv _ _ _ C b) as [Hinv Hname].
  destruct (peer_offline_fields (get_broker w b) p t) as (Fn & Fs & Fl).
  assert (CONV ns (set_broker w (peer_offline (get_broker w b) p t)) g') as Cm.
  { apply (CONV_members ns w g' b); [exact Cd | exact Hb | rewrite Fn; exact Hname | exact Fs | exact Fl | |].
    - apply INV_peer_offline; [rewrite Hname; exact Hpb | exact Hinv].
    - intros q Hq Hu Hm. destruct (set2_other _ _ _ _ _ _ Hu eq_refl) as [X _].
      rewrite peer_offline_member in Hm; [exact Hm|]. intros ->. apply X. reflexivity. }
  set (w1 := set_broker w (peer_offline (get_broker w b) p t)) in *.
  destruct (set2_off (g_up g) b p) as [U1 U2].
  assert (CONV ns (upd_link w1 b p (fun _ => LK b p GNone None)) g') as C1.
  { apply CONV_clear; [intros l; split; reflexivity | exact Cm | |].
    - intros r [X|X]; discriminate.
    - cbn [g' g_up]. rewrite U1. discriminate. }
  assert (CONV ns (upd_link (upd_link w1 b p (fun _ => LK b p GNone None)) p b (fun _ => LK p b GNone None)) g') as C2.
  { apply CONV_clear; [intros l; split; reflexivity | exact C1 | |].
    - intros r [X|X]; discriminate.
    - cbn [g' g_up]. rewrite U2. discriminate. }
  eapply CONV_weq; [|exact C2]. split; reflexivity.
Qed.

Lemma find_peer_is_member b p : member_get (bk_members (find_peer b p)) p <> None.
Proof.
  unfold find_peer. destruct (member_get (bk_members b) p) as [c|] eqn:G; [congruence|].
  destruct (fold_left _ _ _) as [c r]. cbn [bk_members]. rewrite member_get_set, N.eqb_refl. discriminate.
Qed.

Lemma cov_glive w o y l k : l_gossip l = GLive -> cov_link w o y l k.
Proof. intros G. unfold cov_link, go_add, go_del. rewrite G. split; lia. Qed.

Lemma CONV_find_peer ns w g a b : CONV ns w g -> In a ns -> a <> b -> CONV ns (set_broker w (find_peer (get_broker w a) b)) g.
Proof.
  intros C Ha Hab. destruct (c_winv _ _ _ C a) as [Hinv Hname].
  destruct (find_peer_fields (get_broker w a) b) as (Fn & Fs & Fl).
  apply (CONV_members ns w g a); [exact C | exact Ha | rewrite Fn; exact Hname | exact Fs | exact Fl | |].
  - apply INV_find_peer; [rewrite Hname; intros X; apply Hab; symmetry; exact X | exact Hinv].
  - intros q _ _ Hm. apply find_peer_member in Hm. apply Hm.
Qed.

Lemma CONV_online ns w g a b : CONV ns w g -> ev_ok ns g (EOnline a b) ->
  CONV ns (step w (EOnline a b)) (gstep g (EOnline a b)).
Proof.
  intros C [Hab [Ha Hb]]. cbn [wf_ev] in Hab. cbn [step gstep].
  pose proof (CONV_find_peer ns w g a b C Ha Hab) as C1. set (w1 := set_broker w (find_peer (get_broker w a) b)) in *.
  assert (b <> a) as Hba by (intros X; apply Hab; symmetry; exact X).
  pose proof (CONV_find_peer ns w1 g b a C1 Hb Hba) as C2. set (w2 := set_broker w1 (find_peer (get_broker w1 b) a)) in *.
  pose proof (CONV_live ns w2 g a b C2) as C3. pose proof (CONV_live ns _ g b a C3) as C4.
  set (wf := link_send_live (link_send_live w2 a b) b a) in *.
  assert (has_link w2 a b = true /\ has_link w2 b a = true) as [L1 L2] by (split; apply (c_links _ _ _ C2); auto).
  destruct (link_op_live a b w2) as (Eb1 & Hh1 & Hg1). destruct (link_op_live b a (link_send_live w2 a b)) as (Eb2 & Hh2 & Hg2).
  fold wf in Eb2, Hh2, Hg2.
  assert (l_gossip (get_link wf a b) = GLive) as G1.
  { rewrite Hg2. assert ((b =? a) = false) as E by (apply N.eqb_neq; exact Hba). rewrite E. cbn [andb]. rewrite Hg1, !N.eqb_refl, L1. reflexivity. }
  assert (l_gossip (get_link wf b a) = GLive) as G2.
  { rewrite Hg2, !N.eqb_refl, Hh1, L2. reflexivity. }
  assert (forall n, get_broker wf n = get_broker w2 n) as GB.
  { intros n. rewrite (get_broker_ext _ wf n Eb2). apply get_broker_ext. exact Eb1. }
  destruct (c_winv _ _ _ C a) as [_ Hna]. destruct (c_winv _ _ _ C1 b) as [_ Hnb].
  destruct (find_peer_fields (get_broker w a) b) as (Fa & _ & _). destruct (find_peer_fields (get_broker w1 b) a) as (Fb & _ & _).
  assert (get_broker w1 a = find_peer (get_broker w a) b) as E1.
  { unfold w1. rewrite get_broker_set_eq, Fa, Hna, N.eqb_refl. rewrite in_names_existsb; [reflexivity | rewrite (c_names _ _ _ C); exact Ha]. }
  assert (get_broker w2 b = find_peer (get_broker w1 b) a) as E2.
  { unfold w2. rewrite get_broker_set_eq, Fb, Hnb, N.eqb_refl. rewrite in_names_existsb; [reflexivity | rewrite (c_names _ _ _ C1); exact Hb]. }
  assert (get_broker w2 a = get_broker w1 a) as E3.
  { unfold w2. rewrite get_broker_set_eq, Fb, Hnb. assert ((b =? a) = false) as E by (apply N.eqb_neq; exact Hba). rewrite E. reflexivity. }
  apply CONV_up; [exact C4 | intros k _; apply cov_glive; exact G1 | intros k _; apply cov_glive; exact G2 | |].
  - rewrite GB, E3, E1. apply find_peer_is_member.
  - rewrite GB, E2. apply find_peer_is_member.
Qed.

(* ---- every step, every schedule ---- *)
Theorem CONV_step ns w g e : List.NoDup ns -> CONV ns w g -> ev_ok ns g e -> CONV ns (step w e) (gstep g e).
Proof.
  intros ND C Hok. destruct e as [b c s t | b c s t | a b | a b | b p t | a b].
  - apply CONV_sub; assumption.
  - apply CONV_unsub; assumption.
  - apply CONV_deliver. exact C.
  - apply CONV_live. exact C.
  - apply CONV_offline; assumption.
  - apply CONV_online; assumption.
Qed.


Theorem CONV_run ns es : List.NoDup ns -> sched_ok ns ghost0 es -> CONV ns (run ns es) (grun es).
Proof.
  intros ND. unfold run, grun. generalize (CONV_world0 ns). generalize (world0 ns) ghost0.
  induction es as [|e es IH]; intros w g C Hs; cbn [fold_left]; [exact C|].
  destruct Hs as [He Hs]. apply IH; [apply CONV_step; assumption | exact Hs].
Qed.

(* ---- quiescence ---- *)
Definition all_up (ns : list N) (g : ghost) : Prop := forall a b, In a ns -> In b ns -> a <> b -> g_up g a b = true.

Lemma quiet_link w a b : quiet w = true -> has_link w a b = true ->
  l_gossip (get_link w a b) = GNone /\ l_bcast (get_link w a b) = None.
Proof.
  intros Q H. unfold quiet in Q. rewrite forallb_forall in Q. specialize (Q _ (get_link_in w a b H)).
  destruct (l_gossip (get_link w a b)), (l_bcast (get_link w a b)); try discriminate. auto.
Qed.

(* (1) convergence: all views hold the same times for every entry *)
Theorem quiescent_views_agree ns w g : CONV ns w g -> all_up ns g -> quiet w = true ->
  forall a b, In a ns -> In b ns -> forall k, times (S w a) k = times (S w b) k.
Proof.
  intros C Up Q.
  assert (forall y k, In y ns -> times (S w y) k = times (S w (k_peer k)) k) as Key.
  { intros y k Hy. rewrite !times_eq. destruct (c_i1 _ _ _ C y k) as [I1 I2].
    destruct (N.eq_dec y (k_peer k)) as [->|Hne]; [reflexivity|].
    destruct (in_dec N.eq_dec (k_peer k) ns) as [Ho|Ho].
    - assert (has_link w (k_peer k) y = true) as HL by (apply (c_links _ _ _ C); auto).
      destruct (quiet_link w _ _ Q HL) as [G B].
      destruct (c_i2 _ _ _ C (k_peer k) y Ho Hy ltac:(auto) (Up _ _ Ho Hy ltac:(auto)) k eq_refl) as [J1 J2].
      unfold bc_add, bc_del, go_add, go_del in J1, J2. rewrite G, B in J1, J2.
      destruct (proj1 (proj1 (c_winv _ _ _ C y)) k) as [N1 N2]. fold (S w y) in N1, N2. f_equal; lia.
    - assert (S w (k_peer k) = ∅) as E.
      { unfold S. rewrite get_broker_not_in; [reflexivity | rewrite (c_names _ _ _ C); exact Ho]. }
      rewrite E in *. destruct (empty_times k) as [E1 E2]. rewrite E1, E2 in *.
      destruct (proj1 (proj1 (c_winv _ _ _ C y)) k) as [N1 N2]. fold (S w y) in N1, N2. f_equal; lia. }
  intros a b Ha Hb k. rewrite (Key a k Ha), (Key b k Hb). reflexivity.
Qed.

(* (3) routing equals the ground truth *)
Theorem quiescent_routing_is_the_truth ns w g : CONV ns w g -> all_up ns g -> quiet w = true ->
  forall b p, In b ns -> In p ns -> b <> p ->
  forall s, In (s, p) (bk_remote (get_broker w b)) <-> exists conn, In (s, conn) (bk_local (get_broker w p)).
Proof.
  intros C Up Q b p Hb Hp Hbp s.
  pose proof (quiescent_views_agree ns w g C Up Q) as Agree.
  destruct (c_winv _ _ _ C b) as [Hib Hnb]. destruct (c_winv _ _ _ C p) as [Hip Hnp].
  pose proof (c_own _ _ _ C p) as Hop.
  assert (forall k, status (S w b) k = status (S w p) k) as St by (intros k; apply status_times; apply Agree; assumption).
  destruct (member_get (bk_members (get_broker w b)) p) as [cnt|] eqn:G.
  - rewrite <- Hnp at 1. apply (converged_routing_is_the_truth (get_broker w b) (get_broker w p) cnt Hib Hop).
    + rewrite Hnb, Hnp. intros X. apply Hbp. symmetry. exact X.
    + rewrite Hnp. exact G.
    + intros k _. apply St.
  - split.
    + intros H. exfalso. apply (no_route_without_member (get_broker w b) p Hib ltac:(rewrite Hnb; intros X; apply Hbp; symmetry; exact X) G s H).
    + intros (conn & Hin). exfalso. destruct Hop as [Ho Hbd]. destruct (Hbd s conn Hin) as [Bs Bc].
      destruct (key_parts p conn s Bc Bs) as (P1 & P2 & P3). set (k := mk_key p conn s) in *.
      assert (status (S w p) k = true) as T by (apply Ho; [rewrite Hnp; exact P1 | rewrite P2, P3; exact Hin]).
      rewrite <- St in T. rewrite (c_mem _ _ _ C b p Hb Hbp (Up _ _ Hb Hp Hbp) G k P1) in T. discriminate.
Qed.

(* the statements over schedules *)
Theorem schedules_converge ns es : List.NoDup ns -> sched_ok ns ghost0 es -> all_up ns (grun es) -> quiet (run ns es) = true ->
  (forall a b, In a ns -> In b ns -> forall k, times (S (run ns es) a) k = times (S (run ns es) b) k)
  /\ (forall b p, In b ns -> In p ns -> b <> p -> forall s,
        In (s, p) (bk_remote (get_broker (run ns es) b)) <-> exists conn, In (s, conn) (bk_local (get_broker (run ns es) p))).
Proof.
  intros ND Hs Up Q. pose proof (CONV_run ns es ND Hs) as C. split.
  - apply (quiescent_views_agree ns _ _ C Up Q).
  - apply (quiescent_routing_is_the_truth ns _ _ C Up Q).
Qed.
