//go:build verif

package cluster

import (
	"sync/atomic"

	"github.com/emitter-io/emitter/internal/event"
	"github.com/emitter-io/emitter/internal/message"
	"github.com/weaveworks/mesh"
)

// VerifNewPeer builds a Peer over the given sender without the 5 ms flush timer.
func VerifNewPeer(sender mesh.Gossip, name mesh.PeerName) *Peer {
	return &Peer{
		sender: sender,
		name:   name,
		frame:  message.NewFrame(defaultFrameSize),
		subs:   message.NewCounters(),
	}
}

// VerifFlush runs one round of the periodic queue flush.
func (p *Peer) VerifFlush() { p.processSendQueue() }

// VerifSetActivity sets the last-activity time of the peer.
func (p *Peer) VerifSetActivity(t int64) { atomic.StoreInt64(&p.activity, t) }

// VerifMaxByteFrameSize exposes the frame bound.
const VerifMaxByteFrameSize = maxByteFrameSize

// VerifState exposes the replicated state of the swarm.
func (s *Swarm) VerifState() *event.State { return s.state }

// VerifSetGossip replaces the sending side of the gossip layer (before any peer exists).
func (s *Swarm) VerifSetGossip(g mesh.Gossip) { s.gossip = g }

// VerifOffline runs what the gossip layer triggers when it collects an unreachable peer.
func (s *Swarm) VerifOffline(name mesh.PeerName) { s.onPeerOffline(name) }

// VerifCounter is one subscription counter of a member.
type VerifCounter struct {
	Peer  mesh.PeerName
	Ssid  message.Ssid
	Count int
}

// VerifMembers returns the member list with every member's subscription counters.
func (s *Swarm) VerifMembers() (names []mesh.PeerName, counters []VerifCounter) {
	s.members.list.Range(func(k, v interface{}) bool {
		p := v.(*Peer)
		names = append(names, p.name)
		for _, c := range p.subs.All() {
			counters = append(counters, VerifCounter{Peer: p.name, Ssid: c.Ssid, Count: c.Counter})
		}
		return true
	})
	return
}

// VerifFlushAll flushes the message frames queued for every member.
func (s *Swarm) VerifFlushAll() {
	s.members.list.Range(func(k, v interface{}) bool {
		v.(*Peer).processSendQueue()
		return true
	})
}

// VerifPayload wraps a state the way the swarm does before handing it to the gossip layer.
func VerifPayload(st *event.State, full bool) mesh.GossipData { return &payload{state: st, full: full} }

// VerifPeerSeen runs what the periodic update does for a peer the gossip layer knows.
func (s *Swarm) VerifPeerSeen(name mesh.PeerName) { s.peerSeen(name) }
