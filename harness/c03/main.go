// Harness for C03: key targets vs requested channels (SetTarget / ParseChannel / ValidateChannel)
// over the bounded grammar of the property, and Service.Authorize of a real broker service under
// each licence version (permission masks, expiry, contract identity).
package main

import (
	"context"
	"strings"
	"time"

	"github.com/emitter-io/emitter/internal/broker"
	"github.com/emitter-io/emitter/internal/config"
	"github.com/emitter-io/emitter/internal/provider/logging"
	"github.com/emitter-io/emitter/internal/security"
	"github.com/emitter-io/emitter/internal/security/license"
	"github.com/emitter-io/emitter/internal/zzverif/vlib"
)

var cfg *vlib.Config

type quiet struct{}

func (quiet) Name() string                                  { return "quiet" }
func (quiet) Configure(config map[string]interface{}) error { return nil }
func (quiet) Printf(format string, v ...interface{})        {}

// '#' is only meaningful as the final level ("#/" suffix, added by render): levels are a, b, c, +
var atoms = []string{"a", "b", "c", "+"}

// all level lists up to the given depth
func grammar(depth int) [][]string {
	out := [][]string{{}}
	frontier := [][]string{{}}
	for d := 0; d < depth; d++ {
		var next [][]string
		for _, p := range frontier {
			for _, a := range atoms {
				q := append(append([]string{}, p...), a)
				next = append(next, q)
			}
		}
		out = append(out, next...)
		frontier = next
	}
	return out
}

func render(parts []string, multi bool) string {
	s := ""
	for _, p := range parts {
		s += p + "/"
	}
	if multi {
		s += "#/"
	}
	return s
}

func stTerm(target string) (string, security.Key) {
	key := security.Key(make([]byte, 24))
	var err error
	p, _ := vlib.Catch(func() { err = key.SetTarget(target) })
	if p {
		return "Panic", key
	}
	if err == security.ErrTargetInvalid {
		return "(Err TargetInvalid)", key
	}
	if err == security.ErrTargetTooLong {
		return "(Err TargetTooLong)", key
	}
	path := uint64(key[12])<<16 | uint64(key[13])<<8 | uint64(key[14])
	h := uint64(key[16])<<24 | uint64(key[17])<<16 | uint64(key[18])<<8 | uint64(key[19])
	return vlib.App("Ok", vlib.Pair(vlib.N(path), vlib.N(h))), key
}

func validate(key security.Key, req string) bool {
	ch := security.ParseChannel([]byte("K/" + req))
	if ch.ChannelType == security.ChannelInvalid {
		return false
	}
	ok := false
	vlib.Catch(func() { ok = key.ValidateChannel(ch) })
	return ok
}

// licences whose contract carries signature 0 (an "unsigned" contract must still pin the key's signature)
func unsigned() []license.License {
	a := license.NewV1()
	a.Sign = 0
	b := license.NewV2()
	b.Sign = 0
	return []license.License{a, b}
}

func main() {
	cfg = vlib.ParseFlags()
	r := cfg.Rng
	sh := vlib.NewShards(cfg.Out, "C03", "From Emitter Require Import Lib.Base Model.MsgCodec Model.Channel Model.Cipher Model.Key Check.C03.", "case", "check", 100)

	g3 := grammar(3)
	g4 := grammar(4)
	// ---- A. key level ----
	var targets, requests []string
	for _, p := range g3 {
		if len(p) > 0 {
			targets = append(targets, render(p, false))
		}
		targets = append(targets, render(p, true))
		if len(p) > 0 {
			requests = append(requests, render(p, false))
			if len(p) < 3 {
				requests = append(requests, render(p, true))
			}
		}
	}
	for i := 0; i < 60; i++ { // depth-4 samples
		p := g4[len(g3)+r.Intn(len(g4)-len(g3))]
		targets = append(targets, render(p, r.Intn(2) == 0))
		requests = append(requests, render(p, false))
	}
	nA := 1200 * cfg.Mult
	exhaustive := cfg.Thorough()
	emit := func(t, q string) {
		st, key := stTerm(t)
		v := false
		if strings.HasPrefix(st, "(Ok") {
			v = validate(key, q)
		}
		sh.Add(vlib.App("CVal", vlib.Str(t), vlib.Str(q), st, vlib.Bool(v)),
			map[string]interface{}{"op": "validate", "target": t, "request": q}, "validate", true)
	}
	if exhaustive {
		for _, t := range targets {
			for _, q := range requests {
				emit(t, q)
			}
		}
	} else {
		for i := 0; i < nA; i++ {
			t := targets[r.Intn(len(targets))]
			q := requests[r.Intn(len(requests))]
			if r.Intn(3) == 0 { // a request derived from the target: literal levels kept, wildcards filled in, maybe extended
				tp := strings.Split(strings.TrimSuffix(strings.TrimSuffix(t, "#/"), "/"), "/")
				if tp[0] == "" {
					tp = nil
				}
				var qp []string
				for _, p := range tp {
					if p == "+" || p == "#" {
						qp = append(qp, atoms[r.Intn(4)])
					} else {
						qp = append(qp, p)
					}
				}
				for k := r.Intn(3); k > 0; k-- {
					qp = append(qp, atoms[r.Intn(4)])
				}
				if len(qp) > 0 {
					q = render(qp, r.Intn(6) == 0)
				}
			}
			emit(t, q)
		}
	}
	// malformed targets
	for _, t := range []string{"", "a", "a/b", "/", "//", "a//", "a/b#/", "x#/", "a/#b/", "a/b+/", "+b/", "#a/", "a/#/#/", "a/+/#/", "b#/#/", "a/b/c/d/e/f/g/h/i/j/k/l/m/n/o/p/q/r/s/t/u/v/w/", "a/b/c/d/e/f/g/h/i/j/k/l/m/n/o/p/q/r/s/t/u/v/w/x/", "a/b/c/d/e/f/g/h/i/j/k/l/m/n/o/p/q/r/s/t/u/v/w/x/#/"} {
		emit(t, "a/")
		emit(t, "a/b/")
		emit(t, "a/c/")
		emit(t, "x/")
	}

	// ---- B. Authorize through a real service, one per licence version ----
	now := time.Now().Unix()
	for _, lic := range append([]license.License{license.NewV1(), license.NewV2(), license.NewV3()}, unsigned()...) {
		c := config.NewDefault().(*config.Config)
		c.License = lic.String()
		c.Cluster = nil
		svc, err := broker.NewService(context.Background(), c)
		if err != nil {
			panic(err)
		}
		logging.Logger = quiet{}
		cipher, _ := lic.Cipher()
		nB := 200 * cfg.Mult
		for i := 0; i < nB; i++ {
			t := targets[r.Intn(len(targets))]
			q := requests[r.Intn(len(requests))]
			if r.Intn(2) == 0 { // mostly covered requests, so that the other factors decide
				q = strings.ReplaceAll(strings.TrimSuffix(t, "#/"), "+", "a")
				if q == "" {
					q = "a/"
				}
			}
			key := security.Key(make([]byte, 24))
			key.SetSalt(uint16(r.Intn(65536)))
			key.SetMaster(1)
			key.SetContract(lic.Contract())
			key.SetSignature(lic.Signature())
			perms := uint8(r.Intn(256))
			if r.Intn(3) == 0 {
				perms = uint8(vlib.Pick(r, 0, 1, 2, 4, 6, 30, 62, 126, 254, 255))
			}
			key.SetPermissions(perms)
			switch r.Intn(6) {
			case 0:
				key.SetExpires(time.Unix(now-int64(1000+r.Intn(100000)), 0))
			case 1:
				key.SetExpires(time.Unix(now+int64(1000+r.Intn(100000)), 0))
			case 2: // the edges of the 32-bit expiry field: its first seconds (2010) and its last decades (2106-2146)
				key.SetExpires(time.Unix(int64(vlib.Pick(r, 1, 1262304000, 1262304001, 1262304002, 4294967295, 4294967296, 4294967297, 4300000000, 5000000000, 5557271294, 5557271295, 5557271296, 1<<33, 1<<40)), 0))
			}
			class := "authorize/ok-identity"
			switch r.Intn(10) {
			case 0:
				key.SetContract(lic.Contract() + 1 + uint32(r.Intn(5)))
				class = "authorize/foreign-contract"
			case 1:
				key.SetSignature(lic.Signature() ^ uint32(1<<uint(r.Intn(32))))
				class = "authorize/wrong-signature"
			case 2:
				key.SetMaster(uint16(2 + r.Intn(5)))
				class = "authorize/wrong-master"
			}
			if err := key.SetTarget(t); err != nil {
				continue
			}
			enc, _ := cipher.EncryptKey(key)
			perm := []uint8{security.AllowRead, security.AllowWrite, security.AllowLoad, security.AllowPresence, security.AllowExtend, security.AllowStore}[r.Intn(6)]
			text := enc + "/" + q
			ch := security.ParseChannel([]byte(text))
			ok := false
			vlib.Catch(func() { _, _, ok = svc.Authorize(ch, perm) })
			sh.Add(vlib.App("CAuth", vlib.Bytes(key), vlib.App("Contract", vlib.N(uint64(lic.Contract())), "1", vlib.N(uint64(lic.Signature())), "true"),
				vlib.Z(now), vlib.Str(text), vlib.Str(t), vlib.N(uint64(perm)), vlib.Bool(ok)),
				map[string]interface{}{"op": "authorize", "target": t, "request": q, "perms": perms, "perm": perm}, class, true)
		}
		svc.Close()
	}
	sh.Finish("key targets over levels {a,b,c,+} depth 0-3 with optional final '#/' (all) and 4 (sampled), exact and '#/', against requests of the same grammar (quick: stratified sample incl. requests derived from the target; thorough: every pair); malformed targets; Authorize through a real broker service per licence version with random permission masks x 6 operations x expiry past/none/future/edges of the 32-bit field (2010, 2106-2146, clamped) x identity (good / foreign contract / wrong signature / wrong master); non-trivial: all")
}
