From Coq Require Import Lia.
From Emitter Require Import Lib.Base Model.Mqtt Model.MsgCodec Model.Hostile Proofs.ListFacts.

Lemma packet_alloc_le s max : packet_alloc s max <= max.
Proof.
  unfold packet_alloc. destruct (decode_header s) as [[[[h size] mt] r]|]; [|lia].
  destruct ((mt =? 12) || (mt =? 13) || (mt =? 14)); [lia|].
  destruct (max <? size) eqn:E; [lia|]. apply N.ltb_ge in E. exact E.
Qed.

Lemma oversize_refused s max h size mt r :
  decode_header s = Some (h, size, mt, r) ->
  mt <> 12 -> mt <> 13 -> mt <> 14 -> max < size ->
  decode_packet s max = Err ETooLarge /\ packet_alloc s max = 0.
Proof.
  intros H A B C L. unfold decode_packet, packet_alloc. rewrite H.
  apply N.eqb_neq in A. apply N.eqb_neq in B. apply N.eqb_neq in C. rewrite A, B, C.
  apply N.ltb_lt in L. rewrite L. cbn. auto.
Qed.

Lemma dec_len_shorter : forall s m l l' r, dec_len s m l = Some (l', r) -> (length r < length s)%nat.
Proof.
  induction s as [|b s IH]; intros m l l' r H; cbn [dec_len] in H; [discriminate|].
  destruct (N.land b 128 =? 0).
  - inversion H; subst. cbn. lia.
  - apply IH in H. cbn. lia.
Qed.

Lemma decode_header_shorter s h l mt r : decode_header s = Some (h, l, mt, r) -> (length r < length s)%nat.
Proof.
  unfold decode_header. destruct s as [|fb r0]; [discriminate|].
  destruct (dec_len r0 1 0) as [[l0 r']|] eqn:E; [|discriminate].
  intros H. inversion H; subst. apply dec_len_shorter in E. cbn. lia.
Qed.

Lemma length_drop_le {A} n (l : list A) : (length (drop n l) <= length l)%nat.
Proof. unfold drop. rewrite skipn_length. lia. Qed.

Lemma decode_packet_consumes s max p rest :
  decode_packet s max = Ok (p, rest) -> (length rest < length s)%nat.
Proof.
  unfold decode_packet. destruct (decode_header s) as [[[[h size] mt] r]|] eqn:E; [|discriminate].
  apply decode_header_shorter in E.
  destruct (mt =? 12); [intros H; inversion H; subst; exact E|].
  destruct (mt =? 13); [intros H; inversion H; subst; exact E|].
  destruct (mt =? 14); [intros H; inversion H; subst; exact E|].
  destruct (max <? size); [discriminate|].
  destruct (len r <? size); [discriminate|].
  match goal with |- context [bindr ?e _] => destruct e as [q|e0|] end; cbn [bindr]; try discriminate.
  intros H. inversion H; subst. pose proof (length_drop_le size r). lia.
Qed.

Lemma process_terminates : forall fuel s max acc,
  (length s < fuel)%nat -> snd (process fuel s max acc) <> PFuel.
Proof.
  induction fuel as [|f IH]; intros s max acc L; [lia|].
  cbn [process]. destruct (decode_packet s max) as [[p rest]|e|] eqn:E.
  - apply decode_packet_consumes in E. apply IH. lia.
  - destruct e; cbn; discriminate.
  - cbn; discriminate.
Qed.

Theorem client_fate_contained s max : client_fate s max <> ProcessExit.
Proof.
  unfold client_fate. pose proof (process_terminates (S (length s)) s max [] (Nat.lt_succ_diag_r _)) as H.
  destruct (snd (process (S (length s)) s max [])); try discriminate. exfalso. apply H. reflexivity.
Qed.

Lemma lookup_prealloc_bounded l : (0 <= lookup_prealloc l <= 1024)%Z.
Proof.
  unfold lookup_prealloc, maxPrealloc.
  destruct (l <? 0)%Z eqn:A; cbn [orb]; [lia|].
  destruct (1024 <? l)%Z eqn:B; [lia|].
  apply Z.ltb_ge in A. apply Z.ltb_ge in B. lia.
Qed.

Lemma frame_slots_le d : frame_slots d <= len d / 4.
Proof.
  unfold frame_slots. destruct (read_uvarint d) as [[n r]|e|]; try apply N.le_0_l.
  destruct (len d / 4 <? n) eqn:E; [apply N.le_0_l|]. apply N.ltb_ge in E. exact E.
Qed.

(* the announced count can no longer reach reflect.MakeSlice as a negative int *)
Lemma frame_count_never_negative d n r :
  len d < two63 -> read_uvarint d = Ok (n, r) -> two63 <= n -> dec_frame_guarded d = Err CEOF.
Proof.
  intros L H G. unfold dec_frame_guarded. rewrite H.
  assert (len d / 4 < n) as X.
  { apply N.le_lt_trans with (len d); [|lia]. apply N.div_le_upper_bound; lia. }
  apply N.ltb_lt in X. rewrite X. reflexivity.
Qed.

Lemma deliver_safe : forall ms, Forall (fun m => peer_msg_ok m = true) (fst (deliver ms)).
Proof.
  induction ms as [|m r IH]; cbn [deliver]; [constructor|].
  destruct (peer_msg_ok m) eqn:E; [|constructor].
  destruct (deliver r) as [d ok]. cbn [fst] in *. constructor; assumption.
Qed.

Theorem unicast_contained d : fst (unicast true d) <> ProcessExit.
Proof.
  unfold unicast, land. destruct (dec_frame_guarded d) as [ms|e|]; cbn; try discriminate.
  destruct (deliver ms) as [del ok]. cbn. destruct ok; discriminate.
Qed.

Theorem unicast_delivers_only_safe b d : Forall (fun m => peer_msg_ok m = true) (snd (unicast b d)).
Proof.
  unfold unicast. destruct (dec_frame_guarded d) as [ms|e|]; cbn; try constructor.
  pose proof (deliver_safe ms) as H. destruct (deliver ms) as [del ok]. exact H.
Qed.

(* decoded values hold their two timestamps *)
Notation val_ok := (fun kv : bytes * bytes => 16 <=? len (snd kv)).

Lemma dec_entries_values : forall n d acc es d',
  forallb val_ok acc = true -> dec_entries n d acc = Ok (es, d') -> forallb val_ok es = true.
Proof.
  induction n as [|k IH]; intros d acc es d' A H; cbn [dec_entries] in H.
  - inversion H; subst. rewrite forallb_forall in *. intros x Hx. apply A. apply in_rev. exact Hx.
  - destruct (read_slice d) as [[key d1]|e|]; cbn [bindr] in H; try discriminate.
    destruct (read_slice d1) as [[v d2]|e|]; cbn [bindr] in H; try discriminate.
    destruct (len v <? 16) eqn:E; [discriminate|].
    apply IH in H; [exact H|]. cbn [forallb snd]. rewrite A. apply N.ltb_ge in E.
    apply N.leb_le in E. rewrite E. reflexivity.
Qed.

Lemma dec_volatile_values d v d' : dec_volatile d = Ok (v, d') -> forallb val_ok v = true.
Proof.
  unfold dec_volatile. destruct (read_uvarint d) as [[size r]|e|]; cbn [bindr]; try discriminate.
  destruct (two63 <=? size); [intros H; inversion H; reflexivity|].
  intros H. eapply dec_entries_values; [|exact H]. reflexivity.
Qed.

Lemma dec_subsets_values : forall n d acc st,
  values_ok acc = true -> dec_subsets n d acc = Ok st -> values_ok st = true.
Proof.
  induction n as [|k IH]; intros d acc st A H; cbn [dec_subsets] in H.
  - inversion H; subst. exact A.
  - destruct d as [|typ d1]; [discriminate|].
    destruct (dec_volatile d1) as [[v d2]|e|] eqn:E; cbn [bindr] in H; try discriminate.
    apply IH in H; [exact H|]. unfold values_ok in *. cbn [forallb snd]. apply dec_volatile_values in E. rewrite E. cbn.
    rewrite forallb_forall in *. intros x Hx. apply filter_In in Hx. apply A. apply Hx.
Qed.

Theorem dec_state_values_ok d st : dec_state d = Ok st -> values_ok st = true.
Proof.
  unfold dec_state. destruct (read_uvarint d) as [[l r]|e|]; cbn [bindr]; try discriminate.
  destruct (two63 <=? l); [intros H; inversion H; reflexivity|].
  intros H. apply dec_subsets_values in H; [|reflexivity]. exact H.
Qed.

Theorem gossip_contained d : gossip true d <> ProcessExit.
Proof. unfold gossip, land. destruct (dec_state d) as [st|e|]; discriminate. Qed.

(* without the recover in the handlers of Swarm the same payloads end the process *)
Theorem unicast_unrecovered_exits : exists d, fst (unicast false d) = ProcessExit.
Proof. exists [1; 3; 1; 2; 3; 0; 0; 0]. vm_compute. reflexivity. Qed.

Theorem gossip_unrecovered_exits : exists d, gossip false d = ProcessExit.
Proof. exists [1; 0; 1; 255; 255; 255; 255; 255; 255; 255; 255; 255; 1]. vm_compute. reflexivity. Qed.
