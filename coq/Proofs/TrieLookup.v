(* C01: exactness of the two lookups, share-group picks, pruning, count. *)
From Emitter Require Import Lib.Base Model.Trie Spec.PubSub Proofs.TrieProofs.
From Coq Require Import Lia Permutation.
Set Default Timeout 120.

(* ---- emitter-mode lookup ---- *)
Theorem lookup_em_exact : forall n, wf n -> forall q s,
  In s (lookup_em q n) <-> exists f, In (f, s) (pairs n) /\ match_em f q = true.
Proof.
  induction n as [sb ks IH] using node_ind2. intros W q s.
  inversion W as [? ? NDs ND WK]; subst. rewrite Forall_forall in IH, WK.
  destruct q as [|w rest]; cbn [lookup_em nsubs nkids].
  - rewrite app_nil_r. split.
    + intros I. exists []. split; [apply In_pairs_nil; exact I | reflexivity].
    + intros [f [I M]]. destruct f; [|discriminate]. apply In_pairs_nil in I. exact I.
  - rewrite !in_app_iff. split.
    + intros [I|[I|I]].
      * exists []. split; [apply In_pairs_nil; exact I | reflexivity].
      * destruct (aget w ks) as [c|] eqn:G; [|contradiction].
        pose proof (aget_In _ _ _ G) as Gi.
        apply (IH _ Gi (WK _ Gi)) in I. destruct I as [f [I M]].
        exists (w :: f). split; [apply (In_pairs_cons w f s sb ks ND); exists c; auto|].
        cbn [match_em]. rewrite N.eqb_refl, M. reflexivity.
      * destruct (aget wildcard ks) as [c|] eqn:G; [|contradiction].
        pose proof (aget_In _ _ _ G) as Gi.
        apply (IH _ Gi (WK _ Gi)) in I. destruct I as [f [I M]].
        exists (wildcard :: f). split; [apply (In_pairs_cons wildcard f s sb ks ND); exists c; auto|].
        cbn [match_em]. rewrite N.eqb_refl, orb_true_r, M. reflexivity.
    + intros [f [I M]]. destruct f as [|a f'].
      * left. apply In_pairs_nil in I. exact I.
      * right. apply (In_pairs_cons a f' s sb ks ND) in I. destruct I as (c & G & I').
        pose proof (aget_In _ _ _ G) as Gi.
        cbn [match_em] in M. apply andb_prop in M. destruct M as [Ma M].
        apply orb_prop in Ma. destruct Ma as [Ma|Ma]; apply N.eqb_eq in Ma; subst a.
        -- left. rewrite G. apply (IH _ Gi (WK _ Gi)). exists f'. auto.
        -- right. rewrite G. apply (IH _ Gi (WK _ Gi)). exists f'. auto.
Qed.

(* ---- mqtt-mode lookup ---- *)
Theorem lookup_mq_exact : forall n, wf n -> forall q s,
  In s (lookup_mq q n) <-> exists f, In (f, s) (pairs n) /\ match_mq f q = true.
Proof.
  induction n as [sb ks IH] using node_ind2. intros W q s.
  inversion W as [? ? NDs ND WK]; subst. rewrite Forall_forall in IH, WK.
  destruct q as [|w rest]; cbn [lookup_mq nsubs nkids].
  - split.
    + intros I. exists []. split; [apply In_pairs_nil; exact I | reflexivity].
    + intros [f [I M]]. destruct f; [|discriminate]. apply In_pairs_nil in I. exact I.
  - rewrite !in_app_iff. split.
    + intros [I|[I|I]].
      * destruct (aget w ks) as [c|] eqn:G; [|contradiction].
        pose proof (aget_In _ _ _ G) as Gi.
        apply (IH _ Gi (WK _ Gi)) in I. destruct I as [f [I M]].
        exists (w :: f). split; [apply (In_pairs_cons w f s sb ks ND); exists c; auto|].
        cbn [match_mq]. rewrite N.eqb_refl, M. cbn [orb andb]. apply orb_true_r.
      * destruct (aget wildcard ks) as [c|] eqn:G; [|contradiction].
        pose proof (aget_In _ _ _ G) as Gi.
        apply (IH _ Gi (WK _ Gi)) in I. destruct I as [f [I M]].
        exists (wildcard :: f). split; [apply (In_pairs_cons wildcard f s sb ks ND); exists c; auto|].
        cbn [match_mq]. rewrite N.eqb_refl, M, orb_true_r. cbn [andb]. apply orb_true_r.
      * destruct (aget multiWildcard ks) as [c|] eqn:G; [|contradiction].
        exists [multiWildcard]. split.
        -- apply (In_pairs_cons multiWildcard [] s sb ks ND). exists c. split; [exact G|].
           destruct c as [sc kc]. apply In_pairs_nil. exact I.
        -- cbn [match_mq is_nil]. rewrite N.eqb_refl. reflexivity.
    + intros [f [I M]]. destruct f as [|a f']; [discriminate|].
      apply (In_pairs_cons a f' s sb ks ND) in I. destruct I as (c & G & I').
      pose proof (aget_In _ _ _ G) as Gi.
      cbn [match_mq] in M. apply orb_prop in M. destruct M as [M|M].
      * apply andb_prop in M. destruct M as [M1 M2]. apply N.eqb_eq in M2. subst a.
        destruct f'; [|discriminate]. right. right. rewrite G.
        destruct c as [sc kc]. apply In_pairs_nil in I'. exact I'.
      * apply andb_prop in M. destruct M as [Ma M].
        apply orb_prop in Ma. destruct Ma as [Ma|Ma]; apply N.eqb_eq in Ma; subst a.
        -- left. rewrite G. apply (IH _ Gi (WK _ Gi)). exists f'. auto.
        -- right. left. rewrite G. apply (IH _ Gi (WK _ Gi)). exists f'. auto.
Qed.

Theorem lookup_raw_exact mqtt n q s :
  wf n -> (In s (lookup_raw mqtt q n) <-> exists f, In (f, s) (pairs n) /\ matches mqtt f q = true).
Proof. intros W. destruct mqtt; [apply lookup_mq_exact | apply lookup_em_exact]; exact W. Qed.

(* ---- results are sets ---- *)
Lemma In_dedup x l : In x (dedup l) <-> In x l.
Proof.
  induction l as [|y l IH]; [cbn; tauto|]. cbn [dedup].
  destruct (mem y l) eqn:E.
  - rewrite IH. cbn [In]. split; [auto|]. intros [<-|H]; [apply mem_In; exact E | exact H].
  - cbn [In]. rewrite IH. tauto.
Qed.

Lemma NoDup_dedup l : NoDup (dedup l).
Proof.
  induction l as [|y l IH]; [constructor|]. cbn [dedup].
  destruct (mem y l) eqn:E; [exact IH|]. constructor; [|exact IH].
  rewrite In_dedup. intros H. apply mem_In in H. congruence.
Qed.

(* ---- share groups ---- *)
Inductive picks_valid : list (list N) -> list N -> Prop :=
| pv_nil : picks_valid [] []
| pv_skip gs r : picks_valid gs r -> picks_valid ([] :: gs) r
| pv_pick g gs x r : In x g -> picks_valid gs r -> picks_valid (g :: gs) (x :: r).

Lemma nth_mod_In (g : list N) p x : g <> [] -> In (nth (p mod length g) g x) g.
Proof.
  intros H. apply nth_In. apply Nat.mod_upper_bound. destruct g; [contradiction | cbn; lia].
Qed.

(* whatever the pseudo-random source says, exactly one member of each non-empty group is picked *)
Lemma pick_members_valid : forall groups picks, picks_valid groups (pick_members groups picks).
Proof.
  induction groups as [|g gs IH]; intros picks; cbn [pick_members]; [constructor|].
  destruct g as [|x g]; [apply pv_skip, IH|].
  destruct picks as [|p ps].
  - apply pv_pick; [left; reflexivity | apply IH].
  - apply pv_pick; [apply nth_mod_In; discriminate | apply IH].
Qed.

(* the members of a share group are the subscribers of [contract; $share; group; filter] with a
   matching filter *)
Lemma share_groups_spec mqtt root c rest :
  wf root ->
  forall g grp, (exists cn sn gn, aget c (nkids root) = Some cn /\ aget share (nkids cn) = Some sn
                                  /\ aget g (nkids sn) = Some gn /\ grp = dedup (lookup_raw mqtt rest gn)) ->
  forall s, In s grp <-> exists f, In (c :: share :: g :: f, s) (pairs root) /\ matches mqtt f rest = true.
Proof.
  intros W g grp (cn & sn & gn & G1 & G2 & G3 & ->) s.
  destruct root as [sb ks]. cbn [nkids] in G1.
  pose proof (wf_kid _ _ _ _ W G1) as W1. destruct cn as [sb1 ks1]. cbn [nkids] in G2.
  pose proof (wf_kid _ _ _ _ W1 G2) as W2. destruct sn as [sb2 ks2]. cbn [nkids] in G3.
  pose proof (wf_kid _ _ _ _ W2 G3) as W3.
  inversion W as [? ? _ ND0 _]; subst. inversion W1 as [? ? _ ND1 _]; subst. inversion W2 as [? ? _ ND2 _]; subst.
  rewrite In_dedup, (lookup_raw_exact mqtt gn rest s W3).
  split; intros (f & I & M); exists f; (split; [|exact M]).
  - apply (In_pairs_cons c _ s sb ks ND0). exists (Node sb1 ks1). split; [exact G1|].
    apply (In_pairs_cons share _ s sb1 ks1 ND1). exists (Node sb2 ks2). split; [exact G2|].
    apply (In_pairs_cons g _ s sb2 ks2 ND2). exists gn. auto.
  - apply (In_pairs_cons c _ s sb ks ND0) in I. destruct I as (x1 & E1 & I). rewrite G1 in E1. injection E1 as <-.
    apply (In_pairs_cons share _ s sb1 ks1 ND1) in I. destruct I as (x2 & E2 & I). rewrite G2 in E2. injection E2 as <-.
    apply (In_pairs_cons g _ s sb2 ks2 ND2) in I. destruct I as (x3 & E3 & I). rewrite G3 in E3. injection E3 as <-.
    exact I.
Qed.

(* Trie.Lookup: exactly the direct matches plus one valid pick per share group; each once *)
Theorem lookup_spec mqtt q t picks :
  NoDup (lookup mqtt q t picks)
  /\ exists r, picks_valid (share_groups mqtt q (t_root t)) r
       /\ forall s, In s (lookup mqtt q t picks) <-> In s (lookup_raw mqtt q (t_root t)) \/ In s r.
Proof.
  split; [apply NoDup_dedup|].
  exists (pick_members (share_groups mqtt q (t_root t)) picks). split; [apply pick_members_valid|].
  intros s. unfold lookup. rewrite In_dedup, in_app_iff. tauto.
Qed.

(* ---- pruning ---- *)
Inductive nel : node -> Prop :=
| nel_node s ks : Forall (fun kc => is_empty (snd kc) = false /\ nel (snd kc)) ks -> nel (Node s ks).

Lemma nel_empty : nel empty_node.
Proof. constructor. constructor. Qed.

Lemma Forall_aput2 (P : node -> Prop) w c ks :
  Forall (fun kc => P (snd kc)) ks -> P c -> Forall (fun kc => P (snd kc)) (aput w c ks).
Proof. apply Forall_aput. Qed.

Lemma nel_kid w c sb ks : nel (Node sb ks) -> aget w ks = Some c -> is_empty c = false /\ nel c.
Proof.
  intros Hn G. inversion Hn as [? ? F]; subst. rewrite Forall_forall in F.
  exact (F (w, c) (aget_In _ _ _ G)).
Qed.

Lemma aput_not_nil {A} w (c : A) ks : is_nil (aput w c ks) = false.
Proof. destruct ks as [|[k v] ks]; cbn [aput]; [reflexivity|]. destruct (w =? k); reflexivity. Qed.

Lemma add_unique_not_nil s l : is_nil (add_unique s l) = false.
Proof. destruct l as [|x l]; cbn [add_unique]; [reflexivity|]. destruct (s =? x); reflexivity. Qed.

Lemma subscribe_node_nel : forall ssid s n,
  nel n -> nel (fst (subscribe_node ssid s n)) /\ is_empty (fst (subscribe_node ssid s n)) = false.
Proof.
  induction ssid as [|w rest IH]; intros s n Hn; destruct n as [sb ks]; cbn [subscribe_node nsubs nkids].
  - cbn [fst]. inversion Hn; subst. split; [constructor; assumption|].
    unfold is_empty. cbn [nsubs nkids]. rewrite add_unique_not_nil. reflexivity.
  - set (child := match aget w ks with Some c => c | None => empty_node end).
    assert (Hc : nel child).
    { subst child. destruct (aget w ks) as [c|] eqn:G; [exact (proj2 (nel_kid _ _ _ _ Hn G)) | exact nel_empty]. }
    specialize (IH s child Hc). destruct (subscribe_node rest s child) as [c' added]. cbn [fst] in *.
    destruct IH as [N1 N2]. inversion Hn as [? ? F]; subst. split.
    + constructor. apply (Forall_aput (fun c => is_empty c = false /\ nel c)); [exact F | auto].
    + unfold is_empty. cbn [nsubs nkids]. rewrite aput_not_nil. apply andb_false_r.
Qed.

Lemma unsubscribe_node_nel : forall ssid s n,
  nel n ->
  match unsubscribe_node ssid s n with
  | None => True
  | Some (n', _, _) => nel n'
  end.
Proof.
  induction ssid as [|w rest IH]; intros s n Hn; destruct n as [sb ks]; cbn [unsubscribe_node nsubs nkids].
  - inversion Hn; subst. constructor. assumption.
  - destruct (aget w ks) as [c|] eqn:G; [|exact I].
    destruct (nel_kid _ _ _ _ Hn G) as [_ Hc]. specialize (IH s c Hc).
    pose proof (unsubscribe_node_flag rest s c) as Fl.
    destruct (unsubscribe_node rest s c) as [[[c' removed] orphan]|]; [|exact I].
    inversion Hn as [? ? F]. destruct orphan.
    + constructor. apply (Forall_adel (fun c => is_empty c = false /\ nel c)). exact F.
    + constructor. apply (Forall_aput (fun c => is_empty c = false /\ nel c)); [exact F | auto].
Qed.

(* a pruned, non-empty node stores at least one pair *)
Lemma nel_nonempty_has_pair : forall n, nel n -> is_empty n = false -> pairs n <> [].
Proof.
  induction n as [sb ks IH] using node_ind2. intros Hn E.
  rewrite pairs_unfold. unfold is_empty in E. cbn [nsubs nkids] in E.
  destruct sb as [|x sb]; [|discriminate].
  destruct ks as [|[w c] ks]; [discriminate|].
  inversion Hn as [? ? F]; subst. inversion F as [|? ? [E1 N1] F']; subst.
  inversion IH as [|? ? IH1 _]; subst. cbn [snd] in *.
  specialize (IH1 N1 E1). cbn [map app kid_pairs flat_map fst snd].
  destruct (pairs c) as [|p ps]; [contradiction | discriminate].
Qed.

Theorem pruned_empty n : nel n -> pairs n = [] -> n = empty_node.
Proof.
  intros Hn E. destruct (is_empty n) eqn:Em.
  - destruct n as [sb ks]. unfold is_empty in Em. cbn [nsubs nkids] in Em.
    destruct sb; [|discriminate]. destruct ks; [reflexivity | discriminate].
  - exfalso. exact (nel_nonempty_has_pair n Hn Em E).
Qed.
