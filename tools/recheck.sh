#!/bin/bash
# recheck.sh <prop> <mN> [checks...]: apply an already confirmed seeded defect to /repo, run the checks, revert
p=$1; m=$2; shift 2
cd /verif && RECHECK=1 SEED_NAME=$m python3 tools/seed_eval.py $p /verif/seeded/$p-$m "$@" 2>&1 | grep -A3 '"mutant"\|VIOLATION' | head -12
