(* Correspondence cases of C12. *)
From Emitter Require Import Lib.Base Model.MsgCodec Model.Murmur Model.Channel Model.Cipher Model.Key.

Inductive case :=
| CMall (version : N) (c : cipher) (orig modified : bytes) (ct : contract) (now : Z)
        (probes : list (bytes * N * bool * bool)).   (* channel, permission, granted to orig, granted to modified *)

Definition grants (c : cipher) (ct : contract) (now : Z) (s : bytes) (channel : bytes) (perm : N) : bool :=
  let ch := parse_channel (s ++ sep :: channel) in
  match authorize murmur (fun _ => false) (fun x => decrypt_key c x)
                  (fun id => if id =? ct_id ct then Some ct else None) now ch perm with
  | Some _ => true
  | None => false
  end.

(* the byte positions (of the 24 decoded bytes) where two strings differ *)
Definition decoded (s : bytes) : bytes := match decode_key s with Ok d => d | _ => [] end.
Fixpoint diff_positions (a b : bytes) (i : N) : list N :=
  match a, b with
  | x :: a', y :: b' => (if x =? y then [] else [i]) ++ diff_positions a' b' (i + 1)
  | _, _ => []
  end.

Definition check (c : case) : N :=
  match c with
  | CMall version ci orig modified ct now probes =>
    let corr := forallb (fun p => let '(ch, perm, g0, g1) := p in
                           Bool.eqb (grants ci ct now orig ch perm) g0
                           && Bool.eqb (grants ci ct now modified ch perm) g1) probes in
    (* the property: the altered string grants nothing the original did not *)
    let escalates := existsb (fun p => let '(_, _, g0, g1) := p in g1 && negb g0) probes in
    let d := diff_positions (decoded orig) (decoded modified) 0 in
    (* known classes (no authentication tag): stream ciphers (v2, v3) - the identity bytes 2..11
       (and for v3 the salt bytes 0,1) of the ciphertext are untouched; XTEA-ECB (v1) - ciphertext
       blocks 1 and 2 (bytes 0..15) are untouched *)
    let known := if version =? 1 then forallb (fun i => 16 <=? i) d
                 else if version =? 2 then forallb (fun i => (i <? 2) || (12 <=? i)) d
                 else forallb (fun i => 12 <=? i) d in
    bit corr 1
    |+| (if escalates then (if corr && known then (if version =? 1 then 64 else if version =? 2 then 32 else 16) else 2) else 0)
  end.
