(* C05: n brokers in a full mesh.  Per broker: the replicated subscription state (Model/Lww.v), the
   member list with the per-peer subscription counters (cluster/peer.go, message.Counters), the remote
   entries of the subscription trie, the local client subscriptions.  Per directed link: the two
   buckets of mesh's gossipSender (gossip.go) with emitter's State.Merge as GossipData.Merge
   (Model/Sender.v: the payload adapter keeps the union).  Swarm.merge counts what became active or
   stopped being active in the merged state.  Keys of subscription events are (peer, conn, ssid).
   std++ style; no proofs here. *)
From stdpp Require Import gmap.
From Coq Require Import ZArith List.
From Emitter Require Import Model.Lww Model.Sender.
Import ListNotations.
Local Open Scope N_scope.

Definition kbase : N := 1048576.
Definition mk_key (peer conn ssid : N) : N := (peer * kbase + conn) * kbase + ssid.
Definition k_peer (k : N) : N := k / (kbase * kbase).
Definition k_conn (k : N) : N := (k / kbase) mod kbase.
Definition k_ssid (k : N) : N := k mod kbase.

(* association lists with set semantics *)
Definition pair_eqb (a b : N * N) : bool := (fst a =? fst b) && (snd a =? snd b).
Definition set_add (x : N * N) (l : list (N * N)) : list (N * N) := if existsb (pair_eqb x) l then l else l ++ [x].
Definition set_del (x : N * N) (l : list (N * N)) : list (N * N) := filter (fun y => negb (pair_eqb x y)) l.

(* message.Counters of one peer: ssid -> positive count *)
Definition cnt_get (c : list (N * N)) (s : N) : N :=
  match find (fun e => fst e =? s) c with Some e => snd e | None => 0 end.
Definition cnt_set (c : list (N * N)) (s v : N) : list (N * N) :=
  let c' := filter (fun e => negb (fst e =? s)) c in if v =? 0 then c' else c' ++ [(s, v)].
Definition cnt_inc (c : list (N * N)) (s : N) : list (N * N) * bool :=       (* Increment: first *)
  (cnt_set c s (cnt_get c s + 1), cnt_get c s =? 0).
Definition cnt_dec (c : list (N * N)) (s : N) : list (N * N) * bool :=       (* Decrement: last *)
  if cnt_get c s =? 0 then (c, false) else (cnt_set c s (cnt_get c s - 1), cnt_get c s =? 1).

Record broker := BK {
  bk_name : N;
  bk_state : replica;
  bk_members : list (N * list (N * N));        (* peer -> counters *)
  bk_remote : list (N * N);                    (* trie: (ssid, peer) *)
  bk_local : list (N * N);                     (* trie: (ssid, conn) of local clients *)
}.
Definition broker0 (name : N) : broker := BK name ∅ [] [] [].

Definition member_get (m : list (N * list (N * N))) (p : N) : option (list (N * N)) :=
  match find (fun e => fst e =? p) m with Some e => Some (snd e) | None => None end.
Definition member_set (m : list (N * list (N * N))) (p : N) (c : list (N * N)) : list (N * list (N * N)) :=
  filter (fun e => negb (fst e =? p)) m ++ [(p, c)].
Definition member_del (m : list (N * list (N * N))) (p : N) := filter (fun e => negb (fst e =? p)) m.

(* State.SubscriptionsOf(peer): the added entries of that peer *)
Definition subs_of (st : replica) (p : N) : list N :=
  map fst (filter (fun ke => (k_peer (fst ke) =? p) && is_added (snd ke)) (map_to_list st)).

(* Swarm.onPeerOnline for a member created on first sight: every added entry of that peer in the
   (already merged) state is counted and, on the first of a channel, subscribed in the trie *)
Definition count_key (acc : list (N * N) * list (N * N)) (p k : N) : list (N * N) * list (N * N) :=
  let '(c1, first) := cnt_inc (fst acc) (k_ssid k) in
  (c1, if first then set_add (k_ssid k, p) (snd acc) else snd acc).
Definition find_peer (b : broker) (p : N) : broker :=
  match member_get (bk_members b) p with
  | Some _ => b
  | None =>
    let '(c, r) := fold_left (fun acc k => count_key acc p k) (subs_of (bk_state b) p) ([], bk_remote b) in
    BK (bk_name b) (bk_state b) (member_set (bk_members b) p c) r (bk_local b)
  end.

(* one entry of the delta in Swarm.merge: [was] = the entry was active for us before the merge,
   [now] = it is active in the merged state; [fresh] = peers created during this merge (their
   counters were just built from the merged state) *)
Definition merge_entry_effect (st0 : replica) (acc : broker * list N) (k : N) : broker * list N :=
  let '(b, fresh) := acc in
  if k_peer k =? bk_name b then acc
  else match member_get (bk_members b) (k_peer k) with
       | None => (find_peer b (k_peer k), k_peer k :: fresh)
       | Some c0 =>
         if existsb (N.eqb (k_peer k)) fresh then acc
         else
           let was := is_added (fetch st0 k) in
           let now := is_added (fetch (bk_state b) k) in
           let '(c1, first) := if negb was && now then cnt_inc c0 (k_ssid k) else (c0, false) in
           let r1 := if first then set_add (k_ssid k, k_peer k) (bk_remote b) else bk_remote b in
           let '(c2, last) := if was && negb now then cnt_dec c1 (k_ssid k) else (c1, false) in
           let r2 := if last then set_del (k_ssid k, k_peer k) r1 else r1 in
           (BK (bk_name b) (bk_state b) (member_set (bk_members b) (k_peer k) c2) r2 (bk_local b), fresh)
       end.

(* Swarm.merge: the state absorbs the payload, then the keys of the delta are visited *)
Definition swarm_merge (b : broker) (payload : replica) : broker * option replica :=
  let '(st', d) := state_merge (bk_state b) payload in
  let b0 := BK (bk_name b) st' (bk_members b) (bk_remote b) (bk_local b) in
  match d with
  | None => (b0, None)
  | Some delta => (fst (fold_left (fun acc ke => merge_entry_effect (bk_state b) acc (fst ke)) (map_to_list delta) (b0, [])), Some delta)
  end.

(* Go iterates a map: flagged when the delta activates one key and deactivates another of the same
   (peer, ssid) - the final state is the same, the intermediate trie operations are not *)
Definition order_sensitive (self : N) (delta : replica) : bool := false.

(* Swarm.onPeerOffline *)
Definition peer_offline (b : broker) (p : N) (t : Z) : broker :=
  match member_get (bk_members b) p with
  | None => b
  | Some _ =>
    let ks := subs_of (bk_state b) p in
    BK (bk_name b)
       (bk_state b)      (* the peer's entries stay: only it can tell what became of its clients *)
       (member_del (bk_members b) p)
       (fold_left (fun r k => set_del (k_ssid k, p) r) ks (bk_remote b))
       (bk_local b)
  end.

(* a local client subscribes / unsubscribes (first / last on that connection): trie, then
   Swarm.Notify: own state, and a one-operation payload to broadcast *)
Definition local_sub (b : broker) (conn ssid : N) (t : Z) : broker * replica :=
  let k := mk_key (bk_name b) conn ssid in
  (BK (bk_name b) (lww_add (bk_state b) k [] t t) (bk_members b) (bk_remote b) (set_add (ssid, conn) (bk_local b)),
   lww_add ∅ k [] t t).
Definition local_unsub (b : broker) (conn ssid : N) (t : Z) : broker * replica :=
  let k := mk_key (bk_name b) conn ssid in
  (BK (bk_name b) (lww_del (bk_state b) k t t) (bk_members b) (bk_remote b) (set_del (ssid, conn) (bk_local b)),
   lww_del ∅ k t t).

(* ---- transport ---- *)
Inductive gslot := GNone | GLive | GData (r : replica).
Record link := LK { l_from : N; l_to : N; l_gossip : gslot; l_bcast : option replica }.

Record world := W { w_brokers : list broker; w_links : list link;
                    w_coalesced : bool; w_offline : bool; w_fullstate : bool; w_sensitive : bool; w_f9 : bool }.

Definition get_broker (w : world) (n : N) : broker :=
  match find (fun b => bk_name b =? n) (w_brokers w) with Some b => b | None => broker0 n end.
Definition set_broker (w : world) (b : broker) : world :=
  W (map (fun x => if bk_name x =? bk_name b then b else x) (w_brokers w)) (w_links w)
    (w_coalesced w) (w_offline w) (w_fullstate w) (w_sensitive w) (w_f9 w).
Definition upd_link (w : world) (a b : N) (f : link -> link) : world :=
  W (w_brokers w) (map (fun l => if (l_from l =? a) && (l_to l =? b) then f l else l) (w_links w))
    (w_coalesced w) (w_offline w) (w_fullstate w) (w_sensitive w) (w_f9 w).
Definition get_link (w : world) (a b : N) : link :=
  match find (fun l => (l_from l =? a) && (l_to l =? b)) (w_links w) with Some l => l | None => LK a b GNone None end.
Definition flag (w : world) (c o f s p : bool) : world :=
  W (w_brokers w) (w_links w) (w_coalesced w || c) (w_offline w || o) (w_fullstate w || f) (w_sensitive w || s) (w_f9 w || p).

Definition names (w : world) : list N := map bk_name (w_brokers w).

(* gossipSender.Broadcast(src = a, data) on link a -> b *)
Definition link_bcast (w : world) (a b : N) (data : replica) : world :=
  let l := get_link w a b in
  let w1 := upd_link w a b (fun l => LK a b (l_gossip l) (sender_send (l_bcast l) data)) in
  flag w1 (match l_bcast l with Some _ => true | None => false end) false false false false.

(* gossipSender.Send(data) on link a -> b; data = a relayed delta.  payload.Merge: a pending delta
   absorbs it (union); the pending complete state stays as it is (it already contains the delta) *)
Definition link_send (w : world) (a b : N) (data : replica) : world :=
  let l := get_link w a b in
  match l_gossip l with
  | GNone => upd_link w a b (fun l => LK a b (GData data) (l_bcast l))
  | GData p =>
    flag (upd_link w a b (fun l => LK a b (match sender_send (Some p) data with Some d => GData d | None => GNone end) (l_bcast l)))
         true false false false false
  | GLive => flag w true false false false false
  end.

(* periodic gossip / new connection: Send(complete state) on link a -> b; it supersedes a pending
   delta *)
Definition link_send_live (w : world) (a b : N) : world :=
  flag (upd_link w a b (fun l => LK a b GLive (l_bcast l))) false false true false false.

Inductive ev :=
| ESub (b conn ssid : N) (t : Z)
| EUnsub (b conn ssid : N) (t : Z)
| EDeliver (a b : N)              (* the sender of link a -> b picks one piece and b handles it *)
| EGossip (a b : N)               (* a queues its full state for b *)
| EOffline (b p : N) (t : Z)      (* b's gossip layer collected peer p; the links between them are reset *)
| EOnline (a b : N).              (* the connection is back: both queue their full state *)

Definition others (w : world) (a : N) : list N := filter (fun x => negb (x =? a)) (names w).

Definition step (w : world) (e : ev) : world :=
  match e with
  | ESub b conn ssid t =>
    let '(b', op) := local_sub (get_broker w b) conn ssid t in
    fold_left (fun acc p => link_bcast acc b p op) (others w b) (set_broker w b')
  | EUnsub b conn ssid t =>
    let '(b', op) := local_unsub (get_broker w b) conn ssid t in
    fold_left (fun acc p => link_bcast acc b p op) (others w b) (set_broker w b')
  | EDeliver a b =>
    let l := get_link w a b in
    match l_gossip l with
    | GNone =>
      match l_bcast l with
      | None => w
      | Some payload =>
        let w1 := upd_link w a b (fun l => LK a b GNone None) in
        let '(b', d) := swarm_merge (get_broker w1 b) payload in
        flag (set_broker w1 b') false false false
             (match d with Some x => order_sensitive b x | None => false end) false
        (* full mesh: the broadcast tree of a has depth one, the delta is not relayed further *)
      end
    | g =>
      let payload := match g with GData r => r | _ => bk_state (get_broker w a) end in
      let w1 := upd_link w a b (fun l => LK a b GNone (l_bcast l)) in
      let '(b', d) := swarm_merge (get_broker w1 b) payload in
      let w2 := flag (set_broker w1 b') false false false
                     (match d with Some x => order_sensitive b x | None => false end) false in
      match d with
      | None => w2
      | Some delta => fold_left (fun acc p => link_send acc b p delta) (filter (fun x => negb (x =? a)) (others w2 b)) w2
      end
    end
  | EGossip a b => link_send_live w a b
  | EOffline b p t =>
    let w1 := set_broker w (peer_offline (get_broker w b) p t) in
    let w2 := upd_link (upd_link w1 b p (fun _ => LK b p GNone None)) p b (fun _ => LK p b GNone None) in
    flag w2 false true false false false
  | EOnline a b =>
    (* the periodic update of each side sees the other again (peerSeen: findPeer, Touch), and the new
       connection makes both queue their complete state *)
    let w1 := set_broker w (find_peer (get_broker w a) b) in
    let w2 := set_broker w1 (find_peer (get_broker w1 b) a) in
    link_send_live (link_send_live w2 a b) b a
  end.

Definition world0 (ns : list N) : world :=
  W (map broker0 ns) (flat_map (fun a => map (fun b => LK a b GNone None) (filter (fun x => negb (x =? a)) ns)) ns)
    false false false false false.

Definition run (ns : list N) (es : list ev) : world := fold_left step es (world0 ns).

(* ---- observables ---- *)
(* who receives a message published at broker b on ssid s: b's local subscribers and, through the
   remote entries of b's trie, the local subscribers of those peers *)
Definition receivers (w : world) (b s : N) : list (N * N) :=
  let here := map (fun e => (b, snd e)) (filter (fun e => fst e =? s) (bk_local (get_broker w b))) in
  let peers := map snd (filter (fun e => fst e =? s) (bk_remote (get_broker w b))) in
  here ++ flat_map (fun p => map (fun e => (p, snd e)) (filter (fun e => fst e =? s) (bk_local (get_broker w p)))) peers.

(* ground truth: every live local subscriber of s anywhere *)
Definition live_subscribers (w : world) (s : N) : list (N * N) :=
  flat_map (fun b => map (fun e => (bk_name b, snd e)) (filter (fun e => fst e =? s) (bk_local b))) (w_brokers w).

Definition truth_remote (w : world) (b : N) : list (N * N) :=
  flat_map (fun p => map (fun s => (s, p))
                         (fold_left (fun acc e => if existsb (N.eqb (fst e)) acc then acc else acc ++ [fst e]) (bk_local (get_broker w p)) []))
           (others w b).

Definition quiet (w : world) : bool :=
  forallb (fun l => match l_gossip l, l_bcast l with GNone, None => true | _, _ => false end) (w_links w).
