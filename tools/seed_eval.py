#!/usr/bin/env python3
"""seed_eval.py <prop> <mutant-dir> [<check-prop> ...]

Confirms a seeded defect produced by a sub-agent and runs our checks against it:
 1. in the scratch worktree /tmp/wt/<prop>: demo passes on the clean tree, patch applies, `go build ./...`
    works, demo fails with the patch, the existing tests of the touched packages still pass;
 2. applies the patch to /repo, runs ./check for the given properties (default: <prop>), reverts /repo;
 3. stores patch.diff, the demonstration and meta.json (with what was run and observed) under
    /verif/seeded/<prop>-<name>/ .
Nothing is ever committed to /repo."""
import json
import os
import shutil
import subprocess
import sys

ENV = dict(os.environ, GOFLAGS="-mod=mod", GOPROXY="off")
ENV.pop("GOTOOLCHAIN", None)
ENV.pop("GOSUMDB", None)


def sh(cmd, cwd=None, timeout=1800):
    p = subprocess.run(cmd, cwd=cwd, shell=True, env=ENV, stdout=subprocess.PIPE, stderr=subprocess.STDOUT, text=True,
                       errors="replace", timeout=timeout)
    return p.returncode, p.stdout


def main():
    prop, mdir = sys.argv[1], sys.argv[2].rstrip("/")
    checks = sys.argv[3:] or [prop]
    wt = "/tmp/wt/" + prop
    meta = json.load(open(os.path.join(mdir, "meta.json"))) if os.path.exists(os.path.join(mdir, "meta.json")) else {}
    patch = os.path.join(mdir, "patch.diff")
    demo_cmd = meta.get("demo_cmd", "")
    report = {"ran": []}

    def clean():
        sh("git checkout -- . && git clean -fdq", cwd=wt)

    name0 = "%s-%s" % (prop, os.environ.get("SEED_NAME") or os.path.basename(mdir))
    prev = os.path.join("/verif/seeded", name0, "meta.json")
    recheck = os.environ.get("RECHECK") and os.path.exists(prev) and json.load(open(prev)).get("evaluation", {}).get("confirmed")
    if recheck:
        # confirmed earlier in its worktree: only run the (strengthened) checks again
        meta = json.load(open(prev))
        report = meta["evaluation"]
        report.setdefault("history", []).append({"our_checks": report.get("our_checks"), "detected": report.get("detected")})
        confirmed = True
        patch = os.path.join("/verif/seeded", name0, "patch.diff")
    else:
        clean()
        def failed(rc, out):
            return rc != 0 or "--- FAIL" in out or "\nFAIL" in out or "panic:" in out

        rc0, out0 = sh(demo_cmd, cwd=wt)
        rc0 = 1 if failed(rc0, out0) else 0
        report["demo_on_clean_tree"] = "pass" if rc0 == 0 else "FAIL"
        clean()
        rc, out = sh("git apply --whitespace=nowarn " + patch, cwd=wt)
        report["patch_applies"] = rc == 0
        rcb, outb = sh("go build ./...", cwd=wt)
        report["builds_with_patch"] = rcb == 0
        rc1, out1 = sh(demo_cmd, cwd=wt)
        rc1 = 1 if failed(rc1, out1) else 0
        report["demo_with_patch"] = "pass" if rc1 == 0 else "FAIL"
        # existing tests of the touched packages (+ their dependants' most relevant suites)
        pkgs = sorted({"./" + os.path.dirname(f) + "/..." for f in meta.get("files_changed", [])})
        sh("git clean -fdq", cwd=wt)  # remove the demo file, keep the patch
        rct, outt = sh("go test -count=1 " + " ".join(pkgs) + " ./internal/broker/ ./internal/service/pubsub/ 2>&1 | tail -30", cwd=wt)
        # failures that the unchanged tree shows offline as well (network / DNS / timing) are not counted
        baseline = ("TestJoin", "TestNewClient", "TestStatsd", "TestTimeout")
        tfails = [l for l in outt.splitlines() if l.startswith("--- FAIL") and not any(b in l for b in baseline)]
        fails = tfails
        report["existing_tests_with_patch"] = "pass" if not fails else fails
        clean()
        confirmed = rc0 == 0 and rc == 0 and rcb == 0 and rc1 != 0 and not fails
        report["confirmed"] = confirmed

    # our checks against the patched /repo
    results = {}
    rc, out = sh("git -C /repo status --porcelain")
    if out.strip():
        print("/repo is not clean, aborting")
        return 2
    rc, out = sh("git -C /repo apply --whitespace=nowarn " + patch)
    try:
        if rc != 0:
            results["apply"] = "patch does not apply to /repo: " + out[-300:]
        else:
            for c in checks:
                seeds = os.environ.get("SEEDS", "1").split(",")
                for seed in seeds:
                    rcc, outc = sh("VERIF_SEED=%s ./check %s --tier quick" % (seed, c), cwd="/verif", timeout=3000)
                    lines = [l for l in outc.splitlines() if l.startswith("VIOLATION") or l.startswith("KNOWN-FINDING")]
                    results["%s seed %s" % (c, seed)] = {"exit": rcc, "lines": [l[:200] for l in lines[:4]]}
                    if rcc != 0:
                        break
    finally:
        sh("git -C /repo checkout -- .")
    report["our_checks"] = results
    detected = any(isinstance(v, dict) and v["exit"] != 0 for v in results.values())
    report["detected"] = detected

    name = name0
    dest = os.path.join("/verif/seeded", name)
    os.makedirs(dest, exist_ok=True)
    if not recheck:
        shutil.copy(patch, os.path.join(dest, "patch.diff"))
        for f in os.listdir(mdir):
            if f.startswith("demo"):
                shutil.copy(os.path.join(mdir, f), os.path.join(dest, f))
    meta["evaluation"] = report
    json.dump(meta, open(os.path.join(dest, "meta.json"), "w"), indent=1)
    print(json.dumps({"mutant": name, "confirmed": confirmed, "detected": detected, "checks": results}, indent=1))
    return 0


if __name__ == "__main__":
    sys.exit(main())
