(* C19 - Message ids and frames encode losslessly; peer forwarding drops nothing.
   Models: Model/MsgCodec.v, Model/PeerQueue.v (tied to internal/message/{codec,message,id}.go and
   internal/service/cluster/peer.go by the c19 harness on every run). *)
From Emitter Require Import Lib.Base Model.MsgCodec Model.PeerQueue
     Proofs.ListFacts Proofs.MsgCodecProofs Proofs.IdProofs Proofs.PeerQueueProofs.

(* every message survives encode/decode unchanged (empty and maximal fields, ttl 0..2^32-1), and
   the decoder stops exactly at the end of the message *)
Theorem C19_message_roundtrip : forall m rest,
  msg_ok m -> dec_msg (enc_msg m ++ rest) = Ok (m, rest).
Proof. exact dec_enc_msg. Qed.
Print Assumptions C19_message_roundtrip.

Theorem C19_frame_roundtrip : forall f,
  Forall msg_ok f -> len f < 9223372036854775808 -> dec_frame (enc_frame f) = Ok f.
Proof. exact dec_enc_frame. Qed.
Print Assumptions C19_frame_roundtrip.

(* an id gives back the ssid, the contract and the second it was created in *)
Theorem C19_id_fields : forall s0 s1 tl now seq unique,
  Forall word_ok (s0 :: s1 :: tl) -> time_ok now -> seq < 4294967296 -> unique < 4294967296 ->
  exists id, new_id (s0 :: s1 :: tl) now seq unique = Ok id
    /\ len id = 16 + 4 * len (s0 :: s1 :: tl)
    /\ id_ssid id = Ok (s0 :: s1 :: tl)
    /\ id_contract id = Ok s0
    /\ id_time id = Ok now.
Proof. exact id_fields. Qed.
Print Assumptions C19_id_fields.

(* ids created later for a channel sort (byte-wise) before earlier ones; "later" = a later second,
   or the same second and a larger sequence number (no wrap of the 32-bit counter in between) *)
Theorem C19_id_order : forall ssid1 ssid2 t1 t2 q1 q2 u1 u2 id1 id2,
  new_id ssid1 t1 q1 u1 = Ok id1 -> new_id ssid2 t2 q2 u2 = Ok id2 ->
  N.lxor (hd 0 ssid1) (hd 0 (tl ssid1)) = N.lxor (hd 0 ssid2) (hd 0 (tl ssid2)) ->
  time_ok t1 -> time_ok t2 -> q1 < 4294967296 -> q2 < 4294967296 ->
  (t1 < t2)%Z \/ (t1 = t2 /\ q1 < q2) ->
  lex_ltb id2 id1 = true.
Proof. exact id_order. Qed.
Print Assumptions C19_id_order.

(* no two ids are equal unless created in the same second with the same sequence number (the
   sequence comes from atomic.AddUint32, so concurrent creators get distinct numbers) *)
Theorem C19_id_unique : forall ssid1 ssid2 t1 t2 q1 q2 u1 u2 id,
  new_id ssid1 t1 q1 u1 = Ok id -> new_id ssid2 t2 q2 u2 = Ok id ->
  time_ok t1 -> time_ok t2 -> q1 < 4294967296 -> q2 < 4294967296 ->
  t1 = t2 /\ q1 = q2.
Proof. exact id_unique. Qed.
Print Assumptions C19_id_unique.

(* Split never drops, duplicates or reorders; the head respects the bound; the head is empty only
   when the first message alone reaches the bound *)
Theorem C19_split_partition : forall f max h t,
  split f max = (h, t) ->
  h ++ t = f /\ (h = [] \/ total h < max) /\ (forall m r, f = m :: r -> h = [] -> max <= msize m).
Proof.
  intros f max h t E. unfold split in E. destruct (split_go_spec _ _ _ _ _ E) as (A & B & C).
  repeat split; [exact A | destruct B as [B|B]; [left; exact B | right; exact B] | exact C].
Qed.
Print Assumptions C19_split_partition.

(* for every interleaving of Send calls (any number of senders; each call atomic under the peer's
   mutex), timer ticks and chunk rounds, with every chunk bound above every message size:
   transport ++ in-flight ++ queue is exactly the accepted messages in order - nothing dropped,
   duplicated or reordered - and once drained the transport has received all of them *)
Theorem C19_forward_exactly_once_in_order : forall es,
  sched_ok es ->
  pending (pq_run es) = accepted es
  /\ (q_swapped (pq_run es) = [] -> q_frame (pq_run es) = [] -> concat (q_sent (pq_run es)) = accepted es).
Proof. intros es H. split; [apply run_pending; exact H | apply drained_all; exact H]. Qed.
Print Assumptions C19_forward_exactly_once_in_order.

(* non-vacuity *)
Example C19_nonvacuous :
  msg_ok (Msg [1;2;3] [97;47] (rep 300 7) 4294967295)
  /\ time_ok 1700000000%Z
  /\ (exists id, new_id [5;6;7] 1700000000%Z 9 77 = Ok id /\ len id = 28)
  /\ sched_ok [PSend (Msg [1] [] [] 0) true; PTick; PSend (Msg [2] [] [] 0) true; PChunk 1000]
  /\ q_sent (pq_run [PSend (Msg [1] [] [] 0) true; PTick; PSend (Msg [2] [] [] 0) true; PChunk 1000])
     = [[Msg [1] [] [] 0]].
Proof.
  repeat split; try (vm_compute; (reflexivity || discriminate || (repeat split; discriminate))).
  - eexists. split; reflexivity.
  - intros max m Hc Hm. cbn in Hc, Hm.
    destruct Hc as [Hc|[Hc|[Hc|[Hc|[]]]]]; try discriminate. injection Hc as <-.
    destruct Hm as [<-|[<-|[]]]; vm_compute; reflexivity.
Qed.
