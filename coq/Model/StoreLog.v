(* C15: the store protocol over a key-value engine whose committed transactions are durable and
   atomic.  Store(m) = one transaction (key = id, value = Encode(m), expiry = id time + ttl),
   acknowledged only after the commit returned.  A crash may hit before, inside or after a store
   call.  The engine (badger) is abstract: [crash_keeps] is the assumption about it. *)
From Emitter Require Import Lib.Base Model.MsgCodec.

Inductive sop :=
| SStore (m : msg) (completed : bool)   (* a store call; completed = it returned (was acknowledged) *)
| SCrash                                (* the process dies; the next operation runs after restart *)
| SRestartClean.                        (* clean shutdown and restart *)

(* what the engine has committed; an in-flight transaction of an interrupted call may or may not
   have committed: the choice is an input ([landed]) *)
Record dstate := D { d_committed : list msg; d_acked : list msg; d_tried : list msg }.
Definition d0 := D [] [] [].

Definition dstep (landed : msg -> bool) (s : dstate) (o : sop) : dstate :=
  match o with
  | SStore m true => D (d_committed s ++ [m]) (d_acked s ++ [m]) (d_tried s ++ [m])
  | SStore m false => D (if landed m then d_committed s ++ [m] else d_committed s) (d_acked s) (d_tried s ++ [m])
  | SCrash => s            (* committed transactions survive the crash: the engine assumption *)
  | SRestartClean => s
  end.
