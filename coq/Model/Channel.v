(* internal/security/channel.go: ParseChannel (key / channel / options), getOption, Target. *)
From Emitter Require Import Lib.Base Model.Murmur.

Definition ChannelInvalid : N := 0.
Definition ChannelStatic : N := 1.
Definition ChannelWildcard : N := 2.

Record chan := Chan {
  c_key : bytes; c_chan : bytes; c_query : list N; c_opts : list (bytes * bytes); c_type : N }.
Definition invalid_chan := Chan [] [] [] [] ChannelInvalid.

Definition sep : N := 47.   (* config.ChannelSeparator '/' *)

(* parseKey: everything before the first '/', which must be non-empty *)
Fixpoint parse_key (text : bytes) (acc : bytes) : option (bytes * bytes) :=
  match text with
  | [] => None
  | c :: r => if c =? sep then (match acc with [] => None | _ => Some (rev acc, r) end)
              else parse_key r (c :: acc)
  end.

Definition is_wild_sym (c : N) : bool := (c =? 35) || (c =? 43) || (c =? 42).
Definition is_chan_sym (c : N) : bool :=
  ((45 <=? c) && (c <=? 58)) || ((65 <=? c) && (c <=? 122)) || (c =? 36).

(* parseChannel: returns (channel bytes, query, type, rest after the channel and an optional '?') *)
Fixpoint parse_chan (text : bytes) (consumed level : bytes) (query : list N)
         (chanChars wildcards : N) (ctype : N) : option (bytes * list N * N * bytes) :=
  match text with
  | [] => None
  | c :: r =>
    if c =? sep then
      if (chanChars =? 0) && (wildcards =? 0) then None
      else
        let query' := query ++ [murmur (rev level)] in
        let ch := rev (c :: consumed) in
        let ty := if ctype =? ChannelWildcard then ChannelWildcard else ChannelStatic in
        match r with
        | [] => Some (ch, query', ty, [])
        | c2 :: r2 => if c2 =? 63 then Some (ch, query', ty, r2)
                      else parse_chan r (c :: consumed) [] query' 0 0 ctype
        end
    else if is_wild_sym c then
      if (0 <? chanChars) || (0 <? wildcards) then None
      else parse_chan r (c :: consumed) (c :: level) query chanChars (wildcards + 1) ChannelWildcard
    else if is_chan_sym c then
      if 0 <? wildcards then None
      else parse_chan r (c :: consumed) (c :: level) query (chanChars + 1) wildcards ctype
    else None
  end.

Definition is_alnum (c : N) : bool :=
  ((48 <=? c) && (c <=? 57)) || ((65 <=? c) && (c <=? 90)) || ((97 <=? c) && (c <=? 122)).

(* one "key=value" segment; None = parse error *)
Fixpoint read_until (stop : N) (text acc : bytes) : option (bytes * option bytes) :=
  (* Some (token, Some rest) when [stop] was found; Some (token, None) at the end of input *)
  match text with
  | [] => Some (rev acc, None)
  | c :: r => if c =? stop then Some (rev acc, Some r)
              else if is_alnum c then read_until stop r (c :: acc) else None
  end.

Fixpoint parse_opts (fuel : nat) (text : bytes) : option (list (bytes * bytes)) :=
  match fuel with
  | O => None
  | S f =>
    match text with
    | [] => Some []
    | _ =>
      match read_until 61 text [] with            (* '=' *)
      | Some (key, Some r) =>
        match read_until 38 r [] with             (* '&' *)
        | Some (val, more) =>
          if is_nil key || is_nil val then None
          else match more with
               | None => Some [(key, val)]
               | Some r2 => match parse_opts f r2 with Some l => Some ((key, val) :: l) | None => None end
               end
        | None => None
        end
      | _ => None                                 (* no '=' before the end, or a bad character *)
      end
    end
  end.

Definition parse_channel (text : bytes) : chan :=
  match parse_key text [] with
  | None => invalid_chan
  | Some (key, rest) =>
    match parse_chan rest [] [] [] 0 0 ChannelInvalid with
    | None => invalid_chan
    | Some (ch, q, ty, rest2) =>
      match rest2 with
      | [] => Chan key ch q [] ty
      | _ => match parse_opts (S (length rest2)) rest2 with
             | Some o => Chan key ch q o ty
             | None => invalid_chan
             end
      end
    end
  end.

(* getOption: strconv.ParseInt(value, 10, 64) on an alphanumeric string *)
Definition is_digit (c : N) : bool := (48 <=? c) && (c <=? 57).
Definition parse_int (v : bytes) : option Z :=
  if is_nil v || negb (forallb is_digit v) then None
  else let n := fold_left (fun a c => a * 10 + (c - 48)) v 0 in
       if n <? 9223372036854775808 then Some (Z.of_N n) else None.

Fixpoint get_option (name : bytes) (opts : list (bytes * bytes)) : option Z :=
  match opts with
  | [] => None
  | (k, v) :: r => if bytes_eqb k name then parse_int v else get_option name r
  end.

Definition s_ttl : bytes := [116;116;108].
Definition s_last : bytes := [108;97;115;116].
Definition s_me : bytes := [109;101].
Definition s_from : bytes := [102;114;111;109].
Definition s_until : bytes := [117;110;116;105;108].

Definition chan_exclude (c : chan) : bool :=
  match get_option s_me (c_opts c) with Some 0%Z => true | _ => false end.
