(* C09: what hostile input can do.  The decoders of Model/Mqtt.v and Model/MsgCodec.v already
   return [Ok | Err | Panic]; this file adds (1) the buffer sizes the code allocates from numbers
   found in the input, (2) the loop of Conn.Process over a byte stream, (3) the cluster-port
   decoders (frame with the length guard, replicated state) and (4) where a panic lands:
   connection goroutine (Conn.Close recovers: that connection ends) or a goroutine of the gossip
   library (no recover of its own; the handlers of Swarm recover and return an error). *)
From Emitter Require Import Lib.Base Model.Mqtt Model.MsgCodec.

Inductive fate := Served | ConnClosed | Rejected | ProcessExit.

(* ---- client port ------------------------------------------------------------------------- *)

(* make([]byte, sizeOf) in DecodePacket *)
Definition packet_alloc (s : bytes) (max : N) : N :=
  match decode_header s with
  | None => 0
  | Some (_, size, mt, _) =>
    if (mt =? 12) || (mt =? 13) || (mt =? 14) then 0 else if max <? size then 0 else size
  end.

(* how Conn.Process ends on a finite stream: the reader runs dry (the connection then waits for
   more bytes until the peer closes or the 120 s deadline passes), an error, a recovered panic *)
Inductive pend := PWait | PClosedErr (e : merr) | PClosedPanic | PFuel.

Fixpoint process (fuel : nat) (s : bytes) (max : N) (served : list packet) : list packet * pend :=
  match fuel with
  | O => (served, PFuel)
  | S f =>
    match decode_packet s max with
    | Ok (p, rest) => process f rest max (served ++ [p])
    | Err EEOF => (served, PWait)
    | Err e => (served, PClosedErr e)
    | Panic => (served, PClosedPanic)
    end
  end.

Definition client_fate (s : bytes) (max : N) : fate :=
  match snd (process (S (length s)) s max []) with
  | PWait => Served
  | PClosedErr _ | PClosedPanic => ConnClosed
  | PFuel => ProcessExit      (* "hang": excluded by process_terminates *)
  end.

(* the up-front capacity of the history result buffer (SSD.lookup), from the client's ?last=N *)
Definition maxPrealloc : Z := 1024.
Definition lookup_prealloc (limit : Z) : Z :=
  if (limit <? 0)%Z || (maxPrealloc <? limit)%Z then maxPrealloc else limit.

(* ---- cluster port: unicast frames --------------------------------------------------------- *)

(* DecodeFrame after snappy: the announced count is bounded by a quarter of the payload *)
Definition dec_frame_guarded (d : bytes) : res cerr (list msg) :=
  match read_uvarint d with
  | Ok (n, _) => if len d / 4 <? n then Err CEOF else dec_frame d
  | _ => dec_frame d
  end.

(* number of slice elements reflect.MakeSlice is asked for *)
Definition frame_slots (d : bytes) : N :=
  match read_uvarint d with
  | Ok (n, _) => if len d / 4 <? n then 0 else n
  | _ => 0
  end.

(* Service.onPeerMessage: m.Ssid() and m.Contract() index the id *)
Definition peer_msg (m : msg) : res unit unit :=
  do _ <- id_ssid (m_id m); do _ <- id_contract (m_id m); Ok tt.
Definition peer_msg_ok (m : msg) : bool := match peer_msg m with Ok _ => true | _ => false end.

Definition land (recovering : bool) : fate := if recovering then Rejected else ProcessExit.

(* Swarm.OnGossipUnicast; [delivered] = the messages handed to the local subscribers *)
Fixpoint deliver (ms : list msg) : list msg * bool :=
  match ms with
  | [] => ([], true)
  | m :: r => if peer_msg_ok m then let '(d, ok) := deliver r in (m :: d, ok) else ([], false)
  end.

Definition unicast (recovering : bool) (d : bytes) : fate * list msg :=
  match dec_frame_guarded d with
  | Err _ => (Rejected, [])
  | Panic => (land recovering, [])
  | Ok ms => let '(del, ok) := deliver ms in (if ok then Served else land recovering, del)
  end.

(* ---- cluster port: replicated state ------------------------------------------------------- *)

Definition two63 : N := 9223372036854775808.

(* Decoder.ReadSlice: Slice(int(l)) with a negative int panics inside the slice expression *)
Definition read_slice (d : bytes) : res cerr (bytes * bytes) :=
  do (l, r) <- read_uvarint d;
  if two63 <=? l then Panic
  else if len r <? l then Err CEOF
  else Ok (take l r, drop l r).

(* the loop of codecVolatile.DecodeTo: [for i := 0; i < int(size); i++]; every round consumes at
   least two bytes or fails, so min(size, |d|+1) rounds are enough.  A value shorter than its two
   timestamps and a truncated entry are errors. *)
Fixpoint dec_entries (n : nat) (d : bytes) (acc : list (bytes * bytes)) : res cerr (list (bytes * bytes) * bytes) :=
  match n with
  | O => Ok (rev acc, d)
  | S k =>
    do (key, d1) <- read_slice d;
    do (v, d2) <- read_slice d1;
    if len v <? 16 then Err CEOF else dec_entries k d2 ((key, v) :: acc)
  end.

Definition dec_volatile (d : bytes) : res cerr (list (bytes * bytes) * bytes) :=
  do (size, r) <- read_uvarint d;
  if two63 <=? size then Ok ([], r)       (* int(size) < 0: the loop does not run *)
  else dec_entries (N.to_nat (N.min size (len r + 1))) r [].

(* reflectMapCodec.DecodeTo for map[uint8]Volatile: later entries overwrite earlier ones *)
Fixpoint dec_subsets (n : nat) (d : bytes) (acc : list (N * list (bytes * bytes))) : res cerr (list (N * list (bytes * bytes))) :=
  match n with
  | O => Ok acc
  | S k =>
    match d with
    | [] => Err CEOF
    | typ :: d1 =>
      do (v, d2) <- dec_volatile d1;
      dec_subsets k d2 ((typ, v) :: filter (fun e => negb (fst e =? typ)) acc)
    end
  end.

Definition dec_state (d : bytes) : res cerr (list (N * list (bytes * bytes))) :=
  do (l, r) <- read_uvarint d;
  if two63 <=? l then Ok []
  else dec_subsets (N.to_nat (N.min l (len r + 1))) r [].

Definition values_ok (st : list (N * list (bytes * bytes))) : bool :=
  forallb (fun e => forallb (fun kv : bytes * bytes => 16 <=? len (snd kv)) (snd e)) st.

(* Swarm.OnGossip / OnGossipBroadcast: decode, merge (all values hold their timestamps), then
   Subscriptions skips the keys that are too short *)
Definition gossip (recovering : bool) (d : bytes) : fate :=
  match dec_state d with
  | Err _ => Rejected
  | Panic => land recovering
  | Ok st => Served
  end.
