(* C17: the adapters deliver the byte stream unchanged. *)
From Emitter Require Import Lib.Base Model.Transport Proofs.ListFacts.
From Coq Require Import Lia.
Set Default Timeout 120.

(* ---- write queue ---- *)
Definition wq_stream (s : wq) : bytes := concat (q_sock s) ++ q_buf s.

Lemma wq_flush_stream s : wq_stream (wq_flush s) = wq_stream s.
Proof.
  unfold wq_flush, wq_stream. destruct (q_buf s) as [|x b] eqn:E; cbn [q_sock q_buf]; [rewrite E; reflexivity|].
  rewrite concat_app. cbn [concat]. rewrite !app_nil_r. reflexivity.
Qed.

(* whatever the limiter answers, the bytes that have reached or will reach the socket are the
   written buffers in order, each once *)
Theorem wq_write_stream s p limited : wq_stream (wq_write s p limited) = wq_stream s ++ p.
Proof.
  unfold wq_write. destruct limited.
  - unfold wq_stream. cbn [q_sock q_buf]. rewrite app_assoc. reflexivity.
  - destruct (q_buf s) as [|x b] eqn:E.
    + unfold wq_stream. cbn [q_sock q_buf]. rewrite concat_app, E. cbn [concat]. rewrite !app_nil_r. reflexivity.
    + rewrite wq_flush_stream. unfold wq_stream. cbn [q_sock q_buf]. rewrite E, app_assoc. reflexivity.
Qed.

Theorem wq_writes_stream : forall ws s,
  wq_stream (fold_left (fun a w => wq_write a (fst w) (snd w)) ws s) = wq_stream s ++ concat (map fst ws).
Proof.
  induction ws as [|[p l] ws IH]; intros s; cbn [fold_left map concat fst snd]; [rewrite app_nil_r; reflexivity|].
  rewrite IH, wq_write_stream, <- app_assoc. reflexivity.
Qed.

(* after a final flush everything is on the socket *)
Lemma wq_flush_empty s : q_buf (wq_flush s) = [].
Proof. unfold wq_flush. destruct (q_buf s) eqn:E; [exact E | reflexivity]. Qed.

(* ---- websocket read ---- *)
Definition data_stream (msgs : list (bool * bytes)) : bytes :=
  concat (map snd (filter fst msgs)).
Definition ws_stream (s : wsst) : bytes :=
  (match w_cur s with Some c => c | None => [] end) ++ data_stream (w_msgs s).

Lemma ws_next_stream : forall msgs p rest, ws_next msgs = Some (p, rest) -> data_stream msgs = p ++ data_stream rest.
Proof.
  induction msgs as [|[d x] msgs IH]; intros p rest E; [discriminate|]. cbn [ws_next] in E. destruct d.
  - injection E as <- <-. reflexivity.
  - unfold data_stream in *. cbn [filter fst]. apply IH. exact E.
Qed.

Lemma ws_next_none : forall msgs, ws_next msgs = None -> data_stream msgs = [].
Proof.
  induction msgs as [|[d x] msgs IH]; intros E; [reflexivity|]. cbn [ws_next] in E. destruct d; [discriminate|].
  unfold data_stream in *. cbn [filter fst]. apply IH. exact E.
Qed.

(* each Read returns the next bytes of the concatenated data-message payloads; control frames
   and message boundaries (incl. empty messages) are invisible *)
Theorem ws_read_stream s n out s' :
  ws_read s n = Some (out, s') -> ws_stream s = out ++ ws_stream s'.
Proof.
  unfold ws_read, ws_stream. destruct (w_cur s) as [c|] eqn:C.
  - destruct c as [|x c]; intros E; injection E as <- <-; cbn [w_cur w_msgs app].
    + reflexivity.
    + rewrite app_assoc, firstn_skipn. reflexivity.
  - destruct (ws_next (w_msgs s)) as [[c rest]|] eqn:N; [|discriminate].
    pose proof (ws_next_stream _ _ _ N) as D. rewrite D.
    destruct c as [|x c]; intros E; injection E as <- <-; cbn [w_cur w_msgs app].
    + reflexivity.
    + rewrite app_assoc, firstn_skipn. reflexivity.
Qed.

Theorem ws_read_end s n : ws_read s n = None -> ws_stream s = [].
Proof.
  unfold ws_read, ws_stream. destruct (w_cur s) as [c|]; [destruct c; discriminate|].
  destruct (ws_next (w_msgs s)) as [[c rest]|] eqn:N; [destruct c; discriminate|].
  intros _. apply ws_next_none. exact N.
Qed.

(* ---- sniffer ---- *)
Lemma src_read_stream src n out src' : src_read src n = (out, src') -> concat src = out ++ concat src'.
Proof.
  unfold src_read. destruct src as [|c r]; [intros E; injection E as <- <-; reflexivity|].
  destruct (Nat.leb (length c) n); intros E; injection E as <- <-; cbn [concat]; [reflexivity|].
  rewrite app_assoc, firstn_skipn. reflexivity.
Qed.

(* what the sniffer will still hand out: the not yet replayed part of the window, then the source *)
Definition sn_rest (s : sniffer) : bytes :=
  firstn (s_size s - s_read s) (skipn (s_read s) (s_buf s)) ++ concat (s_src s).

(* the window [0, size) lies inside the buffer *)
Definition sn_wf (s : sniffer) : Prop := (s_size s <= length (s_buf s))%nat \/ (s_size s <= s_read s)%nat.

Lemma firstn_firstn_skipn (l : bytes) a n : (n <= a)%nat ->
  firstn a l = firstn n (firstn a l) ++ firstn (a - n) (skipn n l).
Proof.
  intros H. rewrite <- (firstn_skipn n (firstn a l)) at 1. f_equal.
  rewrite skipn_firstn_comm. reflexivity.
Qed.

Lemma firstn_len_firstn {A} (l : list A) n : firstn (length (firstn n l)) l = firstn n l.
Proof.
  destruct (Nat.le_gt_cases n (length l)) as [H|H].
  - rewrite firstn_length_le by exact H. reflexivity.
  - replace (firstn n l) with l by (symmetry; apply firstn_all2; lia). apply firstn_all.
Qed.

Theorem sn_read_stream s n out s' :
  sn_read s n = (out, s') -> sn_rest s = out ++ sn_rest s'.
Proof.
  unfold sn_read, sn_rest. destruct (Nat.ltb_spec (s_read s) (s_size s)) as [Hlt|Hge].
  - intros E. injection E as <- <-. cbn [s_src s_buf s_read s_size].
    set (w := firstn (s_size s - s_read s) (skipn (s_read s) (s_buf s))).
    rewrite app_assoc. f_equal.
    assert (Lo : (length (firstn n w) <= s_size s - s_read s)%nat).
    { rewrite firstn_length. unfold w. rewrite firstn_length. lia. }
    replace (s_size s - (s_read s + length (firstn n w)))%nat with ((s_size s - s_read s) - length (firstn n w))%nat by lia.
    replace (skipn (s_read s + length (firstn n w)) (s_buf s)) with (skipn (length (firstn n w)) (skipn (s_read s) (s_buf s)))
      by (rewrite skipn_skipn'; reflexivity).
    unfold w at 1. rewrite (firstn_firstn_skipn (skipn (s_read s) (s_buf s)) (s_size s - s_read s) (length (firstn n w)) Lo).
    f_equal. fold w. apply firstn_len_firstn.
  - destruct (src_read (s_src s) n) as [o src'] eqn:R. intros E. injection E as <- <-.
    cbn [s_src s_buf s_read s_size].
    replace (s_size s - s_read s)%nat with 0%nat by lia. cbn [firstn app].
    apply (src_read_stream _ _ _ _ R).
Qed.

Theorem sn_reads_stream : forall sizes s out s',
  sn_reads s sizes = (out, s') -> sn_rest s = out ++ sn_rest s'.
Proof.
  induction sizes as [|n r IH]; intros s out s' E; cbn [sn_reads] in E.
  - injection E as <- <-. reflexivity.
  - destruct (sn_read s n) as [o s1] eqn:R1. destruct (sn_reads s1 r) as [o2 s2] eqn:R2.
    injection E as <- <-. rewrite (sn_read_stream _ _ _ _ R1), (IH _ _ _ R2), app_assoc. reflexivity.
Qed.

(* while sniffing, the buffer holds everything taken from the source so far *)
Definition sn_all (s : sniffer) : bytes := s_buf s ++ concat (s_src s).

Lemma sn_read_all s n out s' :
  s_sniff s = true -> sn_read s n = (out, s') -> sn_all s' = sn_all s /\ s_sniff s' = true.
Proof.
  intros Sf. unfold sn_read, sn_all. rewrite Sf. destruct (Nat.ltb (s_read s) (s_size s)).
  - intros E. injection E as <- <-. cbn [s_src s_buf s_sniff]. auto.
  - destruct (src_read (s_src s) n) as [o src'] eqn:R. intros E. injection E as <- <-.
    cbn [s_src s_buf s_sniff]. rewrite (src_read_stream _ _ _ _ R), app_assoc. auto.
Qed.

Lemma sn_reads_all : forall sizes s out s',
  s_sniff s = true -> sn_reads s sizes = (out, s') -> sn_all s' = sn_all s /\ s_sniff s' = true.
Proof.
  induction sizes as [|n r IH]; intros s out s' Sf E; cbn [sn_reads] in E.
  - injection E as <- <-. auto.
  - destruct (sn_read s n) as [o s1] eqn:R1. destruct (sn_reads s1 r) as [o2 s2] eqn:R2.
    injection E as <- <-. destruct (sn_read_all _ _ _ _ Sf R1) as [A1 S1].
    destruct (IH _ _ _ S1 R2) as [A2 S2]. split; [congruence | exact S2].
Qed.

Lemma reset_rest s snif : sn_rest (sn_reset s snif) = sn_all s.
Proof.
  unfold sn_rest, sn_reset, sn_all. cbn [s_src s_buf s_read s_size]. rewrite Nat.sub_0_r. cbn [skipn].
  rewrite firstn_all. reflexivity.
Qed.

Lemma reset_all s snif : sn_all (sn_reset s snif) = sn_all s.
Proof. reflexivity. Qed.

(* every sniffing round sees a prefix of the stream as it was when sniffing started *)
Theorem sn_round_prefix s sizes out s' :
  sn_round s sizes = (out, s') -> exists rest, sn_all s = out ++ rest /\ sn_all s' = sn_all s /\ s_sniff s' = true.
Proof.
  unfold sn_round. intros E.
  pose proof (sn_reads_stream _ _ _ _ E) as R. rewrite reset_rest in R.
  destruct (sn_reads_all sizes (sn_reset s true) out s' eq_refl E) as [A Sf].
  exists (sn_rest s'). rewrite reset_all in A. auto.
Qed.

(* after any number of sniffing rounds followed by doneSniffing, the bytes handed out are the
   whole stream from byte 0, in order, each once *)
Fixpoint sn_rounds (s : sniffer) (rounds : list (list nat)) : sniffer :=
  match rounds with
  | [] => s
  | r :: rs => sn_rounds (snd (sn_round s r)) rs
  end.

Theorem sniff_replay : forall rounds src sizes out s',
  sn_reads (sn_reset (sn_rounds (sn_reset (sniffer0 src) true) rounds) false) sizes = (out, s') ->
  concat src = out ++ sn_rest s'.
Proof.
  intros rounds src sizes out s' E.
  assert (G : forall rs s, s_sniff s = true -> sn_all (sn_rounds s rs) = sn_all s).
  { induction rs as [|r rs IH]; intros s Sf; [reflexivity|]. cbn [sn_rounds].
    destruct (sn_round s r) as [o s1] eqn:R. cbn [snd].
    destruct (sn_round_prefix _ _ _ _ R) as (rest & _ & A & S1). rewrite IH by exact S1. exact A. }
  pose proof (sn_reads_stream _ _ _ _ E) as R. rewrite reset_rest in R.
  rewrite G in R by reflexivity. unfold sn_all, sn_reset, sniffer0 in R. cbn [s_buf s_src app] in R. exact R.
Qed.
