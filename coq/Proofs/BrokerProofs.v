(* Facts about the generic broker model (Model/Broker.v), for any subscription index.  The index
   contract used by the exactness statements is [IxSpec]: an abstraction to the set of
   (filter, subscriber) pairs under which subscribe / unsubscribe are set insertion / removal and a
   lookup returns, once each, the subscribers holding a matching filter.  Spec.BrokerSpec.held_ix
   meets it by construction (below); for the trie it is what C01 proves (without share groups). *)
From Coq Require Import Lia.
From Emitter Require Import Lib.Base Model.MsgCodec Model.Murmur Model.Channel Model.Cipher Model.Key
     Model.Trie Model.Store Model.Broker Spec.PubSub Spec.BrokerSpec Proofs.ListFacts Proofs.TrieLookup.

Section generic.
Context {I : Type} (X : ixops I).
Notation broker := (@broker I).

(* b' is b with more packets written (and possibly more notifications queued): nothing else moved *)
Definition ext (b b' : broker) : Prop :=
  b_trie b' = b_trie b /\ b_conns b' = b_conns b /\ b_store b' = b_store b /\ b_seq b' = b_seq b
  /\ b_queue b' = b_queue b /\ exists more, b_out b' = b_out b ++ more.

Lemma ext_refl b : ext b b.
Proof. unfold ext. repeat (split; [reflexivity|]). exists []. rewrite app_nil_r. reflexivity. Qed.

Lemma ext_trans a b c : ext a b -> ext b c -> ext a c.
Proof.
  intros (A1 & A2 & A3 & A4 & A5 & m1 & A6) (B1 & B2 & B3 & B4 & B5 & m2 & B6). unfold ext.
  rewrite B1, B2, B3, B4, B5. repeat (split; [assumption|]).
  exists (m1 ++ m2). rewrite B6, A6, app_assoc. reflexivity.
Qed.

Lemma ext_emit b i p : ext b (emit b i p).
Proof. unfold ext, emit; cbn. repeat (split; [reflexivity|]). exists [(i, p)]. reflexivity. Qed.

Lemma fold_ext {A} (f : broker -> A -> broker) :
  (forall acc x, ext acc (f acc x)) -> forall l b, ext b (fold_left f l b).
Proof.
  intros H. induction l as [|x l IH]; intros b; cbn [fold_left]; [apply ext_refl|].
  eapply ext_trans; [apply H | apply IH].
Qed.

(* ---- delivery ---- *)

(* the connections a publish is written to *)
Definition target_of (conns : list (option conn)) (exclude : option N) (s : N) : list N :=
  match exclude with
  | Some x => if s =? x then [] else match conn_of_sub conns s 0 with Some i => [i] | None => [] end
  | None => match conn_of_sub conns s 0 with Some i => [i] | None => [] end
  end.
Definition targets (mqtt : bool) (b : broker) (ssid : list N) (exclude : option N) : list N :=
  flat_map (target_of (b_conns b) exclude) (ix_lookup X mqtt ssid (b_trie b)).

Lemma deliver_fold (p : pkt) exclude conns : forall l acc, b_conns acc = conns ->
  let f := (fun acc s =>
               match exclude with
               | Some x => if s =? x then acc else
                             match conn_of_sub (b_conns acc) s 0 with Some i => emit acc i p | None => acc end
               | None => match conn_of_sub (b_conns acc) s 0 with Some i => emit acc i p | None => acc end
               end) in
  ext acc (fold_left f l acc) /\
  b_out (fold_left f l acc) = b_out acc ++ map (fun i => (i, p)) (flat_map (target_of conns exclude) l).
Proof.
  induction l as [|s l IH]; intros acc Hc f; cbn [fold_left flat_map map].
  - split; [apply ext_refl | rewrite app_nil_r; reflexivity].
  - assert (ext acc (f acc s) /\ b_out (f acc s) = b_out acc ++ map (fun i => (i, p)) (target_of conns exclude s)) as [E O].
    { unfold f, target_of. rewrite Hc. destruct exclude as [x|].
      - destruct (s =? x); [split; [apply ext_refl | rewrite app_nil_r; reflexivity]|].
        destruct (conn_of_sub conns s 0); [split; [apply ext_emit | reflexivity] | split; [apply ext_refl | rewrite app_nil_r; reflexivity]].
      - destruct (conn_of_sub conns s 0); [split; [apply ext_emit | reflexivity] | split; [apply ext_refl | rewrite app_nil_r; reflexivity]]. }
    assert (b_conns (f acc s) = conns) as Hc' by (destruct E as (_ & E2 & _); rewrite E2; exact Hc).
    destruct (IH (f acc s) Hc') as [E' O']. split; [eapply ext_trans; eassumption|].
    fold f in O'. fold f. rewrite O', O, map_app, app_assoc. reflexivity.
Qed.

(* a publish writes the message to exactly the target connections, in lookup order, and moves nothing else *)
Theorem deliver_exact mqtt b ssid ch payload exclude :
  ext b (deliver X mqtt b ssid ch payload exclude)
  /\ b_out (deliver X mqtt b ssid ch payload exclude)
     = b_out b ++ map (fun i => (i, PMsg ch payload)) (targets mqtt b ssid exclude).
Proof. unfold deliver, targets. apply (deliver_fold (PMsg ch payload)). reflexivity. Qed.

Lemma conn_of_sub_sound : forall l s k i, conn_of_sub l s k = Some i ->
  k <= i /\ exists c, get_conn l (N.to_nat (i - k)) = Some c /\ cn_sub c = s.
Proof.
  induction l as [|[c|] l IH]; intros s k i H; cbn [conn_of_sub] in H; [discriminate| |].
  - destruct (cn_sub c =? s) eqn:E.
    + inversion H; subst. split; [lia|]. rewrite N.sub_diag. cbn. exists c. split; [reflexivity|]. apply N.eqb_eq. exact E.
    + apply IH in H. destruct H as [L (c' & G & Hs)]. split; [lia|].
      replace (N.to_nat (i - k)) with (S (N.to_nat (i - (k + 1)))) by lia. cbn. exists c'. auto.
  - apply IH in H. destruct H as [L (c' & G & Hs)]. split; [lia|].
    replace (N.to_nat (i - k)) with (S (N.to_nat (i - (k + 1)))) by lia. cbn. exists c'. auto.
Qed.

Lemma conn_of_sub_inj l s1 s2 i : conn_of_sub l s1 0 = Some i -> conn_of_sub l s2 0 = Some i -> s1 = s2.
Proof.
  intros A B. apply conn_of_sub_sound in A. apply conn_of_sub_sound in B.
  destruct A as [_ (c1 & G1 & S1)]. destruct B as [_ (c2 & G2 & S2)]. rewrite G1 in G2. inversion G2; subst. reflexivity.
Qed.

Lemma in_target_of conns exclude s i :
  In i (target_of conns exclude s) <-> conn_of_sub conns s 0 = Some i /\ exclude <> Some s.
Proof.
  unfold target_of. destruct exclude as [x|].
  - destruct (s =? x) eqn:E.
    + apply N.eqb_eq in E. subst. split; [intros [] | intros [_ H]; exfalso; apply H; reflexivity].
    + apply N.eqb_neq in E. destruct (conn_of_sub conns s 0) as [j|]; cbn.
      * split; [intros [H|[]]; subst; split; [reflexivity | intros H; inversion H; subst; apply E; reflexivity]
               | intros [H _]; inversion H; left; reflexivity].
      * split; [intros [] | intros [H _]; discriminate].
  - destruct (conn_of_sub conns s 0) as [j|]; cbn.
    + split; [intros [H|[]]; subst; split; [reflexivity | discriminate] | intros [H _]; inversion H; left; reflexivity].
    + split; [intros [] | intros [H _]; discriminate].
Qed.

Lemma in_targets mqtt b ssid exclude i :
  In i (targets mqtt b ssid exclude) <->
  exists s, In s (ix_lookup X mqtt ssid (b_trie b)) /\ conn_of_sub (b_conns b) s 0 = Some i /\ exclude <> Some s.
Proof.
  unfold targets. rewrite in_flat_map. split; intros (s & A & B); exists s; (split; [exact A|]); apply in_target_of; exact B.
Qed.

Lemma NoDup_targets conns exclude : forall l, NoDup l -> NoDup (flat_map (target_of conns exclude) l).
Proof.
  induction l as [|s l IH]; intros N; cbn [flat_map]; [constructor|].
  inversion N as [|? ? Hn Nl]; subst.
  assert (forall i, In i (target_of conns exclude s) -> ~ In i (flat_map (target_of conns exclude) l)) as D.
  { intros i Hi Hj. apply in_target_of in Hi. apply in_flat_map in Hj. destruct Hj as (s2 & In2 & Hj).
    apply in_target_of in Hj. destruct Hi as [Hi _]. destruct Hj as [Hj _].
    pose proof (conn_of_sub_inj _ _ _ _ Hi Hj). subst. contradiction. }
  assert (NoDup (target_of conns exclude s)) as N1.
  { unfold target_of. destruct exclude as [x|]; [destruct (s =? x); [constructor|]|];
      destruct (conn_of_sub conns s 0); repeat constructor; intros []. }
  specialize (IH Nl). revert N1 D. generalize (target_of conns exclude s) as t. induction t as [|a t IHt]; intros N1 D; cbn; [exact IH|].
  inversion N1; subst. constructor.
  - intros H. apply in_app_or in H. destruct H as [H|H]; [contradiction|]. apply (D a); [left; reflexivity | exact H].
  - apply IHt; [assumption|]. intros i Hi. apply D. right. exact Hi.
Qed.

(* ---- presence status ---- *)
Lemma in_presence_who mqtt b ssid i u :
  In (i, u) (presence_who X mqtt b ssid) <->
  exists s c, In s (ix_lookup X mqtt ssid (b_trie b)) /\ conn_of_sub (b_conns b) s 0 = Some i
              /\ get_conn (b_conns b) (N.to_nat i) = Some c /\ u = cn_user c.
Proof.
  unfold presence_who. rewrite in_flat_map. split.
  - intros (s & A & B). destruct (conn_of_sub (b_conns b) s 0) as [j|] eqn:E; [|destruct B].
    destruct (get_conn (b_conns b) (N.to_nat j)) as [c|] eqn:G; [|destruct B].
    destruct B as [B|[]]. inversion B; subst. exists s, c. auto.
  - intros (s & c & A & B & G & U). exists s. split; [exact A|]. rewrite B, G. left. subst. reflexivity.
Qed.

(* ---- requests that fail change nothing ---- *)
Lemma on_subscribe_error e b i c topic b' st : on_subscribe X e b i c topic = (b', Some st) -> b' = b.
Proof.
  unfold on_subscribe. destruct (c_type _ =? ChannelInvalid); [intros H; inversion H; reflexivity|].
  destruct (auth e _ AllowRead) as [k|]; [|intros H; inversion H; reflexivity].
  destruct (has_permission k AllowExtend); [intros H; inversion H; reflexivity|].
  destruct (has_permission k AllowLoad); [|discriminate].
  destruct (chan_window _). discriminate.
Qed.

Lemma on_unsubscribe_error e b i c topic b' st : on_unsubscribe X e b i c topic = (b', Some st) -> b' = b.
Proof.
  unfold on_unsubscribe. destruct (c_type _ =? ChannelInvalid); [intros H; inversion H; reflexivity|].
  destruct (auth e _ AllowRead) as [k|]; [|intros H; inversion H; reflexivity].
  destruct (has_permission k AllowExtend); [intros H; inversion H; reflexivity | discriminate].
Qed.

Lemma on_publish_error e b i c mid retain topic payload r b' st :
  on_publish X e b i c mid retain topic payload r = (b', Some st) -> b' = b.
Proof.
  unfold on_publish. destruct (c_type _ =? ChannelInvalid); [intros H; inversion H; reflexivity|].
  destruct (negb _); [intros H; inversion H; reflexivity|].
  destruct (bytes_eqb _ s_emitter); [discriminate|].
  destruct (auth e _ AllowWrite) as [k|]; [|intros H; inversion H; reflexivity].
  destruct (has_permission k AllowExtend); [intros H; inversion H; reflexivity | discriminate].
Qed.

(* dispatching the queued notifications writes packets and empties the queue: nothing else *)
Lemma dispatch_state e (b : broker) :
  b_trie (dispatch X e b) = b_trie b /\ b_conns (dispatch X e b) = b_conns b /\ b_store (dispatch X e b) = b_store b
  /\ b_seq (dispatch X e b) = b_seq b /\ b_queue (dispatch X e b) = [] /\ exists more, b_out (dispatch X e b) = b_out b ++ more.
Proof.
  unfold dispatch.
  match goal with |- context [fold_left ?f (b_queue b) b] => pose proof (fold_ext f) as H; specialize (H ltac:(
    intros acc n; apply fold_ext; intros acc2 s; destruct (conn_of_sub (b_conns acc2) s 0); [apply ext_emit | apply ext_refl]) (b_queue b) b) end.
  destruct H as (A1 & A2 & A3 & A4 & A5 & A6). cbn. auto 10.
Qed.

(* ---- storing ---- *)
Lemma store_if_store e (b : broker) k ssid ch payload ttl :
  b_store (store_if e b k ssid ch payload ttl)
  = if (0 <? ttl) && has_permission k AllowStore
    then store_msg (e_retain e) (b_store b) (Msg (fresh_id e b ssid) ch payload ttl) else b_store b.
Proof. unfold store_if. destruct ((0 <? ttl) && has_permission k AllowStore); reflexivity. Qed.

Lemma store_if_rest e (b : broker) k ssid ch payload ttl :
  b_trie (store_if e b k ssid ch payload ttl) = b_trie b /\ b_conns (store_if e b k ssid ch payload ttl) = b_conns b
  /\ b_out (store_if e b k ssid ch payload ttl) = b_out b /\ b_queue (store_if e b k ssid ch payload ttl) = b_queue b.
Proof. unfold store_if. destruct ((0 <? ttl) && has_permission k AllowStore); cbn; auto. Qed.

(* ---- subscribe / unsubscribe events ---- *)
Lemma subscribe_ev_effect b i c ssid ch :
  has_ctr c ssid = false ->
  b_trie (subscribe_ev X b i c ssid ch) = ix_subscribe X ssid (cn_sub c) (b_trie b)
  /\ b_queue (subscribe_ev X b i c ssid ch) = b_queue b ++ [Notif true (0 :: presenceW :: ssid) ch i (cn_user c)]
  /\ b_out (subscribe_ev X b i c ssid ch) = b_out b /\ b_store (subscribe_ev X b i c ssid ch) = b_store b.
Proof. intros H. unfold subscribe_ev. rewrite H. cbn. auto. Qed.

Lemma subscribe_ev_repeat b i c ssid ch : has_ctr c ssid = true -> subscribe_ev X b i c ssid ch = b.
Proof. intros H. unfold subscribe_ev. rewrite H. reflexivity. Qed.

Lemma unsubscribe_ev_effect mqtt b i c ssid ch :
  has_ctr c ssid = true ->
  b_queue (unsubscribe_ev X mqtt b i c ssid ch) = b_queue b ++ [Notif false (0 :: presenceW :: ssid) ch i (cn_user c)]
  /\ b_out (unsubscribe_ev X mqtt b i c ssid ch) = b_out b /\ b_store (unsubscribe_ev X mqtt b i c ssid ch) = b_store b
  /\ (b_trie (unsubscribe_ev X mqtt b i c ssid ch) = ix_unsubscribe X ssid (cn_sub c) (b_trie b)
      \/ (b_trie (unsubscribe_ev X mqtt b i c ssid ch) = b_trie b /\ mem (cn_sub c) (ix_lookup X mqtt ssid (b_trie b)) = false)).
Proof.
  intros H. unfold unsubscribe_ev. rewrite H. cbn [negb]. cbn.
  destruct (mem (cn_sub c) (ix_lookup X mqtt ssid (b_trie b))); cbn; auto 10.
Qed.

Lemma unsubscribe_ev_not_held mqtt b i c ssid ch : has_ctr c ssid = false -> unsubscribe_ev X mqtt b i c ssid ch = b.
Proof. intros H. unfold unsubscribe_ev. rewrite H. reflexivity. Qed.

End generic.

(* ---- the index contract ---------------------------------------------------------------- *)
Record IxSpec {I : Type} (X : ixops I) (abs : I -> list (list N * N)) (inv : I -> Prop) (okf : list N -> Prop) : Prop := {
  ixs_empty : inv (ix_empty X) /\ abs (ix_empty X) = [];
  ixs_sub : forall f s t, inv t -> okf f ->
    inv (ix_subscribe X f s t) /\ forall p, In p (abs (ix_subscribe X f s t)) <-> In p (abs t) \/ p = (f, s);
  ixs_unsub : forall f s t, inv t ->
    inv (ix_unsubscribe X f s t) /\ forall p, In p (abs (ix_unsubscribe X f s t)) <-> In p (abs t) /\ p <> (f, s);
  ixs_lookup : forall m q t, inv t ->
    NoDup (ix_lookup X m q t) /\ forall s, In s (ix_lookup X m q t) <-> exists f, In (f, s) (abs t) /\ matches m f q = true
}.

Lemma hpair_eqb_eq a b : hpair_eqb a b = true <-> a = b.
Proof.
  unfold hpair_eqb. destruct a as [f s], b as [g t]. cbn. split.
  - intros H. apply andb_prop in H. destruct H as [A B]. apply N.eqb_eq in B.
    apply (Proofs.ListFacts.list_eqb_eq N.eqb) in A; [subst; reflexivity | intros x y; apply N.eqb_eq].
  - intros H. inversion H; subst. rewrite Proofs.ListFacts.list_eqb_refl; [apply N.eqb_refl | apply N.eqb_refl].
Qed.

(* the specification index meets the contract by construction *)
Theorem held_ix_spec : IxSpec held_ix (fun h => h) (fun _ => True) (fun _ => True).
Proof.
  constructor.
  - split; [exact Logic.I | reflexivity].
  - intros f s t _ _. split; [exact Logic.I|]. intros p. cbn.
    destruct (existsb (hpair_eqb (f, s)) t) eqn:E.
    + apply existsb_exists in E. destruct E as (x & Hx & E). apply hpair_eqb_eq in E. subst x.
      split; [auto | intros [H|H]; [exact H | subst; exact Hx]].
    + cbn. split; [intros [H|H]; [right; symmetry; exact H | left; exact H] | intros [H|H]; [right; exact H | left; symmetry; exact H]].
  - intros f s t _. split; [exact Logic.I|]. intros p. cbn. rewrite filter_In. split.
    + intros [A B]. split; [exact A|]. intros ->. rewrite (proj2 (hpair_eqb_eq (f, s) (f, s)) eq_refl) in B. discriminate.
    + intros [A B]. split; [exact A|]. destruct (hpair_eqb (f, s) p) eqn:E; [|reflexivity].
      apply hpair_eqb_eq in E. subst. contradiction.
  - intros m q t _. cbn. split; [apply Proofs.TrieLookup.NoDup_dedup|]. intros s.
    rewrite Proofs.TrieLookup.In_dedup, in_map_iff. split.
    + intros ([f s'] & E & H). cbn in E. subst s'. apply filter_In in H. destruct H as [H M]. exists f. auto.
    + intros (f & H & M). exists (f, s). split; [reflexivity|]. apply filter_In. auto.
Qed.
