From Emitter Require Import Lib.Base.
Theorem C05_placeholder : True. Proof. exact Logic.I. Qed.
Print Assumptions C05_placeholder.
