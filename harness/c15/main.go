// Harness for C15: a child process stores messages in the disk-backed store and acknowledges each
// store over a pipe; the parent kills it (SIGKILL) at arbitrary moments - also inside a store call -
// or stops it cleanly, reopens the same directory and queries; repeated over several cycles.
package main

import (
	"bufio"
	"bytes"
	"encoding/hex"
	"fmt"
	"os"
	"os/exec"
	"path/filepath"
	"strconv"
	"strings"
	"sync"
	"syscall"
	"time"

	"github.com/emitter-io/emitter/internal/message"
	"github.com/emitter-io/emitter/internal/provider/storage"
	"github.com/emitter-io/emitter/internal/zzverif/vlib"
)

var cfg *vlib.Config

func msgTerm(m message.Message) string {
	return vlib.App("Msg", vlib.Bytes(m.ID), vlib.Bytes(m.Channel), vlib.Bytes(m.Payload), vlib.N(uint64(m.TTL)))
}

// child: open the store, for each message print TRY, store, print ACK
// childStopUnderLoad: a publisher keeps storing while the main goroutine closes the store; every
// store that returned nil is acknowledged (also one that returns after the close).
func childStopUnderLoad(dir string, start, count, closeAfter int) {
	s := storage.NewSSD(nil)
	if err := s.Configure(map[string]interface{}{"dir": dir}); err != nil {
		fmt.Println("OPENFAIL", err)
		os.Exit(3)
	}
	var mu sync.Mutex
	say := func(f string, a ...interface{}) {
		mu.Lock()
		fmt.Printf(f+"\n", a...)
		mu.Unlock()
	}
	say("OPEN")
	acked := make(chan int, count)
	go func() {
		for i := start; i < start+count; i++ {
			ssid, ch := chanOf(i)
			m := message.New(ssid, ch, nil)
			m.Payload = payloadOf(i, len(m.ID))
			m.TTL = ttlOf(i)
			if isOld(i) {
				m.ID.SetTime(time.Now().Unix() - 40*86400)
			}
			say("TRY %d %s %d", i, hex.EncodeToString(m.ID), len(m.Payload))
			if err := s.Store(m); err == nil {
				say("ACK %d", i)
			} else {
				say("ERR %d", i)
			}
			acked <- i
		}
	}()
	for k := 0; k < closeAfter; k++ {
		<-acked
	}
	s.Close()
	time.Sleep(150 * time.Millisecond) // stores that overlapped the close have returned or are stuck
	say("CLOSED")
	os.Exit(0)
}

// payloadOf: small payloads, and now and then one that fills the largest message a query can return
// (id + channel + payload = 65536 bytes, or a few bytes less)
func isBig(i int) bool { return i%40 == 5 }
func chanOf(i int) (message.Ssid, []byte) {
	if isBig(i) {
		return message.Ssid{7, 14}, []byte("big/")
	}
	return message.Ssid{7, uint32(11 + i%3)}, []byte(fmt.Sprintf("ch%d/", i%3))
}

// some messages are old - published 40 days ago, longer than the default retention of retained
// messages - with a ttl of one year: they are as live as the others
func isOld(i int) bool { return i%17 == 3 }
func ttlOf(i int) uint32 {
	if isOld(i) {
		return 365 * 86400
	}
	return uint32(3600 + i)
}

func payloadOf(i, idLen int) []byte {
	n := 1 + (i*37)%48
	if isBig(i) {
		n = 65536 - idLen - len("big/") - (i/40)%9
	}
	pl := make([]byte, n)
	for k := range pl {
		pl[k] = byte(i + k)
		if isBig(i) && k >= 16 {
			pl[k] = byte(i) // a run: written compactly in the Coq term
		}
	}
	return pl
}

func child(dir string, start, count int, clean bool) {
	s := storage.NewSSD(nil)
	if err := s.Configure(map[string]interface{}{"dir": dir}); err != nil {
		fmt.Println("OPENFAIL", err)
		os.Exit(3)
	}
	fmt.Println("OPEN")
	out := bufio.NewWriter(os.Stdout)
	for i := start; i < start+count; i++ {
		ssid, ch := chanOf(i)
		m := message.New(ssid, ch, nil)
		m.Payload = payloadOf(i, len(m.ID))
		pl := m.Payload
		m.TTL = ttlOf(i)
		if isOld(i) {
			m.ID.SetTime(time.Now().Unix() - 40*86400)
		}
		fmt.Fprintf(out, "TRY %d %s %d\n", i, hex.EncodeToString(m.ID), len(pl))
		out.Flush()
		if err := s.Store(m); err != nil {
			fmt.Fprintf(out, "ERR %d\n", i)
			out.Flush()
			continue
		}
		fmt.Fprintf(out, "ACK %d\n", i)
		out.Flush()
	}
	if clean {
		s.Close()
		fmt.Println("CLOSED")
		os.Exit(0)
	}
	time.Sleep(time.Hour) // wait to be killed
}

func expected(i int, id []byte) message.Message {
	_, ch := chanOf(i)
	return message.Message{ID: id, Channel: ch, Payload: payloadOf(i, len(id)), TTL: ttlOf(i)}
}

func main() {
	if len(os.Args) > 1 && os.Args[1] == "child" {
		start, _ := strconv.Atoi(os.Args[3])
		count, _ := strconv.Atoi(os.Args[4])
		if os.Args[5] == "stopload" {
			ca, _ := strconv.Atoi(os.Args[6])
			childStopUnderLoad(os.Args[2], start, count, ca)
			return
		}
		child(os.Args[2], start, count, os.Args[5] == "clean")
		return
	}
	cfg = vlib.ParseFlags()
	r := cfg.Rng
	sh := vlib.NewShards(cfg.Out, "C15", "From Emitter Require Import Lib.Base Model.MsgCodec Check.C15.", "case", "check", 4)
	base, _ := os.MkdirTemp(cfg.Out, "kill")
	defer os.RemoveAll(base)
	nDirs := 4 * cfg.Mult
	cyclesPer := 4
	if cfg.Thorough() {
		nDirs, cyclesPer = 12, 6
	}
	for d := 0; d < nDirs; d++ {
		dir := filepath.Join(base, fmt.Sprintf("d%d", d))
		next := 0
		var cycleTerms []string
		kills, cleans := 0, 0
		for c := 0; c < cyclesPer; c++ {
			count := 10 + r.Intn(90)
			clean := r.Intn(3) == 0
			mode := "kill"
			closeAfter := 0
			if clean {
				mode = "clean"
				if r.Intn(2) == 0 {
					mode = "stopload" // the store is closed while the publisher is still storing
					closeAfter = r.Intn(count)
				}
			}
			cmd := exec.Command(os.Args[0], "child", dir, strconv.Itoa(next), strconv.Itoa(count), mode, strconv.Itoa(closeAfter))
			stdout, _ := cmd.StdoutPipe()
			cmd.Stderr = nil
			if err := cmd.Start(); err != nil {
				panic(err)
			}
			killAfter := r.Intn(count + 1) // kill when this many TRY lines were seen (possibly mid-store)
			probe, probeAt := r.Intn(3) == 0 && os.Getenv("NOPROBE") == "", 1+r.Intn(10)
			delay := time.Duration(r.Intn(300)) * time.Microsecond
			sc := bufio.NewScanner(stdout)
			tried := map[int][]byte{}
			var triedOrder []int
			acked := []uint64{}
			openFailed := false
			done := make(chan struct{})
			go func() {
				defer close(done)
				tries := 0
				for sc.Scan() {
					f := strings.Fields(sc.Text())
					switch f[0] {
					case "OPENFAIL":
						openFailed = true
					case "TRY":
						i, _ := strconv.Atoi(f[1])
						id, _ := hex.DecodeString(f[2])
						tried[i] = id
						triedOrder = append(triedOrder, i)
						tries++
						if probe && tries == probeAt {
							// another broker is started on the directory while this one is alive: it must
							// be refused and must not disturb the running one
							other := storage.NewSSD(nil)
							if err := other.Configure(map[string]interface{}{"dir": dir}); err == nil {
								other.Close()
							}
						}
						if !clean && tries >= killAfter && tries > 0 {
							time.Sleep(delay)
							cmd.Process.Signal(syscall.SIGKILL)
						}
					case "ACK":
						i, _ := strconv.Atoi(f[1])
						acked = append(acked, uint64(i))
					}
				}
			}()
			if !clean && killAfter == 0 {
				time.Sleep(delay)
				cmd.Process.Signal(syscall.SIGKILL)
			}
			select {
			case <-done:
			case <-time.After(60 * time.Second):
				cmd.Process.Kill()
				<-done
			}
			cmd.Wait()
			if clean {
				cleans++
			} else {
				kills++
			}
			next += count
			// reopen in this process and read everything back
			s := storage.NewSSD(nil)
			reopened := true
			if err := s.Configure(map[string]interface{}{"dir": dir}); err != nil {
				reopened = false
			}
			var recovered []string
			if reopened {
				for lvl := 0; lvl < 3; lvl++ {
					f, _ := s.Query(message.Ssid{7, uint32(11 + lvl)}, time.Unix(0, 0), time.Unix(0, 0), nil, 1000000)
					for _, m := range f {
						recovered = append(recovered, msgTerm(m))
					}
				}
				// the channel of the largest messages: one page holds one of them, continue page by page
				var from message.ID
				for page := 0; page < 200; page++ {
					f, _ := s.Query(message.Ssid{7, 14}, time.Unix(0, 0), time.Unix(0, 0), from, 1000000)
					if len(f) == 0 {
						break
					}
					for _, m := range f {
						recovered = append(recovered, msgTerm(m))
						if from == nil || bytes.Compare(m.ID, from) > 0 {
							from = append(message.ID{}, m.ID...)
						}
					}
				}
				s.Close()
			}
			var triedTerms []string
			for _, i := range triedOrder {
				triedTerms = append(triedTerms, vlib.Pair(vlib.N(uint64(i)), msgTerm(expected(i, tried[i]))))
			}
			cycleTerms = append(cycleTerms, vlib.App("Cycle", vlib.Bool(clean), vlib.Bool(!openFailed), vlib.List(triedTerms), vlib.NList(acked), vlib.Bool(reopened), vlib.List(recovered)))
		}
		sh.Add(vlib.App("CKill", vlib.List(cycleTerms)), map[string]interface{}{"op": "kill/restart cycles", "cycles": cyclesPer, "kills": kills, "clean_stops": cleans, "messages": next}, "kill-cycles", true)
	}
	sh.Finish("per state directory: cycles of a child process storing 10-100 messages (acknowledged one by one over a pipe), killed with SIGKILL after a random number of store attempts plus 0-300 us (so also inside a store call) or stopped cleanly (also while the publisher is still storing), in a third of the cycles a second store is opened on the directory while the child is alive (must be refused); some messages 40 days old with a ttl of one year; now and then a message of exactly the largest size a query can return (65536 bytes, or up to 8 less); then the directory is reopened and every channel queried (the channel of the largest messages page by page); all cycles reuse the directory; non-trivial: all")
}
