(* Model of one broker serving MQTT clients: broker/conn.go (onReceive, Close, GetLink/AddLink,
   CanSubscribe/CanUnsubscribe over message.Counters), service/pubsub (OnSubscribe, OnUnsubscribe,
   OnPublish, OnLastWill, Subscribe, Unsubscribe, Publish), service/link, service/presence (request
   handler, notification queue), service/me.  Every client request is one step; the packets written
   to each connection are the output.  Counters are keyed by the whole ssid (fix of F1).
   No proofs here. *)
From Emitter Require Import Lib.Base Model.MsgCodec Model.Murmur Model.Channel Model.Cipher Model.Key
     Model.Trie Model.Store.

Inductive will := Will (retain : bool) (topic msg : bytes).

Inductive pkt :=
| PConnack (code : N)
| PSuback (mid : N) (codes : bytes)
| PUnsuback (mid : N)
| PPuback (mid : N)
| PPingresp
| PError (status req : N)                                   (* publish on emitter/error/ *)
| PMsg (topic payload : bytes)                              (* an ordinary message *)
| PPresence (sub : bool) (channel : bytes) (who : N) (user : bytes)      (* presence change *)
| PPresenceStatus (req status : N) (channel : bytes) (who : list (N * bytes))
| PMe
| PLink (req status : N) (name channel : bytes)
| PHistory (req status : N) (msgs : list (bytes * bytes))   (* answer to emitter/history/: (channel, payload) of each message *)
| POther (topic : bytes) (status req : N)
| PUnknown.

Inductive op :=
| OConnect (user : bytes) (w : option will) (subid : N)
| OSub (mid : N) (topic : bytes) (qos : N)
| OUnsub (mid : N) (topic : bytes)
| OPub (mid : N) (retain : bool) (topic payload : bytes)
| OLink (mid : N) (name key channel : bytes) (subscribe : bool)
| OPresence (mid : N) (key channel : bytes) (status : bool) (changes : N)   (* 0 absent, 1 true, 2 false *)
| OHistory (mid : N) (channel : bytes)        (* emitter/history/ request; the channel text carries the key *)
| OPing
| OEnd (how : N)
| OReopen (subid : N).             (* a new connection in this slot; its id exists from the accept on *)

Record counter := Ctr { k_ssid : list N; k_chan : bytes }.
Record conn := Conn { cn_sub : N; cn_user : bytes; cn_will : option will; cn_connected : bool;
                      cn_ctrs : list counter; cn_links : list (bytes * bytes) }.
Definition conn0 := Conn 0 [] None false [] [].

Record notif := Notif { nf_sub : bool; nf_ssid : list N; nf_chan : bytes; nf_who : N; nf_user : bytes }.

(* the subscription index is abstract: the broker only subscribes, unsubscribes and looks up.
   Model: the trie of Model.Trie.  Specification (Spec.BrokerSpec): the plain set of
   (filter, subscriber) pairs with the matching relation of Spec.PubSub. *)
Record ixops (I : Type) := IxOps {
  ix_empty : I;
  ix_subscribe : list N -> N -> I -> I;
  ix_unsubscribe : list N -> N -> I -> I;
  ix_lookup : bool -> list N -> I -> list N;
}.
Arguments ix_empty {I}. Arguments ix_subscribe {I}. Arguments ix_unsubscribe {I}. Arguments ix_lookup {I}.

Section generic.
Context {I : Type} (X : ixops I).

Record broker := B { b_trie : I; b_conns : list (option conn); b_store : store; b_seq : N;
                     b_queue : list notif; b_out : list (N * pkt) }.

Record env := Env { e_mqtt : bool; e_contract : N; e_sign : N; e_now : Z; e_keys : list (bytes * key); e_retain : N }.

Definition ssid_eqb := list_eqb N.eqb.
Definition presenceW : N := 3869262148.

(* ---- helpers ---- *)
Fixpoint get_conn (l : list (option conn)) (i : nat) : option conn :=
  match l, i with
  | c :: _, O => c
  | _ :: r, S j => get_conn r j
  | [], _ => None
  end.
Fixpoint set_conn (l : list (option conn)) (i : nat) (c : option conn) : list (option conn) :=
  match l, i with
  | _ :: r, O => c :: r
  | x :: r, S j => x :: set_conn r j c
  | [], _ => []
  end.

Definition emit (b : broker) (i : N) (p : pkt) : broker :=
  B (b_trie b) (b_conns b) (b_store b) (b_seq b) (b_queue b) (b_out b ++ [(i, p)]).
Definition with_conn (b : broker) (i : N) (c : conn) : broker :=
  B (b_trie b) (set_conn (b_conns b) (N.to_nat i) (Some c)) (b_store b) (b_seq b) (b_queue b) (b_out b).

(* the connection holding a subscriber id *)
Fixpoint conn_of_sub (l : list (option conn)) (s : N) (i : N) : option N :=
  match l with
  | [] => None
  | Some c :: r => if cn_sub c =? s then Some i else conn_of_sub r s (i + 1)
  | None :: r => conn_of_sub r s (i + 1)
  end.

Definition decrypt_of (e : env) (s : bytes) : res kerr key :=
  match find (fun kv => bytes_eqb (fst kv) s) (e_keys e) with
  | Some kv => Ok (snd kv)
  | None => Err KCorrupt
  end.
Definition auth (e : env) (ch : chan) (perm : N) : option key :=
  authorize murmur (fun _ => false) (decrypt_of e)
            (fun id => if id =? e_contract e then Some (Contract (e_contract e) 1 (e_sign e) true) else None)
            (e_now e) ch perm.

(* bytes.ReplaceAll(topic, "#", "#/") then ("//", "/") *)
Fixpoint repl_hash (d : bytes) : bytes :=
  match d with [] => [] | c :: r => if c =? 35 then 35 :: 47 :: repl_hash r else c :: repl_hash r end.
Fixpoint repl_dslash (d : bytes) : bytes :=
  match d with
  | a :: ((b :: r) as t) => if (a =? 47) && (b =? 47) then 47 :: repl_dslash r else a :: repl_dslash t
  | _ => d
  end.

(* Channel.SafeString / String *)
Fixpoint opts_string (o : list (bytes * bytes)) (first : bool) : bytes :=
  match o with
  | [] => []
  | (k, v) :: r => (if first then [63] else [38]) ++ k ++ [61] ++ v ++ opts_string r false
  end.
Definition safe_string (c : chan) : bytes := c_chan c ++ opts_string (c_opts c) true.
Definition chan_string (c : chan) : bytes := c_key c ++ [47] ++ safe_string c.

(* toUnix of the window options *)
Definition to_unix (t : Z) : Z := if (t =? 0)%Z || (t <? 1514764800)%Z || (3029529600 <? t)%Z then 0%Z else t.
Definition chan_window (c : chan) : Z * Z :=
  (to_unix (match get_option s_from (c_opts c) with Some v => v | None => 0%Z end),
   to_unix (match get_option s_until (c_opts c) with Some v => v | None => 0%Z end)).

(* ---- subscribe / unsubscribe at the pubsub service level ---- *)
Definition has_ctr (c : conn) (ssid : list N) : bool := existsb (fun k => ssid_eqb (k_ssid k) ssid) (cn_ctrs c).

Definition enqueue (b : broker) (n : notif) : broker :=
  B (b_trie b) (b_conns b) (b_store b) (b_seq b) (b_queue b ++ [n]) (b_out b).

(* pubsub.Subscribe(conn, ev) *)
Definition subscribe_ev (b : broker) (i : N) (c : conn) (ssid : list N) (ch : bytes) : broker :=
  if has_ctr c ssid then b                                            (* CanSubscribe = false *)
  else
    let c' := Conn (cn_sub c) (cn_user c) (cn_will c) (cn_connected c) (cn_ctrs c ++ [Ctr ssid ch]) (cn_links c) in
    let b1 := with_conn b i c' in
    let b2 := B (ix_subscribe X ssid (cn_sub c) (b_trie b1)) (b_conns b1) (b_store b1) (b_seq b1) (b_queue b1) (b_out b1) in
    enqueue b2 (Notif true (0 :: presenceW :: ssid) ch i (cn_user c)).

(* pubsub.Unsubscribe(conn, ev) *)
Definition unsubscribe_ev (mqtt : bool) (b : broker) (i : N) (c : conn) (ssid : list N) (ch : bytes) : broker :=
  if negb (has_ctr c ssid) then b                                     (* CanUnsubscribe = false *)
  else
    let c' := Conn (cn_sub c) (cn_user c) (cn_will c) (cn_connected c)
                   (filter (fun k => negb (ssid_eqb (k_ssid k) ssid)) (cn_ctrs c)) (cn_links c) in
    let b1 := with_conn b i c' in
    let present := mem (cn_sub c) (ix_lookup X mqtt ssid (b_trie b1)) in
    let t := if present then ix_unsubscribe X ssid (cn_sub c) (b_trie b1) else b_trie b1 in
    let b2 := B t (b_conns b1) (b_store b1) (b_seq b1) (b_queue b1) (b_out b1) in
    enqueue b2 (Notif false (0 :: presenceW :: ssid) ch i (cn_user c)).

(* pubsub.Publish: one Send per subscriber the lookup returns (filter: not the excluded id) *)
Definition deliver (mqtt : bool) (b : broker) (ssid : list N) (ch payload : bytes) (exclude : option N) : broker :=
  fold_left (fun acc s =>
               match exclude with
               | Some x => if s =? x then acc else
                             match conn_of_sub (b_conns acc) s 0 with Some i => emit acc i (PMsg ch payload) | None => acc end
               | None => match conn_of_sub (b_conns acc) s 0 with Some i => emit acc i (PMsg ch payload) | None => acc end
               end)
            (ix_lookup X mqtt ssid (b_trie b)) b.

(* a new message id: only its order matters to the model *)
Definition fresh_id (e : env) (b : broker) (ssid : list N) : bytes :=
  match new_id ssid (e_now e) (b_seq b + 1) 0 with Ok id => id | _ => [] end.

Definition store_if (e : env) (b : broker) (k : key) (ssid : list N) (ch payload : bytes) (ttl : N) : broker :=
  let b1 := B (b_trie b) (b_conns b) (b_store b) (b_seq b + 1) (b_queue b) (b_out b) in
  if (0 <? ttl) && has_permission k AllowStore then
    B (b_trie b1) (b_conns b1) (store_msg (e_retain e) (b_store b1) (Msg (fresh_id e b ssid) ch payload ttl))
      (b_seq b1) (b_queue b1) (b_out b1)
  else b1.

(* ---- request handlers: Some status = error to notify ---- *)
Definition on_subscribe (e : env) (b : broker) (i : N) (c : conn) (topic : bytes) : broker * option N :=
  let ch := parse_channel (repl_dslash (repl_hash topic)) in
  if c_type ch =? ChannelInvalid then (b, Some 400)
  else match auth e ch AllowRead with
       | None => (b, Some 401)
       | Some k =>
         if has_permission k AllowExtend then (b, Some 401)
         else
           let ssid := key_contract k :: c_query ch in
           let b1 := subscribe_ev b i c ssid (c_chan ch) in
           let limit := match get_option s_last (c_opts ch) with Some v => Z.to_N v | None => 1 end in
           if has_permission k AllowLoad then
             let '(t0, t1) := chan_window ch in
             let msgs := query (b_store b1) (e_now e) ssid t0 t1 [] limit in
             (fold_left (fun acc m => emit acc i (PMsg (m_chan m) (m_payload m))) msgs b1, None)
           else (b1, None)
       end.

Definition on_unsubscribe (e : env) (b : broker) (i : N) (c : conn) (topic : bytes) : broker * option N :=
  let ch := parse_channel topic in
  if c_type ch =? ChannelInvalid then (b, Some 400)
  else match auth e ch AllowRead with
       | None => (b, Some 401)
       | Some k =>
         if has_permission k AllowExtend then (b, Some 401)
         else (unsubscribe_ev (e_mqtt e) b i c (key_contract k :: c_query ch) (c_chan ch), None)
       end.

Definition s_emitter : bytes := [101;109;105;116;116;101;114].
Definition h_link : N := murmur [108;105;110;107].
Definition h_presence : N := murmur [112;114;101;115;101;110;99;101].
Definition h_me : N := murmur [109;101].
Definition h_history : N := murmur [104;105;115;116;111;114;121].

Definition is_alnum12 (s : bytes) : bool := ((len s =? 1) || (len s =? 2)) && forallb is_alnum s.

Definition slash_suffix (s : bytes) : bytes := match rev s with c :: _ => if c =? 47 then s else s ++ [47] | [] => [47] end.

(* who would receive a message published to the channel now: connections among the lookup *)
Definition presence_who (mqtt : bool) (b : broker) (ssid : list N) : list (N * bytes) :=
  flat_map (fun s => match conn_of_sub (b_conns b) s 0 with
                     | Some i => match get_conn (b_conns b) (N.to_nat i) with Some c => [(i, cn_user c)] | None => [] end
                     | None => [] end)
           (ix_lookup X mqtt ssid (b_trie b)).

Inductive ereq :=
| ELink (name key channel : bytes) (subscribe : bool)
| EPresence (key channel : bytes) (status : bool) (changes : N)
| EHistory (channel : bytes)
| ENone.

Definition on_emitter (e : env) (b : broker) (i : N) (c : conn) (ch : chan) (mid : N) (r : ereq) : broker :=
  let topic := chan_string ch in
  match c_query ch with
  | [q] =>
    if q =? h_me then emit b i PMe
    else if q =? h_link then
      match r with
      | ELink name key channel sub =>
        if negb (is_alnum12 name) then emit b i (PLink mid 400 [] [])
        else
          let lc := parse_channel (key ++ [47] ++ channel) in
          if c_type lc =? ChannelInvalid then emit b i (PLink mid 400 [] [])
          else
            let c' := Conn (cn_sub c) (cn_user c) (cn_will c) (cn_connected c) (cn_ctrs c)
                           ((name, chan_string lc) :: filter (fun kv => negb (bytes_eqb (fst kv) name)) (cn_links c)) in
            let b1 := with_conn b i c' in
            let b2 := match auth e lc AllowRead with
                      | Some k => if sub && negb (has_permission k AllowExtend)   (* an extendable key is for extension only *)
                                  then subscribe_ev b1 i c' (key_contract k :: c_query lc) (c_chan lc) else b1
                      | None => b1
                      end in
            emit b2 i (PLink mid 200 name (safe_string lc))
      | _ => emit b i (PLink mid 400 [] [])
      end
    else if q =? h_history then
      (* history.OnRequest: the key travels inside the channel text; limit = the 'last' option or 1;
         the store's answer for (contract :: query, window, no continuation, limit) *)
      match r with
      | EHistory channel =>
        let hc := parse_channel channel in
        if c_type hc =? ChannelInvalid then emit b i (PHistory mid 400 [])
        else match auth e hc AllowLoad with
             | None => emit b i (PHistory mid 401 [])
             | Some k =>
               let limit := match get_option s_last (c_opts hc) with Some v => Z.to_N v | None => 1 end in
               let '(t0, t1) := chan_window hc in
               let msgs := query (b_store b) (e_now e) (key_contract k :: c_query hc) t0 t1 [] limit in
               emit b i (PHistory mid 200 (map (fun m => (m_chan m, m_payload m)) msgs))
             end
      | _ => emit b i (PHistory mid 400 [])
      end
    else if q =? h_presence then
      match r with
      | EPresence key channel status changes =>
        let channel' := slash_suffix channel in
        let pc := parse_channel (key ++ [47] ++ channel') in
        if c_type pc =? ChannelInvalid then emit b i (PPresenceStatus mid 400 [] [])
        else match auth e pc AllowPresence with
             | None => emit b i (PPresenceStatus mid 401 [] [])
             | Some k =>
               if has_permission k AllowExtend then emit b i (PPresenceStatus mid 401 [] [])
               else
                 let ssid := key_contract k :: c_query pc in
                 let pssid := 0 :: presenceW :: ssid in
                 let b1 := if changes =? 1 then subscribe_ev b i c pssid (c_chan pc)
                           else if changes =? 2 then unsubscribe_ev (e_mqtt e) b i c pssid (c_chan pc)
                           else b in
                 if status then emit b1 i (PPresenceStatus mid 200 channel' (presence_who (e_mqtt e) b1 ssid))
                 else emit b1 i (PPresenceStatus mid 200 [] [])
             end
      | _ => emit b i (PPresenceStatus mid 400 [] [])
      end
    else emit b i (POther topic 404 mid)
  | _ => emit b i (POther topic 404 mid)
  end.

Definition get_link (c : conn) (topic : bytes) : bytes :=
  if len topic <=? 2 then
    match find (fun kv => bytes_eqb (fst kv) topic) (cn_links c) with Some kv => snd kv | None => [] end
  else topic.

Definition on_publish (e : env) (b : broker) (i : N) (c : conn) (mid : N) (retain : bool)
           (topic payload : bytes) (r : ereq) : broker * option N :=
  let ch := parse_channel (get_link c topic) in
  if c_type ch =? ChannelInvalid then (b, Some 400)
  else if negb (c_type ch =? ChannelStatic) then (b, Some 403)
  else if bytes_eqb (c_key ch) s_emitter then (on_emitter e b i c ch mid r, None)
  else match auth e ch AllowWrite with
       | None => (b, Some 401)
       | Some k =>
         if has_permission k AllowExtend then (b, Some 401)
         else
           let ssid := key_contract k :: c_query ch in
           let ttl0 := if retain then retainedTTL else 0 in
           let ttl := match get_option s_ttl (c_opts ch) with
                      | Some v => if (0 <? v)%Z then u32z v else ttl0
                      | None => ttl0 end in
           let b1 := store_if e b k ssid (c_chan ch) payload ttl in
           (deliver (e_mqtt e) b1 ssid (c_chan ch) payload (if chan_exclude ch then Some (cn_sub c) else None), None)
       end.

(* pubsub.OnLastWill *)
Definition on_last_will (e : env) (b : broker) (c : conn) : broker :=
  match cn_will c with
  | None => b
  | Some (Will retain topic msg) =>
    let ch := parse_channel topic in
    if negb (c_type ch =? ChannelStatic) then b
    else match auth e ch AllowWrite with
         | None => b
         | Some k =>
           if has_permission k AllowExtend then b
           else
             let ssid := key_contract k :: c_query ch in
             let b1 := store_if e b k ssid (c_chan ch) msg (if retain then retainedTTL else 0) in
             deliver (e_mqtt e) b1 ssid (c_chan ch) msg None
         end
  end.

(* Conn.Close: unsubscribe everything held (same path as UNSUBSCRIBE), then the last will *)
Definition close_conn (e : env) (b : broker) (i : N) (c : conn) : broker :=
  let b1 := fold_left (fun acc k =>
                         match get_conn (b_conns acc) (N.to_nat i) with
                         | Some c' => unsubscribe_ev (e_mqtt e) acc i c' (k_ssid k) (k_chan k)
                         | None => acc
                         end) (cn_ctrs c) b in
  let b2 := if cn_connected c then on_last_will e b1 c else b1 in
  B (b_trie b2) (set_conn (b_conns b2) (N.to_nat i) None) (b_store b2) (b_seq b2) (b_queue b2) (b_out b2).

(* the notifications queued so far are dispatched: each goes to the connections subscribed to its
   presence ssid at that moment *)
Definition dispatch (e : env) (b : broker) : broker :=
  let b1 := fold_left (fun acc n =>
                         fold_left (fun acc2 s =>
                                      match conn_of_sub (b_conns acc2) s 0 with
                                      | Some i => emit acc2 i (PPresence (nf_sub n) (nf_chan n) (nf_who n) (nf_user n))
                                      | None => acc2
                                      end)
                                   (ix_lookup X (e_mqtt e) (nf_ssid n) (b_trie acc)) acc)
                      (b_queue b) b in
  B (b_trie b1) (b_conns b1) (b_store b1) (b_seq b1) [] (b_out b1).

Definition ereq_of (o : op) : ereq :=
  match o with
  | OLink _ name key channel sub => ELink name key channel sub
  | OPresence _ key channel status changes => EPresence key channel status changes
  | OHistory _ channel => EHistory channel
  | _ => ENone
  end.

(* one client request *)
Definition step (e : env) (b : broker) (i : N) (o : op) : broker :=
  let b0 := B (b_trie b) (b_conns b) (b_store b) (b_seq b) (b_queue b) [] in
  let r :=
    match o, get_conn (b_conns b0) (N.to_nat i) with
    | OReopen subid, _ => with_conn b0 i (Conn subid [] None false [] [])
    | OConnect user w subid, Some c =>
      emit (with_conn b0 i (Conn subid user w true (cn_ctrs c) (cn_links c))) i (PConnack 0)
    | OSub mid topic qos, Some c =>
      let '(b1, err) := on_subscribe e b0 i c topic in
      match err with
      | Some st => emit (emit b1 i (PError st mid)) i (PSuback mid [128])
      | None => emit b1 i (PSuback mid [qos])
      end
    | OUnsub mid topic, Some c =>
      let '(b1, err) := on_unsubscribe e b0 i c topic in
      match err with
      | Some st => emit (emit b1 i (PError st mid)) i (PUnsuback mid)
      | None => emit b1 i (PUnsuback mid)
      end
    | OPub mid retain topic payload, Some c =>
      let '(b1, err) := on_publish e b0 i c mid retain topic payload ENone in
      match err with
      | Some st => emit (emit b1 i (PError st mid)) i (PPuback mid)
      | None => emit b1 i (PPuback mid)
      end
    | OLink mid _ _ _ _, Some c =>
      let '(b1, err) := on_publish e b0 i c mid false [101;109;105;116;116;101;114;47;108;105;110;107;47] [] (ereq_of o) in
      emit b1 i (PPuback mid)
    | OPresence mid _ _ _ _, Some c =>
      let '(b1, err) := on_publish e b0 i c mid false [101;109;105;116;116;101;114;47;112;114;101;115;101;110;99;101;47] [] (ereq_of o) in
      emit b1 i (PPuback mid)
    | OHistory mid _, Some c =>
      let '(b1, err) := on_publish e b0 i c mid false [101;109;105;116;116;101;114;47;104;105;115;116;111;114;121;47] [] (ereq_of o) in
      emit b1 i (PPuback mid)
    | OPing, Some c => emit b0 i PPingresp
    | OEnd _, Some c => close_conn e b0 i c
    | _, None => b0
    end in
  dispatch e r.

Definition broker0 (subs : list N) : broker :=
  B (ix_empty X) (map (fun s => Some (Conn s [] None false [] [])) subs) [] 0 [] [].
End generic.

(* the model: the index is the trie; Trie.Lookup without share-group picks *)
Definition trie_ix : ixops trie :=
  IxOps trie trie0 subscribe unsubscribe (fun mqtt q t => Trie.lookup mqtt q t []).
