(* C19: message ids - fields come back, later ids sort first, distinct (time, seq) give
   distinct ids. *)
From Emitter Require Import Lib.Base Lib.Bits Model.MsgCodec Proofs.ListFacts Proofs.MsgCodecProofs.
From Coq Require Import Lia ZifyN ZifyNat ZifyBool.

Definition word_ok (w : N) : Prop := w < 4294967296.

Lemma len_be32 v : len (be32 v) = 4.
Proof. reflexivity. Qed.

Lemma len_flat_be32 l : len (flat_map be32 l) = 4 * len l.
Proof.
  induction l as [|x l IH]; [reflexivity|]. cbn [flat_map]. rewrite len_app, len_be32, len_cons, IH. lia.
Qed.

Lemma drop4_be32 v r : drop 4 (be32 v ++ r) = r.
Proof. reflexivity. Qed.

Lemma rd_words_flat : forall l rest,
  Forall word_ok l -> rd_words (length l) (flat_map be32 l ++ rest) = Some l.
Proof.
  induction l as [|x l IH]; intros rest H; [reflexivity|].
  inversion H as [|? ? Hx Hl]; subst. cbn [length flat_map rd_words]. rewrite <- app_assoc.
  rewrite rd32_be32 by exact Hx. rewrite drop4_be32, IH by exact Hl. reflexivity.
Qed.

Definition time_ok (t : Z) : Prop := (id_offset <= t < id_offset + 4294967296)%Z.

Lemma u32z_small z : (0 <= z < 4294967296)%Z -> Z.of_N (u32z z) = z.
Proof. intros H. unfold u32z. rewrite Z2N.id by (apply Z.mod_pos_bound; lia). apply Z.mod_small. exact H. Qed.

Lemma u32z_lt z : u32z z < 4294967296.
Proof.
  unfold u32z. assert (0 <= z mod 4294967296 < 4294967296)%Z by (apply Z.mod_pos_bound; lia). lia.
Qed.

Lemma id_fields s0 s1 tl now seq unique :
  Forall word_ok (s0 :: s1 :: tl) -> time_ok now -> seq < 4294967296 -> unique < 4294967296 ->
  exists id, new_id (s0 :: s1 :: tl) now seq unique = Ok id
    /\ len id = 16 + 4 * len (s0 :: s1 :: tl)
    /\ id_ssid id = Ok (s0 :: s1 :: tl)
    /\ id_contract id = Ok s0
    /\ id_time id = Ok now.
Proof.
  intros Hw Ht Hs Hu. eexists. split; [reflexivity|].
  set (ssid := s0 :: s1 :: tl) in *.
  set (w0 := be32 (N.lxor s0 s1)). set (w1 := be32 (maxU32 - u32z (now - id_offset))).
  set (w2 := be32 (maxU32 - seq)). set (w3 := be32 unique).
  assert (L : len (w0 ++ w1 ++ w2 ++ w3 ++ flat_map be32 ssid) = 16 + 4 * len ssid).
  { rewrite !len_app, len_flat_be32. unfold w0, w1, w2, w3. rewrite !len_be32. lia. }
  assert (D16 : drop fixed (w0 ++ w1 ++ w2 ++ w3 ++ flat_map be32 ssid) = flat_map be32 ssid) by reflexivity.
  repeat split.
  - exact L.
  - unfold id_ssid. rewrite L, D16.
    assert (E : (16 + 4 * len ssid <=? 12) = false) by lia. rewrite E.
    assert (E2 : (16 + 4 * len ssid - fixed) / 4 = len ssid).
    { unfold fixed. replace (16 + 4 * len ssid - 16) with (len ssid * 4) by lia. apply N.div_mul. lia. }
    rewrite E2. unfold len at 1. rewrite Nat2N.id.
    rewrite <- (app_nil_r (flat_map be32 ssid)). rewrite rd_words_flat by exact Hw. reflexivity.
  - unfold id_contract, rd32_at. rewrite D16. subst ssid. cbn [flat_map]. rewrite <- ?app_assoc.
    inversion Hw; subst. rewrite rd32_be32 by assumption. reflexivity.
  - unfold id_time, rd32_at.
    assert (D4 : drop 4 (w0 ++ w1 ++ w2 ++ w3 ++ flat_map be32 ssid) = w1 ++ w2 ++ w3 ++ flat_map be32 ssid) by reflexivity.
    rewrite D4. unfold w1. pose proof (u32z_lt (now - id_offset)) as B.
    rewrite rd32_be32 by (unfold maxU32; lia).
    f_equal. unfold maxU32 in *.
    replace (4294967295 - (4294967295 - u32z (now - id_offset))) with (u32z (now - id_offset)) by lia.
    rewrite u32z_small by (unfold time_ok, id_offset in *; lia). lia.
Qed.

(* big-endian bytes order like the numbers *)
Lemma be_decomp v :
  v < 4294967296 ->
  v = (v / 16777216) mod 256 * 16777216 + (v / 65536) mod 256 * 65536 + (v / 256) mod 256 * 256 + v mod 256
  /\ (v / 65536) mod 256 < 256 /\ (v / 256) mod 256 < 256 /\ v mod 256 < 256.
Proof.
  intros H.
  assert (E2 : v / 65536 = v / 256 / 256) by (rewrite N.div_div by lia; reflexivity).
  assert (E3 : v / 16777216 = v / 256 / 256 / 256) by (rewrite !N.div_div by lia; reflexivity).
  rewrite E2, E3.
  set (q1 := v / 256). set (q2 := q1 / 256). set (q3 := q2 / 256).
  pose proof (N.div_mod v 256 ltac:(lia)) as D0. fold q1 in D0.
  pose proof (N.div_mod q1 256 ltac:(lia)) as D1. fold q2 in D1.
  pose proof (N.div_mod q2 256 ltac:(lia)) as D2. fold q3 in D2.
  pose proof (N.mod_lt v 256 ltac:(lia)). pose proof (N.mod_lt q1 256 ltac:(lia)).
  pose proof (N.mod_lt q2 256 ltac:(lia)).
  assert (Q3 : q3 < 256).
  { subst q3 q2 q1. rewrite !N.div_div by lia. apply N.div_lt_upper_bound; lia. }
  rewrite (N.mod_small q3 256) by exact Q3.
  repeat split; lia.
Qed.

Lemma be32_lex a b r1 r2 :
  a < b -> b < 4294967296 -> lex_ltb (be32 a ++ r1) (be32 b ++ r2) = true.
Proof.
  intros Hab Hb. unfold be32. rewrite !N.shiftr_div_pow2.
  change (2 ^ 24) with 16777216. change (2 ^ 16) with 65536. change (2 ^ 8) with 256.
  cbn [app lex_ltb].
  destruct (be_decomp a ltac:(lia)) as (Ea & Ba2 & Ba1 & Ba0).
  destruct (be_decomp b Hb) as (Eb & Bb2 & Bb1 & Bb0).
  set (a3 := (a / 16777216) mod 256) in *. set (b3 := (b / 16777216) mod 256) in *.
  set (a2 := (a / 65536) mod 256) in *. set (b2 := (b / 65536) mod 256) in *.
  set (a1 := (a / 256) mod 256) in *. set (b1 := (b / 256) mod 256) in *.
  set (a0 := a mod 256) in *. set (b0 := b mod 256) in *.
  clearbody a3 a2 a1 a0 b3 b2 b1 b0.
  destruct (a3 <? b3) eqn:C1; [reflexivity|]. destruct (b3 <? a3) eqn:C1'; [exfalso; lia|].
  destruct (a2 <? b2) eqn:C2; [reflexivity|]. destruct (b2 <? a2) eqn:C2'; [exfalso; lia|].
  destruct (a1 <? b1) eqn:C3; [reflexivity|]. destruct (b1 <? a1) eqn:C3'; [exfalso; lia|].
  destruct (a0 <? b0) eqn:C4; [reflexivity|]. exfalso. lia.
Qed.

Lemma lex_ltb_common p x y : lex_ltb (p ++ x) (p ++ y) = lex_ltb x y.
Proof.
  induction p as [|c p IH]; [reflexivity|]. cbn [app lex_ltb].
  rewrite N.ltb_irrefl. exact IH.
Qed.

(* ids of one key prefix: a later second, or the same second and a later sequence number (no
   wrap), gives a lexicographically smaller id *)
Set Default Timeout 30.
Lemma id_order ssid1 ssid2 t1 t2 q1 q2 u1 u2 id1 id2 :
  new_id ssid1 t1 q1 u1 = Ok id1 -> new_id ssid2 t2 q2 u2 = Ok id2 ->
  N.lxor (hd 0 ssid1) (hd 0 (tl ssid1)) = N.lxor (hd 0 ssid2) (hd 0 (tl ssid2)) ->
  time_ok t1 -> time_ok t2 -> q1 < 4294967296 -> q2 < 4294967296 ->
  (t1 < t2)%Z \/ (t1 = t2 /\ q1 < q2) ->
  lex_ltb id2 id1 = true.
Proof.
  intros E1 E2 Hp T1 T2 Q1 Q2 Hord.
  destruct ssid1 as [|a0 [|a1 ta]]; try discriminate. destruct ssid2 as [|b0 [|b1 tb]]; try discriminate.
  cbn [new_id] in E1, E2. apply ok_inj in E1. apply ok_inj in E2. subst id1 id2. cbn [hd tl] in Hp. rewrite Hp.
  rewrite lex_ltb_common.
  assert (S1 : Z.of_N (u32z (t1 - id_offset)) = (t1 - id_offset)%Z)
    by (apply u32z_small; unfold time_ok, id_offset in *; lia).
  assert (S2 : Z.of_N (u32z (t2 - id_offset)) = (t2 - id_offset)%Z)
    by (apply u32z_small; unfold time_ok, id_offset in *; lia).
  pose proof (u32z_lt (t1 - id_offset)) as L1. pose proof (u32z_lt (t2 - id_offset)) as L2.
  set (n1 := u32z (t1 - id_offset)) in *. set (n2 := u32z (t2 - id_offset)) in *.
  clearbody n1 n2. unfold maxU32. clear T1 T2 Hp.
  destruct Hord as [Hlt | [-> Hq]].
  - assert (n1 < n2) by lia. apply be32_lex; lia.
  - assert (n1 = n2) by lia. subst n2. rewrite lex_ltb_common. apply be32_lex; lia.
Qed.

Lemma be32_inj a b r1 r2 : a < 4294967296 -> b < 4294967296 -> be32 a ++ r1 = be32 b ++ r2 -> a = b.
Proof.
  intros Ha Hb E. pose proof (rd32_be32 a r1 Ha) as A. rewrite E, rd32_be32 in A by exact Hb.
  injection A as ->. reflexivity.
Qed.

(* two ids are equal only if they were created in the same second with the same sequence number *)
Lemma id_unique ssid1 ssid2 t1 t2 q1 q2 u1 u2 id :
  new_id ssid1 t1 q1 u1 = Ok id -> new_id ssid2 t2 q2 u2 = Ok id ->
  time_ok t1 -> time_ok t2 -> q1 < 4294967296 -> q2 < 4294967296 ->
  t1 = t2 /\ q1 = q2.
Proof.
  intros E1 E2 T1 T2 Q1 Q2.
  destruct ssid1 as [|a0 [|a1 ta]]; try discriminate. destruct ssid2 as [|b0 [|b1 tb]]; try discriminate.
  cbn [new_id] in E1, E2. apply ok_inj in E1. apply ok_inj in E2. subst id. rename E2 into E.
  assert (E' : drop 4 (be32 (N.lxor b0 b1) ++ be32 (maxU32 - u32z (t2 - id_offset)) ++ be32 (maxU32 - q2) ++ be32 u2 ++ flat_map be32 (b0 :: b1 :: tb))
             = drop 4 (be32 (N.lxor a0 a1) ++ be32 (maxU32 - u32z (t1 - id_offset)) ++ be32 (maxU32 - q1) ++ be32 u1 ++ flat_map be32 (a0 :: a1 :: ta)))
    by (rewrite E; reflexivity).
  rewrite !drop4_be32 in E'.
  pose proof (u32z_lt (t1 - id_offset)). pose proof (u32z_lt (t2 - id_offset)).
  assert (Et : maxU32 - u32z (t2 - id_offset) = maxU32 - u32z (t1 - id_offset))
    by (eapply be32_inj; [ | | exact E']; unfold maxU32; lia).
  assert (E'' : drop 4 (be32 (maxU32 - u32z (t2 - id_offset)) ++ be32 (maxU32 - q2) ++ be32 u2 ++ flat_map be32 (b0 :: b1 :: tb))
              = drop 4 (be32 (maxU32 - u32z (t1 - id_offset)) ++ be32 (maxU32 - q1) ++ be32 u1 ++ flat_map be32 (a0 :: a1 :: ta)))
    by (rewrite E'; reflexivity).
  rewrite !drop4_be32 in E''.
  assert (Eq : maxU32 - q2 = maxU32 - q1)
    by (eapply be32_inj; [ | | exact E'']; unfold maxU32; lia).
  assert (S1 : Z.of_N (u32z (t1 - id_offset)) = (t1 - id_offset)%Z)
    by (apply u32z_small; unfold time_ok, id_offset in *; lia).
  assert (S2 : Z.of_N (u32z (t2 - id_offset)) = (t2 - id_offset)%Z)
    by (apply u32z_small; unfold time_ok, id_offset in *; lia).
  unfold maxU32 in *. split; lia.
Qed.
