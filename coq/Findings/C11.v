(* F19 (C11, repaired by 02368b5): Key.SetExpires stored uint32(expiry - 2010 epoch); a ttl of -2^31 s
   requested at 2026 puts the expiry in 1958, the stored field wrapped and the key read as valid until
   2094.  The raw conversion is kept here as the record of the finding. *)
From Emitter Require Import Lib.Base Model.MsgCodec Model.Key.
Definition expiry_field_wrapping (t : Z) : N := u32z (if (0 <? t)%Z then t - timeOffset else t)%Z.
Lemma C11_expiry_wrap_refuted :
  let now := 1790000000%Z in
  let requested := (now - 2147483648)%Z in
  (requested < now)%Z /\ (Z.of_N (expiry_field_wrapping requested) + timeOffset > now + 2000000000)%Z.
Proof. vm_compute. split; reflexivity. Qed.
