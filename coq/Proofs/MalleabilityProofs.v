(* C12: how exactly channel keys are malleable (no authentication tag), and what still holds. *)
From Emitter Require Import Lib.Base Model.MsgCodec Model.Channel Model.Cipher Model.Key
     Proofs.ListFacts Proofs.CipherProofs Proofs.KeyProofs.
From Coq Require Import Lia.
Set Default Timeout 120.

Lemma lxor_swap a b c : N.lxor (N.lxor a b) c = N.lxor (N.lxor a c) b.
Proof. rewrite !N.lxor_assoc. f_equal. apply N.lxor_comm. Qed.

Lemma xor_bytes_swap : forall c m ks,
  length c = length m -> (length c <= length ks)%nat ->
  xor_bytes (xor_bytes c m) ks = xor_bytes (xor_bytes c ks) m.
Proof.
  unfold xor_bytes. induction c as [|a c IH]; intros m ks L1 L2; [reflexivity|].
  destruct m as [|b m]; [discriminate|]. destruct ks as [|k ks]; [cbn in L2; lia|].
  cbn [combine map fst snd]. rewrite lxor_swap. f_equal. apply IH; cbn in *; lia.
Qed.

(* v2: decrypting (ciphertext XOR mask) = (plaintext XOR mask), for every mask *)
Theorem stream_malleable ks c m :
  length c = length m -> (length c <= length ks)%nat ->
  crypt (CSalsa ks) false (xor_bytes c m) = xor_bytes (crypt (CSalsa ks) false c) m.
Proof. intros L1 L2. cbn [crypt]. apply xor_bytes_swap; assumption. Qed.

(* v3: the same for masks that leave the two clear-text salt bytes alone *)
Theorem shuffle_malleable ks s0 s1 r m :
  length r = length m -> (length r <= length (ks s0 s1))%nat ->
  crypt (CShuffle ks) false (s0 :: s1 :: xor_bytes r m)
  = match crypt (CShuffle ks) false (s0 :: s1 :: r) with
    | a :: b :: p => a :: b :: xor_bytes p m
    | x => x
    end.
Proof. intros L1 L2. cbn [crypt]. f_equal. f_equal. apply xor_bytes_swap; assumption. Qed.

(* v1: ECB - each 8-byte block is decrypted on its own *)
Lemma blocks_app f : forall n a b, length a = (8 * n)%nat -> blocks f (a ++ b) = blocks f a ++ blocks f b.
Proof.
  induction n as [|n IH]; intros a b L.
  - destruct a; [reflexivity | cbn in L; lia].
  - destruct a as [|a0 [|a1 [|a2 [|a3 [|b0 [|b1 [|b2 [|b3 r]]]]]]]]; cbn in L; try lia.
    cbn [app blocks]. destruct (f _ _) as [y z]. rewrite (IH r b) by lia. rewrite <- !app_assoc. reflexivity.
Qed.

Theorem xtea_block_independent key c12 c3 c3' :
  length c12 = 16%nat ->
  firstn 16 (blocks (dec_block key) (c12 ++ c3)) = firstn 16 (blocks (dec_block key) (c12 ++ c3')).
Proof.
  intros L. rewrite !(blocks_app _ 2) by exact L.
  assert (Lb : length (blocks (dec_block key) c12) = 16%nat) by (rewrite (blocks_length _ 2); lia).
  rewrite !firstn_app, Lb, Nat.sub_diag. cbn [firstn]. reflexivity.
Qed.
