(* The durable LWW set as keyban / Authorize see it: a database (buntdb) plus the 60-second read
   cache in front of it (freecache).  [fetch] reads through the cache and fills it on a database
   hit; every write goes through [store], which drops the cached copy of the key it writes.
   Cache entries may also vanish at any time (TTL, eviction): [bs_evict]. *)
From stdpp Require Import gmap.
From Coq Require Import ZArith.
From Emitter Require Import Model.Lww.
Local Open Scope Z_scope.

Record bstore := BS { bs_db : replica; bs_cache : gmap N entry }.
Definition bs0 := BS ∅ ∅.

Definition bs_fetch (s : bstore) (k : N) : entry * bstore :=
  match bs_cache s !! k with
  | Some e => (e, s)
  | None => match bs_db s !! k with
            | Some e => (e, BS (bs_db s) (<[k := e]> (bs_cache s)))
            | None => (zero_entry, s)
            end
  end.

(* Durable.store as repaired: write the database, invalidate the cached copy *)
Definition bs_store (s : bstore) (k : N) (e : entry) : bstore :=
  BS (<[k := e]> (bs_db s)) (delete k (bs_cache s)).

Definition bs_has (s : bstore) (k : N) : bool * bstore :=
  let (e, s') := bs_fetch s k in (is_added e, s').

(* Durable.Add / Del read the database inside the update transaction (not the cache) *)
Definition bs_add (s : bstore) (k : N) (now : Z) : bstore :=
  let t := fetch (bs_db s) k in
  if e_add t <? now then bs_store s k (Ent now (e_del t) []) else s.
Definition bs_del (s : bstore) (k : N) (now : Z) : bstore :=
  let t := fetch (bs_db s) k in
  if e_del t <? now then bs_store s k (Ent (e_add t) now (e_val t)) else s.

Definition bs_evict (s : bstore) (k : N) : bstore := BS (bs_db s) (delete k (bs_cache s)).
Definition bs_restart (s : bstore) : bstore := BS (bs_db s) ∅.

(* Durable.Merge of a payload: every key the payload changes is written through [store] *)
Definition bs_merge (s : bstore) (r : replica) : bstore :=
  BS (lww_merge (bs_db s) r)
     (filter (fun kv => (lww_delta (bs_db s) r) !! (fst kv) = None) (bs_cache s)).

(* keyban's toggle and Authorize's test, at one broker *)
Inductive ban_op :=
| KBan (k : N) (now : Z)      (* keyban request banned=true : Contains? no -> Notify(true)  *)
| KUnban (k : N) (now : Z)    (* keyban request banned=false: Contains? yes -> Notify(false) *)
| KUse (k : N)                (* any operation presenting the key: refused iff Contains *)
| KEvict (k : N)              (* the cache loses an entry *)
| KRestart.                   (* process restart on the same state directory *)

Definition ban_step (s : bstore) (o : ban_op) : bstore * option bool :=
  match o with
  | KBan k now => let (b, s1) := bs_has s k in ((if b then s1 else bs_add s1 k now), None)
  | KUnban k now => let (b, s1) := bs_has s k in ((if b then bs_del s1 k now else s1), None)
  | KUse k => let (b, s1) := bs_has s k in (s1, Some b)
  | KEvict k => (bs_evict s k, None)
  | KRestart => (bs_restart s, None)
  end.
