(* Known findings F17b / F17c (C12): a concrete altered key that is granted what the original was
   not.  Keystream and contract are arbitrary concrete values; the hash is the code's murmur.
   Evidence for the known findings, not a proof obligation. *)
From Emitter Require Import Lib.Base Model.MsgCodec Model.Murmur Model.Channel Model.Cipher Model.Key.

Definition ks : bytes := rep 24 90.
Definition ct := Contract 77 1 99 true.
Definition issued : key :=   (* read-only key for "a/" of contract 77, no expiry *)
  match set_target murmur (set_bytes (rep 24 0) 2 [0;1; 0;0;0;77; 0;0;0;99; 0;0;0; 2]) [97;47] with Ok k => k | _ => [] end.
Definition wanted : key :=   (* the same key with write permission on "b/" *)
  match set_target murmur (set_bytes (rep 24 0) 2 [0;1; 0;0;0;77; 0;0;0;99; 0;0;0; 6]) [98;47] with Ok k => k | _ => [] end.
Definition mask : bytes := xor_bytes issued wanted.     (* computable without the secret *)
Definition issued_str : bytes := encrypt_key (CSalsa ks) issued.
Definition altered_str : bytes := b64_encode (xor_bytes (crypt (CSalsa ks) true issued) mask).

Definition granted (s channel : bytes) (perm : N) : bool :=
  match authorize murmur (fun _ => false) (decrypt_key (CSalsa ks)) (fun id => if id =? 77 then Some ct else None)
                  0%Z (parse_channel (s ++ sep :: channel)) perm with Some _ => true | None => false end.

Lemma C12_v2_refuted :
  granted issued_str [98;47] AllowWrite = false /\ granted altered_str [98;47] AllowWrite = true.
Proof. vm_compute. split; reflexivity. Qed.
