(* Correspondence cases of C01. *)
From Emitter Require Import Lib.Base Model.Trie Spec.PubSub.

Inductive obs := Obs (count nodes : N) (pairs : list (list N * N)).

Inductive top :=
| TSub (ssid : list N) (s : N) (o : obs)
| TUnsub (ssid : list N) (s : N) (o : obs)
| TLookup (q : list N) (res : list N)
| TSubQ (ssid : list N) (s : N)
| TUnsubQ (ssid : list N) (s : N).

Inductive case :=
| CTrie (mqtt : bool) (ops : list top)
| CConc (mqtt : bool) (ops : list top) (final : obs).

Definition pair_eqb (a b : list N * N) : bool := list_eqb N.eqb (fst a) (fst b) && (snd a =? snd b).
Definition subset {A} (eq : A -> A -> bool) (a b : list A) : bool := forallb (fun x => existsb (eq x) b) a.
Definition set_eqb {A} (eq : A -> A -> bool) (a b : list A) : bool := subset eq a b && subset eq b a.

Definition obs_matches (t : trie) (o : obs) : bool :=
  match o with
  | Obs c n ps =>
    Z.eqb (t_count t) (Z.of_N c) && (node_count (t_root t) =? n)
    && set_eqb pair_eqb (pairs (t_root t)) ps && (len (pairs (t_root t)) =? len ps)
  end.

(* ---- the property, stated directly on the stored pairs (independent of the trie walk) ---- *)
Definition is_share_pair (p : list N * N) : bool :=
  match fst p with _ :: w :: _ => w =? share | _ => false end.

(* direct receivers: subscribers holding a matching non-share filter *)
Definition spec_direct (mqtt : bool) (ps : list (list N * N)) (q : list N) : list N :=
  dedup (map snd (filter (fun p => matches mqtt (fst p) q) ps)).
(* share groups with a matching member: filter = contract :: share :: group :: rest *)
Definition spec_groups (mqtt : bool) (ps : list (list N * N)) (q : list N) : list (list N) :=
  match q with
  | [] => []
  | c :: rest =>
    let members := filter (fun p => match fst p with
                                    | c' :: w :: g :: f => (c' =? c) && (w =? share) && matches mqtt f rest
                                    | _ => false end) ps in
    let gids := dedup (map (fun p => match fst p with _ :: _ :: g :: _ => g | _ => 0 end) members) in
    map (fun g => dedup (map snd (filter (fun p => match fst p with _ :: _ :: g' :: _ => g' =? g | _ => false end) members))) gids
  end.

(* does [res] equal direct ∪ {one pick per group} for some choice of picks? *)
Fixpoint choice_ok (direct : list N) (groups : list (list N)) (res : list N) (acc : list N) : bool :=
  match groups with
  | [] => set_eqb N.eqb (direct ++ acc) res
  | g :: gs => existsb (fun x => choice_ok direct gs res (x :: acc)) g
  end.

Definition lookup_ok (mqtt : bool) (ps : list (list N * N)) (q res : list N) : bool :=
  choice_ok (spec_direct mqtt ps q) (spec_groups mqtt ps q) res []
  && (len (dedup res) =? len res).

Record st := St { tr : trie; held : list (list N * N); ok : bool; ook : bool }.

(* the abstract state of the property: the set of (filter, subscriber) pairs subscribed and not
   yet removed; what the implementation stores must be exactly this set *)
Definition held_add (p : list N * N) (h : list (list N * N)) := if existsb (pair_eqb p) h then h else p :: h.
Definition held_del (p : list N * N) (h : list (list N * N)) := filter (fun x => negb (pair_eqb p x)) h.
Definition obs_is (h : list (list N * N)) (o : obs) : bool :=
  match o with Obs c n ps => set_eqb pair_eqb h ps && (len h =? c) && (len ps =? c) end.

Definition step (mqtt : bool) (s : st) (o : top) : st :=
  match o with
  | TSub ssid x ob =>
    let t := subscribe ssid x (tr s) in let h := held_add (ssid, x) (held s) in
    St t h (ok s && obs_matches t ob) (ook s && obs_is h ob)
  | TUnsub ssid x ob =>
    let t := unsubscribe ssid x (tr s) in let h := held_del (ssid, x) (held s) in
    St t h (ok s && obs_matches t ob)
       (ook s && obs_is h ob
        && match h, ob with [], Obs _ n _ => n =? 1 | _, _ => true end)   (* everything removed: index empty *)
  | TSubQ ssid x => St (subscribe ssid x (tr s)) (held_add (ssid, x) (held s)) (ok s) (ook s)
  | TUnsubQ ssid x => St (unsubscribe ssid x (tr s)) (held_del (ssid, x) (held s)) (ok s) (ook s)
  | TLookup q res =>
    let direct := dedup (lookup_raw mqtt q (t_root (tr s))) in
    let groups := filter (fun g => negb (is_nil g)) (share_groups mqtt q (t_root (tr s))) in
    St (tr s) (held s)
       (ok s && choice_ok direct groups res [] && (len (dedup res) =? len res))
       (ook s && lookup_ok mqtt (held s) q res)
  end.

Definition check (c : case) : N :=
  match c with
  | CTrie mqtt ops =>
    let s := fold_left (step mqtt) ops (St trie0 [] true true) in
    bit (ok s) 1 |+| bit (ook s) 2
  | CConc mqtt ops final =>
    let s := fold_left (step mqtt) ops (St trie0 [] true true) in
    bit (obs_matches (tr s) final) 1 |+| bit (obs_is (held s) final) 2
  end.
