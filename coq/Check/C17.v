(* Correspondence cases of C17 (and the transport part of C10). *)
From Emitter Require Import Lib.Base Model.Transport.

Inductive wop := WWrite (p : bytes) (qlen : N) (sock : list bytes) | WFlush (qlen : N) (sock : list bytes).

Inductive case :=
| CSniff (chunks : list bytes) (rounds : list (list nat * list bytes)) (sizes : list nat) (outs : list bytes)
| CMatch (stream got : bytes)
| CWs (msgs : list (bool * bytes)) (sizes : list nat) (outs : list (option bytes)) (written frames : list bytes)
| CWq (ops : list wop)
| CWqStress (writers per : N) (all : bytes)
(* concurrent Writes through the WebSocket transport: the frames the socket received, and how often a
   frame was begun or finished while another one was open (gorilla allows one writer at a time) *)
| CWsStress (writers per : N) (frames : list bytes) (overlaps : N)
(* one publisher's messages on one channel of a real broker, and what each subscriber received *)
| CFan (sent : list bytes) (recv : list (list bytes)).

Definition blist_eqb := list_eqb bytes_eqb.

Fixpoint is_prefix (a b : bytes) : bool :=
  match a, b with
  | [], _ => true
  | x :: a', y :: b' => (x =? y) && is_prefix a' b'
  | _ :: _, [] => false
  end.

(* reads one by one against the observed outputs *)
Fixpoint sn_run (s : sniffer) (sizes : list nat) (outs : list bytes) : sniffer * bool :=
  match sizes, outs with
  | n :: sr, o :: or => let (m, s1) := sn_read s n in
                        let (s2, ok) := sn_run s1 sr or in (s2, bytes_eqb m o && ok)
  | [], [] => (s, true)
  | _, _ => (s, false)
  end.

Fixpoint ws_run (s : wsst) (sizes : list nat) (outs : list (option bytes)) : bool :=
  match sizes, outs with
  | n :: sr, o :: or =>
    match ws_read s n, o with
    | Some (m, s1), Some x => bytes_eqb m x && ws_run s1 sr or
    | None, None => is_nil sr && is_nil or
    | _, _ => false
    end
  | [], [] => true
  | _, _ => false
  end.

Definition wq_matches (s : wq) (qlen : N) (sock : list bytes) : bool := (len (q_buf s) =? qlen) && blist_eqb (q_sock s) sock.

(* the limiter's answer is not observable: the model accepts either; the 1 s timer may flush before
   any operation *)
Definition wq_candidates (s : wq) (o : wop) : list wq :=
  match o with
  | WWrite p _ _ => [wq_write s p true; wq_write s p false; wq_write (wq_flush s) p true; wq_write (wq_flush s) p false]
  | WFlush _ _ => [wq_flush s]
  end.

Fixpoint wq_run (s : wq) (ops : list wop) : bool :=
  match ops with
  | [] => true
  | o :: r =>
    let '(ql, sk) := match o with WWrite _ a b => (a, b) | WFlush a b => (a, b) end in
    match find (fun c => wq_matches c ql sk) (wq_candidates s o) with
    | Some c => wq_run c r
    | None => false
    end
  end.

Definition written_of (ops : list wop) : bytes := flat_map (fun o => match o with WWrite p _ _ => p | _ => [] end) ops.
Definition last_sock (ops : list wop) : list bytes :=
  match rev ops with WWrite _ _ s :: _ => s | WFlush _ s :: _ => s | [] => [] end.
Definition last_qlen (ops : list wop) : N :=
  match rev ops with WWrite _ q _ :: _ => q | WFlush q _ :: _ => q | [] => 0 end.

(* 4-byte records (writer, seq hi, seq lo, 0xEE): framing and per-writer order *)
Fixpoint records (fuel : nat) (d : bytes) : option (list (N * N)) :=
  match fuel with
  | O => None
  | S f => match d with
           | [] => Some []
           | w :: h :: l :: e :: r => if e =? 238 then match records f r with Some t => Some ((w, h * 256 + l) :: t) | None => None end else None
           | _ => None
           end
  end.
Fixpoint bump (exp : list N) (w : nat) : list N :=
  match exp, w with
  | [], _ => []
  | x :: r, O => (x + 1) :: r
  | x :: r, S k => x :: bump r k
  end.
Definition order_ok (writers per : N) (seq : list (N * N)) : bool :=
  match fold_left (fun (st : option (list N)) e =>
                     match st with
                     | None => None
                     | Some exp => match nth_error exp (N.to_nat (fst e)) with
                                   | Some x => if x =? snd e then Some (bump exp (N.to_nat (fst e))) else None
                                   | None => None
                                   end
                     end) seq (Some (repeat 0 (N.to_nat writers))) with
  | Some exp => forallb (fun x => x =? per) exp
  | None => false
  end.

Definition data_stream_of (msgs : list (bool * bytes)) : bytes := concat (map snd (filter fst msgs)).

Definition check (c : case) : N :=
  match c with
  | CSniff chunks rounds sizes outs =>
    let stream := concat chunks in
    let '(s1, ok1, pre_ok) :=
        fold_left (fun acc r => let '(s, ok, pre) := acc in
                                let '(s', ok') := sn_run (sn_reset s true) (fst r) (snd r) in
                                (s', ok && ok', pre && is_prefix (concat (snd r)) stream))
                  rounds (sniffer0 chunks, true, true) in
    let '(s2, ok2) := sn_run (sn_reset s1 false) sizes outs in
    bit (ok1 && ok2) 1
    (* oracle: every round saw a prefix; afterwards the stream comes out from byte 0, each byte once
       (completely, when the reads reached the end) *)
    |+| bit pre_ok 2
    |+| bit (is_prefix (concat outs) stream) 2
    |+| bit (match rev outs with [] :: _ => bytes_eqb (concat outs) stream | _ => true end) 2
  | CMatch stream got => bit (bytes_eqb stream got) 2
  | CWs msgs sizes outs written frames =>
    bit (ws_run (Ws msgs None) sizes outs) 1
    |+| bit (is_prefix (concat (map (fun o => match o with Some x => x | None => [] end) outs)) (data_stream_of msgs)) 2
    |+| bit (match rev outs with None :: _ => bytes_eqb (concat (map (fun o => match o with Some x => x | None => [] end) outs)) (data_stream_of msgs) | _ => true end) 2
    |+| bit (blist_eqb written frames) 2
  | CWq ops =>
    bit (wq_run wq0 ops) 1
    (* oracle: after the final flush the socket has received exactly the written bytes in order *)
    |+| bit ((last_qlen ops =? 0) && bytes_eqb (concat (last_sock ops)) (written_of ops)) 2
  | CWqStress writers per all =>
    match records (S (length all)) all with
    | Some seq => bit (order_ok writers per seq) 4
    | None => 4
    end
  | CFan sent recv => bit (forallb (fun g => blist_eqb g sent) recv) 4
  | CWsStress writers per frames overlaps =>
    match records (S (length (concat frames))) (concat frames) with
    | Some seq => bit (order_ok writers per seq && forallb (fun f => len f =? 4) frames && (overlaps =? 0)) 4
    | None => 4
    end
  end.
