(* internal/security/key.go (24-byte key layout, SetTarget, ValidateChannel, expiry, permissions),
   provider/contract Validate, broker.Service.Authorize, service/keygen (CreateKey, ExtendKey,
   access, expires).  The 32-bit string hash is a parameter [h] of everything that needs it
   (instantiated with Model.Murmur.murmur in the correspondence).  No proofs here. *)
From Emitter Require Import Lib.Base Model.MsgCodec Model.Channel Model.Cipher.

Definition key := bytes.   (* 24 bytes *)
Definition kb (k : key) (i : nat) : N := nth i k 0.
Definition be16_of (a b : N) : N := a * 256 + b.
Definition be32_of (a b c d : N) : N := ((a * 256 + b) * 256 + c) * 256 + d.

Definition key_salt (k : key) := be16_of (kb k 0) (kb k 1).
Definition key_master (k : key) := be16_of (kb k 2) (kb k 3).
Definition key_contract (k : key) := be32_of (kb k 4) (kb k 5) (kb k 6) (kb k 7).
Definition key_signature (k : key) := be32_of (kb k 8) (kb k 9) (kb k 10) (kb k 11).
Definition key_path (k : key) := (kb k 12 * 256 + kb k 13) * 256 + kb k 14.
Definition key_perms (k : key) := kb k 15.
Definition key_target (k : key) := be32_of (kb k 16) (kb k 17) (kb k 18) (kb k 19).
Definition key_expiry_field (k : key) := be32_of (kb k 20) (kb k 21) (kb k 22) (kb k 23).

Fixpoint set_bytes (k : key) (i : nat) (v : bytes) : key :=
  match v with
  | [] => k
  | x :: r => set_bytes (set_at k i x) (S i) r
  end.

(* permission bits *)
Definition AllowMaster : N := 1.
Definition AllowRead : N := 2.
Definition AllowWrite : N := 4.
Definition AllowStore : N := 8.
Definition AllowLoad : N := 16.
Definition AllowPresence : N := 32.
Definition AllowExtend : N := 64.
Definition AllowExecute : N := 128.

Definition is_master (k : key) : bool := key_perms k =? AllowMaster.
Definition has_permission (k : key) (flag : N) : bool := N.land (key_perms k) flag =? flag.

Definition timeOffset : Z := 1262304000.
(* Key.IsExpired at unix time [now] (seconds; the harness stays away from the boundary second) *)
Definition is_expired (k : key) (now : Z) : bool :=
  let f := key_expiry_field k in
  if f =? 0 then false else (Z.of_N f + timeOffset <? now)%Z.
(* Key.SetExpires(time.Unix(t, 0)) *)
Definition expiry_field_of (t : Z) : N :=
  if (t =? 0)%Z then 0
  else let d := (t - timeOffset)%Z in
       if (d <? 1)%Z then 1 else if (4294967295 <? d)%Z then 4294967295 else Z.to_N d.

(* ---- strings ---- *)
Fixpoint split_on (s : N) (d : bytes) (cur : bytes) : list bytes :=
  match d with
  | [] => [rev cur]
  | c :: r => if c =? s then rev cur :: split_on s r [] else split_on s r (c :: cur)
  end.
Fixpoint join_with (s : N) (parts : list bytes) : bytes :=
  match parts with
  | [] => []
  | [p] => p
  | p :: r => p ++ s :: join_with s r
  end.
Fixpoint trim_right (s : N) (rd : bytes) : bytes :=    (* on the reversed string *)
  match rd with
  | c :: r => if c =? s then trim_right s r else rd
  | [] => []
  end.
Definition plus : bytes := [43].
Definition hashs : bytes := [35].
Definition last_is (parts : list bytes) (w : bytes) : bool :=
  match rev parts with p :: _ => bytes_eqb p w | [] => false end.
Definition drop_last {A} (l : list A) : list A := rev (tl (rev l)).

Inductive terr := TargetInvalid | TargetTooLong.

Section hashed.
Variable h : bytes -> N.

(* the bit path of a list of target parts: bit (22 - idx) for every literal part *)
Fixpoint path_bits (parts : list bytes) (idx : N) : N :=
  match parts with
  | [] => 0
  | p :: r => N.lor (if negb (bytes_eqb p plus) && negb (bytes_eqb p hashs) then N.shiftl 1 (22 - idx) else 0)
                    (path_bits r (idx + 1))
  end.

(* the core of SetTarget on levels: (bit path, hash of the joined levels) *)
Definition target_of (parts : list bytes) (wildcard : bool) : N * N :=
  (N.lor (if wildcard then 0 else 8388608) (path_bits parts 0), h (join_with sep parts)).

(* Key.SetTarget(channel) *)
Definition set_target (k : key) (channel : bytes) : res terr key :=
  match rev channel with
  | c :: _ =>
    if negb (c =? sep) then Err TargetInvalid
    else
      let parts0 := split_on sep (rev (trim_right sep (rev channel))) [] in
      let wildcard := last_is parts0 hashs in
      let parts := if wildcard then drop_last parts0 else parts0 in
      if 23 <? len parts then Err TargetTooLong
      else
        let '(bitPath, value) := target_of parts wildcard in
        Ok (set_bytes (set_bytes k 12 [N.shiftr bitPath 16 mod 256; N.shiftr bitPath 8 mod 256; bitPath mod 256])
                      16 (be32 value))
  | [] => Err TargetInvalid
  end.

(* lowest set bit among 0..22 gives the depth *)
Fixpoint max_depth_loop (fuel : nat) (i : N) (path : N) : N :=
  match fuel with
  | O => 0
  | S f => if N.testbit path i then 23 - i else max_depth_loop f (i + 1) path
  end.

Fixpoint rewrite_parts (parts : list bytes) (idx : N) (path : N) : option (list bytes) :=
  match parts with
  | [] => Some []
  | p :: r =>
    if (idx <=? 22) && N.testbit path (22 - idx) then
      if bytes_eqb p plus then None
      else match rewrite_parts r (idx + 1) path with Some r' => Some (p :: r') | None => None end
    else match rewrite_parts r (idx + 1) path with Some r' => Some (plus :: r') | None => None end
  end.

(* the core of ValidateChannel on the levels of the request (a trailing '#' already removed);
   [first] is the hash of the request's first level (Channel.Target()) *)
Definition validate_parts (path target : N) (parts : list bytes) (first : N) : bool :=
  if path =? 0 then
    if target =? 1325880984 then true else target =? first
  else
    let md0 := max_depth_loop 23 0 path in
    let maxDepth := if md0 =? 0 then len parts else md0 in
    let exact := N.testbit path 23 in
    if (len parts <? maxDepth) || (exact && negb (len parts =? maxDepth)) then false
    else match rewrite_parts parts 0 path with
         | None => false
         | Some parts' => h (join_with sep (take maxDepth parts')) =? target
         end.

(* Key.ValidateChannel(ch) on a parsed channel *)
Definition validate_channel (k : key) (ch : chan) : bool :=
  match rev (c_chan ch) with
  | [] => false
  | lastc :: rtopic =>
    let topic := if lastc =? sep then rev rtopic else c_chan ch in
    let parts0 := split_on sep topic [] in
    let parts := if last_is parts0 hashs then drop_last parts0 else parts0 in
    validate_parts (key_path k) (key_target k) parts (hd 0 (c_query ch))
  end.

(* ---- contracts and Authorize ---- *)
Record contract := Contract { ct_id : N; ct_master : N; ct_signature : N; ct_allowed : bool }.
Definition contract_validate (c : contract) (k : key) : bool :=
  (ct_master c =? key_master k) && (ct_signature c =? key_signature k) && (ct_id c =? key_contract k)
  && ct_allowed c.

Definition authorize (banned : bytes -> bool) (decrypt : bytes -> res kerr key)
           (contracts : N -> option contract) (now : Z) (ch : chan) (perm : N) : option key :=
  if c_type ch =? ChannelInvalid then None
  else if banned (c_key ch) then None
  else match decrypt (c_key ch) with
       | Ok k =>
         if is_expired k now then None
         else match contracts (key_contract k) with
              | None => None
              | Some c => if contract_validate c k && has_permission k perm && validate_channel k ch
                          then Some k else None
              end
       | _ => None
       end.

(* ---- keygen ---- *)
(* Request.access(): the permission letters *)
Definition access_of (ty : bytes) : N :=
  fold_left (fun acc c =>
               N.lor acc (if c =? 114 then AllowRead else if c =? 119 then AllowWrite
                          else if c =? 115 then AllowStore else if c =? 108 then AllowLoad
                          else if c =? 112 then AllowPresence else if c =? 101 then AllowExtend
                          else if c =? 120 then AllowExecute else 0)) ty 0.

Inductive gerr := GUnauthorized | GNotFound | GTargetInvalid | GTargetTooLong | GBadRequest | GOther.

(* CreateKey: the salt is random (an input here); [expires] is the unix time handed to SetExpires *)
Definition create_key (decrypt : bytes -> res kerr key) (contracts : N -> option contract) (now : Z)
           (raw_master channel : bytes) (access : N) (expires : Z) (salt : N) : res gerr key :=
  match decrypt raw_master with
  | Ok mk =>
    if negb (is_master mk) || is_expired mk now then Err GUnauthorized
    else match contracts (key_contract mk) with
         | None => Err GNotFound
         | Some c =>
           if negb (contract_validate c mk) then Err GUnauthorized
           else
             let k0 := rep 24 0 in
             let k1 := set_bytes k0 0 [N.shiftr salt 8 mod 256; salt mod 256] in
             let k2 := set_bytes k1 2 (firstn 10 (skipn 2 mk)) in          (* master, contract, signature *)
             let k3 := set_bytes k2 15 [N.land access 254] in               (* AllowMaster cleared *)
             let k4 := set_bytes k3 20 (be32 (expiry_field_of expires)) in
             match set_target k4 channel with
             | Ok k => Ok k
             | Err TargetInvalid => Err GTargetInvalid
             | Err TargetTooLong => Err GTargetTooLong
             | Panic => Panic
             end
         end
  | _ => Err GUnauthorized
  end.
(* ExtendKey: a private-link key for the sub-channel named after the connection *)
Definition hash_slash : bytes := [35; 47].    (* "#/" *)
Definition has_suffix (s suf : bytes) : bool :=
  (len suf <=? len s) && bytes_eqb (drop (len s - len suf) s) suf.

Definition extend_key (banned : bytes -> bool) (decrypt : bytes -> res kerr key)
           (contracts : N -> option contract) (now : Z)
           (channel_key channel_name conn_id : bytes) (access : N) (expires : Z) : res gerr (key * bytes) :=
  let wild := has_suffix channel_name hash_slash in
  let name := if wild then take (len channel_name - 2) channel_name else channel_name in
  let suffix := if wild then hash_slash else [] in
  let ch := parse_channel (channel_key ++ sep :: name) in
  if negb (c_type ch =? ChannelStatic) then Err GBadRequest
  else match authorize banned decrypt contracts now ch AllowExtend with
       | None => Err GUnauthorized
       | Some k =>
         let perms := N.land (N.land (key_perms k) (255 - AllowExtend)) access in
         let k1 := set_bytes k 15 [perms] in
         let k2 := set_bytes k1 20 (be32 (expiry_field_of expires)) in
         let target := c_chan ch ++ conn_id ++ sep :: suffix in
         match set_target k2 target with
         | Ok k3 => Ok (k3, target)
         | Err _ => Err GOther
         | Panic => Panic
         end
       end.

(* keygen.Service.OnRequest after JSON decoding *)
Definition keygen_request (banned : bytes -> bool) (decrypt : bytes -> res kerr key)
           (contracts : N -> option contract) (now : Z)
           (raw_key channel ty conn_id : bytes) (expires : Z) (salt : N) : res gerr (key * bytes) :=
  match decrypt raw_key with
  | Ok pk =>
    if is_expired pk now then Err GUnauthorized
    else if is_master pk then
      match create_key decrypt contracts now raw_key channel (access_of ty) expires salt with
      | Ok k => Ok (k, channel)
      | Err e => Err e
      | Panic => Panic
      end
    else if has_permission pk AllowExtend then
      extend_key banned decrypt contracts now raw_key channel conn_id (access_of ty) expires
    else Err GUnauthorized
  | _ => Err GUnauthorized
  end.
End hashed.
