(* Peer.Send / swap / processSendQueue of internal/service/cluster/peer.go as a labelled
   transition system at lock granularity.  The flusher is the only goroutine that calls the
   transport; senders only append under the peer's mutex. *)
From Emitter Require Import Lib.Base Model.MsgCodec.

Record pq := PQ {
  q_frame : list msg;           (* p.frame *)
  q_swapped : list msg;         (* the frame taken by swap() that processSendQueue still splits *)
  q_sent : list (list msg);     (* chunks handed to GossipUnicast, oldest first *)
}.
Definition pq0 := PQ [] [] [].

Inductive pstep :=
| PSend (m : msg) (active : bool)   (* Peer.Send under the lock; IsActive() is an input *)
| PTick                             (* processSendQueue starts: len(frame)==0 ? return : swap *)
| PChunk (max : N).                 (* one round of the for loop: Split, Encode, GossipUnicast *)

Definition pq_step (s : pq) (e : pstep) : pq :=
  match e with
  | PSend m active => if active then PQ (q_frame s ++ [m]) (q_swapped s) (q_sent s) else s
  | PTick =>
    match q_swapped s, q_frame s with
    | [], _ :: _ => PQ [] (q_frame s) (q_sent s)
    | _, _ => s       (* previous run still in its loop (single flusher), or nothing queued *)
    end
  | PChunk max =>
    match q_swapped s with
    | [] => s
    | f => let (h, t) := split f max in
           match h with
           | [] => PQ (q_frame s) [] (q_sent s)                 (* len(chunk)==0: break, tail dropped *)
           | _ => PQ (q_frame s) t (q_sent s ++ [h])
           end
    end
  end.

Definition pq_run (es : list pstep) : pq := fold_left pq_step es pq0.
