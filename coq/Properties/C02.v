From Emitter Require Import Lib.Base Model.Broker.
Theorem C02_placeholder : presenceW = 3869262148.
Proof. reflexivity. Qed.
Print Assumptions C02_placeholder.
