"""Driver shared by all property checks: Coq build, harness build through `go build -overlay`,
parallel evaluation of the generated shards inside Coq, verdict, replay files, evidence."""
import concurrent.futures as cf
import glob
import hashlib
import json
import os
import re
import shutil
import subprocess
import sys
import time

VERIF = os.path.dirname(os.path.dirname(os.path.abspath(__file__)))
REPO = os.environ.get("VERIF_REPO", "/repo")
BUILD = os.path.join(VERIF, ".build")
COQ = os.path.join(VERIF, "coq")
GOENV = dict(os.environ, GOFLAGS="-mod=mod", GOPROXY="off", GODEBUG="goindex=0")
GOENV.pop("GOTOOLCHAIN", None)
GOENV.pop("GOSUMDB", None)
ZZ = "internal/zzverif"


def sh(cmd, cwd=None, env=None, timeout=None, check=False):
    p = subprocess.run(cmd, cwd=cwd, env=env, timeout=timeout, stdout=subprocess.PIPE, stderr=subprocess.STDOUT,
                       shell=isinstance(cmd, str), text=True, errors="replace")
    if check and p.returncode != 0:
        raise RuntimeError("command failed: %s\n%s" % (cmd, p.stdout))
    return p.returncode, p.stdout


# ---- Coq ----------------------------------------------------------------------------------------

def coq_makefile():
    mk = os.path.join(COQ, "Makefile")
    cp = os.path.join(COQ, "_CoqProject")
    if not os.path.exists(mk) or os.path.getmtime(mk) < os.path.getmtime(cp):
        sh(["coq_makefile", "-f", "_CoqProject", "-o", "Makefile"], cwd=COQ, check=True)


def coq_make(targets=None, timeout=3000):
    """Full .vo build of the given targets (default: everything in _CoqProject)."""
    coq_makefile()
    cmd = ["timeout", str(timeout), "make", "-j16"] + (targets or [])
    rc, out = sh(cmd, cwd=COQ)
    return rc, out


def coqc_file(path, timeout=900, cwd=None):
    """Compile one .v file against the built development; returns (rc, output)."""
    cmd = ["timeout", str(timeout), "coqc", "-Q", COQ, "Emitter", "-w", "-notation-overridden", path]
    return sh(cmd, cwd=cwd or os.path.dirname(path))


def theorem_names(vfile):
    src = open(vfile).read()
    return re.findall(r"^\s*Theorem\s+([A-Za-z0-9_']+)", src, flags=re.M)


def parse_assumptions(out):
    """Parse the Print Assumptions blocks of a coqc output: {theorem: 'closed' | [axioms]}."""
    res = []
    blocks = re.split(r"\n(?=Closed under the global context|Axioms:)", "\n" + out)
    for b in blocks:
        b = b.strip()
        if b.startswith("Closed under the global context"):
            res.append("closed")
        elif b.startswith("Axioms:"):
            axs = re.findall(r"^([A-Za-z_][A-Za-z0-9_.']*)\s*:", b[len("Axioms:"):], flags=re.M)
            res.append(axs)
    return res


# ---- Go harness ---------------------------------------------------------------------------------

def overlay_file():
    """Overlay: harness mains and the shared library appear under /repo/internal/zzverif/, hook files
    (build tag verif) appear inside existing packages.  /repo's tree is not touched."""
    os.makedirs(BUILD, exist_ok=True)
    rep = {}
    hdir = os.path.join(VERIF, "harness")
    for d in sorted(os.listdir(hdir)):
        full = os.path.join(hdir, d)
        if not os.path.isdir(full) or d == "hooks":
            continue
        for f in sorted(os.listdir(full)):
            if f.endswith(".go"):
                rep[os.path.join(REPO, ZZ, d, f)] = os.path.join(full, f)
    hooks = os.path.join(hdir, "hooks")
    if os.path.isdir(hooks):
        # hooks/<pkg path with __ for />/file_verif.go  ->  /repo/internal/<pkg path>/file_verif.go
        for d in sorted(os.listdir(hooks)):
            if d.startswith("mod@"):
                # a dependency of /repo: the hook file is laid over the module's directory in the cache
                rc, mdir = sh(["go", "list", "-m", "-f", "{{.Dir}}", d[4:].replace("__", "/")], cwd=REPO, env=GOENV)
                target = mdir.strip().splitlines()[-1]
            else:
                target = os.path.join(REPO, "internal", d.replace("__", "/"))
            for f in sorted(os.listdir(os.path.join(hooks, d))):
                if f.endswith(".go"):
                    rep[os.path.join(target, "zz_" + f)] = os.path.join(hooks, d, f)
    path = os.path.join(BUILD, "overlay.json")
    new = json.dumps({"Replace": rep}, indent=1, sort_keys=True)
    if not os.path.exists(path) or open(path).read() != new:
        open(path, "w").write(new)
    return path


def build_harness(name, race=False, timeout=1200):
    ov = overlay_file()
    os.makedirs(os.path.join(BUILD, "bin"), exist_ok=True)
    out = os.path.join(BUILD, "bin", name + ("-race" if race else ""))
    cmd = ["go", "build", "-tags", "verif", "-overlay", ov, "-o", out]
    if race:
        cmd.append("-race")
    cmd.append("./" + ZZ + "/" + name)
    rc, txt = sh(cmd, cwd=REPO, env=GOENV, timeout=timeout)
    if rc != 0:
        # a compile error is deterministic; anything transient (I/O, memory pressure) is not
        time.sleep(2)
        rc, txt = sh(cmd, cwd=REPO, env=GOENV, timeout=timeout)
    return rc, txt, out


def run_harness(binary, outdir, seed, tier, mult=1, only=-1, extra="", timeout=3000, env=None):
    if os.path.isdir(outdir):
        shutil.rmtree(outdir)
    os.makedirs(outdir)
    cmd = [binary, "-seed", str(seed), "-tier", tier, "-out", outdir, "-mult", str(mult), "-only", str(only)]
    if extra:
        cmd += ["-extra", extra]
    rc, txt = sh(cmd, cwd=REPO, timeout=timeout, env=env)
    return rc, txt


# ---- shards -------------------------------------------------------------------------------------

def _run_shard(path):
    t0 = time.time()
    # coqtop -batch evaluates the file without writing a .vo (the shard is only evaluated, never required)
    rc, out = sh(["timeout", "1700", "coqtop", "-Q", COQ, "Emitter", "-w", "-notation-overridden", "-batch", "-l", path],
                 cwd=os.path.dirname(path))
    first = 0
    m = re.search(r"first case index (\d+)", open(path).readline())
    if m:
        first = int(m.group(1))
    flat = " ".join(out.split())
    fails = None
    cnt = None
    m = re.search(r"R = (.*?) : list \(N \* N\)", flat)
    if m:
        fails = [(first + int(a), int(b)) for a, b in re.findall(r"\((\d+), (\d+)\)", m.group(1))]
    m = re.search(r"Cnt = (\d+)", flat)
    if m:
        cnt = int(m.group(1))
    hyp = None
    m = re.search(r"Hyp = (\d+)", flat)
    if m:
        hyp = int(m.group(1))
    return dict(path=path, rc=rc, out=out, fails=fails, count=cnt, hyp=hyp, wall=time.time() - t0)


def run_shards(outdir, workers=16, only_index=None):
    paths = sorted(glob.glob(os.path.join(outdir, "shard_*.v")))
    res = []
    with cf.ThreadPoolExecutor(max_workers=workers) as ex:
        for r in ex.map(_run_shard, paths):
            res.append(r)
    for p in glob.glob(os.path.join(outdir, "shard_*.vo")) + glob.glob(os.path.join(outdir, "shard_*.glob")) + \
            glob.glob(os.path.join(outdir, ".shard_*.aux")) + glob.glob(os.path.join(outdir, "shard_*.vok")) + \
            glob.glob(os.path.join(outdir, "shard_*.vos")):
        try:
            os.remove(p)
        except OSError:
            pass
    return res


def load_case(outdir, index):
    with open(os.path.join(outdir, "cases.jsonl")) as f:
        for line in f:
            if line.startswith('{"case"') or True:
                try:
                    d = json.loads(line)
                except ValueError:
                    continue
                if d.get("index") == index:
                    return d
    return None


# ---- known findings -----------------------------------------------------------------------------

def known_findings():
    p = os.path.join(VERIF, "known_findings.json")
    if not os.path.exists(p):
        return {"open": [], "fixed": []}
    return json.load(open(p))


def open_findings(prop):
    return [f for f in known_findings().get("open", []) if f["property"] == prop]


# ---- evidence -----------------------------------------------------------------------------------

def write_evidence(prop, ev):
    os.makedirs(os.path.join(VERIF, "evidence"), exist_ok=True)
    path = os.path.join(VERIF, "evidence", prop + ".json")
    with open(path, "w") as f:
        json.dump(ev, f, indent=1, sort_keys=True, default=str)
    return path


def write_replay(prop, name, content):
    os.makedirs(os.path.join(VERIF, "replays"), exist_ok=True)
    path = os.path.join(VERIF, "replays", "%s-%s.json" % (prop, name))
    with open(path, "w") as f:
        json.dump(content, f, indent=1, sort_keys=True, default=str)
    return path


def repo_state():
    rc, head = sh(["git", "-C", REPO, "rev-parse", "HEAD"])
    rc2, diff = sh(["git", "-C", REPO, "status", "--porcelain"])
    return {"head": head.strip(), "dirty_files": [l[3:] for l in diff.splitlines() if l.strip()]}
