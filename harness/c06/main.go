// Harness for C06: stores and history queries against the real in-memory and on-disk storage
// providers (badger), including contracts / channels that collide in the 32-bit key prefix, many
// messages per second, expired entries, reply-size cap, limits and continuation ids.
package main

import (
	"encoding/json"
	"fmt"
	"os"
	"path/filepath"
	"sort"
	"time"

	"github.com/emitter-io/emitter/internal/message"
	"github.com/emitter-io/emitter/internal/provider/contract"
	"github.com/emitter-io/emitter/internal/provider/storage"
	"github.com/emitter-io/emitter/internal/security"
	"github.com/emitter-io/emitter/internal/security/hash"
	"github.com/emitter-io/emitter/internal/service/fake"
	"github.com/emitter-io/emitter/internal/service/history"
	"github.com/emitter-io/emitter/internal/zzverif/vlib"
)

var cfg *vlib.Config

const wildcard = 1815237614

func msgTerm(m message.Message) string {
	return vlib.App("Msg", vlib.Bytes(m.ID), vlib.Bytes(m.Channel), vlib.Bytes(m.Payload), vlib.N(uint64(m.TTL)))
}

func ssidTerm(s message.Ssid) string {
	w := make([]uint64, len(s))
	for i, v := range s {
		w[i] = uint64(v)
	}
	return vlib.NList(w)
}

func frameTerm(f message.Frame) string {
	items := make([]string, len(f))
	for i, m := range f {
		items[i] = msgTerm(m)
	}
	return vlib.List(items)
}

func payload(n int) []byte {
	b := make([]byte, n)
	for i := range b {
		b[i] = 7
	}
	return b
}

func one(disk bool, dir string, capMix bool) (string, map[string]interface{}) {
	r := cfg.Rng
	var st storage.Storage
	if disk {
		s := storage.NewSSD(nil)
		if err := s.Configure(map[string]interface{}{"dir": dir}); err != nil {
			panic(err)
		}
		st = s
	} else {
		s := storage.NewInMemory(nil)
		if err := s.Configure(nil); err != nil {
			panic(err)
		}
		st = s
	}
	defer st.Close()
	now := time.Now().Unix()
	// contracts 5 and 9 with first levels 9 and 5 collide in the key prefix (5^9 == 9^5)
	contracts := []uint32{5, 9, 6}
	levels := []uint32{9, 5, 11, 255, 0x1ff, 0xffffffff} // ids ending in 0xff: the successor of such a key carries
	var stored []string
	var ids []message.ID
	nStore := 5 + r.Intn(25)
	for i := 0; i < nStore; i++ {
		ssid := message.Ssid{contracts[r.Intn(3)], levels[r.Intn(len(levels))]}
		for d := r.Intn(3); d > 0; d-- {
			ssid = append(ssid, levels[r.Intn(len(levels))])
		}
		size := vlib.Pick(r, 1, 5, 40, 40, 200, 30000)
		if capMix { // one channel, small and large payloads mixed: the reply-size cap is crossed in the middle of a page
			ssid = message.Ssid{5, 9}
			size = vlib.Pick(r, 2, 2, 2, 20000, 30000, 40000, 65500, 65530, 65536) // the last three: alone near or above the reply-size cap
		}
		m := message.New(ssid, []byte("ch"), payload(size))
		age := int64(vlib.Pick(r, 0, 1, 1, 2, 2, 3, 10, 100, 5000))
		m.ID.SetTime(now - age)
		switch r.Intn(6) {
		case 0:
			m.TTL = uint32(age/2 + 1) // expired already (age >= 20) or short lived
			if age < 20 {
				m.TTL = 3600
			}
		case 1:
			m.TTL = message.RetainedTTL
		default:
			m.TTL = uint32(vlib.Pick(r, 60, 3600, 86400))
		}
		if err := st.Store(m); err != nil {
			panic(err)
		}
		stored = append(stored, msgTerm(*m))
		ids = append(ids, m.ID)
	}
	var queries []string
	nQ := 6 + r.Intn(10)
	var lastPage message.Frame
	var lastSsid message.Ssid
	var lastFrom, lastUntil int64
	for q := 0; q < nQ; q++ {
		ssid := message.Ssid{contracts[r.Intn(3)], levels[r.Intn(len(levels))]}
		for d := r.Intn(3); d > 0; d-- {
			if r.Intn(4) == 0 {
				ssid = append(ssid, wildcard)
			} else {
				ssid = append(ssid, levels[r.Intn(len(levels))])
			}
		}
		from := int64(0)
		until := int64(0)
		switch r.Intn(4) {
		case 0:
			from = now - int64(vlib.Pick(r, 1, 2, 3, 50, 1000))
		case 1:
			until = now - int64(vlib.Pick(r, 0, 1, 2, 10))
		case 2:
			from = now - 3
			until = now - 1
			if r.Intn(3) == 0 { // a one-second window, or an inverted one
				from = now - int64(vlib.Pick(r, 0, 1, 2, 3, 10))
				until = from - int64(vlib.Pick(r, 0, 0, 1, 5))
			}
		}
		if capMix && r.Intn(3) != 0 {
			ssid = message.Ssid{5, 9}
		}
		limit := vlib.Pick(r, 0, 1, 1, 2, 3, 5, 100, 100000)
		var start message.ID
		if len(lastPage) > 0 && r.Intn(2) == 0 { // the previous query again, continued from one of the ids it returned
			ssid, from, until, limit = lastSsid, lastFrom, lastUntil, vlib.Pick(r, 1, 2, 100)
			start = lastPage[r.Intn(len(lastPage))].ID
		} else if r.Intn(8) == 0 && len(ids) > 0 {
			start = ids[r.Intn(len(ids))]
		}
		lastSsid, lastFrom, lastUntil = ssid, from, until
		res, err := st.Query(ssid, time.Unix(from, 0), time.Unix(until, 0), start, limit)
		if err != nil {
			panic(err)
		}
		lastPage = res
		queries = append(queries, vlib.App("Q", ssidTerm(ssid), vlib.Z(from), vlib.Z(until), vlib.Bytes(start), vlib.N(uint64(limit)), frameTerm(res)))
	}
	_ = sort.Ints
	return vlib.App("CStore", vlib.Bool(disk), vlib.Z(now), vlib.N(2592000), vlib.List(stored), vlib.List(queries)),
		map[string]interface{}{"disk": disk, "stored": nStore, "queries": nQ}
}

// lapse: continuation pages across the expiry of the continuation id's own message.  K stores are
// filled; page 1 of a query is taken from each while everything is live; after one common pause the
// short-lived messages have expired and page 2 is requested from an id of page 1.
type lapseStore struct {
	st       storage.Storage
	stored   []string
	ssid     message.Ssid
	limit    int
	q1       []string
	page1    message.Frame
	shortIDs int
}

func lapse(k int) []string {
	r := cfg.Rng
	now0 := time.Now().Unix()
	var ls []*lapseStore
	for i := 0; i < k; i++ {
		s := storage.NewInMemory(nil)
		if err := s.Configure(nil); err != nil {
			panic(err)
		}
		l := &lapseStore{st: s, ssid: message.Ssid{5, 9}, limit: 1 + r.Intn(3)}
		n := 4 + r.Intn(8)
		for j := 0; j < n; j++ {
			ssid := message.Ssid{5, 9}
			if r.Intn(4) == 0 {
				ssid = append(ssid, 11)
			}
			m := message.New(ssid, []byte("ch"), payload(vlib.Pick(r, 1, 5, 40)))
			age := int64(r.Intn(9))
			m.ID.SetTime(now0 - age)
			if r.Intn(2) == 0 {
				m.TTL = uint32(age + 4) // expires at now0+4: live for page 1, gone for page 2
				l.shortIDs++
			} else {
				m.TTL = 3600
			}
			if err := s.Store(m); err != nil {
				panic(err)
			}
			l.stored = append(l.stored, msgTerm(*m))
		}
		res, err := s.Query(l.ssid, time.Unix(0, 0), time.Unix(0, 0), nil, l.limit)
		if err != nil {
			panic(err)
		}
		l.page1 = res
		l.q1 = append(l.q1, vlib.App("Q", ssidTerm(l.ssid), vlib.Z(0), vlib.Z(0), vlib.Bytes(nil), vlib.N(uint64(l.limit)), frameTerm(res)))
		ls = append(ls, l)
	}
	now1 := time.Now().Unix()
	if now1 > now0+2 {
		// a loaded machine: page 1 was not taken safely before the expiry; no verdict from this batch
		for _, l := range ls {
			l.st.Close()
		}
		return nil
	}
	for time.Now().Unix() < now0+5 {
		time.Sleep(100 * time.Millisecond)
	}
	time.Sleep(150 * time.Millisecond)
	now2 := time.Now().Unix()
	var out []string
	for _, l := range ls {
		var q2 []string
		if len(l.page1) > 0 {
			// Frame.Limit sorted the page by time ascending: its first message is the oldest one = the last in key order
			for _, start := range []message.ID{l.page1[0].ID, l.page1[len(l.page1)-1].ID} {
				for _, lim := range []int{l.limit, 100} {
					res, err := l.st.Query(l.ssid, time.Unix(0, 0), time.Unix(0, 0), start, lim)
					if err != nil {
						panic(err)
					}
					q2 = append(q2, vlib.App("Q", ssidTerm(l.ssid), vlib.Z(0), vlib.Z(0), vlib.Bytes(start), vlib.N(uint64(lim)), frameTerm(res)))
				}
			}
		}
		res, _ := l.st.Query(l.ssid, time.Unix(0, 0), time.Unix(0, 0), nil, 100)
		q2 = append(q2, vlib.App("Q", ssidTerm(l.ssid), vlib.Z(0), vlib.Z(0), vlib.Bytes(nil), vlib.N(100), frameTerm(res)))
		out = append(out, vlib.App("CLapse", vlib.Z(now0), vlib.Z(now2), vlib.N(2592000), vlib.List(l.stored), vlib.List(l.q1), vlib.List(q2)))
		l.st.Close()
	}
	return out
}

// ---- pages of emitter/history/ requests -----------------------------------------------------------------

type allowAll struct{}

func (allowAll) Authorize(ch *security.Channel, perm uint8) (contract.Contract, security.Key, bool) {
	k := security.Key(make([]byte, 24))
	k.SetContract(1)
	k.SetPermissions(perm)
	return nil, k, true
}

// pages: messages (one per second) are stored on a/b/c/; for a filter, history is requested page by
// page through the real request handler (last=2, continued from the oldest id of the page before) and
// once as a whole.  The pages must be disjoint and together be the whole.
func pages(filter string, n int) (full []string, pgs [][]string) {
	st := storage.NewInMemory(nil)
	st.Configure(nil)
	defer st.Close()
	now := time.Now().Unix()
	ssid := message.Ssid{1, hash.OfString("a"), hash.OfString("b"), hash.OfString("c")}
	for i := 0; i < n; i++ {
		m := message.New(ssid, []byte("a/b/c/"), []byte(fmt.Sprintf("m%02d", i)))
		m.ID.SetTime(now - int64(n-i))
		m.TTL = 3600
		st.Store(m)
	}
	h := history.New(allowAll{}, st)
	ask := func(last int, from message.ID) []history.Message {
		req, _ := json.Marshal(map[string]interface{}{"key": "k", "channel": fmt.Sprintf("k/%s?last=%d", filter, last), "startFromID": from})
		resp, ok := h.OnRequest(&fake.Conn{}, req)
		if !ok {
			return nil
		}
		return resp.(*history.Response).Messages
	}
	for _, m := range ask(1000, nil) {
		full = append(full, string(m.Payload))
	}
	var from message.ID
	for p := 0; p < 12; p++ {
		ms := ask(2, from)
		if len(ms) == 0 {
			break
		}
		var pg []string
		for _, m := range ms {
			pg = append(pg, string(m.Payload))
		}
		pgs = append(pgs, pg)
		from = ms[0].ID // answers are ordered by time: the first is the oldest
	}
	return
}

func main() {
	cfg = vlib.ParseFlags()
	sh := vlib.NewShards(cfg.Out, "C06", "From Emitter Require Import Lib.Base Model.MsgCodec Model.Store Check.C06.", "case", "check", 12)
	base, _ := os.MkdirTemp(cfg.Out, "ssd")
	defer os.RemoveAll(base)
	for i := 0; i < 120*cfg.Mult; i++ {
		disk := i%4 == 3
		dir := filepath.Join(base, "d"+string(rune('a'+i%26))+string(rune('a'+(i/26)%26)))
		t, h := one(disk, dir, i%6 == 5)
		cl := "inmemory"
		if disk {
			cl = "ssd"
			os.RemoveAll(dir)
		}
		sh.Add(t, h, cl, true)
	}
	for _, filter := range []string{"a/b/c/", "a/b/", "a/", "a/+/c/", "a/+/"} {
		n := 3 + cfg.Rng.Intn(6)
		full, pgs := pages(filter, n)
		var pt []string
		for _, pg := range pgs {
			var items []string
			for _, x := range pg {
				items = append(items, vlib.Str(x))
			}
			pt = append(pt, vlib.List(items))
		}
		var ft []string
		for _, x := range full {
			ft = append(ft, vlib.Str(x))
		}
		sh.Add(vlib.App("CPages", vlib.N(uint64(n)), vlib.List(ft), vlib.List(pt)),
			map[string]interface{}{"op": "history request pages", "filter": filter, "stored": n, "pages": len(pgs)}, "request-pages", true)
	}
	for b := 0; b < cfg.Mult; b++ {
		for _, t := range lapse(8) {
			sh.Add(t, map[string]interface{}{"op": "continuation across expiry"}, "lapse", true)
		}
	}
	sh.Finish("stores of 5-30 messages over contracts {5,9,6} x levels {9,5,11,255,0x1ff,0xffffffff} (5/9 and 9/5 collide in the 32-bit key prefix; ids ending in 0xff) depth 1-3, ages 0..5000 s with many per second, ttl short / long / retained / already expired, payloads up to 30000 bytes (reply-size cap); every 6th store on one channel with payloads of 2 / 20000 / 30000 / 40000 bytes mixed (the cap is crossed in the middle of a page) and single messages near or above the cap (65500 - 65536 bytes of payload); one-second and inverted windows; 6-16 queries each: filters with wildcards, shorter and longer than stored channels, windows, limits 0..100000, continuation from ids of the previous answer or any stored id; in-memory provider and (every 4th) the on-disk provider; request-pages: emitter/history/ requests through the real handler, page by page with startFromID, for filters as deep as and shallower than the stored channel; lapse: stores whose short-lived messages expire between page 1 and the continuation page (real 5 s pause), continuation from the first / last id of page 1; non-trivial: all")
}
