//go:build verif

package mesh

// VerifSender drives a real gossipSender (Send / Broadcast / pick / deliver) over a recording
// protocol sender, without the sender goroutine, so that a harness decides when delivery happens.
type VerifSender struct {
	lastSrc PeerName
	s       *gossipSender
	Sent    [][]byte
	stop    chan struct{}
}

type verifRecorder struct{ v *VerifSender }

func (r verifRecorder) SendProtocolMsg(m protocolMsg) error {
	r.v.Sent = append(r.v.Sent, append([]byte{}, m.msg...))
	return nil
}

// NewVerifSender builds the sender.
func NewVerifSender() *VerifSender {
	v := &VerifSender{stop: make(chan struct{})}
	v.s = &gossipSender{
		makeMsg: func(msg []byte) protocolMsg { return protocolMsg{ProtocolGossip, msg} },
		makeBroadcastMsg: func(srcName PeerName, msg []byte) protocolMsg {
			v.lastSrc = srcName
			return protocolMsg{ProtocolGossipBroadcast, msg}
		},
		sender:     verifRecorder{v},
		broadcasts: make(map[PeerName]GossipData),
		more:       make(chan struct{}, 1),
	}
	return v
}

// Send queues gossip data on the link.
func (v *VerifSender) Send(d GossipData) { v.s.Send(d) }

// Broadcast queues broadcast data of the given source on the link.
func (v *VerifSender) Broadcast(src PeerName, d GossipData) { v.s.Broadcast(src, d) }

// Deliver sends everything that is pending and returns the messages handed to the connection.
func (v *VerifSender) Deliver() [][]byte {
	v.Sent = nil
	v.s.deliver(v.stop)
	return v.Sent
}

// VerifPiece is one piece of data picked by the sender.
type VerifPiece struct {
	Broadcast bool
	Src       PeerName
	Msgs      [][]byte
}

// DeliverOne lets the real pick() choose once (the gossip slot first, else one broadcast source)
// and returns what it would hand to the connection; ok = false when nothing was pending.
func (v *VerifSender) DeliverOne() (p VerifPiece, ok bool) {
	data, mk := v.s.pick()
	if data == nil {
		return VerifPiece{}, false
	}
	v.lastSrc = 0
	m := mk(nil)
	return VerifPiece{Broadcast: m.tag == ProtocolGossipBroadcast, Src: v.lastSrc, Msgs: data.Encode()}, true
}

// Pending reports what is queued: the gossip slot and the number of broadcast sources.
func (v *VerifSender) Pending() (gossip bool, broadcasts int) {
	v.s.Lock()
	defer v.s.Unlock()
	return v.s.gossip != nil, len(v.s.broadcasts)
}
