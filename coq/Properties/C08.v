(* C08 - A connection that ends leaves nothing behind; its last will fires once.
   Model: close_conn / on_last_will of Model/Broker.v (Conn.Close: unsubscribe every counter through
   the same path as UNSUBSCRIBE, then the last will, then the slot is gone).  All ways of ending reach
   Conn.Close (the harness cuts real sessions at every byte and ends them by DISCONNECT, abrupt
   close, malformed and panicking packets). *)
From Emitter Require Import Lib.Base Model.MsgCodec Model.Channel Model.Key Model.Trie Model.Store Model.Broker
     Spec.PubSub Spec.BrokerSpec Proofs.BrokerProofs Proofs.BrokerStep Proofs.BrokerInv.

(* the slot is gone (nothing is delivered to it any more: delivery goes through conn_of_sub), exactly
   the connection's counted subscriptions - ordinary, presence-change and link-created ones all live
   in the same counters - leave the index, nobody else's entry moves, and one 'unsubscribe'
   notification per subscription is queued, in the order the subscriptions were made *)
Theorem C08_close_removes_exactly_its_subscriptions : forall {I} (X : ixops I) abs inv okf, IxSpec X abs inv okf ->
  forall e (b : @broker I) i c,
  inv (b_trie b) -> get_conn (b_conns b) (N.to_nat i) = Some c -> NoDup (map k_ssid (cn_ctrs c)) ->
  let r := close_conn X e b i c in
  get_conn (b_conns r) (N.to_nat i) = None
  /\ (forall p, In p (abs (b_trie r)) <-> In p (abs (b_trie b)) /\ forall k, In k (cn_ctrs c) -> p <> (k_ssid k, cn_sub c))
  /\ b_queue r = b_queue b ++ map (fun k => Notif false (0 :: presenceW :: k_ssid k) (k_chan k) i (cn_user c)) (cn_ctrs c).
Proof. intros I X abs inv okf HS. exact (close_cleans X abs inv okf HS). Qed.
Print Assumptions C08_close_removes_exactly_its_subscriptions.

(* with bookkeeping that covers the index (what F1 broke: two filters sharing one counter), nothing
   of the connection is left and every other subscriber's entries are untouched *)
Theorem C08_nothing_left_behind : forall {I} (X : ixops I) abs inv okf, IxSpec X abs inv okf ->
  forall e (b : @broker I) i c,
  inv (b_trie b) -> get_conn (b_conns b) (N.to_nat i) = Some c -> NoDup (map k_ssid (cn_ctrs c)) ->
  (forall f, In (f, cn_sub c) (abs (b_trie b)) -> has_ctr c f = true) ->
  let r := close_conn X e b i c in
  (forall f, ~ In (f, cn_sub c) (abs (b_trie r)))
  /\ (forall f s, s <> cn_sub c -> (In (f, s) (abs (b_trie r)) <-> In (f, s) (abs (b_trie b)))).
Proof. intros I X abs inv okf HS. exact (close_leaves_nothing X abs inv okf HS). Qed.
Print Assumptions C08_nothing_left_behind.

(* the bookkeeping invariant is kept by subscribing: a filter is added to the counters exactly when
   it is added to the index *)
Theorem C08_bookkeeping_follows_index : forall {I} (X : ixops I) (b : @broker I) i c ssid ch,
  has_ctr c ssid = false ->
  b_trie (subscribe_ev X b i c ssid ch) = ix_subscribe X ssid (cn_sub c) (b_trie b)
  /\ b_queue (subscribe_ev X b i c ssid ch) = b_queue b ++ [Notif true (0 :: presenceW :: ssid) ch i (cn_user c)].
Proof. intros I X b i c ssid ch H. destruct (subscribe_ev_effect X b i c ssid ch H) as (A & B & _). auto. Qed.
Print Assumptions C08_bookkeeping_follows_index.

(* ... and that bookkeeping invariant (BI: counters and index agree, no filter counted twice,
   connection ids distinct) holds in EVERY state reachable from the empty broker by any history of
   requests (new connections take a free slot and a fresh id), for every index all of whose filters
   are admissible - so in every reachable state a connection that ends leaves nothing behind *)
Theorem C08_bookkeeping_invariant_of_all_histories : forall {I} (X : ixops I) abs inv okf, IxSpec X abs inv okf -> (forall f, okf f) ->
  forall e subs l, NoDup subs -> wf_run X e (broker0 X subs) l -> BI abs inv (run_from X e (broker0 X subs) l).
Proof. intros I X abs inv okf HS Hok. exact (BI_reachable X abs inv okf HS Hok). Qed.
Print Assumptions C08_bookkeeping_invariant_of_all_histories.

Theorem C08_nothing_left_behind_in_reachable_states : forall {I} (X : ixops I) abs inv okf, IxSpec X abs inv okf ->
  forall e (b : @broker I) i c, BI abs inv b -> get_conn (b_conns b) (N.to_nat i) = Some c ->
  let r := close_conn X e b i c in
  (forall f, ~ In (f, cn_sub c) (abs (b_trie r)))
  /\ (forall f s, s <> cn_sub c -> (In (f, s) (abs (b_trie r)) <-> In (f, s) (abs (b_trie b)))).
Proof. intros I X abs inv okf HS. exact (BI_close_leaves_nothing X abs inv okf HS). Qed.
Print Assumptions C08_nothing_left_behind_in_reachable_states.

(* the last will is published exactly once, to the current subscribers of its channel, iff it was
   supplied with a key that allows publishing there *)
Theorem C08_last_will_once : forall {I} (X : ixops I) abs inv okf, IxSpec X abs inv okf ->
  forall e (b : @broker I) c retain topic msg k,
  inv (b_trie b) -> cn_will c = Some (Will retain topic msg) ->
  let ch := parse_channel topic in
  (c_type ch =? ChannelStatic) = true -> auth e ch AllowWrite = Some k -> has_permission k AllowExtend = false ->
  exists tg, b_out (on_last_will X e b c) = b_out b ++ map (fun i => (i, PMsg (c_chan ch) msg)) tg /\ NoDup tg
    /\ forall i, In i tg <-> exists s f, In (f, s) (abs (b_trie b)) /\ matches (e_mqtt e) f (key_contract k :: c_query ch) = true
                                       /\ conn_of_sub (b_conns b) s 0 = Some i.
Proof. intros I X abs inv okf HS. exact (last_will_once X abs inv okf HS). Qed.
Print Assumptions C08_last_will_once.

Theorem C08_last_will_silent_otherwise : forall {I} (X : ixops I) e (b : @broker I) c,
  (cn_will c = None
   \/ (exists retain topic msg, cn_will c = Some (Will retain topic msg)
         /\ ((c_type (parse_channel topic) =? ChannelStatic) = false \/ auth e (parse_channel topic) AllowWrite = None
             \/ exists k, auth e (parse_channel topic) AllowWrite = Some k /\ has_permission k AllowExtend = true))) ->
  on_last_will X e b c = b.
Proof. intros I X. exact (last_will_silent X). Qed.
Print Assumptions C08_last_will_silent_otherwise.

Example C08_nonvacuous :
  let c := Conn 5 [] None true [Ctr [7; 11] [97]; Ctr [7; 12] [98]] [] in
  let b := B [([7; 11], 5); ([7; 12], 5); ([7; 11], 6)] [Some c; Some (Conn 6 [] None true [Ctr [7; 11] [97]] [])] [] 0 [] [] in
  let r := close_conn held_ix (Env false 7 0 0%Z [] 0) b 0 c in
  b_trie r = [([7; 11], 6)] /\ get_conn (b_conns r) 0 = None /\ length (b_queue r) = 2%nat.
Proof. vm_compute. repeat split. Qed.
