(* C05: whatever payloads a broker merges - any content, order, duplication, coalescing, complete
   states - the counters it keeps for a member peer equal the number of that peer's subscriptions that
   are active in its replicated state, per channel, and its trie forwards a channel to the peer exactly
   when that number is positive: routing is a function of the replicated state.  Statements are about
   the model functions of Model/Cluster.v themselves (swarm_merge, local_sub, local_unsub,
   peer_offline). *)
From stdpp Require Import gmap.
From Coq Require Import ZArith List Lia.
From Emitter Require Import Model.Lww Model.Sender Model.Cluster Proofs.LwwProofs.
Import ListNotations.
Local Open Scope N_scope.

(* ---- keys ---- *)
Lemma kbase_pos : 0 < kbase. Proof. reflexivity. Qed.

Lemma key_parts p c s : c < kbase -> s < kbase ->
  k_peer (mk_key p c s) = p /\ k_conn (mk_key p c s) = c /\ k_ssid (mk_key p c s) = s.
Proof.
  intros Hc Hs. unfold k_peer, k_conn, k_ssid, mk_key.
  assert (kbase <> 0) as K by (pose proof kbase_pos; lia).
  repeat split.
  - replace ((p * kbase + c) * kbase + s) with (s + (c + p * kbase) * kbase) by lia.
    rewrite <- N.div_div by assumption. rewrite N.div_add by assumption. rewrite (N.div_small s) by assumption.
    rewrite N.add_0_l, N.div_add by assumption. rewrite (N.div_small c) by assumption. lia.
  - replace ((p * kbase + c) * kbase + s) with (s + (p * kbase + c) * kbase) by lia.
    rewrite N.div_add by assumption. rewrite (N.div_small s) by assumption. rewrite N.add_0_l.
    replace (p * kbase + c) with (c + p * kbase) by lia. rewrite N.mod_add by assumption. apply N.mod_small. assumption.
  - replace ((p * kbase + c) * kbase + s) with (s + (p * kbase + c) * kbase) by lia.
    rewrite N.mod_add by assumption. apply N.mod_small. assumption.
Qed.

Lemma key_decompose k : k = mk_key (k_peer k) (k_conn k) (k_ssid k) /\ k_conn k < kbase /\ k_ssid k < kbase.
Proof.
  assert (kbase <> 0) as K by (pose proof kbase_pos; lia).
  unfold k_peer, k_conn, k_ssid, mk_key. repeat split; try (apply N.mod_lt; assumption).
  rewrite <- N.div_div by assumption.
  pose proof (N.div_mod k kbase K) as E1. pose proof (N.div_mod (k / kbase) kbase K) as E2. lia.
Qed.

Lemma mk_key_inj p c s p' c' s' : c < kbase -> s < kbase -> c' < kbase -> s' < kbase ->
  mk_key p c s = mk_key p' c' s' -> p = p' /\ c = c' /\ s = s'.
Proof.
  intros A B C D E.
  destruct (key_parts p c s A B) as (P1 & P2 & P3). destruct (key_parts p' c' s' C D) as (Q1 & Q2 & Q3).
  rewrite E in P1, P2, P3. rewrite P1 in Q1. rewrite P2 in Q2. rewrite P3 in Q3. auto.
Qed.

(* ---- sets of pairs ---- *)
Lemma pair_eqb_eq a b : pair_eqb a b = true <-> a = b.
Proof.
  unfold pair_eqb. destruct a, b; cbn. rewrite andb_true_iff, !N.eqb_eq. split; [intros [E1 E2]; subst; reflexivity | intros H; inversion H; auto].
Qed.

Lemma in_set_add x y l : In x (set_add y l) <-> In x l \/ x = y.
Proof.
  unfold set_add. destruct (existsb (pair_eqb y) l) eqn:E.
  - split; [auto|]. intros [H| ->]; [exact H|]. apply existsb_exists in E. destruct E as (z & Hz & E). apply pair_eqb_eq in E. subst. exact Hz.
  - rewrite in_app_iff. cbn. split; [intros [H|[H|[]]]; auto | intros [H|H]; auto].
Qed.

Lemma in_set_del x y l : In x (set_del y l) <-> In x l /\ x <> y.
Proof.
  unfold set_del. rewrite filter_In. split; intros [A B]; (split; [exact A|]).
  - intros ->. rewrite (proj2 (pair_eqb_eq y y) eq_refl) in B. discriminate.
  - destruct (pair_eqb y x) eqn:E; [|reflexivity]. apply pair_eqb_eq in E. subst. contradiction.
Qed.

(* ---- counters ---- *)
Lemma find_filter_other (c : list (N * N)) s s' : s <> s' ->
  find (fun e => fst e =? s') (filter (fun e => negb (fst e =? s)) c) = find (fun e => fst e =? s') c.
Proof.
  intros H. induction c as [|e c IH]; cbn; [reflexivity|].
  destruct (fst e =? s) eqn:E; cbn.
  - apply N.eqb_eq in E. destruct (fst e =? s') eqn:E'; [apply N.eqb_eq in E'; congruence | exact IH].
  - destruct (fst e =? s'); [reflexivity | exact IH].
Qed.

Lemma find_filter_self (c : list (N * N)) s :
  find (fun e => fst e =? s) (filter (fun e => negb (fst e =? s)) c) = None.
Proof.
  induction c as [|e c IH]; cbn; [reflexivity|].
  destruct (fst e =? s) eqn:E; cbn; [exact IH | rewrite E; exact IH].
Qed.

Lemma find_app_none {A} (f : A -> bool) l l' : find f l = None -> find f (l ++ l') = find f l'.
Proof. induction l as [|x l IH]; cbn; [reflexivity|]. destruct (f x); [discriminate | exact IH]. Qed.

Lemma find_app_some {A} (f : A -> bool) l l' x : find f l = Some x -> find f (l ++ l') = Some x.
Proof. induction l as [|y l IH]; cbn; [discriminate|]. destruct (f y); [auto | exact IH]. Qed.

Lemma cnt_get_set c s v s' : cnt_get (cnt_set c s v) s' = if s =? s' then v else cnt_get c s'.
Proof.
  unfold cnt_get, cnt_set. destruct (s =? s') eqn:E.
  - apply N.eqb_eq in E. subst s'. destruct (v =? 0) eqn:V.
    + rewrite find_filter_self. apply N.eqb_eq in V. auto.
    + rewrite find_app_none by apply find_filter_self. cbn. rewrite N.eqb_refl. reflexivity.
  - apply N.eqb_neq in E. destruct (v =? 0).
    + rewrite find_filter_other by exact E. reflexivity.
    + destruct (find (fun e => fst e =? s') (filter (fun e => negb (fst e =? s)) c)) as [x|] eqn:F.
      * rewrite (find_app_some _ _ _ _ F). rewrite find_filter_other in F by exact E. rewrite F. reflexivity.
      * rewrite find_app_none by exact F. cbn. destruct (s =? s') eqn:E2; [apply N.eqb_eq in E2; contradiction|].
        rewrite find_filter_other in F by exact E. rewrite F. reflexivity.
Qed.

(* ---- members ---- *)
Lemma member_get_set m p c q : member_get (member_set m p c) q = if p =? q then Some c else member_get m q.
Proof.
  unfold member_get, member_set. destruct (p =? q) eqn:E.
  - apply N.eqb_eq in E. subst q.
    assert (find (fun e : N * list (N * N) => fst e =? p) (filter (fun e => negb (fst e =? p)) m) = None) as F.
    { induction m as [|e m IH]; cbn; [reflexivity|]. destruct (fst e =? p) eqn:E; cbn; [exact IH | rewrite E; exact IH]. }
    rewrite find_app_none by exact F. cbn. rewrite N.eqb_refl. reflexivity.
  - apply N.eqb_neq in E.
    assert (forall l, find (fun e : N * list (N * N) => fst e =? q) (filter (fun e => negb (fst e =? p)) l) = find (fun e => fst e =? q) l) as F.
    { induction l as [|e l IH]; cbn; [reflexivity|]. destruct (fst e =? p) eqn:E1; cbn.
      - apply N.eqb_eq in E1. destruct (fst e =? q) eqn:E2; [apply N.eqb_eq in E2; congruence | exact IH].
      - destruct (fst e =? q); [reflexivity | exact IH]. }
    destruct (find (fun e => fst e =? q) (filter (fun e => negb (fst e =? p)) m)) as [x|] eqn:G.
    + rewrite (find_app_some _ _ _ _ G). rewrite F in G. rewrite G. reflexivity.
    + rewrite find_app_none by exact G. cbn. destruct (p =? q) eqn:E2; [apply N.eqb_eq in E2; contradiction|].
      rewrite F in G. rewrite G. reflexivity.
Qed.

Lemma member_get_del m p q : p <> q -> member_get (member_del m p) q = member_get m q.
Proof.
  intros H. unfold member_get, member_del.
  induction m as [|e m IH]; cbn; [reflexivity|]. destruct (fst e =? p) eqn:E1; cbn.
  - apply N.eqb_eq in E1. destruct (fst e =? q) eqn:E2; [apply N.eqb_eq in E2; congruence | exact IH].
  - destruct (fst e =? q); [reflexivity | exact IH].
Qed.

(* ---- one-operation payloads ---- *)
Local Open Scope Z_scope.

Local Open Scope Z_scope.
Lemma fetch_insert (st : replica) k e k' : fetch (<[k := e]> st) k' = if decide (k = k') then e else fetch st k'.
Proof.
  unfold fetch. destruct (decide (k = k')) as [->|N]; [rewrite lookup_insert; reflexivity | rewrite lookup_insert_ne by exact N; reflexivity].
Qed.

Local Open Scope N_scope.

Lemma NoDup_snoc {A} (l : list A) x : List.NoDup l -> ~ In x l -> List.NoDup (l ++ [x]).
Proof.
  induction l as [|y l IH]; intros ND H; cbn; [repeat constructor; intros []|].
  inversion ND; subst. constructor.
  - rewrite in_app_iff. intros [H1|[H1|[]]]; [contradiction | subst; apply H; left; reflexivity].
  - apply IH; [assumption | intros H1; apply H; right; exact H1].
Qed.

Lemma fold_set_add_in (f : N -> N * N) : forall ks r x,
  In x (fold_left (fun r k => set_add (f k) r) ks r) <-> In x r \/ exists k, In k ks /\ x = f k.
Proof.
  induction ks as [|k ks IH]; intros r x; cbn [fold_left].
  - split; [auto | intros [H|(k & [] & _)]; exact H].
  - rewrite IH, in_set_add. split.
    + intros [[H|H]|(k' & H1 & H2)]; [auto | right; exists k; split; [left; reflexivity | exact H] | right; exists k'; split; [right; exact H1 | exact H2]].
    + intros [H|(k' & [->|H1] & H2)]; [auto | left; right; exact H2 | right; exists k'; auto].
Qed.

Lemma in_subs_of (st : replica) q k : In k (subs_of st q) <-> k_peer k = q /\ exists e, st !! k = Some e /\ is_added e = true.
Proof.
  unfold subs_of. rewrite in_map_iff. split.
  - intros ([k' e] & <- & H). apply filter_In in H. destruct H as [H1 H2]. cbn in *.
    apply andb_prop in H2. destruct H2 as [H2 H3]. apply N.eqb_eq in H2.
    apply elem_of_list_In, elem_of_map_to_list in H1. split; [exact H2 | exists e; auto].
  - intros (H1 & e & H2 & H3). exists (k, e). split; [reflexivity|]. apply filter_In. split.
    + apply elem_of_list_In, elem_of_map_to_list. exact H2.
    + cbn. rewrite H3. apply N.eqb_eq in H1. rewrite H1. reflexivity.
Qed.


(* ---- what the counters of a member describe ---- *)
Definition status (st : replica) (k : N) : bool := is_added (fetch st k).

(* for every channel s: a duplicate-free list of exactly the keys of p on s that are on under [h];
   the counter is its length and the trie holds (s, p) iff it is not empty *)
Definition counts (h : N -> bool) (p : N) (cnt remote : list (N * N)) : Prop :=
  forall s, exists l, NoDup l /\ (forall k, In k l <-> k_peer k = p /\ k_ssid k = s /\ h k = true)
                      /\ cnt_get cnt s = N.of_nat (length l) /\ (In (s, p) remote <-> l <> []).

Lemma counts_ext h h' p cnt remote :
  (forall k, k_peer k = p -> h k = h' k) -> counts h p cnt remote -> counts h' p cnt remote.
Proof.
  intros E C s. destruct (C s) as (l & ND & M & L & R). exists l. split; [exact ND|]. split; [|auto].
  intros k. rewrite M. split; intros (A & B & H); (split; [exact A|]; split; [exact B|]); [rewrite <- E | rewrite E]; assumption.
Qed.

Lemma filter_notin_N (k : N) : forall l, ~ In k l -> filter (fun x => negb (x =? k)) l = l.
Proof.
  induction l as [|z l IHl]; intros Hn; [reflexivity|]. cbn. destruct (z =? k) eqn:E.
  - apply N.eqb_eq in E. subst. exfalso. apply Hn. left. reflexivity.
  - cbn. f_equal. apply IHl. intros H. apply Hn. right. exact H.
Qed.

Lemma length_remove_nodup (k : N) : forall l, NoDup l -> In k l ->
  length (filter (fun x => negb (x =? k)) l) = pred (length l)
  /\ NoDup (filter (fun x => negb (x =? k)) l)
  /\ (forall x, In x (filter (fun x => negb (x =? k)) l) <-> In x l /\ x <> k).
Proof.
  intros l ND H. split; [|split].
  - induction l as [|y l IH]; [destruct H|]. inversion ND as [|? ? Hn ND']; subst. cbn [filter]. destruct H as [->|H].
    + rewrite N.eqb_refl. cbn [negb length pred].
      rewrite (filter_notin_N k l Hn). reflexivity.
    + destruct (y =? k) eqn:E; [apply N.eqb_eq in E; subst; contradiction|]. cbn [negb length].
      rewrite (IH ND' H). destruct l; [destruct H | reflexivity].
  - apply NoDup_filter. exact ND.
  - intros x. rewrite filter_In. split; intros [A B]; (split; [exact A|]).
    + intros ->. rewrite N.eqb_refl in B. discriminate.
    + destruct (x =? k) eqn:E; [apply N.eqb_eq in E; contradiction | reflexivity].
Qed.

(* a key of p goes on: the counter of its channel is incremented, the trie entry appears with the first *)
Lemma counts_on h p cnt remote k :
  k_peer k = p -> h k = false -> counts h p cnt remote ->
  counts (fun x => if x =? k then true else h x) p
         (fst (cnt_inc cnt (k_ssid k)))
         (if snd (cnt_inc cnt (k_ssid k)) then set_add (k_ssid k, p) remote else remote).
Proof.
  intros Hp Hk C s. destruct (C s) as (l & ND & M & L & R). unfold cnt_inc. cbn [fst snd].
  destruct (N.eq_dec (k_ssid k) s) as [<-|Ns].
  - exists (l ++ [k]). split; [|split; [|split]].
    + apply NoDup_snoc; [exact ND|]. intros H. apply M in H. destruct H as (_ & _ & H). congruence.
    + intros x. rewrite in_app_iff, M. cbn. destruct (x =? k) eqn:E.
      * apply N.eqb_eq in E. subst x. split; [intros _; auto | intros _; right; left; reflexivity].
      * apply N.eqb_neq in E. split; [intros [H|[H|[]]]; [exact H | congruence] | intros H; left; exact H].
    + rewrite cnt_get_set, N.eqb_refl, L, app_length. cbn. lia.
    + destruct (cnt_get cnt (k_ssid k) =? 0) eqn:Z0.
      * rewrite in_set_add. split; [intros _ H; destruct l; discriminate | intros _; right; reflexivity].
      * apply N.eqb_neq in Z0. rewrite L in Z0. rewrite R. split; [intros _ H; destruct l; discriminate|]. intros _ H. subst l. cbn in Z0. lia.
  - exists l. split; [exact ND|]. split; [|split].
    + intros x. rewrite M. destruct (x =? k) eqn:E; [|reflexivity].
      apply N.eqb_eq in E. subst x. split; intros (A & B & _); congruence.
    + rewrite cnt_get_set. destruct (k_ssid k =? s) eqn:E; [apply N.eqb_eq in E; contradiction | exact L].
    + destruct (cnt_get cnt (k_ssid k) =? 0); [|exact R]. rewrite in_set_add, R. split; [intros [H|H]; [exact H | inversion H; congruence] | auto].
Qed.

(* a key of p goes off: decremented, the trie entry disappears with the last *)
Lemma counts_off h p cnt remote k :
  k_peer k = p -> h k = true -> counts h p cnt remote ->
  counts (fun x => if x =? k then false else h x) p
         (fst (cnt_dec cnt (k_ssid k)))
         (if snd (cnt_dec cnt (k_ssid k)) then set_del (k_ssid k, p) remote else remote).
Proof.
  intros Hp Hk C s. destruct (C s) as (l & ND & M & L & R).
  destruct (N.eq_dec (k_ssid k) s) as [<-|Ns].
  - assert (In k l) as Hin by (apply M; auto).
    destruct (length_remove_nodup k l ND Hin) as (Len & ND' & M').
    assert (cnt_get cnt (k_ssid k) <> 0) as NZ by (rewrite L; destruct l; [destruct Hin | cbn [length]; rewrite Nat2N.inj_succ; lia]).
    unfold cnt_dec. apply N.eqb_neq in NZ. rewrite NZ. cbn [fst snd].
    exists (filter (fun x => negb (x =? k)) l). split; [exact ND'|]. split; [|split].
    + intros x. rewrite M', M. destruct (x =? k) eqn:E.
      * apply N.eqb_eq in E. subst x. split; [intros [_ H]; contradiction | intros (_ & _ & H); discriminate].
      * apply N.eqb_neq in E. split; [intros [H _]; exact H | intros H; split; [exact H | exact E]].
    + rewrite cnt_get_set, N.eqb_refl, L, Len. destruct l; [destruct Hin | cbn [length pred]; rewrite Nat2N.inj_succ; lia].
    + assert (length l <> 0%nat) as Lnz by (destruct l; [destruct Hin | discriminate]).
      destruct (cnt_get cnt (k_ssid k) =? 1) eqn:O1.
      * apply N.eqb_eq in O1. rewrite L in O1. rewrite in_set_del.
        assert (filter (fun x => negb (x =? k)) l = []) as Emp.
        { apply length_zero_iff_nil. rewrite Len. lia. }
        rewrite Emp. split; [intros [_ H]; exfalso; apply H; reflexivity | intros H; contradiction].
      * apply N.eqb_neq in O1. rewrite L in O1. rewrite R. split; intros _ H.
        -- apply (f_equal (@length N)) in H. rewrite Len in H. cbn in H. lia.
        -- subst l. destruct Hin.
  - unfold cnt_dec. destruct (cnt_get cnt (k_ssid k) =? 0) eqn:Z0; cbn [fst snd].
    + exists l. split; [exact ND|]. split; [|split; [exact L | exact R]].
      intros x. rewrite M. destruct (x =? k) eqn:E; [|reflexivity]. apply N.eqb_eq in E. subst x. split; intros (A & B & _); congruence.
    + exists l. split; [exact ND|]. split; [|split].
      * intros x. rewrite M. destruct (x =? k) eqn:E; [|reflexivity]. apply N.eqb_eq in E. subst x. split; intros (A & B & _); congruence.
      * rewrite cnt_get_set. destruct (k_ssid k =? s) eqn:E; [apply N.eqb_eq in E; contradiction | exact L].
      * destruct (cnt_get cnt (k_ssid k) =? 1); [|exact R]. rewrite in_set_del, R. split; [intros [H _]; exact H | intros H; split; [exact H | intros E; inversion E; congruence]].
Qed.

(* ---- a member created on first sight ---- *)
Lemma status_lookup st k : status st k = true <-> exists e, st !! k = Some e /\ is_added e = true.
Proof.
  unfold status, fetch. destruct (st !! k) as [e|]; cbn.
  - split; [intros H; exists e; auto | intros (e' & E & H); inversion E; subst; exact H].
  - split; [discriminate | intros (e' & E & _); discriminate].
Qed.

Lemma subs_of_nodup st p : NoDup (subs_of st p).
Proof.
  unfold subs_of. pose proof (NoDup_fst_map_to_list st) as ND. apply NoDup_ListNoDup in ND.
  revert ND. generalize (map_to_list st). induction l as [|[k e] l IH]; intros ND; cbn; [constructor|].
  inversion ND as [|? ? Hn ND']; subst. destruct ((k_peer k =? p) && is_added e); cbn; [constructor; [|apply IH; exact ND'] | apply IH; exact ND'].
  intros H. apply Hn. apply in_map_iff in H. destruct H as ([k' e'] & E & H). cbn in E. subst k'. apply filter_In in H.
  apply in_map_iff. exists (k, e'). split; [reflexivity | tauto].
Qed.

Lemma count_keys_fold p : forall ks cnt remote,
  NoDup ks -> (forall k, In k ks -> k_peer k = p) ->
  (forall s, cnt_get cnt s = 0 /\ ~ In (s, p) remote) ->
  let '(c, r) := fold_left (fun acc k => count_key acc p k) ks (cnt, remote) in
  forall s, cnt_get c s = N.of_nat (length (filter (fun k => k_ssid k =? s) ks))
            /\ (In (s, p) r <-> filter (fun k => k_ssid k =? s) ks <> [])
            /\ (forall s' q, q <> p -> (In (s', q) r <-> In (s', q) remote)).
Proof.
  intros ks cnt remote ND Hp H0.
  assert (forall ks done cnt remote, NoDup (done ++ ks) ->
            (forall s, cnt_get cnt s = N.of_nat (length (filter (fun k => k_ssid k =? s) done))
                       /\ (In (s, p) remote <-> filter (fun k => k_ssid k =? s) done <> [])) ->
            let '(c, r) := fold_left (fun acc k => count_key acc p k) ks (cnt, remote) in
            (forall s, cnt_get c s = N.of_nat (length (filter (fun k => k_ssid k =? s) (done ++ ks)))
                       /\ (In (s, p) r <-> filter (fun k => k_ssid k =? s) (done ++ ks) <> []))
            /\ (forall s' q, q <> p -> (In (s', q) r <-> In (s', q) remote))) as G.
  { clear. induction ks as [|k ks IH]; intros done cnt remote ND H; cbn [fold_left].
    - rewrite app_nil_r. split; [exact H | intros; reflexivity].
    - unfold count_key at 2. cbn [fst snd]. unfold cnt_inc.
      specialize (IH (done ++ [k]) (cnt_set cnt (k_ssid k) (cnt_get cnt (k_ssid k) + 1))
                     (if cnt_get cnt (k_ssid k) =? 0 then set_add (k_ssid k, p) remote else remote)).
      rewrite <- app_assoc in IH. cbn [app] in IH.
      match type of IH with _ -> _ -> let '(c, r) := ?X in _ => destruct X as [c r] eqn:EF end.
      destruct IH as [I1 I2]; [exact ND| |].
      + intros s. rewrite filter_app, app_length. cbn [filter]. destruct (H s) as [Hc Hr]. rewrite cnt_get_set.
        destruct (k_ssid k =? s) eqn:E.
        * apply N.eqb_eq in E. subst s. split; [rewrite Hc; cbn; lia|].
          split; [intros _ X; apply app_eq_nil in X; destruct X; discriminate|]. intros _.
          destruct (cnt_get cnt (k_ssid k) =? 0) eqn:Z; [apply in_set_add; right; reflexivity|].
          apply N.eqb_neq in Z. apply Hr. intros X. rewrite X in Hc. cbn in Hc. contradiction.
        * cbn [length]. rewrite Nat.add_0_r, app_nil_r. split; [exact Hc|].
          apply N.eqb_neq in E. destruct (cnt_get cnt (k_ssid k) =? 0); [|exact Hr].
          rewrite in_set_add, Hr. split; [intros [X|X]; [exact X | inversion X; congruence] | auto].
      + split; [exact I1|]. intros s' q Hq. rewrite I2 by exact Hq.
        destruct (cnt_get cnt (k_ssid k) =? 0); [|reflexivity]. rewrite in_set_add. split; [intros [X|X]; [exact X | inversion X; congruence] | auto]. }
  specialize (G ks [] cnt remote ND). cbn [app] in G.
  destruct (fold_left (fun acc k => count_key acc p k) ks (cnt, remote)) as [c r].
  destruct G as [G1 G2]; [intros s; destruct (H0 s) as [A B]; cbn; split; [exact A | split; [intros X; contradiction | intros X; exfalso; apply X; reflexivity]]|].
  intros s. destruct (G1 s) as [A B]. auto.
Qed.

Lemma find_peer_counts (b : broker) p :
  member_get (bk_members b) p = None -> (forall s, ~ In (s, p) (bk_remote b)) ->
  bk_name (find_peer b p) = bk_name b /\ bk_state (find_peer b p) = bk_state b
  /\ (exists cnt, member_get (bk_members (find_peer b p)) p = Some cnt
                  /\ counts (status (bk_state b)) p cnt (bk_remote (find_peer b p)))
  /\ (forall q, q <> p -> member_get (bk_members (find_peer b p)) q = member_get (bk_members b) q)
  /\ (forall s' q, q <> p -> (In (s', q) (bk_remote (find_peer b p)) <-> In (s', q) (bk_remote b))).
Proof.
  intros Hm Hr. unfold find_peer. rewrite Hm.
  pose proof (count_keys_fold p (subs_of (bk_state b) p) [] (bk_remote b) (subs_of_nodup _ _)
                (fun k H => proj1 (proj1 (in_subs_of _ _ _) H))
                (fun s => conj eq_refl (Hr s))) as C.
  destruct (fold_left (fun acc k => count_key acc p k) (subs_of (bk_state b) p) ([], bk_remote b)) as [c r].
  cbn [bk_name bk_state bk_members bk_remote]. split; [reflexivity|]. split; [reflexivity|]. split; [|split].
  - exists c. split; [rewrite member_get_set, N.eqb_refl; reflexivity|]. intros s. destruct (C s) as (A & B & _).
    exists (filter (fun k => k_ssid k =? s) (subs_of (bk_state b) p)). split; [apply NoDup_filter, subs_of_nodup|]. split; [|split; [exact A | exact B]].
    intros k. rewrite filter_In, in_subs_of, status_lookup, N.eqb_eq. tauto.
  - intros q Hq. rewrite member_get_set. destruct (p =? q) eqn:E; [apply N.eqb_eq in E; congruence | reflexivity].
  - intros s' q Hq. destruct (C s') as (_ & _ & X). apply X. exact Hq.
Qed.

(* creating a member for q touches nothing of another peer p *)
Lemma count_key_frame q p : q <> p -> forall ks c r,
  forall s, In (s, p) (snd (fold_left (fun acc k => count_key acc q k) ks (c, r))) <-> In (s, p) r.
Proof.
  intros Hq. induction ks as [|k ks IH]; intros c r s; cbn [fold_left]; [reflexivity|].
  unfold count_key at 2. cbn [fst snd]. destruct (cnt_inc c (k_ssid k)) as [c1 first]. rewrite IH.
  destruct first; [|reflexivity]. rewrite in_set_add. split; [intros [H|H]; [exact H | inversion H; congruence] | auto].
Qed.

Lemma find_peer_frame (b : broker) q p : q <> p ->
  bk_name (find_peer b q) = bk_name b /\ bk_state (find_peer b q) = bk_state b
  /\ member_get (bk_members (find_peer b q)) p = member_get (bk_members b) p
  /\ (forall s, In (s, p) (bk_remote (find_peer b q)) <-> In (s, p) (bk_remote b)).
Proof.
  intros Hq. unfold find_peer. destruct (member_get (bk_members b) q); [repeat split; auto|].
  pose proof (count_key_frame q p Hq (subs_of (bk_state b) q) [] (bk_remote b)) as F.
  destruct (fold_left (fun acc k => count_key acc q k) (subs_of (bk_state b) q) ([], bk_remote b)) as [c r].
  cbn [bk_name bk_state bk_members bk_remote snd] in *. repeat split; try reflexivity.
  - rewrite member_get_set. destruct (q =? p) eqn:E; [apply N.eqb_eq in E; contradiction | reflexivity].
  - apply F.
  - apply F.
Qed.

(* ---- Swarm.merge keeps the counters in step with the state, whatever the payload ---- *)
Section merge.
Variables (st0 st' : replica) (name p : N).
Hypothesis Hpn : p <> name.

Definition hyb (P : list N) (k : N) : bool := if existsb (N.eqb k) P then status st' k else status st0 k.

Definition Psi (acc : broker * list N) (P : list N) : Prop :=
  bk_state (fst acc) = st' /\ bk_name (fst acc) = name /\
  if existsb (N.eqb p) (snd acc)
  then exists cnt, member_get (bk_members (fst acc)) p = Some cnt /\ counts (status st') p cnt (bk_remote (fst acc))
  else match member_get (bk_members (fst acc)) p with
       | None => (forall s, ~ In (s, p) (bk_remote (fst acc))) /\ (forall k, In k P -> k_peer k <> p)
       | Some cnt => counts (hyb P) p cnt (bk_remote (fst acc))
       end.

Lemma hyb_cons_other P k k' : k' <> k -> hyb (k :: P) k' = hyb P k'.
Proof.
  intros H. unfold hyb. cbn [existsb]. destruct (k' =? k) eqn:E; [apply N.eqb_eq in E; contradiction | reflexivity].
Qed.

Lemma existsb_eqb_in k P : existsb (N.eqb k) P = true <-> In k P.
Proof.
  rewrite existsb_exists. split; [intros (x & H & E); apply N.eqb_eq in E; subst; exact H | intros H; exists k; split; [exact H | apply N.eqb_refl]].
Qed.

Lemma Psi_step acc P k :
  Psi acc P -> ~ In k P -> Psi (merge_entry_effect st0 acc k) (k :: P).
Proof.
  destruct acc as [b fresh]. unfold Psi. cbn [fst snd]. intros (Hs & Hn & H) Hk.
  unfold merge_entry_effect.
  destruct (k_peer k =? bk_name b) eqn:Eself.
  { (* an entry of our own *)
    apply N.eqb_eq in Eself. cbn [fst snd]. split; [exact Hs|]. split; [exact Hn|].
    destruct (existsb (N.eqb p) fresh); [exact H|].
    destruct (member_get (bk_members b) p) as [cnt|].
    - eapply counts_ext; [|exact H]. intros k' Hp'. symmetry. apply hyb_cons_other. intros ->. congruence.
    - destruct H as [H1 H2]. split; [exact H1|]. intros k' [<-|Hin]; [congruence | apply H2; exact Hin]. }
  apply N.eqb_neq in Eself.
  destruct (N.eq_dec (k_peer k) p) as [Ep|Np].
  - (* an entry of p *)
    destruct (member_get (bk_members b) (k_peer k)) as [c0|] eqn:Gm; rewrite Ep in Gm.
    + destruct (existsb (N.eqb (k_peer k)) fresh) eqn:Fr; rewrite Ep in Fr.
      * cbn [fst snd]. rewrite Fr in *. split; [exact Hs|]. split; [exact Hn|]. exact H.
      * rewrite Fr, Gm in H.
        assert (status st0 k = hyb P k) as Was.
        { unfold hyb. destruct (existsb (N.eqb k) P) eqn:E; [apply existsb_eqb_in in E; contradiction | reflexivity]. }
        rewrite Hs. fold (status st0 k). fold (status st' k).
        destruct (status st0 k) eqn:W; destruct (status st' k) eqn:Nw; cbn [negb andb]; cbn [fst snd bk_name bk_state bk_members bk_remote].
        -- (* on before, on after *)
           rewrite Fr. split; [first [exact Hs | reflexivity]|]. split; [exact Hn|]. rewrite member_get_set, Ep, N.eqb_refl.
           eapply counts_ext; [|exact H]. intros k' _. unfold hyb. cbn [existsb]. destruct (k' =? k) eqn:E; [|reflexivity].
           apply N.eqb_eq in E. subst k'. cbn. rewrite Nw. unfold hyb in Was. destruct (existsb (N.eqb k) P); congruence.
        -- (* goes off *)
           pose proof (counts_off (hyb P) p c0 (bk_remote b) k Ep (eq_sym Was) H) as C.
           destruct (cnt_dec c0 (k_ssid k)) as [c2 last]. cbn [fst snd] in C.
           cbn [fst snd bk_name bk_state bk_members bk_remote]. rewrite Fr. split; [first [exact Hs | reflexivity]|]. split; [exact Hn|].
           rewrite member_get_set, Ep, N.eqb_refl. eapply counts_ext; [|exact C].
           intros k' _. unfold hyb. cbn [existsb]. destruct (k' =? k) eqn:E; [|reflexivity]. apply N.eqb_eq in E. subst k'. cbn. symmetry. exact Nw.
        -- (* goes on *)
           pose proof (counts_on (hyb P) p c0 (bk_remote b) k Ep (eq_sym Was) H) as C.
           destruct (cnt_inc c0 (k_ssid k)) as [c1 first]. cbn [fst snd] in C.
           cbn [fst snd bk_name bk_state bk_members bk_remote]. rewrite Fr. split; [first [exact Hs | reflexivity]|]. split; [exact Hn|].
           rewrite member_get_set, Ep, N.eqb_refl. eapply counts_ext; [|exact C].
           intros k' _. unfold hyb. cbn [existsb]. destruct (k' =? k) eqn:E; [|reflexivity]. apply N.eqb_eq in E. subst k'. cbn. symmetry. exact Nw.
        -- (* off before, off after *)
           rewrite Fr. split; [first [exact Hs | reflexivity]|]. split; [exact Hn|]. rewrite member_get_set, Ep, N.eqb_refl.
           eapply counts_ext; [|exact H]. intros k' _. unfold hyb. cbn [existsb]. destruct (k' =? k) eqn:E; [|reflexivity].
           apply N.eqb_eq in E. subst k'. cbn. rewrite Nw. unfold hyb in Was. destruct (existsb (N.eqb k) P); congruence.
    + (* first sight of p: its counters are built from the merged state *)
      assert (existsb (N.eqb p) fresh = false) as Fr.
      { destruct (existsb (N.eqb p) fresh) eqn:E; [|reflexivity]. try rewrite E in H. destruct H as (cnt & G & _). congruence. }
      rewrite Fr, Gm in H. destruct H as [Hr _]. rewrite Ep.
      destruct (find_peer_counts b p Gm Hr) as (F1 & F2 & (cnt & F3 & F4) & _).
      cbn [fst snd existsb]. rewrite N.eqb_refl. cbn [orb]. rewrite F2, F1. split; [exact Hs|]. split; [exact Hn|].
      exists cnt. split; [exact F3|]. rewrite Hs in F4. exact F4.
  - (* an entry of somebody else *)
    assert (existsb (N.eqb p) (k_peer k :: fresh) = existsb (N.eqb p) fresh) as Fx.
    { cbn [existsb]. destruct (p =? k_peer k) eqn:E; [apply N.eqb_eq in E; congruence | reflexivity]. }
    assert (forall P', (forall k', k_peer k' = p -> hyb (k :: P') k' = hyb P' k')) as Hx.
    { intros P' k' Hp'. apply hyb_cons_other. intros ->. congruence. }
    destruct (member_get (bk_members b) (k_peer k)) as [c0|] eqn:Gm.
    + destruct (existsb (N.eqb (k_peer k)) fresh).
      * cbn [fst snd]. split; [exact Hs|]. split; [exact Hn|].
        destruct (existsb (N.eqb p) fresh); [exact H|]. destruct (member_get (bk_members b) p) as [cnt|].
        -- eapply counts_ext; [|exact H]. intros k' Hp'. symmetry. apply Hx. exact Hp'.
        -- destruct H as [H1 H2]. split; [exact H1|]. intros k' [<-|Hin]; [exact Np | apply H2; exact Hin].
      * set (was := is_added (fetch st0 k)). set (now := is_added (fetch (bk_state b) k)).
        destruct (if negb was && now then cnt_inc c0 (k_ssid k) else (c0, false)) as [c1 first].
        destruct (if was && negb now then cnt_dec c1 (k_ssid k) else (c1, false)) as [c2 last].
        cbn [fst snd bk_name bk_state bk_members bk_remote]. split; [exact Hs|]. split; [exact Hn|].
        assert (forall s, In (s, p) (if last then set_del (k_ssid k, k_peer k) (if first then set_add (k_ssid k, k_peer k) (bk_remote b) else bk_remote b)
                                     else (if first then set_add (k_ssid k, k_peer k) (bk_remote b) else bk_remote b))
                          <-> In (s, p) (bk_remote b)) as Rm.
        { intros s. destruct last, first; rewrite ?in_set_del, ?in_set_add.
          - split; [intros [[X|X] _]; [exact X | inversion X; congruence] | intros X; split; [left; exact X | intros Y; inversion Y; congruence]].
          - split; [intros [X _]; exact X | intros X; split; [exact X | intros Y; inversion Y; congruence]].
          - split; [intros [X|X]; [exact X | inversion X; congruence] | intros X; left; exact X].
          - reflexivity. }
        assert (member_get (member_set (bk_members b) (k_peer k) c2) p = member_get (bk_members b) p) as Mm.
        { rewrite member_get_set. destruct (k_peer k =? p) eqn:E; [apply N.eqb_eq in E; contradiction | reflexivity]. }
        rewrite Mm. destruct (existsb (N.eqb p) fresh).
        -- destruct H as (cnt & G & C). exists cnt. split; [exact G|]. intros s. destruct (C s) as (l & A1 & A2 & A3 & A4). exists l. rewrite Rm. auto.
        -- destruct (member_get (bk_members b) p) as [cnt|].
           ++ intros s. destruct (H s) as (l & A1 & A2 & A3 & A4). exists l. rewrite Rm. split; [exact A1|]. split; [|auto].
              intros k'. rewrite A2. split; intros (B1 & B2 & B3); (split; [exact B1|]; split; [exact B2|]); [rewrite Hx | rewrite <- Hx]; assumption.
           ++ destruct H as [H1 H2]. split; [intros s X; apply Rm in X; exact (H1 s X)|]. intros k' [<-|Hin]; [exact Np | apply H2; exact Hin].
    + destruct (find_peer_frame b (k_peer k) p Np) as (F1 & F2 & F4 & F5).
      cbn [fst snd]. rewrite Fx, F1, F2, F4. split; [exact Hs|]. split; [exact Hn|].
      destruct (existsb (N.eqb p) fresh).
      * destruct H as (cnt & G & C). exists cnt. split; [exact G|]. intros s. destruct (C s) as (l & A1 & A2 & A3 & A4). exists l. rewrite F5. auto.
      * destruct (member_get (bk_members b) p) as [cnt|].
        -- intros s. destruct (H s) as (l & A1 & A2 & A3 & A4). exists l. rewrite F5. split; [exact A1|]. split; [|auto].
           intros k'. rewrite A2. split; intros (B1 & B2 & B3); (split; [exact B1|]; split; [exact B2|]); [rewrite Hx | rewrite <- Hx]; assumption.
        -- destruct H as [H1 H2]. split; [intros s X; apply F5 in X; exact (H1 s X)|]. intros k' [<-|Hin]; [exact Np | apply H2; exact Hin].
Qed.

End merge.

(* ---- the invariant ---- *)
Definition INVp (b : broker) (p : N) : Prop :=
  match member_get (bk_members b) p with
  | None => forall s, ~ In (s, p) (bk_remote b)
  | Some cnt => counts (status (bk_state b)) p cnt (bk_remote b)
  end.
Definition INV (b : broker) : Prop := nonneg (bk_state b) /\ forall p, p <> bk_name b -> INVp b p.

Lemma status_unchanged (st0 payload : replica) k :
  nonneg st0 -> lww_delta st0 payload !! k = None -> status (lww_merge st0 payload) k = status st0 k.
Proof.
  intros Hn Hd. pose proof (delta_exact st0 payload k Hn) as E. rewrite Hd in E.
  unfold status, is_added. unfold times in E. inversion E as [[E1 E2]]. rewrite E1, E2. reflexivity.
Qed.

Lemma Psi_fold st0 st' name p (Hpn : p <> name) : forall (l : list (N * entry)) acc P,
  NoDup (map fst l) -> (forall k, In k (map fst l) -> ~ In k P) ->
  Psi st0 st' name p acc P ->
  Psi st0 st' name p (fold_left (fun acc ke => merge_entry_effect st0 acc (fst ke)) l acc) (rev (map fst l) ++ P).
Proof.
  induction l as [|[k e] l IH]; intros acc P ND Hd H; cbn [fold_left map rev fst]; [exact H|].
  inversion ND as [|? ? Hn ND']; subst. rewrite <- app_assoc. cbn [app].
  apply IH; [exact ND' | |].
  - intros k' Hk' [<-|Hin]; [contradiction | apply (Hd k'); [right; exact Hk' | exact Hin]].
  - apply Psi_step; [exact Hpn | exact H | apply Hd; left; reflexivity].
Qed.

Theorem swarm_merge_INV (b : broker) (payload : replica) : INV b -> INV (fst (swarm_merge b payload)).
Proof.
  intros [Hnn Hinv]. unfold swarm_merge, state_merge.
  set (st0 := bk_state b). set (st' := lww_merge st0 payload). set (delta := lww_delta st0 payload).
  assert (nonneg st') as Hnn' by (apply merge_nonneg; exact Hnn).
  destruct (decide (delta = ∅)) as [Emp|Ne]; cbn [fst].
  - (* nothing new: no status changes *)
    split; [exact Hnn'|]. cbn [bk_name]. intros p Hp. specialize (Hinv p Hp). unfold INVp in *. cbn [bk_members bk_remote bk_state].
    destruct (member_get (bk_members b) p) as [cnt|]; [|exact Hinv].
    eapply counts_ext; [|exact Hinv]. intros k _. symmetry. apply status_unchanged; [exact Hnn|]. replace (lww_delta (bk_state b) payload) with delta by reflexivity. rewrite Emp. apply lookup_empty.
  - set (b0 := BK (bk_name b) st' (bk_members b) (bk_remote b) (bk_local b)).
    set (L := map_to_list delta).
    assert (NoDup (map fst L)) as ND by (apply NoDup_ListNoDup, NoDup_fst_map_to_list).
    (* name and state of the result *)
    assert (forall p, p <> bk_name b -> Psi st0 st' (bk_name b) p (b0, []) []) as Init.
    { intros p Hp. unfold Psi. cbn [fst snd existsb b0 bk_state bk_name bk_members bk_remote]. split; [reflexivity|]. split; [reflexivity|].
      specialize (Hinv p Hp). unfold INVp in Hinv. destruct (member_get (bk_members b) p) as [cnt|].
      - eapply counts_ext; [|exact Hinv]. intros k _. reflexivity.
      - split; [exact Hinv | intros k []]. }
    assert (forall p, p <> bk_name b ->
              Psi st0 st' (bk_name b) p (fold_left (fun acc ke => merge_entry_effect st0 acc (fst ke)) L (b0, [])) (rev (map fst L) ++ [])) as Fin.
    { intros p Hp. apply Psi_fold; [exact Hp | exact ND | intros k _ [] | apply Init; exact Hp]. }
    destruct (fold_left (fun acc ke => merge_entry_effect st0 acc (fst ke)) L (b0, [])) as [bf fresh] eqn:EF. cbn [fst].
    assert (bk_state bf = st' /\ bk_name bf = bk_name b) as [Sf Nf].
    { destruct (N.eq_dec (bk_name b) 0) as [Z|Z].
      - destruct (Fin 1 ltac:(lia)) as (A & B & _). cbn [fst] in *. auto.
      - destruct (Fin 0 ltac:(lia)) as (A & B & _). cbn [fst] in *. auto. }
    split; [rewrite Sf; exact Hnn'|]. rewrite Nf. intros p Hp. destruct (Fin p Hp) as (_ & _ & H). cbn [fst snd] in H.
    unfold INVp. rewrite Sf. destruct (existsb (N.eqb p) fresh).
    + destruct H as (cnt & G & C). rewrite G. exact C.
    + destruct (member_get (bk_members bf) p) as [cnt|]; [|exact (proj1 H)].
      eapply counts_ext; [|exact H]. intros k _. unfold hyb. rewrite app_nil_r.
      destruct (existsb (N.eqb k) (rev (map fst L))) eqn:E; [reflexivity|].
      symmetry. apply status_unchanged; [exact Hnn|].
      destruct (delta !! k) as [e|] eqn:D; [|exact D]. exfalso.
      assert (In k (rev (map fst L))) as Hin.
      { apply in_rev. rewrite rev_involutive. apply in_map_iff. exists (k, e). split; [reflexivity|]. apply elem_of_list_In, elem_of_map_to_list. exact D. }
      apply existsb_eqb_in in Hin. congruence.
Qed.

(* routing is a function of the replicated state: for a member peer, the trie forwards a channel
   exactly when the state holds an active subscription of that peer on it *)
Theorem routes_by_state (b : broker) p cnt : INV b -> p <> bk_name b ->
  member_get (bk_members b) p = Some cnt ->
  forall s, In (s, p) (bk_remote b) <-> exists k, k_peer k = p /\ k_ssid k = s /\ status (bk_state b) k = true.
Proof.
  intros [_ Hinv] Hp G s. specialize (Hinv p Hp). unfold INVp in Hinv. rewrite G in Hinv.
  destruct (Hinv s) as (l & _ & M & _ & R). rewrite R. split.
  - intros H. destruct l as [|k l]; [contradiction|]. exists k. apply M. left. reflexivity.
  - intros (k & H) E. apply M in H. rewrite E in H. destruct H.
Qed.

(* and nothing is forwarded to a peer that is not a member *)
Theorem no_route_without_member (b : broker) p : INV b -> p <> bk_name b ->
  member_get (bk_members b) p = None -> forall s, ~ In (s, p) (bk_remote b).
Proof. intros [_ Hinv] Hp G. specialize (Hinv p Hp). unfold INVp in Hinv. rewrite G in Hinv. exact Hinv. Qed.

Lemma INV_broker0 n : INV (broker0 n).
Proof. split; [apply nonneg_empty|]. intros p _. unfold INVp. cbn. intros s []. Qed.

(* the other steps of a broker *)
Lemma status_insert_other (st : replica) k e k' : k <> k' -> status (<[k := e]> st) k' = status st k'.
Proof. intros H. unfold status. rewrite fetch_insert. destruct (decide (k = k')); [contradiction | reflexivity]. Qed.

Lemma INV_own_key (b : broker) st' loc :
  nonneg st' -> (forall k, k_peer k <> bk_name b -> status st' k = status (bk_state b) k) ->
  INV b -> INV (BK (bk_name b) st' (bk_members b) (bk_remote b) loc).
Proof.
  intros Hn Hs [_ Hinv]. split; [exact Hn|]. cbn [bk_name]. intros p Hp. specialize (Hinv p Hp). unfold INVp in *.
  cbn [bk_members bk_remote bk_state]. destruct (member_get (bk_members b) p) as [cnt|]; [|exact Hinv].
  eapply counts_ext; [|exact Hinv]. intros k Hk. symmetry. apply Hs. congruence.
Qed.

Lemma INV_local_sub (b : broker) conn ssid (t : Z) : conn < kbase -> ssid < kbase -> (0 <= t)%Z -> INV b -> INV (fst (local_sub b conn ssid t)).
Proof.
  intros Hc Hs Ht H. unfold local_sub. cbn [fst]. apply INV_own_key; [apply add_nonneg; [exact (proj1 H) | exact Ht] | | exact H].
  intros k Hk. unfold lww_add. destruct (_ <? t)%Z; [|reflexivity]. apply status_insert_other.
  intros <-. apply Hk. apply key_parts; assumption.
Qed.

Lemma INV_local_unsub (b : broker) conn ssid (t : Z) : conn < kbase -> ssid < kbase -> (0 <= t)%Z -> INV b -> INV (fst (local_unsub b conn ssid t)).
Proof.
  intros Hc Hs Ht H. unfold local_unsub. cbn [fst]. apply INV_own_key; [apply del_nonneg; [exact (proj1 H) | exact Ht] | | exact H].
  intros k Hk. unfold lww_del. destruct (_ <? t)%Z; [|reflexivity]. apply status_insert_other.
  intros <-. apply Hk. apply key_parts; assumption.
Qed.

Lemma fold_set_del_in (f : N -> N * N) : forall ks r x,
  In x (fold_left (fun r k => set_del (f k) r) ks r) <-> In x r /\ forall k, In k ks -> x <> f k.
Proof.
  induction ks as [|k ks IH]; intros r x; cbn [fold_left].
  - split; [intros H; split; [exact H | intros k []] | intros [H _]; exact H].
  - rewrite IH, in_set_del. split.
    + intros [[H1 H2] H3]. split; [exact H1|]. intros k' [<-|Hk]; [exact H2 | apply H3; exact Hk].
    + intros [H1 H2]. split; [split; [exact H1 | apply H2; left; reflexivity] | intros k' Hk; apply H2; right; exact Hk].
Qed.

Lemma fold_del_status (name : N) (t : Z) : forall ks (st : replica),
  (0 <= t)%Z -> nonneg st ->
  let st' := fold_left (fun st k => lww_del st (mk_key name (k_conn k) (k_ssid k)) t t) ks st in
  nonneg st' /\ forall k', k_peer k' <> name -> status st' k' = status st k'.
Proof.
  induction ks as [|k ks IH]; intros st Ht Hn; cbn [fold_left]; [split; [exact Hn | reflexivity]|].
  destruct (IH (lww_del st (mk_key name (k_conn k) (k_ssid k)) t t) Ht (del_nonneg _ _ _ _ Hn Ht)) as [A B].
  split; [exact A|]. intros k' Hk'. rewrite (B k' Hk'). unfold lww_del. destruct (_ <? t)%Z; [|reflexivity].
  apply status_insert_other. intros <-. apply Hk'. destruct (key_decompose k) as (_ & Bc & Bs). apply key_parts; assumption.
Qed.

Lemma member_get_del_same m p : member_get (member_del m p) p = None.
Proof.
  unfold member_get, member_del. induction m as [|e m IH]; [reflexivity|]. cbn. destruct (fst e =? p) eqn:E; cbn; [exact IH | rewrite E; exact IH].
Qed.

Lemma INV_peer_offline (b : broker) p (t : Z) : p <> bk_name b -> INV b -> INV (peer_offline b p t).
Proof.
  intros Hp H. unfold peer_offline. destruct (member_get (bk_members b) p) as [cnt|] eqn:G; [|exact H].
  destruct H as [Hn Hinv].
  split; [exact Hn|]. cbn [bk_name]. intros q Hq. unfold INVp. cbn [bk_members bk_remote bk_state].
  destruct (N.eq_dec q p) as [->|Nq].
  - (* the peer itself: no member, no trie entry *)
    pose proof (member_get_del_same (bk_members b) p) as Gd.
    rewrite Gd. intros s Hin. apply fold_set_del_in in Hin. destruct Hin as [Hin Hall].
    pose proof (Hinv p Hp) as Ip. unfold INVp in Ip. rewrite G in Ip. destruct (Ip s) as (l & _ & M & _ & R).
    apply R in Hin. destruct l as [|k l]; [contradiction|].
    assert (In k (k :: l)) as Hk by (left; reflexivity). apply M in Hk. destruct Hk as (K1 & K2 & K3).
    apply (Hall k); [|rewrite K2; reflexivity].
    apply in_subs_of. split; [exact K1|]. apply status_lookup. exact K3.
  - rewrite member_get_del by congruence. specialize (Hinv q Hq). unfold INVp in Hinv.
    assert (forall s, In (s, q) (fold_left (fun r k => set_del (k_ssid k, p) r) (subs_of (bk_state b) p) (bk_remote b)) <-> In (s, q) (bk_remote b)) as Rm.
    { intros s. rewrite fold_set_del_in. split; [intros [X _]; exact X | intros X; split; [exact X | intros k _ E; inversion E; congruence]]. }
    destruct (member_get (bk_members b) q) as [cq|].
    + intros s. destruct (Hinv s) as (l & A1 & A2 & A3 & A4). exists l. rewrite Rm. auto.
    + intros s X. apply Rm in X. exact (Hinv s X).
Qed.

Lemma INV_find_peer (b : broker) p : p <> bk_name b -> INV b -> INV (find_peer b p).
Proof.
  intros Hp [Hn Hinv]. destruct (member_get (bk_members b) p) as [c|] eqn:G.
  - unfold find_peer. rewrite G. split; assumption.
  - pose proof (Hinv p Hp) as Ip. unfold INVp in Ip. rewrite G in Ip.
    destruct (find_peer_counts b p G Ip) as (F1 & F2 & (cnt & F3 & F4) & F5 & F6).
    split; [rewrite F2; exact Hn|]. rewrite F1. intros q Hq. unfold INVp. rewrite F2.
    destruct (N.eq_dec q p) as [->|Nq]; [rewrite F3; exact F4|].
    rewrite (F5 q Nq). specialize (Hinv q Hq). unfold INVp in Hinv.
    destruct (member_get (bk_members b) q) as [cq|].
    + intros s. destruct (Hinv s) as (l & A1 & A2 & A3 & A4). exists l. rewrite (F6 s q Nq). auto.
    + intros s X. apply (F6 s q Nq) in X. exact (Hinv s X).
Qed.

(* ---- every broker of every schedule ---- *)
Definition wf_ev (e : ev) : Prop :=
  match e with
  | ESub _ conn ssid t | EUnsub _ conn ssid t => conn < kbase /\ ssid < kbase /\ (0 <= t)%Z
  | EOffline b p t => p <> b /\ (0 <= t)%Z
  | EOnline a b => a <> b
  | _ => True
  end.

Definition WINV (w : world) : Prop := forall n, INV (get_broker w n) /\ bk_name (get_broker w n) = n.

Lemma get_broker_set (w : world) (b' : broker) n :
  get_broker (set_broker w b') n = b' \/ get_broker (set_broker w b') n = get_broker w n.
Proof.
  unfold get_broker, set_broker. cbn [w_brokers].
  induction (w_brokers w) as [|x r IH]; cbn [map find]; [right; reflexivity|].
  destruct (bk_name x =? bk_name b') eqn:E.
  - apply N.eqb_eq in E. destruct (bk_name b' =? n) eqn:E2.
    + left. reflexivity.
    + rewrite E, E2. exact IH.
  - destruct (bk_name x =? n); [right; reflexivity | exact IH].
Qed.

Lemma get_broker_name_set (w : world) (b' : broker) n :
  bk_name (get_broker w n) = n -> bk_name (get_broker (set_broker w b') n) = n.
Proof.
  unfold get_broker, set_broker. cbn [w_brokers].
  induction (w_brokers w) as [|x r IH]; cbn [map find]; intros H; [reflexivity|].
  destruct (bk_name x =? bk_name b') eqn:E.
  - apply N.eqb_eq in E. destruct (bk_name b' =? n) eqn:E2; [apply N.eqb_eq in E2; exact E2|].
    rewrite E, E2 in H. apply IH. exact H.
  - destruct (bk_name x =? n) eqn:E2; [exact H | apply IH; exact H].
Qed.

Lemma WINV_set (w : world) b' : WINV w -> INV b' -> WINV (set_broker w b').
Proof.
  intros H Hb n. split.
  - destruct (get_broker_set w b' n) as [->| ->]; [exact Hb | apply H].
  - apply get_broker_name_set. apply H.
Qed.

Lemma WINV_links (w w' : world) : w_brokers w' = w_brokers w -> WINV w -> WINV w'.
Proof. intros E H n. unfold get_broker. rewrite E. apply H. Qed.

Lemma link_bcast_brokers w a b d : w_brokers (link_bcast w a b d) = w_brokers w.
Proof. reflexivity. Qed.
Lemma link_send_brokers w a b d : w_brokers (link_send w a b d) = w_brokers w.
Proof. unfold link_send. destruct (l_gossip (get_link w a b)); reflexivity. Qed.
Lemma link_send_live_brokers w a b : w_brokers (link_send_live w a b) = w_brokers w.
Proof. reflexivity. Qed.

Lemma fold_links_brokers (f : world -> N -> world) : (forall w p, w_brokers (f w p) = w_brokers w) ->
  forall l w, w_brokers (fold_left f l w) = w_brokers w.
Proof. intros H. induction l as [|x l IH]; intros w; cbn [fold_left]; [reflexivity | rewrite IH; apply H]. Qed.

Theorem WINV_step w e : wf_ev e -> WINV w -> WINV (step w e).
Proof.
  intros We H. destruct e as [b conn ssid t | b conn ssid t | a b | a b | b p t | a b]; cbn [step wf_ev] in *.
  - destruct We as (Hc & Hs & Ht). destruct (local_sub (get_broker w b) conn ssid t) as [b' op] eqn:E.
    eapply WINV_links; [apply fold_links_brokers; intros; apply link_bcast_brokers|].
    apply WINV_set; [exact H|]. change b' with (fst (b', op)). rewrite <- E. apply INV_local_sub; try assumption. apply H.
  - destruct We as (Hc & Hs & Ht). destruct (local_unsub (get_broker w b) conn ssid t) as [b' op] eqn:E.
    eapply WINV_links; [apply fold_links_brokers; intros; apply link_bcast_brokers|].
    apply WINV_set; [exact H|]. change b' with (fst (b', op)). rewrite <- E. apply INV_local_unsub; try assumption. apply H.
  - destruct (l_gossip (get_link w a b)) as [| |r] eqn:G.
    + destruct (l_bcast (get_link w a b)) as [payload|]; [|exact H].
      set (w1 := upd_link w a b (fun _ => LK a b GNone None)).
      destruct (swarm_merge (get_broker w1 b) payload) as [b' d] eqn:E.
      eapply WINV_links; [reflexivity|]. apply WINV_set; [eapply WINV_links; [|exact H]; reflexivity|].
      change b' with (fst (b', d)). rewrite <- E. apply swarm_merge_INV. apply (WINV_links w w1 eq_refl H).
    + set (w1 := upd_link w a b (fun l => LK a b GNone (l_bcast l))).
      destruct (swarm_merge (get_broker w1 b) (bk_state (get_broker w a))) as [b' d] eqn:E.
      assert (WINV (set_broker w1 b')) as H1.
      { apply WINV_set; [apply (WINV_links w w1 eq_refl H)|]. change b' with (fst (b', d)). rewrite <- E. apply swarm_merge_INV. apply (WINV_links w w1 eq_refl H). }
      destruct d as [delta|]; (eapply WINV_links; [|exact H1]); [|reflexivity].
      rewrite fold_links_brokers; [reflexivity | intros; apply link_send_brokers].
    + set (w1 := upd_link w a b (fun l => LK a b GNone (l_bcast l))).
      destruct (swarm_merge (get_broker w1 b) r) as [b' d] eqn:E.
      assert (WINV (set_broker w1 b')) as H1.
      { apply WINV_set; [apply (WINV_links w w1 eq_refl H)|]. change b' with (fst (b', d)). rewrite <- E. apply swarm_merge_INV. apply (WINV_links w w1 eq_refl H). }
      destruct d as [delta|]; (eapply WINV_links; [|exact H1]); [|reflexivity].
      rewrite fold_links_brokers; [reflexivity | intros; apply link_send_brokers].
  - eapply WINV_links; [|exact H]. reflexivity.
  - destruct We as [Hp Ht]. eapply WINV_links; [reflexivity|]. eapply WINV_links; [reflexivity|]. eapply WINV_links; [reflexivity|].
    apply WINV_set; [exact H|]. apply INV_peer_offline; [rewrite (proj2 (H b)); exact Hp | apply H].
  - assert (WINV (set_broker w (find_peer (get_broker w a) b))) as H1.
    { apply WINV_set; [exact H|]. apply INV_find_peer; [rewrite (proj2 (H a)); intros E; apply We; symmetry; exact E | apply H]. }
    set (w1 := set_broker w (find_peer (get_broker w a) b)) in *.
    assert (WINV (set_broker w1 (find_peer (get_broker w1 b) a))) as H2.
    { apply WINV_set; [exact H1|]. apply INV_find_peer; [rewrite (proj2 (H1 b)); exact We | apply H1]. }
    eapply WINV_links; [|exact H2]. reflexivity.
Qed.

Lemma WINV_world0 ns : WINV (world0 ns).
Proof.
  intros n. unfold get_broker, world0. cbn [w_brokers]. induction ns as [|x ns IH]; cbn [map find]; [split; [apply INV_broker0 | reflexivity]|].
  cbn [broker0 bk_name]. destruct (x =? n) eqn:E; [apply N.eqb_eq in E; subst; split; [apply INV_broker0 | reflexivity] | exact IH].
Qed.

(* for every schedule whatsoever - any interleaving of client requests, deliveries, coalescing,
   complete states, peers going away and coming back - every broker's counters and trie entries for
   every member peer are exactly what its replicated state says *)
Theorem all_schedules_keep_INV ns es : Forall wf_ev es -> WINV (run ns es).
Proof.
  unfold run. generalize (WINV_world0 ns). generalize (world0 ns). induction es as [|e es IH]; intros w H F; cbn [fold_left]; [exact H|].
  inversion F; subst. apply IH; [apply WINV_step; assumption | assumption].
Qed.

(* ---- from "a function of the state" to the ground truth ---- *)
(* a broker's own entries reflect its local client subscriptions *)
Definition OWN (b : broker) : Prop :=
  (forall k, k_peer k = bk_name b -> (status (bk_state b) k = true <-> In (k_ssid k, k_conn k) (bk_local b)))
  /\ (forall s conn, In (s, conn) (bk_local b) -> s < kbase /\ conn < kbase).

(* once the observer's view of p's entries has converged to p's own (what C04 gives when gossip has
   quiesced), the observer forwards a channel to member p exactly when p has a live local
   subscriber for it *)
Theorem converged_routing_is_the_truth (b bp : broker) cnt :
  INV b -> OWN bp -> bk_name bp <> bk_name b ->
  member_get (bk_members b) (bk_name bp) = Some cnt ->
  (forall k, k_peer k = bk_name bp -> status (bk_state b) k = status (bk_state bp) k) ->
  forall s, In (s, bk_name bp) (bk_remote b) <-> exists conn, In (s, conn) (bk_local bp).
Proof.
  intros Hi [Ho Hb] Hn G Conv s. rewrite (routes_by_state b (bk_name bp) cnt Hi Hn G s). split.
  - intros (k & K1 & K2 & K3). rewrite (Conv k K1) in K3. apply (Ho k K1) in K3. rewrite K2 in K3. exists (k_conn k). exact K3.
  - intros (conn & Hin).
    assert (exists k, k_peer k = bk_name bp /\ k_ssid k = s /\ In (k_ssid k, k_conn k) (bk_local bp)) as (k & K1 & K2 & K3).
    { destruct (Hb s conn Hin) as [Bs Bc]. destruct (key_parts (bk_name bp) conn s Bc Bs) as (P1 & P2 & P3).
      exists (mk_key (bk_name bp) conn s). rewrite P1, P2, P3. auto. }
    exists k. split; [exact K1|]. split; [exact K2|]. rewrite (Conv k K1). apply (Ho k K1). exact K3.
Qed.

(* OWN is kept by the broker's own client operations (the clock is ahead of what the state holds;
   a connection subscribes only what it does not hold) ... *)
Definition clock_ahead (st : replica) (t : Z) : Prop := forall k, (e_add (fetch st k) < t)%Z /\ (e_del (fetch st k) < t)%Z.

Lemma own_key_eq name k conn ssid : conn < kbase -> ssid < kbase -> k_peer k = name ->
  (k_ssid k, k_conn k) = (ssid, conn) -> k = mk_key name conn ssid.
Proof.
  intros Hc Hs Hp E. inversion E as [[E1 E2]]. destruct (key_decompose k) as (Ek & _ & _). rewrite Hp, E1, E2 in Ek.
  rewrite E1, E2. exact Ek.
Qed.

Lemma OWN_local_sub (b : broker) conn ssid (t : Z) :
  conn < kbase -> ssid < kbase -> (0 < t)%Z -> clock_ahead (bk_state b) t -> OWN b -> OWN (fst (local_sub b conn ssid t)).
Proof.
  intros Hc Hs Ht Hclk [Ho Hb]. unfold local_sub. cbn [fst]. split; cbn [bk_name bk_state bk_local].
  - intros k Hk. destruct (key_parts (bk_name b) conn ssid Hc Hs) as (P1 & P2 & P3).
    unfold lww_add. destruct (Hclk (mk_key (bk_name b) conn ssid)) as [Ca Cd].
    destruct (e_add (fetch (bk_state b) (mk_key (bk_name b) conn ssid)) <? t)%Z eqn:E; [|apply Z.ltb_ge in E; lia].
    rewrite in_set_add. destruct (N.eq_dec (mk_key (bk_name b) conn ssid) k) as [<-|Nk].
    + rewrite P2, P3. unfold status. rewrite fetch_insert. destruct (decide _) as [_|X]; [|contradiction].
      unfold is_added. cbn. destruct (t =? 0)%Z eqn:Z0; [apply Z.eqb_eq in Z0; lia|]. cbn.
      split; [intros _; right; reflexivity | intros _; apply Z.leb_le; lia].
    + rewrite status_insert_other by exact Nk. rewrite (Ho k Hk). split; [auto|]. intros [H|H]; [exact H|].
      exfalso. apply Nk. symmetry. apply own_key_eq; assumption.
  - intros s c H. apply in_set_add in H. destruct H as [H|H]; [apply (Hb s c H) | inversion H; subst; auto].
Qed.

Lemma OWN_local_unsub (b : broker) conn ssid (t : Z) :
  conn < kbase -> ssid < kbase -> (0 < t)%Z -> clock_ahead (bk_state b) t -> nonneg (bk_state b) ->
  OWN b -> OWN (fst (local_unsub b conn ssid t)).
Proof.
  intros Hc Hs Ht Hclk Hnn [Ho Hb]. unfold local_unsub. cbn [fst]. split; cbn [bk_name bk_state bk_local].
  - intros k Hk. destruct (key_parts (bk_name b) conn ssid Hc Hs) as (P1 & P2 & P3).
    unfold lww_del. destruct (Hclk (mk_key (bk_name b) conn ssid)) as [Ca Cd].
    destruct (e_del (fetch (bk_state b) (mk_key (bk_name b) conn ssid)) <? t)%Z eqn:E; [|apply Z.ltb_ge in E; lia].
    rewrite in_set_del. destruct (N.eq_dec (mk_key (bk_name b) conn ssid) k) as [<-|Nk].
    + rewrite P2, P3. unfold status. rewrite fetch_insert. destruct (decide _) as [_|X]; [|contradiction].
      unfold is_added. cbn. split; [|intros [_ H]; exfalso; apply H; reflexivity].
      intros H. apply andb_prop in H. destruct H as [_ H]. apply Z.leb_le in H. lia.
    + rewrite status_insert_other by exact Nk. rewrite (Ho k Hk). split; [|intros [H _]; exact H]. intros H. split; [exact H|].
      intros E2. apply Nk. symmetry. apply own_key_eq; assumption.
  - intros s c H. apply in_set_del in H. destruct H as [H _]. apply (Hb s c H).
Qed.

(* ... and by merging any payload that says nothing newer about the broker's own entries (only the
   broker itself writes them) *)
Lemma merge_entry_effect_local st0 acc k : bk_local (fst (merge_entry_effect st0 acc k)) = bk_local (fst acc).
Proof.
  destruct acc as [b fresh]. unfold merge_entry_effect. destruct (k_peer k =? bk_name b); [reflexivity|].
  destruct (member_get (bk_members b) (k_peer k)) as [c0|] eqn:G.
  - destruct (existsb (N.eqb (k_peer k)) fresh); [reflexivity|].
    destruct (if negb (is_added (fetch st0 k)) && is_added (fetch (bk_state b) k) then cnt_inc c0 (k_ssid k) else (c0, false)) as [c1 first].
    destruct (if is_added (fetch st0 k) && negb (is_added (fetch (bk_state b) k)) then cnt_dec c1 (k_ssid k) else (c1, false)) as [c2 last]. reflexivity.
  - cbn [fst]. unfold find_peer. rewrite G.
    destruct (fold_left (fun acc0 k0 => count_key acc0 (k_peer k) k0) (subs_of (bk_state b) (k_peer k)) ([], bk_remote b)). reflexivity.
Qed.

Lemma swarm_merge_local (b : broker) payload : bk_local (fst (swarm_merge b payload)) = bk_local b.
Proof.
  unfold swarm_merge. destruct (state_merge (bk_state b) payload) as [st' [delta|]]; cbn [fst]; [|reflexivity].
  set (b0 := BK (bk_name b) st' (bk_members b) (bk_remote b) (bk_local b)).
  assert (forall (l : list (N * entry)) (acc : broker * list N), bk_local (fst (fold_left (fun acc ke => merge_entry_effect (bk_state b) acc (fst ke)) l acc)) = bk_local (fst acc)) as F.
  { induction l as [|x l IH]; intros acc; cbn [fold_left]; [reflexivity|]. rewrite IH. apply merge_entry_effect_local. }
  rewrite F. reflexivity.
Qed.
