From Emitter Require Import Lib.Base Model.MsgCodec Model.Store Model.StoreLog Proofs.MsgCodecProofs.

(* a stored entry decodes back to the message: id, channel, payload, ttl - and its expiry is the
   id's time plus the ttl *)
Lemma recover_entry m : msg_ok m -> recover (entry_of m) = Ok m.
Proof.
  intros H. unfold recover, entry_of. cbn [kv_value]. rewrite <- (app_nil_r (enc_msg m)). rewrite (dec_enc_msg m [] H). reflexivity.
Qed.

(* every acknowledged message has its entry among the committed ones, and every committed entry is
   the entry of a message that was handed to Store - for every sequence of stores, crashes (at any
   point, also inside a store call) and restarts, and every behaviour of interrupted transactions *)
Theorem acked_survive landed : forall ops s,
  (forall m, In m (d_acked s) -> In (entry_of m) (d_committed s)) ->
  (forall e, In e (d_committed s) -> exists m, In m (d_tried s) /\ e = entry_of m) ->
  let s' := fold_left (dstep landed) ops s in
  (forall m, In m (d_acked s') -> In (entry_of m) (d_committed s'))
  /\ (forall e, In e (d_committed s') -> exists m, In m (d_tried s') /\ e = entry_of m).
Proof.
  induction ops as [|o ops IH]; intros s A B; cbn [fold_left]; [auto|].
  apply IH.
  - destruct o as [m [|] | |]; cbn [dstep d_acked d_committed]; try exact A.
    + intros x H. apply in_app_or in H. apply in_or_app. destruct H as [H|[<-|[]]]; [left; apply A; exact H | right; left; reflexivity].
    + intros x H. destruct (landed m); [apply in_or_app; left|]; apply A; exact H.
  - destruct o as [m [|] | |]; cbn [dstep d_tried d_committed]; try exact B.
    + intros e H. apply in_app_or in H. destruct H as [H|[<-|[]]].
      * destruct (B e H) as (x & Hx & E). exists x. split; [apply in_or_app; left; exact Hx | exact E].
      * exists m. split; [apply in_or_app; right; left; reflexivity | reflexivity].
    + intros e H. destruct (landed m).
      * apply in_app_or in H. destruct H as [H|[<-|[]]].
        -- destruct (B e H) as (x & Hx & E). exists x. split; [apply in_or_app; left; exact Hx | exact E].
        -- exists m. split; [apply in_or_app; right; left; reflexivity | reflexivity].
      * destruct (B e H) as (x & Hx & E). exists x. split; [apply in_or_app; left; exact Hx | exact E].
Qed.
