//go:build verif

package broker

import (
	"net"
	"sync/atomic"

	"github.com/emitter-io/emitter/internal/message"
	"github.com/emitter-io/emitter/internal/provider/storage"
	"github.com/emitter-io/emitter/internal/service/cluster"
	"github.com/emitter-io/emitter/internal/service/presence"
)

// VerifAttach hands an in-memory connection to the broker as an accepted client connection.
func (s *Service) VerifAttach(c net.Conn) { s.onAcceptConn(c) }

// VerifTrie exposes the subscription trie.
func (s *Service) VerifTrie() *message.Trie { return s.subscriptions }

// VerifConnections returns the number of currently open connections.
func (s *Service) VerifConnections() int64 { return atomic.LoadInt64(&s.connections) }

// VerifStorage exposes the message store.
func (s *Service) VerifStorage() storage.Storage { return s.storage }

// VerifSwarm exposes the cluster service.
func (s *Service) VerifSwarm() *cluster.Swarm { return s.cluster }

// VerifOnPeerMessage delivers a message received from a peer to the local subscribers.
func (s *Service) VerifOnPeerMessage(m *message.Message) { s.onPeerMessage(m) }

// VerifAttachConn is VerifAttach that also tells the identifiers of the new connection.
func (s *Service) VerifAttachConn(c net.Conn) (luid uint64, id string) {
	conn := s.newConn(c, s.Config.Limit.ReadRate)
	go conn.Process()
	return uint64(conn.LocalID()), conn.ID()
}

// VerifPresence exposes the presence service (a survey handler).
func (s *Service) VerifPresence() *presence.Service { return s.presence }
