(* Byte- and word-level facts of the MQTT codec: masks, shifts, the remaining-length digits.
   Finite facts are exhaustive sweeps closed by vm_compute; the decoder's length loop is proved
   by induction for every value below 2^28. *)
From Emitter Require Import Lib.Base Lib.Sweep Model.Mqtt Spec.Mqtt311 Proofs.ListFacts.
From Coq Require Import Lia ZifyN ZifyNat ZifyBool.
Ltac Zify.zify_post_hook ::= Z.div_mod_to_equations.

(* ---- 16-bit fields ---- *)
Lemma w_u16_be16 v : v < 65536 -> w_u16 v = be16 v.
Proof.
  intros H.
  assert (E : (bytes_eqb (w_u16 v) (be16 v)) = true).
  { apply (sweep (fun v => bytes_eqb (w_u16 v) (be16 v)) 65536); [vm_compute; reflexivity | exact H]. }
  apply bytes_eqb_eq. exact E.
Qed.

Lemma r_u16_be16 v d : v < 65536 -> r_u16 (be16 v ++ d) = Ok (v, d).
Proof.
  intros H. unfold be16. cbn [app r_u16].
  assert (E : (u16 (u16 (N.shiftl (v / 256) 8) + v mod 256) =? v) = true).
  { apply (sweep (fun v => u16 (u16 (N.shiftl (v / 256) 8) + v mod 256) =? v) 65536);
      [vm_compute; reflexivity | exact H]. }
  apply N.eqb_eq in E. rewrite E. reflexivity.
Qed.

Lemma be16_len v : len (be16 v) = 2.
Proof. reflexivity. Qed.

Lemma be16_bytes_ok v : v < 65536 -> bytes_ok (be16 v) = true.
Proof.
  intros H. apply (sweep (fun v => bytes_ok (be16 v)) 65536); [vm_compute; reflexivity | exact H].
Qed.

(* ---- strings ---- *)
Lemma w_str_field s : len s < 65536 -> w_str s = field s.
Proof.
  intros H. unfold w_str, field, u16. rewrite N.mod_small by exact H.
  rewrite w_u16_be16 by exact H. reflexivity.
Qed.

Lemma str_ok_len s : str_ok s = true -> len s < 65536.
Proof. unfold str_ok. intros H. apply andb_prop in H. destruct H as [_ H]. lia. Qed.

Lemma r_str_field s d : len s < 65536 -> r_str (field s ++ d) = Ok (s, d).
Proof.
  intros H. unfold r_str, field. rewrite <- app_assoc.
  rewrite r_u16_be16 by exact H. cbn [bindr].
  assert (L : (len (s ++ d) <? len s) = false) by (rewrite len_app; lia).
  rewrite L, take_len_app, drop_len_app. reflexivity.
Qed.

Lemma len_field s : len (field s) = 2 + len s.
Proof. unfold field. rewrite len_app, be16_len. reflexivity. Qed.

(* ---- remaining length ---- *)
Lemma land_digit_lo d : d < 128 -> N.land d 127 = d /\ N.land d 128 = 0.
Proof.
  intros H.
  assert (E : ((N.land d 127 =? d) && (N.land d 128 =? 0)) = true).
  { apply (sweep (fun d => (N.land d 127 =? d) && (N.land d 128 =? 0)) 128); [vm_compute; reflexivity|exact H]. }
  apply andb_prop in E. destruct E as [E1 E2]. split; apply N.eqb_eq; assumption.
Qed.

Lemma land_digit_hi d : d < 128 -> N.land (d + 128) 127 = d /\ N.land (d + 128) 128 = 128.
Proof.
  intros H.
  assert (E : ((N.land (d + 128) 127 =? d) && (N.land (d + 128) 128 =? 128)) = true).
  { apply (sweep (fun d => (N.land (d + 128) 127 =? d) && (N.land (d + 128) 128 =? 128)) 128);
      [vm_compute; reflexivity|exact H]. }
  apply andb_prop in E. destruct E as [E1 E2]. split; apply N.eqb_eq; assumption.
Qed.

(* the decoder's length loop inverts the standard's digit sequence, for every fuel *)
Lemma dec_len_varlen : forall f x mult acc rest,
  x < 128 ^ N.of_nat (S f) -> acc + x * mult < 4294967296 -> 0 < mult ->
  dec_len (varlen (S f) x ++ rest) mult acc = Some (acc + x * mult, rest).
Proof.
  induction f as [|f IH]; intros x mult acc rest Hx Hb Hm.
  - change (128 ^ N.of_nat 1) with 128 in Hx. cbn [varlen].
    assert (Hq : x / 128 = 0) by (apply N.div_small; exact Hx).
    rewrite Hq. cbn [N.eqb app dec_len]. rewrite N.mod_small by exact Hx.
    destruct (land_digit_lo x Hx) as [E1 E2]. rewrite E1, E2. cbn [N.eqb].
    assert (B1 : x * mult < 4294967296) by (clear - Hb; lia).
    unfold u32. rewrite (N.mod_small (x * mult)) by exact B1. rewrite N.mod_small by exact Hb. reflexivity.
  - assert (Hpow : 128 ^ N.of_nat (S (S f)) = 128 * 128 ^ N.of_nat (S f)).
    { rewrite (Nat2N.inj_succ (S f)), N.pow_succ_r'. reflexivity. }
    remember (S f) as f1 eqn:Hf1.
    cbn [varlen].
    destruct (x / 128 =? 0) eqn:Hq.
    + apply N.eqb_eq in Hq. assert (Hx128 : x < 128) by (clear - Hq; lia).
      cbn [app dec_len]. rewrite N.mod_small by exact Hx128.
      destruct (land_digit_lo x Hx128) as [E1 E2]. rewrite E1, E2. cbn [N.eqb].
      assert (B1 : x * mult < 4294967296) by (clear - Hb; lia).
      unfold u32. rewrite (N.mod_small (x * mult)) by exact B1. rewrite N.mod_small by exact Hb. reflexivity.
    + apply N.eqb_neq in Hq.
      assert (Hd : x mod 128 < 128) by (apply N.mod_lt; lia).
      cbn [app dec_len].
      destruct (land_digit_hi (x mod 128) Hd) as [E1 E2]. rewrite E1, E2. cbn [N.eqb].
      assert (Hx' : x = 128 * (x / 128) + x mod 128) by (apply N.div_mod; lia).
      assert (Hq1 : 1 <= x / 128) by (clear - Hq; lia).
      set (q := x / 128) in *. set (d := x mod 128) in *.
      assert (Hmul : x * mult = 128 * q * mult + d * mult) by (rewrite Hx'; clear; nia).
      assert (B1 : d * mult < 4294967296) by (clear - Hmul Hb; nia).
      assert (B2 : acc + d * mult < 4294967296) by (clear - Hmul Hb; nia).
      assert (B3 : mult * 128 < 4294967296) by (clear - Hmul Hb Hq1; nia).
      unfold u32.
      rewrite (N.mod_small (d * mult)) by exact B1.
      rewrite (N.mod_small (acc + d * mult)) by exact B2.
      rewrite (N.mod_small (mult * 128)) by exact B3.
      subst f1. rewrite IH.
      * f_equal. f_equal. rewrite Hmul. clear. nia.
      * rewrite Hpow in Hx. clear - Hx Hx'. subst q. apply N.div_lt_upper_bound; lia.
      * rewrite Hmul in Hb. clear - Hb. nia.
      * clear - Hm. lia.
Qed.

Lemma dec_len_remaining_length x rest :
  x < 268435456 -> dec_len (remaining_length x ++ rest) 1 0 = Some (x, rest).
Proof.
  intros H. unfold remaining_length. rewrite dec_len_varlen.
  - f_equal. f_equal. lia.
  - exact H.
  - lia.
  - lia.
Qed.

(* encoder side: encodeLength + the blit of writeHeader produce the standard's digits for every
   body length the 64 KiB buffer can hold *)
Definition hdr_len_bytes (n : N) : bytes :=
  let '(nb, bf) := encode_length (u32 n) in blit (N.to_nat nb) bf.

Lemma hdr_len_bytes_spec n : n <= bodyRoom -> hdr_len_bytes n = remaining_length n.
Proof.
  intros H.
  assert (E : bytes_eqb (hdr_len_bytes n) (remaining_length n) = true).
  { apply (sweep (fun n => bytes_eqb (hdr_len_bytes n) (remaining_length n)) (bodyRoom + 1));
      [vm_compute; reflexivity | lia]. }
  apply bytes_eqb_eq. exact E.
Qed.

Lemma write_header_eq mt h n : write_header mt h n = first_byte mt h :: hdr_len_bytes n.
Proof. unfold write_header, hdr_len_bytes. destruct (encode_length (u32 n)). reflexivity. Qed.

(* length of the digit sequence at the boundaries named by the property *)
Lemma remaining_length_size n :
  n < 268435456 ->
  len (remaining_length n) = if n <? 128 then 1 else if n <? 16384 then 2 else if n <? 2097152 then 3 else 4.
Proof.
  intros H. unfold remaining_length. cbn [varlen].
  destruct (n / 128 =? 0) eqn:E1.
  { apply N.eqb_eq in E1. assert (n < 128) by lia. destruct (n <? 128) eqn:?; [reflexivity | lia]. }
  apply N.eqb_neq in E1. destruct (n <? 128) eqn:?; [lia|].
  destruct (n / 128 / 128 =? 0) eqn:E2.
  { apply N.eqb_eq in E2. destruct (n <? 16384) eqn:?; [reflexivity | lia]. }
  apply N.eqb_neq in E2. destruct (n <? 16384) eqn:?; [lia|].
  destruct (n / 128 / 128 / 128 =? 0) eqn:E3.
  { apply N.eqb_eq in E3. destruct (n <? 2097152) eqn:?; [reflexivity | lia]. }
  apply N.eqb_neq in E3. destruct (n <? 2097152) eqn:?; [lia|].
  destruct (n / 128 / 128 / 128 / 128 =? 0) eqn:E4; [reflexivity|].
  apply N.eqb_neq in E4. lia.
Qed.
