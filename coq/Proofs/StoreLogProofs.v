From Emitter Require Import Lib.Base Model.MsgCodec Model.StoreLog.

(* every acknowledged message is in the recovered store, and nothing is there that was never
   handed to Store - for every sequence of stores, crashes (at any point, also inside a store call)
   and restarts, and every behaviour of interrupted transactions *)
Theorem acked_survive landed : forall ops s,
  (forall m, In m (d_acked s) -> In m (d_committed s)) ->
  (forall m, In m (d_committed s) -> In m (d_tried s)) ->
  let s' := fold_left (dstep landed) ops s in
  (forall m, In m (d_acked s') -> In m (d_committed s')) /\ (forall m, In m (d_committed s') -> In m (d_tried s')).
Proof.
  induction ops as [|o ops IH]; intros s A B; cbn [fold_left]; [auto|].
  apply IH.
  - destruct o as [m [|] | |]; cbn [dstep d_acked d_committed]; try exact A.
    + intros x H. apply in_app_or in H. apply in_or_app. destruct H as [H|H]; [left; apply A; exact H | right; exact H].
    + intros x H. destruct (landed m); [apply in_or_app; left|]; apply A; exact H.
  - destruct o as [m [|] | |]; cbn [dstep d_tried d_committed]; try exact B.
    + intros x H. apply in_app_or in H. apply in_or_app. destruct H as [H|H]; [left; apply B; exact H | right; exact H].
    + intros x H. destruct (landed m).
      * apply in_app_or in H. apply in_or_app. destruct H as [H|H]; [left; apply B; exact H | right; exact H].
      * apply in_or_app. left. apply B. exact H.
Qed.
