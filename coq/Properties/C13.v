(* C13 - Gossip payloads carry exactly what is new and lose nothing queued.
   First sentence (delta exactness): theorems on Model/Lww.v.  Second sentence (coalescing in the
   transport): mesh's gossipSender keeps pending.Merge(next); the swarm hands it payloads whose Merge
   keeps the union in the pending object (cluster/swarm.go payload, Model/Sender.v), so the payload
   finally sent carries every update that was queued.  (Before the repair event.State.Merge itself
   was used: it returns the delta - Findings/C13.v keeps those witnesses.) *)
From stdpp Require Import gmap.
From Coq Require Import ZArith.
From Emitter Require Import Model.Lww Model.Sender Proofs.LwwProofs Proofs.SenderProofs.
Local Open Scope Z_scope.

(* the delta contains exactly the keys whose times changed, and of each only the time fields
   that changed (the others zeroed) *)
Theorem C13_delta_exact : forall s r k,
  nonneg s ->
  match lww_delta s r !! k with
  | None => times (lww_merge s r) k = times s k
  | Some d =>
    times (lww_merge s r) k <> times s k
    /\ e_add d = (if tadd s k =? tadd (lww_merge s r) k then 0 else tadd (lww_merge s r) k)
    /\ e_del d = (if tdel s k =? tdel (lww_merge s r) k then 0 else tdel (lww_merge s r) k)
  end.
Proof. exact delta_exact. Qed.
Print Assumptions C13_delta_exact.

(* it is empty precisely when nothing changed; State.Merge returns nil precisely then *)
Theorem C13_delta_empty_iff : forall s r,
  nonneg s ->
  (lww_delta s r = ∅ <-> forall k, times (lww_merge s r) k = times s k)
  /\ (snd (state_merge s r) = None <-> lww_delta s r = ∅).
Proof.
  intros s r H. split; [apply delta_empty_iff; exact H|].
  unfold state_merge. cbn [snd]. destruct (decide (lww_delta s r = ∅)); split; intros; congruence.
Qed.
Print Assumptions C13_delta_empty_iff.

(* no new update is withheld from onward relay: merging the delta is as good as the payload *)
Theorem C13_delta_lossless : forall s r k, nonneg s ->
  times (lww_merge s (lww_delta s r)) k = times (lww_merge s r) k.
Proof. exact delta_lossless. Qed.
Print Assumptions C13_delta_lossless.

(* coalescing: whatever number of deltas is queued on a link before it sends, the payload sent
   carries, for every key, the latest add and the latest remove time of all of them *)
Theorem C13_coalesce : forall ps p0 k,
  nonneg p0 ->
  match fold_left sender_send ps (Some p0) with
  | Some out => tadd out k = tmax_add ps k (tadd p0 k) /\ tdel out k = tmax_del ps k (tdel p0 k) /\ nonneg out
  | None => False
  end.
Proof. exact union_sender_complete. Qed.
Print Assumptions C13_coalesce.

(* the slot that may also hold the complete state: the complete state supersedes pending deltas and
   stays; it is never replaced by less *)
Theorem C13_full_state_slot : forall s full data,
  (s = SFull -> slot_send s full data = SFull)
  /\ (full = true -> slot_send s full data = SFull)
  /\ (forall p, s = SData p -> full = false -> slot_send s full data = SData (lww_merge p data))
  /\ (s = SNone -> full = false -> slot_send s full data = SData data).
Proof.
  intros s full data. refine (conj _ (conj _ (conj _ _))).
  - intros ->. reflexivity.
  - intros ->. destruct s; reflexivity.
  - intros p -> ->. reflexivity.
  - intros -> ->. reflexivity.
Qed.
Print Assumptions C13_full_state_slot.

Example C13_nonvacuous :
  lww_delta (lww_add ∅ 1%N [] 3 3) (lww_add (lww_del ∅ 1%N 9 9) 1%N [7%N] 2 2) !! 1%N = Some (Ent 0 9 [7%N]).
Proof. vm_compute. reflexivity. Qed.
