(* C01: every reachable trie satisfies the invariant; subscribe / unsubscribe refine set
   insertion / removal; Count is the number of stored pairs. *)
From Emitter Require Import Lib.Base Model.Trie Spec.PubSub Proofs.TrieProofs Proofs.TrieLookup.
From Coq Require Import Lia Permutation.
Set Default Timeout 120.

Lemma NoDup_app_intro {A} (a b : list A) :
  NoDup a -> NoDup b -> (forall x, In x a -> ~ In x b) -> NoDup (a ++ b).
Proof.
  induction a as [|x a IH]; intros Na Nb D; [exact Nb|]. cbn [app].
  inversion Na as [|? ? Hx Na']; subst. constructor.
  - rewrite in_app_iff. intros [H|H]; [exact (Hx H) | exact (D x (or_introl eq_refl) H)].
  - apply IH; [exact Na' | exact Nb | intros y Hy; apply D; right; exact Hy].
Qed.

Lemma NoDup_map_inj {A B} (f : A -> B) l : (forall x y, f x = f y -> x = y) -> NoDup l -> NoDup (map f l).
Proof.
  intros Inj. induction l as [|x l IH]; intros ND; [constructor|]. cbn [map].
  inversion ND as [|? ? Hx ND']; subst. constructor; [|apply IH; exact ND'].
  rewrite in_map_iff. intros [y [E Hy]]. apply Inj in E. subst y. exact (Hx Hy).
Qed.

Lemma NoDup_pairs : forall n, wf n -> NoDup (pairs n).
Proof.
  induction n as [sb ks IH] using node_ind2. intros W. inversion W as [? ? NDs NDk WK]; subst.
  rewrite pairs_unfold. apply NoDup_app_intro.
  - apply NoDup_map_inj; [intros x y E; injection E; auto | exact NDs].
  - clear NDs W. induction ks as [|[w c] ks IHk]; [constructor|].
    inversion NDk as [|? ? Hw NDk']; subst. inversion WK as [|? ? Wc WK']; subst.
    inversion IH as [|? ? IHc IH']; subst. cbn [snd] in *.
    unfold kid_pairs in *. cbn [flat_map fst snd]. apply NoDup_app_intro.
    + apply NoDup_map_inj; [intros [f1 s1] [f2 s2] E; cbn [fst snd] in E; injection E; intros; subst; reflexivity|].
      apply IHc. exact Wc.
    + apply IHk; assumption.
    + intros [f s] H1 H2. apply in_map_iff in H1. destruct H1 as [[f' s'] [E _]]. cbn [fst snd] in E. injection E as <- <-.
      apply (In_kid_pairs ks (w :: f') s') in H2. destruct H2 as (w2 & c2 & f2 & I & E & _). injection E as <- <-.
      apply Hw. change w with (fst (w, c2)). apply in_map. exact I.
  - intros [f s] H1 H2. apply In_root_pairs in H1. destruct H1 as [-> _].
    apply In_kid_pairs in H2. destruct H2 as (w & c & f' & _ & E & _). discriminate.
Qed.

Section lengths.
  Context {A : Type} (dec : forall x y : A, {x = y} + {x <> y}).

  Lemma length_add_new (l l' : list A) p :
    NoDup l -> NoDup l' -> (forall x, In x l' <-> In x l \/ x = p) -> ~ In p l -> length l' = S (length l).
  Proof.
    intros N1 N2 H Hn.
    assert (P : Permutation (p :: l) l').
    { apply NoDup_Permutation; [constructor; assumption | exact N2|].
      intros x. rewrite H. cbn [In]. split; intros [E|E]; auto. }
    apply Permutation_length in P. cbn [length] in P. lia.
  Qed.

  Lemma length_add_old (l l' : list A) p :
    NoDup l -> NoDup l' -> (forall x, In x l' <-> In x l \/ x = p) -> In p l -> length l' = length l.
  Proof.
    intros N1 N2 H Hi.
    assert (P : Permutation l l').
    { apply NoDup_Permutation; [exact N1 | exact N2|]. intros x. rewrite H. split; [auto | intros [E| ->]; auto]. }
    apply Permutation_length in P. lia.
  Qed.

  Lemma length_del_old (l l' : list A) p :
    NoDup l -> NoDup l' -> (forall x, In x l' <-> In x l /\ x <> p) -> In p l -> length l = S (length l').
  Proof.
    intros N1 N2 H Hi.
    assert (Hn : ~ In p l') by (rewrite H; tauto).
    assert (P : Permutation (p :: l') l).
    { apply NoDup_Permutation; [constructor; assumption | exact N1|].
      intros x. cbn [In]. rewrite H. split.
      - intros [<-|[E _]]; assumption.
      - intros E. destruct (dec p x) as [->|Hne]; [left; reflexivity | right; split; [exact E | congruence]]. }
    apply Permutation_length in P. cbn [length] in P. lia.
  Qed.

  Lemma length_del_absent (l l' : list A) p :
    NoDup l -> NoDup l' -> (forall x, In x l' <-> In x l /\ x <> p) -> ~ In p l -> length l' = length l.
  Proof.
    intros N1 N2 H Hn.
    assert (P : Permutation l l').
    { apply NoDup_Permutation; [exact N1 | exact N2|]. intros x. rewrite H. split; [|tauto].
      intros E. split; [exact E | intros ->; exact (Hn E)]. }
    apply Permutation_length in P. lia.
  Qed.
End lengths.

Definition pair_dec : forall x y : list N * N, {x = y} + {x <> y}.
Proof. decide equality; [apply N.eq_dec | apply (list_eq_dec N.eq_dec)]. Defined.

(* ---- the invariant of reachable tries ---- *)
Definition Inv (t : trie) : Prop :=
  wf (t_root t) /\ nel (t_root t) /\ t_count t = Z.of_nat (length (pairs (t_root t))).

Lemma Inv0 : Inv trie0.
Proof. split; [exact wf_empty | split; [exact nel_empty | reflexivity]]. Qed.

Definition abs (t : trie) : list (list N * N) := pairs (t_root t).

Theorem subscribe_refines ssid s t :
  Inv t ->
  Inv (subscribe ssid s t)
  /\ (forall p, In p (abs (subscribe ssid s t)) <-> In p (abs t) \/ p = (ssid, s)).
Proof.
  intros (W & Ne & C). unfold subscribe, abs.
  pose proof (subscribe_node_spec ssid s (t_root t) W) as S. cbv zeta in S.
  pose proof (subscribe_node_nel ssid s (t_root t) Ne) as [Ne' _].
  destruct (subscribe_node ssid s (t_root t)) as [r added]. cbn [fst snd t_root t_count] in *.
  destruct S as (W' & P & A).
  assert (P' : forall p, In p (pairs r) <-> In p (pairs (t_root t)) \/ p = (ssid, s)).
  { intros [f x]. rewrite P. split; (intros [H|H]; [left; exact H | right]).
    - destruct H as [-> ->]. reflexivity.
    - injection H as -> ->. auto. }
  split; [|exact P'].
  split; [exact W' | split; [exact Ne'|]]. cbn [t_root t_count].
  pose proof (NoDup_pairs _ W) as N1. pose proof (NoDup_pairs _ W') as N2.
  destruct added.
  - assert (Hn : ~ In (ssid, s) (pairs (t_root t))) by (apply A; reflexivity).
    rewrite (length_add_new _ _ _ N1 N2 P' Hn), C. lia.
  - assert (Hi : In (ssid, s) (pairs (t_root t))).
    { destruct (in_dec pair_dec (ssid, s) (pairs (t_root t))) as [H|H]; [exact H|].
      apply A in H. discriminate. }
    rewrite (length_add_old _ _ _ N1 N2 P' Hi), C. reflexivity.
Qed.

Theorem unsubscribe_refines ssid s t :
  Inv t ->
  Inv (unsubscribe ssid s t)
  /\ (forall p, In p (abs (unsubscribe ssid s t)) <-> In p (abs t) /\ p <> (ssid, s)).
Proof.
  intros (W & Ne & C). unfold unsubscribe, abs.
  pose proof (unsubscribe_node_spec ssid s (t_root t) W) as S.
  pose proof (unsubscribe_node_nel ssid s (t_root t) Ne) as Ne'.
  destruct (unsubscribe_node ssid s (t_root t)) as [[[r removed] orphan]|]; cbn [t_root t_count] in *.
  - destruct S as (W' & P & R & _).
    assert (P' : forall p, In p (pairs r) <-> In p (pairs (t_root t)) /\ p <> (ssid, s)).
    { intros [f x]. rewrite P. split; intros [H1 H2]; (split; [exact H1|]).
      - intros E. injection E as -> ->. apply H2. auto.
      - intros [-> ->]. apply H2. reflexivity. }
    split; [|exact P'].
    split; [exact W' | split; [exact Ne'|]]. cbn [t_root t_count].
    pose proof (NoDup_pairs _ W) as N1. pose proof (NoDup_pairs _ W') as N2.
    destruct removed.
    + assert (Hi : In (ssid, s) (pairs (t_root t))) by (apply R; reflexivity).
      pose proof (length_del_old pair_dec _ _ _ N1 N2 P' Hi) as L. rewrite C, L. lia.
    + assert (Hn : ~ In (ssid, s) (pairs (t_root t))) by (intros H; apply R in H; discriminate).
      rewrite (length_del_absent _ _ _ N1 N2 P' Hn), C. reflexivity.
  - split; [split; [exact W | split; [exact Ne | exact C]]|].
    intros p. split; [|tauto]. intros H. split; [exact H | intros ->; exact (S H)].
Qed.

(* ---- histories ---- *)
Inductive trie_op := OSub (ssid : list N) (s : N) | OUnsub (ssid : list N) (s : N).
Definition apply_op (t : trie) (o : trie_op) : trie :=
  match o with OSub f s => subscribe f s t | OUnsub f s => unsubscribe f s t end.
Definition run (ops : list trie_op) : trie := fold_left apply_op ops trie0.

Lemma run_inv_from : forall ops t, Inv t -> Inv (fold_left apply_op ops t).
Proof.
  induction ops as [|o ops IH]; intros t I; [exact I|]. cbn [fold_left]. apply IH.
  destruct o; cbn [apply_op]; [apply subscribe_refines | apply unsubscribe_refines]; exact I.
Qed.

Theorem run_inv ops : Inv (run ops).
Proof. apply run_inv_from, Inv0. Qed.

(* the abstract state after a history: the pairs subscribed and not removed since *)
Fixpoint held (ops : list trie_op) (acc : list (list N * N)) : list (list N * N) :=
  match ops with
  | [] => acc
  | OSub f s :: r => held r (if in_dec pair_dec (f, s) acc then acc else (f, s) :: acc)
  | OUnsub f s :: r => held r (filter (fun p => if pair_dec p (f, s) then false else true) acc)
  end.

Lemma run_abs_from : forall ops t acc,
  Inv t -> (forall p, In p (abs t) <-> In p acc) ->
  forall p, In p (abs (fold_left apply_op ops t)) <-> In p (held ops acc).
Proof.
  induction ops as [|o ops IH]; intros t acc I H p; [apply H|]. cbn [fold_left held].
  destruct o as [f s|f s]; cbn [apply_op].
  - destruct (subscribe_refines f s t I) as [I' P]. apply (IH _ _ I'). intros q. rewrite P, H.
    destruct (in_dec pair_dec (f, s) acc) as [Hi|Hn]; cbn [In]; [split; [intros [E| ->]; auto | auto] | split; intros [E|E]; auto].
  - destruct (unsubscribe_refines f s t I) as [I' P]. apply (IH _ _ I'). intros q. rewrite P, H, filter_In.
    destruct (pair_dec q (f, s)) as [->|Hne].
    + split; [intros [_ E]; contradiction | intros [_ E]; discriminate].
    + split; intros [E1 _]; (split; [exact E1 | auto]).
Qed.

Theorem run_abs ops p : In p (abs (run ops)) <-> In p (held ops []).
Proof. apply (run_abs_from ops trie0 [] Inv0). intros q. cbn. tauto. Qed.

Theorem count_is_size ops : t_count (run ops) = Z.of_nat (length (abs (run ops))).
Proof. apply (run_inv ops). Qed.

Theorem empty_again ops : held ops [] = [] -> run ops = trie0.
Proof.
  intros H. pose proof (run_inv ops) as (W & Ne & C).
  assert (E : abs (run ops) = []).
  { destruct (abs (run ops)) as [|p l] eqn:E; [reflexivity|]. exfalso.
    assert (I : In p (abs (run ops))) by (rewrite E; left; reflexivity).
    apply run_abs in I. rewrite H in I. exact I. }
  unfold abs in E. pose proof (pruned_empty _ Ne E) as R.
  destruct (run ops) as [r c]. cbn [t_root t_count] in *. subst r. rewrite E in C. cbn in C. subst c. reflexivity.
Qed.
