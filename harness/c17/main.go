// Harness for C17 (and the transport part of C10): the sniffing connection, the WebSocket
// adapter and the write queue of the listener, over fake sockets / frame sources.
package main

import (
	"bytes"
	"fmt"
	"io"
	"net"
	"runtime"
	"sync"
	"time"

	"bufio"
	"context"

	"github.com/emitter-io/emitter/internal/broker"
	"github.com/emitter-io/emitter/internal/config"
	"github.com/emitter-io/emitter/internal/network/listener"
	"github.com/emitter-io/emitter/internal/network/mqtt"
	"github.com/emitter-io/emitter/internal/network/websocket"
	"github.com/emitter-io/emitter/internal/provider/logging"
	"github.com/emitter-io/emitter/internal/security"
	"github.com/emitter-io/emitter/internal/security/license"
	"github.com/emitter-io/emitter/internal/zzverif/vlib"
)

var cfg *vlib.Config

// ---- a fake net.Conn: reads deliver scripted chunks, writes are recorded -------------------------

type fakeSock struct {
	mu     sync.Mutex
	chunks [][]byte
	writes [][]byte
}

func (f *fakeSock) Read(p []byte) (int, error) {
	f.mu.Lock()
	defer f.mu.Unlock()
	if len(f.chunks) == 0 {
		return 0, io.EOF
	}
	c := f.chunks[0]
	n := copy(p, c)
	if n < len(c) {
		f.chunks[0] = c[n:]
	} else {
		f.chunks = f.chunks[1:]
	}
	return n, nil
}
func (f *fakeSock) Write(p []byte) (int, error) {
	f.mu.Lock()
	defer f.mu.Unlock()
	f.writes = append(f.writes, append([]byte{}, p...))
	return len(p), nil
}
func (f *fakeSock) Close() error                  { return nil }
func (f *fakeSock) LocalAddr() net.Addr           { return &net.TCPAddr{} }
func (f *fakeSock) RemoteAddr() net.Addr          { return &net.TCPAddr{} }
func (f *fakeSock) SetDeadline(t time.Time) error { return nil }
func (f *fakeSock) SetReadDeadline(t time.Time) error {
	if t.IsZero() {
		time.Sleep(2 * time.Millisecond) // lifting a deadline is a system call: it takes a moment
	}
	return nil
}
func (f *fakeSock) SetWriteDeadline(t time.Time) error { return nil }

// ---- a fake WebSocket frame source -----------------------------------------------------------------

type wsMsg struct {
	op      int
	payload []byte
}
type fakeWS struct {
	msgs   []wsMsg
	writes [][]byte
	// strict mode (concurrent stress): like gorilla, one message writer at a time
	strict   bool
	mu       sync.Mutex
	open     int
	overlaps int
}
type wsWriter struct {
	f   *fakeWS
	buf bytes.Buffer
}

func (w *wsWriter) Write(p []byte) (int, error) { return w.buf.Write(p) }
func (w *wsWriter) Close() error {
	if w.f.strict {
		runtime.Gosched() // pushing the frame to the peer takes a moment
		w.f.mu.Lock()
		defer w.f.mu.Unlock()
		w.f.open--
	}
	w.f.writes = append(w.f.writes, append([]byte{}, w.buf.Bytes()...))
	return nil
}

func (f *fakeWS) NextReader() (int, io.Reader, error) {
	if len(f.msgs) == 0 {
		return 0, nil, io.EOF
	}
	m := f.msgs[0]
	f.msgs = f.msgs[1:]
	return m.op, bytes.NewReader(m.payload), nil
}
func (f *fakeWS) NextWriter(messageType int) (io.WriteCloser, error) {
	if f.strict {
		f.mu.Lock()
		if f.open > 0 {
			f.overlaps++
		}
		f.open++
		f.mu.Unlock()
	}
	return &wsWriter{f: f}, nil
}
func (f *fakeWS) Close() error                       { return nil }
func (f *fakeWS) LocalAddr() net.Addr                { return &net.TCPAddr{} }
func (f *fakeWS) RemoteAddr() net.Addr               { return &net.TCPAddr{} }
func (f *fakeWS) SetReadDeadline(t time.Time) error  { return nil }
func (f *fakeWS) SetWriteDeadline(t time.Time) error { return nil }

// ---- a wide channel on a real broker: one publisher, many subscribers, pipelined publishes ---------

type quietLog struct{}

func (quietLog) Name() string                                  { return "quiet" }
func (quietLog) Configure(config map[string]interface{}) error { return nil }
func (quietLog) Printf(format string, v ...interface{})        {}

type fanClient struct {
	conn net.Conn
	pkts chan mqtt.Message
}

func newFanClient(svc *broker.Service) *fanClient {
	a, b := net.Pipe()
	c := &fanClient{conn: a, pkts: make(chan mqtt.Message, 8192)}
	svc.VerifAttach(b)
	go func() {
		rd := bufio.NewReaderSize(a, 65536)
		for {
			m, err := mqtt.DecodePacket(rd, 1<<20)
			if err != nil {
				close(c.pkts)
				return
			}
			c.pkts <- m
		}
	}()
	return c
}

func (c *fanClient) send(m mqtt.Message) { m.EncodeTo(c.conn) }
func (c *fanClient) waitType(t uint8) {
	timeout := time.After(3 * time.Second)
	for {
		select {
		case m, ok := <-c.pkts:
			if !ok || m.Type() == t {
				return
			}
		case <-timeout:
			return
		}
	}
}

// fanout: nSubs connections subscribe to a/; one publisher writes nMsgs PUBLISH packets back to back;
// what every subscriber received, in order.
func fanout(nSubs, nMsgs, readRate int) (sent [][]byte, recv [][][]byte) {
	lic := license.NewV3()
	c := config.NewDefault().(*config.Config)
	c.License = lic.String()
	c.Cluster = nil
	if readRate > 0 {
		c.Limit.ReadRate = readRate // the publisher goes over its read rate: it is slowed down, nothing is dropped
	}
	svc, err := broker.NewService(context.Background(), c)
	if err != nil {
		panic(err)
	}
	logging.Logger = quietLog{}
	defer svc.Close()
	cipher, _ := lic.Cipher()
	k := security.Key(make([]byte, 24))
	k.SetSalt(77)
	k.SetMaster(1)
	k.SetContract(lic.Contract())
	k.SetSignature(lic.Signature())
	k.SetPermissions(security.AllowRead | security.AllowWrite)
	k.SetTarget("a/")
	key, _ := cipher.EncryptKey(k)
	topic := []byte(key + "/a/")
	var subs []*fanClient
	for i := 0; i < nSubs; i++ {
		s := newFanClient(svc)
		s.send(&mqtt.Connect{ClientID: []byte(fmt.Sprintf("s%d", i))})
		s.waitType(mqtt.TypeOfConnack)
		s.send(&mqtt.Subscribe{Header: mqtt.Header{QOS: 1}, MessageID: 1, Subscriptions: []mqtt.TopicQOSTuple{{Topic: topic}}})
		s.waitType(mqtt.TypeOfSuback)
		subs = append(subs, s)
	}
	p := newFanClient(svc)
	p.send(&mqtt.Connect{ClientID: []byte("pub")})
	p.waitType(mqtt.TypeOfConnack)
	var all bytes.Buffer
	for i := 0; i < nMsgs; i++ {
		pl := []byte(fmt.Sprintf("m%03d", i))
		sent = append(sent, pl)
		(&mqtt.Publish{Header: mqtt.Header{QOS: 0}, Topic: topic, Payload: pl}).EncodeTo(&all)
	}
	go p.conn.Write(all.Bytes())
	for _, s := range subs {
		var got [][]byte
		timeout := time.After(10 * time.Second)
	loop:
		for len(got) < nMsgs {
			select {
			case m, ok := <-s.pkts:
				if !ok {
					break loop
				}
				if pb, ok := m.(*mqtt.Publish); ok {
					got = append(got, append([]byte{}, pb.Payload...))
				}
			case <-timeout:
				break loop
			}
		}
		recv = append(recv, got)
	}
	p.conn.Close()
	for _, s := range subs {
		s.conn.Close()
	}
	return
}

// ---- a root listener that hands out scripted connections ---------------------------------------------

type fakeRoot struct {
	conns  chan net.Conn
	closed chan struct{}
}

type rootClosed struct{}

func (rootClosed) Error() string   { return "root listener closed" }
func (rootClosed) Timeout() bool   { return false }
func (rootClosed) Temporary() bool { return false }

func (f *fakeRoot) Accept() (net.Conn, error) {
	select {
	case c := <-f.conns:
		return c, nil
	case <-f.closed:
		return nil, rootClosed{}
	}
}
func (f *fakeRoot) Close() error   { return nil }
func (f *fakeRoot) Addr() net.Addr { return &net.TCPAddr{} }

// ---- helpers ------------------------------------------------------------------------------------------

func partition(stream []byte) [][]byte {
	r := cfg.Rng
	var out [][]byte
	for len(stream) > 0 {
		n := 1 + r.Intn(9)
		if r.Intn(6) == 0 {
			n = 1 + r.Intn(40)
		}
		if n > len(stream) {
			n = len(stream)
		}
		out = append(out, stream[:n])
		stream = stream[n:]
	}
	return out
}

func bytesList(l [][]byte) string {
	s := make([]string, len(l))
	for i, b := range l {
		s[i] = vlib.Bytes(b)
	}
	return vlib.List(s)
}

func natList(l []int) string {
	s := make([]string, len(l))
	for i, v := range l {
		s[i] = fmt.Sprintf("%d%%nat", v)
	}
	return vlib.List(s)
}

func main() {
	cfg = vlib.ParseFlags()
	r := cfg.Rng
	sh := vlib.NewShards(cfg.Out, "C17", "From Emitter Require Import Lib.Base Model.Transport Check.C17.", "case", "check", 150)

	// A. sniffing rounds with explicit read sizes, then the post-sniffing reads
	for i := 0; i < 400*cfg.Mult; i++ {
		stream := vlib.RandBytes(r, r.Intn(80))
		sock := &fakeSock{chunks: partition(append([]byte{}, stream...))}
		chunksTerm := bytesList(sock.chunks)
		c := listener.VerifNewConn(sock, 60)
		nRounds := r.Intn(4)
		var roundTerms []string
		for k := 0; k < nRounds; k++ {
			rd := c.VerifStartSniffing()
			var sizes []int
			var outs [][]byte
			for j := r.Intn(5); j > 0; j-- {
				n := 1 + r.Intn(12)
				p := make([]byte, n)
				m, _ := rd.Read(p)
				sizes = append(sizes, n)
				outs = append(outs, append([]byte{}, p[:m]...))
			}
			roundTerms = append(roundTerms, vlib.Pair(natList(sizes), bytesList(outs)))
		}
		if nRounds > 0 || r.Intn(2) == 0 {
			c.VerifDoneSniffing()
		} else {
			roundTerms = nil
		}
		var sizes []int
		var outs [][]byte
		for j := 0; j < 60; j++ {
			n := 1 + r.Intn(16)
			p := make([]byte, n)
			m, err := c.Read(p)
			sizes = append(sizes, n)
			outs = append(outs, append([]byte{}, p[:m]...))
			if err != nil {
				break
			}
		}
		c.Close()
		sh.Add(vlib.App("CSniff", chunksTerm, vlib.List(roundTerms), natList(sizes), bytesList(outs)),
			map[string]interface{}{"op": "sniff", "stream": len(stream), "rounds": nRounds}, "sniffer", len(stream) > 0)
	}
	// A2. the real protocol matchers peek, then the whole stream must still be delivered
	for i := 0; i < 150*cfg.Mult; i++ {
		var stream []byte
		switch r.Intn(4) {
		case 0:
			stream = []byte("GET /keygen HTTP/1.1\r\nHost: x\r\n\r\nbody")
		case 1:
			stream = append([]byte{0x10, 0x0c, 0, 4, 'M', 'Q', 'T', 'T', 4, 2, 0, 60, 0, 0}, vlib.RandBytes(r, r.Intn(30))...)
		case 2:
			stream = []byte("POST / HTTP/1.0\r\n\r\n")
		default:
			stream = vlib.RandBytes(r, r.Intn(60))
		}
		sock := &fakeSock{chunks: partition(append([]byte{}, stream...))}
		c := listener.VerifNewConn(sock, 60)
		matchers := []listener.Matcher{listener.MatchHTTP(), listener.MatchPrefix("MQTT", "\x10"), listener.MatchAny()}
		used := 0
		for _, m := range matchers[r.Intn(3):] {
			used++
			if m(c.VerifStartSniffing()) {
				break
			}
		}
		c.VerifDoneSniffing()
		got, _ := io.ReadAll(c)
		c.Close()
		sh.Add(vlib.App("CMatch", vlib.Bytes(stream), vlib.Bytes(got)),
			map[string]interface{}{"op": "matchers", "stream": len(stream), "matchers_run": used}, "matchers", true)
	}
	// A3. the whole multiplexing listener: connections are matched (HTTP first, anything else after)
	// with a read timeout configured, accepted and read at once; every byte of the stream, in order, once
	{
		root := &fakeRoot{conns: make(chan net.Conn), closed: make(chan struct{})}
		l := listener.VerifNewListener(root, 60)
		l.SetReadTimeout(120 * time.Second)
		httpL := l.Match(listener.MatchHTTP())
		anyL := l.Match(listener.MatchAny())
		l.HandleError(func(error) bool { return false })
		go l.Serve()
		type accepted struct {
			got  []byte
			http bool
		}
		results := make(chan accepted, 4)
		for _, ml := range []net.Listener{httpL, anyL} {
			go func(ml net.Listener, isHTTP bool) {
				for {
					c, err := ml.Accept()
					if err != nil {
						return
					}
					got, _ := io.ReadAll(c)
					results <- accepted{got, isHTTP}
				}
			}(ml, ml == httpL)
		}
		for i := 0; i < 60*cfg.Mult; i++ {
			var stream []byte
			switch r.Intn(3) {
			case 0:
				stream = []byte("GET /keygen HTTP/1.1\r\nHost: x\r\n\r\nbody-" + fmt.Sprint(i))
			case 1:
				stream = append([]byte{0x10, 0x0c, 0, 4, 'M', 'Q', 'T', 'T', 4, 2, 0, 60, 0, 0}, vlib.RandBytes(r, r.Intn(30))...)
			default:
				stream = vlib.RandBytes(r, 1+r.Intn(60))
			}
			root.conns <- &fakeSock{chunks: partition(append([]byte{}, stream...))}
			var res accepted
			select {
			case res = <-results:
			case <-time.After(3 * time.Second):
			}
			sh.Add(vlib.App("CMatch", vlib.Bytes(stream), vlib.Bytes(res.got)),
				map[string]interface{}{"op": "listener", "stream": len(stream), "accepted_as_http": res.http}, "listener/serve", true)
		}
		close(root.closed)
	}
	// B. WebSocket reads over fragmented messages with control frames and empty messages in between
	for i := 0; i < 300*cfg.Mult; i++ {
		f := &fakeWS{}
		var msgTerms []string
		for k := r.Intn(7); k > 0; k-- {
			op := vlib.Pick(r, 2, 2, 2, 1, 9, 10, 8)
			pl := vlib.RandBytes(r, vlib.Pick(r, 0, 1, 3, 10, 25))
			f.msgs = append(f.msgs, wsMsg{op, pl})
			msgTerms = append(msgTerms, vlib.Pair(vlib.Bool(op == 1 || op == 2), vlib.Bytes(pl)))
		}
		t := websocket.VerifNewConn(f)
		var sizes []int
		var outs []string
		for j := 0; j < 80; j++ {
			n := 1 + r.Intn(12)
			p := make([]byte, n)
			m, err := t.Read(p)
			sizes = append(sizes, n)
			if err != nil {
				outs = append(outs, "None")
				break
			}
			outs = append(outs, "(Some "+vlib.Bytes(p[:m])+")")
		}
		// and the write side: one binary message per Write
		var wr [][]byte
		for k := r.Intn(4); k > 0; k-- {
			b := vlib.RandBytes(r, r.Intn(20))
			if r.Intn(6) == 0 { // a large packet: still one message
				b = bytes.Repeat([]byte{byte(r.Intn(256))}, vlib.Pick(r, 16384, 16385, 17000, 40000, 65536))
			}
			t.Write(b)
			wr = append(wr, b)
		}
		sh.Add(vlib.App("CWs", vlib.List(msgTerms), natList(sizes), vlib.List(outs), bytesList(wr), bytesList(f.writes)),
			map[string]interface{}{"op": "websocket", "messages": len(msgTerms)}, "websocket", len(msgTerms) > 0)
	}
	// C. write queue, sequential: writes and flushes against the recording socket
	for i := 0; i < 300*cfg.Mult; i++ {
		sock := &fakeSock{}
		rate := vlib.Pick(r, 1, 1, 2, 3, 1000)
		c := listener.VerifNewConn(sock, rate)
		var ops []string
		for k := 1 + r.Intn(8); k > 0; k-- {
			if r.Intn(4) == 0 {
				c.Flush()
				ops = append(ops, vlib.App("WFlush", vlib.N(uint64(c.Len())), bytesList(sock.writes)))
			} else {
				p := vlib.RandBytes(r, 1+r.Intn(6))
				if r.Intn(6) == 0 { // a large packet behind (or in front of) small ones
					p = bytes.Repeat([]byte{byte(r.Intn(256))}, vlib.Pick(r, 8192, 8193, 9000, 20000))
				}
				c.Write(p)
				ops = append(ops, vlib.App("WWrite", vlib.Bytes(p), vlib.N(uint64(c.Len())), bytesList(sock.writes)))
			}
		}
		c.Flush()
		ops = append(ops, vlib.App("WFlush", vlib.N(uint64(c.Len())), bytesList(sock.writes)))
		c.Close()
		sh.Add(vlib.App("CWq", vlib.List(ops)), map[string]interface{}{"op": "write-queue", "rate": rate, "ops": len(ops)}, "write-queue", true)
	}
	// C2. the path "not limited but something queued": wait for the limiter to refill (slow; few cases)
	for i := 0; i < 2*cfg.Mult; i++ {
		sock := &fakeSock{}
		c := listener.VerifNewConn(sock, 1)
		var ops []string
		w := func() {
			p := vlib.RandBytes(r, 1+r.Intn(6))
			c.Write(p)
			ops = append(ops, vlib.App("WWrite", vlib.Bytes(p), vlib.N(uint64(c.Len())), bytesList(sock.writes)))
		}
		w()
		w()
		w()
		time.Sleep(1050 * time.Millisecond)
		w()
		c.Flush()
		ops = append(ops, vlib.App("WFlush", vlib.N(uint64(c.Len())), bytesList(sock.writes)))
		c.Close()
		sh.Add(vlib.App("CWq", vlib.List(ops)), map[string]interface{}{"op": "write-queue", "rate": 1, "refill": true}, "write-queue/refill", true)
	}
	// D. concurrent writers against the flusher (C10): per-writer order, nothing lost or duplicated
	for i := 0; i < 3*cfg.Mult; i++ {
		sock := &fakeSock{}
		rate := vlib.Pick(r, 5, 60, 1000)
		c := listener.VerifNewConn(sock, rate)
		const writers, per = 6, 400
		var wg sync.WaitGroup
		stop := make(chan struct{})
		go func() {
			for {
				select {
				case <-stop:
					return
				default:
					c.Flush()
					time.Sleep(50 * time.Microsecond)
				}
			}
		}()
		for w := 0; w < writers; w++ {
			wg.Add(1)
			go func(w int) {
				defer wg.Done()
				for k := 0; k < per; k++ {
					c.Write([]byte{byte(w), byte(k >> 8), byte(k), 0xEE})
				}
			}(w)
		}
		wg.Wait()
		close(stop)
		c.Flush()
		c.Close()
		sock.mu.Lock()
		all := bytes.Join(sock.writes, nil)
		sock.mu.Unlock()
		sh.Add(vlib.App("CWqStress", vlib.N(writers), vlib.N(per), vlib.Bytes(all)),
			map[string]interface{}{"op": "write-queue stress", "writers": writers, "per": per, "rate": rate, "socket_writes": len(sock.writes)}, "write-queue/concurrent", true)
	}
	// E. concurrent senders to one WebSocket subscriber (C10): one message writer at a time, every
	// frame whole, per-sender order
	for i := 0; i < 3*cfg.Mult; i++ {
		f := &fakeWS{strict: true}
		t := websocket.VerifNewConn(f)
		const writers, per = 6, 300
		var wg sync.WaitGroup
		for w := 0; w < writers; w++ {
			wg.Add(1)
			go func(w int) {
				defer wg.Done()
				for k := 0; k < per; k++ {
					t.Write([]byte{byte(w), byte(k >> 8), byte(k), 0xEE})
				}
			}(w)
		}
		wg.Wait()
		f.mu.Lock()
		frames, overlaps := f.writes, f.overlaps
		f.mu.Unlock()
		sh.Add(vlib.App("CWsStress", vlib.N(writers), vlib.N(per), bytesList(frames), vlib.N(uint64(overlaps))),
			map[string]interface{}{"op": "websocket write stress", "writers": writers, "per": per, "frames": len(frames), "overlaps": overlaps}, "websocket/concurrent", true)
	}
	// F. a wide channel on a real broker (C10): every subscriber receives one publisher's messages in
	// sending order, each once
	for i := 0; i < 2*cfg.Mult; i++ {
		nSubs, nMsgs := vlib.Pick(r, 3, 12, 20), 60
		if i == 0 {
			nSubs = 14
		}
		readRate := 0
		if i == 1 {
			nSubs, nMsgs, readRate = 3, 50, 20
		}
		sent, recv := fanout(nSubs, nMsgs, readRate)
		var rt []string
		for _, g := range recv {
			rt = append(rt, bytesList(g))
		}
		sh.Add(vlib.App("CFan", bytesList(sent), vlib.List(rt)),
			map[string]interface{}{"op": "wide channel", "subscribers": nSubs, "messages": nMsgs, "read_rate": readRate}, "broker/fan-out", true)
	}
	sh.Finish("random streams split into socket reads of 1-40 bytes; 0-3 sniffing rounds with read sizes 1-12, then post-sniffing reads; the real HTTP / prefix / any matchers; WebSocket messages (binary, text, ping, pong, close; empty payloads) read with buffers of 1-12 bytes; write/flush sequences at rates 1, 2, 3, 1000 incl. limiter refill, packets of 1-6 and of 8192-20000 bytes; WebSocket writes of up to 65536 bytes; 6 concurrent writers x 400 packets against a busy flusher; 6 concurrent senders x 300 frames through the WebSocket transport over a one-writer-at-a-time socket; a real broker with 3-20 subscribers of one channel and a publisher writing 60 PUBLISH packets back to back (once with a read rate of 20 / s: slowed down, nothing dropped); non-trivial: non-empty stream / message list")
}
