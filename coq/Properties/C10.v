(* C10 - Concurrent delivery keeps packet framing and per-publisher order.
   Model: Model/WriteQueueLTS.v - listener.Conn.Write / Flush as a transition system whose atomic
   steps are the critical sections of the connection's RWMutex and single net.Conn.Write calls; any
   number of writer threads (publishers delivering to one subscriber connection), limiter outcomes
   chosen non-deterministically, flushes at any time.  The step semantics is tied to the code by the
   c17 harness (sequential Write/Flush scripts and a concurrent stress on a recording socket); the
   granularity itself (atomicity of the mutex sections and of one socket write) is a premise.
   Framing: every socket write is a whole packet or a whole queue of whole packets (C16 gives that
   the concatenation of encodings decodes to the packets). *)
From Coq Require Import List Arith.
Import ListNotations.
From Emitter Require Import Model.WriteQueueLTS Proofs.WriteQueueProofs.

(* for EVERY reachable state of EVERY interleaving: what the socket has received from one writer
   is a prefix of that writer's packets in program order - no reordering, no duplication *)
Theorem C10_per_thread_order : forall totals s i,
  reachable (linit totals) s -> exists k, k <= done (thr s i) /\ proj i (sock s) = seq 0 k.
Proof. exact per_thread_order. Qed.
Print Assumptions C10_per_thread_order.

(* no loss: once the queue has been flushed, every packet handed over is on the socket *)
Theorem C10_no_loss : forall totals s i,
  reachable (linit totals) s -> queue s = [] -> proj i (sock s) = seq 0 (done (thr s i)).
Proof. exact no_loss. Qed.
Print Assumptions C10_no_loss.

(* the invariant behind both, preserved by each of the 11 rules *)
Theorem C10_invariant : forall s s', Inv s -> lstep s s' -> Inv s'.
Proof. exact step_inv. Qed.
Print Assumptions C10_invariant.

Example C10_nonvacuous :
  exists s, reachable (linit (fun _ => 2)) s /\ sock s = [(0, 0); (1, 0)] /\ queue s = [(0, 1)].
Proof.
  eexists. split.
  - eapply r_step; [eapply r_step; [eapply r_step; [eapply r_step; [eapply r_step; [eapply r_step; [eapply r_step; [eapply r_step; [apply r_refl|]|]|]|]|]|]|]|].
    + apply (s_start_free _ 0); [reflexivity | cbn; auto].
    + apply (s_len_zero _ 0); reflexivity.
    + apply (s_direct _ 0); reflexivity.
    + apply (s_start_free _ 1); [reflexivity | cbn; auto].
    + apply (s_len_zero _ 1); reflexivity.
    + apply (s_start_limited _ 0); [reflexivity | cbn; auto].
    + apply (s_direct _ 1); reflexivity.
    + apply (s_enq_only _ 0); reflexivity.
  - cbn. split; reflexivity.
Qed.
