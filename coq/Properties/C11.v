(* C11 - Derived keys never exceed their parent or the request.
   Model: Model/Key.v (service/keygen: CreateKey, ExtendKey, access, SetExpires), tied to the real
   keygen.Service by the c11 harness on every run.  [h] is any 32-bit string hash. *)
From Emitter Require Import Lib.Base Model.MsgCodec Model.Channel Model.Cipher Model.Key
     Proofs.KeygenProofs.
From Coq Require Import Lia.

(* a key produced by a key-generation request: minted only by a valid, unexpired master key of an
   allowed contract; never master; no permission that was not requested; the parent's contract,
   signature and master id; the expiry handed to SetExpires; the target of exactly the requested
   channel (it is the result of SetTarget on that string) *)
Theorem C11_create_key : forall h, (forall s, h s < 4294967296) ->
  forall decrypt contracts now raw channel access expires salt k,
  (forall s x, decrypt s = Ok x -> length x = 24%nat) ->
  create_key h decrypt contracts now raw channel access expires salt = Ok k ->
  exists mk c,
    decrypt raw = Ok mk /\ is_master mk = true /\ is_expired mk now = false
    /\ contracts (key_contract mk) = Some c /\ contract_validate c mk = true
    /\ key_perms k = N.land access 254
    /\ key_contract k = key_contract mk /\ key_signature k = key_signature mk /\ key_master k = key_master mk
    /\ key_expiry_field k = expiry_field_of expires
    /\ exists k0, length k0 = 24%nat /\ set_target h k0 channel = Ok k.
Proof. exact create_key_spec. Qed.
Print Assumptions C11_create_key.

Theorem C11_no_master : forall h, (forall s, h s < 4294967296) ->
  forall decrypt contracts now raw channel access expires salt k,
  (forall s x, decrypt s = Ok x -> length x = 24%nat) ->
  create_key h decrypt contracts now raw channel access expires salt = Ok k ->
  N.land (key_perms k) AllowMaster = 0 /\ N.land (key_perms k) (N.lnot access 8) = 0.
Proof. exact create_key_never_master. Qed.
Print Assumptions C11_no_master.

(* a key produced by private-link extension: the parent passed Authorize with the extend
   permission on the static channel; permissions = parent's without extend, restricted to the
   request; identity copied; target = only the sub-channel named after the requesting connection *)
Theorem C11_extend_key : forall h, (forall s, h s < 4294967296) ->
  forall banned decrypt contracts now ckey cname conn access expires k target,
  (forall s x, decrypt s = Ok x -> length x = 24%nat) ->
  extend_key h banned decrypt contracts now ckey cname conn access expires = Ok (k, target) ->
  let wild := has_suffix cname hash_slash in
  let name := if wild then take (len cname - 2) cname else cname in
  let ch := parse_channel (ckey ++ sep :: name) in
  exists p,
    c_type ch = ChannelStatic /\ authorize h banned decrypt contracts now ch AllowExtend = Some p
    /\ key_perms k = N.land (N.land (key_perms p) (255 - AllowExtend)) access
    /\ key_contract k = key_contract p /\ key_signature k = key_signature p /\ key_master k = key_master p
    /\ key_expiry_field k = expiry_field_of expires
    /\ target = c_chan ch ++ conn ++ sep :: (if wild then hash_slash else [])
    /\ exists k0, length k0 = 24%nat /\ set_target h k0 target = Ok k.
Proof. exact extend_key_spec. Qed.
Print Assumptions C11_extend_key.

(* expiry "as requested" holds for expiries representable in the key's 32-bit field (2010 + 136
   years); outside it SetExpires wraps - known finding F19 (Findings/C11.v) *)
Theorem C11_expiry_as_requested : forall t,
  (* a date the 32-bit field can hold is stored as it is *)
  ((timeOffset < t <= timeOffset + 4294967295)%Z -> (Z.of_N (expiry_field_of t) + timeOffset = t)%Z)
  (* a date at or before the 2010 epoch (a request with a large negative ttl) is stored as the
     earliest date: the key is expired, never long-lived; and only the zero time means "never" *)
  /\ (t <> 0%Z -> (t <= timeOffset)%Z -> expiry_field_of t = 1)
  /\ (t <> 0%Z -> expiry_field_of t <> 0)
  (* no stored expiry is later than the requested one, except for the one-second floor *)
  /\ (t <> 0%Z -> (Z.of_N (expiry_field_of t) + timeOffset <= Z.max t (timeOffset + 1))%Z).
Proof.
  intros t. unfold expiry_field_of, timeOffset. repeat split.
  - intros H. destruct (t =? 0)%Z eqn:Z0; [apply Z.eqb_eq in Z0; lia|].
    destruct (t - 1262304000 <? 1)%Z eqn:A; [apply Z.ltb_lt in A; lia|]. destruct (4294967295 <? t - 1262304000)%Z eqn:B; [apply Z.ltb_lt in B; lia|]. lia.
  - intros N0 H. destruct (t =? 0)%Z eqn:Z0; [apply Z.eqb_eq in Z0; contradiction|].
    destruct (t - 1262304000 <? 1)%Z eqn:A; [reflexivity | apply Z.ltb_ge in A; lia].
  - intros N0. destruct (t =? 0)%Z eqn:Z0; [apply Z.eqb_eq in Z0; contradiction|].
    destruct (t - 1262304000 <? 1)%Z eqn:A; [discriminate|]. destruct (4294967295 <? t - 1262304000)%Z eqn:B; [discriminate|]. apply Z.ltb_ge in A. lia.
  - intros N0. destruct (t =? 0)%Z eqn:Z0; [apply Z.eqb_eq in Z0; contradiction|].
    destruct (t - 1262304000 <? 1)%Z eqn:A; [lia|]. destruct (4294967295 <? t - 1262304000)%Z eqn:B; [apply Z.ltb_lt in B; lia|]. apply Z.ltb_ge in A. lia.
Qed.
Print Assumptions C11_expiry_as_requested.

(* "an extendable key cannot itself be used to publish or subscribe" - over the broker model
   (Model/Broker.v, generic in the subscription index; tied to the real broker by the broker harness and
   by the CExtUse cases of the c11 harness).  Before the repair of F16 the third statement was false: a
   link request asking to be subscribed did subscribe an extendable key. *)
From Emitter Require Import Model.Murmur Model.Trie Model.Store Model.Broker Proofs.BrokerExtend.

Theorem C11_extendable_key_cannot_subscribe : forall (I : Type) (X : ixops I) e (b : @broker I) i c topic k,
  let ch := parse_channel (repl_dslash (repl_hash topic)) in
  (c_type ch =? ChannelInvalid) = false -> auth e ch AllowRead = Some k -> has_permission k AllowExtend = true ->
  on_subscribe X e b i c topic = (b, Some 401).
Proof. intros I X. exact (extendable_key_cannot_subscribe X). Qed.
Print Assumptions C11_extendable_key_cannot_subscribe.

Theorem C11_extendable_key_cannot_publish : forall (I : Type) (X : ixops I) e (b : @broker I) i c mid retain topic payload r k,
  let ch := parse_channel (get_link c topic) in     (* the topic itself, or the channel a link name stands for *)
  (c_type ch =? ChannelInvalid) = false -> (c_type ch =? ChannelStatic) = true -> bytes_eqb (c_key ch) s_emitter = false ->
  auth e ch AllowWrite = Some k -> has_permission k AllowExtend = true ->
  on_publish X e b i c mid retain topic payload r = (b, Some 401).
Proof. intros I X. exact (extendable_key_cannot_publish X). Qed.
Print Assumptions C11_extendable_key_cannot_publish.

Theorem C11_extendable_key_link_subscribes_nothing : forall (I : Type) (X : ixops I) e (b : @broker I) i c ch mid name key channel sub k,
  c_query ch = [h_link] ->
  let lc := parse_channel (key ++ [47] ++ channel) in
  auth e lc AllowRead = Some k -> has_permission k AllowExtend = true ->
  let b' := on_emitter X e b i c ch mid (ELink name key channel sub) in
  b_trie b' = b_trie b /\ b_store b' = b_store b /\ b_queue b' = b_queue b
  /\ (forall j, j <> i -> get_conn (b_conns b') (N.to_nat j) = get_conn (b_conns b) (N.to_nat j))
  /\ (forall c', get_conn (b_conns b') (N.to_nat i) = Some c' -> get_conn (b_conns b) (N.to_nat i) = Some c -> cn_ctrs c' = cn_ctrs c)
  /\ exists p, b_out b' = b_out b ++ [(i, p)].
Proof. intros I X. exact (extendable_key_link_subscribes_nothing X). Qed.
Print Assumptions C11_extendable_key_link_subscribes_nothing.
