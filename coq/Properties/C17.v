(* C17 - Transport adapters deliver the byte stream unchanged.
   Models: Model/Transport.v (listener.sniffer, websocketTransport.Read, listener.Conn.Write/Flush),
   tied to the code by the c17 harness (hooks in listener and websocket, overlay only). *)
From Emitter Require Import Lib.Base Model.Transport Proofs.TransportProofs.

(* for every partition of the stream into socket reads, every sequence of sniffing rounds with
   arbitrary read sizes followed by doneSniffing, the bytes returned afterwards are the whole source
   stream from byte 0, in order, each once ([sn_rest s'] = what is still to come) *)
Theorem C17_sniff_replay : forall rounds src sizes out s',
  sn_reads (sn_reset (sn_rounds (sn_reset (sniffer0 src) true) rounds) false) sizes = (out, s') ->
  concat src = out ++ sn_rest s'.
Proof. exact sniff_replay. Qed.
Print Assumptions C17_sniff_replay.

(* each sniffing round sees a prefix of the stream *)
Theorem C17_round_sees_prefix : forall s sizes out s',
  sn_round s sizes = (out, s') -> exists rest, sn_all s = out ++ rest /\ sn_all s' = sn_all s /\ s_sniff s' = true.
Proof. exact sn_round_prefix. Qed.
Print Assumptions C17_round_sees_prefix.

(* WebSocket: concatenated reads = concatenated payloads of the data messages, for every
   fragmentation, incl. empty messages and control frames in between; an error only at the end *)
Theorem C17_ws_read : forall s n,
  (forall out s', ws_read s n = Some (out, s') -> ws_stream s = out ++ ws_stream s')
  /\ (ws_read s n = None -> ws_stream s = []).
Proof. intros s n. split; [intros out s'; apply ws_read_stream | apply ws_read_end]. Qed.
Print Assumptions C17_ws_read.

(* write side: whatever the rate limiter answers and whenever flushes happen, socket bytes followed
   by queued bytes are exactly the written buffers in order, each once; a flush empties the queue *)
Theorem C17_write_fidelity : forall ws s,
  wq_stream (fold_left (fun a w => wq_write a (fst w) (snd w)) ws s) = wq_stream s ++ concat (map fst ws)
  /\ wq_stream (wq_flush s) = wq_stream s /\ q_buf (wq_flush s) = [].
Proof. intros ws s. split; [apply wq_writes_stream | split; [apply wq_flush_stream | apply wq_flush_empty]]. Qed.
Print Assumptions C17_write_fidelity.

Example C17_nonvacuous :
  let s := sn_reset (snd (sn_round (sn_reset (sniffer0 [[1;2;3];[4;5]]) true) [2; 2]%nat)) false in
  fst (sn_reads s [4; 4]%nat) = [1;2;3;4;5]
  /\ ws_read (Ws [(false, [9]); (true, []); (true, [7;8])] None) 5 = Some ([], Ws [(true, [7;8])] None).
Proof. vm_compute. split; reflexivity. Qed.
