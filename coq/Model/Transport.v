(* Models of the transport adapters: listener.sniffer (protocol sniffing with replay),
   websocketTransport.Read (data messages as one byte stream), listener.Conn.Write / Flush (the
   rate-limited write queue, sequential semantics).  No proofs here. *)
From Emitter Require Import Lib.Base.

(* ---- a byte source delivering the stream in chunks (socket reads) ---- *)
Definition src_read (src : list bytes) (p : nat) : bytes * list bytes :=
  match src with
  | [] => ([], [])
  | c :: r => if Nat.leb (length c) p then (c, r) else (firstn p c, skipn p c :: r)
  end.

(* ---- listener.sniffer ---- *)
Record sniffer := Sn { s_src : list bytes; s_buf : bytes; s_read : nat; s_size : nat; s_sniff : bool }.
Definition sniffer0 (src : list bytes) := Sn src [] 0 0 false.

(* sniffer.Read(p) with len(p) = n *)
Definition sn_read (s : sniffer) (n : nat) : bytes * sniffer :=
  if Nat.ltb (s_read s) (s_size s) then
    let out := firstn n (firstn (s_size s - s_read s) (skipn (s_read s) (s_buf s))) in
    (out, Sn (s_src s) (s_buf s) (s_read s + length out) (s_size s) (s_sniff s))
  else
    let buf := if s_sniff s then s_buf s else [] in       (* not sniffing any more: the buffer is released *)
    let (out, src') := src_read (s_src s) n in
    (out, Sn src' (if s_sniff s then buf ++ out else buf) (s_read s) (s_size s) (s_sniff s)).

(* sniffer.reset(snif) *)
Definition sn_reset (s : sniffer) (snif : bool) : sniffer :=
  Sn (s_src s) (s_buf s) 0 (length (s_buf s)) snif.

(* a sniffing round: reset(true), then reads of the given sizes; the bytes the matcher saw *)
Fixpoint sn_reads (s : sniffer) (sizes : list nat) : bytes * sniffer :=
  match sizes with
  | [] => ([], s)
  | n :: r => let (o, s1) := sn_read s n in let (o2, s2) := sn_reads s1 r in (o ++ o2, s2)
  end.
Definition sn_round (s : sniffer) (sizes : list nat) : bytes * sniffer := sn_reads (sn_reset s true) sizes.

(* ---- websocketTransport.Read ---- *)
(* a message: is it a data message (binary/text) and its payload; cur = the reader in progress *)
Record wsst := Ws { w_msgs : list (bool * bytes); w_cur : option bytes }.

Fixpoint ws_next (msgs : list (bool * bytes)) : option (bytes * list (bool * bytes)) :=
  match msgs with
  | [] => None                                   (* NextReader returns an error: connection over *)
  | (true, p) :: r => Some (p, r)
  | (false, _) :: r => ws_next r                 (* control frames are skipped *)
  end.

(* Read(b) with len(b) = n: None = error returned *)
Definition ws_read (s : wsst) (n : nat) : option (bytes * wsst) :=
  let cur := match w_cur s with
             | Some c => Some (c, w_msgs s)
             | None => ws_next (w_msgs s)
             end in
  match cur with
  | None => None
  | Some (c, rest) =>
    match c with
    | [] => Some ([], Ws rest None)               (* reader at EOF: (0, nil), reader dropped *)
    | _ => let out := firstn n c in
           Some (out, Ws rest (Some (skipn n c)))
    end
  end.

(* ---- listener.Conn write path, sequential ---- *)
Record wq := Wq { q_buf : bytes; q_sock : list bytes }.    (* queued bytes; writes handed to the socket *)
Definition wq0 := Wq [] [].

Definition wq_flush (s : wq) : wq :=
  match q_buf s with [] => s | b => Wq [] (q_sock s ++ [b]) end.

(* Write(p) given the limiter's answer *)
Definition wq_write (s : wq) (p : bytes) (limited : bool) : wq :=
  if limited then Wq (q_buf s ++ p) (q_sock s)
  else match q_buf s with
       | [] => Wq [] (q_sock s ++ [p])                       (* direct *)
       | _ => wq_flush (Wq (q_buf s ++ p) (q_sock s))        (* enqueue, then flush *)
       end.
