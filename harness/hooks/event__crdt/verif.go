//go:build verif

package crdt

import "github.com/tidwall/buntdb"

// VerifExpires reports whether the stored record of the key carries an expiry time.
func (s *Durable) VerifExpires(key string) (expires bool) {
	s.db.View(func(tx *buntdb.Tx) error {
		if ttl, err := tx.TTL(key); err == nil && ttl >= 0 {
			expires = true
		}
		return nil
	})
	return
}
