// Harness for C01: random and enumerated subscribe / unsubscribe / lookup histories on the real
// trie in both matcher configurations, plus a concurrent stress whose final state must equal the
// sequential model applied to the same multiset of operations.
package main

import (
	"fmt"
	"sort"
	"sync"

	"github.com/emitter-io/emitter/internal/message"
	"github.com/emitter-io/emitter/internal/security/hash"
	"github.com/emitter-io/emitter/internal/zzverif/vlib"
)

var cfg *vlib.Config

type fakeSub struct{ id string }

func (f *fakeSub) ID() string                    { return f.id }
func (f *fakeSub) Type() message.SubscriberType  { return message.SubscriberDirect }
func (f *fakeSub) Send(m *message.Message) error { return nil }

const (
	wildcard      = 1815237614
	multiWildcard = 4285801373
	share         = 1480642916
)

var subs []*fakeSub
var words = []uint32{11, 12, 13, wildcard, multiWildcard}

func ssidTerm(s message.Ssid) string {
	w := make([]uint64, len(s))
	for i, v := range s {
		w[i] = uint64(v)
	}
	return vlib.NList(w)
}

func genSsid(allowShare bool) message.Ssid {
	r := cfg.Rng
	s := message.Ssid{7}
	if r.Intn(12) == 0 {
		s[0] = 8
	}
	if allowShare && r.Intn(5) == 0 {
		s = append(s, share, uint32(100+r.Intn(3)))
	}
	n := r.Intn(4)
	if r.Intn(10) == 0 {
		n = 0
	}
	for i := 0; i < n; i++ {
		w := words[r.Intn(3)]
		if x := r.Intn(10); x == 0 {
			w = wildcard
		} else if x == 1 {
			w = multiWildcard
		}
		s = append(s, w)
	}
	return s
}

func genQuery() message.Ssid {
	r := cfg.Rng
	s := message.Ssid{7}
	if r.Intn(12) == 0 {
		s[0] = 8
	}
	n := r.Intn(4)
	for i := 0; i < n; i++ {
		s = append(s, words[r.Intn(3)])
	}
	if r.Intn(15) == 0 {
		s = append(s, words[3+r.Intn(2)]) // wildcard words inside a channel are ordinary words for the lookup
	}
	return s
}

func obsTerm(t *message.Trie) string {
	nodes, pairs := t.VerifDump()
	sort.Slice(pairs, func(i, j int) bool {
		a, b := pairs[i], pairs[j]
		for k := 0; k < len(a.Ssid) && k < len(b.Ssid); k++ {
			if a.Ssid[k] != b.Ssid[k] {
				return a.Ssid[k] < b.Ssid[k]
			}
		}
		if len(a.Ssid) != len(b.Ssid) {
			return len(a.Ssid) < len(b.Ssid)
		}
		return a.Sub < b.Sub
	})
	ps := make([]string, len(pairs))
	for i, p := range pairs {
		ps[i] = vlib.Pair(ssidTerm(p.Ssid), vlib.N(uint64(p.Sub)))
	}
	return vlib.App("Obs", vlib.N(uint64(t.Count())), vlib.N(uint64(nodes)), vlib.List(ps))
}

func lookupTerm(t *message.Trie, q message.Ssid) string {
	res := t.Lookup(q, nil)
	ids := []uint64{}
	for k := range res {
		ids = append(ids, uint64(k))
	}
	sort.Slice(ids, func(i, j int) bool { return ids[i] < ids[j] })
	return vlib.NList(ids)
}

func history(mqtt bool, steps int, allowShare bool) (string, map[string]interface{}) {
	r := cfg.Rng
	var t *message.Trie
	if mqtt {
		t = message.NewTrieMQTT()
	} else {
		t = message.NewTrie()
	}
	var ops []string
	var held []struct {
		s   message.Ssid
		sub int
	}
	kinds := map[string]int{}
	for i := 0; i < steps; i++ {
		switch x := r.Intn(100); {
		case x < 40:
			s, k := genSsid(allowShare), r.Intn(len(subs))
			if len(held) > 0 && r.Intn(5) == 0 { // duplicate of something already held
				h := held[r.Intn(len(held))]
				s, k = h.s, h.sub
			}
			t.Subscribe(s, subs[k])
			held = append(held, struct {
				s   message.Ssid
				sub int
			}{s, k})
			ops = append(ops, vlib.App("TSub", ssidTerm(s), vlib.N(uint64(hash.OfString(subs[k].id))), obsTerm(t)))
			kinds["subscribe"]++
		case x < 70:
			s, k := genSsid(allowShare), r.Intn(len(subs))
			if len(held) > 0 && r.Intn(10) < 8 {
				j := r.Intn(len(held))
				s, k = held[j].s, held[j].sub
				held = append(held[:j], held[j+1:]...)
			}
			t.Unsubscribe(s, subs[k])
			ops = append(ops, vlib.App("TUnsub", ssidTerm(s), vlib.N(uint64(hash.OfString(subs[k].id))), obsTerm(t)))
			kinds["unsubscribe"]++
		default:
			q := genQuery()
			ops = append(ops, vlib.App("TLookup", ssidTerm(q), lookupTerm(t, q)))
			kinds["lookup"]++
		}
	}
	// finally remove everything still held: the index must be empty again
	for _, h := range held {
		t.Unsubscribe(h.s, subs[h.sub])
		ops = append(ops, vlib.App("TUnsub", ssidTerm(h.s), vlib.N(uint64(hash.OfString(subs[h.sub].id))), obsTerm(t)))
	}
	return vlib.App("CTrie", vlib.Bool(mqtt), vlib.List(ops)), map[string]interface{}{"mqtt": mqtt, "ops": len(ops), "kinds": kinds, "share": allowShare}
}

// concurrent: goroutines apply disjoint (subscriber-wise) scripts; every interleaving of atomic
// operations of different subscribers on a set gives the same final set, which the model computes.
func concurrent(mqtt bool) (string, map[string]interface{}) {
	r := cfg.Rng
	var t *message.Trie
	if mqtt {
		t = message.NewTrieMQTT()
	} else {
		t = message.NewTrie()
	}
	type op struct {
		sub bool
		s   message.Ssid
		k   int
	}
	scripts := make([][]op, len(subs))
	for k := range scripts {
		for i := 0; i < 30; i++ {
			scripts[k] = append(scripts[k], op{r.Intn(3) != 0, genSsid(true), k})
		}
	}
	var wg sync.WaitGroup
	for k := range scripts {
		wg.Add(1)
		go func(k int) {
			defer wg.Done()
			for _, o := range scripts[k] {
				if o.sub {
					t.Subscribe(o.s, subs[o.k])
				} else {
					t.Unsubscribe(o.s, subs[o.k])
				}
				t.Lookup(message.Ssid{7, 11, 12}, nil)
			}
		}(k)
	}
	wg.Wait()
	// sequential replay order for the model: script after script (operations of different
	// subscribers commute on the stored set; node pruning depends only on the final set)
	var ops []string
	for k := range scripts {
		for _, o := range scripts[k] {
			c := "TUnsubQ"
			if o.sub {
				c = "TSubQ"
			}
			ops = append(ops, vlib.App(c, ssidTerm(o.s), vlib.N(uint64(hash.OfString(subs[o.k].id)))))
		}
	}
	return vlib.App("CConc", vlib.Bool(mqtt), vlib.List(ops), obsTerm(t)), map[string]interface{}{"mqtt": mqtt, "goroutines": len(subs), "ops": len(ops)}
}

// contended: many goroutines subscribe / unsubscribe the SAME few filters, so that pruning of a
// branch races with another subscriber walking into it.  Each subscriber's own operations are
// sequential, so the final set (last operation per (filter, subscriber)) and hence the pruned trie
// are determined whatever the interleaving.
func contended(mqtt bool) (string, map[string]interface{}) {
	r := cfg.Rng
	var t *message.Trie
	if mqtt {
		t = message.NewTrieMQTT()
	} else {
		t = message.NewTrie()
	}
	filters := []message.Ssid{{7, 11, 12, 13}, {7, 11, 12}, {7, 11, 12, 13, 11}}
	type op struct {
		sub bool
		f   int
	}
	const per = 1500
	scripts := make([][]op, len(subs))
	for k := range scripts {
		for i := 0; i < per; i++ {
			scripts[k] = append(scripts[k], op{r.Intn(2) == 0, r.Intn(len(filters))})
		}
	}
	var wg sync.WaitGroup
	for k := range scripts {
		wg.Add(1)
		go func(k int) {
			defer wg.Done()
			for _, o := range scripts[k] {
				if o.sub {
					t.Subscribe(filters[o.f], subs[k])
				} else {
					t.Unsubscribe(filters[o.f], subs[k])
				}
			}
		}(k)
	}
	wg.Wait()
	var ops []string
	for k := range scripts {
		// only the last operation per filter matters for the final state
		last := map[int]op{}
		for _, o := range scripts[k] {
			last[o.f] = o
		}
		for f := 0; f < len(filters); f++ {
			if o, ok := last[f]; ok {
				c := "TUnsubQ"
				if o.sub {
					c = "TSubQ"
				}
				ops = append(ops, vlib.App(c, ssidTerm(filters[f]), vlib.N(uint64(hash.OfString(subs[k].id)))))
			}
		}
	}
	return vlib.App("CConc", vlib.Bool(mqtt), vlib.List(ops), obsTerm(t)), map[string]interface{}{"mqtt": mqtt, "goroutines": len(subs), "ops_each": per, "contended": true}
}

// bigShare: a share group with n members is looked up, then dissolved; afterwards lone members of
// other groups (and of the same group) must be the only picks - nothing of the dissolved group may
// linger in whatever scratch space the lookup uses.
func bigShare(mqtt bool, n int) (string, map[string]interface{}) {
	var t *message.Trie
	if mqtt {
		t = message.NewTrieMQTT()
	} else {
		t = message.NewTrie()
	}
	var ops []string
	var members []*fakeSub
	big := message.Ssid{7, share, 100, 11}
	for i := 0; i < n; i++ {
		m := &fakeSub{id: fmt.Sprintf("big-%d", i)}
		members = append(members, m)
		t.Subscribe(big, m)
		ops = append(ops, vlib.App("TSubQ", ssidTerm(big), vlib.N(uint64(hash.OfString(m.id)))))
	}
	look := func(q message.Ssid, times int) {
		for i := 0; i < times; i++ {
			ops = append(ops, vlib.App("TLookup", ssidTerm(q), lookupTerm(t, q)))
		}
	}
	look(message.Ssid{7, 11}, 3)
	lone := &fakeSub{id: "lone"}
	other := message.Ssid{7, share, 101, 12}
	t.Subscribe(other, lone)
	ops = append(ops, vlib.App("TSub", ssidTerm(other), vlib.N(uint64(hash.OfString(lone.id))), obsTerm(t)))
	look(message.Ssid{7, 12}, 4)
	look(message.Ssid{7, 11}, 2)
	for _, m := range members {
		t.Unsubscribe(big, m)
		ops = append(ops, vlib.App("TUnsubQ", ssidTerm(big), vlib.N(uint64(hash.OfString(m.id)))))
	}
	look(message.Ssid{7, 12}, 4)
	look(message.Ssid{7, 11}, 3)
	again := &fakeSub{id: "again"}
	t.Subscribe(big, again)
	ops = append(ops, vlib.App("TSub", ssidTerm(big), vlib.N(uint64(hash.OfString(again.id))), obsTerm(t)))
	look(message.Ssid{7, 11}, 4)
	look(message.Ssid{7, 12}, 2)
	t.Unsubscribe(big, again)
	ops = append(ops, vlib.App("TUnsub", ssidTerm(big), vlib.N(uint64(hash.OfString(again.id))), obsTerm(t)))
	t.Unsubscribe(other, lone)
	ops = append(ops, vlib.App("TUnsub", ssidTerm(other), vlib.N(uint64(hash.OfString(lone.id))), obsTerm(t)))
	return vlib.App("CTrie", vlib.Bool(mqtt), vlib.List(ops)), map[string]interface{}{"mqtt": mqtt, "ops": len(ops), "share_group_members": n}
}

func main() {
	cfg = vlib.ParseFlags()
	for i := 0; i < 6; i++ {
		subs = append(subs, &fakeSub{id: fmt.Sprintf("conn-%d", i)})
	}
	sh := vlib.NewShards(cfg.Out, "C01", "From Emitter Require Import Lib.Base Model.Trie Check.C01.", "case", "check", 30)
	r := cfg.Rng
	for i := 0; i < 300*cfg.Mult; i++ {
		mqtt := i%2 == 1
		t, h := history(mqtt, 10+r.Intn(35), i%3 != 0)
		cl := "emitter-mode"
		if mqtt {
			cl = "mqtt-mode"
		}
		sh.Add(t, h, cl, true)
	}
	for i := 0; i < 10*cfg.Mult; i++ {
		t, h := concurrent(i%2 == 1)
		sh.Add(t, h, "concurrent", true)
	}
	for i := 0; i < 12*cfg.Mult; i++ {
		t, h := contended(i%2 == 1)
		sh.Add(t, h, "concurrent-contended", true)
	}
	for i, n := range []int{40, 128, 129, 200, 300} {
		t, h := bigShare(i%2 == 1, n)
		sh.Add(t, h, "big-share-group", true)
		t, h = bigShare(i%2 == 0, n)
		sh.Add(t, h, "big-share-group", true)
	}
	sh.Finish("histories of subscribe / unsubscribe / lookup over 6 subscribers, contract 7 (rarely 8), levels {a,b,c,+,#} depth 0-3, share groups g0-g2, duplicates and repeated removals on purpose, both matcher modes, closing removal of everything held; after every operation Count, node count and the stored pairs; concurrent: 6 goroutines x 30 operations, final state vs model; share groups of 40-300 members looked up, dissolved and followed by lookups of lone members of other groups; non-trivial: all")
}
