(* Model of internal/provider/storage (ssd.go / memory.go lookup and Query, storage.go window) and
   of message.Frame.Limit / ID.HasPrefix / ID.Match.  The key-value engine (badger) is an ordered
   map from ids (byte strings, lexicographic order) to encoded messages with an expiry time; expired
   entries are invisible.  No proofs here. *)
From Emitter Require Import Lib.Base Model.MsgCodec.

Record entry := Entry { e_msg : msg; e_expires : Z }.     (* key = m_id (e_msg) *)

Definition store := list entry.      (* sorted by key, no duplicate keys *)

Fixpoint store_put (s : store) (e : entry) : store :=
  match s with
  | [] => [e]
  | x :: r =>
    if bytes_eqb (m_id (e_msg x)) (m_id (e_msg e)) then e :: r
    else if lex_ltb (m_id (e_msg e)) (m_id (e_msg x)) then e :: s
    else x :: store_put r e
  end.

(* SSD.Store: the retained marker becomes the configured retention; ExpiresAt = id time + ttl *)
Definition retainedTTL : N := 4294967295.
Definition store_msg (retain : N) (s : store) (m : msg) : store :=
  let ttl := if m_ttl m =? retainedTTL then retain else m_ttl m in
  let m' := Msg (m_id m) (m_chan m) (m_payload m) ttl in
  match id_time (m_id m) with
  | Ok t => store_put s (Entry m' (t + Z.of_N ttl))
  | _ => s     (* a message id shorter than 8 bytes panics in Expires(): not produced by the broker *)
  end.

Definition visible (now : Z) (e : entry) : bool := (now <? e_expires e)%Z.

(* ID.HasPrefix(ssid, cutoff) and ID.Match(query, from, until) *)
Definition wildcardW : N := 1815237614.
Definition multiWildcardW : N := 4285801373.

Definition id_has_prefix (id : bytes) (ssid : list N) (cutoff : Z) : bool :=
  match rd32_at id 0, id_time id, ssid with
  | Some p, Ok t, s0 :: s1 :: _ => (p =? N.lxor s0 s1) && (cutoff <=? t)%Z
  | _, _, _ => false
  end.

Fixpoint words_match (query : list N) (idw : list N) : bool :=
  match query, idw with
  | [], _ => true
  | q :: qr, w :: wr => ((q =? w) || (q =? wildcardW) || (q =? multiWildcardW)) && words_match qr wr
  | _ :: _, [] => false
  end.

Definition id_match (id : bytes) (query : list N) (from until : Z) : bool :=
  match id_ssid id, id_time id with
  | Ok w, Ok t => (len query <=? len w) && words_match query w && (from <=? t)%Z && (t <=? until)%Z
  | _, _ => false
  end.

Definition maxMessageSize : N := 65536.
Definition maxTime : Z := 3029529600.

(* storage.window *)
Definition window (from until : Z) : Z * Z := (from, if (until =? 0)%Z then maxTime else until).

(* the iteration of SSD.lookup over the visible entries from the seek position on *)
Fixpoint scan (es : list entry) (ssid : list N) (from until : Z) (limit : N) (acc : list msg) (size : N) : list msg :=
  match es with
  | [] => rev acc
  | e :: r =>
    let id := m_id (e_msg e) in
    if negb (id_has_prefix id ssid from) || negb (len acc <? limit) then rev acc
    else if negb (id_match id ssid from until) then scan r ssid from until limit acc size
    else
      let own := len (m_payload (e_msg e)) + len id + len (m_chan (e_msg e)) in
      if maxMessageSize <? own then scan r ssid from until limit acc size   (* can be in no answer: skipped *)
      else
        let size' := size + own in
        if maxMessageSize <? size' then rev acc
        else scan r ssid from until limit (e_msg e :: acc) size'
  end.

(* Seek(k): the entries with key >= k *)
Fixpoint seek (es : list entry) (k : bytes) : list entry :=
  match es with
  | [] => []
  | e :: r => if lex_ltb (m_id (e_msg e)) k then seek r k else es
  end.

(* Seek(start); Next() only when the iterator stands on [start] itself (its message may have
   expired since it was returned) *)
Definition seek_next (es : list entry) (start : bytes) : list entry :=
  match seek es start with
  | e :: r => if bytes_eqb (m_id (e_msg e)) start then r else e :: r
  | [] => []
  end.

Definition lookup (s : store) (now : Z) (ssid : list N) (from until : Z) (start : bytes) (limit : N) : list msg :=
  let vis := filter (visible now) s in
  let from_pos :=
    match start with
    | [] => match new_prefix ssid until with Ok p => seek vis p | _ => [] end
    | _ => seek_next vis start
    end in
  scan from_pos ssid from until limit [] 0.

(* Frame.Limit(n): sort by time (seconds, ascending), keep the last n.  The sort is not stable in
   Go; the model uses a stable insertion sort and the correspondence compares up to the order of
   messages carrying the same second. *)
Definition msg_time (m : msg) : Z := match id_time (m_id m) with Ok t => t | _ => 0%Z end.
Fixpoint insert_by_time (m : msg) (l : list msg) : list msg :=
  match l with
  | [] => [m]
  | x :: r => if (msg_time m <? msg_time x)%Z then m :: l else x :: insert_by_time m r
  end.
Definition sort_by_time (l : list msg) : list msg := fold_left (fun acc m => insert_by_time m acc) l [].
Definition frame_limit (l : list msg) (n : N) : list msg :=
  let s := sort_by_time l in
  if n <? len s then drop (len s - n) s else s.

(* Storage.Query without the cluster survey *)
Definition query (s : store) (now : Z) (ssid : list N) (from until : Z) (start : bytes) (limit : N) : list msg :=
  let '(t0, t1) := window from until in
  frame_limit (lookup s now ssid t0 t1 start limit) limit.
