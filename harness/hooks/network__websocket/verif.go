//go:build verif

package websocket

import "net"

// VerifNewConn builds the transport over a supplied frame source.
func VerifNewConn(ws websocketConn) net.Conn { return newConn(ws) }
