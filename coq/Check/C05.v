(* Correspondence cases of C05. *)
From stdpp Require Import gmap.
From Coq Require Import ZArith List.
From Emitter Require Import Lib.Base Model.Lww Model.Cluster Model.ClusterSched.
Import ListNotations.
Local Open Scope N_scope.

Inductive obs := Obs (remote : list (N * N)) (dump : list (N * Z * Z)) (members : list N) (counters : list (N * N * N)).
Inductive pubobs := Pub (b s : N) (recv : list (N * N)).
(* [sched] = number of events of the schedule proper; the rest is the quiescence phase *)
Inductive case := CCluster (ns : list N) (sched : N) (evs : list (ev * list obs)) (pubs : list pubobs).

Definition sub_of {A} (eq : A -> A -> bool) (a b : list A) : bool := forallb (fun x => existsb (eq x) b) a.
Definition set_eq {A} (eq : A -> A -> bool) (a b : list A) : bool := sub_of eq a b && sub_of eq b a.
Definition p_eqb (a b : N * N) : bool := (fst a =? fst b) && (snd a =? snd b).
Definition t_eqb (a b : N * N * N) : bool := p_eqb (fst a) (fst b) && (snd a =? snd b).
Definition d_eqb (a b : N * Z * Z) : bool := (fst (fst a) =? fst (fst b)) && Z.eqb (snd (fst a)) (snd (fst b)) && Z.eqb (snd a) (snd b).

(* the subscription entries of a model state, clients only (conn 999 = unknown to the harness) *)
Definition model_dump (st : replica) : list (N * Z * Z) :=
  map (fun ke => (fst ke, e_add (snd ke), e_del (snd ke))) (map_to_list st).
Definition model_counters (b : broker) : list (N * N * N) :=
  flat_map (fun m => map (fun c => (fst m, fst c, snd c)) (snd m)) (bk_members b).

Definition obs_matches (b : broker) (o : obs) : bool :=
  match o with
  | Obs remote dump members counters =>
    set_eq p_eqb (bk_remote b) remote
    && set_eq d_eqb (model_dump (bk_state b)) (filter (fun x => negb (k_conn (fst (fst x)) =? 999)) dump)
    && set_eq N.eqb (map fst (bk_members b)) members
    && set_eq t_eqb (model_counters b) counters
  end.

Definition nodup_pairs (l : list (N * N)) : bool :=
  (fix go (l : list (N * N)) := match l with [] => true | x :: r => negb (existsb (p_eqb x) r) && go r end) l.

Record acc := Acc { a_w : world; a_ok : bool; a_i : N; a_flags : bool * bool * bool; a_last : list obs }.

Definition check (c : case) : N :=
  match c with
  | CCluster ns sched evs pubs =>
    let a := fold_left (fun a x =>
                          let w' := step (a_w a) (fst x) in
                          let ok' := a_ok a && (w_sensitive w' || forallb (fun bo => obs_matches (fst bo) (snd bo)) (combine (w_brokers w') (snd x))) in
                          Acc w' ok' (a_i a + 1)
                              (if a_i a + 1 =? sched then (w_coalesced w', w_offline w', w_fullstate w') else a_flags a)
                              (snd x))
                       evs (Acc (world0 ns) true 0 (false, false, false) []) in
    let w := a_w a in
    (* the property at quiescence, on what the implementation showed: every broker's remote entries
       are exactly the brokers with a live local subscriber, and every publish reached every live
       subscriber of its channel once *)
    let truth_ok :=
      forallb (fun bo => match snd bo with Obs remote _ _ _ => set_eq p_eqb remote (truth_remote w (bk_name (fst bo))) end)
              (combine (w_brokers w) (a_last a))
      && forallb (fun p => match p with Pub b s recv => nodup_pairs recv && set_eq p_eqb recv (live_subscribers w s) end) pubs in
    let model_pubs := forallb (fun p => match p with Pub b s recv => set_eq p_eqb recv (receivers w b s) && (len recv =? len (receivers w b s)) end) pubs in
    if w_sensitive w then 0     (* the implementation iterates a Go map here: outcome not determined *)
    else
      bit (a_ok a && model_pubs && quiet w) 1
      (* at quiescence the routing differs from the ground truth *)
      |+| bit truth_ok 2
  end.

(* debugging aid: index of the first event after which a broker differs *)
Definition first_diff (c : case) : option (N * N) :=
  match c with
  | CCluster ns sched evs pubs =>
    (fix go (w : world) (l : list (ev * list obs)) (i : N) :=
       match l with
       | [] => None
       | x :: r =>
         let w' := step w (fst x) in
         match find (fun bo => negb (obs_matches (fst bo) (snd bo))) (combine (w_brokers w') (snd x)) with
         | Some bo => Some (i, bk_name (fst bo))
         | None => go w' r (i + 1)
         end
       end) (world0 ns) evs 0
  end.

(* the hypotheses of the quiescence theorem (Properties/C05.v: C05_quiescent_routing_ok,
   C05_quiescent_delivery_exactly_once), evaluated on the schedule the harness replayed on the real
   brokers: distinct broker names, events on brokers of the cluster, strictly increasing clock readings
   per broker, no pair left separated, nothing left on any link *)
Definition within (c : case) : bool :=
  match c with
  | CCluster ns sched evs pubs =>
    let es := map fst evs in
    nodupb ns && sched_okb ns ghost0 es && all_upb ns (grun es) && quiet (run ns es)
  end.
