(* C20: RawURL base64 - the encoder is inverted by the pure decoder, and the broker's in-place
   decodeKey (dst == src) computes the pure decoder. *)
From Emitter Require Import Lib.Base Lib.Sweep Lib.Bits Model.MsgCodec Model.Cipher Proofs.ListFacts.
From Coq Require Import Lia ZifyN ZifyNat ZifyBool.
Set Default Timeout 120.

Local Ltac split_andb :=
  repeat match goal with
         | H : _ && _ = true |- _ => apply andb_prop in H; destruct H
         end.

Lemma dec_enc_char s : s < 64 -> dec_char (enc_char s) = s.
Proof.
  intros H. apply N.eqb_eq.
  apply (sweep (fun s => dec_char (enc_char s) =? s) 64); [vm_compute; reflexivity | exact H].
Qed.

Lemma enc_char_in_alphabet s : s < 64 -> dec_char (enc_char s) <> 255.
Proof. intros H. rewrite dec_enc_char by exact H. lia. Qed.

Lemma dec_char_range c : dec_char c = 255 \/ dec_char c < 64.
Proof.
  unfold dec_char.
  destruct ((65 <=? c) && (c <=? 90)) eqn:E1; [right; lia|].
  destruct ((97 <=? c) && (c <=? 122)) eqn:E2; [right; lia|].
  destruct ((48 <=? c) && (c <=? 57)) eqn:E3; [right; lia|].
  destruct (c =? 45); [right; lia|]. destruct (c =? 95); [right; lia|]. left. reflexivity.
Qed.

Ltac Zify.zify_post_hook ::= Z.div_mod_to_equations.
Lemma group_arith a b c :
  a < 256 -> b < 256 -> c < 256 ->
  let x0 := a / 4 in let x1 := (a mod 4) * 16 + b / 16 in
  let x2 := (b mod 16) * 4 + c / 64 in let x3 := c mod 64 in
  x0 < 64 /\ x1 < 64 /\ x2 < 64 /\ x3 < 64
  /\ x0 * 4 + x1 / 16 = a /\ (x1 mod 16) * 16 + x2 / 4 = b /\ (x2 mod 4) * 64 + x3 = c.
Proof. intros Ha Hb Hc. cbv zeta. repeat split; lia. Qed.

(* the three bytes the decoder extracts from a group value *)
Lemma group_bytes x0 x1 x2 x3 :
  x0 < 64 -> x1 < 64 -> x2 < 64 -> x3 < 64 ->
  let v := group_val x0 x1 x2 x3 in
  N.shiftr v 16 mod 256 = x0 * 4 + x1 / 16
  /\ N.shiftr v 8 mod 256 = (x1 mod 16) * 16 + x2 / 4
  /\ v mod 256 = (x2 mod 4) * 64 + x3.
Proof.
  intros H0 H1 H2 H3. cbv zeta. unfold group_val. rewrite !N.shiftl_mul_pow2.
  change (2 ^ 18) with 262144. change (2 ^ 12) with 4096. change (2 ^ 6) with 64.
  rewrite (lor_disjoint_add (x0 * 262144) (x1 * 4096) 18);
    [| change (2 ^ 18) with 262144; lia | change (2 ^ 18) with 262144; lia].
  rewrite (lor_disjoint_add (x0 * 262144 + x1 * 4096) (x2 * 64) 12);
    [| change (2 ^ 12) with 4096; lia | change (2 ^ 12) with 4096; lia].
  rewrite (lor_disjoint_add (x0 * 262144 + x1 * 4096 + x2 * 64) x3 6);
    [| change (2 ^ 6) with 64; lia | change (2 ^ 6) with 64; lia].
  rewrite !N.shiftr_div_pow2. change (2 ^ 16) with 65536. change (2 ^ 8) with 256.
  repeat split; lia.
Qed.
Ltac Zify.zify_post_hook ::= idtac.

(* ---- encoder / pure decoder ---- *)
Lemma b64_roundtrip : forall n x,
  length x = (3 * n)%nat -> bytes_ok x = true -> b64_decode4 (b64_encode x) = Some x.
Proof.
  induction n as [|n IH]; intros x L B.
  - destruct x; [reflexivity | cbn in L; lia].
  - destruct x as [|a [|b [|c r]]]; cbn in L; try lia.
    unfold bytes_ok in B. cbn [forallb] in B. unfold byte_ok in B. split_andb.
    cbn [b64_encode b64_decode4].
    destruct (group_arith a b c ltac:(lia) ltac:(lia) ltac:(lia)) as (G0 & G1 & G2 & G3 & E0 & E1 & E2).
    cbv zeta in *.
    rewrite !dec_enc_char by assumption.
    assert (F0 : (a / 4 =? 255) = false) by lia. assert (F1 : (a mod 4 * 16 + b / 16 =? 255) = false) by lia.
    assert (F2 : (b mod 16 * 4 + c / 64 =? 255) = false) by lia. assert (F3 : (c mod 64 =? 255) = false) by lia.
    rewrite F0, F1, F2, F3. cbn [orb].
    rewrite IH by (try lia; assumption). rewrite E0, E1, E2. reflexivity.
Qed.

Lemma b64_encode_length : forall n x, length x = (3 * n)%nat -> length (b64_encode x) = (4 * n)%nat.
Proof.
  induction n as [|n IH]; intros x L.
  - destruct x; [reflexivity | cbn in L; lia].
  - destruct x as [|a [|b [|c r]]]; cbn in L; try lia. cbn [b64_encode length]. rewrite (IH r) by lia. lia.
Qed.

Ltac Zify.zify_post_hook ::= Z.div_mod_to_equations.
Lemma b64_encode_alphabet : forall n x,
  length x = (3 * n)%nat -> bytes_ok x = true -> forallb (fun c => negb (dec_char c =? 255)) (b64_encode x) = true.
Proof.
  induction n as [|n IH]; intros x L B.
  - destruct x; [reflexivity | cbn in L; lia].
  - destruct x as [|a [|b [|c r]]]; cbn in L; try lia.
    unfold bytes_ok in B. cbn [forallb] in B. unfold byte_ok in B. split_andb.
    cbn [b64_encode forallb].
    rewrite !dec_enc_char by lia.
    rewrite (IH r) by (try lia; assumption).
    assert (F0 : (a / 4 =? 255) = false) by lia. assert (F1 : (a mod 4 * 16 + b / 16 =? 255) = false) by lia.
    assert (F2 : (b mod 16 * 4 + c / 64 =? 255) = false) by lia. assert (F3 : (c mod 64 =? 255) = false) by lia.
    rewrite F0, F1, F2, F3. reflexivity.
Qed.
Ltac Zify.zify_post_hook ::= idtac.

(* ---- the in-place decoder ---- *)
Lemma get_at_app_r (P X : bytes) i : get_at (P ++ X) (length P + i) = get_at X i.
Proof. unfold get_at. rewrite app_nth2 by lia. f_equal. lia. Qed.

Lemma set_at_app_r : forall (P X : bytes) i v, set_at (P ++ X) (length P + i) v = P ++ set_at X i v.
Proof.
  induction P as [|p P IH]; intros X i v; [reflexivity|]. cbn [app length Nat.add set_at]. rewrite IH. reflexivity.
Qed.

Lemma three_writes (P X : bytes) v0 v1 v2 :
  set_at (set_at (set_at (P ++ X) (length P + 2) v2) (length P + 1) v1) (length P) v0
  = P ++ set_at (set_at (set_at X 2 v2) 1 v1) 0 v0.
Proof.
  rewrite (set_at_app_r P X 2 v2). rewrite (set_at_app_r P _ 1 v1).
  pose proof (set_at_app_r P (set_at (set_at X 2 v2) 1 v1) 0 v0) as H. rewrite Nat.add_0_r in H. exact H.
Qed.

Lemma first3_replace (Q R : bytes) v0 v1 v2 :
  (3 <= length Q)%nat ->
  set_at (set_at (set_at (Q ++ R) 2 v2) 1 v1) 0 v0 = [v0; v1; v2] ++ skipn 3 Q ++ R.
Proof.
  intros H. destruct Q as [|q0 [|q1 [|q2 Q]]]; cbn in H; try lia. reflexivity.
Qed.

Lemma decode_loop_spec : forall n fuel (P J R : bytes),
  length R = (4 * n)%nat -> (n < fuel)%nat ->
  match b64_decode4 R with
  | Some d => exists J', decode_key_loop fuel (P ++ J ++ R) (length P + length J) (length P) (length P)
                         = Ok (P ++ d ++ J', (length P + length d)%nat)
  | None => decode_key_loop fuel (P ++ J ++ R) (length P + length J) (length P) (length P) = Err KCorrupt
  end.
Proof.
  induction n as [|n IH]; intros fuel P J R L F.
  - destruct R; [|cbn in L; lia]. cbn [b64_decode4]. exists J. destruct fuel; [lia|].
    cbn [decode_key_loop]. rewrite !app_nil_r, app_length.
    assert (E : Nat.leb (length P + length J) (length P + length J) = true) by (apply Nat.leb_le; lia).
    rewrite E. cbn [length app]. rewrite Nat.add_0_r. reflexivity.
  - destruct R as [|c0 [|c1 [|c2 [|c3 R']]]]; cbn in L; try lia.
    destruct fuel as [|fuel]; [lia|].
    cbn [b64_decode4 decode_key_loop].
    set (buf := P ++ J ++ c0 :: c1 :: c2 :: c3 :: R').
    assert (Lb : length buf = (length P + length J + 4 + length R')%nat).
    { subst buf. rewrite !app_length. cbn [length]. lia. }
    assert (E0 : Nat.leb (length buf) (length P + length J) = false) by (apply Nat.leb_gt; lia).
    rewrite E0.
    assert (G : forall i, get_at buf (length P + length J + i) = get_at (c0 :: c1 :: c2 :: c3 :: R') i).
    { intros i. subst buf. rewrite <- Nat.add_assoc, get_at_app_r.
      rewrite get_at_app_r. reflexivity. }
    pose proof (G 0%nat) as G0. rewrite Nat.add_0_r in G0. rewrite G0, (G 1%nat), (G 2%nat), (G 3%nat).
    unfold get_at. cbn [nth].
    assert (A1 : Nat.eqb (length buf - (length P + length J)) 1 = false) by (apply Nat.eqb_neq; lia).
    assert (A2 : Nat.eqb (length buf - (length P + length J)) 2 = false) by (apply Nat.eqb_neq; lia).
    assert (A3 : Nat.eqb (length buf - (length P + length J)) 3 = false) by (apply Nat.eqb_neq; lia).
    rewrite A1, A2, A3.
    destruct (dec_char_range c0) as [D0|D0]; [rewrite D0; reflexivity|].
    assert (N0 : (dec_char c0 =? 255) = false) by lia. rewrite N0.
    destruct (dec_char_range c1) as [D1|D1]; [rewrite D1; cbn [N.eqb Pos.eqb orb]; rewrite ?orb_true_r; reflexivity|].
    assert (N1 : (dec_char c1 =? 255) = false) by lia. rewrite N1.
    destruct (dec_char_range c2) as [D2|D2]; [rewrite D2; cbn [N.eqb Pos.eqb orb]; rewrite ?orb_true_r; reflexivity|].
    assert (N2 : (dec_char c2 =? 255) = false) by lia. rewrite N2.
    destruct (dec_char_range c3) as [D3|D3]; [rewrite D3; cbn [N.eqb Pos.eqb orb]; rewrite ?orb_true_r; reflexivity|].
    assert (N3 : (dec_char c3 =? 255) = false) by lia. rewrite N3. cbn [orb].
    destruct (group_bytes _ _ _ _ D0 D1 D2 D3) as (V0 & V1 & V2). cbv zeta in V0, V1, V2.
    rewrite V0, V1, V2.
    set (v0 := dec_char c0 * 4 + dec_char c1 / 16).
    set (v1 := dec_char c1 mod 16 * 16 + dec_char c2 / 4).
    set (v2 := dec_char c2 mod 4 * 64 + dec_char c3).
    (* the three writes land in J ++ [c0;c1;c2;c3], all of which has been read *)
    assert (W : set_at (set_at (set_at buf (length P + 2) v2) (length P + 1) v1) (length P) v0
                = (P ++ [v0; v1; v2]) ++ skipn 3 (J ++ [c0; c1; c2; c3]) ++ R').
    { subst buf.
      replace (J ++ c0 :: c1 :: c2 :: c3 :: R') with ((J ++ [c0; c1; c2; c3]) ++ R') by (rewrite <- app_assoc; reflexivity).
      rewrite three_writes.
      rewrite first3_replace by (rewrite app_length; cbn [length]; lia).
      rewrite <- !app_assoc. reflexivity. }
    rewrite W.
    set (P' := P ++ [v0; v1; v2]). set (J' := skipn 3 (J ++ [c0; c1; c2; c3])).
    assert (LP : length P' = (length P + 3)%nat) by (subst P'; rewrite app_length; reflexivity).
    assert (LJ : length J' = (length J + 1)%nat).
    { subst J'. rewrite skipn_length, app_length. cbn [length]. lia. }
    replace (length P + length J + 4)%nat with (length P' + length J')%nat by lia.
    replace (length P + 3)%nat with (length P') by lia.
    specialize (IH fuel P' J' R' ltac:(lia) ltac:(lia)).
    destruct (b64_decode4 R') as [d|].
    + destruct IH as [J'' IH]. exists J''. rewrite IH. subst P'. rewrite <- !app_assoc. cbn [app length].
      f_equal. f_equal. rewrite app_length. cbn [length]. lia.
    + exact IH.
Qed.

(* decodeKey with aliased source and destination equals the pure decoder on whole groups *)
Theorem decode_key_pure s n :
  length s = (4 * n)%nat ->
  decode_key s = match b64_decode4 s with Some d => Ok d | None => Err KCorrupt end.
Proof.
  intros L. unfold decode_key.
  pose proof (decode_loop_spec n (S (length s)) [] [] s L ltac:(lia)) as H. cbn [app length Nat.add] in H.
  destruct (b64_decode4 s) as [d|].
  - destruct H as [J' H]. rewrite H. rewrite firstn_app, Nat.sub_diag, firstn_all. cbn [firstn]. rewrite app_nil_r. reflexivity.
  - rewrite H. reflexivity.
Qed.
