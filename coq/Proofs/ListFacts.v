(* Facts about len / take / drop / rep used by all codec proofs. *)
From Emitter Require Import Lib.Base.
From Coq Require Import Lia.

Lemma len_nil {A} : len (@nil A) = 0.
Proof. reflexivity. Qed.

Lemma len_cons {A} (x : A) l : len (x :: l) = 1 + len l.
Proof. unfold len. cbn [length]. lia. Qed.

Lemma len_app {A} (a b : list A) : len (a ++ b) = len a + len b.
Proof. unfold len. rewrite app_length. lia. Qed.

Lemma take_len_app {A} (a b : list A) : take (len a) (a ++ b) = a.
Proof.
  unfold take, len. rewrite Nat2N.id.
  rewrite firstn_app, Nat.sub_diag, firstn_all. cbn [firstn]. apply app_nil_r.
Qed.

Lemma drop_len_app {A} (a b : list A) : drop (len a) (a ++ b) = b.
Proof.
  unfold drop, len. rewrite Nat2N.id.
  rewrite skipn_app, Nat.sub_diag, skipn_all. reflexivity.
Qed.

Lemma take_len {A} (a : list A) : take (len a) a = a.
Proof. rewrite <- (app_nil_r a) at 2. apply take_len_app. Qed.

Lemma drop_len {A} (a : list A) : drop (len a) a = [].
Proof. rewrite <- (app_nil_r a) at 2. apply drop_len_app. Qed.

Lemma len_zero_nil {A} (a : list A) : len a = 0 -> a = [].
Proof. destruct a; [reflexivity|]. rewrite len_cons. lia. Qed.

Lemma len_rep n b : len (rep n b) = n.
Proof. unfold len, rep. rewrite repeat_length. lia. Qed.

Lemma take_drop {A} n (l : list A) : take n l ++ drop n l = l.
Proof. apply firstn_skipn. Qed.

Lemma len_take {A} n (l : list A) : n <= len l -> len (take n l) = n.
Proof. unfold len, take. intros H. rewrite firstn_length. lia. Qed.

Lemma len_drop {A} n (l : list A) : len (drop n l) = len l - n.
Proof. unfold len, drop. rewrite skipn_length. lia. Qed.

Lemma bytes_ok_app a b : bytes_ok (a ++ b) = bytes_ok a && bytes_ok b.
Proof. unfold bytes_ok. apply forallb_app. Qed.

Lemma list_eqb_refl {A} (eq : A -> A -> bool) :
  (forall x, eq x x = true) -> forall l, list_eqb eq l l = true.
Proof. intros H l. induction l as [|x l IH]; cbn; [reflexivity|]. rewrite H, IH. reflexivity. Qed.

Lemma list_eqb_eq {A} (eq : A -> A -> bool) :
  (forall x y, eq x y = true -> x = y) -> forall a b, list_eqb eq a b = true -> a = b.
Proof.
  intros H a. induction a as [|x a IH]; intros [|y b] E; cbn in E; try discriminate; [reflexivity|].
  apply andb_prop in E. destruct E as [E1 E2]. f_equal; [apply H; exact E1 | apply IH; exact E2].
Qed.

Lemma bytes_eqb_eq a b : bytes_eqb a b = true -> a = b.
Proof. apply list_eqb_eq. intros x y. apply N.eqb_eq. Qed.

Lemma ok_inj {E A} (a b : A) : @Ok E A a = Ok b -> a = b.
Proof. intros H. injection H. auto. Qed.

Lemma some_inj {A} (a b : A) : Some a = Some b -> a = b.
Proof. intros H. injection H. auto. Qed.

Lemma skipn_skipn' {A} : forall a b (l : list A), skipn b (skipn a l) = skipn (a + b) l.
Proof.
  induction a as [|a IH]; intros b l; [reflexivity|].
  destruct l as [|x l]; [rewrite !skipn_nil; reflexivity|]. cbn [skipn Nat.add]. apply IH.
Qed.

Lemma drop_drop {A} a b (l : list A) : drop b (drop a l) = drop (a + b) l.
Proof. unfold drop. rewrite skipn_skipn'. f_equal. lia. Qed.
