(* Model of internal/message/subtrie.go: the subscription trie with association-list children
   (std++ gmap cannot be nested in an inductive in std++ 1.8).  Subscribers are identified by the
   32-bit hash of their id, as in message.Subscribers.  No proofs here. *)
From Emitter Require Import Lib.Base.

Fixpoint aget {A} (k : N) (l : list (N * A)) : option A :=
  match l with
  | [] => None
  | (k', v) :: l' => if k =? k' then Some v else aget k l'
  end.
Fixpoint aput {A} (k : N) (v : A) (l : list (N * A)) : list (N * A) :=
  match l with
  | [] => [(k, v)]
  | (k', v') :: l' => if k =? k' then (k, v) :: l' else (k', v') :: aput k v l'
  end.
Fixpoint adel {A} (k : N) (l : list (N * A)) : list (N * A) :=
  match l with
  | [] => []
  | (k', v') :: l' => if k =? k' then l' else (k', v') :: adel k l'
  end.

Inductive node := Node (subs : list N) (kids : list (N * node)).
Definition nsubs (n : node) := match n with Node s _ => s end.
Definition nkids (n : node) := match n with Node _ k => k end.
Definition empty_node := Node [] [].

Definition mem (s : N) (l : list N) : bool := existsb (N.eqb s) l.
Fixpoint add_unique (s : N) (l : list N) : list N :=
  match l with
  | [] => [s]
  | x :: l' => if s =? x then l else x :: add_unique s l'
  end.
Fixpoint remove1 (s : N) (l : list N) : list N :=
  match l with
  | [] => []
  | x :: l' => if s =? x then l' else x :: remove1 s l'
  end.

(* magic words of sub.go *)
Definition wildcard : N := 1815237614.
Definition multiWildcard : N := 4285801373.
Definition share : N := 1480642916.

(* Trie.Subscribe: walk / create, AddUnique at the end; the flag says whether count is bumped *)
Fixpoint subscribe_node (ssid : list N) (s : N) (n : node) : node * bool :=
  match ssid with
  | [] => (Node (add_unique s (nsubs n)) (nkids n), negb (mem s (nsubs n)))
  | w :: rest =>
    let child := match aget w (nkids n) with Some c => c | None => empty_node end in
    let (c', added) := subscribe_node rest s child in
    (Node (nsubs n) (aput w c' (nkids n)), added)
  end.


(* Trie.Unsubscribe: None when the path does not exist (early return).  Result: new node, whether
   the subscriber was removed (count--), and the "orphan me" signal of node.orphan(): raised at
   the target node when it is left without subscribers and children, and propagated upward by a
   parent that has become empty too. *)
Fixpoint unsubscribe_node (ssid : list N) (s : N) (n : node) : option (node * bool * bool) :=
  match ssid with
  | [] =>
    let subs' := remove1 s (nsubs n) in
    Some (Node subs' (nkids n), mem s (nsubs n), is_nil subs' && is_nil (nkids n))
  | w :: rest =>
    match aget w (nkids n) with
    | None => None
    | Some c =>
      match unsubscribe_node rest s c with
      | None => None
      | Some (c', removed, orphan) =>
        if orphan then
          let kids' := adel w (nkids n) in
          Some (Node (nsubs n) kids', removed, is_nil (nsubs n) && is_nil kids')
        else Some (Node (nsubs n) (aput w c' (nkids n)), removed, false)
      end
    end
  end.

Record trie := Trie { t_root : node; t_count : Z }.
Definition trie0 := Trie empty_node 0%Z.

Definition subscribe (ssid : list N) (s : N) (t : trie) : trie :=
  let (r, added) := subscribe_node ssid s (t_root t) in
  Trie r (if added then t_count t + 1 else t_count t)%Z.
Definition unsubscribe (ssid : list N) (s : N) (t : trie) : trie :=
  match unsubscribe_node ssid s (t_root t) with
  | None => t
  | Some (r, removed, _) => Trie r (if removed then t_count t - 1 else t_count t)%Z   (* the root has no parent *)
  end.

(* lookupEmitter / lookupMqtt (the results are accumulated in a set: duplicates are merged) *)
Fixpoint lookup_em (q : list N) (n : node) : list N :=
  nsubs n ++
  match q with
  | [] => []
  | w :: rest =>
    (match aget w (nkids n) with Some c => lookup_em rest c | None => [] end)
    ++ (match aget wildcard (nkids n) with Some c => lookup_em rest c | None => [] end)
  end.

Fixpoint lookup_mq (q : list N) (n : node) : list N :=
  match q with
  | [] => nsubs n
  | w :: rest =>
    (match aget w (nkids n) with Some c => lookup_mq rest c | None => [] end)
    ++ (match aget wildcard (nkids n) with Some c => lookup_mq rest c | None => [] end)
    ++ (match aget multiWildcard (nkids n) with Some c => nsubs c | None => [] end)
  end.

Definition lookup_raw (mqtt : bool) (q : list N) (n : node) : list N :=
  if mqtt then lookup_mq q n else lookup_em q n.

Fixpoint dedup (l : list N) : list N :=
  match l with
  | [] => []
  | x :: r => if mem x r then dedup r else x :: dedup r
  end.

(* the share groups of a query: for every child of [contract; $share], the members matching *)
Definition share_groups (mqtt : bool) (q : list N) (root : node) : list (list N) :=
  match q with
  | [] => []
  | c :: rest =>
    match aget c (nkids root) with
    | None => []
    | Some cn =>
      match aget share (nkids cn) with
      | None => []
      | Some sn => map (fun kc => dedup (lookup_raw mqtt rest (snd kc))) (nkids sn)
      end
    end
  end.

(* Trie.Lookup with the pseudo-random picks as an oracle: picks[i] selects a member of the i-th
   non-empty group (Subscribers.Random indexes the group's members) *)
Fixpoint pick_members (groups : list (list N)) (picks : list nat) : list N :=
  match groups with
  | [] => []
  | g :: gs =>
    match g with
    | [] => pick_members gs picks
    | x :: _ => match picks with
                | [] => x :: pick_members gs []
                | p :: ps => nth (p mod length g) g x :: pick_members gs ps
                end
    end
  end.

Definition lookup (mqtt : bool) (q : list N) (t : trie) (picks : list nat) : list N :=
  dedup (lookup_raw mqtt q (t_root t) ++ pick_members (share_groups mqtt q (t_root t)) picks).

(* observables of the dump hook: number of nodes, stored (filter, subscriber) pairs *)
Fixpoint node_count (n : node) : N :=
  match n with
  | Node _ ks => 1 + (fix go (l : list (N * node)) : N :=
                        match l with [] => 0 | kc :: l' => node_count (snd kc) + go l' end) ks
  end.

Fixpoint pairs (n : node) : list (list N * N) :=
  match n with
  | Node s ks =>
    map (fun x => ([], x)) s
    ++ (fix go (l : list (N * node)) : list (list N * N) :=
          match l with
          | [] => []
          | (w, c) :: l' => map (fun p => (w :: fst p, snd p)) (pairs c) ++ go l'
          end) ks
  end.
