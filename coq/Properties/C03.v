From Emitter Require Import Lib.Base Model.Key.
Theorem C03_placeholder : AllowRead = 2.
Proof. reflexivity. Qed.
Print Assumptions C03_placeholder.
