From Emitter Require Import Lib.Base Model.Mqtt Spec.Mqtt311.
Theorem C16_placeholder : encode Pingreq = Ok (encode311 Pingreq).
Proof. reflexivity. Qed.
Print Assumptions C16_placeholder.
