(* C07 - Messages are retained and replayed exactly as requested.
   Model: on_publish / store_if / on_subscribe of Model/Broker.v over the store of Model/Store.v
   (whose query is C06's subject).  Generic in the subscription index. *)
From Emitter Require Import Lib.Base Model.MsgCodec Model.Channel Model.Key Model.Trie Model.Store Model.Broker
     Spec.PubSub Spec.BrokerSpec Proofs.BrokerProofs Proofs.BrokerStep.

(* an accepted publish is written to history iff it carries a positive ttl (the ttl option, or the
   retain flag = the retained marker that the store turns into the retention period) and its key has
   the store permission; once, under the publisher's contract and channel, payload unchanged *)
Theorem C07_stored_iff_requested_and_permitted : forall {I} (X : ixops I) e (b : @broker I) i c mid retain topic payload r k,
  let ch := parse_channel (get_link c topic) in
  (c_type ch =? ChannelInvalid) = false -> (c_type ch =? ChannelStatic) = true ->
  bytes_eqb (c_key ch) s_emitter = false ->
  auth e ch AllowWrite = Some k -> has_permission k AllowExtend = false ->
  let ssid := key_contract k :: c_query ch in
  let ttl := publish_ttl retain ch in
  exists b', on_publish X e b i c mid retain topic payload r = (b', None)
    /\ b_store b' = (if (0 <? ttl) && has_permission k AllowStore
                     then store_msg (e_retain e) (b_store b) (Msg (fresh_id e b ssid) (c_chan ch) payload ttl)
                     else b_store b)
    /\ b_trie b' = b_trie b /\ b_conns b' = b_conns b.
Proof. intros I X. exact (accepted_publish_stores_iff X). Qed.
Print Assumptions C07_stored_iff_requested_and_permitted.

(* the ttl that is requested: the option if positive, else the retained marker if the retain flag
   is set, else none *)
Theorem C07_requested_ttl : forall retain ch,
  publish_ttl retain ch = match get_option s_ttl (c_opts ch) with
                          | Some v => if (0 <? v)%Z then u32z v else if retain then retainedTTL else 0
                          | None => if retain then retainedTTL else 0
                          end.
Proof. intros. unfold publish_ttl. destruct (get_option s_ttl (c_opts ch)); reflexivity. Qed.
Print Assumptions C07_requested_ttl.

(* an accepted subscription: what is replayed is exactly the store's answer to the query for the
   last N (default 1) matching messages in the window when the key may load, nothing otherwise ... *)
Theorem C07_replay_is_the_query : forall {I} (X : ixops I) e (b : @broker I) i c topic k,
  let ch := parse_channel (repl_dslash (repl_hash topic)) in
  (c_type ch =? ChannelInvalid) = false -> auth e ch AllowRead = Some k -> has_permission k AllowExtend = false ->
  let ssid := key_contract k :: c_query ch in
  let limit := match get_option s_last (c_opts ch) with Some v => Z.to_N v | None => 1 end in
  exists b1, on_subscribe X e (clear_out b) i c topic = (b1, None)
    /\ b_out b1 = if has_permission k AllowLoad
                  then map (fun m => (i, PMsg (m_chan m) (m_payload m)))
                           (query (b_store b) (e_now e) ssid (fst (chan_window ch)) (snd (chan_window ch)) [] limit)
                  else [].
Proof. intros I X. exact (replay_is_query X). Qed.
Print Assumptions C07_replay_is_the_query.

(* ... and it precedes the SUBACK, which precedes everything else the step writes (only presence
   notifications); live messages can only come with later steps *)
Theorem C07_replay_precedes_suback : forall {I} (X : ixops I) e (b : @broker I) i c mid topic qos b1,
  get_conn (b_conns b) (N.to_nat i) = Some c ->
  on_subscribe X e (clear_out b) i c topic = (b1, None) ->
  exists replay notes,
    b_out (step X e b i (OSub mid topic qos)) = map (fun m => (i, PMsg (m_chan m) (m_payload m))) replay ++ [(i, PSuback mid [qos])] ++ notes
    /\ Forall is_presence notes
    /\ b_out b1 = map (fun m => (i, PMsg (m_chan m) (m_payload m))) replay.
Proof. intros I X. exact (replay_precedes_suback X). Qed.
Print Assumptions C07_replay_precedes_suback.

Example C07_nonvacuous :
  publish_ttl true (Chan [] [97] [] [] ChannelStatic) = retainedTTL
  /\ publish_ttl false (Chan [] [97] [] [([116;116;108], [51;48])] ChannelStatic) = 30
  /\ publish_ttl false (Chan [] [97] [] [] ChannelStatic) = 0.
Proof. vm_compute. repeat split. Qed.
