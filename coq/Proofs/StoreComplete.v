(* C06, the converse of lookup_sound: the seek-and-stop iteration of SSD.lookup skips nothing.  For
   a store sorted by key whose ids were made by NewID, and a query whose contract and first channel
   level are literal, the scan from the seek position returns exactly the visible entries that pass
   ID.Match, in key order, cut only by the limit and the reply-size cap. *)
From Coq Require Import Lia.
From Emitter Require Import Lib.Base Model.MsgCodec Model.Store Proofs.ListFacts Proofs.MsgCodecProofs
     Proofs.IdProofs Proofs.LexOrder Proofs.StoreProofs.

(* ---- words ---- *)
Lemma lxor_word a b : word_ok a -> word_ok b -> word_ok (N.lxor a b).
Proof.
  unfold word_ok. intros Ha Hb. change 4294967296 with (2 ^ 32) in *.
  destruct (N.eq_dec (N.lxor a b) 0) as [->|Nz]; [reflexivity|].
  apply N.log2_lt_pow2; [lia|]. eapply N.le_lt_trans; [apply N.log2_lxor|].
  destruct (N.eq_dec a 0) as [->|Na]; destruct (N.eq_dec b 0) as [->|Nb].
  - cbn. lia.
  - rewrite N.max_r by (cbn; lia). apply N.log2_lt_pow2; lia.
  - rewrite N.max_l by (cbn; lia). apply N.log2_lt_pow2; lia.
  - apply N.max_lub_lt; apply N.log2_lt_pow2; lia.
Qed.

Definition inv_time (t : Z) : N := maxU32 - u32z (t - id_offset).

Lemma inv_time_word t : word_ok (inv_time t).
Proof. unfold inv_time, word_ok, maxU32. pose proof (u32z_lt (t - id_offset)). lia. Qed.

Lemma inv_time_mono t1 t2 : time_ok t1 -> time_ok t2 -> ((t1 < t2)%Z <-> inv_time t2 < inv_time t1).
Proof.
  intros H1 H2. unfold inv_time, maxU32.
  pose proof (u32z_small (t1 - id_offset) ltac:(unfold time_ok, id_offset in *; lia)).
  pose proof (u32z_small (t2 - id_offset) ltac:(unfold time_ok, id_offset in *; lia)).
  pose proof (u32z_lt (t1 - id_offset)). pose proof (u32z_lt (t2 - id_offset)). lia.
Qed.

(* ---- ids made by NewID ---- *)
Definition wf_id (id : bytes) : Prop :=
  exists s0 s1 tl now seq unique,
    Forall word_ok (s0 :: s1 :: tl) /\ time_ok now /\ seq < 4294967296 /\ unique < 4294967296
    /\ new_id (s0 :: s1 :: tl) now seq unique = Ok id.

Lemma wf_id_shape id : wf_id id ->
  exists s0 s1 tl t rest,
    Forall word_ok (s0 :: s1 :: tl) /\ time_ok t
    /\ id = be32 (N.lxor s0 s1) ++ be32 (inv_time t) ++ rest
    /\ id_ssid id = Ok (s0 :: s1 :: tl) /\ id_time id = Ok t
    /\ rd32_at id 0 = Some (N.lxor s0 s1).
Proof.
  intros (s0 & s1 & tl & now & seq & unique & Hw & Ht & Hs & Hu & E).
  destruct (id_fields s0 s1 tl now seq unique Hw Ht Hs Hu) as (id' & E' & _ & S & _ & T).
  rewrite E in E'. apply ok_inj in E'. subst id'.
  exists s0, s1, tl, now. cbn [new_id] in E. apply ok_inj in E.
  eexists. split; [exact Hw|]. split; [exact Ht|]. split; [symmetry; exact E|]. split; [exact S|]. split; [exact T|].
  subst id. unfold rd32_at. change (drop 0 ?l) with l. apply rd32_be32.
  inversion Hw as [|? ? H0 Hr]; subst. inversion Hr; subst. apply lxor_word; assumption.
Qed.

(* ---- comparing keys by their first two words ---- *)
Lemma lex_heads pa iva ra pb ivb rb :
  word_ok pa -> word_ok pb -> word_ok iva -> word_ok ivb ->
  lex_ltb (be32 pa ++ be32 iva ++ ra) (be32 pb ++ be32 ivb ++ rb) = true ->
  pa < pb \/ (pa = pb /\ iva <= ivb).
Proof.
  unfold word_ok. intros Ha Hb Hia Hib H.
  destruct (N.lt_trichotomy pa pb) as [L|[E|G]]; [left; exact L| |].
  - right. split; [exact E|]. subst pb. rewrite lex_ltb_common in H.
    destruct (N.le_gt_cases iva ivb) as [L|G]; [exact L|].
    pose proof (be32_lex ivb iva rb ra G Hia) as R. rewrite (lex_asym _ _ H) in R. discriminate.
  - pose proof (be32_lex pb pa (be32 ivb ++ rb) (be32 iva ++ ra) G Ha) as R. rewrite (lex_asym _ _ H) in R. discriminate.
Qed.

Lemma lex_nil_r a : lex_ltb a [] = false.
Proof. destruct a; reflexivity. Qed.

Lemma lex_head_lt_prefix pa iva ra pq ivq :
  word_ok pa -> word_ok pq -> word_ok iva -> word_ok ivq ->
  lex_ltb (be32 pa ++ be32 iva ++ ra) (be32 pq ++ be32 ivq) = true ->
  pa < pq \/ (pa = pq /\ iva < ivq).
Proof.
  unfold word_ok. intros Ha Hq Hia Hiq H.
  destruct (N.lt_trichotomy pa pq) as [L|[E|G]]; [left; exact L| |].
  - right. split; [exact E|]. subst pq. rewrite lex_ltb_common in H.
    destruct (N.lt_trichotomy iva ivq) as [L|[E|G]]; [exact L| |].
    + subst ivq. rewrite <- (app_nil_r (be32 iva)) in H at 2. rewrite lex_ltb_common, lex_nil_r in H. discriminate.
    + rewrite <- (app_nil_r (be32 ivq)) in H. pose proof (be32_lex ivq iva [] ra G Hia) as R. rewrite (lex_asym _ _ H) in R. discriminate.
  - rewrite <- (app_nil_r (be32 ivq)) in H. rewrite app_assoc in H. 
    pose proof (be32_lex pq pa (be32 ivq ++ []) (be32 iva ++ ra) G Ha) as R. rewrite <- app_assoc in H. rewrite (lex_asym _ _ H) in R. discriminate.
Qed.

Lemma lex_head_ge_prefix pa iva ra pq ivq :
  word_ok pa -> word_ok pq -> word_ok iva -> word_ok ivq ->
  lex_ltb (be32 pa ++ be32 iva ++ ra) (be32 pq ++ be32 ivq) = false ->
  pq < pa \/ (pa = pq /\ ivq <= iva).
Proof.
  unfold word_ok. intros Ha Hq Hia Hiq H.
  destruct (N.lt_trichotomy pa pq) as [L|[E|G]]; [|right|left; exact G].
  - rewrite (be32_lex pa pq _ _ L Hq) in H. discriminate.
  - split; [exact E|]. subst pq. rewrite lex_ltb_common in H.
    destruct (N.le_gt_cases ivq iva) as [L|G]; [exact L|].
    rewrite <- (app_nil_r (be32 ivq)) in H. rewrite (be32_lex iva ivq ra [] G Hiq) in H. discriminate.
Qed.

(* ---- the two tests of the scan on a well-formed id ---- *)
Definition literal (q : N) : Prop := q <> wildcardW /\ q <> multiWildcardW.

Lemma id_tests id q0 q1 qr from until :
  wf_id id ->
  exists s0 s1 tl t rest, Forall word_ok (s0 :: s1 :: tl) /\ time_ok t
    /\ id = be32 (N.lxor s0 s1) ++ be32 (inv_time t) ++ rest
    /\ id_has_prefix id (q0 :: q1 :: qr) from = (N.lxor s0 s1 =? N.lxor q0 q1) && (from <=? t)%Z
    /\ (literal q0 -> literal q1 -> id_match id (q0 :: q1 :: qr) from until = true ->
        s0 = q0 /\ s1 = q1 /\ (from <= t <= until)%Z).
Proof.
  intros W. destruct (wf_id_shape id W) as (s0 & s1 & tl & t & rest & Hw & Ht & E & S & T & P).
  exists s0, s1, tl, t, rest. split; [exact Hw|]. split; [exact Ht|]. split; [exact E|]. split.
  - unfold id_has_prefix. rewrite P, T. reflexivity.
  - intros [L0 L0'] [L1 L1'] M. unfold id_match in M. rewrite S, T in M.
    apply andb_prop in M. destruct M as [M Mu]. apply andb_prop in M. destruct M as [M Mf].
    apply andb_prop in M. destruct M as [_ Mw]. cbn [words_match] in Mw.
    apply andb_prop in Mw. destruct Mw as [M0 Mw]. apply andb_prop in Mw. destruct Mw as [M1 _].
    apply Z.leb_le in Mf. apply Z.leb_le in Mu.
    assert (q0 = s0) by (apply orb_prop in M0; destruct M0 as [M0|M0]; [apply orb_prop in M0; destruct M0 as [M0|M0]|]; apply N.eqb_eq in M0; congruence).
    assert (q1 = s1) by (apply orb_prop in M1; destruct M1 as [M1|M1]; [apply orb_prop in M1; destruct M1 as [M1|M1]|]; apply N.eqb_eq in M1; congruence).
    subst. auto.
Qed.

(* a matching entry passes the prefix test *)
Lemma match_has_prefix id q0 q1 qr from until :
  wf_id id -> literal q0 -> literal q1 -> id_match id (q0 :: q1 :: qr) from until = true ->
  id_has_prefix id (q0 :: q1 :: qr) from = true.
Proof.
  intros W L0 L1 M. destruct (id_tests id q0 q1 qr from until W) as (s0 & s1 & tl & t & rest & _ & _ & _ & P & X).
  destruct (X L0 L1 M) as (-> & -> & F & _). rewrite P, N.eqb_refl. cbn. apply Z.leb_le. exact F.
Qed.

(* ---- order arguments ---- *)
Definition key (e : entry) : bytes := m_id (e_msg e).
Definition qprefix (q0 q1 : N) (until : Z) : bytes := be32 (N.lxor q0 q1) ++ be32 (inv_time until).

Lemma new_prefix_is q0 q1 qr until : new_prefix (q0 :: q1 :: qr) until = Ok (qprefix q0 q1 until).
Proof. reflexivity. Qed.

(* once an entry at or after the seek position fails the prefix test, nothing after it matches *)
Lemma stop_safe a x q0 q1 qr from until :
  wf_id a -> wf_id x -> word_ok q0 -> word_ok q1 -> literal q0 -> literal q1 ->
  lex_ltb a (qprefix q0 q1 until) = false -> lex_ltb a x = true ->
  id_has_prefix a (q0 :: q1 :: qr) from = false ->
  id_match x (q0 :: q1 :: qr) from until = true -> False.
Proof.
  intros Wa Wx W0 W1 L0 L1 Ge Lt Pf M.
  destruct (id_tests a q0 q1 qr from until Wa) as (a0 & a1 & atl & ta & ra & Hwa & Hta & Ea & Pa & _).
  destruct (id_tests x q0 q1 qr from until Wx) as (x0 & x1 & xtl & tx & rx & Hwx & Htx & Ex & _ & Mx).
  destruct (Mx L0 L1 M) as (-> & -> & F & U).
  assert (word_ok (N.lxor a0 a1)) as Wpa by (inversion Hwa as [|? ? H0 Hr]; subst; inversion Hr; subst; apply lxor_word; assumption).
  assert (word_ok (N.lxor q0 q1)) as Wpq by (apply lxor_word; assumption).
  rewrite Ea in Ge, Lt. rewrite Ex in Lt. unfold qprefix in Ge.
  destruct (lex_head_ge_prefix _ _ _ _ _ Wpa Wpq (inv_time_word ta) (inv_time_word until) Ge) as [G|[E G]];
  destruct (lex_heads _ _ _ _ _ _ Wpa Wpq (inv_time_word ta) (inv_time_word tx) Lt) as [L|[E' L]]; try lia.
  rewrite Pa, E, N.eqb_refl in Pf. cbn in Pf. apply Z.leb_gt in Pf.
  assert (ta < tx)%Z as TT by lia. apply (inv_time_mono ta tx Hta Htx) in TT. lia.
Qed.

(* nothing before the seek position matches *)
Lemma before_seek_no_match x q0 q1 qr from until :
  wf_id x -> word_ok q0 -> word_ok q1 -> literal q0 -> literal q1 -> time_ok until ->
  lex_ltb x (qprefix q0 q1 until) = true -> id_match x (q0 :: q1 :: qr) from until = true -> False.
Proof.
  intros Wx W0 W1 L0 L1 Tu Lt M.
  destruct (id_tests x q0 q1 qr from until Wx) as (x0 & x1 & xtl & tx & rx & Hwx & Htx & Ex & _ & Mx).
  destruct (Mx L0 L1 M) as (-> & -> & F & U).
  assert (word_ok (N.lxor q0 q1)) as Wpq by (apply lxor_word; assumption).
  rewrite Ex in Lt. unfold qprefix in Lt.
  destruct (lex_head_lt_prefix _ _ _ _ _ Wpq Wpq (inv_time_word tx) (inv_time_word until) Lt) as [L|[_ L]]; [lia|].
  apply (inv_time_mono until tx Tu Htx) in L. lia.
Qed.

(* ---- the scan is the filter, cut by the two caps ---- *)
Fixpoint cap (ms : list msg) (limit : N) (acc : list msg) (size : N) : list msg :=
  match ms with
  | [] => rev acc
  | m :: r =>
    if negb (len acc <? limit) then rev acc
    else
      let own := len (m_payload m) + len (m_id m) + len (m_chan m) in
      if maxMessageSize <? own then cap r limit acc size     (* larger than any answer: left out, hides nothing *)
      else
        let size' := size + own in
        if maxMessageSize <? size' then rev acc else cap r limit (m :: acc) size'
  end.

Definition esorted (es : list entry) : Prop := ksorted (map key es).

Lemma esorted_tail e r : esorted (e :: r) -> esorted r /\ Forall (fun x => lex_ltb (key e) (key x) = true) r.
Proof.
  unfold esorted. cbn [map]. intros H. inversion H as [|k l F S]; subst. split; [exact S|].
  rewrite Forall_forall in *. intros x Hx. apply F. apply in_map. exact Hx.
Qed.

Lemma esorted_filter p es : esorted es -> esorted (filter p es).
Proof.
  induction es as [|e r IH]; intros H; cbn; [exact H|]. destruct (esorted_tail _ _ H) as [S F].
  destruct (p e); [|apply IH; exact S]. unfold esorted. cbn [map]. constructor; [|apply IH; exact S].
  rewrite Forall_forall in *. intros k Hk. apply in_map_iff in Hk. destruct Hk as (x & <- & Hx). apply filter_In in Hx. apply F. tauto.
Qed.

Lemma scan_is_cap q0 q1 qr from until limit : 
  word_ok q0 -> word_ok q1 -> literal q0 -> literal q1 ->
  forall es acc size,
  esorted es -> Forall (fun e => wf_id (key e)) es ->
  Forall (fun e => lex_ltb (key e) (qprefix q0 q1 until) = false) es ->
  scan es (q0 :: q1 :: qr) from until limit acc size
  = cap (map e_msg (filter (fun e => id_match (key e) (q0 :: q1 :: qr) from until) es)) limit acc size.
Proof.
  intros W0 W1 L0 L1. induction es as [|e r IH]; intros acc size S Wf Ge; [reflexivity|].
  destruct (esorted_tail _ _ S) as [Sr Fr]. inversion Wf as [|? ? We Wr]; subst. inversion Ge as [|? ? Ge0 Ger]; subst.
  cbn [scan filter]. change (m_id (e_msg e)) with (key e).
  destruct (id_has_prefix (key e) (q0 :: q1 :: qr) from) eqn:P; cbn [negb orb].
  - destruct (len acc <? limit) eqn:Lm; cbn [negb].
    + destruct (id_match (key e) (q0 :: q1 :: qr) from until) eqn:M; cbn [negb map cap].
      * rewrite Lm. cbn [negb]. change (m_id (e_msg e)) with (key e).
        destruct (maxMessageSize <? len (m_payload (e_msg e)) + len (key e) + len (m_chan (e_msg e))); [apply IH; assumption|].
        destruct (maxMessageSize <? size + (len (m_payload (e_msg e)) + len (key e) + len (m_chan (e_msg e)))); [reflexivity|].
        apply IH; assumption.
      * apply IH; assumption.
    + destruct (id_match (key e) (q0 :: q1 :: qr) from until); cbn [map cap].
      * rewrite Lm. reflexivity.
      * destruct (map e_msg (filter _ r)) as [|m ms]; cbn [cap]; [reflexivity | rewrite Lm; reflexivity].
  - (* the scan stops: neither this entry nor any later one matches *)
    assert (id_match (key e) (q0 :: q1 :: qr) from until = false) as Me.
    { destruct (id_match (key e) (q0 :: q1 :: qr) from until) eqn:M; [|reflexivity].
      rewrite (match_has_prefix _ _ _ _ _ _ We L0 L1 M) in P. discriminate. }
    rewrite Me.
    assert (filter (fun e0 => id_match (key e0) (q0 :: q1 :: qr) from until) r = []) as Fe.
    { clear IH Sr Ger S Wf Ge. induction r as [|x r IHr]; [reflexivity|]. cbn [filter].
      inversion Fr as [|? ? Fx Fr']; subst. inversion Wr as [|? ? Wx Wr']; subst.
      destruct (id_match (key x) (q0 :: q1 :: qr) from until) eqn:M.
      - exfalso. exact (stop_safe (key e) (key x) q0 q1 qr from until We Wx W0 W1 L0 L1 Ge0 Fx P M).
      - apply IHr; assumption. }
    rewrite Fe. reflexivity.
Qed.

(* ---- Seek ---- *)
Lemma seek_sorted es k : esorted es -> esorted (seek es k).
Proof.
  induction es as [|e r IH]; intros S; cbn [seek]; [exact S|].
  destruct (lex_ltb (m_id (e_msg e)) k); [apply IH; apply (esorted_tail _ _ S) | exact S].
Qed.

Lemma seek_ge es k : esorted es -> Forall (fun e => lex_ltb (key e) k = false) (seek es k).
Proof.
  induction es as [|e r IH]; intros S; cbn [seek]; [constructor|].
  destruct (esorted_tail _ _ S) as [Sr Fr].
  destruct (lex_ltb (m_id (e_msg e)) k) eqn:E; [apply IH; exact Sr|].
  constructor; [exact E|]. rewrite Forall_forall in *. intros x Hx.
  destruct (lex_ltb (key x) k) eqn:E2; [|reflexivity].
  pose proof (lex_trans _ _ _ (Fr x Hx) E2) as T. unfold key in T. rewrite T in E. discriminate.
Qed.

Lemma seek_filter (p : entry -> bool) es k :
  (forall e, In e es -> lex_ltb (key e) k = true -> p e = false) -> filter p (seek es k) = filter p es.
Proof.
  induction es as [|e r IH]; intros H; cbn [seek]; [reflexivity|].
  destruct (lex_ltb (m_id (e_msg e)) k) eqn:E; [|reflexivity].
  cbn [filter]. rewrite (H e (or_introl eq_refl) E). apply IH. intros x Hx. apply H. right. exact Hx.
Qed.

Lemma In_seek_wf es k : Forall (fun e => wf_id (key e)) es -> Forall (fun e => wf_id (key e)) (seek es k).
Proof.
  induction es as [|e r IH]; intros H; cbn [seek]; [exact H|]. inversion H; subst.
  destruct (lex_ltb _ k); [apply IH; assumption | exact H].
Qed.

(* ---- the lookup without a continuation id ---- *)
Theorem lookup_exact s now q0 q1 qr from until limit :
  esorted s -> Forall (fun e => wf_id (key e)) s ->
  word_ok q0 -> word_ok q1 -> literal q0 -> literal q1 -> time_ok until ->
  lookup s now (q0 :: q1 :: qr) from until [] limit
  = cap (map e_msg (filter (fun e => id_match (key e) (q0 :: q1 :: qr) from until) (filter (visible now) s))) limit [] 0.
Proof.
  intros S Wf W0 W1 L0 L1 Tu. unfold lookup. rewrite new_prefix_is.
  set (vis := filter (visible now) s).
  assert (esorted vis) as Sv by (apply esorted_filter; exact S).
  assert (Forall (fun e => wf_id (key e)) vis) as Wv.
  { rewrite Forall_forall in *. intros e He. apply filter_In in He. apply Wf. tauto. }
  rewrite (scan_is_cap q0 q1 qr from until limit W0 W1 L0 L1 (seek vis (qprefix q0 q1 until)) [] 0
             (seek_sorted _ _ Sv) (In_seek_wf _ _ Wv) (seek_ge _ _ Sv)).
  rewrite seek_filter; [reflexivity|].
  intros e He Lt. destruct (id_match (key e) (q0 :: q1 :: qr) from until) eqn:M; [|reflexivity]. exfalso.
  rewrite Forall_forall in Wv. exact (before_seek_no_match (key e) q0 q1 qr from until (Wv e He) W0 W1 L0 L1 Tu Lt M).
Qed.

(* ---- the store stays sorted ---- *)
Lemma bytes_eqb_refl a : bytes_eqb a a = true.
Proof. apply list_eqb_refl. apply N.eqb_refl. Qed.

Lemma store_put_keys : forall s e x, In x (map key (store_put s e)) -> x = key e \/ In x (map key s).
Proof.
  induction s as [|y r IH]; intros e x H; cbn [store_put] in H.
  - cbn in H. destruct H as [H|[]]. left. symmetry. exact H.
  - destruct (bytes_eqb (m_id (e_msg y)) (m_id (e_msg e))) eqn:E.
    + cbn [map] in *. destruct H as [H|H]; [left; symmetry; exact H | right; right; exact H].
    + destruct (lex_ltb (m_id (e_msg e)) (m_id (e_msg y))).
      * cbn [map] in *. destruct H as [H|H]; [left; symmetry; exact H | right; exact H].
      * cbn [map] in *. destruct H as [H|H]; [right; left; exact H|]. destruct (IH e x H) as [A|A]; [left; exact A | right; right; exact A].
Qed.

Lemma store_put_sorted : forall s e, esorted s -> esorted (store_put s e).
Proof.
  induction s as [|y r IH]; intros e S; cbn [store_put]; [unfold esorted; cbn; constructor; constructor|].
  destruct (esorted_tail _ _ S) as [Sr Fr].
  destruct (bytes_eqb (m_id (e_msg y)) (m_id (e_msg e))) eqn:E.
  - apply bytes_eqb_eq in E. unfold esorted in *. cbn [map] in *. unfold key at 1. rewrite <- E. exact S.
  - destruct (lex_ltb (m_id (e_msg e)) (m_id (e_msg y))) eqn:L.
    + unfold esorted. cbn [map]. constructor; [|exact S]. constructor; [exact L|].
      rewrite Forall_forall in *. intros k Hk. apply in_map_iff in Hk. destruct Hk as (x & <- & Hx).
      eapply lex_trans; [exact L | apply Fr; exact Hx].
    + assert (lex_ltb (key y) (key e) = true) as Lt.
      { destruct (lex_ltb (key y) (key e)) eqn:L2; [reflexivity|]. exfalso.
        pose proof (lex_total _ _ L2 L) as Eq. unfold key in Eq. rewrite Eq, bytes_eqb_refl in E. discriminate. }
      unfold esorted. cbn [map]. constructor; [|apply IH; exact Sr].
      rewrite Forall_forall in *. intros k Hk. destruct (store_put_keys r e k Hk) as [->|Hk']; [exact Lt|].
      apply in_map_iff in Hk'. destruct Hk' as (x & <- & Hx). apply Fr. exact Hx.
Qed.
