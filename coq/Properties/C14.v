(* C14 - Banning a key takes effect immediately and survives restarts.
   Model: Model/BanStore.v = database + read cache as in crdt.Durable (with the invalidation of
   fix 53cb660), keyban's toggle, Authorize's Contains test; tied by the crdt harness (mode ban)
   on a real state directory with restarts. *)
From stdpp Require Import gmap.
From Coq Require Import ZArith.
From Emitter Require Import Model.Lww Model.BanStore Proofs.LwwProofs Proofs.BanStoreProofs.
Local Open Scope Z_scope.

(* for every sequence of ban / unban / use / cache-eviction / restart with increasing clock
   readings, every use is refused iff the latest acknowledged request for that key banned it *)
Theorem C14_immediate : forall ops,
  mono 0 ops -> run bs0 ops = spec (fun _ => false) ops.
Proof. intros ops M. apply (run_spec ops bs0 0 (fun _ => false) inv0 M). Qed.
Print Assumptions C14_immediate.

(* the cache never disagrees with the database, in any reachable state of any broker *)
Theorem C14_cache_coherent : forall s k e r,
  coherent s ->
  coherent (snd (bs_has s k)) /\ coherent (bs_store s k e) /\ coherent (bs_evict s k)
  /\ coherent (bs_restart s) /\ coherent (bs_merge s r).
Proof.
  intros s k e r C. split; [|split; [|split; [|split]]].
  - apply (has_coherent s k C). - apply store_coherent, C. - apply evict_coherent, C.
  - apply restart_coherent. - apply merge_coherent, C.
Qed.
Print Assumptions C14_cache_coherent.

(* second broker: after merging A's state, B answers as A does, whether or not B had looked the
   key up before (B knows nothing newer than A) *)
Theorem C14_other_broker : forall sa sb k,
  coherent sb -> nonneg (bs_db sb) ->
  (forall k, tadd (bs_db sb) k <= tadd (bs_db sa) k /\ tdel (bs_db sb) k <= tdel (bs_db sa) k) ->
  fst (bs_has (bs_merge sb (bs_db sa)) k) = has (bs_db sa) k.
Proof. exact merged_broker_agrees. Qed.
Print Assumptions C14_other_broker.

Example C14_nonvacuous :
  mono 0 [KBan 1%N 5; KUse 1%N; KRestart; KUse 1%N; KUnban 1%N 6; KUse 1%N; KBan 1%N 7; KEvict 1%N; KUse 1%N]
  /\ run bs0 [KBan 1%N 5; KUse 1%N; KRestart; KUse 1%N; KUnban 1%N 6; KUse 1%N; KBan 1%N 7; KEvict 1%N; KUse 1%N]
     = [None; Some true; None; Some true; None; Some false; None; None; Some true].
Proof. split; [cbn; lia | vm_compute; reflexivity]. Qed.

(* Durable.store gives a record a limited lifetime (6 h) exactly when it is a tombstone
   (IsRemoved): the record of a key that is banned is not one, so a ban does not lapse by itself -
   also not the ban of a key that had been unbanned before *)
Theorem C14_ban_record_is_no_tombstone : forall e, is_added e = true -> is_removed e = false.
Proof.
  intros e H. unfold is_added, is_removed in *. apply andb_prop in H. destruct H as [_ H].
  apply Z.leb_le in H. apply Z.ltb_ge. exact H.
Qed.
Print Assumptions C14_ban_record_is_no_tombstone.
