(* C11, last clause: an extendable key cannot itself be used to publish or subscribe.  Over the
   generic broker model: whatever request presents a key that carries the extend permission - a
   SUBSCRIBE, a PUBLISH (directly or through a link), a link request asking to be subscribed - leaves
   the subscription index, the connection's counters and the message store as they were and delivers
   nothing; SUBSCRIBE and PUBLISH are answered with error 401. *)
From Coq Require Import Lia.
From Emitter Require Import Lib.Base Model.MsgCodec Model.Murmur Model.Channel Model.Cipher Model.Key
     Model.Trie Model.Store Model.Broker Spec.PubSub Spec.BrokerSpec Proofs.BrokerProofs Proofs.BrokerStep Proofs.BrokerInv.

Section generic.
Context {I : Type} (X : ixops I).
Notation broker := (@broker I).

Theorem extendable_key_cannot_subscribe e (b : broker) i c topic k :
  let ch := parse_channel (repl_dslash (repl_hash topic)) in
  (c_type ch =? ChannelInvalid) = false -> auth e ch AllowRead = Some k -> has_permission k AllowExtend = true ->
  on_subscribe X e b i c topic = (b, Some 401).
Proof. intros ch T A E. unfold on_subscribe. fold ch. rewrite T, A, E. reflexivity. Qed.

Theorem extendable_key_cannot_publish e (b : broker) i c mid retain topic payload r k :
  let ch := parse_channel (get_link c topic) in
  (c_type ch =? ChannelInvalid) = false -> (c_type ch =? ChannelStatic) = true -> bytes_eqb (c_key ch) s_emitter = false ->
  auth e ch AllowWrite = Some k -> has_permission k AllowExtend = true ->
  on_publish X e b i c mid retain topic payload r = (b, Some 401).
Proof. intros ch T S Em A E. unfold on_publish. fold ch. rewrite T, S, Em, A, E. reflexivity. Qed.

(* a link request: the link is recorded and answered, but with an extendable key nothing is subscribed *)
Theorem extendable_key_link_subscribes_nothing e (b : broker) i c ch mid name key channel sub k :
  c_query ch = [h_link] ->
  let lc := parse_channel (key ++ [47] ++ channel) in
  auth e lc AllowRead = Some k -> has_permission k AllowExtend = true ->
  let b' := on_emitter X e b i c ch mid (ELink name key channel sub) in
  b_trie b' = b_trie b /\ b_store b' = b_store b /\ b_queue b' = b_queue b
  /\ (forall j, j <> i -> get_conn (b_conns b') (N.to_nat j) = get_conn (b_conns b) (N.to_nat j))
  /\ (forall c', get_conn (b_conns b') (N.to_nat i) = Some c' -> get_conn (b_conns b) (N.to_nat i) = Some c -> cn_ctrs c' = cn_ctrs c)
  /\ exists p, b_out b' = b_out b ++ [(i, p)].
Proof.
  intros Q lc A E b'. unfold b', on_emitter. rewrite Q.
  assert ((h_link =? h_me) = false) as E1 by (vm_compute; reflexivity). rewrite E1, N.eqb_refl.
  assert (forall p, let b1 := emit b i p in
            b_trie b1 = b_trie b /\ b_store b1 = b_store b /\ b_queue b1 = b_queue b
            /\ (forall j, j <> i -> get_conn (b_conns b1) (N.to_nat j) = get_conn (b_conns b) (N.to_nat j))
            /\ (forall c', get_conn (b_conns b1) (N.to_nat i) = Some c' -> get_conn (b_conns b) (N.to_nat i) = Some c -> cn_ctrs c' = cn_ctrs c)
            /\ exists q, b_out b1 = b_out b ++ [(i, q)]) as Plain.
  { intros p. cbn. split; [reflexivity|]. split; [reflexivity|]. split; [reflexivity|]. split; [intros; reflexivity|].
    split; [intros c' H1 H2; congruence | eexists; reflexivity]. }
  destruct (negb (is_alnum12 name)); [apply Plain|].
  fold lc. destruct (c_type lc =? ChannelInvalid); [apply Plain|].
  rewrite A, E, andb_false_r. cbn [emit with_conn b_trie b_store b_queue b_conns b_out].
  split; [reflexivity|]. split; [reflexivity|]. split; [reflexivity|]. split; [|split].
  - intros j Hj. apply get_set_other. intros X0. apply Hj. apply N2Nat.inj. symmetry. exact X0.
  - intros c' H1 H2. destruct (get_conn (b_conns b) (N.to_nat i)) eqn:G; [|discriminate]. inversion H2; subst.
    erewrite get_set_same in H1 by exact G. inversion H1; subst. reflexivity.
  - eexists. reflexivity.
Qed.
End generic.
