(* Model of internal/security/cipher (base64.go, xtea.go, salsa.go, shuffle.go) and of the licence
   formats (internal/security/license).  Salsa20/HSalsa20 is an abstract keystream (Section
   variable in the theorems, measured by the harness in the correspondence).  No proofs here. *)
From Emitter Require Import Lib.Base Model.MsgCodec.

(* ---- RawURL base64 ---------------------------------------------------------------------- *)
Definition b64_alphabet : bytes :=
  [65;66;67;68;69;70;71;72;73;74;75;76;77;78;79;80;81;82;83;84;85;86;87;88;89;90;
   97;98;99;100;101;102;103;104;105;106;107;108;109;110;111;112;113;114;115;116;117;118;119;120;121;122;
   48;49;50;51;52;53;54;55;56;57;45;95].

Definition enc_char (s : N) : N := nth (N.to_nat s) b64_alphabet 0.

(* decodeMap of base64.go: 0xFF for bytes outside the alphabet *)
Definition dec_char (c : N) : N :=
  if (65 <=? c) && (c <=? 90) then c - 65
  else if (97 <=? c) && (c <=? 122) then c - 97 + 26
  else if (48 <=? c) && (c <=? 57) then c - 48 + 52
  else if c =? 45 then 62
  else if c =? 95 then 63
  else 255.

(* encoding/base64 RawURLEncoding.EncodeToString *)
Fixpoint b64_encode (d : bytes) : bytes :=
  match d with
  | a :: b :: c :: r =>
    enc_char (a / 4) :: enc_char ((a mod 4) * 16 + b / 16) :: enc_char ((b mod 16) * 4 + c / 64)
    :: enc_char (c mod 64) :: b64_encode r
  | [a; b] => [enc_char (a / 4); enc_char ((a mod 4) * 16 + b / 16); enc_char ((b mod 16) * 4)]
  | [a] => [enc_char (a / 4); enc_char ((a mod 4) * 16)]
  | [] => []
  end.

Inductive kerr := KBadLength | KCorrupt.

(* decodeKey(dst, src) with dst == src: the buffer is one array, read at [idx], written at
   [w]; returns the buffer and n.  Groups of four characters; a trailing partial group of 2 or 3
   characters is accepted, of 1 is corrupt. *)
Fixpoint set_at (l : bytes) (i : nat) (v : N) : bytes :=
  match l, i with
  | [], _ => []
  | _ :: r, O => v :: r
  | x :: r, S j => x :: set_at r j v
  end.
Definition get_at (l : bytes) (i : nat) : N := nth i l 0.

Definition group_val (d0 d1 d2 d3 : N) : N :=
  N.lor (N.lor (N.lor (N.shiftl d0 18) (N.shiftl d1 12)) (N.shiftl d2 6)) d3.

Fixpoint decode_key_loop (fuel : nat) (buf : bytes) (idx w n : nat) : res kerr (bytes * nat) :=
  match fuel with
  | O => Ok (buf, n)
  | S f =>
    let L := length buf in
    if Nat.leb L idx then Ok (buf, n)
    else
      let avail := (L - idx)%nat in
      let c0 := dec_char (get_at buf idx) in
      if c0 =? 255 then Err KCorrupt
      else if Nat.eqb avail 1 then Err KCorrupt
      else
        let c1 := dec_char (get_at buf (idx + 1)) in
        if c1 =? 255 then Err KCorrupt
        else if Nat.eqb avail 2 then
          let v := group_val c0 c1 0 0 in
          Ok (set_at buf w (N.shiftr v 16 mod 256), (n + 1)%nat)
        else
          let c2 := dec_char (get_at buf (idx + 2)) in
          if c2 =? 255 then Err KCorrupt
          else if Nat.eqb avail 3 then
            let v := group_val c0 c1 c2 0 in
            Ok (set_at (set_at buf (w + 1) (N.shiftr v 8 mod 256)) w (N.shiftr v 16 mod 256), (n + 2)%nat)
          else
            let c3 := dec_char (get_at buf (idx + 3)) in
            if c3 =? 255 then Err KCorrupt
            else
              let v := group_val c0 c1 c2 c3 in
              let buf' := set_at (set_at (set_at buf (w + 2) (v mod 256)) (w + 1) (N.shiftr v 8 mod 256))
                                 w (N.shiftr v 16 mod 256) in
              decode_key_loop f buf' (idx + 4) (w + 3) (n + 3)
  end.

Definition decode_key (src : bytes) : res kerr bytes :=
  match decode_key_loop (S (length src)) src 0 0 0 with
  | Ok (buf, n) => Ok (firstn n buf)
  | Err e => Err e
  | Panic => Panic
  end.

(* the pure decoder the in-place one is supposed to equal (groups of 4 only) *)
Fixpoint b64_decode4 (s : bytes) : option bytes :=
  match s with
  | [] => Some []
  | a :: b :: c :: d :: r =>
    let '(x0, x1, x2, x3) := (dec_char a, dec_char b, dec_char c, dec_char d) in
    if (x0 =? 255) || (x1 =? 255) || (x2 =? 255) || (x3 =? 255) then None
    else match b64_decode4 r with
         | Some t => Some ((x0 * 4 + x1 / 16) :: ((x1 mod 16) * 16 + x2 / 4) :: ((x2 mod 4) * 64 + x3) :: t)
         | None => None
         end
  | _ => None
  end.

(* ---- XTEA ------------------------------------------------------------------------------- *)
Definition M32 : N := 4294967296.
Definition add32 (a b : N) : N := (a + b) mod M32.
Definition sub32 (a b : N) : N := (a + (M32 - b mod M32)) mod M32.
Definition shl32 (a n : N) : N := N.shiftl a n mod M32.
Definition xteaDelta : N := 2654435769.   (* 0x9E3779B9 *)
Definition xteaSum : N := 3337565984.     (* 0xC6EF3720 *)
Definition xteaRounds : nat := 32.

Definition xkey := N -> N.   (* index 0..3 -> key word *)

Definition mix (key : xkey) (v sum idx : N) : N :=
  N.lxor (add32 (N.lxor (shl32 v 4) (N.shiftr v 5)) v) (add32 sum (key idx)).

Definition enc_round (key : xkey) (st : N * N * N) : N * N * N :=
  let '(y, z, sum) := st in
  let y' := add32 y (mix key z sum (N.land sum 3)) in
  let sum' := add32 sum xteaDelta in
  let z' := add32 z (mix key y' sum' (N.land (N.shiftr sum' 11) 3)) in
  (y', z', sum').

Definition dec_round (key : xkey) (st : N * N * N) : N * N * N :=
  let '(y, z, sum) := st in
  let z' := sub32 z (mix key y sum (N.land (N.shiftr sum 11) 3)) in
  let sum' := sub32 sum xteaDelta in
  let y' := sub32 y (mix key z' sum' (N.land sum' 3)) in
  (y', z', sum').

Fixpoint iter {A} (n : nat) (f : A -> A) (x : A) : A :=
  match n with O => x | S k => iter k f (f x) end.

Definition enc_block (key : xkey) (y z : N) : N * N :=
  let '(y', z', _) := iter xteaRounds (enc_round key) (y, z, 0) in (y', z').
Definition dec_block (key : xkey) (y z : N) : N * N :=
  let '(y', z', _) := iter xteaRounds (dec_round key) (y, z, xteaSum) in (y', z').

Definition word_of (a b c d : N) : N :=
  N.lor (N.lor (N.lor (N.shiftl a 24) (N.shiftl b 16)) (N.shiftl c 8)) d.

Fixpoint blocks (f : N -> N -> N * N) (d : bytes) : bytes :=
  match d with
  | a0 :: a1 :: a2 :: a3 :: b0 :: b1 :: b2 :: b3 :: r =>
    let (y, z) := f (word_of a0 a1 a2 a3) (word_of b0 b1 b2 b3) in
    be32 y ++ be32 z ++ blocks f r
  | _ => d
  end.

(* salt whitening: bytes 2.. are XORed with bytes 0 / 1 alternately *)
Fixpoint whiten (s0 s1 : N) (d : bytes) : bytes :=
  match d with
  | a :: b :: r => N.lxor a s0 :: N.lxor b s1 :: whiten s0 s1 r
  | _ => d
  end.

Definition xtea_encrypt_bytes (key : xkey) (k : bytes) : bytes :=
  match k with
  | s0 :: s1 :: r => blocks (enc_block key) (s0 :: s1 :: whiten s0 s1 r)
  | _ => k
  end.
Definition xtea_decrypt_bytes (key : xkey) (c : bytes) : bytes :=
  match blocks (dec_block key) c with
  | s0 :: s1 :: r => s0 :: s1 :: whiten s0 s1 r
  | d => d
  end.

(* ---- the three ciphers: EncryptKey (24-byte key -> 32 chars), DecryptKey ---------------- *)
Definition xor_bytes (a b : bytes) : bytes := map (fun p => N.lxor (fst p) (snd p)) (combine a b).

Inductive cipher :=
| CXtea (key : xkey)
| CSalsa (ks : bytes)               (* keystream of (secret, nonce): 24 bytes *)
| CShuffle (ks : N -> N -> bytes).  (* keystream as a function of the two salt bytes: 22 bytes *)

Definition crypt (c : cipher) (enc : bool) (k : bytes) : bytes :=
  match c with
  | CXtea key => if enc then xtea_encrypt_bytes key k else xtea_decrypt_bytes key k
  | CSalsa ks => xor_bytes k ks
  | CShuffle ks => match k with s0 :: s1 :: r => s0 :: s1 :: xor_bytes r (ks s0 s1) | _ => k end
  end.

(* EncryptKey panics on keys shorter than 24 bytes only for XTEA (index expressions); the model is
   used on 24-byte keys *)
Definition encrypt_key (c : cipher) (k : bytes) : bytes := b64_encode (crypt c true (firstn 24 k)).

Definition decrypt_key (c : cipher) (s : bytes) : res kerr bytes :=
  if negb (len s =? 32) then Err KBadLength
  else match decode_key s with
       | Ok raw => Ok (crypt c false raw)
       | Err e => Err e
       | Panic => Panic
       end.

(* ---- licences --------------------------------------------------------------------------- *)
(* v1: 32 raw bytes = key(16) user(4) sign(4) expiry(4) type(4), base64, ":1" *)
Record lic1 := Lic1 { l1_key : bytes; l1_user : N; l1_sign : N; l1_expiry : N; l1_type : N }.
Definition lic1_raw (l : lic1) : bytes :=
  l1_key l ++ be32 (l1_user l) ++ be32 (l1_sign l) ++ be32 (l1_expiry l) ++ be32 (l1_type l).
(* parseV1 on the decoded bytes: the slice expressions need 32 bytes *)
Definition parse1_raw (raw : bytes) : res unit lic1 :=
  if len raw <? 32 then Panic
  else match rd32_at raw 16, rd32_at raw 20, rd32_at raw 24, rd32_at raw 28 with
       | Some u, Some s, Some e, Some t => Ok (Lic1 (firstn 16 raw) u s e t)
       | _, _, _, _ => Panic
       end.

(* v2 / v3: kelindar/binary of {key []byte, salt []byte, user, sign, index uint32}, inside snappy *)
Record lic2 := Lic2 { l2_key : bytes; l2_salt : bytes; l2_user : N; l2_sign : N; l2_index : N }.
Definition lic2_inner (l : lic2) : bytes :=
  enc_bytes (l2_key l) ++ enc_bytes (l2_salt l) ++ uvarint (l2_user l) ++ uvarint (l2_sign l) ++ uvarint (l2_index l).
Definition parse2_inner (d : bytes) : res cerr lic2 :=
  do (k, d) <- read_bytes d;
  do (s, d) <- read_bytes d;
  do (u, d) <- read_uvarint d;
  do (g, d) <- read_uvarint d;
  do (i, d) <- read_uvarint d;
  Ok (Lic2 k s (u32' u) (u32' g) (u32' i)).
