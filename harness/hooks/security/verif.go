//go:build verif

package security

import "sync/atomic"

// VerifSetNextID sets the process-wide connection id counter (two brokers started within the same
// second count from the same number; in one process the harness has to arrange that).
func VerifSetNextID(v uint64) { atomic.StoreUint64(&next, v) }

// VerifNextID reads the counter.
func VerifNextID() uint64 { return atomic.LoadUint64(&next) }
