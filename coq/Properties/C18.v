(* C18 - Presence reports who is subscribed.
   Model: the presence request handler, subscribe_ev / unsubscribe_ev (which queue the change
   notifications) and dispatch (the single FIFO notification queue) of Model/Broker.v. *)
From Emitter Require Import Lib.Base Model.MsgCodec Model.Channel Model.Key Model.Trie Model.Store Model.Broker
     Spec.PubSub Spec.BrokerSpec Proofs.BrokerProofs Proofs.BrokerStep.

(* a status request lists exactly the connections that would receive a message published to the
   channel now - those holding a subscription whose filter matches - with their usernames *)
Theorem C18_status_exact : forall {I} (X : ixops I) abs inv okf, IxSpec X abs inv okf ->
  forall mqtt (b : @broker I) ssid i u, inv (b_trie b) ->
  (In (i, u) (presence_who X mqtt b ssid) <->
   exists s f c, In (f, s) (abs (b_trie b)) /\ matches mqtt f ssid = true
                 /\ conn_of_sub (b_conns b) s 0 = Some i /\ get_conn (b_conns b) (N.to_nat i) = Some c /\ u = cn_user c).
Proof. intros I X abs inv okf HS. exact (presence_status_exact X abs inv okf HS). Qed.
Print Assumptions C18_status_exact.

(* each subscription a connection makes queues exactly one 'subscribe' notification and its end
   exactly one 'unsubscribe' (also when the connection goes away: C08), appended to one FIFO queue -
   so in the order of the transitions; repeats and unsubscribes of what is not held queue nothing *)
Theorem C18_one_notification_per_transition : forall {I} (X : ixops I) (b : @broker I) mqtt i c ssid ch,
  (has_ctr c ssid = false ->
     b_queue (subscribe_ev X b i c ssid ch) = b_queue b ++ [Notif true (0 :: presenceW :: ssid) ch i (cn_user c)])
  /\ (has_ctr c ssid = true -> b_queue (subscribe_ev X b i c ssid ch) = b_queue b)
  /\ (has_ctr c ssid = true ->
     b_queue (unsubscribe_ev X mqtt b i c ssid ch) = b_queue b ++ [Notif false (0 :: presenceW :: ssid) ch i (cn_user c)])
  /\ (has_ctr c ssid = false -> b_queue (unsubscribe_ev X mqtt b i c ssid ch) = b_queue b).
Proof. intros I X. exact (transitions_notify X). Qed.
Print Assumptions C18_one_notification_per_transition.

(* a notification is written, once each, to exactly the connections holding - when it is dispatched -
   a presence-change subscription on the channel or on a parent of it (the presence ssid is
   [0; presence; contract; levels...] and matching is by prefix), so none after the request was
   cancelled; dispatching writes nothing but presence notifications and empties the queue *)
Theorem C18_notification_reaches_exactly_the_watchers : forall {I} (X : ixops I) abs inv okf, IxSpec X abs inv okf ->
  forall e (acc : @broker I) n, inv (b_trie acc) ->
  let f := (fun acc2 s => match conn_of_sub (b_conns acc2) s 0 with
                          | Some i => emit acc2 i (PPresence (nf_sub n) (nf_chan n) (nf_who n) (nf_user n))
                          | None => acc2 end) in
  let r := fold_left f (ix_lookup X (e_mqtt e) (nf_ssid n) (b_trie acc)) acc in
  exists tg, b_out r = b_out acc ++ map (fun i => (i, PPresence (nf_sub n) (nf_chan n) (nf_who n) (nf_user n))) tg
    /\ NoDup tg
    /\ forall i, In i tg <-> exists s g, In (g, s) (abs (b_trie acc)) /\ matches (e_mqtt e) g (nf_ssid n) = true
                                         /\ conn_of_sub (b_conns acc) s 0 = Some i.
Proof. intros I X abs inv okf HS. exact (notification_dispatch_exact X abs inv okf HS). Qed.
Print Assumptions C18_notification_reaches_exactly_the_watchers.

Theorem C18_dispatch_only_notifies : forall {I} (X : ixops I) e (b : @broker I),
  b_trie (dispatch X e b) = b_trie b /\ b_conns (dispatch X e b) = b_conns b /\ b_store (dispatch X e b) = b_store b
  /\ b_queue (dispatch X e b) = []
  /\ exists notes, b_out (dispatch X e b) = b_out b ++ notes /\ Forall is_presence notes.
Proof.
  intros I X e b. destruct (dispatch_state X e b) as (A1 & A2 & A3 & _ & A5 & _).
  destruct (dispatch_only_presence X e b) as (notes & O & F). repeat (split; [assumption|]). exists notes. auto.
Qed.
Print Assumptions C18_dispatch_only_notifies.

Example C18_nonvacuous :
  let b := B [([7; 11], 5); ([7; 12], 6)] [Some (Conn 5 [117] None true [] []); Some (Conn 6 [118] None true [] [])] [] 0 [] [] in
  presence_who held_ix false b [7; 11] = [(0, [117])].
Proof. vm_compute. reflexivity. Qed.
