(* C19: every message handed to an active peer is passed to the transport exactly once and in
   order, for every interleaving of senders with the periodic flush. *)
From Emitter Require Import Lib.Base Model.MsgCodec Model.PeerQueue Proofs.ListFacts Proofs.MsgCodecProofs.
From Coq Require Import Lia.

Definition accepted (es : list pstep) : list msg :=
  flat_map (fun e => match e with PSend m true => [m] | _ => [] end) es.

(* every chunk bound in the schedule exceeds the size of every message in the schedule *)
Definition bound_ok (max : N) (m : msg) : Prop := msize m < max.
Definition sched_ok (es : list pstep) : Prop :=
  forall max m, In (PChunk max) es -> In m (accepted es) -> bound_ok max m.

Definition pending (s : pq) : list msg := concat (q_sent s) ++ q_swapped s ++ q_frame s.

Lemma pq_step_pending s e :
  (forall max, e = PChunk max -> forall m, In m (q_swapped s) -> msize m < max) ->
  pending (pq_step s e) = pending s ++ match e with PSend m true => [m] | _ => [] end.
Proof.
  intros Hb. unfold pending. destruct e as [m [|] | | max]; cbn [pq_step].
  - cbn [q_sent q_swapped q_frame]. rewrite <- !app_assoc. reflexivity.
  - rewrite app_nil_r. reflexivity.
  - destruct (q_swapped s) eqn:Es; destruct (q_frame s) eqn:Ef; cbn [q_sent q_swapped q_frame];
      rewrite ?Es, ?Ef, ?app_nil_r; reflexivity.
  - rewrite app_nil_r. destruct (q_swapped s) as [|m0 f0] eqn:Es; [rewrite Es; reflexivity|].
    unfold split. destruct (split_go (m0 :: f0) 0 max) as [h t] eqn:E.
    destruct (split_go_spec _ _ _ _ _ E) as (A & _ & C).
    destruct h as [|h0 h'].
    + exfalso. specialize (C m0 f0 eq_refl eq_refl).
      specialize (Hb max eq_refl m0 (or_introl eq_refl)). lia.
    + cbn [q_sent q_swapped q_frame]. rewrite concat_app. cbn [concat]. rewrite app_nil_r.
      rewrite <- A. rewrite <- !app_assoc. reflexivity.
Qed.

Lemma swapped_subset : forall es s m,
  In m (q_swapped (fold_left pq_step es s)) ->
  In m (q_swapped s) \/ In m (q_frame s) \/ In m (accepted es).
Proof.
  induction es as [|e es IH]; intros s m H; [left; exact H|].
  cbn [fold_left] in H. apply IH in H. cbn [accepted flat_map]. rewrite in_app_iff.
  destruct H as [H | [H | H]]; [| | right; right; right; exact H].
  - destruct e as [m1 [|] | | max]; cbn [pq_step] in H.
    + left. exact H.
    + left. exact H.
    + destruct (q_swapped s) eqn:Es; destruct (q_frame s) eqn:Ef; cbn [q_swapped] in H; rewrite ?Es in H; auto.
    + destruct (q_swapped s) as [|m0 f0] eqn:Es; [rewrite Es in H; auto|].
      unfold split in H. destruct (split_go (m0 :: f0) 0 max) as [h t] eqn:E.
      destruct (split_go_spec _ _ _ _ _ E) as (A & _ & _).
      destruct h; cbn [q_swapped] in H; [contradiction|].
      left. rewrite <- A. apply in_or_app. right. exact H.
  - destruct e as [m1 [|] | | max]; cbn [pq_step] in H.
    + cbn [q_frame] in H. apply in_app_or in H. destruct H as [H | [<- | []]]; auto.
      right. right. left. left. reflexivity.
    + auto.
    + destruct (q_swapped s) eqn:Es; destruct (q_frame s) eqn:Ef; cbn [q_frame] in H; rewrite ?Ef in H; auto; contradiction.
    + destruct (q_swapped s) as [|m0 f0] eqn:Es; [auto|].
      unfold split in H. destruct (split_go (m0 :: f0) 0 max) as [h t] eqn:E.
      destruct h; cbn [q_frame] in H; auto.
Qed.

Lemma run_pending_gen : forall es pre s,
  s = fold_left pq_step pre pq0 ->
  sched_ok (pre ++ es) ->
  pending (fold_left pq_step es s) = pending s ++ accepted es.
Proof.
  induction es as [|e es IH]; intros pre s Hs Hok; [cbn; rewrite app_nil_r; reflexivity|].
  cbn [fold_left]. rewrite (IH (pre ++ [e]) (pq_step s e)).
  - rewrite pq_step_pending.
    + cbn [accepted flat_map]. rewrite <- app_assoc. reflexivity.
    + intros max -> m Hm. apply (Hok max m).
      * apply in_or_app. right. left. reflexivity.
      * subst s. apply swapped_subset in Hm. cbn in Hm.
        destruct Hm as [[] | [[] | Hm]]. unfold accepted. rewrite flat_map_app. apply in_or_app. left. exact Hm.
  - subst s. rewrite fold_left_app. reflexivity.
  - rewrite <- app_assoc. exact Hok.
Qed.

Theorem run_pending es :
  sched_ok es -> pending (pq_run es) = accepted es.
Proof. intros H. unfold pq_run. rewrite (run_pending_gen es [] pq0 eq_refl H). reflexivity. Qed.

(* what has reached the transport is always a prefix of what was accepted, in order *)
Corollary sent_prefix es :
  sched_ok es -> exists rest, accepted es = concat (q_sent (pq_run es)) ++ rest.
Proof.
  intros H. rewrite <- (run_pending es H). unfold pending. eexists. reflexivity.
Qed.

(* once the queue has drained, everything accepted has been passed on, exactly once, in order *)
Corollary drained_all es :
  sched_ok es -> q_swapped (pq_run es) = [] -> q_frame (pq_run es) = [] ->
  concat (q_sent (pq_run es)) = accepted es.
Proof.
  intros H E1 E2. rewrite <- (run_pending es H). unfold pending. rewrite E1, E2, !app_nil_r. reflexivity.
Qed.
