(* Correspondence cases of the broker harness (C02, C07, C08, C18). *)
From Emitter Require Import Lib.Base Model.MsgCodec Model.Murmur Model.Channel Model.Cipher Model.Key
     Model.Trie Model.Store Model.Broker Spec.PubSub Spec.BrokerSpec.

Inductive stepc := Step (client : N) (o : op) (obs : list (list pkt)).

Inductive case :=
| CBroker (mqtt : bool) (contract sign : N) (now : Z) (keys : list (bytes * key)) (n : N) (subs : list N)
          (steps : list stepc) (dump : list (list N * N)) (stored : list (bytes * bytes * N)) (watcher helper : N)
(* a presence watcher that does not read while another connection makes the listed subscriptions
   in one packet: the channels it was notified about afterwards *)
| CBurst (subscribed notified : list bytes).

Definition who_eqb (a b : list (N * bytes)) : bool :=
  list_eqb (fun x y => (fst x =? fst y) && bytes_eqb (snd x) (snd y)) a b.

Definition pkt_eqb (a b : pkt) : bool :=
  match a, b with
  | PConnack x, PConnack y => x =? y
  | PSuback m1 c1, PSuback m2 c2 => (m1 =? m2) && bytes_eqb c1 c2
  | PUnsuback x, PUnsuback y => x =? y
  | PPuback x, PPuback y => x =? y
  | PPingresp, PPingresp => true
  | PError s1 r1, PError s2 r2 => (s1 =? s2) && (r1 =? r2)
  | PMsg t1 p1, PMsg t2 p2 => bytes_eqb t1 t2 && bytes_eqb p1 p2
  | PPresence s1 c1 w1 u1, PPresence s2 c2 w2 u2 => Bool.eqb s1 s2 && bytes_eqb c1 c2 && (w1 =? w2) && bytes_eqb u1 u2
  | PPresenceStatus r1 s1 c1 w1, PPresenceStatus r2 s2 c2 w2 => (r1 =? r2) && (s1 =? s2) && bytes_eqb c1 c2 && who_eqb w1 w2
  | PMe, PMe => true
  | PLink r1 s1 n1 c1, PLink r2 s2 n2 c2 => (r1 =? r2) && (s1 =? s2) && bytes_eqb n1 n2 && bytes_eqb c1 c2
  | POther t1 s1 r1, POther t2 s2 r2 => bytes_eqb t1 t2 && (s1 =? s2) && (r1 =? r2)
  | PHistory r1 s1 m1, PHistory r2 s2 m2 =>
    (* messages stored within one second are answered in no particular order *)
    let sub a b := forallb (fun x => existsb (fun y => bytes_eqb (fst x) (fst y) && bytes_eqb (snd x) (snd y)) b) a in
    (r1 =? r2) && (s1 =? s2) && (len m1 =? len m2) && sub m1 m2 && sub m2 m1
  | _, _ => false
  end.

(* multiset equality *)
Fixpoint remove_first (p : pkt) (l : list pkt) : option (list pkt) :=
  match l with
  | [] => None
  | x :: r => if pkt_eqb p x then Some r else match remove_first p r with Some r' => Some (x :: r') | None => None end
  end.
Fixpoint mset_eqb (a b : list pkt) : bool :=
  match a with
  | [] => is_nil b
  | x :: r => match remove_first x b with Some b' => mset_eqb r b' | None => false end
  end.

Definition sort_who (p : pkt) : pkt :=
  match p with
  | PPresenceStatus r s c w =>
    PPresenceStatus r s c (fold_left (fun acc x =>
       (fix ins (l : list (N * bytes)) := match l with [] => [x] | y :: t => if fst x <? fst y then x :: l else y :: ins t end) acc) w [])
  | _ => p
  end.

Definition out_of {I} (b : @broker I) (i : N) : list pkt :=
  map sort_who (map snd (filter (fun x => fst x =? i) (b_out b))).

Definition clients (n : N) : list N := map N.of_nat (seq 0 (N.to_nat n)).

Definition pair_eqb (a b : list N * N) : bool := list_eqb N.eqb (fst a) (fst b) && (snd a =? snd b).
Definition cpt_eqb (a b : bytes * bytes * N) : bool :=
  bytes_eqb (fst (fst a)) (fst (fst b)) && bytes_eqb (snd (fst a)) (snd (fst b)) && (snd a =? snd b).
Definition subset {A} (eq : A -> A -> bool) (a b : list A) : bool := forallb (fun x => existsb (eq x) b) a.

(* packets of a that have no partner in b *)
Fixpoint mset_diff (a b : list pkt) : list pkt :=
  match a with
  | [] => []
  | x :: r => match remove_first x b with Some b' => mset_diff r b' | None => x :: mset_diff r b end
  end.

(* which property a disagreement between the specification and the observed packets touches *)
Definition classify (o : op) (p : pkt) : N :=
  match p, o with
  | PPresence _ _ _ _, OEnd _ => 8 |+| 16
  | PPresence _ _ _ _, _ => 16
  | PPresenceStatus _ _ _ _, _ => 16
  | PHistory _ _ _, _ => 32
  | _, OEnd _ => 8
  | PMsg _ _, OSub _ _ _ => 4
  | _, _ => 2
  end.

(* in a SUBSCRIBE step the replayed messages precede the SUBACK *)
Fixpoint replay_before_ack (l : list pkt) (seen_ack : bool) : bool :=
  match l with
  | [] => true
  | PSuback _ _ :: r => replay_before_ack r true
  | PMsg _ _ :: r => negb seen_ack && replay_before_ack r seen_ack
  | _ :: r => replay_before_ack r seen_ack
  end.

Definition is_history (p : pkt) : bool := match p with PHistory _ _ _ => true | _ => false end.

Record st := St { br : @broker trie; sp : @broker held; ok : bool; code : N }.

Definition check (c : case) : N :=
  match c with
  | CBroker mqtt contract sign now keys n subs steps dump stored watcher helper =>
    let e := Env mqtt contract sign now keys 2592000 in
    let s := fold_left (fun s x =>
                          match x with
                          | Step ci o obs =>
                            let b := step trie_ix e (br s) ci o in
                            let sb := step held_ix e (sp s) ci o in
                            (* what the ending connection itself still receives while it is being closed
                               (notifications about its own subscriptions going away, raced by the
                               dispatcher) is not part of any property: not compared *)
                            let judged := match o with OEnd _ => filter (fun i => negb (i =? ci)) (clients n) | _ => clients n end in
                            let oc := fold_left (fun acc i =>
                                         let ob := nth (N.to_nat i) obs [] in
                                         let d := mset_diff (out_of sb i) ob ++ mset_diff ob (out_of sb i) in
                                         fold_left (fun a p => a |+| classify o p) d acc
                                         |+| (match o with OSub _ _ _ => if i =? ci then bit (replay_before_ack ob false) 4 else 0 | _ => 0 end))
                                       judged 0 in
                            St b sb (ok s && forallb (fun i => mset_eqb (out_of b i) (nth (N.to_nat i) obs [])) judged)
                               (code s |+| oc
                                (* the answers to history requests alone: model (trie instance) against the implementation *)
                                |+| bit (forallb (fun i => mset_eqb (filter is_history (out_of b i)) (filter is_history (nth (N.to_nat i) obs []))) judged) 64)
                          end) steps (St (broker0 trie_ix subs) (broker0 held_ix subs) true 0) in
    let mine := filter (fun p => negb ((snd p =? watcher) || (snd p =? helper))) dump in
    let mp := pairs (t_root (b_trie (br s))) in
    bit (ok s) 1
    |+| bit (subset pair_eqb mine mp && subset pair_eqb mp mine) 1
    |+| code s
    (* what the index holds at the end is exactly what the open connections still hold: nothing is
       left behind by connections that ended, nothing of the others was touched *)
    |+| bit (subset pair_eqb mine (b_trie (sp s)) && subset pair_eqb (b_trie (sp s)) mine) 8
    (* the message store holds exactly the messages the specification stored: channel, payload, ttl *)
    |+| (let ms := map (fun en => (m_chan (e_msg en), m_payload (e_msg en), m_ttl (e_msg en))) (b_store (sp s)) in
         bit ((len ms =? len stored) && subset cpt_eqb ms stored && subset cpt_eqb stored ms) 4)
  | CBurst subscribed notified => bit (list_eqb bytes_eqb subscribed notified) 16
  end.

(* debugging aid: the first step and client where model and implementation differ *)
Definition first_diff (c : case) : option (N * N * list pkt * list pkt) :=
  match c with
  | CBroker mqtt contract sign now keys n subs steps dump stored watcher helper =>
    let e := Env mqtt contract sign now keys 2592000 in
    (fix go (b : @broker trie) (l : list stepc) (k : N) :=
       match l with
       | [] => None
       | Step ci o obs :: r =>
         let b' := step trie_ix e b ci o in
         match find (fun i => negb (mset_eqb (out_of b' i) (nth (N.to_nat i) obs []))) (clients n) with
         | Some i => Some (k, i, out_of b' i, nth (N.to_nat i) obs [])
         | None => go b' r (k + 1)
         end
       end) (broker0 trie_ix subs) steps 0
  | CBurst _ _ => None
  end.
