"""Per-property configuration of ./check."""

PROPS = {
    "C16": {
        "harness": "c16",
        "properties_v": "Properties/C16.v",
        "make_targets": ["Check/C16.vo", "Properties/C16.vo"],
        "model_targets": ["Check/C16.vo"],
        "corr_bits": {1: "model (Model/Mqtt.v) and implementation differ", 8: "Spec/Mqtt311.v disagrees with paho's encoding"},
        "oracle_bits": {2: "a well-formed packet is not encoded as MQTT 3.1.1 prescribes",
                        4: "encode-then-decode (or decode of an independent encoding) does not return the packet value",
                        16: "the independent implementation (paho) does not read back the broker's encoding"},
        "known_bits": {},
        "mult": {"quick": 1, "thorough": 30},
        "level_text": "Theorems over the byte-level model of the codec (all packet values, all lengths) checked by coqc; the model is tied to mqtt.go by running both, and paho as independent third party, on generated values and malformed byte strings every run.",
        "level_note": "Trusted: Coq kernel + vm_compute; the hand-written model (validated by correspondence, not generated); Spec/Mqtt311.v as a reading of the OASIS text (cross-checked against paho); generators bound the tie.",
        "trusted_base": [
            "hand-written model coq/Model/Mqtt.v of internal/network/mqtt/mqtt.go, tied by the c16 harness (real EncodeTo/DecodePacket and paho.mqtt.golang/packets on the same values)",
            "Spec/Mqtt311.v written from the OASIS text; compared byte for byte with paho's encoder on every generated well-formed value",
        ],
        "assumptions": ["io.Reader semantics of bytes.Reader; the sync.Pool buffer is not aliased between concurrent encoders (by-value model)"],
    },
}
