(* C05 - Cluster routing follows the replicated subscription state.
   Model: Model/Cluster.v (Swarm.Notify / merge / findPeer / onPeerOnline / onPeerOffline, Peer.subs,
   the remote entries of the trie, mesh's gossipSender buckets with event.State.Merge), tied to real
   brokers over a simulated full mesh of real gossipSenders by the c05 harness on every run.

   The property as stated - for EVERY schedule the transport can produce - is FALSE of the current
   tree (C05_all_schedules_refuted below; findings F4, F7, F8c, each replayed on the real brokers).
   What is proved, over unbounded histories: a broker that receives the operations of a peer in
   order and once each - which is what a link does as long as no two payloads meet in a sender
   slot, no full state overtakes them and nobody is declared offline - forwards a channel to that
   peer exactly when the peer has a live local subscriber for it.  The two hypotheses are exactly
   the flags (coalescing / full-state / offline) by which the check sorts schedules. *)
From stdpp Require Import gmap.
From Coq Require Import ZArith List.
From Emitter Require Import Model.Lww Model.Sender Model.Cluster Proofs.ClusterProofs Findings.C05.
Import ListNotations.
Local Open Scope N_scope.

(* observer side: any interleaving of p's operations (merged in order, once each) with steps that
   do not concern p *)
Theorem C05_routing_follows_in_order_delivery_partial : forall p b x,
  reaches p b x -> forall s, In (s, p) (bk_remote b) <-> exists c, In (c, s) (s_live x).
Proof. exact observer_routes_exactly. Qed.
Print Assumptions C05_routing_follows_in_order_delivery_partial.

(* the steps "that do not concern p" include the model's own: the observer's local clients
   subscribing and unsubscribing, and merging any payload that carries no entry of p *)
Theorem C05_other_steps_do_not_interfere : forall p b,
  bk_name b <> p ->
  (forall conn ssid t, conn < kbase -> ssid < kbase -> same_p p b (fst (local_sub b conn ssid t)))
  /\ (forall conn ssid t, conn < kbase -> ssid < kbase -> same_p p b (fst (local_unsub b conn ssid t)))
  /\ (forall payload : replica, (forall k e, payload !! k = Some e -> k_peer k <> p) -> same_p p b (fst (swarm_merge b payload))).
Proof.
  intros p b Hn. refine (conj _ (conj _ _)).
  - intros. apply local_sub_foreign; assumption.
  - intros. apply local_unsub_foreign; assumption.
  - intros. apply swarm_merge_foreign; assumption.
Qed.
Print Assumptions C05_other_steps_do_not_interfere.

(* transport side: an operation queued on an empty slot is kept as it is (and the next pick hands
   exactly it to the receiver); queued on a non-empty slot it is coalesced - the schedule leaves
   the domain of the theorem above, and the check flags it *)
Theorem C05_transport_coalescing_flag : forall w a b data,
  w_coalesced (link_bcast w a b data)
  = (w_coalesced w || match l_bcast (get_link w a b) with Some _ => true | None => false end)%bool
  /\ sender_send None data = Some data.
Proof. intros. unfold link_bcast, flag, upd_link. cbn. split; reflexivity. Qed.
Print Assumptions C05_transport_coalescing_flag.

(* the full statement, over all schedules, does not hold: a drained cluster after two rounds of
   full-state exchange whose routing differs from the ground truth *)
Definition routing_ok (w : world) : bool :=
  forallb (fun b => let r := bk_remote (get_broker w b) in let t := truth_remote w b in
                    forallb (fun x => existsb (Cluster.pair_eqb x) t) r && forallb (fun x => existsb (Cluster.pair_eqb x) r) t)
          (names w).

Theorem C05_all_schedules_refuted :
  (exists ns es, quiet (run ns es) = true /\ routing_ok (run ns es) = false)
  /\ (exists ns es b s, quiet (run ns es) = true /\ length (receivers (run ns es) b s) <> length (live_subscribers (run ns es) s)).
Proof.
  split.
  - exists [1; 2], f4_schedule. vm_compute. split; reflexivity.
  - exists [1; 2; 3], (f7_schedule ++ [EDeliver 1 2; EDeliver 2 3; EDeliver 3 1; EDeliver 1 2]), 1, 1. vm_compute. split; [reflexivity | discriminate].
Qed.
Print Assumptions C05_all_schedules_refuted.

(* the premises of the partial theorem are met by a real run: broker 2 merging three operations of
   broker 1 in order *)
Example C05_nonvacuous :
  let o1 := SOp 1 0 KSub 10%Z in let o2 := SOp 2 0 KSub 20%Z in let o3 := SOp 1 0 KUnsub 30%Z in
  let b := fold_left (fun b o => fst (swarm_merge b (payload_of 1 o))) [o1; o2; o3] (broker0 2) in
  bk_remote b = [(0, 1)] /\ s_live (fold_left src_step [o1; o2; o3] src0) = [(2, 0)].
Proof. vm_compute. split; reflexivity. Qed.
