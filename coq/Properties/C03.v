(* C03 - Channel keys authorize exactly what they were issued for.
   Models: Model/Key.v (security/key.go, contract.Validate, broker.Service.Authorize), Model/Channel.v,
   Model/Murmur.v; spec: Spec/KeyAuth.v; tied to the code by the c03 harness (real broker.Service
   under each licence version) on every run.  The string hash [h] is a parameter; the only facts
   used are h("") = 1325880984 (true of murmur by computation) and, per statement, that it does
   not collide at the key's target string. *)
From Emitter Require Import Lib.Base Model.MsgCodec Model.Murmur Model.Channel Model.Cipher Model.Key Spec.KeyAuth
     Proofs.KeyProofs.

(* an operation is permitted iff: the channel parsed, the key is not banned, it decrypts, it has
   not expired, its contract is on file with the same id / signature / master id and is allowed,
   it carries the permission the operation needs, and its target validates the channel *)
Theorem C03_authorize_iff : forall h banned decrypt contracts now ch perm k,
  authorize h banned decrypt contracts now ch perm = Some k
  <-> (c_type ch <> ChannelInvalid /\ banned (c_key ch) = false /\ decrypt (c_key ch) = Ok k
       /\ is_expired k now = false
       /\ exists c, contracts (key_contract k) = Some c /\ contract_validate c k = true
                    /\ has_permission k perm = true /\ validate_channel h k ch = true).
Proof. exact authorize_iff. Qed.
Print Assumptions C03_authorize_iff.

(* a key of one contract is never accepted for another *)
Theorem C03_no_cross_contract : forall h banned decrypt contracts now ch perm k,
  authorize h banned decrypt contracts now ch perm = Some k ->
  exists c, contracts (key_contract k) = Some c
            /\ ct_id c = key_contract k /\ ct_signature c = key_signature k /\ ct_master c = key_master k
            /\ ct_allowed c = true.
Proof. exact no_cross_contract. Qed.
Print Assumptions C03_no_cross_contract.

(* no over-permission, for EVERY target (up to 23 levels of literals and '+', exact or '#/'):
   whenever the key validates a request, the target covers it - equal levels at literals (a '+'
   in the request is refused there), any level at '+', same depth if exact, at least that depth
   if '#/' *)
Theorem C03_no_overpermission : forall h, h [] = 1325880984 ->
  forall tparts wild rp,
  Forall tpart_ok tparts -> len tparts <= 23 -> Forall level_ok rp -> rp <> [] ->
  (forall s, h s = h (join_with sep tparts) -> s = join_with sep tparts) ->
  let '(path, target) := target_of h tparts wild in
  validate_parts h path target rp (h (hd [] rp)) = true ->
  (if wild then len tparts <= len rp else len tparts = len rp) /\ levels_cover tparts rp = true.
Proof. exact validate_sound. Qed.
Print Assumptions C03_no_overpermission.

(* PARTIAL converse: every covered request is validated, for targets whose last level is a literal
   (and for the bare "#/").  For targets with a trailing '+' level the full statement is false of
   the code (known finding F2, Findings/C03.v): they validate nothing. *)
Theorem C03_covered_is_permitted_partial : forall h, h [] = 1325880984 ->
  forall tparts wild rp,
  Forall tpart_ok tparts -> len tparts <= 23 ->
  (tparts = [] /\ wild = true \/ tparts <> [] /\ lit (last tparts []) = true) ->
  (if wild then len tparts <= len rp else len tparts = len rp) -> levels_cover tparts rp = true ->
  let '(path, target) := target_of h tparts wild in
  validate_parts h path target rp (h (hd [] rp)) = true.
Proof. exact validate_complete_partial. Qed.
Print Assumptions C03_covered_is_permitted_partial.

(* the hypothesis on the hash constant holds for the hash the code uses *)
Theorem C03_murmur_empty : murmur [] = 1325880984.
Proof. vm_compute. reflexivity. Qed.
Print Assumptions C03_murmur_empty.

Example C03_nonvacuous :
  let a := [97] in let b := [98] in
  Forall tpart_ok [a; plus; b] /\ Forall level_ok [a; b; b]
  /\ (let '(p, t) := target_of murmur [a; plus; b] true in validate_parts murmur p t [a; [120]; b; a] (murmur a) = true)
  /\ (let '(p, t) := target_of murmur [a; plus; b] false in validate_parts murmur p t [a; [120]; b; a] (murmur a) = false).
Proof.
  cbv zeta. split; [|split; [|split; vm_compute; reflexivity]].
  - repeat constructor; try discriminate; cbn; intuition discriminate.
  - repeat constructor; try discriminate; cbn; intuition discriminate.
Qed.
