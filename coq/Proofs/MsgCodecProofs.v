(* C19: uvarint, message and frame round trips; Split; ids. *)
From Emitter Require Import Lib.Base Lib.Sweep Lib.Bits Model.MsgCodec Proofs.ListFacts.
From Coq Require Import Lia ZifyN ZifyNat ZifyBool.

Local Ltac split_andb :=
  repeat match goal with
         | H : _ && _ = true |- _ => apply andb_prop in H; destruct H
         end.

(* ---- uvarint ---------------------------------------------------------------------------- *)

Ltac Zify.zify_post_hook ::= Z.div_mod_to_equations.
Lemma mod256_mod128 x : (x mod 256) mod 128 = x mod 128.
Proof. lia. Qed.
Ltac Zify.zify_post_hook ::= idtac.

Lemma enc_digit x : N.lor (x mod 256) 128 = x mod 128 + 128.
Proof.
  assert (H : x mod 256 < 256) by (apply N.mod_lt; lia).
  assert (E : (N.lor (x mod 256) 128 =? (x mod 256) mod 128 + 128) = true).
  { apply (sweep (fun v => N.lor v 128 =? v mod 128 + 128) 256); [vm_compute; reflexivity | exact H]. }
  apply N.eqb_eq in E. rewrite E. f_equal. apply mod256_mod128.
Qed.

Lemma land127 d : d < 128 -> N.land (d + 128) 127 = d.
Proof.
  intros H. assert (E : (N.land (d + 128) 127 =? d) = true).
  { apply (sweep (fun d => N.land (d + 128) 127 =? d) 128); [vm_compute; reflexivity | exact H]. }
  apply N.eqb_eq. exact E.
Qed.

Lemma uvarint_dec_enc : forall fuel x s acc rest,
  x < 2 ^ (7 * N.of_nat fuel) -> acc < 2 ^ s -> acc + x * 2 ^ s < 18446744073709551616 ->
  (0 < fuel)%nat ->
  uvarint_dec fuel s acc (uvarint_enc fuel x ++ rest) = Ok (acc + x * 2 ^ s, rest).
Proof.
  induction fuel as [|f IH]; intros x s acc rest Hx Ha Hb Hf; [lia|].
  cbn [uvarint_enc].
  destruct (x <? 128) eqn:Hlt.
  - cbn [app uvarint_dec]. rewrite Hlt.
    assert (Hs : ((s =? 63) && (1 <? x)) = false).
    { destruct (s =? 63) eqn:E; [|reflexivity]. apply N.eqb_eq in E. subst s.
      cbn [andb]. assert (x * 2 ^ 63 < 18446744073709551616) by lia.
      change (2 ^ 63) with 9223372036854775808 in *. lia. }
    rewrite Hs. rewrite N.shiftl_mul_pow2.
    assert (B : x * 2 ^ s < 18446744073709551616) by lia.
    unfold u64. rewrite N.mod_small by exact B.
    rewrite <- N.shiftl_mul_pow2, lor_shifted_add by exact Ha. rewrite N.shiftl_mul_pow2. reflexivity.
  - assert (Hge : 128 <= x) by lia.
    cbn [app uvarint_dec]. rewrite enc_digit.
    assert (Hd : x mod 128 < 128) by (apply N.mod_lt; lia).
    assert (E1 : (x mod 128 + 128 <? 128) = false) by lia. rewrite E1.
    rewrite land127 by exact Hd. rewrite N.shiftr_div_pow2. change (2 ^ 7) with 128.
    assert (Hx' : x = 128 * (x / 128) + x mod 128) by (apply N.div_mod; lia).
    set (q := x / 128) in *. set (d := x mod 128) in *.
    assert (Hq1 : 1 <= q) by lia.
    assert (P7 : 2 ^ (s + 7) = 128 * 2 ^ s) by (rewrite N.pow_add_r; change (2 ^ 7) with 128; lia).
    assert (Hp : 0 < 2 ^ s) by (apply N.neq_0_lt_0, N.pow_nonzero; lia).
    assert (Hmul : x * 2 ^ s = q * (128 * 2 ^ s) + d * 2 ^ s) by (rewrite Hx'; clear; nia).
    rewrite N.shiftl_mul_pow2.
    assert (B : d * 2 ^ s < 18446744073709551616) by (clear - Hmul Hb; nia).
    unfold u64 at 1. rewrite N.mod_small by exact B.
    rewrite <- N.shiftl_mul_pow2, lor_shifted_add by exact Ha.
    destruct f as [|f'].
    { exfalso. change (7 * N.of_nat 1) with 7 in Hx. change (2 ^ 7) with 128 in Hx. lia. }
    rewrite IH.
    + f_equal. f_equal. rewrite P7, Hmul. clear. nia.
    + assert (E : 7 * N.of_nat (S (S f')) = 7 + 7 * N.of_nat (S f')) by lia.
      rewrite E, N.pow_add_r in Hx. change (2 ^ 7) with 128 in Hx.
      clear - Hx Hx'. subst q. apply N.div_lt_upper_bound; lia.
    + rewrite P7. clear - Ha Hd Hp. nia.
    + rewrite P7. rewrite Hmul in Hb. clear - Hb. nia.
    + lia.
Qed.

Lemma read_uvarint_uvarint x rest :
  x < 18446744073709551616 -> read_uvarint (uvarint x ++ rest) = Ok (x, rest).
Proof.
  intros H. unfold read_uvarint, uvarint. rewrite uvarint_dec_enc.
  - f_equal. f_equal. change (2 ^ 0) with 1. lia.
  - change (2 ^ (7 * N.of_nat 10)) with 1180591620717411303424. lia.
  - change (2 ^ 0) with 1. lia.
  - change (2 ^ 0) with 1. lia.
  - lia.
Qed.

(* every uvarint has at least one byte *)
Lemma uvarint_nonempty x : exists b r, uvarint x = b :: r.
Proof. unfold uvarint. cbn [uvarint_enc]. destruct (x <? 128); eexists; eexists; reflexivity. Qed.

(* ---- messages and frames ---------------------------------------------------------------- *)

Definition msg_ok (m : msg) : Prop :=
  len (m_id m) < 9223372036854775808 /\ len (m_chan m) < 9223372036854775808
  /\ len (m_payload m) < 9223372036854775808 /\ m_ttl m < 4294967296.

Lemma read_bytes_enc b rest :
  len b < 9223372036854775808 -> read_bytes (enc_bytes b ++ rest) = Ok (b, rest).
Proof.
  intros H. unfold read_bytes, enc_bytes. rewrite <- app_assoc.
  rewrite read_uvarint_uvarint by lia. cbn [bindr].
  destruct (len b =? 0) eqn:E0.
  - apply N.eqb_eq in E0. rewrite (len_zero_nil b E0). reflexivity.
  - assert (E1 : (9223372036854775808 <=? len b) = false) by lia. rewrite E1.
    assert (E2 : (len (b ++ rest) <? len b) = false) by (rewrite len_app; lia). rewrite E2.
    rewrite take_len_app, drop_len_app. reflexivity.
Qed.

Lemma dec_enc_msg m rest : msg_ok m -> dec_msg (enc_msg m ++ rest) = Ok (m, rest).
Proof.
  intros (H1 & H2 & H3 & H4). unfold dec_msg, enc_msg. rewrite <- !app_assoc.
  rewrite read_bytes_enc by exact H1. cbn [bindr].
  rewrite read_bytes_enc by exact H2. cbn [bindr].
  rewrite read_bytes_enc by exact H3. cbn [bindr].
  rewrite read_uvarint_uvarint by lia. cbn [bindr].
  unfold u32'. rewrite N.mod_small by exact H4. destruct m; reflexivity.
Qed.

Lemma dec_msgs_enc : forall f rest,
  Forall msg_ok f -> dec_msgs (length f) (flat_map enc_msg f ++ rest) = Ok (f, rest).
Proof.
  induction f as [|m f IH]; intros rest H; [reflexivity|].
  inversion H as [|? ? Hm Hf]; subst. cbn [length flat_map dec_msgs].
  rewrite <- app_assoc, dec_enc_msg by exact Hm. cbn [bindr].
  rewrite IH by exact Hf. reflexivity.
Qed.

Lemma enc_msg_len_ge m : 4 <= len (enc_msg m).
Proof.
  unfold enc_msg, enc_bytes. rewrite !len_app.
  destruct (uvarint_nonempty (len (m_id m))) as (? & ? & ->).
  destruct (uvarint_nonempty (len (m_chan m))) as (? & ? & ->).
  destruct (uvarint_nonempty (len (m_payload m))) as (? & ? & ->).
  destruct (uvarint_nonempty (m_ttl m)) as (? & ? & ->).
  rewrite !len_cons. lia.
Qed.

Lemma flat_enc_len_ge f : 4 * len f <= len (flat_map enc_msg f).
Proof.
  induction f as [|m f IH]; [cbn; lia|]. cbn [flat_map]. rewrite len_app, len_cons.
  pose proof (enc_msg_len_ge m). lia.
Qed.

Lemma dec_enc_frame f :
  Forall msg_ok f -> len f < 9223372036854775808 -> dec_frame (enc_frame f) = Ok f.
Proof.
  intros H Hl. unfold dec_frame, enc_frame. rewrite read_uvarint_uvarint by lia. cbn [bindr].
  destruct (len f =? 0) eqn:E0.
  - apply N.eqb_eq in E0. rewrite (len_zero_nil f E0). reflexivity.
  - assert (E1 : (9223372036854775808 <=? len f) = false) by lia. rewrite E1.
    pose proof (flat_enc_len_ge f) as G.
    assert (Em : N.min (len f) (len (flat_map enc_msg f) + 1) = len f) by lia.
    rewrite Em. unfold len at 1. rewrite Nat2N.id.
    rewrite <- (app_nil_r (flat_map enc_msg f)). rewrite dec_msgs_enc by exact H. reflexivity.
Qed.

(* ---- Split ---------------------------------------------------------------------------------- *)

Definition total (f : list msg) : N := fold_right (fun m a => msize m + a) 0 f.

Lemma split_go_spec : forall f sum max h t,
  split_go f sum max = (h, t) ->
  h ++ t = f
  /\ (h = [] \/ sum + total h < max)
  /\ (forall m r, f = m :: r -> h = [] -> max <= sum + msize m).
Proof.
  induction f as [|m f IH]; intros sum max h t E; cbn [split_go] in E.
  - injection E as <- <-. repeat split; [left; reflexivity | intros ? ? X; discriminate].
  - destruct (max <=? sum + msize m) eqn:C.
    + injection E as <- <-. repeat split; [left; reflexivity|].
      intros m0 r X _. injection X as <- <-. lia.
    + destruct (split_go f (sum + msize m) max) as [h' t'] eqn:E'.
      injection E as <- <-. destruct (IH _ _ _ _ E') as (A & B & _).
      repeat split.
      * cbn [app]. rewrite A. reflexivity.
      * right. cbn [total fold_right]. destruct B as [-> | B]; [cbn; lia|].
        unfold total in B. lia.
      * intros ? ? _ X. discriminate.
Qed.

(* ---- ids ------------------------------------------------------------------------------------ *)

Ltac Zify.zify_post_hook ::= Z.div_mod_to_equations.
Lemma rd32_be32 v rest : v < 4294967296 -> rd32 (be32 v ++ rest) = Some v.
Proof.
  intros H. unfold be32. cbn [app rd32]. f_equal.
  rewrite !N.shiftr_div_pow2, !N.shiftl_mul_pow2.
  change (2 ^ 24) with 16777216. change (2 ^ 16) with 65536. change (2 ^ 8) with 256.
  set (a := (v / 16777216) mod 256). set (b := (v / 65536) mod 256). set (c := (v / 256) mod 256).
  set (e := v mod 256).
  assert (Ha : a = v / 16777216) by (subst a; lia).
  assert (Hb : b < 256) by (subst b; lia).
  assert (Hc : c < 256) by (subst c; lia).
  assert (He : e < 256) by (subst e; lia).
  assert (Hv : v = a * 16777216 + b * 65536 + c * 256 + e) by (subst a b c e; lia).
  rewrite (lor_disjoint_add (a * 16777216) (b * 65536) 24);
    [| change (2 ^ 24) with 16777216; lia | change (2 ^ 24) with 16777216; lia].
  rewrite (lor_disjoint_add (a * 16777216 + b * 65536) (c * 256) 16);
    [| change (2 ^ 16) with 65536; lia | change (2 ^ 16) with 65536; lia].
  rewrite (lor_disjoint_add (a * 16777216 + b * 65536 + c * 256) e 8);
    [| change (2 ^ 8) with 256; lia | change (2 ^ 8) with 256; lia].
  lia.
Qed.
Ltac Zify.zify_post_hook ::= idtac.
