(* An invariant of every reachable broker state (generic model, any index meeting IxSpec whose
   filters are all admissible): the per-connection bookkeeping and the index agree - every counted
   filter is in the index under the connection's id, every index entry is counted by the connection
   with that id, no filter is counted twice, connection ids are distinct.  It discharges the
   hypotheses of the C08 statements for all reachable states. *)
From Coq Require Import Lia.
From Emitter Require Import Lib.Base Model.MsgCodec Model.Murmur Model.Channel Model.Cipher Model.Key
     Model.Trie Model.Store Model.Broker Spec.PubSub Spec.BrokerSpec Proofs.ListFacts Proofs.BrokerProofs Proofs.BrokerStep.

Section inv.
Context {I : Type} (X : ixops I) (abs : I -> list (list N * N)) (inv : I -> Prop) (okf : list N -> Prop)
        (HS : IxSpec X abs inv okf) (okf_all : forall f, okf f).
Notation broker := (@broker I).

Record BI (b : broker) : Prop := {
  bi_inv : inv (b_trie b);
  bi_nodup : forall i c, get_conn (b_conns b) i = Some c -> NoDup (map k_ssid (cn_ctrs c));
  bi_sub : forall i c k, get_conn (b_conns b) i = Some c -> In k (cn_ctrs c) -> In (k_ssid k, cn_sub c) (abs (b_trie b));
  bi_cover : forall f s, In (f, s) (abs (b_trie b)) ->
             exists i c, get_conn (b_conns b) i = Some c /\ cn_sub c = s /\ has_ctr c f = true;
  bi_uniq : forall i j c c', get_conn (b_conns b) i = Some c -> get_conn (b_conns b) j = Some c' -> cn_sub c = cn_sub c' -> i = j
}.

Lemma get_set_other : forall (l : list (option conn)) i j x, i <> j -> get_conn (set_conn l i x) j = get_conn l j.
Proof.
  induction l as [|y l IH]; intros i j x H; destruct i, j; cbn; try reflexivity; try lia.
  apply IH. lia.
Qed.

Lemma get_set : forall (l : list (option conn)) i j x c, get_conn l i = Some c ->
  get_conn (set_conn l i x) j = if Nat.eqb i j then x else get_conn l j.
Proof.
  intros l i j x c H. destruct (Nat.eqb_spec i j) as [->|N]; [eapply get_set_same; exact H | apply get_set_other; exact N].
Qed.

(* BI only looks at the index and at (id, counters) of the connections *)
Lemma BI_same (b b' : broker) :
  b_trie b' = b_trie b ->
  (forall i, match get_conn (b_conns b') i, get_conn (b_conns b) i with
             | Some c', Some c => cn_sub c' = cn_sub c /\ cn_ctrs c' = cn_ctrs c
             | None, None => True
             | _, _ => False
             end) ->
  BI b -> BI b'.
Proof.
  intros T C [B1 B2 B3 B4 B5].
  assert (forall i c', get_conn (b_conns b') i = Some c' -> exists c, get_conn (b_conns b) i = Some c /\ cn_sub c' = cn_sub c /\ cn_ctrs c' = cn_ctrs c) as F.
  { intros i c' H. specialize (C i). rewrite H in C. destruct (get_conn (b_conns b) i) as [c|]; [exists c; tauto | contradiction]. }
  assert (forall i c, get_conn (b_conns b) i = Some c -> exists c', get_conn (b_conns b') i = Some c' /\ cn_sub c' = cn_sub c /\ cn_ctrs c' = cn_ctrs c) as G.
  { intros i c H. specialize (C i). rewrite H in C. destruct (get_conn (b_conns b') i) as [c'|]; [exists c'; tauto | contradiction]. }
  constructor.
  - rewrite T. exact B1.
  - intros i c' H. destruct (F i c' H) as (c & Hc & _ & E). rewrite E. eapply B2. exact Hc.
  - intros i c' k H Hk. destruct (F i c' H) as (c & Hc & E1 & E2). rewrite T, E1. eapply B3; [exact Hc | rewrite <- E2; exact Hk].
  - intros f s H. rewrite T in H. destruct (B4 f s H) as (i & c & Hc & E & Hh). destruct (G i c Hc) as (c' & Hc' & E1 & E2).
    exists i, c'. split; [exact Hc'|]. split; [congruence|]. unfold has_ctr in *. rewrite E2. exact Hh.
  - intros i j c1 c2 H1 H2 E. destruct (F i c1 H1) as (d1 & Hd1 & E1 & _). destruct (F j c2 H2) as (d2 & Hd2 & E2 & _).
    eapply B5; [exact Hd1 | exact Hd2 | congruence].
Qed.

Lemma BI_ext (b b' : broker) : ext b b' -> BI b -> BI b'.
Proof.
  intros (T & C & _) H. apply (BI_same b b' T); [|exact H].
  intros i. rewrite C. destruct (get_conn (b_conns b) i); auto.
Qed.

Lemma has_ctr_in c f : has_ctr c f = true <-> In f (map k_ssid (cn_ctrs c)).
Proof.
  unfold has_ctr. rewrite existsb_exists, in_map_iff. split.
  - intros (k & Hk & E). exists k. split; [|exact Hk]. apply (list_eqb_eq N.eqb) in E; [exact E | intros x y; apply N.eqb_eq].
  - intros (k & E & Hk). exists k. split; [exact Hk|]. subst f. apply list_eqb_refl. apply N.eqb_refl.
Qed.

Lemma NoDup_map_filter {A B} (f : A -> B) (p : A -> bool) l : NoDup (map f l) -> NoDup (map f (filter p l)).
Proof.
  induction l as [|x l IH]; intros H; cbn; [constructor|]. inversion H; subst.
  destruct (p x); cbn; [constructor; [|apply IH; assumption] | apply IH; assumption].
  intros Hin. apply in_map_iff in Hin. destruct Hin as (y & E & Hy). apply filter_In in Hy.
  match goal with H : ~ In (f x) (map f l) |- _ => apply H end. rewrite <- E. apply in_map. tauto.
Qed.

Lemma NoDup_map_snoc {A B} (f : A -> B) l x : NoDup (map f l) -> ~ In (f x) (map f l) -> NoDup (map f (l ++ [x])).
Proof.
  intros H Hn. rewrite map_app. cbn. induction (map f l) as [|y m IH]; cbn; [repeat constructor; intros []|].
  inversion H; subst. constructor.
  - rewrite in_app_iff. intros [H1|[H1|[]]]; [contradiction | subst; apply Hn; left; reflexivity].
  - apply IH; [assumption | intros H1; apply Hn; right; exact H1].
Qed.

Lemma BI_subscribe (b : broker) i c ssid ch :
  BI b -> get_conn (b_conns b) (N.to_nat i) = Some c -> BI (subscribe_ev X b i c ssid ch).
Proof.
  intros HB G. destruct (has_ctr c ssid) eqn:Hc; [rewrite subscribe_ev_repeat by exact Hc; exact HB|].
  destruct HB as [B1 B2 B3 B4 B5]. unfold subscribe_ev. rewrite Hc.
  set (c' := Conn (cn_sub c) (cn_user c) (cn_will c) (cn_connected c) (cn_ctrs c ++ [Ctr ssid ch]) (cn_links c)).
  destruct (ixs_sub X abs inv okf HS ssid (cn_sub c) (b_trie b) B1 (okf_all ssid)) as [I2 A2].
  assert (forall j, get_conn (set_conn (b_conns b) (N.to_nat i) (Some c')) j = if Nat.eqb (N.to_nat i) j then Some c' else get_conn (b_conns b) j) as GS
    by (intros j; eapply get_set; exact G).
  constructor; cbn [enqueue with_conn b_trie b_conns].
  - exact I2.
  - intros j d H. rewrite GS in H. destruct (Nat.eqb_spec (N.to_nat i) j) as [<-|N]; [|eapply B2; exact H].
    inversion H; subst d. cbn [cn_ctrs c']. apply NoDup_map_snoc; [eapply B2; exact G|].
    cbn [k_ssid]. intros Hin. apply has_ctr_in in Hin. congruence.
  - intros j d k H Hk. rewrite GS in H. apply A2. destruct (Nat.eqb_spec (N.to_nat i) j) as [<-|N].
    + inversion H; subst d. cbn [cn_ctrs cn_sub c'] in *. apply in_app_or in Hk. destruct Hk as [Hk|[<-|[]]].
      * left. eapply B3; [exact G | exact Hk].
      * right. reflexivity.
    + left. eapply B3; [exact H | exact Hk].
  - intros f s H. apply A2 in H. destruct H as [H|H].
    + destruct (B4 f s H) as (j & d & Hd & E & Hh). destruct (Nat.eqb_spec (N.to_nat i) j) as [<-|N].
      * exists (N.to_nat i), c'. rewrite GS, Nat.eqb_refl. rewrite G in Hd. inversion Hd; subst d. split; [reflexivity|]. split; [exact E|].
        apply has_ctr_in. cbn [cn_ctrs c']. rewrite map_app. apply in_or_app. left. apply has_ctr_in. exact Hh.
      * exists j, d. rewrite GS. destruct (Nat.eqb_spec (N.to_nat i) j); [contradiction|]. auto.
    + inversion H; subst f s. exists (N.to_nat i), c'. rewrite GS, Nat.eqb_refl. split; [reflexivity|]. split; [reflexivity|].
      apply has_ctr_in. cbn [cn_ctrs c']. rewrite map_app. apply in_or_app. right. left. reflexivity.
  - intros j1 j2 d1 d2 H1 H2 E. rewrite GS in H1, H2.
    destruct (Nat.eqb_spec (N.to_nat i) j1) as [<-|N1]; destruct (Nat.eqb_spec (N.to_nat i) j2) as [<-|N2]; try reflexivity.
    + inversion H1; subst d1. cbn [cn_sub c'] in E. eapply B5; [exact G | exact H2 | exact E].
    + inversion H2; subst d2. cbn [cn_sub c'] in E. eapply B5; [exact H1 | exact G | exact E].
    + eapply B5; eassumption.
Qed.

Lemma BI_unsubscribe mqtt (b : broker) i c ssid ch :
  BI b -> get_conn (b_conns b) (N.to_nat i) = Some c -> BI (unsubscribe_ev X mqtt b i c ssid ch).
Proof.
  intros HB G. destruct (has_ctr c ssid) eqn:Hc; [|rewrite unsubscribe_ev_not_held by exact Hc; exact HB].
  destruct (unsubscribe_ev_held X abs inv okf HS mqtt b i c ssid ch (bi_inv _ HB) Hc G) as (I2 & A2 & G2 & _).
  destruct HB as [B1 B2 B3 B4 B5].
  assert (forall j, N.to_nat i <> j -> get_conn (b_conns (unsubscribe_ev X mqtt b i c ssid ch)) j = get_conn (b_conns b) j) as GO.
  { intros j N. unfold unsubscribe_ev. rewrite Hc. cbn [negb]. cbn [enqueue with_conn b_conns]. apply get_set_other. exact N. }
  constructor.
  - exact I2.
  - intros j d H. destruct (Nat.eq_dec (N.to_nat i) j) as [<-|N].
    + rewrite G2 in H. inversion H; subst d. cbn [drop_ctr cn_ctrs]. apply NoDup_map_filter. eapply B2; exact G.
    + rewrite GO in H by exact N. eapply B2; exact H.
  - intros j d k H Hk. apply A2. destruct (Nat.eq_dec (N.to_nat i) j) as [<-|N].
    + rewrite G2 in H. inversion H; subst d. cbn [drop_ctr cn_ctrs cn_sub] in *. apply filter_In in Hk. destruct Hk as [Hk Hn].
      split; [eapply B3; [exact G | exact Hk]|]. intros E. inversion E as [E1]. rewrite E1 in Hn. unfold ssid_eqb in Hn.
      rewrite list_eqb_refl in Hn; [discriminate | apply N.eqb_refl].
    + rewrite GO in H by exact N. split; [eapply B3; [exact H | exact Hk]|]. intros E. inversion E as [[E1 E2]].
      apply N. symmetry. eapply B5; [exact H | exact G | exact E2].
  - intros f s H. apply A2 in H. destruct H as [H Hne]. destruct (B4 f s H) as (j & d & Hd & E & Hh).
    destruct (Nat.eq_dec (N.to_nat i) j) as [<-|N].
    + rewrite G in Hd. inversion Hd; subst d. exists (N.to_nat i), (drop_ctr c ssid). split; [exact G2|]. split; [exact E|].
      rewrite has_ctr_drop_other; [exact Hh|]. destruct (ssid_eqb f ssid) eqn:E2; [|reflexivity].
      apply (list_eqb_eq N.eqb) in E2; [|intros x y; apply N.eqb_eq]. subst. contradiction.
    + exists j, d. rewrite GO by exact N. auto.
  - intros j1 j2 d1 d2 H1 H2 E.
    destruct (Nat.eq_dec (N.to_nat i) j1) as [<-|N1]; destruct (Nat.eq_dec (N.to_nat i) j2) as [<-|N2]; try reflexivity.
    + rewrite G2 in H1. inversion H1; subst d1. rewrite GO in H2 by exact N2. cbn [drop_ctr cn_sub] in E. eapply B5; [exact G | exact H2 | exact E].
    + rewrite G2 in H2. inversion H2; subst d2. rewrite GO in H1 by exact N1. cbn [drop_ctr cn_sub] in E. eapply B5; [exact H1 | exact G | exact E].
    + rewrite GO in H1 by exact N1. rewrite GO in H2 by exact N2. eapply B5; eassumption.
Qed.

Lemma on_last_will_same e (b : broker) c :
  b_trie (on_last_will X e b c) = b_trie b /\ b_conns (on_last_will X e b c) = b_conns b.
Proof.
  unfold on_last_will. destruct (cn_will c) as [[retain topic msg]|]; [|auto].
  destruct (negb _); [auto|]. destruct (auth e _ AllowWrite) as [k|]; [|auto].
  destruct (has_permission k AllowExtend); [auto|].
  match goal with |- context [deliver X ?m ?b1 ?s ?cc ?p ?x] => destruct (deliver_exact X m b1 s cc p x) as [(D1 & D2 & _) _] end.
  rewrite D1, D2. match goal with |- context [store_if e b k ?s ?cc ?p ?t] => destruct (store_if_rest e b k s cc p t) as (S1 & S2 & _) end.
  rewrite S1, S2. auto.
Qed.

(* the unsubscribe loop of Conn.Close *)
Lemma close_loop mqtt i : forall (ks : list counter) (b : broker) c,
  BI b -> get_conn (b_conns b) (N.to_nat i) = Some c ->
  let r := fold_left (fun acc k =>
                         match get_conn (b_conns acc) (N.to_nat i) with
                         | Some c' => unsubscribe_ev X mqtt acc i c' (k_ssid k) (k_chan k)
                         | None => acc
                         end) ks b in
  BI r /\ exists c', get_conn (b_conns r) (N.to_nat i) = Some c'
                     /\ forall k', In k' (cn_ctrs c') -> In k' (cn_ctrs c) /\ ~ In (k_ssid k') (map k_ssid ks).
Proof.
  induction ks as [|k ks IH]; intros b c HB G r.
  - split; [exact HB|]. exists c. split; [exact G|]. intros k' H. split; [exact H | intros []].
  - unfold r. cbn [fold_left]. rewrite G.
    pose proof (BI_unsubscribe mqtt b i c (k_ssid k) (k_chan k) HB G) as HB'.
    assert (exists c1, get_conn (b_conns (unsubscribe_ev X mqtt b i c (k_ssid k) (k_chan k))) (N.to_nat i) = Some c1
                       /\ forall k', In k' (cn_ctrs c1) -> In k' (cn_ctrs c) /\ k_ssid k' <> k_ssid k) as (c1 & G1 & S1).
    { destruct (has_ctr c (k_ssid k)) eqn:Hc.
      - destruct (unsubscribe_ev_held X abs inv okf HS mqtt b i c (k_ssid k) (k_chan k) (bi_inv _ HB) Hc G) as (_ & _ & G2 & _).
        exists (drop_ctr c (k_ssid k)). split; [exact G2|]. intros k' H. cbn [drop_ctr cn_ctrs] in H. apply filter_In in H. destruct H as [H1 H2].
        split; [exact H1|]. intros E. rewrite E in H2. unfold ssid_eqb in H2. rewrite list_eqb_refl in H2; [discriminate | apply N.eqb_refl].
      - rewrite unsubscribe_ev_not_held by exact Hc. exists c. split; [exact G|]. intros k' H. split; [exact H|].
        intros E. assert (has_ctr c (k_ssid k) = true) as X1; [|congruence].
        apply has_ctr_in. rewrite <- E. apply in_map. exact H. }
    destruct (IH _ c1 HB' G1) as (HBr & c' & Gr & Sr). split; [exact HBr|]. exists c'. split; [exact Gr|].
    intros k' H. destruct (Sr k' H) as [H1 H2]. destruct (S1 k' H1) as [H3 H4]. split; [exact H3|].
    cbn [map]. intros [E|E]; [apply H4; symmetry; exact E | exact (H2 E)].
Qed.

Lemma BI_close e (b : broker) i c :
  BI b -> get_conn (b_conns b) (N.to_nat i) = Some c -> BI (close_conn X e b i c).
Proof.
  intros HB G. unfold close_conn.
  destruct (close_loop (e_mqtt e) i (cn_ctrs c) b c HB G) as (HB1 & c1 & G1 & S1).
  match goal with |- context [fold_left ?f (cn_ctrs c) b] => set (b1 := fold_left f (cn_ctrs c) b) in * end.
  assert (cn_ctrs c1 = []) as Empty.
  { destruct (cn_ctrs c1) as [|k' l] eqn:E; [reflexivity|]. exfalso.
    destruct (S1 k' (or_introl eq_refl)) as [H1 H2]. apply H2. apply in_map. exact H1. }
  set (b2 := if cn_connected c then on_last_will X e b1 c else b1).
  assert (b_trie b2 = b_trie b1 /\ b_conns b2 = b_conns b1) as [T C].
  { unfold b2. destruct (cn_connected c); [apply on_last_will_same | auto]. }
  destruct HB1 as [B1 B2 B3 B4 B5].
  assert (forall j, get_conn (set_conn (b_conns b2) (N.to_nat i) None) j = if Nat.eqb (N.to_nat i) j then None else get_conn (b_conns b1) j) as GS.
  { intros j. rewrite C. eapply get_set. exact G1. }
  constructor; cbn [b_trie b_conns]; rewrite ?T.
  - exact B1.
  - intros j d H. rewrite GS in H. destruct (Nat.eqb (N.to_nat i) j); [discriminate|]. eapply B2. exact H.
  - intros j d k H Hk. rewrite GS in H. destruct (Nat.eqb (N.to_nat i) j); [discriminate|]. eapply B3; eassumption.
  - intros f s H. destruct (B4 f s H) as (j & d & Hd & E & Hh). exists j, d. rewrite GS.
    destruct (Nat.eqb_spec (N.to_nat i) j) as [<-|N]; [|auto]. exfalso.
    rewrite G1 in Hd. inversion Hd; subst d. unfold has_ctr in Hh. rewrite Empty in Hh. discriminate.
  - intros j1 j2 d1 d2 H1 H2 E. rewrite GS in H1, H2.
    destruct (Nat.eqb (N.to_nat i) j1); [discriminate|]. destruct (Nat.eqb (N.to_nat i) j2); [discriminate|]. eapply B5; eassumption.
Qed.

Lemma BI_emit (b : broker) i p : BI b -> BI (emit b i p).
Proof. apply BI_ext, ext_emit. Qed.

Lemma BI_store_if e (b : broker) k ssid ch payload ttl : BI b -> BI (store_if e b k ssid ch payload ttl).
Proof.
  intros H. destruct (store_if_rest e b k ssid ch payload ttl) as (T & C & _). apply (BI_same b _ T); [|exact H].
  intros i. rewrite C. destruct (get_conn (b_conns b) i); auto.
Qed.

Lemma BI_with_conn (b : broker) i c c' :
  get_conn (b_conns b) (N.to_nat i) = Some c -> cn_sub c' = cn_sub c -> cn_ctrs c' = cn_ctrs c ->
  BI b -> BI (with_conn b i c').
Proof.
  intros G E1 E2 H. apply (BI_same b (with_conn b i c') eq_refl); [|exact H]. intros j. unfold with_conn. cbn [b_conns].
  rewrite (get_set _ _ _ _ _ G). destruct (Nat.eqb_spec (N.to_nat i) j) as [<-|N]; [rewrite G; auto | destruct (get_conn (b_conns b) j); auto].
Qed.

Lemma BI_on_subscribe e (b : broker) i c topic :
  BI b -> get_conn (b_conns b) (N.to_nat i) = Some c -> BI (fst (on_subscribe X e b i c topic)).
Proof.
  intros H G. unfold on_subscribe. destruct (c_type _ =? ChannelInvalid); [exact H|].
  destruct (auth e _ AllowRead) as [k|]; [|exact H]. destruct (has_permission k AllowExtend); [exact H|].
  pose proof (BI_subscribe b i c (key_contract k :: c_query (parse_channel (repl_dslash (repl_hash topic))))
                           (c_chan (parse_channel (repl_dslash (repl_hash topic)))) H G) as H1.
  destruct (has_permission k AllowLoad); [|exact H1].
  destruct (chan_window _) as [t0 t1]. cbn [fst].
  match goal with |- BI (fold_left _ ?l ?b1) => destruct (fold_emit_out i (fun m => PMsg (m_chan m) (m_payload m)) l b1) as [E _] end.
  eapply BI_ext; [exact E | exact H1].
Qed.

Lemma BI_on_unsubscribe e (b : broker) i c topic :
  BI b -> get_conn (b_conns b) (N.to_nat i) = Some c -> BI (fst (on_unsubscribe X e b i c topic)).
Proof.
  intros H G. unfold on_unsubscribe. destruct (c_type _ =? ChannelInvalid); [exact H|].
  destruct (auth e _ AllowRead) as [k|]; [|exact H]. destruct (has_permission k AllowExtend); [exact H|].
  apply BI_unsubscribe; assumption.
Qed.

Lemma BI_on_emitter e (b : broker) i c ch mid r :
  BI b -> get_conn (b_conns b) (N.to_nat i) = Some c -> BI (on_emitter X e b i c ch mid r).
Proof.
  intros H G. unfold on_emitter. destruct (c_query ch) as [|q [|q2 l]]; try (apply BI_emit; exact H).
  destruct (q =? h_me); [apply BI_emit; exact H|].
  destruct (q =? h_link).
  { destruct r as [name key channel sub| | |]; try (apply BI_emit; exact H).
    destruct (negb (is_alnum12 name)); [apply BI_emit; exact H|].
    destruct (c_type _ =? ChannelInvalid); [apply BI_emit; exact H|].
    apply BI_emit.
    match goal with |- context [with_conn b i ?cc] => set (c' := cc) end.
    assert (BI (with_conn b i c')) as H1 by (apply (BI_with_conn b i c c' G); [reflexivity | reflexivity | exact H]).
    assert (get_conn (b_conns (with_conn b i c')) (N.to_nat i) = Some c') as G1 by (unfold with_conn; cbn [b_conns]; eapply get_set_same; exact G).
    destruct (auth e _ AllowRead) as [k|]; [|exact H1]. destruct (sub && negb (has_permission k AllowExtend)); [|exact H1].
    apply BI_subscribe; assumption. }
  destruct (q =? h_history).
  { destruct r as [| | channel |]; try (apply BI_emit; exact H).
    destruct (c_type _ =? ChannelInvalid); [apply BI_emit; exact H|].
    destruct (auth e _ AllowLoad) as [k|]; [|apply BI_emit; exact H].
    destruct (chan_window _) as [t0 t1]. apply BI_emit. exact H. }
  destruct (q =? h_presence); [|apply BI_emit; exact H].
  destruct r as [| key channel status changes | |]; try (apply BI_emit; exact H).
  destruct (c_type _ =? ChannelInvalid); [apply BI_emit; exact H|].
  destruct (auth e _ AllowPresence) as [k|]; [|apply BI_emit; exact H].
  destruct (has_permission k AllowExtend); [apply BI_emit; exact H|].
  match goal with |- context [if changes =? 1 then ?a else if changes =? 2 then ?bb else b] =>
    assert (BI (if changes =? 1 then a else if changes =? 2 then bb else b)) as H1 end.
  { destruct (changes =? 1); [apply BI_subscribe; assumption|]. destruct (changes =? 2); [apply BI_unsubscribe; assumption | exact H]. }
  destruct status; apply BI_emit; exact H1.
Qed.

Lemma BI_on_publish e (b : broker) i c mid retain topic payload r :
  BI b -> get_conn (b_conns b) (N.to_nat i) = Some c -> BI (fst (on_publish X e b i c mid retain topic payload r)).
Proof.
  intros H G. unfold on_publish. destruct (c_type _ =? ChannelInvalid); [exact H|].
  destruct (negb _); [exact H|]. destruct (bytes_eqb _ s_emitter); [apply BI_on_emitter; assumption|].
  destruct (auth e _ AllowWrite) as [k|]; [|exact H]. destruct (has_permission k AllowExtend); [exact H|]. cbn [fst].
  match goal with |- BI (deliver X ?m ?b1 ?s ?cc ?p ?x) => destruct (deliver_exact X m b1 s cc p x) as [E _]; eapply BI_ext; [exact E|] end.
  apply BI_store_if. exact H.
Qed.

Lemma BI_dispatch e (b : broker) : BI b -> BI (dispatch X e b).
Proof.
  intros H. destruct (dispatch_state X e b) as (T & C & _). apply (BI_same b _ T); [|exact H].
  intros i. rewrite C. destruct (get_conn (b_conns b) i); auto.
Qed.

Lemma get_set_none : forall (l : list (option conn)) i j x, get_conn l i = None ->
  get_conn (set_conn l i x) j = if Nat.eqb i j then (if Nat.ltb i (length l) then x else None) else get_conn l j.
Proof.
  induction l as [|y l IH]; intros i j x H.
  - destruct i, j; cbn; try reflexivity; destruct (Nat.eqb i j); reflexivity.
  - destruct i as [|i], j as [|j]; cbn [set_conn get_conn Nat.eqb length]; try reflexivity.
    cbn [get_conn] in H. rewrite (IH i j x H). destruct (Nat.eqb i j); [|reflexivity].
    replace (Nat.ltb (S i) (S (length l))) with (Nat.ltb i (length l)); [reflexivity|].
    destruct (Nat.ltb_spec i (length l)); destruct (Nat.ltb_spec (S i) (S (length l))); try reflexivity; lia.
Qed.

(* what the harness guarantees about the requests it sends: a new connection takes a free slot and
   a fresh id; CONNECT does not change the id of its connection *)
Definition wf_req (b : broker) (i : N) (o : op) : Prop :=
  match o with
  | OReopen subid => get_conn (b_conns b) (N.to_nat i) = None
                     /\ forall j c, get_conn (b_conns b) j = Some c -> cn_sub c <> subid
  | OConnect _ _ subid => forall c, get_conn (b_conns b) (N.to_nat i) = Some c -> cn_sub c = subid
  | _ => True
  end.

Theorem BI_step e (b : broker) i o : BI b -> wf_req b i o -> BI (step X e b i o).
Proof.
  intros H W. unfold step. apply BI_dispatch.
  set (b0 := B (b_trie b) (b_conns b) (b_store b) (b_seq b) (b_queue b) []).
  assert (BI b0) as H0.
  { apply (BI_same b b0 eq_refl); [|exact H]. intros j. cbn. destruct (get_conn (b_conns b) j); auto. }
  destruct o as [user w subid | mid topic qos | mid topic | mid retain topic payload | mid name key channel sub | mid key channel status changes | mid channel | | how | subid].
  - destruct (get_conn (b_conns b0) (N.to_nat i)) as [c|] eqn:G; [|exact H0]. apply BI_emit.
    apply (BI_with_conn b0 i c _ G); [cbn; symmetry; apply (W c); exact G | reflexivity | exact H0].
  - destruct (get_conn (b_conns b0) (N.to_nat i)) as [c|] eqn:G; [|exact H0].
    pose proof (BI_on_subscribe e b0 i c topic H0 G) as H1. destruct (on_subscribe X e b0 i c topic) as [b1 [st|]]; cbn [fst] in H1; repeat apply BI_emit; exact H1.
  - destruct (get_conn (b_conns b0) (N.to_nat i)) as [c|] eqn:G; [|exact H0].
    pose proof (BI_on_unsubscribe e b0 i c topic H0 G) as H1. destruct (on_unsubscribe X e b0 i c topic) as [b1 [st|]]; cbn [fst] in H1; repeat apply BI_emit; exact H1.
  - destruct (get_conn (b_conns b0) (N.to_nat i)) as [c|] eqn:G; [|exact H0].
    pose proof (BI_on_publish e b0 i c mid retain topic payload ENone H0 G) as H1.
    destruct (on_publish X e b0 i c mid retain topic payload ENone) as [b1 [st|]]; cbn [fst] in H1; repeat apply BI_emit; exact H1.
  - destruct (get_conn (b_conns b0) (N.to_nat i)) as [c|] eqn:G; [|exact H0].
    match goal with |- context [on_publish X e b0 i c mid false ?t [] ?r] => pose proof (BI_on_publish e b0 i c mid false t [] r H0 G) as H1;
      destruct (on_publish X e b0 i c mid false t [] r) as [b1 err] end. cbn [fst] in H1. apply BI_emit. exact H1.
  - destruct (get_conn (b_conns b0) (N.to_nat i)) as [c|] eqn:G; [|exact H0].
    match goal with |- context [on_publish X e b0 i c mid false ?t [] ?r] => pose proof (BI_on_publish e b0 i c mid false t [] r H0 G) as H1;
      destruct (on_publish X e b0 i c mid false t [] r) as [b1 err] end. cbn [fst] in H1. apply BI_emit. exact H1.
  - destruct (get_conn (b_conns b0) (N.to_nat i)) as [c|] eqn:G; [|exact H0].
    match goal with |- context [on_publish X e b0 i c mid false ?t [] ?r] => pose proof (BI_on_publish e b0 i c mid false t [] r H0 G) as H1;
      destruct (on_publish X e b0 i c mid false t [] r) as [b1 err] end. cbn [fst] in H1. apply BI_emit. exact H1.
  - destruct (get_conn (b_conns b0) (N.to_nat i)) as [c|] eqn:G; [|exact H0]. apply BI_emit. exact H0.
  - destruct (get_conn (b_conns b0) (N.to_nat i)) as [c|] eqn:G; [|exact H0]. apply BI_close; assumption.
  - (* a new connection in a free slot *)
    destruct W as [Wn Wf]. destruct H0 as [B1 B2 B3 B4 B5].
    assert (forall j, get_conn (b_conns (with_conn b0 i (Conn subid [] None false [] []))) j
                      = if Nat.eqb (N.to_nat i) j then (if Nat.ltb (N.to_nat i) (length (b_conns b)) then Some (Conn subid [] None false [] []) else None)
                        else get_conn (b_conns b) j) as GS.
    { intros j. unfold with_conn. cbn [b_conns b0]. apply get_set_none. exact Wn. }
    assert (BI (with_conn b0 i (Conn subid [] None false [] []))) as HR.
    { constructor.
      - exact B1.
      - intros j d Hd. rewrite GS in Hd. destruct (Nat.eqb (N.to_nat i) j); [|eapply B2; exact Hd].
        destruct (Nat.ltb _ _); [inversion Hd; constructor | discriminate].
      - intros j d k Hd Hk. rewrite GS in Hd. destruct (Nat.eqb (N.to_nat i) j); [|eapply B3; eassumption].
        destruct (Nat.ltb _ _); [inversion Hd; subst d; destruct Hk | discriminate].
      - intros f s Hf. destruct (B4 f s Hf) as (j & d & Hd & E & Hh). exists j, d. rewrite GS.
        destruct (Nat.eqb_spec (N.to_nat i) j) as [<-|N]; [|auto]. cbn [b0 b_conns] in Hd. rewrite Wn in Hd. discriminate.
      - intros j1 j2 d1 d2 H1 H2 E. rewrite GS in H1, H2.
        destruct (Nat.eqb_spec (N.to_nat i) j1) as [<-|N1]; destruct (Nat.eqb_spec (N.to_nat i) j2) as [<-|N2]; try reflexivity.
        + destruct (Nat.ltb _ _); [|discriminate]. inversion H1; subst d1. cbn in E. exfalso. exact (Wf _ _ H2 (eq_sym E)).
        + destruct (Nat.ltb _ _); [|discriminate]. inversion H2; subst d2. cbn in E. exfalso. exact (Wf _ _ H1 E).
        + eapply B5; eassumption. }
    destruct (get_conn (b_conns b0) (N.to_nat i)); exact HR.
Qed.

(* every state reached from the empty broker with distinct connection ids *)
Lemma BI_init (subs : list N) : NoDup subs -> BI (broker0 X subs).
Proof.
  intros ND. unfold broker0.
  assert (forall j c, get_conn (map (fun s => Some (Conn s [] None false [] [])) subs) j = Some c ->
                      cn_ctrs c = [] /\ nth_error subs j = Some (cn_sub c)) as G.
  { induction subs as [|s l IH]; intros j c H; destruct j; cbn in *; try discriminate.
    - inversion H; subst. auto.
    - inversion ND; subst. apply IH; assumption. }
  constructor; cbn [b_trie b_conns].
  - apply (ixs_empty X abs inv okf HS).
  - intros j c H. destruct (G j c H) as [E _]. rewrite E. constructor.
  - intros j c k H Hk. destruct (G j c H) as [E _]. rewrite E in Hk. destruct Hk.
  - intros f s H. destruct (ixs_empty X abs inv okf HS) as [_ E]. rewrite E in H. destruct H.
  - intros j1 j2 c1 c2 H1 H2 E. destruct (G _ _ H1) as [_ N1]. destruct (G _ _ H2) as [_ N2]. rewrite E in N1.
    eapply NoDup_nth_error; [exact ND | | congruence]. apply nth_error_Some. congruence.
Qed.

(* histories *)
Fixpoint run_from (e : env) (b : broker) (l : list (N * op)) : broker :=
  match l with [] => b | (i, o) :: r => run_from e (step X e b i o) r end.
Fixpoint wf_run (e : env) (b : broker) (l : list (N * op)) : Prop :=
  match l with [] => True | (i, o) :: r => wf_req b i o /\ wf_run e (step X e b i o) r end.

Theorem BI_reachable e subs l : NoDup subs -> wf_run e (broker0 X subs) l -> BI (run_from e (broker0 X subs) l).
Proof.
  intros ND. generalize (BI_init subs ND). generalize (broker0 X subs). induction l as [|[i o] r IH]; intros b HB W; cbn in *; [exact HB|].
  destruct W as [W1 W2]. apply IH; [apply BI_step; assumption | exact W2].
Qed.

(* in every such state the hypotheses of the close theorems hold *)
Theorem BI_close_leaves_nothing e (b : broker) i c :
  BI b -> get_conn (b_conns b) (N.to_nat i) = Some c ->
  let r := close_conn X e b i c in
  (forall f, ~ In (f, cn_sub c) (abs (b_trie r)))
  /\ (forall f s, s <> cn_sub c -> (In (f, s) (abs (b_trie r)) <-> In (f, s) (abs (b_trie b)))).
Proof.
  intros HB G. apply (close_leaves_nothing X abs inv okf HS e b i c (bi_inv _ HB) G (bi_nodup _ HB _ _ G)).
  intros f Hf. destruct (bi_cover _ HB f (cn_sub c) Hf) as (j & d & Hd & E & Hh).
  assert (j = N.to_nat i) as -> by (eapply (bi_uniq _ HB); [exact Hd | exact G | exact E]).
  rewrite G in Hd. inversion Hd; subst d. exact Hh.
Qed.

End inv.
