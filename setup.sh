#!/bin/sh
# Build the framework from files on disk only (offline): full .vo build of the Coq development
# and all Go harnesses compiled into /repo's module through the overlay (warms the Go cache).
set -e
cd "$(dirname "$0")"
export GOFLAGS=-mod=mod GOPROXY=off GODEBUG=goindex=0
unset GOTOOLCHAIN GOSUMDB || true
( cd coq && coq_makefile -f _CoqProject -o Makefile && timeout 7000 make -j16 ) 
python3 - <<'PY'
import sys, os
sys.path.insert(0, "lib")
import driver as D
from props import PROPS
seen = set()
for p, s in sorted(PROPS.items()):
    h = s.get("harness")
    if h and h not in seen:
        seen.add(h)
        rc, txt, out = D.build_harness(h)
        print("harness", h, "rc", rc)
        if rc != 0:
            print(txt)
            sys.exit(1)
PY
echo setup done
