//go:build verif

package message

import "sync/atomic"

// VerifNext returns the current value of the id sequence counter.
func VerifNext() uint32 { return atomic.LoadUint32(&next) }

// VerifSetNext sets the id sequence counter (to reach wrap-around values).
func VerifSetNext(v uint32) { atomic.StoreUint32(&next, v) }

// VerifUnique returns the process-wide random word of message ids.
func VerifUnique() uint32 { return unique }
