(* C20 - Licenses and key ciphers round-trip.
   Model: Model/Cipher.v (base64.go, xtea.go, salsa.go, shuffle.go, license/v1-v3), tied to the real
   ciphers of generated licences by the c20 harness on every run.  The Salsa20 keystream is an
   arbitrary function (hypothesis cipher_ok: it yields enough bytes); snappy is outside (the
   harness strips it). *)
From Emitter Require Import Lib.Base Model.MsgCodec Model.Cipher
     Proofs.CipherProofs Proofs.Base64Proofs Proofs.KeyCipherProofs.

(* under each cipher every 24-byte key encrypts to a 32-character URL-safe string that decrypts to
   the same key *)
Theorem C20_key_roundtrip : forall c k,
  cipher_ok c -> length k = 24%nat -> bytes_ok k = true ->
  len (encrypt_key c k) = 32
  /\ forallb (fun ch => negb (dec_char ch =? 255)) (encrypt_key c k) = true
  /\ decrypt_key c (encrypt_key c k) = Ok k.
Proof. exact key_roundtrip. Qed.
Print Assumptions C20_key_roundtrip.

(* distinct keys give distinct strings *)
Theorem C20_injective : forall c k1 k2,
  cipher_ok c -> length k1 = 24%nat -> bytes_ok k1 = true -> length k2 = 24%nat -> bytes_ok k2 = true ->
  encrypt_key c k1 = encrypt_key c k2 -> k1 = k2.
Proof. exact key_injective. Qed.
Print Assumptions C20_injective.

(* strings that are not 32 valid characters are rejected with an error *)
Theorem C20_reject_malformed : forall c s,
  (len s =? 32) && forallb (fun ch => negb (dec_char ch =? 255)) s = false ->
  exists e, decrypt_key c s = Err e.
Proof. exact reject_malformed. Qed.
Print Assumptions C20_reject_malformed.

(* XTEA proper: 32 Feistel rounds and the salt whitening invert, for every 128-bit key *)
Theorem C20_xtea_roundtrip : forall key k,
  length k = 24%nat -> bytes_ok k = true -> xtea_decrypt_bytes key (xtea_encrypt_bytes key k) = k.
Proof. exact xtea_roundtrip. Qed.
Print Assumptions C20_xtea_roundtrip.

(* the broker's in-place base64 decoder (source and destination are the same array) computes the
   pure decoder, which inverts the encoder *)
Theorem C20_base64_inplace : forall s n,
  length s = (4 * n)%nat ->
  decode_key s = match b64_decode4 s with Some d => Ok d | None => Err KCorrupt end.
Proof. exact decode_key_pure. Qed.
Print Assumptions C20_base64_inplace.

Theorem C20_base64_roundtrip : forall n x,
  length x = (3 * n)%nat -> bytes_ok x = true -> b64_decode4 (b64_encode x) = Some x.
Proof. exact b64_roundtrip. Qed.
Print Assumptions C20_base64_roundtrip.

(* licence layouts: v1 (32 raw bytes) and v2/v3 (field framing inside snappy) parse back to the
   same contract, signature, master index / expiry and cipher key material *)
Theorem C20_license_roundtrip :
  (forall l, lic1_ok l -> parse1_raw (lic1_raw l) = Ok l)
  /\ (forall l, lic2_ok l -> parse2_inner (lic2_inner l) = Ok l).
Proof. split; [exact lic1_roundtrip | exact lic2_roundtrip]. Qed.
Print Assumptions C20_license_roundtrip.

(* parsing the decoded bytes of a v1 licence yields a licence or refuses (after fix d60a83e the
   refusal is an error; the model's Panic marks the inputs the unrepaired code panicked on) *)
Example C20_nonvacuous :
  cipher_ok (CSalsa (rep 24 7)) /\ cipher_ok (CXtea (fun _ => 5))
  /\ decrypt_key (CXtea (fun i => i + 1)) (encrypt_key (CXtea (fun i => i + 1)) (rep 24 255)) = Ok (rep 24 255)
  /\ parse1_raw [1;2;3] = Panic.
Proof. repeat split; vm_compute; try reflexivity; intros; discriminate. Qed.
