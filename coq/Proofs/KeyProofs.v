(* C03: Authorize decomposes into its factors; ValidateChannel never accepts a request the key's
   target does not cover (for every target, incl. those hit by known finding F2). *)
From Emitter Require Import Lib.Base Model.MsgCodec Model.Channel Model.Cipher Model.Key Spec.KeyAuth
     Proofs.ListFacts.
From Coq Require Import Lia ZifyN ZifyNat ZifyBool.
Set Default Timeout 120.

Local Ltac split_andb :=
  repeat match goal with
         | H : _ && _ = true |- _ => apply andb_prop in H; destruct H
         end.

(* ---- Authorize is exactly the conjunction of its factors ---- *)
Theorem authorize_iff h banned decrypt contracts now ch perm k :
  authorize h banned decrypt contracts now ch perm = Some k
  <-> (c_type ch <> ChannelInvalid /\ banned (c_key ch) = false /\ decrypt (c_key ch) = Ok k
       /\ is_expired k now = false
       /\ exists c, contracts (key_contract k) = Some c /\ contract_validate c k = true
                    /\ has_permission k perm = true /\ validate_channel h k ch = true).
Proof.
  unfold authorize. split.
  - destruct (c_type ch =? ChannelInvalid) eqn:E0; [discriminate|].
    destruct (banned (c_key ch)) eqn:E1; [discriminate|].
    destruct (decrypt (c_key ch)) as [k0| |] eqn:E2; try discriminate.
    destruct (is_expired k0 now) eqn:E3; [discriminate|].
    destruct (contracts (key_contract k0)) as [c|] eqn:E4; [|discriminate].
    destruct (contract_validate c k0 && has_permission k0 perm && validate_channel h k0 ch) eqn:E5; [|discriminate].
    intros E. injection E as <-. split_andb.
    repeat split; try assumption; try reflexivity.
    + apply N.eqb_neq. exact E0.
    + exists c. auto.
  - intros (T & B & D & X & c & C1 & C2 & C3 & C4).
    apply N.eqb_neq in T. rewrite T, B, D, X, C1, C2, C3, C4. reflexivity.
Qed.

(* a key of one contract is never accepted for another: the contract on file must carry the key's
   own contract id, signature and master id, and be allowed *)
Theorem no_cross_contract h banned decrypt contracts now ch perm k :
  authorize h banned decrypt contracts now ch perm = Some k ->
  exists c, contracts (key_contract k) = Some c
            /\ ct_id c = key_contract k /\ ct_signature c = key_signature k /\ ct_master c = key_master k
            /\ ct_allowed c = true.
Proof.
  intros H. apply authorize_iff in H. destruct H as (_ & _ & _ & _ & c & C1 & C2 & _).
  exists c. unfold contract_validate in C2. split_andb.
  repeat split; try assumption; apply N.eqb_eq; assumption.
Qed.

(* ---- joining levels is injective on non-empty, separator-free levels ---- *)
Definition level_ok (p : bytes) : Prop := p <> [] /\ ~ In sep p.

Lemma prefix_to_sep (p q x y : bytes) :
  ~ In sep p -> ~ In sep q -> (x = [] \/ exists x', x = sep :: x') -> (y = [] \/ exists y', y = sep :: y') ->
  p ++ x = q ++ y -> p = q /\ x = y.
Proof.
  revert q. induction p as [|a p IH]; intros q Hp Hq Hx Hy E.
  - destruct q as [|b q]; [auto|]. cbn [app] in E.
    destruct Hx as [->|[x' ->]]; [discriminate|]. injection E as E1 E2. subst b.
    exfalso. apply Hq. left. reflexivity.
  - destruct q as [|b q].
    + cbn [app] in E. destruct Hy as [->|[y' ->]]; [discriminate|]. injection E as E1 E2. subst a.
      exfalso. apply Hp. left. reflexivity.
    + cbn [app] in E. injection E as E1 E2. subst b.
      destruct (IH q) as [-> ->]; auto; intros H; [apply Hp | apply Hq]; right; exact H.
Qed.

Lemma join_shape (parts : list bytes) :
  match parts with
  | [] => join_with sep parts = []
  | p :: r => join_with sep parts = p ++ (match r with [] => [] | _ => sep :: join_with sep r end)
  end.
Proof. destruct parts as [|p [|q r]]; cbn [join_with]; rewrite ?app_nil_r; reflexivity. Qed.

Lemma join_inj : forall a b,
  Forall level_ok a -> Forall level_ok b -> join_with sep a = join_with sep b -> a = b.
Proof.
  induction a as [|p a IH]; intros b Fa Fb E.
  - destruct b as [|q b]; [reflexivity|]. exfalso.
    pose proof (join_shape (q :: b)) as S. cbn iota in S. rewrite S in E. cbn [join_with] in E.
    inversion Fb as [|? ? [Hq _] _]; subst. destruct q; [contradiction | discriminate].
  - destruct b as [|q b].
    + exfalso. pose proof (join_shape (p :: a)) as S. cbn iota in S. rewrite S in E. cbn [join_with] in E.
      inversion Fa as [|? ? [Hp _] _]; subst. destruct p; [contradiction | discriminate].
    + inversion Fa as [|? ? [Hp1 Hp2] Fa']; subst. inversion Fb as [|? ? [Hq1 Hq2] Fb']; subst.
      pose proof (join_shape (p :: a)) as S1. pose proof (join_shape (q :: b)) as S2. cbn iota in S1, S2.
      rewrite S1, S2 in E.
      apply prefix_to_sep in E; try assumption.
      * destruct E as [-> E]. f_equal.
        destruct a as [|a0 a], b as [|b0 b]; try reflexivity; try discriminate.
        injection E as E. apply IH; assumption.
      * destruct a; [left; reflexivity | right; eexists; reflexivity].
      * destruct b; [left; reflexivity | right; eexists; reflexivity].
Qed.

(* ---- the bit path ---- *)
Definition lit (p : bytes) : bool := negb (bytes_eqb p plus) && negb (bytes_eqb p hashs).

Lemma testbit_pow2 k j : N.testbit (N.shiftl 1 k) j = (k =? j).
Proof. rewrite N.shiftl_1_l. apply N.pow2_bits_eqb. Qed.

Lemma path_bits_testbit : forall parts idx0 j,
  idx0 + len parts <= 23 -> j <= 22 ->
  N.testbit (path_bits parts idx0) j
  = (idx0 <=? 22 - j) && (22 - j <? idx0 + len parts) && lit (nth (N.to_nat (22 - j - idx0)) parts []).
Proof.
  induction parts as [|p r IH]; intros idx0 j L J.
  - cbn [path_bits]. rewrite N.bits_0. rewrite len_nil.
    destruct (idx0 <=? 22 - j) eqn:E1; [|reflexivity].
    assert (E2 : (22 - j <? idx0 + 0) = false) by lia. rewrite E2. reflexivity.
  - rewrite len_cons in L. cbn [path_bits]. rewrite N.lor_spec.
    rewrite (IH (idx0 + 1) j) by lia.
    fold (lit p).
    destruct (N.eq_dec (22 - j) idx0) as [E|E].
    + (* this part *)
      assert (X : 22 - j - idx0 = 0) by lia. rewrite X. cbn [N.to_nat nth].
      assert (E1 : (idx0 <=? 22 - j) = true) by lia.
      assert (E2 : (22 - j <? idx0 + len (p :: r)) = true) by (rewrite len_cons; lia).
      assert (E3 : (idx0 + 1 <=? 22 - j) = false) by lia.
      rewrite E1, E2, E3. cbn [andb]. rewrite orb_false_r.
      destruct (lit p); [|apply N.bits_0]. rewrite testbit_pow2. apply N.eqb_eq. lia.
    + assert (Z : N.testbit (if lit p then N.shiftl 1 (22 - idx0) else 0) j = false).
      { destruct (lit p); [|apply N.bits_0]. rewrite testbit_pow2. apply N.eqb_neq. lia. }
      rewrite Z. cbn [orb].
      destruct (idx0 + 1 <=? 22 - j) eqn:E1.
      * assert (E1' : (idx0 <=? 22 - j) = true) by lia. rewrite E1'.
        rewrite len_cons. replace (idx0 + 1 + len r) with (idx0 + (1 + len r)) by lia.
        destruct (22 - j <? idx0 + (1 + len r)) eqn:E2; [|reflexivity]. cbn [andb].
        replace (N.to_nat (22 - j - idx0)) with (S (N.to_nat (22 - j - (idx0 + 1)))) by lia.
        reflexivity.
      * assert (E1' : (idx0 <=? 22 - j) = false) by lia. rewrite E1'. reflexivity.
Qed.

(* ---- rewriting of the request's levels ---- *)
Lemma rewrite_parts_spec : forall parts idx path out,
  rewrite_parts parts idx path = Some out ->
  length out = length parts
  /\ forall i, (i < length parts)%nat ->
       let bitset := (idx + N.of_nat i <=? 22) && N.testbit path (22 - (idx + N.of_nat i)) in
       nth i out [] = (if bitset then nth i parts [] else plus)
       /\ (bitset = true -> bytes_eqb (nth i parts []) plus = false).
Proof.
  induction parts as [|p r IH]; intros idx path out E; cbn [rewrite_parts] in E.
  - injection E as <-. split; [reflexivity | intros i Hi; cbn in Hi; lia].
  - destruct ((idx <=? 22) && N.testbit path (22 - idx)) eqn:B.
    + destruct (bytes_eqb p plus) eqn:Ep; [discriminate|].
      destruct (rewrite_parts r (idx + 1) path) as [r'|] eqn:Er; [|discriminate]. injection E as <-.
      destruct (IH _ _ _ Er) as [L H]. split; [cbn [length]; lia|].
      intros [|i] Hi; cbv zeta.
      * rewrite N.add_0_r, B. cbn [nth]. auto.
      * cbn [length] in Hi. specialize (H i ltac:(lia)). cbv zeta in H.
        replace (idx + N.of_nat (S i)) with (idx + 1 + N.of_nat i) by lia. cbn [nth]. exact H.
    + destruct (rewrite_parts r (idx + 1) path) as [r'|] eqn:Er; [|discriminate]. injection E as <-.
      destruct (IH _ _ _ Er) as [L H]. split; [cbn [length]; lia|].
      intros [|i] Hi; cbv zeta.
      * rewrite N.add_0_r, B. cbn [nth]. split; [reflexivity | discriminate].
      * cbn [length] in Hi. specialize (H i ltac:(lia)). cbv zeta in H.
        replace (idx + N.of_nat (S i)) with (idx + 1 + N.of_nat i) by lia. cbn [nth]. exact H.
Qed.

(* ---- ValidateChannel never over-permits ---- *)
Definition tpart_ok (p : bytes) : Prop := level_ok p /\ (p = plus \/ lit p = true).

Lemma plus_level_ok : level_ok plus.
Proof. split; [discriminate|]. cbn. intros [H|[]]. discriminate. Qed.

Lemma path_bits_bit23 : forall parts idx0, N.testbit (path_bits parts idx0) 23 = false.
Proof.
  induction parts as [|p r IH]; intros idx0; cbn [path_bits]; [apply N.bits_0|].
  rewrite N.lor_spec, IH, orb_false_r. destruct (_ && _); [|apply N.bits_0].
  rewrite testbit_pow2. apply N.eqb_neq. lia.
Qed.

Lemma levels_cover_nth : forall t r,
  (length t <= length r)%nat ->
  (forall i, (i < length t)%nat ->
     is_wild_part (nth i t []) || (bytes_eqb (nth i t []) (nth i r []) && negb (bytes_eqb (nth i r []) plus)) = true) ->
  levels_cover t r = true.
Proof.
  induction t as [|a t IH]; intros r L H; [reflexivity|].
  destruct r as [|b r]; [cbn in L; lia|]. cbn [levels_cover].
  pose proof (H 0%nat ltac:(cbn; lia)) as H0. cbn [nth] in H0. rewrite H0. cbn [andb].
  apply IH; [cbn in L; lia|]. intros i Hi. apply (H (S i)). cbn. lia.
Qed.

Lemma bytes_eqb_refl a : bytes_eqb a a = true.
Proof. apply list_eqb_refl. apply N.eqb_refl. Qed.

Lemma nth_firstn_lt {A} (l : list A) n i d : (i < n)%nat -> nth i (firstn n l) d = nth i l d.
Proof.
  revert l i. induction n as [|n IH]; intros l i H; [lia|].
  destruct l as [|x l]; [destruct i; reflexivity|]. destruct i as [|i]; [reflexivity|].
  cbn [firstn nth]. apply IH. lia.
Qed.

Lemma In_firstn {A} (x : A) : forall n l, In x (firstn n l) -> In x l.
Proof.
  induction n as [|n IH]; intros l H; [destruct H|]. destruct l as [|y l]; [destruct H|].
  cbn [firstn] in H. destruct H as [->|H]; [left; reflexivity | right; apply IH; exact H].
Qed.

Section sound.
  Variable h : bytes -> N.
  Hypothesis h_empty : h [] = 1325880984.          (* hash("") - holds for murmur by computation *)

  Theorem validate_sound tparts wild rp :
    Forall tpart_ok tparts -> len tparts <= 23 ->
    Forall level_ok rp -> rp <> [] ->
    (* the hash does not collide at the target string *)
    (forall s, h s = h (join_with sep tparts) -> s = join_with sep tparts) ->
    let '(path, target) := target_of h tparts wild in
    validate_parts h path target rp (h (hd [] rp)) = true ->
    (if wild then len tparts <= len rp else len tparts = len rp) /\ levels_cover tparts rp = true.
  Proof.
    intros Ft Lt Fr Hr Hinj. unfold target_of.
    set (path := N.lor (if wild then 0 else 8388608) (path_bits tparts 0)).
    set (target := h (join_with sep tparts)).
    unfold validate_parts.
    assert (Tl : Forall level_ok tparts) by (eapply Forall_impl; [|exact Ft]; intros a [H _]; exact H).
    assert (Bits : forall i, (i < length tparts)%nat -> N.testbit path (22 - N.of_nat i) = lit (nth i tparts [])).
    { intros i Hi. unfold path. rewrite N.lor_spec.
      assert (Z : N.testbit (if wild then 0 else 8388608) (22 - N.of_nat i) = false).
      { destruct wild; [apply N.bits_0|]. change 8388608 with (N.shiftl 1 23). rewrite testbit_pow2.
        apply N.eqb_neq. lia. }
      rewrite Z. cbn [orb]. rewrite path_bits_testbit by (unfold len in *; lia).
      unfold len in *.
      assert (E1 : (0 <=? 22 - (22 - N.of_nat i)) = true) by lia.
      assert (E2 : (22 - (22 - N.of_nat i) <? 0 + N.of_nat (length tparts)) = true) by lia.
      rewrite E1, E2. cbn [andb]. f_equal. f_equal. lia. }
    destruct (path =? 0) eqn:P0.
    - (* no literal level and a '#/' target *)
      apply N.eqb_eq in P0. unfold path in P0. apply N.lor_eq_0_iff in P0. destruct P0 as [P1 P2].
      assert (W : wild = true) by (destruct wild; [reflexivity | discriminate]). subst wild.
      assert (AllPlus : forall i, (i < length tparts)%nat -> nth i tparts [] = plus).
      { intros i Hi. pose proof (Bits i Hi) as B. unfold path in B. rewrite P2 in B.
        change (N.lor 0 0) with 0 in B. rewrite N.bits_0 in B.
        rewrite Forall_forall in Ft. destruct (Ft (nth i tparts []) (nth_In _ _ Hi)) as [_ [E|E]]; [exact E | congruence]. }
      intros V.
      assert (Jt : join_with sep tparts = [] \/ join_with sep tparts = hd [] rp).
      { destruct (target =? 1325880984) eqn:E.
        - left. apply N.eqb_eq in E. symmetry. apply Hinj. rewrite h_empty. symmetry. exact E.
        - right. apply N.eqb_eq in V. symmetry. apply Hinj. symmetry. exact V. }
      destruct tparts as [|t0 tr].
      + split; [rewrite len_nil; lia | reflexivity].
      + (* at least one level, all of them '+': the joined string is "+" or "+/..." *)
        pose proof (AllPlus 0%nat ltac:(cbn; lia)) as T0. cbn [nth] in T0. subst t0.
        pose proof (join_shape (plus :: tr)) as S. cbn iota in S.
        destruct Jt as [Jt|Jt]; [rewrite S in Jt; discriminate|].
        destruct tr as [|t1 tr].
        * cbn [join_with] in Jt. destruct rp as [|r0 rp]; [contradiction|]. cbn [hd] in Jt. subst r0.
          split; [rewrite !len_cons, len_nil; lia | reflexivity].
        * exfalso. rewrite S in Jt. destruct rp as [|r0 rp]; [contradiction|]. cbn [hd] in Jt.
          pose proof (Forall_inv Fr) as [_ Hs]. apply Hs. rewrite <- Jt. cbn. right. left. reflexivity.
    - set (md0 := max_depth_loop 23 0 path).
      set (D := if md0 =? 0 then len rp else md0).
      destruct ((len rp <? D) || (N.testbit path 23 && negb (len rp =? D))) eqn:G; [discriminate|].
      apply orb_false_iff in G. destruct G as [G1 G2].
      destruct (rewrite_parts rp 0 path) as [rp'|] eqn:R; [|discriminate].
      intros V. apply N.eqb_eq in V. apply Hinj in V.
      destruct (rewrite_parts_spec _ _ _ _ R) as [Lr Hn].
      assert (Fo : Forall level_ok (take D rp')).
      { apply Forall_forall. intros x Hx. unfold take in Hx. apply In_firstn in Hx.
        apply (In_nth _ _ []) in Hx. destruct Hx as (i & Hi & <-). assert (Hi2 : (i < length rp)%nat) by (rewrite <- Lr; exact Hi). clear Hi. rename Hi2 into Hi.
        destruct (Hn i Hi) as [E _]. unfold bytes in *. rewrite E. destruct ((0 + N.of_nat i <=? 22) && N.testbit path (22 - (0 + N.of_nat i))); [|exact plus_level_ok].
        rewrite Forall_forall in Fr. apply Fr. apply nth_In. exact Hi. }
      apply join_inj in V; [|exact Fo | exact Tl].
      assert (LD : len tparts = D).
      { rewrite <- V. apply len_take. unfold len. rewrite Lr. unfold len in G1. lia. }
      assert (X : N.testbit path 23 = negb wild).
      { unfold path. rewrite N.lor_spec, path_bits_bit23, orb_false_r. destruct wild; [apply N.bits_0 | reflexivity]. }
      split.
      + destruct wild; [lia|]. rewrite X in G2. cbn [negb andb] in G2. lia.
      + assert (LE : (length tparts <= length rp)%nat) by (clearbody D; clear - LD G1; unfold len in *; lia).
        apply levels_cover_nth; [exact LE|].
        intros i Hi. unfold bytes in *.
        assert (Hi' : (i < length rp)%nat) by (clear - Hi LE; lia).
        destruct (Hn i Hi') as [E1 E2]. cbn [N.add] in E1, E2.
        assert (Nt : nth i tparts [] = nth i rp' []).
        { rewrite <- V. unfold take. apply nth_firstn_lt. clearbody D. clear - LD Hi. unfold len in LD. lia. }
        rewrite (Bits i Hi) in E1, E2.
        assert (Le : (N.of_nat i <=? 22) = true) by (clear - Hi Lt; unfold len in *; lia).
        rewrite Le in E1, E2. cbn [andb] in E1, E2.
        destruct (lit (nth i tparts [])) eqn:Li.
        * rewrite Nt, E1, bytes_eqb_refl, (E2 eq_refl). cbn. apply orb_true_r.
        * rewrite Nt, E1. reflexivity.
  Qed.
End sound.

(* ---- completeness for targets whose last level is a literal (and for the bare "#/") ---- *)
Lemma max_depth_loop_spec : forall fuel i path j,
  i <= j -> j < i + N.of_nat fuel -> N.testbit path j = true ->
  (forall k, i <= k -> k < j -> N.testbit path k = false) ->
  max_depth_loop fuel i path = 23 - j.
Proof.
  induction fuel as [|f IH]; intros i path j Hij Hj T F; [lia|].
  cbn [max_depth_loop]. destruct (N.eq_dec i j) as [->|Hne].
  - rewrite T. reflexivity.
  - rewrite (F i) by lia. apply IH; try lia; try exact T. intros k H1 H2. apply F; lia.
Qed.

Lemma rewrite_parts_total : forall parts idx path,
  (forall i, (i < length parts)%nat ->
     (idx + N.of_nat i <=? 22) && N.testbit path (22 - (idx + N.of_nat i)) = true ->
     bytes_eqb (nth i parts []) plus = false) ->
  exists out, rewrite_parts parts idx path = Some out.
Proof.
  induction parts as [|p r IH]; intros idx path H; [eexists; reflexivity|].
  cbn [rewrite_parts].
  destruct (IH (idx + 1) path) as [r' Er].
  { intros i Hi B. apply (H (S i)); [cbn; lia|]. replace (idx + N.of_nat (S i)) with (idx + 1 + N.of_nat i) by lia. exact B. }
  rewrite Er.
  destruct ((idx <=? 22) && N.testbit path (22 - idx)) eqn:B.
  - pose proof (H 0%nat ltac:(cbn; lia)) as H0. rewrite N.add_0_r in H0. cbn [nth] in H0. rewrite (H0 B). eexists. reflexivity.
  - eexists. reflexivity.
Qed.

Lemma levels_cover_nth_inv : forall t r,
  levels_cover t r = true ->
  (length t <= length r)%nat
  /\ forall i, (i < length t)%nat ->
       is_wild_part (nth i t []) || (bytes_eqb (nth i t []) (nth i r []) && negb (bytes_eqb (nth i r []) plus)) = true.
Proof.
  induction t as [|a t IH]; intros r H; [split; [cbn; lia | intros i Hi; cbn in Hi; lia]|].
  destruct r as [|b r]; [discriminate|]. cbn [levels_cover] in H. apply andb_prop in H. destruct H as [H1 H2].
  destruct (IH r H2) as [L Hn]. split; [cbn; lia|].
  intros [|i] Hi; cbn [nth]; [exact H1 | apply Hn; cbn in Hi; lia].
Qed.

Lemma nth_last {A} (d : A) : forall l, l <> [] -> nth (length l - 1) l d = last l d.
Proof.
  induction l as [|x l IH]; intros H; [contradiction|]. destruct l as [|y l]; [reflexivity|].
  cbn [length Nat.sub]. cbn [length Nat.sub] in IH. rewrite Nat.sub_0_r in *. cbn [nth last]. apply IH. discriminate.
Qed.

Section complete.
  Variable h : bytes -> N.
  Hypothesis h_empty : h [] = 1325880984.

  Theorem validate_complete_partial tparts wild rp :
    Forall tpart_ok tparts -> len tparts <= 23 ->
    (* H_notrail: the target's last level is a literal, or the target is the bare "#/" *)
    (tparts = [] /\ wild = true \/ tparts <> [] /\ lit (last tparts []) = true) ->
    (if wild then len tparts <= len rp else len tparts = len rp) -> levels_cover tparts rp = true ->
    let '(path, target) := target_of h tparts wild in
    validate_parts h path target rp (h (hd [] rp)) = true.
  Proof.
    intros Ft Lt Hl Hd Hc. unfold target_of, validate_parts.
    destruct Hl as [[E1 E2]|[Ne Hl]].
    { subst tparts wild. cbn [path_bits]. change (N.lor 0 0 =? 0) with true. cbn iota. cbn [join_with]. rewrite h_empty. reflexivity. }
    set (path := N.lor (if wild then 0 else 8388608) (path_bits tparts 0)).
    set (n := length tparts).
    assert (Npos : (0 < n)%nat) by (subst n; clear - Ne; destruct tparts; [contradiction | cbn; lia]).
    assert (Bits : forall i, (i < n)%nat -> N.testbit path (22 - N.of_nat i) = lit (nth i tparts [])).
    { intros i Hi. unfold path. rewrite N.lor_spec.
      assert (Z : N.testbit (if wild then 0 else 8388608) (22 - N.of_nat i) = false).
      { destruct wild; [apply N.bits_0|]. change 8388608 with (N.shiftl 1 23). rewrite testbit_pow2. apply N.eqb_neq. lia. }
      rewrite Z. cbn [orb]. rewrite path_bits_testbit by (unfold len in *; lia).
      unfold len in *. subst n.
      assert (E1 : (0 <=? 22 - (22 - N.of_nat i)) = true) by lia.
      assert (E2 : (22 - (22 - N.of_nat i) <? 0 + N.of_nat (length tparts)) = true) by lia.
      rewrite E1, E2. cbn [andb]. f_equal. f_equal. lia. }
    assert (High : forall j, j <= 22 -> N.of_nat n <= 22 - j -> N.testbit path j = false).
    { intros j J1 J2. unfold path. rewrite N.lor_spec.
      assert (Z : N.testbit (if wild then 0 else 8388608) j = false).
      { destruct wild; [apply N.bits_0|]. change 8388608 with (N.shiftl 1 23). rewrite testbit_pow2. apply N.eqb_neq. lia. }
      rewrite Z. cbn [orb]. rewrite path_bits_testbit by (unfold len in *; lia).
      unfold len in *. subst n.
      assert (E2 : (22 - j <? 0 + N.of_nat (length tparts)) = false) by lia. rewrite E2. rewrite andb_false_r. reflexivity. }
    assert (LastBit : N.testbit path (23 - N.of_nat n) = true).
    { replace (23 - N.of_nat n) with (22 - N.of_nat (n - 1)) by (unfold len in Lt; lia).
      rewrite Bits by lia. rewrite <- Hl. f_equal. subst n. apply nth_last. exact Ne. }
    assert (P0 : (path =? 0) = false).
    { apply N.eqb_neq. intros E. rewrite E, N.bits_0 in LastBit. discriminate. }
    rewrite P0.
    assert (MD : max_depth_loop 23 0 path = N.of_nat n).
    { rewrite (max_depth_loop_spec 23 0 path (23 - N.of_nat n)).
      - unfold len in Lt. fold n in Lt. lia.
      - lia.
      - unfold len in Lt. fold n in Lt. lia.
      - exact LastBit.
      - intros k _ Hk. apply High; unfold len in Lt; fold n in Lt; lia. }
    rewrite MD.
    assert (E0 : (N.of_nat n =? 0) = false) by lia. rewrite E0.
    destruct (levels_cover_nth_inv _ _ Hc) as [Lc Hn]. fold n in Lc, Hn.
    assert (X : N.testbit path 23 = negb wild).
    { unfold path. rewrite N.lor_spec, path_bits_bit23, orb_false_r. destruct wild; [apply N.bits_0 | reflexivity]. }
    assert (G : (len rp <? N.of_nat n) || (N.testbit path 23 && negb (len rp =? N.of_nat n)) = false).
    { rewrite X. unfold len in *. fold n in Hd. destruct wild; cbn [negb andb]; [rewrite orb_false_r; lia|].
      assert (A : (N.of_nat (length rp) =? N.of_nat n) = true) by lia. rewrite A. cbn. rewrite orb_false_r. lia. }
    rewrite G.
    (* at literal positions the request carries the target's literal, which is not '+' *)
    assert (LitPos : forall i, (i < n)%nat -> lit (nth i tparts []) = true ->
                               nth i rp [] = nth i tparts [] /\ bytes_eqb (nth i rp []) plus = false).
    { intros i Hi Li. specialize (Hn i Hi). unfold is_wild_part in Hn. unfold lit in Li.
      apply andb_prop in Li. destruct Li as [L1 L2]. apply negb_true_iff in L1, L2. rewrite L1, L2 in Hn. cbn [orb] in Hn.
      apply andb_prop in Hn. destruct Hn as [H1 H2]. apply bytes_eqb_eq in H1. apply negb_true_iff in H2. split; [symmetry; exact H1 | exact H2]. }
    destruct (rewrite_parts_total rp 0 path) as [rp' R].
    { intros i Hi B. apply andb_prop in B. destruct B as [B1 B2]. cbn [N.add] in B2.
      destruct (Nat.lt_ge_cases i n) as [Hlt|Hge].
      - rewrite Bits in B2 by exact Hlt. apply (LitPos i Hlt B2).
      - rewrite High in B2; [discriminate | lia | lia]. }
    rewrite R. destruct (rewrite_parts_spec _ _ _ _ R) as [Lr Hs].
    assert (T : take (N.of_nat n) rp' = tparts).
    { unfold take. rewrite Nat2N.id. apply (nth_ext _ _ [] []).
      - rewrite firstn_length. subst n. unfold bytes in *. lia.
      - intros i Hi. rewrite firstn_length in Hi.
        assert (Hi2 : (i < n)%nat) by (clear - Hi; lia).
        rewrite nth_firstn_lt by exact Hi2.
        assert (Hi3 : (i < length rp)%nat) by (subst n; unfold bytes in *; clear - Hi2 Lc; lia).
        destruct (Hs i Hi3) as [E _]. cbn [N.add] in E. unfold bytes in *. rewrite E, (Bits i Hi2).
        assert (Le : (N.of_nat i <=? 22) = true) by (unfold len in Lt; lia). rewrite Le. cbn [andb].
        destruct (lit (nth i tparts [])) eqn:Li.
        + apply (LitPos i Hi2 Li).
        + rewrite Forall_forall in Ft. destruct (Ft (nth i tparts []) (nth_In _ _ Hi2)) as [_ [Ep|Ep]]; [symmetry; exact Ep | congruence]. }
    rewrite T. apply N.eqb_refl.
  Qed.
End complete.
