(* Known finding F2 (C03): a target with a wildcard level after its last literal level validates
   nothing it covers.  Evidence for the known finding, not a proof obligation. *)
From Emitter Require Import Lib.Base Model.MsgCodec Model.Murmur Model.Channel Model.Cipher Model.Key Spec.KeyAuth.

Definition a := [97].
Definition x := [120].

(* target "a/+/": covers "a/x/", yet it is refused *)
Lemma C03_trailing_plus_refuted :
  levels_cover [a; plus] [a; x] = true
  /\ (let '(p, t) := target_of murmur [a; plus] false in validate_parts murmur p t [a; x] (murmur a)) = false
  /\ (let '(p, t) := target_of murmur [a; plus] true in validate_parts murmur p t [a; x; x] (murmur a)) = false
  /\ (let '(p, t) := target_of murmur [plus] true in validate_parts murmur p t [a; x] (murmur a)) = false.
Proof. vm_compute. repeat split; reflexivity. Qed.
