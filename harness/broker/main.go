// Harness for C02 / C07 / C08 / C18 (and the client side of C09): scripted MQTT sessions of several
// clients against a real broker.Service over in-memory connections (hook VerifAttach), every request
// acknowledged before the next is sent; presence notifications are flushed through a FIFO barrier.
package main

import (
	"bufio"
	"context"
	"encoding/json"
	"errors"
	"fmt"
	"io"
	"net"
	"sort"
	"strings"
	"sync"
	"sync/atomic"
	"time"

	"github.com/emitter-io/emitter/internal/broker"
	"github.com/emitter-io/emitter/internal/config"
	"github.com/emitter-io/emitter/internal/message"
	"github.com/emitter-io/emitter/internal/network/mqtt"
	"github.com/emitter-io/emitter/internal/provider/logging"
	"github.com/emitter-io/emitter/internal/security"
	"github.com/emitter-io/emitter/internal/security/hash"
	"github.com/emitter-io/emitter/internal/security/license"
	"github.com/emitter-io/emitter/internal/zzverif/vlib"
)

var cfg *vlib.Config

type quiet struct{}

func (quiet) Name() string                                  { return "quiet" }
func (quiet) Configure(config map[string]interface{}) error { return nil }
func (quiet) Printf(format string, v ...interface{})        {}

// ---- client ------------------------------------------------------------------------------------

// srvSock is the broker's end of a connection; it tells when the broker has closed it, which is the
// last thing Conn.Close() does (after the unsubscribe loop and the last will).
type srvSock struct {
	net.Conn
	done     chan struct{}
	once     sync.Once
	failNext int32 // the next write reports an error (after the bytes went through)
}

func (s *srvSock) Write(p []byte) (int, error) {
	n, err := s.Conn.Write(p)
	if err == nil && atomic.CompareAndSwapInt32(&s.failNext, 1, 0) {
		return n, errors.New("write: broken pipe (injected)")
	}
	return n, err
}

func (s *srvSock) Close() error {
	s.once.Do(func() { close(s.done) })
	return s.Conn.Close()
}

type client struct {
	idx    int
	conn   net.Conn
	srv    *srvSock
	pkts   chan mqtt.Message
	closed chan struct{}
	guid   string
	open   bool
	mid    uint16
}

func newClient(svc *broker.Service, idx int) *client {
	a, b := net.Pipe()
	c := &client{idx: idx, conn: a, pkts: make(chan mqtt.Message, 4096), closed: make(chan struct{}), open: true}
	c.srv = &srvSock{Conn: b, done: make(chan struct{})}
	_, c.guid = svc.VerifAttachConn(c.srv)
	go func() {
		rd := bufio.NewReaderSize(a, 65536)
		for {
			m, err := mqtt.DecodePacket(rd, 1<<20)
			if err != nil {
				close(c.closed)
				return
			}
			c.pkts <- m
		}
	}()
	return c
}

func (c *client) send(m mqtt.Message) bool {
	c.conn.SetWriteDeadline(time.Now().Add(3 * time.Second))
	_, err := m.EncodeTo(c.conn)
	return err == nil
}

func (c *client) sendRaw(b []byte) bool {
	c.conn.SetWriteDeadline(time.Now().Add(3 * time.Second))
	_, err := c.conn.Write(b)
	return err == nil
}

// waitFor collects packets until pred is satisfied (or the connection closes / 3 s pass).
func (c *client) waitFor(pred func(mqtt.Message) bool) (got []mqtt.Message, closed bool) {
	timeout := time.After(3 * time.Second)
	for {
		select {
		case m := <-c.pkts:
			got = append(got, m)
			if pred(m) {
				return got, false
			}
		case <-c.closed:
			// drain what is left
			for {
				select {
				case m := <-c.pkts:
					got = append(got, m)
				default:
					return got, true
				}
			}
		case <-timeout:
			return got, false
		}
	}
}

func (c *client) drain() (got []mqtt.Message) {
	for {
		select {
		case m := <-c.pkts:
			got = append(got, m)
		default:
			return
		}
	}
}

// ---- world -------------------------------------------------------------------------------------

type world struct {
	svc          *broker.Service
	clients      []*client
	watcher      *client // presence barrier: watches zz/
	helper       *client // toggles a subscription on zz/
	helperSubbed bool
	zzKey        string
	guids        map[string]int
	pending      [][]mqtt.Message // packets collected per modeled client since the last step
}

func isType(t uint8) func(mqtt.Message) bool {
	return func(m mqtt.Message) bool { return m.Type() == t }
}

func (w *world) connectAux(c *client) {
	c.send(&mqtt.Connect{ClientID: []byte("aux"), Username: []byte("aux")})
	c.waitFor(isType(mqtt.TypeOfConnack))
	c.send(&mqtt.Publish{Header: mqtt.Header{QOS: 1}, MessageID: 999, Topic: []byte("emitter/me/"), Payload: []byte("{}")})
	got, _ := c.waitFor(isType(mqtt.TypeOfPuback))
	for _, m := range got {
		if p, ok := m.(*mqtt.Publish); ok && string(p.Topic) == "emitter/me/" {
			var me struct {
				ID string `json:"id"`
			}
			json.Unmarshal(p.Payload, &me)
			c.guid = me.ID
		}
	}
}

// barrier: every presence notification enqueued so far has been dispatched when the watcher sees
// the notification caused by the helper's toggle (single FIFO queue, single dispatcher).
func (w *world) barrier() {
	topic := []byte(w.zzKey + "/zz/")
	if w.helperSubbed {
		w.helper.send(&mqtt.Unsubscribe{Header: mqtt.Header{QOS: 1}, MessageID: 1, Topics: []mqtt.TopicQOSTuple{{Topic: topic}}})
		w.helper.waitFor(isType(mqtt.TypeOfUnsuback))
	} else {
		w.helper.send(&mqtt.Subscribe{Header: mqtt.Header{QOS: 1}, MessageID: 1, Subscriptions: []mqtt.TopicQOSTuple{{Topic: topic}}})
		w.helper.waitFor(isType(mqtt.TypeOfSuback))
	}
	w.helperSubbed = !w.helperSubbed
	w.watcher.waitFor(func(m mqtt.Message) bool {
		p, ok := m.(*mqtt.Publish)
		return ok && string(p.Topic) == "emitter/presence/"
	})
	for i, c := range w.clients {
		// everything the broker wrote to this connection so far has been decoded by our reader once the
		// answer to a PINGREQ sent now has been (one socket, one reader: in order); the answer itself is
		// not an observation
		if c.open && c.send(&mqtt.Pingreq{}) {
			got, _ := c.waitFor(isType(mqtt.TypeOfPingresp))
			if n := len(got); n > 0 && got[n-1].Type() == mqtt.TypeOfPingresp {
				got = got[:n-1]
			}
			w.pending[i] = append(w.pending[i], got...)
		}
		w.pending[i] = append(w.pending[i], c.drain()...)
	}
}

// ---- packet terms --------------------------------------------------------------------------------

func (w *world) who(id string) uint64 {
	if i, ok := w.guids[id]; ok {
		return uint64(i)
	}
	return 99
}

func (w *world) pktTerm(m mqtt.Message) string {
	switch p := m.(type) {
	case *mqtt.Connack:
		return vlib.App("PConnack", vlib.N(uint64(p.ReturnCode)))
	case *mqtt.Suback:
		return vlib.App("PSuback", vlib.N(uint64(p.MessageID)), vlib.Bytes(p.Qos))
	case *mqtt.Unsuback:
		return vlib.App("PUnsuback", vlib.N(uint64(p.MessageID)))
	case *mqtt.Puback:
		return vlib.App("PPuback", vlib.N(uint64(p.MessageID)))
	case *mqtt.Pingresp:
		return "PPingresp"
	case *mqtt.Publish:
		topic := string(p.Topic)
		switch {
		case topic == "emitter/error/":
			var e struct {
				Status int    `json:"status"`
				Req    uint16 `json:"req"`
			}
			json.Unmarshal(p.Payload, &e)
			return vlib.App("PError", vlib.N(uint64(e.Status)), vlib.N(uint64(e.Req)))
		case topic == "emitter/presence/":
			var n struct {
				Req     uint16          `json:"req"`
				Status  int             `json:"status"`
				Event   string          `json:"event"`
				Channel string          `json:"channel"`
				Who     json.RawMessage `json:"who"`
			}
			json.Unmarshal(p.Payload, &n)
			if n.Event == "status" || n.Status != 0 {
				var who []struct {
					ID       string `json:"id"`
					Username string `json:"username"`
				}
				json.Unmarshal(n.Who, &who)
				items := []string{}
				sort.Slice(who, func(i, j int) bool { return w.who(who[i].ID) < w.who(who[j].ID) })
				for _, x := range who {
					items = append(items, vlib.Pair(vlib.N(w.who(x.ID)), vlib.Str(x.Username)))
				}
				return vlib.App("PPresenceStatus", vlib.N(uint64(n.Req)), vlib.N(uint64(n.Status)), vlib.Str(n.Channel), vlib.List(items))
			}
			var who struct {
				ID       string `json:"id"`
				Username string `json:"username"`
			}
			json.Unmarshal(n.Who, &who)
			return vlib.App("PPresence", vlib.Bool(n.Event == "subscribe"), vlib.Str(n.Channel), vlib.N(w.who(who.ID)), vlib.Str(who.Username))
		case topic == "emitter/me/":
			return "PMe"
		case topic == "emitter/link/":
			var l struct {
				Req     uint16 `json:"req"`
				Status  int    `json:"status"`
				Name    string `json:"name"`
				Channel string `json:"channel"`
			}
			json.Unmarshal(p.Payload, &l)
			return vlib.App("PLink", vlib.N(uint64(l.Req)), vlib.N(uint64(l.Status)), vlib.Str(l.Name), vlib.Str(l.Channel))
		case topic == "emitter/history/":
			var h struct {
				Req      uint16 `json:"req"`
				Status   int    `json:"status"`
				Messages []struct {
					Channel string `json:"channel"`
					Payload []byte `json:"payload"`
				} `json:"messages"`
			}
			json.Unmarshal(p.Payload, &h)
			status := h.Status
			if status == 0 {
				status = 200
			}
			items := []string{}
			for _, m := range h.Messages {
				items = append(items, vlib.Pair(vlib.Str(m.Channel), vlib.Bytes(m.Payload)))
			}
			return vlib.App("PHistory", vlib.N(uint64(h.Req)), vlib.N(uint64(status)), vlib.List(items))
		case strings.HasPrefix(topic, "emitter/"):
			var e struct {
				Status int    `json:"status"`
				Req    uint16 `json:"req"`
			}
			json.Unmarshal(p.Payload, &e)
			return vlib.App("POther", vlib.Str(topic), vlib.N(uint64(e.Status)), vlib.N(uint64(e.Req)))
		}
		return vlib.App("PMsg", vlib.Str(topic), vlib.Bytes(p.Payload))
	}
	return "PUnknown"
}

func (w *world) obsTerm() string {
	items := make([]string, len(w.clients))
	for i := range w.clients {
		ps := make([]string, len(w.pending[i]))
		for k, m := range w.pending[i] {
			ps[k] = w.pktTerm(m)
		}
		items[i] = vlib.List(ps)
		w.pending[i] = nil
	}
	return vlib.List(items)
}

// ---- one history ---------------------------------------------------------------------------------

type keyInfo struct {
	str   string
	bytes security.Key
	name  string
}

// scriptStep forces the choices of one step of a history (directed scenarios).
type scriptStep struct {
	ci    int
	x     int    // selects the kind of request like the random draw does: 0 sub, 30 unsub, 50 pub, 85 presence, 99 end
	topic string // channel (without key) for sub / unsub / pub / presence / link
	how   int    // way of ending
	key   int    // index of the key to use (default 0 = everything on #/)
	name  string // link name (x = 75: link request; x = 50 with a name: publish through the link)
	sub   bool   // link request: subscribe as well
	will  string // connect step: last will on this channel (with keys[key]); "" = random
	skip  bool   // first step of a connection: no CONNECT is sent at all (the broker does not require one)
	pres  int    // presence request: 0 = status only, 1 = status:false changes:true, 2 = status:false changes:false, 3 = status:true changes:false
}

func history(lic license.License, mqttMode bool, nClients, steps int, script []scriptStep) (string, map[string]interface{}) {
	r := cfg.Rng
	c := config.NewDefault().(*config.Config)
	c.License = lic.String()
	c.Cluster = nil
	if mqttMode {
		c.Matcher = "mqtt"
	}
	svc, err := broker.NewService(context.Background(), c)
	if err != nil {
		panic(err)
	}
	logging.Logger = quiet{}
	defer svc.Close()
	cipher, _ := lic.Cipher()
	now := time.Now().Unix()

	mk := func(target string, perms uint8, expired bool) keyInfo {
		k := security.Key(make([]byte, 24))
		k.SetSalt(uint16(r.Intn(65536)))
		k.SetMaster(1)
		k.SetContract(lic.Contract())
		k.SetSignature(lic.Signature())
		k.SetPermissions(perms)
		k.SetTarget(target)
		if expired {
			k.SetExpires(time.Unix(now-5000, 0))
		}
		s, _ := cipher.EncryptKey(k)
		return keyInfo{s, k, fmt.Sprintf("%s:%d", target, perms)}
	}
	const rwslp = security.AllowRead | security.AllowWrite | security.AllowStore | security.AllowLoad | security.AllowPresence
	keys := []keyInfo{
		mk("#/", rwslp, false),
		mk("a/#/", rwslp, false),
		mk("a/b/", security.AllowRead|security.AllowWrite, false),
		mk("b/#/", security.AllowRead|security.AllowWrite|security.AllowPresence, false),
		mk("a/#/", security.AllowRead, false),
		mk("a/#/", security.AllowWrite|security.AllowStore, false),
		mk("a/#/", security.AllowRead|security.AllowWrite|security.AllowExtend, false), // extendable
		mk("#/", rwslp, true), // expired
		mk("#/", security.AllowRead|security.AllowWrite|security.AllowStore, false), // no load
	}
	zz := mk("zz/", security.AllowRead|security.AllowWrite|security.AllowPresence, false)
	keyTerms := make([]string, 0, len(keys))
	for _, k := range keys {
		keyTerms = append(keyTerms, vlib.Pair(vlib.Str(k.str), vlib.Bytes(k.bytes)))
	}

	w := &world{svc: svc, guids: map[string]int{}, zzKey: zz.str}
	w.watcher = newClient(svc, -1)
	w.helper = newClient(svc, -2)
	w.connectAux(w.watcher)
	w.connectAux(w.helper)
	// watcher asks for presence changes on zz/
	req, _ := json.Marshal(map[string]interface{}{"key": zz.str, "channel": "zz/", "status": false, "changes": true})
	w.watcher.send(&mqtt.Publish{Header: mqtt.Header{QOS: 1}, MessageID: 7, Topic: []byte("emitter/presence/"), Payload: req})
	w.watcher.waitFor(isType(mqtt.TypeOfPuback))

	var initialSubs []uint64
	for i := 0; i < nClients; i++ {
		cl := newClient(svc, i)
		w.clients = append(w.clients, cl)
		w.guids[cl.guid] = i
		initialSubs = append(initialSubs, uint64(hash.OfString(cl.guid)))
	}
	w.pending = make([][]mqtt.Message, nClients)

	channels := []string{"a/", "a/b/", "b/a/", "a/a/", "b/b/", "a/b/c/", "b/", "x/x/y/", "y/", "a/+/", "a/#/", "+/b/", "#/", "a//b/", "a/b", "a b/", "", "a/?ttl=300", "a/b/?last=2", "a/b/?last=0", "a/?me=0", "a/b/c/?ttl=200&me=0", "presence/", "presence/a/", "a/presence/", "y/x/x/", "a/b/?until=1600000000", "a/b/?from=1600000000&until=1600000100", "a/b/?last=010", "a/b/?last=0x10", "a/b/?last=08", "a/a/a/b/", "z/z/", "a/b/?last=2147483648", "a/?last=9223372036854775807", "a/b/?last=4294967296"}
	staticChannels := []string{"a/", "a/b/", "b/a/", "a/a/", "b/b/", "a/b/c/", "b/", "x/x/y/", "y/", "a/b/?ttl=500", "a/?me=0", "a/b/c/?ttl=200&me=0", "a/?ttl=100", "a/b/?me=1", "a/b/?ttl=2592001", "b/?ttl=31536000", "a/?ttl=2592000", "a/?ttl=0", "a/b/?ttl=0&me=0", "presence/", "presence/a/", "a/presence/", "y/x/x/", "a/b/?ttl=0100", "a/b/?ttl=09", "a/b/?ttl=0x20", "a/a/a/b/", "z/z/"}
	usernames := []string{"", "alice", "bob", "", "carol"}

	var ops []string
	kinds := map[string]int{}
	connected := make([]bool, nClients)
	everConnected := make([]bool, nClients)
	nextMid := func(cl *client) uint16 { cl.mid++; return cl.mid }
	type held struct{ topic string }
	heldBy := make([][]string, nClients)

	step := func(ci int, opTerm string, kind string) {
		w.barrier()
		ops = append(ops, vlib.App("Step", vlib.N(uint64(ci)), opTerm, w.obsTerm()))
		kinds[kind]++
	}

	if script != nil {
		steps = len(script)
	}
	for s := 0; s < steps; s++ {
		ci := r.Intn(nClients)
		var sc *scriptStep
		if script != nil {
			sc = &script[s]
			ci = sc.ci
		}
		cl := w.clients[ci]
		if !cl.open {
			if r.Intn(3) == 0 { // reconnect as a new connection in the same slot
				cl = newClient(svc, ci)
				w.clients[ci] = cl
				w.guids[cl.guid] = ci
				connected[ci] = false
				everConnected[ci] = false
				heldBy[ci] = nil
				step(ci, vlib.App("OReopen", vlib.N(uint64(hash.OfString(cl.guid)))), "reopen")
			}
			continue
		}
		if !connected[ci] && !everConnected[ci] && ((sc == nil && r.Intn(6) == 0) || (sc != nil && sc.skip)) {
			connected[ci] = true // a session without CONNECT
			everConnected[ci] = true
		}
		if !connected[ci] {
			everConnected[ci] = true
			user := usernames[r.Intn(len(usernames))]
			con := &mqtt.Connect{ClientID: []byte(fmt.Sprintf("c%d", ci)), Username: []byte(user), UsernameFlag: user != "", CleanSeshFlag: sc != nil || r.Intn(2) == 0}
			willTerm := "None"
			if r.Intn(3) == 0 || (sc != nil && sc.will != "") {
				k := keys[r.Intn(len(keys))]
				if r.Intn(4) == 0 {
					k = keys[6] // a key that may not publish although it has the write permission (extendable)
				}
				ch := staticChannels[r.Intn(len(staticChannels))]
				if r.Intn(6) == 0 {
					ch = channels[r.Intn(len(channels))]
				}
				if sc != nil && sc.will != "" {
					k, ch = keys[sc.key], sc.will
				}
				con.WillFlag = true
				con.WillRetainFlag = r.Intn(3) == 0
				con.WillTopic = []byte(k.str + "/" + ch)
				con.WillMessage = []byte(fmt.Sprintf("will-%d", ci))
				willTerm = "(Some " + vlib.App("Will", vlib.Bool(con.WillRetainFlag), vlib.Bytes(con.WillTopic), vlib.Bytes(con.WillMessage)) + ")"
			}
			cl.send(con)
			got, _ := cl.waitFor(isType(mqtt.TypeOfConnack))
			w.pending[ci] = append(w.pending[ci], got...)
			// learn the connection id through emitter/me/
			cl.send(&mqtt.Publish{Header: mqtt.Header{QOS: 1}, MessageID: 999, Topic: []byte("emitter/me/"), Payload: []byte("{}")})
			got, _ = cl.waitFor(isType(mqtt.TypeOfPuback))
			for _, m := range got {
				if p, ok := m.(*mqtt.Publish); ok && string(p.Topic) == "emitter/me/" {
					var me struct {
						ID string `json:"id"`
					}
					json.Unmarshal(p.Payload, &me)
					cl.guid = me.ID
					w.guids[me.ID] = ci
				}
			}
			connected[ci] = true
			step(ci, vlib.App("OConnect", vlib.Str(user), willTerm, vlib.N(uint64(hash.OfString(cl.guid)))), "connect")
			continue
		}
		x := r.Intn(100)
		if sc != nil {
			x = sc.x
		}
		if sc != nil && x == 91 { // the next write of the broker to this connection reports an error
			atomic.StoreInt32(&cl.srv.failNext, 1)
			continue
		}
		switch {
		case x < 26: // subscribe
			k := keys[r.Intn(len(keys))]
			ch := channels[r.Intn(len(channels))]
			topic := k.str + "/" + ch
			if r.Intn(30) == 0 {
				topic = "garbage"
			}
			if len(heldBy[ci]) > 0 && r.Intn(4) == 0 { // the same filter once more
				topic = heldBy[ci][r.Intn(len(heldBy[ci]))]
			}
			if sc != nil {
				topic = keys[sc.key].str + "/" + sc.topic
			}
			mid := nextMid(cl)
			qos := uint8(r.Intn(2))
			cl.send(&mqtt.Subscribe{Header: mqtt.Header{QOS: 1}, MessageID: mid, Subscriptions: []mqtt.TopicQOSTuple{{Topic: []byte(topic), Qos: qos}}})
			got, _ := cl.waitFor(isType(mqtt.TypeOfSuback))
			w.pending[ci] = append(w.pending[ci], got...)
			heldBy[ci] = append(heldBy[ci], topic)
			step(ci, vlib.App("OSub", vlib.N(uint64(mid)), vlib.Str(topic), vlib.N(uint64(qos))), "subscribe")
		case x < 42: // unsubscribe (mostly something held)
			topic := keys[r.Intn(len(keys))].str + "/" + channels[r.Intn(len(channels))]
			if len(heldBy[ci]) > 0 && r.Intn(10) < 8 {
				j := r.Intn(len(heldBy[ci]))
				topic = heldBy[ci][j]
			}
			if sc != nil {
				topic = keys[sc.key].str + "/" + sc.topic
			}
			mid := nextMid(cl)
			cl.send(&mqtt.Unsubscribe{Header: mqtt.Header{QOS: 1}, MessageID: mid, Topics: []mqtt.TopicQOSTuple{{Topic: []byte(topic)}}})
			got, _ := cl.waitFor(isType(mqtt.TypeOfUnsuback))
			w.pending[ci] = append(w.pending[ci], got...)
			step(ci, vlib.App("OUnsub", vlib.N(uint64(mid)), vlib.Str(topic)), "unsubscribe")
		case x < 72: // publish
			k := keys[r.Intn(len(keys))]
			ch := staticChannels[r.Intn(len(staticChannels))]
			if r.Intn(8) == 0 {
				ch = channels[r.Intn(len(channels))]
			}
			topic := k.str + "/" + ch
			if r.Intn(8) == 0 {
				topic = vlib.Pick2(r, "l1", "l2", "l1", "l2", "zz9") // link names (maybe undefined)
			}
			if sc != nil {
				topic = keys[sc.key].str + "/" + sc.topic
				if sc.name != "" {
					topic = sc.name
				}
			}
			mid := nextMid(cl)
			payload := []byte(fmt.Sprintf("m%d-%d", ci, s))
			if r.Intn(8) == 0 || (sc != nil && sc.how == 7) {
				payload = nil
			}
			retain := r.Intn(5) == 0
			if sc != nil {
				retain = sc.sub
			}
			cl.send(&mqtt.Publish{Header: mqtt.Header{QOS: 1, Retain: retain}, MessageID: mid, Topic: []byte(topic), Payload: payload})
			got, _ := cl.waitFor(isType(mqtt.TypeOfPuback))
			w.pending[ci] = append(w.pending[ci], got...)
			step(ci, vlib.App("OPub", vlib.N(uint64(mid)), vlib.Bool(retain), vlib.Str(topic), vlib.Bytes(payload)), "publish")
		case x < 80: // link request
			k := keys[r.Intn(len(keys))]
			name := vlib.Pick2(r, "l1", "l2", "l1", "toolong", "")
			ch := staticChannels[r.Intn(len(staticChannels))]
			sub := r.Intn(2) == 0
			if sc != nil {
				k, name, ch, sub = keys[sc.key], sc.name, sc.topic, sc.sub
			}
			mid := nextMid(cl)
			req, _ := json.Marshal(map[string]interface{}{"name": name, "key": k.str, "channel": ch, "subscribe": sub})
			cl.send(&mqtt.Publish{Header: mqtt.Header{QOS: 1}, MessageID: mid, Topic: []byte("emitter/link/"), Payload: req})
			got, _ := cl.waitFor(isType(mqtt.TypeOfPuback))
			w.pending[ci] = append(w.pending[ci], got...)
			step(ci, vlib.App("OLink", vlib.N(uint64(mid)), vlib.Str(name), vlib.Str(k.str), vlib.Str(ch), vlib.Bool(sub)), "link")
		case x < 84: // history request (the key travels inside the channel text)
			k := keys[r.Intn(len(keys))]
			ch := vlib.Pick2(r, "a/", "a/b/", "a/b/?last=3", "a/b/c/?last=100", "a/?last=0", "a/b/?last=2147483648", "a/?last=9223372036854775807", "b/", "a/+/?last=5", "a/b/?from=1&last=9", "a b/", "a/b")
			if sc != nil {
				k, ch = keys[sc.key], sc.topic
			}
			text := k.str + "/" + ch
			if r.Intn(20) == 0 && sc == nil {
				text = ch // no key at all
			}
			req, _ := json.Marshal(map[string]interface{}{"key": k.str, "channel": text})
			mid := nextMid(cl)
			cl.send(&mqtt.Publish{Header: mqtt.Header{QOS: 1}, MessageID: mid, Topic: []byte("emitter/history/"), Payload: req})
			got, _ := cl.waitFor(isType(mqtt.TypeOfPuback))
			w.pending[ci] = append(w.pending[ci], got...)
			step(ci, vlib.App("OHistory", vlib.N(uint64(mid)), vlib.Str(text)), "history")
		case x < 92: // presence request
			k := keys[r.Intn(len(keys))]
			ch := vlib.Pick2(r, "a/", "a/b/", "b/", "a/b/c/", "a", "b/a/", "presence/", "presence/a/")
			status := r.Intn(3) != 0
			changes := r.Intn(3) // 0 = absent, 1 = true, 2 = false
			if sc != nil {
				k, ch, status, changes = keys[sc.key], sc.topic, true, 0
				switch sc.pres {
				case 1:
					status, changes = false, 1
				case 2:
					status, changes = false, 2
				case 3:
					status, changes = true, 2
				}
			}
			m := map[string]interface{}{"key": k.str, "channel": ch, "status": status}
			if changes == 1 {
				m["changes"] = true
			} else if changes == 2 {
				m["changes"] = false
			}
			req, _ := json.Marshal(m)
			mid := nextMid(cl)
			cl.send(&mqtt.Publish{Header: mqtt.Header{QOS: 1}, MessageID: mid, Topic: []byte("emitter/presence/"), Payload: req})
			got, _ := cl.waitFor(isType(mqtt.TypeOfPuback))
			w.pending[ci] = append(w.pending[ci], got...)
			step(ci, vlib.App("OPresence", vlib.N(uint64(mid)), vlib.Str(k.str), vlib.Str(ch), vlib.Bool(status), vlib.N(uint64(changes))), "presence")
		case x < 93: // the next request of this connection is another CONNECT
			connected[ci] = false
			continue
		case x < 95: // ping
			cl.send(&mqtt.Pingreq{})
			got, _ := cl.waitFor(isType(mqtt.TypeOfPingresp))
			w.pending[ci] = append(w.pending[ci], got...)
			step(ci, "OPing", "ping")
		default: // the connection ends: DISCONNECT, abrupt close, or a malformed packet
			how := r.Intn(4)
			if sc != nil {
				how = sc.how
			}
			switch how {
			case 0:
				cl.send(&mqtt.Disconnect{})
			case 1:
				cl.conn.Close()
			case 3:
				cl.sendRaw([]byte{0x82, 0x01, 0x00}) // SUBSCRIBE too short for its message id: the decoder panics
			default:
				cl.sendRaw([]byte{0x30, 0x02, 0x00, 0x09}) // PUBLISH whose topic length exceeds the packet
			}
			select {
			case <-cl.closed:
			case <-time.After(2 * time.Second):
			}
			cl.conn.Close()
			// the broker side has run Conn.Close() to its end (unsubscribe loop, last will, socket)
			select {
			case <-cl.srv.done:
			case <-time.After(3 * time.Second):
			}
			cl.open = false
			connected[ci] = false
			w.pending[ci] = append(w.pending[ci], cl.drain()...)
			// wait until the broker side has finished Close() (connection counter drops)
			for k := 0; k < 400 && svc.VerifConnections() > int64(2+countOpen(w.clients)); k++ {
				time.Sleep(time.Millisecond)
			}
			step(ci, vlib.App("OEnd", vlib.N(uint64(how))), "end")
		}
	}
	// final observation of the index: everything held by modeled clients, via the dump hook
	nodes, pairs := svc.VerifTrie().VerifDump()
	_ = nodes
	var dump []string
	for _, p := range pairs {
		ws := make([]uint64, len(p.Ssid))
		for i, v := range p.Ssid {
			ws[i] = uint64(v)
		}
		dump = append(dump, vlib.Pair(vlib.NList(ws), vlib.N(uint64(p.Sub))))
	}
	sort.Strings(dump)
	// what the message store holds at the end: channel, payload and ttl of every stored message
	var stored []string
	for _, lvl := range []string{"a", "b", "x", "y", "z", "presence"} {
		f, _ := svc.VerifStorage().Query(message.Ssid{lic.Contract(), hash.OfString(lvl)}, time.Unix(0, 0), time.Unix(0, 0), nil, 100000)
		for _, m := range f {
			stored = append(stored, vlib.Pair(vlib.Pair(vlib.Bytes(m.Channel), vlib.Bytes(m.Payload)), vlib.N(uint64(m.TTL))))
		}
	}
	sort.Strings(stored)
	w.watcher.conn.Close()
	w.helper.conn.Close()
	for _, cl := range w.clients {
		cl.conn.Close()
	}
	return vlib.App("CBroker", vlib.Bool(mqttMode), vlib.N(uint64(lic.Contract())), vlib.N(uint64(lic.Signature())), vlib.Z(now),
			vlib.List(keyTerms), vlib.N(uint64(nClients)), vlib.NList(initialSubs), vlib.List(ops), vlib.List(dump), vlib.List(stored), vlib.N(uint64(hash.OfString(w.watcher.guid))), vlib.N(uint64(hash.OfString(w.helper.guid)))),
		map[string]interface{}{"clients": nClients, "steps": len(ops), "kinds": kinds, "mqtt": mqttMode}
}

// burst: a watcher of presence changes stops reading while another client makes n subscriptions
// in one packet (more than the notification queue holds); afterwards it must have been told about
// every one of them, in order.
func burst(lic license.License, n int) (string, map[string]interface{}) {
	c := config.NewDefault().(*config.Config)
	c.License = lic.String()
	c.Cluster = nil
	svc, err := broker.NewService(context.Background(), c)
	if err != nil {
		panic(err)
	}
	logging.Logger = quiet{}
	defer svc.Close()
	cipher, _ := lic.Cipher()
	k := security.Key(make([]byte, 24))
	k.SetSalt(99)
	k.SetMaster(1)
	k.SetContract(lic.Contract())
	k.SetSignature(lic.Signature())
	k.SetPermissions(security.AllowRead | security.AllowWrite | security.AllowPresence)
	k.SetTarget("a/#/")
	key, _ := cipher.EncryptKey(k)
	// the watcher reads synchronously, so that it can stop reading
	wa, wb := net.Pipe()
	svc.VerifAttach(wb)
	rd := bufio.NewReaderSize(wa, 65536)
	(&mqtt.Connect{ClientID: []byte("w")}).EncodeTo(wa)
	mqtt.DecodePacket(rd, 1<<20)
	req, _ := json.Marshal(map[string]interface{}{"key": key, "channel": "a/", "status": false, "changes": true})
	(&mqtt.Publish{Header: mqtt.Header{QOS: 1}, MessageID: 7, Topic: []byte("emitter/presence/"), Payload: req}).EncodeTo(wa)
	for {
		m, err := mqtt.DecodePacket(rd, 1<<20)
		if err != nil || m.Type() == mqtt.TypeOfPuback {
			break
		}
	}
	sub := newClient(svc, 0)
	sub.send(&mqtt.Connect{ClientID: []byte("s")})
	sub.waitFor(isType(mqtt.TypeOfConnack))
	var topics []mqtt.TopicQOSTuple
	var want []string
	for i := 0; i < n; i++ {
		ch := fmt.Sprintf("a/%d/", i)
		topics = append(topics, mqtt.TopicQOSTuple{Topic: []byte(key + "/" + ch)})
		want = append(want, vlib.Str(ch))
	}
	go sub.send(&mqtt.Subscribe{Header: mqtt.Header{QOS: 1}, MessageID: 2, Subscriptions: topics})
	time.Sleep(400 * time.Millisecond) // the watcher is not reading
	var got []string
	wa.SetReadDeadline(time.Now().Add(4 * time.Second))
	for len(got) < n {
		m, err := mqtt.DecodePacket(rd, 1<<20)
		if err != nil {
			break
		}
		if p, ok := m.(*mqtt.Publish); ok && string(p.Topic) == "emitter/presence/" {
			var ev struct {
				Event   string `json:"event"`
				Channel string `json:"channel"`
			}
			json.Unmarshal(p.Payload, &ev)
			if ev.Event == "subscribe" {
				got = append(got, vlib.Str(ev.Channel))
			}
		}
	}
	wa.Close()
	sub.conn.Close()
	return vlib.App("CBurst", vlib.List(want), vlib.List(got)), map[string]interface{}{"op": "presence burst", "subscriptions": n, "notified": len(got)}
}

func countOpen(cs []*client) int {
	n := 0
	for _, c := range cs {
		if c.open {
			n++
		}
	}
	return n
}

var _ = io.EOF

func main() {
	cfg = vlib.ParseFlags()
	sh := vlib.NewShards(cfg.Out, "BROKER", "From Emitter Require Import Lib.Base Model.MsgCodec Model.Channel Model.Cipher Model.Key Model.Broker Check.Broker.", "case", "check", 8)
	r := cfg.Rng
	lics := []license.License{license.NewV1(), license.NewV2(), license.NewV3()}
	n := 90 * cfg.Mult
	for i := 0; i < n; i++ {
		t, h := history(lics[i%3], i%5 == 4, 2+r.Intn(3), 12+r.Intn(28), nil)
		sh.Add(t, h, fmt.Sprintf("history/%d-clients", h["clients"]), true)
	}
	// directed scenarios: two filters of one connection whose bookkeeping keys collide, every order
	// of subscribing and of removing them (by UNSUBSCRIBE or by the connection ending in four ways)
	pairs := [][2]string{{"a/b/", "b/a/"}, {"x/x/y/", "y/"}, {"a/a/", "b/b/"}, {"y/", "y/x/x/"}}
	k := 0
	for _, pr := range pairs {
		for so := 0; so < 2; so++ {
			for uo := 0; uo < 2; uo++ {
				for fin := 0; fin < 3; fin++ {
					f := [2]string{pr[so], pr[1-so]}
					u := [2]string{f[uo], f[1-uo]}
					pubs := func() []scriptStep {
						return []scriptStep{{ci: 1, x: 50, topic: pr[0]}, {ci: 1, x: 50, topic: pr[1]}, {ci: 1, x: 85, topic: pr[0]}, {ci: 1, x: 85, topic: pr[1]}}
					}
					sc := []scriptStep{{ci: 0}, {ci: 1}, {ci: 0, x: 0, topic: f[0]}, {ci: 0, x: 0, topic: f[1]}}
					sc = append(sc, pubs()...)
					if fin == 2 { // the connection ends while it still holds both filters; a watcher is told about both
						sc = []scriptStep{{ci: 0}, {ci: 1}, {ci: 1, x: 85, topic: pr[0], pres: 1}, {ci: 1, x: 85, topic: pr[1], pres: 1},
							{ci: 0, x: 0, topic: f[0]}, {ci: 0, x: 0, topic: f[1]}}
						sc = append(sc, pubs()...)
						sc = append(sc, scriptStep{ci: 0, x: 99, how: (k + uo) % 4})
						sc = append(sc, pubs()...)
						t, h := history(lics[k%3], false, 2, 0, sc)
						sh.Add(t, h, "scenario/colliding-filters", true)
						k++
						continue
					}
					sc = append(sc, scriptStep{ci: 0, x: 30, topic: u[0]})
					sc = append(sc, pubs()...)
					if fin == 0 {
						sc = append(sc, scriptStep{ci: 0, x: 30, topic: u[1]})
					} else {
						sc = append(sc, scriptStep{ci: 0, x: 99, how: k % 4})
					}
					sc = append(sc, pubs()...)
					t, h := history(lics[k%3], false, 2, 0, sc)
					sh.Add(t, h, "scenario/colliding-filters", true)
					k++
				}
			}
		}
	}
	// directed scenarios: stored messages replayed to a first, a repeated and a re-made subscription
	for v := 0; v < 3; v++ {
		sc := []scriptStep{{ci: 0}, {ci: 1}, {ci: 1, x: 50, topic: "a/b/?ttl=600"}, {ci: 1, x: 50, topic: "a/b/?ttl=700"}, {ci: 1, x: 50, topic: "a/b/c/?ttl=600"},
			{ci: 0, x: 0, topic: "a/b/?last=2"}, {ci: 0, x: 0, topic: "a/b/?last=2"}, {ci: 0, x: 0, topic: "a/b/?last=5"},
			{ci: 0, x: 30, topic: "a/b/"}, {ci: 0, x: 0, topic: "a/b/?last=1"}, {ci: 0, x: 0, topic: "a/b/"}, {ci: 0, x: 0, topic: "a/b/?last=0"},
			{ci: 1, x: 0, topic: "a/b/?last=3"},
			{ci: 0, x: 83, topic: "a/b/"}, {ci: 0, x: 83, topic: "a/b/?last=2"}, {ci: 1, x: 83, topic: "a/b/?last=10"}, {ci: 1, x: 83, topic: "a/b/c/?last=10"},
			{ci: 1, x: 83, topic: "a/?last=10"}, {ci: 0, x: 83, topic: "a/b/?last=0"}, {ci: 0, x: 83, topic: "a/b/", key: 8}, {ci: 0, x: 83, topic: "a/b/?last=5", key: 7}}
		t, h := history(lics[v%3], v == 2, 2, 0, sc)
		sh.Add(t, h, "scenario/replay-on-repeated-subscription", true)
	}
	// directed scenarios: the same filter subscribed twice, removed once (by UNSUBSCRIBE, then by the
	// connection ending), with a watcher of presence changes and publishes in between
	for v := 0; v < 4; v++ {
		pubs := []scriptStep{{ci: 1, x: 50, topic: "a/b/"}, {ci: 1, x: 85, topic: "a/b/"}}
		sc := []scriptStep{{ci: 0}, {ci: 1}, {ci: 1, x: 85, topic: "a/b/", pres: 1}, {ci: 0, x: 0, topic: "a/b/"}, {ci: 0, x: 0, topic: "a/b/"}}
		sc = append(sc, pubs...)
		sc = append(sc, scriptStep{ci: 0, x: 30, topic: "a/b/"})
		sc = append(sc, pubs...)
		sc = append(sc, scriptStep{ci: 0, x: 0, topic: "a/b/"}, scriptStep{ci: 0, x: 75, name: "l1", topic: "a/b/", sub: true}, scriptStep{ci: 0, x: 0, topic: "a/b/"})
		sc = append(sc, pubs...)
		sc = append(sc, scriptStep{ci: 0, x: 99, how: v})
		sc = append(sc, pubs...)
		t, h := history(lics[v%3], false, 2, 0, sc)
		sh.Add(t, h, "scenario/filter-subscribed-twice", true)
	}
	// directed scenarios: links that carry channel options (me=0, ttl), used by a connection that is
	// subscribed to the channel itself
	for v := 0; v < 3; v++ {
		sc := []scriptStep{{ci: 0}, {ci: 1}, {ci: 0, x: 0, topic: "a/b/c/"}, {ci: 1, x: 0, topic: "a/b/c/"},
			{ci: 0, x: 75, name: "l1", topic: "a/b/c/?me=0"}, {ci: 0, x: 75, name: "l2", topic: "a/b/c/?ttl=300"},
			{ci: 0, x: 50, name: "l1"}, {ci: 0, x: 50, name: "l2"}, {ci: 0, x: 50, topic: "a/b/c/?me=0"}, {ci: 0, x: 50, topic: "a/b/c/"},
			{ci: 1, x: 0, topic: "a/b/c/?last=5"}}
		t, h := history(lics[v%3], false, 2, 0, sc)
		sh.Add(t, h, "scenario/link-with-options", true)
	}
	// directed scenarios: retained publishes and last wills with ttl=0, last wills with a key that has
	// the write permission but may not publish (extendable), every way of ending
	for v := 0; v < 4; v++ {
		sc := []scriptStep{{ci: 0}, {ci: 1, will: "a/b/", key: 6}, {ci: 0, x: 0, topic: "a/b/"},
			{ci: 1, x: 50, topic: "a/b/?ttl=0", sub: true}, {ci: 1, x: 50, topic: "a/b/?ttl=0"}, {ci: 1, x: 50, topic: "a/b/", sub: true},
			{ci: 0, x: 0, topic: "a/b/?last=5"}, {ci: 1, x: 99, how: v}, {ci: 0, x: 85, topic: "a/b/"}}
		t, h := history(lics[v%3], false, 2, 0, sc)
		sh.Add(t, h, "scenario/retain-ttl0-and-unpublishable-will", true)
	}
	// directed scenarios: a presence watch cancelled with status:false, and channels whose first word
	// is the word "presence"
	for v := 0; v < 3; v++ {
		ch := []string{"a/b/", "presence/a/", "presence/"}[v]
		sc := []scriptStep{{ci: 0}, {ci: 1}, {ci: 0, x: 85, topic: ch, pres: 1}, {ci: 1, x: 0, topic: ch}, {ci: 1, x: 30, topic: ch},
			{ci: 0, x: 85, topic: ch, pres: 2}, {ci: 1, x: 0, topic: ch}, {ci: 1, x: 30, topic: ch},
			{ci: 0, x: 85, topic: ch, pres: 1}, {ci: 1, x: 0, topic: ch}, {ci: 0, x: 85, topic: ch, pres: 3}, {ci: 1, x: 99, how: v}, {ci: 0, x: 85, topic: ch}}
		t, h := history(lics[v%3], false, 2, 0, sc)
		sh.Add(t, h, "scenario/presence-cancel-and-presence-word", true)
	}
	// directed scenarios: a second CONNECT on a connection that holds subscriptions and a link; a
	// session that never sends CONNECT; retained publishes without payload; very large 'last' values
	for v := 0; v < 4; v++ {
		pubs := []scriptStep{{ci: 1, x: 50, topic: "a/b/"}, {ci: 1, x: 85, topic: "a/b/"}}
		sc := []scriptStep{{ci: 0, skip: v%2 == 1}, {ci: 1}, {ci: 1, x: 85, topic: "a/b/", pres: 1}, {ci: 0, x: 0, topic: "a/b/"}, {ci: 0, x: 75, name: "l1", topic: "a/b/c/"},
			{ci: 0, x: 92}, {ci: 0}}
		sc = append(sc, pubs...)
		sc = append(sc, scriptStep{ci: 0, x: 50, name: "l1"}, scriptStep{ci: 0, x: 30, topic: "a/b/"})
		sc = append(sc, pubs...)
		sc = append(sc, scriptStep{ci: 1, x: 50, topic: "a/b/", sub: true, how: 7}, scriptStep{ci: 1, x: 50, topic: "a/b/", sub: true}, scriptStep{ci: 1, x: 50, topic: "a/b/", sub: true, how: 7},
			scriptStep{ci: 0, x: 0, topic: "a/b/?last=2147483648"}, scriptStep{ci: 0, x: 83, topic: "a/b/?last=9223372036854775807"}, scriptStep{ci: 0, x: 0, topic: "a/b/"},
			scriptStep{ci: 0, x: 99, how: v})
		sc = append(sc, pubs...)
		t, h := history(lics[v%3], false, 2, 0, sc)
		sh.Add(t, h, "scenario/reconnect-noconnect-empty-retained-big-last", true)
	}
	// directed scenarios: three filters of one connection in one bookkeeping bucket, removed one by one
	// and by the connection ending; a filter removed and subscribed again
	for v, tr := range [][3]string{{"x/x/y/", "y/", "y/x/x/"}, {"a/b/", "b/a/", "a/a/a/b/"}, {"a/a/", "b/b/", "z/z/"}, {"y/", "y/x/x/", "x/x/y/"}} {
		pubs := func() []scriptStep {
			return []scriptStep{{ci: 1, x: 50, topic: tr[0]}, {ci: 1, x: 50, topic: tr[1]}, {ci: 1, x: 50, topic: tr[2]}, {ci: 1, x: 85, topic: tr[1]}}
		}
		sc := []scriptStep{{ci: 0}, {ci: 1}, {ci: 1, x: 85, topic: tr[1], pres: 1}, {ci: 0, x: 0, topic: tr[0]}, {ci: 0, x: 0, topic: tr[1]}, {ci: 0, x: 0, topic: tr[2]}}
		sc = append(sc, pubs()...)
		sc = append(sc, scriptStep{ci: 0, x: 30, topic: tr[1]})
		sc = append(sc, pubs()...)
		sc = append(sc, scriptStep{ci: 0, x: 0, topic: tr[1]}, scriptStep{ci: 0, x: 30, topic: tr[1]}, scriptStep{ci: 0, x: 0, topic: tr[1]})
		sc = append(sc, pubs()...)
		sc = append(sc, scriptStep{ci: 0, x: 99, how: v})
		sc = append(sc, pubs()...)
		t, h := history(lics[v%3], false, 2, 0, sc)
		sh.Add(t, h, "scenario/three-filters-one-bucket", true)
	}
	// directed scenarios: a link name used, registered again for another channel and used again;
	// subscriptions with a window but no 'last'; option values written with leading zeros
	for v := 0; v < 3; v++ {
		sc := []scriptStep{{ci: 0}, {ci: 1}, {ci: 1, x: 0, topic: "a/b/"}, {ci: 1, x: 0, topic: "a/b/c/"},
			{ci: 0, x: 75, name: "l1", topic: "a/b/"}, {ci: 0, x: 50, name: "l1"}, {ci: 0, x: 75, name: "l1", topic: "a/b/c/?me=0"}, {ci: 0, x: 50, name: "l1"},
			{ci: 0, x: 75, name: "l1", topic: "a/b/"}, {ci: 0, x: 50, name: "l1"},
			{ci: 0, x: 50, topic: "a/b/?ttl=0100"}, {ci: 0, x: 50, topic: "a/b/?ttl=09"}, {ci: 0, x: 50, topic: "a/b/?ttl=600"},
			{ci: 0, x: 0, topic: "a/b/?until=1600000000"}, {ci: 0, x: 30, topic: "a/b/"}, {ci: 0, x: 0, topic: "a/b/?from=1600000000&until=1600000100"}, {ci: 0, x: 30, topic: "a/b/"},
			{ci: 0, x: 0, topic: "a/b/?last=010"}, {ci: 0, x: 30, topic: "a/b/"}, {ci: 0, x: 0, topic: "a/b/?last=08"}, {ci: 0, x: 83, topic: "a/b/?last=010"}}
		t, h := history(lics[v%3], v == 2, 2, 0, sc)
		sh.Add(t, h, "scenario/relinked-shortcut-window-without-last-leading-zeros", true)
	}
	// directed scenarios: one connection holds a broader and a narrower filter (parent channel, '+'
	// level); watchers of both channels are told about every subscription and its end, in every order
	for v := 0; v < 4; v++ {
		broad, narrow := "a/", "a/b/"
		if v >= 2 {
			broad, narrow = "a/+/", "a/b/"
		}
		first, second := narrow, broad
		if v%2 == 1 {
			first, second = broad, narrow
		}
		sc := []scriptStep{{ci: 0}, {ci: 1}, {ci: 1, x: 85, topic: "a/b/", pres: 1}, {ci: 1, x: 85, topic: "a/", pres: 1},
			{ci: 0, x: 0, topic: broad}, {ci: 0, x: 0, topic: narrow}, {ci: 1, x: 85, topic: "a/b/"},
			{ci: 0, x: 30, topic: first}, {ci: 1, x: 85, topic: "a/b/"}, {ci: 0, x: 30, topic: second}, {ci: 1, x: 85, topic: "a/b/"},
			{ci: 0, x: 0, topic: narrow}, {ci: 0, x: 0, topic: broad}, {ci: 0, x: 99, how: v}, {ci: 1, x: 85, topic: "a/b/"}}
		t, h := history(lics[v%3], false, 2, 0, sc)
		sh.Add(t, h, "scenario/overlapping-filters-of-one-connection", true)
	}
	// directed scenarios: a delivery to a connection fails at the socket (the bytes went through, the
	// write reports an error); the connection lives on and ends later: its will is published once, then
	for v := 0; v < 4; v++ {
		sc := []scriptStep{{ci: 0, will: "a/will/", key: 0}, {ci: 1}, {ci: 1, x: 0, topic: "a/will/"}, {ci: 0, x: 0, topic: "a/b/"},
			{ci: 0, x: 91}, {ci: 1, x: 50, topic: "a/b/"}, {ci: 1, x: 50, topic: "a/b/"}, {ci: 1, x: 85, topic: "a/b/"},
			{ci: 0, x: 50, topic: "a/b/"}, {ci: 0, x: 99, how: v}, {ci: 1, x: 85, topic: "a/b/"}}
		t, h := history(lics[v%3], false, 2, 0, sc)
		sh.Add(t, h, "scenario/failed-write-then-end", true)
	}
	for _, n := range []int{150, 260} {
		t, h := burst(lics[n%3], n)
		sh.Add(t, h, "scenario/presence-burst", true)
	}
	sh.Finish("sessions of 2-4 clients (connect with/without username and last will, sessions without CONNECT, repeated CONNECT, subscribe, unsubscribe, publish with retain / ttl / me=0 / links, link, presence and history requests, ping, four ways of ending incl. a packet on which the decoder panics, reconnects; directed scenarios for filters whose bookkeeping keys collide; stored messages replayed to first, repeated and re-made subscriptions; presence watcher that stops reading during a burst of 150 / 260 subscriptions) over channels a/ a/b/ b/a/ a/a/ b/b/ a/b/c/ b/ x/x/y/ y/ with wildcards and options, nine keys (targets #/ a/#/ a/b/ b/#/, masks incl. read-only, write-only, extendable, expired, no-load), emitter and mqtt matcher; every request acknowledged before the next; presence notifications flushed by a FIFO barrier; non-trivial: all")
}
