(* C01's specification: which filters match a channel, in the two matcher configurations.
   Words are the 32-bit hashes of the channel levels; '+' and '#' are the constants of sub.go. *)
From Emitter Require Import Lib.Base Model.Trie.

(* emitter mode: the filter is a level-wise prefix of the channel, '+' matches any one level *)
Fixpoint match_em (f q : list N) : bool :=
  match f, q with
  | [], _ => true
  | _ :: _, [] => false
  | a :: f', b :: q' => ((a =? b) || (a =? wildcard)) && match_em f' q'
  end.

(* mqtt mode: same depth, '+' matches one level, a trailing '#' matches one or more further
   levels *)
Fixpoint match_mq (f q : list N) : bool :=
  match f, q with
  | [], [] => true
  | a :: f', b :: q' => (is_nil f' && (a =? multiWildcard)) || (((a =? b) || (a =? wildcard)) && match_mq f' q')
  | _, _ => false
  end.

Definition matches (mqtt : bool) := if mqtt then match_mq else match_em.
