// Harness for C16: drives the real MQTT codec (and paho's, as the independent implementation)
// on generated packet values and byte strings and writes what it observed as Coq cases.
package main

import (
	"bytes"
	"errors"
	"fmt"
	"io"
	"math/rand"
	"runtime"
	"strings"
	"sync"

	"github.com/eclipse/paho.mqtt.golang/packets"
	"github.com/emitter-io/emitter/internal/network/mqtt"
	"github.com/emitter-io/emitter/internal/zzverif/vlib"
)

var cfg *vlib.Config
var rng *rand.Rand

func hdrTerm(h mqtt.Header) string {
	return vlib.App("Hdr", vlib.Bool(h.DUP), vlib.N(uint64(h.QOS)), vlib.Bool(h.Retain))
}

func packetTerm(m mqtt.Message) string {
	switch p := m.(type) {
	case *mqtt.Connect:
		return vlib.App("Connect", vlib.Bytes(p.ProtoName), vlib.N(uint64(p.Version)), vlib.Bool(p.UsernameFlag),
			vlib.Bool(p.PasswordFlag), vlib.Bool(p.WillRetainFlag), vlib.N(uint64(p.WillQOS)), vlib.Bool(p.WillFlag),
			vlib.Bool(p.CleanSeshFlag), vlib.N(uint64(p.KeepAlive)), vlib.Bytes(p.ClientID), vlib.Bytes(p.WillTopic),
			vlib.Bytes(p.WillMessage), vlib.Bytes(p.Username), vlib.Bytes(p.Password))
	case *mqtt.Connack:
		return vlib.App("Connack", vlib.N(uint64(p.ReturnCode)))
	case *mqtt.Publish:
		return vlib.App("Publish", hdrTerm(p.Header), vlib.Bytes(p.Topic), vlib.N(uint64(p.MessageID)), vlib.Bytes(p.Payload))
	case *mqtt.Puback:
		return vlib.App("Puback", vlib.N(uint64(p.MessageID)))
	case *mqtt.Pubrec:
		return vlib.App("Pubrec", vlib.N(uint64(p.MessageID)))
	case *mqtt.Pubrel:
		return vlib.App("Pubrel", hdrTerm(p.Header), vlib.N(uint64(p.MessageID)))
	case *mqtt.Pubcomp:
		return vlib.App("Pubcomp", vlib.N(uint64(p.MessageID)))
	case *mqtt.Subscribe:
		items := []string{}
		for _, t := range p.Subscriptions {
			items = append(items, vlib.Pair(vlib.Bytes(t.Topic), vlib.N(uint64(t.Qos))))
		}
		return vlib.App("Subscribe", hdrTerm(p.Header), vlib.N(uint64(p.MessageID)), vlib.List(items))
	case *mqtt.Suback:
		return vlib.App("Suback", vlib.N(uint64(p.MessageID)), vlib.Bytes(p.Qos))
	case *mqtt.Unsubscribe:
		items := []string{}
		for _, t := range p.Topics {
			items = append(items, vlib.Bytes(t.Topic))
		}
		return vlib.App("Unsubscribe", hdrTerm(p.Header), vlib.N(uint64(p.MessageID)), vlib.List(items))
	case *mqtt.Unsuback:
		return vlib.App("Unsuback", vlib.N(uint64(p.MessageID)))
	case *mqtt.Pingreq:
		return "Pingreq"
	case *mqtt.Pingresp:
		return "Pingresp"
	case *mqtt.Disconnect:
		return "Disconnect"
	}
	panic("unknown packet")
}

func errTerm(err error) string {
	switch {
	case errors.Is(err, io.EOF), errors.Is(err, io.ErrUnexpectedEOF):
		return "(Err EEOF)"
	case errors.Is(err, mqtt.ErrMessageTooLarge):
		return "(Err ETooLarge)"
	case errors.Is(err, mqtt.ErrMessageBadPacket):
		return "(Err EBadPacket)"
	case strings.Contains(err.Error(), "Invalid zero-length packet"):
		return "(Err EInvalidType)"
	}
	return "(Err EOther_" + err.Error() + ")" // does not type-check: an unknown error class is a finding
}

// implEncode runs EncodeTo; returns the Coq term of the outcome and the bytes (nil unless Ok).
func implEncode(m mqtt.Message) (string, []byte) {
	var buf bytes.Buffer
	var err error
	panicked, _ := vlib.Catch(func() { _, err = m.EncodeTo(&buf) })
	if panicked {
		return "Panic", nil
	}
	if err != nil {
		return errTerm(err), nil
	}
	out := append([]byte{}, buf.Bytes()...)
	return vlib.App("Ok", vlib.Bytes(out)), out
}

// implDecode runs DecodePacket over a bytes.Reader; outcome term carries the unread byte count.
func implDecode(s []byte, max int64) string {
	rdr := bytes.NewReader(s)
	var m mqtt.Message
	var err error
	panicked, _ := vlib.Catch(func() { m, err = mqtt.DecodePacket(rdr, max) })
	if panicked {
		return "Panic"
	}
	if err != nil {
		return errTerm(err)
	}
	return vlib.App("Ok", vlib.Pair(packetTerm(m), vlib.N(uint64(rdr.Len()))))
}

// ---- generators ---------------------------------------------------------------------------------

var boundaryLens = []int{0, 1, 2, 5, 126, 127, 128, 129, 300, 16382, 16383, 16384, 16385, 20000,
	65000, 65519, 65520, 65524, 65525, 65526, 65527, 65528, 65529, 65530, 65531, 65532, 65534, 65535, 65536, 65537, 66000}

func alpha(n int) []byte {
	// long strings are a run of one byte (compresses in the Coq term) with a random head
	if n <= 40 {
		b := make([]byte, n)
		for i := range b {
			b[i] = byte(rng.Intn(256))
		}
		return b
	}
	b := bytes.Repeat([]byte{byte(rng.Intn(256))}, n)
	for i := 0; i < 6; i++ {
		b[i] = byte(rng.Intn(256))
	}
	return b
}

func smallLen() int {
	switch rng.Intn(10) {
	case 0:
		return 0
	case 1:
		return vlib.Pick(rng, 126, 127, 128, 129, 200)
	default:
		return rng.Intn(12)
	}
}

func genHeader(wellformed bool, publish bool) mqtt.Header {
	if wellformed && !publish {
		return mqtt.Header{QOS: 1}
	}
	q := uint8(rng.Intn(3))
	if !wellformed {
		q = uint8(vlib.Pick(rng, 0, 1, 2, 3, 3, 4, 7, 8, 128, 255))
	}
	return mqtt.Header{DUP: rng.Intn(2) == 0, QOS: q, Retain: rng.Intn(2) == 0}
}

// genPacket produces a packet value; wellformed=true keeps it inside the standard's ranges.
func genPacket(kind int, wellformed bool) mqtt.Message {
	mid := uint16(rng.Intn(65536))
	if rng.Intn(4) == 0 {
		mid = uint16(vlib.Pick(rng, 0, 1, 255, 256, 65535))
	}
	switch kind {
	case 1:
		c := &mqtt.Connect{ProtoName: []byte("MQTT"), Version: 4, KeepAlive: uint16(rng.Intn(65536)), ClientID: alpha(smallLen())}
		if rng.Intn(4) == 0 {
			c.ProtoName = alpha(smallLen())
			c.Version = uint8(rng.Intn(256))
		}
		c.UsernameFlag = rng.Intn(2) == 0
		c.PasswordFlag = rng.Intn(2) == 0
		c.WillFlag = rng.Intn(2) == 0
		c.CleanSeshFlag = rng.Intn(2) == 0
		if c.WillFlag || !wellformed {
			c.WillRetainFlag = rng.Intn(2) == 0
			c.WillQOS = uint8(rng.Intn(3))
			c.WillTopic = alpha(smallLen())
			c.WillMessage = alpha(smallLen())
		}
		if !wellformed && rng.Intn(2) == 0 {
			c.WillQOS = uint8(vlib.Pick(rng, 3, 4, 31, 32, 255))
		}
		if c.UsernameFlag || !wellformed {
			c.Username = alpha(smallLen())
		}
		if c.PasswordFlag || !wellformed {
			c.Password = alpha(smallLen())
		}
		return c
	case 2:
		return &mqtt.Connack{ReturnCode: uint8(rng.Intn(256))}
	case 3:
		p := &mqtt.Publish{Header: genHeader(wellformed, true), Topic: alpha(smallLen()), Payload: alpha(smallLen())}
		if p.Header.QOS > 0 || !wellformed {
			p.MessageID = mid
		}
		return p
	case 4:
		return &mqtt.Puback{MessageID: mid}
	case 5:
		return &mqtt.Pubrec{MessageID: mid}
	case 6:
		return &mqtt.Pubrel{MessageID: mid, Header: genHeader(wellformed, false)}
	case 7:
		return &mqtt.Pubcomp{MessageID: mid}
	case 8:
		s := &mqtt.Subscribe{MessageID: mid, Header: genHeader(wellformed, false)}
		for i, n := 0, rng.Intn(4); i < n; i++ {
			s.Subscriptions = append(s.Subscriptions, mqtt.TopicQOSTuple{Topic: alpha(smallLen()), Qos: uint8(rng.Intn(3))})
		}
		return s
	case 9:
		return &mqtt.Suback{MessageID: mid, Qos: alpha(rng.Intn(5))}
	case 10:
		s := &mqtt.Unsubscribe{MessageID: mid, Header: genHeader(wellformed, false)}
		for i, n := 0, rng.Intn(4); i < n; i++ {
			s.Topics = append(s.Topics, mqtt.TopicQOSTuple{Topic: alpha(smallLen())})
		}
		return s
	case 11:
		return &mqtt.Unsuback{MessageID: mid}
	case 12:
		return &mqtt.Pingreq{}
	case 13:
		return &mqtt.Pingresp{}
	}
	return &mqtt.Disconnect{}
}

// bodyTarget makes a packet whose body length is exactly n where the type allows it.
func bodyTarget(kind, n int) mqtt.Message {
	switch kind {
	case 3:
		qos := uint8(rng.Intn(3))
		over := 2 + 1
		if qos > 0 {
			over += 2
		}
		if n < over {
			return nil
		}
		p := &mqtt.Publish{Header: mqtt.Header{QOS: qos, DUP: rng.Intn(2) == 0, Retain: rng.Intn(2) == 0}, Topic: []byte("t")}
		if qos > 0 {
			p.MessageID = uint16(rng.Intn(65536))
		}
		// split the remaining length between topic and payload in one of three ways
		restLen := n - over
		switch rng.Intn(3) {
		case 0:
			p.Payload = alpha(restLen)
		case 1:
			if restLen+1 <= 65535 {
				p.Topic = alpha(restLen + 1)
				p.Payload = nil
			} else {
				p.Payload = alpha(restLen)
			}
		default:
			h := restLen / 2
			p.Topic = alpha(h + 1)
			p.Payload = alpha(restLen - h)
		}
		return p
	case 9:
		if n < 2 {
			return nil
		}
		return &mqtt.Suback{MessageID: uint16(rng.Intn(65536)), Qos: alpha(n - 2)}
	case 8:
		if n < 5 {
			return nil
		}
		s := &mqtt.Subscribe{MessageID: 7, Header: mqtt.Header{QOS: 1}}
		left := n - 2
		for left > 0 {
			l := left - 3
			if l > 65535 {
				l = 30000
			}
			if l < 0 {
				return nil
			}
			s.Subscriptions = append(s.Subscriptions, mqtt.TopicQOSTuple{Topic: alpha(l), Qos: uint8(rng.Intn(3))})
			left -= l + 3
		}
		return s
	case 10:
		if n < 4 {
			return nil
		}
		s := &mqtt.Unsubscribe{MessageID: 9, Header: mqtt.Header{QOS: 1}}
		left := n - 2
		for left > 0 {
			l := left - 2
			if l > 65535 {
				l = 30000
			}
			if l < 0 {
				return nil
			}
			s.Topics = append(s.Topics, mqtt.TopicQOSTuple{Topic: alpha(l)})
			left -= l + 2
		}
		return s
	case 1:
		if n < 12 {
			return nil
		}
		c := &mqtt.Connect{ProtoName: []byte("MQTT"), Version: 4, KeepAlive: 30}
		l := n - 12
		if l > 65535 {
			c.UsernameFlag = true
			c.Username = alpha(l - 2 - 30000)
			l = 30000
		}
		c.ClientID = alpha(l)
		return c
	}
	return nil
}

// ---- paho bridge --------------------------------------------------------------------------------

func toPaho(m mqtt.Message) packets.ControlPacket {
	switch p := m.(type) {
	case *mqtt.Connect:
		c := packets.NewControlPacket(packets.Connect).(*packets.ConnectPacket)
		c.ProtocolName, c.ProtocolVersion = string(p.ProtoName), p.Version
		c.CleanSession, c.WillFlag, c.WillQos, c.WillRetain = p.CleanSeshFlag, p.WillFlag, p.WillQOS, p.WillRetainFlag
		c.UsernameFlag, c.PasswordFlag, c.Keepalive = p.UsernameFlag, p.PasswordFlag, p.KeepAlive
		c.ClientIdentifier, c.WillTopic, c.WillMessage = string(p.ClientID), string(p.WillTopic), p.WillMessage
		c.Username, c.Password = string(p.Username), p.Password
		return c
	case *mqtt.Connack:
		c := packets.NewControlPacket(packets.Connack).(*packets.ConnackPacket)
		c.ReturnCode = p.ReturnCode
		return c
	case *mqtt.Publish:
		c := packets.NewControlPacket(packets.Publish).(*packets.PublishPacket)
		c.Dup, c.Qos, c.Retain = p.DUP, p.QOS, p.Retain
		c.TopicName, c.MessageID, c.Payload = string(p.Topic), p.MessageID, p.Payload
		return c
	case *mqtt.Puback:
		c := packets.NewControlPacket(packets.Puback).(*packets.PubackPacket)
		c.MessageID = p.MessageID
		return c
	case *mqtt.Pubrec:
		c := packets.NewControlPacket(packets.Pubrec).(*packets.PubrecPacket)
		c.MessageID = p.MessageID
		return c
	case *mqtt.Pubrel:
		c := packets.NewControlPacket(packets.Pubrel).(*packets.PubrelPacket)
		c.MessageID = p.MessageID
		return c
	case *mqtt.Pubcomp:
		c := packets.NewControlPacket(packets.Pubcomp).(*packets.PubcompPacket)
		c.MessageID = p.MessageID
		return c
	case *mqtt.Subscribe:
		c := packets.NewControlPacket(packets.Subscribe).(*packets.SubscribePacket)
		c.MessageID = p.MessageID
		for _, t := range p.Subscriptions {
			c.Topics = append(c.Topics, string(t.Topic))
			c.Qoss = append(c.Qoss, t.Qos)
		}
		return c
	case *mqtt.Suback:
		c := packets.NewControlPacket(packets.Suback).(*packets.SubackPacket)
		c.MessageID, c.ReturnCodes = p.MessageID, p.Qos
		return c
	case *mqtt.Unsubscribe:
		c := packets.NewControlPacket(packets.Unsubscribe).(*packets.UnsubscribePacket)
		c.MessageID = p.MessageID
		for _, t := range p.Topics {
			c.Topics = append(c.Topics, string(t.Topic))
		}
		return c
	case *mqtt.Unsuback:
		c := packets.NewControlPacket(packets.Unsuback).(*packets.UnsubackPacket)
		c.MessageID = p.MessageID
		return c
	case *mqtt.Pingreq:
		return packets.NewControlPacket(packets.Pingreq)
	case *mqtt.Pingresp:
		return packets.NewControlPacket(packets.Pingresp)
	}
	return packets.NewControlPacket(packets.Disconnect)
}

// pahoReadsSame: paho decodes the broker's bytes and re-encodes them to what paho itself
// produces for the value.
func pahoReadsSame(implBytes, pahoBytes []byte) bool {
	cp, err := packets.ReadPacket(bytes.NewReader(implBytes))
	if err != nil {
		return false
	}
	var buf bytes.Buffer
	if err := cp.Write(&buf); err != nil {
		return false
	}
	return bytes.Equal(buf.Bytes(), pahoBytes)
}

func kindName(k int) string {
	return []string{"", "connect", "connack", "publish", "puback", "pubrec", "pubrel", "pubcomp", "subscribe",
		"suback", "unsubscribe", "unsuback", "pingreq", "pingresp", "disconnect"}[k]
}

// yieldWriter hands the processor to other goroutines before it looks at the bytes it was given -
// like a socket write that parks; what it then copies is what a client would receive.
type yieldWriter struct {
	mu  sync.Mutex
	got [][]byte
}

func (w *yieldWriter) Write(p []byte) (int, error) {
	runtime.Gosched()
	c := append([]byte{}, p...)
	w.mu.Lock()
	w.got = append(w.got, c)
	w.mu.Unlock()
	return len(p), nil
}

// plen: payload length of the k-th packet of a sender: small, now and then 16 KiB and more
func plen(k int) int {
	if k%20 == 3 {
		return 16384 + 1000*(k%7)
	}
	return 3 + (k % 40)
}

// encodeStress: many goroutines encode different PUBLISH packets at the same time; every packet that
// reaches the writer must decode to one of the packets sent, each exactly once.
func encodeStress() (total, bad int) {
	old := runtime.GOMAXPROCS(2)
	defer runtime.GOMAXPROCS(old)
	const senders, per = 24, 200
	w := &yieldWriter{}
	var wg sync.WaitGroup
	for g := 0; g < senders; g++ {
		wg.Add(1)
		go func(g int) {
			defer wg.Done()
			for k := 0; k < per; k++ {
				pl := bytes.Repeat([]byte{byte(g)}, plen(k))
				if k%25 == 7 { // a packet that is refused as too large, in between
					(&mqtt.Publish{Header: mqtt.Header{QOS: 1}, MessageID: uint16(k), Topic: []byte("big"), Payload: make([]byte, 70000)}).EncodeTo(w)
				}
				(&mqtt.Publish{Header: mqtt.Header{QOS: 1}, MessageID: uint16(k), Topic: []byte(fmt.Sprintf("t/%d/", g)), Payload: pl}).EncodeTo(w)
			}
		}(g)
	}
	wg.Wait()
	seen := map[string]int{}
	for _, b := range w.got {
		total++
		m, err := mqtt.DecodePacket(bytes.NewReader(b), mqtt.MaxMessageSize)
		pb, ok := m.(*mqtt.Publish)
		if err != nil || !ok {
			bad++
			continue
		}
		var g int
		if _, e := fmt.Sscanf(string(pb.Topic), "t/%d/", &g); e != nil || g < 0 || g >= senders || int(pb.MessageID) >= per ||
			!bytes.Equal(pb.Payload, bytes.Repeat([]byte{byte(g)}, plen(int(pb.MessageID)))) {
			bad++
			continue
		}
		seen[fmt.Sprintf("%d/%d", g, pb.MessageID)]++
	}
	for _, n := range seen {
		if n != 1 {
			bad++
		}
	}
	if len(seen) != senders*per {
		bad += senders*per - len(seen)
	}
	return
}

func main() {
	cfg = vlib.ParseFlags()
	rng = cfg.Rng
	sh := vlib.NewShards(cfg.Out, "C16", "From Emitter Require Import Lib.Base Model.Mqtt Check.C16.", "case", "check", 250)

	nRandom, nDec, nPaho := 700*cfg.Mult, 1200*cfg.Mult, 500*cfg.Mult
	var corpus [][]byte // valid encodings, seeds of the malformed stream

	addEnc := func(m mqtt.Message, class string) {
		encTerm, bs := implEncode(m)
		trailer := []byte{}
		if rng.Intn(3) == 0 {
			trailer = vlib.RandBytes(rng, 1+rng.Intn(4))
		}
		dec := "None"
		if bs != nil {
			dec = "(Some " + implDecode(append(append([]byte{}, bs...), trailer...), mqtt.MaxMessageSize) + ")"
			if len(bs) < 400 {
				corpus = append(corpus, bs)
			}
		}
		sh.Add(vlib.App("CEnc", packetTerm(m), encTerm, vlib.Bytes(trailer), dec),
			map[string]interface{}{"op": "encode+decode", "packet": m.String(), "value": packetTerm(m)}, class, bs != nil && len(bs) > 2)
	}

	// 1. random packet values, 85% well-formed
	for i := 0; i < nRandom; i++ {
		kind := 1 + rng.Intn(14)
		wf := rng.Intn(100) < 85
		cl := "enc/" + kindName(kind)
		if !wf {
			cl += "/nonstandard"
		}
		addEnc(genPacket(kind, wf), cl)
	}
	// 2. body-length boundaries (every boundary x every sized type)
	for _, n := range boundaryLens {
		for _, kind := range []int{3, 3, 3, 9, 8, 10, 1} {
			if m := bodyTarget(kind, n); m != nil {
				addEnc(m, "enc/boundary/"+kindName(kind))
			}
		}
	}
	// 3. malformed stream: truncations at every offset, mutations, inflated lengths, random
	for i := 0; i < nDec; i++ {
		var s []byte
		class := ""
		switch r := rng.Intn(10); {
		case r < 3 && len(corpus) > 0:
			b := corpus[rng.Intn(len(corpus))]
			s = append([]byte{}, b[:rng.Intn(len(b)+1)]...)
			class = "dec/truncated"
		case r < 6 && len(corpus) > 0:
			s = append([]byte{}, corpus[rng.Intn(len(corpus))]...)
			for k := 0; k < 1+rng.Intn(3); k++ {
				s[rng.Intn(len(s))] = byte(rng.Intn(256))
			}
			class = "dec/mutated"
		case r < 8:
			s = append([]byte{byte(rng.Intn(256))}, make([]byte, 0)...)
			for k := 0; k < rng.Intn(6); k++ { // continuation bytes of the length
				s = append(s, byte(128+rng.Intn(128)))
			}
			s = append(s, byte(rng.Intn(128)))
			s = append(s, vlib.RandBytes(rng, rng.Intn(20))...)
			class = "dec/length-field"
		default:
			s = vlib.RandBytes(rng, rng.Intn(24))
			class = "dec/random"
		}
		max := int64(mqtt.MaxMessageSize)
		if rng.Intn(5) == 0 {
			max = int64(vlib.Pick(rng, 0, 1, 2, 10, 127, 128))
		}
		sh.Add(vlib.App("CDec", vlib.Bytes(s), vlib.N(uint64(max)), implDecode(s, max)),
			map[string]interface{}{"op": "decode", "bytes": s, "max": max}, class, len(s) > 1)
	}
	// 3b. every truncation of a few valid packets (exhaustive over offsets)
	for i := 0; i < 12 && i < len(corpus); i++ {
		b := corpus[(i*7919)%len(corpus)]
		for cut := 0; cut <= len(b); cut++ {
			s := b[:cut]
			sh.Add(vlib.App("CDec", vlib.Bytes(s), vlib.N(mqtt.MaxMessageSize), implDecode(s, mqtt.MaxMessageSize)),
				map[string]interface{}{"op": "decode", "bytes": s, "cut": cut}, "dec/every-cut", cut > 1)
		}
	}
	// 4. paho as the independent implementation, both directions
	for i := 0; i < nPaho; i++ {
		kind := 1 + rng.Intn(14)
		var m mqtt.Message
		if rng.Intn(6) == 0 {
			m = bodyTarget(vlib.Pick(rng, 3, 9, 8, 10, 1), vlib.Pick(rng, 126, 127, 128, 129, 16383, 16384, 16385, 65530))
		}
		if m == nil {
			m = genPacket(kind, true)
		}
		var buf bytes.Buffer
		if err := toPaho(m).Write(&buf); err != nil {
			continue
		}
		pb := append([]byte{}, buf.Bytes()...)
		_, ib := implEncode(m)
		// judged only where paho reads back its own encoding (it stops at an empty topic filter,
		// which MQTT-4.7.3-1 forbids anyway)
		same := (ib != nil && pahoReadsSame(ib, pb)) || !pahoReadsSame(pb, pb)
		sh.Add(vlib.App("CPaho", packetTerm(m), vlib.Bytes(pb), implDecode(pb, mqtt.MaxMessageSize), vlib.Bool(same)),
			map[string]interface{}{"op": "paho", "packet": m.String(), "value": packetTerm(m)}, "paho/"+m.String(), true)
	}
	// concurrent encoders (the encode buffers come from a pool): nothing another encoder does may change
	// the bytes a writer was handed
	for i := 0; i < 2*cfg.Mult; i++ {
		total, bad := encodeStress()
		sh.Add(vlib.App("CEncStress", vlib.N(uint64(total)), vlib.N(uint64(bad))),
			map[string]interface{}{"op": "concurrent PUBLISH encoders", "packets": total, "damaged_lost_or_duplicated": bad}, "enc/concurrent", true)
	}
	sh.Finish("packet values: 14 types x flags x QoS (incl. will QoS) x lengths at 0/127/128/16383/16384/65530..65537; byte strings: truncations at every offset, 1-3 byte mutations, inflated length fields, random; 24 goroutines x 200 PUBLISH packets (and refused oversize ones in between) encoded concurrently into a writer that yields before it copies; non-trivial = encodes to more than 2 bytes / input longer than 1 byte; distinct by Coq term")
}
