(* weaveworks/mesh gossipSender (gossip.go: Send / Broadcast / pick) with emitter's event.State as
   GossipData.  [GossipData.Merge] is event.State.Merge, which merges the argument INTO the
   receiver and returns the argument reduced to a delta (or nil) - not the union mesh expects. *)
From stdpp Require Import gmap.
From Coq Require Import ZArith.
From Emitter Require Import Model.Lww.

(* the per-link "gossip" slot *)
Definition sender_send (pending : option replica) (data : replica) : option replica :=
  match pending with
  | None => Some data
  | Some p => snd (state_merge p data)       (* s.gossip = s.gossip.Merge(data) *)
  end.

(* the same, had Merge obeyed mesh's contract (return the union) *)
Definition sender_send_union (pending : option replica) (data : replica) : option replica :=
  match pending with
  | None => Some data
  | Some p => Some (lww_merge p data)
  end.

Definition queue_all (send : option replica -> replica -> option replica) (ps : list replica) : option replica :=
  fold_left send ps None.
