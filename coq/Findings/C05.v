(* C05: the schedules that were the witnesses of the findings F4 / F5 (delta-counting merge), F7
   (returning peer) and F7c (tombstone under the local name, colliding connection ids) - all
   repaired in /repo (d18db5e, 8d5851c, b897b2e; the model follows the code).  They are kept as
   regression examples: on the current model each ends, after draining, with every broker's remote
   entries equal to the ground truth.  The c05 harness replays them on the real brokers. *)
From stdpp Require Import gmap.
From Coq Require Import ZArith List.
From Emitter Require Import Model.Lww Model.Cluster.
Import ListNotations.
Local Open Scope N_scope.

Definition drain2 : list ev := [EDeliver 1 2; EDeliver 2 1].
Definition drain3 : list ev := [EDeliver 1 2; EDeliver 1 3; EDeliver 2 1; EDeliver 2 3; EDeliver 3 1; EDeliver 3 2].

Definition routing_ok (w : world) : bool :=
  forallb (fun b => let r := bk_remote (get_broker w b) in let t := truth_remote w b in
                    forallb (fun x => existsb (pair_eqb x) t) r && forallb (fun x => existsb (pair_eqb x) r) t)
          (names w).

(* subscribe; deliver; unsubscribe and re-subscribe coalesced on the link; deliver; unsubscribe *)
Definition f5_schedule : list ev :=
  [ESub 2 3 2 1000; EDeliver 2 1; EUnsub 2 3 2 1010; ESub 2 3 2 1020; EDeliver 2 1; EUnsub 2 3 2 1030; EDeliver 2 1]
  ++ [EGossip 1 2; EGossip 2 1] ++ drain2.
(* broker 3 sees broker 2 go away and come back *)
Definition f7_schedule : list ev :=
  [ESub 3 4 1 1040; EDeliver 3 1; EDeliver 3 2; ESub 2 2 1 1050; EDeliver 2 3; EDeliver 2 1;
   EOffline 3 2 1080; EOnline 3 2] ++ drain3 ++ drain3 ++ drain3.
(* two brokers whose clients have the same connection id on one channel; one sees the other go away *)
Definition f7c_schedule : list ev :=
  [ESub 1 1 0 1000; ESub 2 1 0 1010; EDeliver 1 2; EDeliver 2 1; EOffline 1 2 1020; EOnline 1 2] ++ drain2 ++ drain2.

Example C05_former_witnesses_route_correctly :
  (let w := run [1; 2] f5_schedule in quiet w && routing_ok w) = true
  /\ (let w := run [1; 2; 3] f7_schedule in quiet w && routing_ok w) = true
  /\ (let w := run [1; 2] f7c_schedule in quiet w && routing_ok w) = true.
Proof. vm_compute. repeat split. Qed.
