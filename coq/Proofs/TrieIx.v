(* The trie (Model/Trie.v) meets the index contract of the broker theorems as long as no filter
   sits below a $share node: then a lookup has no share groups to pick from and returns, once each,
   exactly the subscribers holding a matching filter (C01). *)
From Coq Require Import Lia.
From Emitter Require Import Lib.Base Model.Trie Model.Broker Spec.PubSub
     Proofs.ListFacts Proofs.TrieProofs Proofs.TrieLookup Proofs.TrieReach Proofs.BrokerProofs.

Definition noshare (f : list N) : Prop := match f with _ :: w :: _ => w <> share | _ => True end.
Definition noshare_pairs (n : node) : Prop := forall f s, In (f, s) (pairs n) -> noshare f.

Lemma pick_members_empty : forall groups picks, Forall (fun g => g = []) groups -> pick_members groups picks = [].
Proof.
  induction groups as [|g gs IH]; intros picks F; cbn [pick_members]; [reflexivity|].
  inversion F; subst. apply IH. assumption.
Qed.

Lemma share_groups_empty mqtt q root : wf root -> noshare_pairs root ->
  Forall (fun g => g = []) (share_groups mqtt q root).
Proof.
  intros W NS. unfold share_groups. destruct q as [|c rest]; [constructor|].
  destruct root as [sb ks]. cbn [nkids].
  destruct (aget c ks) as [cn|] eqn:G1; [|constructor].
  pose proof (wf_kid _ _ _ _ W G1) as W1. destruct cn as [sb1 ks1]. cbn [nkids].
  destruct (aget share ks1) as [sn|] eqn:G2; [|constructor].
  pose proof (wf_kid _ _ _ _ W1 G2) as W2. destruct sn as [sb2 ks2]. cbn [nkids].
  inversion W as [? ? _ ND0 _]; subst. inversion W1 as [? ? _ ND1 _]; subst. inversion W2 as [? ? _ ND2 F2]; subst.
  apply Forall_forall. intros g Hg. apply in_map_iff in Hg. destruct Hg as ([w gn] & <- & Hin). cbn [snd].
  destruct (dedup (lookup_raw mqtt rest gn)) as [|s l] eqn:E; [reflexivity|]. exfalso.
  assert (In s (dedup (lookup_raw mqtt rest gn))) as Hs by (rewrite E; left; reflexivity).
  rewrite In_dedup in Hs.
  assert (wf gn) as W3 by (rewrite Forall_forall in F2; exact (F2 (w, gn) Hin)).
  apply (lookup_raw_exact mqtt gn rest s W3) in Hs. destruct Hs as (f & Hf & _).
  assert (In (c :: share :: w :: f, s) (pairs (Node sb ks))) as Hp.
  { apply In_pairs_cons; [exact ND0|]. exists (Node sb1 ks1). split; [exact G1|].
    apply In_pairs_cons; [exact ND1|]. exists (Node sb2 ks2). split; [exact G2|].
    apply In_pairs_cons; [exact ND2|]. exists gn. split; [apply In_aget; assumption | exact Hf]. }
  apply NS in Hp. cbn in Hp. apply Hp. reflexivity.
Qed.

Definition trie_inv (t : trie) : Prop := Inv t /\ noshare_pairs (t_root t).

Theorem trie_ix_spec : IxSpec trie_ix abs trie_inv noshare.
Proof.
  constructor.
  - split; [split; [exact Inv0 | intros f s []] | reflexivity].
  - intros f s t [Hi NS] Ho. cbn [ix_subscribe trie_ix].
    destruct (subscribe_refines f s t Hi) as [I2 A2]. split; [split; [exact I2|] | exact A2].
    intros f' s' H. apply (A2 (f', s')) in H. destruct H as [H|H]; [exact (NS _ _ H) | inversion H; subst; exact Ho].
  - intros f s t [Hi NS]. cbn [ix_unsubscribe trie_ix].
    destruct (unsubscribe_refines f s t Hi) as [I2 A2]. split; [split; [exact I2|] | exact A2].
    intros f' s' H. apply (A2 (f', s')) in H. destruct H as [H _]. exact (NS _ _ H).
  - intros m q t [Hi NS]. cbn [ix_lookup trie_ix]. unfold Trie.lookup.
    destruct Hi as (W & _).
    rewrite (pick_members_empty _ _ (share_groups_empty m q (t_root t) W NS)), app_nil_r.
    split; [apply NoDup_dedup|]. intros s. rewrite In_dedup. apply lookup_raw_exact. exact W.
Qed.
