(* Finite sweeps: a boolean fact checked for every n below a bound by evaluation is lifted to a
   universally quantified statement.  This is a proof (the domain is finite and enumerated
   completely), used only for byte- and word-sized facts about masks and shifts. *)
From Coq Require Import List NArith Lia.
Import ListNotations.
Open Scope N_scope.

Fixpoint nseq_from (start : N) (n : nat) : list N :=
  match n with O => [] | S m => start :: nseq_from (start + 1) m end.
Definition nseq (n : N) : list N := nseq_from 0 (N.to_nat n).

Lemma in_nseq_from : forall n start v, start <= v < start + N.of_nat n -> In v (nseq_from start n).
Proof.
  induction n as [|n IH]; intros start v H; cbn [nseq_from].
  - lia.
  - destruct (N.eq_dec v start) as [->|Hne]; [left; reflexivity|right].
    apply IH. lia.
Qed.

Lemma in_nseq : forall n v, v < n -> In v (nseq n).
Proof. intros n v H. unfold nseq. apply in_nseq_from. lia. Qed.

Lemma sweep (P : N -> bool) (n : N) :
  forallb P (nseq n) = true -> forall v, v < n -> P v = true.
Proof.
  intros H v Hv. rewrite forallb_forall in H. apply H. apply in_nseq. exact Hv.
Qed.

Definition sweep2 (P : N -> N -> bool) (n m : N) : bool :=
  forallb (fun a => forallb (P a) (nseq m)) (nseq n).

Lemma sweep2_ok (P : N -> N -> bool) n m :
  sweep2 P n m = true -> forall a b, a < n -> b < m -> P a b = true.
Proof.
  unfold sweep2. intros H a b Ha Hb.
  pose proof (sweep _ _ H a Ha) as H1. cbv beta in H1.
  exact (sweep _ _ H1 b Hb).
Qed.
