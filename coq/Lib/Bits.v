(* Bit-level facts: disjoint lor is addition; big-endian 32-bit words. *)
From Coq Require Import NArith Lia List Bool.
Import ListNotations.
Open Scope N_scope.

Lemma land_low_shifted a b s : a < 2 ^ s -> N.land a (N.shiftl b s) = 0.
Proof.
  intros H. apply N.bits_inj. intros n. rewrite N.land_spec, N.bits_0.
  destruct (N.lt_ge_cases n s) as [Hn|Hn].
  - rewrite (N.shiftl_spec_low b s n Hn). apply andb_false_r.
  - assert (E : N.testbit a n = false).
    { rewrite <- (N.mod_small a (2 ^ s)) by exact H. apply N.mod_pow2_bits_high. exact Hn. }
    rewrite E. reflexivity.
Qed.

Lemma lor_shifted_add a b s : a < 2 ^ s -> N.lor a (N.shiftl b s) = a + b * 2 ^ s.
Proof.
  intros H. pose proof (land_low_shifted a b s H) as L.
  rewrite <- N.lxor_lor by exact L. rewrite <- N.add_nocarry_lxor by exact L.
  rewrite N.shiftl_mul_pow2. reflexivity.
Qed.

Lemma lor_shifted_add' a b s : b < 2 ^ s -> N.lor (N.shiftl a s) b = a * 2 ^ s + b.
Proof. intros H. rewrite N.lor_comm, lor_shifted_add by exact H. lia. Qed.

Lemma lor_disjoint_add x y k : x mod 2 ^ k = 0 -> y < 2 ^ k -> N.lor x y = x + y.
Proof.
  intros Hx Hy.
  assert (E : x = N.shiftl (x / 2 ^ k) k).
  { rewrite N.shiftl_mul_pow2. pose proof (N.div_mod x (2 ^ k)) as D.
    rewrite Hx in D. rewrite N.mul_comm. rewrite N.add_0_r in D. apply D. apply N.pow_nonzero. lia. }
  rewrite E at 1. rewrite lor_shifted_add' by exact Hy.
  rewrite N.shiftl_mul_pow2 in E. rewrite <- E. reflexivity.
Qed.
