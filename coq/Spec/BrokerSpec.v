(* The specification instance of the broker: the subscription index is simply the set of
   (filter, subscriber) pairs that were subscribed and not removed, and a lookup returns the
   subscribers holding a filter that matches the channel (Spec.PubSub).  Everything else (parsing,
   authorization, options, links, the request handlers) is shared with the model, so that the
   property statements talk about "held an acknowledged and not yet removed subscription whose
   filter matches" directly. *)
From Emitter Require Import Lib.Base Model.Trie Model.Broker Spec.PubSub.

Definition held := list (list N * N).
Definition hpair_eqb (a b : list N * N) : bool := list_eqb N.eqb (fst a) (fst b) && (snd a =? snd b).

Definition held_ix : ixops held :=
  IxOps held []
        (fun ssid s h => if existsb (hpair_eqb (ssid, s)) h then h else (ssid, s) :: h)
        (fun ssid s h => filter (fun p => negb (hpair_eqb (ssid, s) p)) h)
        (fun mqtt q h => dedup (map snd (filter (fun p => matches mqtt (fst p) q) h))).
