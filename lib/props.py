"""Per-property configuration of ./check."""

PROPS = {
    "C16": {
        "harness": "c16",
        "properties_v": "Properties/C16.v",
        "make_targets": ["Check/C16.vo", "Properties/C16.vo"],
        "model_targets": ["Check/C16.vo"],
        "corr_bits": {1: "model (Model/Mqtt.v) and implementation differ", 8: "Spec/Mqtt311.v disagrees with paho's encoding"},
        "oracle_bits": {2: "a well-formed packet is not encoded as MQTT 3.1.1 prescribes",
                        4: "encode-then-decode (or decode of an independent encoding) does not return the packet value",
                        16: "the independent implementation (paho) does not read back the broker's encoding"},
        "known_bits": {},
        "mult": {"quick": 1, "thorough": 30},
        "level_text": "Theorems over the byte-level model of the codec (all packet values, all lengths) checked by coqc; the model is tied to mqtt.go by running both, and paho as independent third party, on generated values and malformed byte strings every run.",
        "level_note": "Trusted: Coq kernel + vm_compute; the hand-written model (validated by correspondence, not generated); Spec/Mqtt311.v as a reading of the OASIS text (cross-checked against paho); generators bound the tie.",
        "trusted_base": [
            "hand-written model coq/Model/Mqtt.v of internal/network/mqtt/mqtt.go, tied by the c16 harness (real EncodeTo/DecodePacket and paho.mqtt.golang/packets on the same values)",
            "Spec/Mqtt311.v written from the OASIS text; compared byte for byte with paho's encoder on every generated well-formed value",
        ],
        "assumptions": ["io.Reader semantics of bytes.Reader; the sync.Pool buffer is not aliased between concurrent encoders (by-value model)"],
    },
    "C19": {
        "harness": "c19",
        "properties_v": "Properties/C19.v",
        "make_targets": ["Check/C19.vo", "Properties/C19.vo"],
        "model_targets": ["Check/C19.vo"],
        "corr_bits": {1: "model (Model/MsgCodec.v, Model/PeerQueue.v) and implementation differ"},
        "oracle_bits": {2: "message/frame does not survive encode/decode, an id does not give back its fields or order, Split drops/duplicates/exceeds the bound, or a queued message is not passed to the transport exactly once in order"},
        "known_bits": {},
        "mult": {"quick": 1, "thorough": 20},
        "level_text": "Theorems over the byte-level model of the message/frame codec, the id layout, Frame.Split and the peer send queue as a transition system (all interleavings of senders and the flusher at lock granularity); model tied to the code by running both on generated messages, frames, ids and Send/Flush scripts every run.",
        "level_note": "Trusted: Coq kernel + vm_compute; hand-written model validated by correspondence; snappy as an abstract bijection (the harness strips it with the same library); sync.Mutex atomicity of Send/swap and atomic.AddUint32; time.Now read by the harness within one second.",
        "trusted_base": ["hand-written models coq/Model/MsgCodec.v, Model/PeerQueue.v tied by the c19 harness (hooks: harness/hooks/message, harness/hooks/service__cluster, build tag verif, overlay only)",
                         "snappy.Encode/Decode treated as a bijection on byte strings", "sync.Mutex / atomic.AddUint32 atomicity"],
        "assumptions": ["no sequence-counter wrap (2^32 ids) within one second for the ordering statement", "times within [2018-01-01, +2^32 s)"],
    },
}
