(* Known finding F19 (C11): a ttl of -2^31 s requested at 2026 puts the expiry in 1958; the stored
   field wraps and the key reads as valid until 2094.  Evidence, not an obligation. *)
From Emitter Require Import Lib.Base Model.MsgCodec Model.Key.
Lemma C11_expiry_wrap_refuted :
  let now := 1790000000%Z in
  let requested := (now - 2147483648)%Z in
  (requested < now)%Z /\ (Z.of_N (expiry_field_of requested) + timeOffset > now + 2000000000)%Z.
Proof. vm_compute. split; reflexivity. Qed.
