(* The byte-lexicographic order of storage keys (Model/MsgCodec.v lex_ltb) is a strict total order. *)
From Coq Require Import Lia.
From Emitter Require Import Lib.Base Model.MsgCodec.

Lemma lex_irrefl a : lex_ltb a a = false.
Proof. induction a as [|x a IH]; cbn; [reflexivity|]. rewrite N.ltb_irrefl. exact IH. Qed.

Lemma lex_trans : forall a b c, lex_ltb a b = true -> lex_ltb b c = true -> lex_ltb a c = true.
Proof.
  induction a as [|x a IH]; intros [|y b] [|z c] H1 H2; cbn in *; try discriminate; try reflexivity.
  destruct (x <? y) eqn:Exy.
  - apply N.ltb_lt in Exy. destruct (y <? z) eqn:Eyz.
    + apply N.ltb_lt in Eyz. destruct (x <? z) eqn:E; [reflexivity|]. apply N.ltb_ge in E. lia.
    + destruct (z <? y) eqn:Ezy; [discriminate|]. apply N.ltb_ge in Eyz. apply N.ltb_ge in Ezy. assert (y = z) by lia. subst.
      destruct (x <? z) eqn:E; [reflexivity|]. apply N.ltb_ge in E. lia.
  - destruct (y <? x) eqn:Eyx; [discriminate|]. apply N.ltb_ge in Exy. apply N.ltb_ge in Eyx. assert (x = y) by lia. subst.
    destruct (y <? z) eqn:Eyz; [reflexivity|]. destruct (z <? y) eqn:Ezy; [discriminate|]. eapply IH; eassumption.
Qed.

Lemma lex_asym a b : lex_ltb a b = true -> lex_ltb b a = false.
Proof.
  intros H. destruct (lex_ltb b a) eqn:E; [|reflexivity].
  pose proof (lex_trans _ _ _ H E) as T. rewrite lex_irrefl in T. discriminate.
Qed.

Lemma lex_total : forall a b, lex_ltb a b = false -> lex_ltb b a = false -> a = b.
Proof.
  induction a as [|x a IH]; intros [|y b] H1 H2; cbn in *; try discriminate; [reflexivity|].
  destruct (x <? y) eqn:Exy; [discriminate|]. destruct (y <? x) eqn:Eyx; [discriminate|].
  apply N.ltb_ge in Exy. apply N.ltb_ge in Eyx. assert (x = y) by lia. subst. f_equal. apply IH; assumption.
Qed.

(* sorted lists of keys *)
Inductive ksorted : list bytes -> Prop :=
| ks_nil : ksorted []
| ks_cons k l : Forall (fun x => lex_ltb k x = true) l -> ksorted l -> ksorted (k :: l).

Lemma ksorted_filter (p : bytes -> bool) l : ksorted l -> ksorted (filter p l).
Proof.
  induction 1 as [|k l F S IH]; cbn; [constructor|]. destruct (p k); [|exact IH].
  constructor; [|exact IH]. rewrite Forall_forall in *. intros x Hx. apply filter_In in Hx. apply F. tauto.
Qed.
