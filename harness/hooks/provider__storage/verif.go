//go:build verif

package storage

import (
	"time"

	"github.com/emitter-io/emitter/internal/message"
)

// VerifLookupCap runs a lookup with the given limit and returns the capacity of the result buffer.
func (s *SSD) VerifLookupCap(limit int) int {
	return cap(s.lookup(newLookupQuery(message.Ssid{1, 2}, time.Unix(0, 0), time.Unix(0, 0), nil, limit)))
}
