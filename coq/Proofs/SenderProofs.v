From stdpp Require Import gmap.
From Coq Require Import ZArith Lia.
From Emitter Require Import Model.Lww Model.Sender Proofs.LwwProofs.
Local Open Scope Z_scope.

(* with a union-returning Merge, the payload finally sent carries every update queued *)
Lemma union_sender_complete : forall ps p0 k,
  nonneg p0 ->
  match fold_left sender_send ps (Some p0) with
  | Some out => tadd out k = tmax_add ps k (tadd p0 k) /\ tdel out k = tmax_del ps k (tdel p0 k) /\ nonneg out
  | None => False
  end.
Proof.
  induction ps as [|p ps IH]; intros p0 k Hn; cbn [fold_left sender_send].
  - split; [reflexivity|split; [reflexivity|exact Hn]].
  - specialize (IH (lww_merge p0 p) k (merge_nonneg p0 p Hn)).
    destruct (fold_left sender_send ps (Some (lww_merge p0 p))) as [out|]; [|exact IH].
    destruct IH as (A & B & C). destruct (merge_times p0 p k Hn) as [E1 E2].
    unfold tmax_add, tmax_del in *. cbn [fold_left]. rewrite A, B, E1, E2. split; [reflexivity|split; [reflexivity|exact C]].
Qed.
