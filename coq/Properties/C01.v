(* C01 - Published messages reach exactly the matching subscribers.
   Model: Model/Trie.v (subtrie.go, sub.go), spec: Spec/PubSub.v; tied to the code by the c01
   harness (both matcher modes, dump hook, concurrent stress) on every run.
   Concurrency: every exported Trie method runs under the trie's lock for its whole body, so every
   interleaving of concurrent callers is a sequence of the atomic steps quantified over below. *)
From Emitter Require Import Lib.Base Model.Trie Spec.PubSub
     Proofs.TrieProofs Proofs.TrieLookup Proofs.TrieReach.

(* after ANY history of subscribe / unsubscribe, the trie stores exactly the pairs subscribed and
   not removed since ([held]), Count is their number, and the structural invariant holds *)
Theorem C01_refines_set : forall ops,
  Inv (run ops)
  /\ (forall p, In p (abs (run ops)) <-> In p (held ops []))
  /\ t_count (run ops) = Z.of_nat (length (abs (run ops))).
Proof. intros ops. split; [apply run_inv | split; [intros p; apply run_abs | apply count_is_size]]. Qed.
Print Assumptions C01_refines_set.

(* one step, for every reachable state *)
Theorem C01_subscribe_refines : forall ssid s t, Inv t ->
  Inv (subscribe ssid s t) /\ (forall p, In p (abs (subscribe ssid s t)) <-> In p (abs t) \/ p = (ssid, s)).
Proof. exact subscribe_refines. Qed.
Print Assumptions C01_subscribe_refines.

Theorem C01_unsubscribe_refines : forall ssid s t, Inv t ->
  Inv (unsubscribe ssid s t) /\ (forall p, In p (abs (unsubscribe ssid s t)) <-> In p (abs t) /\ p <> (ssid, s)).
Proof. exact unsubscribe_refines. Qed.
Print Assumptions C01_unsubscribe_refines.

(* a lookup hands the message to exactly the subscribers holding a matching filter (emitter mode:
   level-wise prefix with '+'; mqtt mode: same depth with '+', trailing '#' = one or more levels) *)
Theorem C01_lookup_exact : forall mqtt ops q s,
  In s (lookup_raw mqtt q (t_root (run ops)))
  <-> exists f, In (f, s) (abs (run ops)) /\ matches mqtt f q = true.
Proof. intros. apply lookup_raw_exact. apply (run_inv ops). Qed.
Print Assumptions C01_lookup_exact.

(* ... each of them once, plus exactly one member of every share group that has a matching member
   (whatever the pseudo-random source yields), and nobody else *)
Theorem C01_share_one_per_group : forall mqtt q t picks,
  NoDup (lookup mqtt q t picks)
  /\ exists r, picks_valid (share_groups mqtt q (t_root t)) r
       /\ forall s, In s (lookup mqtt q t picks) <-> In s (lookup_raw mqtt q (t_root t)) \/ In s r.
Proof. exact lookup_spec. Qed.
Print Assumptions C01_share_one_per_group.

(* the members of a share group are the subscribers of [contract; $share; group; filter...] whose
   filter matches the rest of the channel *)
Theorem C01_share_groups_members : forall mqtt root c rest, wf root ->
  forall g grp, (exists cn sn gn, aget c (nkids root) = Some cn /\ aget share (nkids cn) = Some sn
                                  /\ aget g (nkids sn) = Some gn /\ grp = dedup (lookup_raw mqtt rest gn)) ->
  forall s, In s grp <-> exists f, In (c :: share :: g :: f, s) (pairs root) /\ matches mqtt f rest = true.
Proof. exact share_groups_spec. Qed.
Print Assumptions C01_share_groups_members.

(* when every subscription has been removed the index is empty again *)
Theorem C01_pruned : forall ops, held ops [] = [] -> run ops = trie0.
Proof. exact empty_again. Qed.
Print Assumptions C01_pruned.

Example C01_nonvacuous :
  let ops := [OSub [7; 11; 12] 1; OSub [7; wildcard] 2; OSub [7; share; 100; 11] 3; OSub [7; 11; 12] 1; OUnsub [7; 9] 4] in
  t_count (run ops) = 3%Z
  /\ lookup false [7; 11; 12] (run ops) [] = [1; 2; 3]
  /\ lookup true [7; 11] (run ops) [] = [2; 3]
  /\ run (ops ++ [OUnsub [7; 11; 12] 1; OUnsub [7; wildcard] 2; OUnsub [7; share; 100; 11] 3]) = trie0.
Proof. vm_compute. repeat split; reflexivity. Qed.
