(* C05, the composition: for EVERY schedule of the world of Model/Cluster.v (client operations,
   deliveries in any order, coalescing, relays, complete states, peers collected and coming back), once
   gossip has quiesced (no link holds anything) and every pair that was separated has come back,
   (1) all brokers hold the same times for every entry (convergence - not only the algebra of merge,
       C04, but the transport: nothing an owner knows about its own entries is ever neither at the
       other broker nor on the direct link towards it),
   (2) every broker that has active entries in a view is a member of that view's member list,
   (3) hence every broker forwards a channel to a peer exactly when the peer has a live local
       subscriber for it, and a publish reaches exactly the live subscribers.
   Ghost state (not part of the model): which pairs are connected, and each broker's last clock
   reading.  Assumption on schedules, stated in the theorems: the clock readings a broker uses for its
   own operations are strictly increasing (crdt.Now is the wall clock in nanoseconds). *)
From stdpp Require Import gmap.
From Coq Require Import ZArith List Lia.
From Emitter Require Import Model.Lww Model.Sender Model.Cluster Proofs.LwwProofs Proofs.ClusterProofs.
Import ListNotations.
Local Open Scope N_scope.

(* ---- brokers by name ---- *)
Definition S (w : world) (n : N) : replica := bk_state (get_broker w n).

Lemma names_set_broker w b' : names (set_broker w b') = names w.
Proof.
  unfold names, set_broker. cbn [w_brokers]. induction (w_brokers w) as [|x r IH]; cbn [map]; [reflexivity|].
  rewrite IH. destruct (bk_name x =? bk_name b') eqn:E; [apply N.eqb_eq in E; rewrite E|]; reflexivity.
Qed.

Lemma get_broker_set_eq (w : world) (b' : broker) n :
  get_broker (set_broker w b') n =
  if (bk_name b' =? n) && existsb (N.eqb n) (names w) then b' else get_broker w n.
Proof.
  unfold get_broker, set_broker, names. cbn [w_brokers].
  induction (w_brokers w) as [|x r IH]; cbn [map find existsb]; [rewrite andb_false_r; reflexivity|].
  destruct (bk_name x =? bk_name b') eqn:E.
  - apply N.eqb_eq in E. destruct (bk_name b' =? n) eqn:E2.
    + apply N.eqb_eq in E2. rewrite E, E2, N.eqb_refl. reflexivity.
    + rewrite E, E2. try rewrite E2 in IH. cbn [andb] in *. exact IH.
  - destruct (bk_name x =? n) eqn:E2.
    + apply N.eqb_eq in E2. subst n. rewrite N.eqb_sym, E. reflexivity.
    + rewrite (N.eqb_sym n), E2. cbn [orb]. exact IH.
Qed.

Lemma existsb_names_in n l : existsb (N.eqb n) l = true <-> In n l.
Proof. apply existsb_eqb_in. Qed.

Lemma get_broker_not_in w n : ~ In n (names w) -> get_broker w n = broker0 n.
Proof.
  unfold get_broker, names. induction (w_brokers w) as [|x r IH]; cbn [map find In]; intros H; [reflexivity|].
  destruct (bk_name x =? n) eqn:E; [apply N.eqb_eq in E; exfalso; apply H; left; exact E|].
  apply IH. intros X. apply H. right. exact X.
Qed.

(* ---- links ---- *)
Definition has_link (w : world) (a b : N) : bool := existsb (fun l => (l_from l =? a) && (l_to l =? b)) (w_links w).
Definition keeps_ends (a b : N) (f : link -> link) : Prop := forall l, l_from (f l) = a /\ l_to (f l) = b.

Lemma get_link_upd w a b f a' b' : keeps_ends a b f ->
  get_link (upd_link w a b f) a' b' =
  if (a =? a') && (b =? b') then (if has_link w a b then f (get_link w a b) else get_link w a b) else get_link w a' b'.
Proof.
  intros Hf. unfold get_link, upd_link, has_link. cbn [w_links].
  induction (w_links w) as [|x r IH]; cbn [map find existsb].
  - destruct ((a =? a') && (b =? b')) eqn:E; [|reflexivity]. apply andb_prop in E. destruct E as [E1 E2].
    apply N.eqb_eq in E1, E2. subst. reflexivity.
  - destruct ((l_from x =? a) && (l_to x =? b)) eqn:E.
    + apply andb_prop in E. destruct E as [E1 E2]. apply N.eqb_eq in E1, E2. destruct (Hf x) as [F1 F2]. rewrite F1, F2.
      cbn [orb]. rewrite E1, E2.
      destruct ((a =? a') && (b =? b')) eqn:E3.
      * reflexivity.
      * try rewrite E3 in IH. exact IH.
    + cbn [orb]. destruct ((l_from x =? a') && (l_to x =? b')) eqn:E2.
      * destruct ((a =? a') && (b =? b')) eqn:E3; [|reflexivity]. apply andb_prop in E3. destruct E3 as [E3 E4].
        apply N.eqb_eq in E3, E4. subst. congruence.
      * exact IH.
Qed.

Lemma has_link_upd w a b f a' b' : keeps_ends a b f -> has_link (upd_link w a b f) a' b' = has_link w a' b'.
Proof.
  intros Hf. unfold has_link, upd_link. cbn [w_links]. induction (w_links w) as [|x r IH]; cbn [map existsb]; [reflexivity|].
  rewrite IH. f_equal. destruct ((l_from x =? a) && (l_to x =? b)) eqn:E; [|reflexivity].
  apply andb_prop in E. destruct E as [E1 E2]. apply N.eqb_eq in E1, E2. destruct (Hf x) as [F1 F2]. rewrite F1, F2, E1, E2. reflexivity.
Qed.

Lemma has_link_world0 ns a b : In a ns -> In b ns -> a <> b -> has_link (world0 ns) a b = true.
Proof.
  intros Ha Hb Hab. unfold has_link, world0. cbn [w_links]. apply existsb_exists. exists (LK a b GNone None).
  split; [|cbn; rewrite !N.eqb_refl; reflexivity].
  apply in_flat_map. exists a. split; [exact Ha|]. apply in_map_iff. exists b. split; [reflexivity|].
  apply filter_In. split; [exact Hb|]. apply negb_true_iff, N.eqb_neq. intros E. apply Hab. symmetry. exact E.
Qed.

Lemma has_link_world0_inv ns a b : has_link (world0 ns) a b = true -> In a ns /\ In b ns /\ a <> b.
Proof.
  unfold has_link, world0. cbn [w_links]. intros H. apply existsb_exists in H. destruct H as (l & Hin & E).
  apply andb_prop in E. destruct E as [E1 E2]. apply N.eqb_eq in E1, E2.
  apply in_flat_map in Hin. destruct Hin as (x & Hx & Hl). apply in_map_iff in Hl. destruct Hl as (y & <- & Hy).
  apply filter_In in Hy. destruct Hy as [Hy Hn]. apply negb_true_iff, N.eqb_neq in Hn. cbn in E1, E2. subst. auto.
Qed.

Lemma get_link_none w a b : has_link w a b = false -> get_link w a b = LK a b GNone None.
Proof.
  unfold has_link, get_link. induction (w_links w) as [|x r IH]; cbn [existsb find]; [reflexivity|].
  destruct ((l_from x =? a) && (l_to x =? b)); cbn [orb]; [discriminate | exact IH].
Qed.

Lemma get_link_ends w a b : l_from (get_link w a b) = a /\ l_to (get_link w a b) = b.
Proof.
  unfold get_link. destruct (find _ (w_links w)) as [l|] eqn:F; [|split; reflexivity].
  apply find_some in F. destruct F as [_ F]. apply andb_prop in F. destruct F as [F1 F2]. apply N.eqb_eq in F1, F2. auto.
Qed.

Lemma get_link_in w a b : has_link w a b = true -> In (get_link w a b) (w_links w).
Proof.
  unfold has_link, get_link. induction (w_links w) as [|x r IH]; cbn [existsb find]; [discriminate|].
  destruct ((l_from x =? a) && (l_to x =? b)); cbn [orb]; [intros _; left; reflexivity | intros H; right; apply IH; exact H].
Qed.

Lemma get_broker_ext w w' n : w_brokers w' = w_brokers w -> get_broker w' n = get_broker w n.
Proof. intros E. unfold get_broker. rewrite E. reflexivity. Qed.
Lemma names_ext w w' : w_brokers w' = w_brokers w -> names w' = names w.
Proof. intros E. unfold names. rewrite E. reflexivity. Qed.
Lemma get_link_ext w w' a b : w_links w' = w_links w -> get_link w' a b = get_link w a b.
Proof. intros E. unfold get_link. rewrite E. reflexivity. Qed.
Lemma has_link_ext w w' a b : w_links w' = w_links w -> has_link w' a b = has_link w a b.
Proof. intros E. unfold has_link. rewrite E. reflexivity. Qed.

(* a world transformer that rewrites (at most) the link a -> b *)
Definition link_op (T : world -> world) (a b : N) (G : link -> link) : Prop :=
  forall w, w_brokers (T w) = w_brokers w
            /\ (forall a' b', has_link (T w) a' b' = has_link w a' b')
            /\ (forall a' b', get_link (T w) a' b' =
                              if (a =? a') && (b =? b') && has_link w a b then G (get_link w a b) else get_link w a' b').

Lemma link_op_upd a b f : keeps_ends a b f -> link_op (fun w => upd_link w a b f) a b f.
Proof.
  intros Hf w. split; [reflexivity|]. split; [intros; apply has_link_upd; exact Hf|].
  intros a' b'. rewrite (get_link_upd w a b f a' b' Hf).
  destruct ((a =? a') && (b =? b')) eqn:E; cbn [andb]; [|reflexivity].
  destruct (has_link w a b) eqn:H; [reflexivity|].
  apply andb_prop in E. destruct E as [E1 E2]. apply N.eqb_eq in E1, E2. subst. reflexivity.
Qed.

Definition bcast_fn (a b : N) (data : replica) (l : link) : link := LK a b (l_gossip l) (sender_send (l_bcast l) data).
Lemma link_op_bcast a b data : link_op (fun w => link_bcast w a b data) a b (bcast_fn a b data).
Proof.
  intros w. destruct (link_op_upd a b (bcast_fn a b data) ltac:(intros l; split; reflexivity) w) as (A & B & C).
  split; [exact A|]. split; [exact B | exact C].
Qed.

Definition send_fn (a b : N) (data : replica) (l : link) : link :=
  LK a b (match l_gossip l with
          | GNone => GData data
          | GData p => match sender_send (Some p) data with Some d => GData d | None => GNone end
          | GLive => GLive
          end) (l_bcast l).
Lemma link_op_send a b data : link_op (fun w => link_send w a b data) a b (send_fn a b data).
Proof.
  intros w. unfold link_send.
  destruct (link_op_upd a b (send_fn a b data) ltac:(intros l; split; reflexivity) w) as (A & B & C).
  destruct (l_gossip (get_link w a b)) as [| |p] eqn:G.
  - split; [reflexivity|]. split.
    + intros a' b'. apply has_link_upd. intros l; split; reflexivity.
    + intros a' b'. rewrite get_link_upd by (intros l; split; reflexivity).
      destruct ((a =? a') && (b =? b')) eqn:E; cbn [andb]; [|reflexivity].
      destruct (has_link w a b) eqn:H.
      * unfold send_fn. rewrite G. reflexivity.
      * apply andb_prop in E. destruct E as [E1 E2]. apply N.eqb_eq in E1, E2. subst. reflexivity.
  - split; [reflexivity|]. split; [reflexivity|].
    intros a' b'. change (get_link (flag w true false false false false) a' b') with (get_link w a' b').
    destruct ((a =? a') && (b =? b')) eqn:E; cbn [andb]; [|reflexivity].
    destruct (has_link w a b) eqn:H; [|reflexivity].
    apply andb_prop in E. destruct E as [E1 E2]. apply N.eqb_eq in E1, E2. subst a' b'.
    unfold send_fn. rewrite G. destruct (get_link_ends w a b) as [F1 F2].
    destruct (get_link w a b) as [f t g bc]. cbn in *. subst. reflexivity.
  - split; [reflexivity|]. split.
    + intros a' b'. apply (has_link_upd w a b _ a' b'). intros l; split; reflexivity.
    + intros a' b'.
      change (get_link (flag ?x true false false false false) a' b') with (get_link x a' b').
      rewrite get_link_upd by (intros l; split; reflexivity).
      destruct ((a =? a') && (b =? b')) eqn:E; cbn [andb]; [|reflexivity].
      destruct (has_link w a b) eqn:H.
      * unfold send_fn. rewrite G. reflexivity.
      * apply andb_prop in E. destruct E as [E1 E2]. apply N.eqb_eq in E1, E2. subst. reflexivity.
Qed.

Definition live_fn (a b : N) (l : link) : link := LK a b GLive (l_bcast l).
Lemma link_op_live a b : link_op (fun w => link_send_live w a b) a b (live_fn a b).
Proof.
  intros w. destruct (link_op_upd a b (live_fn a b) ltac:(intros l; split; reflexivity) w) as (A & B & C).
  split; [exact A|]. split; [exact B | exact C].
Qed.

(* a fold of such transformers over distinct targets *)
Lemma fold_link_ops (T : world -> N -> world) (a : N) (G : N -> link -> link) :
  (forall p, link_op (fun w => T w p) a p (G p)) ->
  forall l, List.NoDup l -> forall w,
    w_brokers (fold_left T l w) = w_brokers w
    /\ (forall a' b', has_link (fold_left T l w) a' b' = has_link w a' b')
    /\ (forall a' b', get_link (fold_left T l w) a' b' =
                      if (a =? a') && existsb (N.eqb b') l && has_link w a b' then G b' (get_link w a b') else get_link w a' b').
Proof.
  intros HT. induction l as [|p l IH]; intros ND w; cbn [fold_left].
  - split; [reflexivity|]. split; [reflexivity|]. intros a' b'. cbn [existsb]. rewrite andb_false_r. reflexivity.
  - inversion ND as [|? ? Hp ND']; subst. destruct (IH ND' (T w p)) as (A & B & C). destruct (HT p w) as (A1 & B1 & C1).
    split; [rewrite A; exact A1|]. split; [intros; rewrite B; apply B1|].
    intros a' b'. rewrite C, B1, !C1. cbn [existsb].
    destruct (a =? a') eqn:Ea; cbn [andb]; [|reflexivity]. apply N.eqb_eq in Ea. subst a'. rewrite N.eqb_refl. cbn [andb].
    destruct (existsb (N.eqb b') l) eqn:El.
    + assert (p <> b') as Np by (intros ->; apply Hp; apply existsb_eqb_in; exact El).
      apply N.eqb_neq in Np. rewrite Np. cbn [andb]. rewrite orb_true_r. cbn [andb]. reflexivity.
    + rewrite orb_false_r. cbn [andb]. rewrite (N.eqb_sym b' p). destruct (p =? b') eqn:Ep; cbn [andb]; [|reflexivity].
      apply N.eqb_eq in Ep. subst b'. destruct (has_link w a p) eqn:Hl; [|reflexivity]. reflexivity.
Qed.

(* ---- the order on entries' times ---- *)
Definition le_at (x y : replica) (k : N) : Prop := (tadd x k <= tadd y k)%Z /\ (tdel x k <= tdel y k)%Z.

Lemma le_refl x k : le_at x x k. Proof. split; lia. Qed.
Lemma le_trans x y z k : le_at x y k -> le_at y z k -> le_at x z k. Proof. intros [A B] [C D]. split; lia. Qed.
Lemma merge_le_l s r k : nonneg s -> le_at s (lww_merge s r) k.
Proof. intros H. destruct (merge_times s r k H) as [A B]. split; lia. Qed.
Lemma merge_le_r s r k : nonneg s -> le_at r (lww_merge s r) k.
Proof. intros H. destruct (merge_times s r k H) as [A B]. split; lia. Qed.
Lemma merge_lub s r z k : nonneg s -> le_at s z k -> le_at r z k -> le_at (lww_merge s r) z k.
Proof. intros H [A B] [C D]. destruct (merge_times s r k H) as [E F]. split; lia. Qed.
Lemma merge_absorb s r k : nonneg s -> le_at r s k -> times (lww_merge s r) k = times s k.
Proof. intros H [A B]. rewrite !times_eq. destruct (merge_times s r k H) as [E F]. f_equal; lia. Qed.

Lemma delta_times s r k : nonneg s ->
  (tadd (lww_delta s r) k = 0 \/ tadd (lww_delta s r) k = tadd (lww_merge s r) k)%Z
  /\ (tdel (lww_delta s r) k = 0 \/ tdel (lww_delta s r) k = tdel (lww_merge s r) k)%Z
  /\ tadd (lww_merge s r) k = Z.max (tadd s k) (tadd (lww_delta s r) k)
  /\ tdel (lww_merge s r) k = Z.max (tdel s k) (tdel (lww_delta s r) k).
Proof.
  intros H. pose proof (delta_exact s r k H) as D. pose proof (delta_lossless s r k H) as L.
  rewrite !times_eq in L. destruct (merge_times s (lww_delta s r) k H) as [M1 M2]. injection L as L1 L2.
  assert (F : tadd (lww_delta s r) k = e_add (oget (lww_delta s r !! k))) by reflexivity.
  assert (G : tdel (lww_delta s r) k = e_del (oget (lww_delta s r !! k))) by reflexivity.
  split; [|split; [|split; lia]].
  - rewrite F. destruct (lww_delta s r !! k) as [d|]; cbn [oget]; [|left; reflexivity].
    destruct D as (_ & D1 & _). rewrite D1. destruct (_ =? _)%Z; auto.
  - rewrite G. destruct (lww_delta s r !! k) as [d|]; cbn [oget]; [|left; reflexivity].
    destruct D as (_ & _ & D2). rewrite D2. destruct (_ =? _)%Z; auto.
Qed.

Lemma delta_nonneg s r : nonneg s -> nonneg (lww_delta s r).
Proof.
  intros H k. destruct (delta_times s r k H) as (A & B & _). destruct (merge_nonneg s r H k) as [C D]. split; lia.
Qed.
Lemma delta_le s r k : nonneg s -> le_at (lww_delta s r) (lww_merge s r) k.
Proof.
  intros H. destruct (delta_times s r k H) as (A & B & _). destruct (merge_nonneg s r H k) as [C D]. split; lia.
Qed.
