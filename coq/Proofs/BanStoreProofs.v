(* C14: the read cache is coherent with the database in every reachable state, hence every use of
   a key is answered from the latest acknowledged ban request - also after a restart, and on a
   second broker once the ban payload has been merged there. *)
From stdpp Require Import gmap.
From Coq Require Import ZArith Lia.
From Emitter Require Import Model.Lww Model.BanStore Proofs.LwwProofs.
Local Open Scope Z_scope.

Definition coherent (s : bstore) : Prop :=
  forall k e, bs_cache s !! k = Some e -> bs_db s !! k = Some e.

Lemma coherent0 : coherent bs0.
Proof. intros k e H. cbn in H. rewrite lookup_empty in H. discriminate. Qed.

Lemma fetch_coherent s k :
  coherent s -> fst (bs_fetch s k) = fetch (bs_db s) k /\ coherent (snd (bs_fetch s k))
                /\ bs_db (snd (bs_fetch s k)) = bs_db s.
Proof.
  intros C. unfold bs_fetch, fetch.
  destruct (bs_cache s !! k) as [e|] eqn:Hc.
  - rewrite (C k e Hc). cbn. auto.
  - destruct (bs_db s !! k) as [e|] eqn:Hd; cbn [fst snd oget bs_db]; repeat split; try exact C.
    intros k' e' H. cbn [bs_cache bs_db] in *.
    destruct (decide (k = k')) as [->|Hne].
    + rewrite lookup_insert in H. injection H as <-. exact Hd.
    + rewrite lookup_insert_ne in H by exact Hne. apply C. exact H.
Qed.

Lemma has_coherent s k :
  coherent s -> fst (bs_has s k) = has (bs_db s) k /\ coherent (snd (bs_has s k))
                /\ bs_db (snd (bs_has s k)) = bs_db s.
Proof.
  intros C. unfold bs_has. destruct (fetch_coherent s k C) as (F1 & F2 & F3).
  destruct (bs_fetch s k) as [e s']. cbn [fst snd] in *. subst e. auto.
Qed.

Lemma store_coherent s k e : coherent s -> coherent (bs_store s k e).
Proof.
  intros C k' e' H. unfold bs_store in *. cbn [bs_cache bs_db] in *.
  destruct (decide (k = k')) as [->|Hne].
  - rewrite lookup_delete in H. discriminate.
  - rewrite lookup_delete_ne in H by exact Hne. rewrite lookup_insert_ne by exact Hne. apply C. exact H.
Qed.

Lemma evict_coherent s k : coherent s -> coherent (bs_evict s k).
Proof.
  intros C k' e' H. unfold bs_evict in *. cbn [bs_cache bs_db] in *.
  destruct (decide (k = k')) as [->|Hne].
  - rewrite lookup_delete in H. discriminate.
  - rewrite lookup_delete_ne in H by exact Hne. apply C. exact H.
Qed.

Lemma restart_coherent s : coherent (bs_restart s).
Proof. intros k e H. cbn in H. rewrite lookup_empty in H. discriminate. Qed.

(* a key the payload does not change keeps its database entry *)
Lemma merge_untouched s r k : lww_delta s r !! k = None -> lww_merge s r !! k = s !! k.
Proof.
  rewrite lookup_lww_delta, lookup_lww_merge. unfold merge_delta, merge_local.
  destruct (r !! k) as [rt|]; [|reflexivity].
  unfold merge_entry. destruct (is_zero _); cbn [fst snd]; [reflexivity | discriminate].
Qed.

Lemma merge_coherent s r : coherent s -> coherent (bs_merge s r).
Proof.
  intros C k e H. unfold bs_merge in *. cbn [bs_cache bs_db] in *.
  apply map_filter_lookup_Some in H. destruct H as [H1 H2]. cbn [fst] in H2.
  rewrite merge_untouched by exact H2. apply C. exact H1.
Qed.

(* ---- the ban protocol at one broker ---- *)
Fixpoint run (s : bstore) (ops : list ban_op) : list (option bool) :=
  match ops with
  | [] => []
  | o :: r => let (s', out) := ban_step s o in out :: run s' r
  end.

Definition upd (L : N -> bool) (k : N) (b : bool) : N -> bool := fun k' => if decide (k = k') then b else L k'.

(* the specification: a use is refused iff the latest acknowledged request for that key banned it *)
Fixpoint spec (L : N -> bool) (ops : list ban_op) : list (option bool) :=
  match ops with
  | [] => []
  | KBan k _ :: r => None :: spec (upd L k true) r
  | KUnban k _ :: r => None :: spec (upd L k false) r
  | KUse k :: r => Some (L k) :: spec L r
  | _ :: r => None :: spec L r
  end.

(* clock readings of successive ban requests increase (nanosecond clock) *)
Fixpoint mono (t : Z) (ops : list ban_op) : Prop :=
  match ops with
  | [] => True
  | KBan _ now :: r | KUnban _ now :: r => t < now /\ mono now r
  | _ :: r => mono t r
  end.

Definition inv (s : bstore) (t : Z) (L : N -> bool) : Prop :=
  coherent s /\ 0 <= t
  /\ (forall k, 0 <= tadd (bs_db s) k <= t /\ 0 <= tdel (bs_db s) k <= t)
  /\ (forall k, has (bs_db s) k = L k).

Lemma inv0 : inv bs0 0 (fun _ => false).
Proof.
  repeat split; try apply coherent0; try lia;
    unfold tadd, tdel, has, fetch; cbn [bs_db bs0]; rewrite lookup_empty; cbn; lia.
Qed.

Lemma has_insert (db : replica) k e k' :
  has (<[k := e]> db) k' = if decide (k = k') then is_added e else has db k'.
Proof.
  unfold has, fetch. destruct (decide (k = k')) as [->|Hne].
  - rewrite lookup_insert. reflexivity.
  - rewrite lookup_insert_ne by exact Hne. reflexivity.
Qed.

Lemma ban_step_inv s t L o :
  inv s t L ->
  match o with KBan _ now | KUnban _ now => t < now | _ => True end ->
  let s' := fst (ban_step s o) in
  let t' := match o with KBan _ now | KUnban _ now => now | _ => t end in
  let L' := match o with KBan k _ => upd L k true | KUnban k _ => upd L k false | _ => L end in
  inv s' t' L'
  /\ snd (ban_step s o) = match o with KUse k => Some (L k) | _ => None end.
Proof.
  intros (C & T0 & B & H) M. destruct o as [k now | k now | k | k | ]; cbn [ban_step].
  - (* ban *)
    destruct (has_coherent s k C) as (F1 & F2 & F3). destruct (bs_has s k) as [b s1]. cbn [fst snd] in *.
    subst b. rewrite H. split; [|reflexivity].
    destruct (L k) eqn:EL.
    + repeat split; try exact F2; try lia; rewrite F3.
      * specialize (B k0). lia. * specialize (B k0). lia. * specialize (B k0). lia. * specialize (B k0). lia.
      * intros k'. unfold upd. destruct (decide (k = k')) as [<-|]; [rewrite H; exact EL | apply H].
    + unfold bs_add. rewrite F3. pose proof (B k) as Bk. unfold tadd, tdel in Bk.
      assert (E : (e_add (fetch (bs_db s) k) <? now) = true) by (apply Z.ltb_lt; lia). rewrite E.
      repeat split; try (apply store_coherent; exact F2); try lia.
      all: cbn [bs_store bs_db]; rewrite ?F3.
      1-4: unfold tadd, tdel, fetch; destruct (decide (k = k0)) as [<-|Hne];
        [rewrite lookup_insert; cbn [oget e_add e_del]; fold (fetch (bs_db s) k); lia
        | rewrite lookup_insert_ne by exact Hne; specialize (B k0); unfold tadd, tdel, fetch in B; lia].
      intros k'. rewrite has_insert. unfold upd. destruct (decide (k = k')) as [<-|]; [|apply H].
      unfold is_added. cbn [e_add e_del].
      apply andb_true_iff. split; [apply negb_true_iff, Z.eqb_neq; lia | apply Z.leb_le; lia].
  - (* unban *)
    destruct (has_coherent s k C) as (F1 & F2 & F3). destruct (bs_has s k) as [b s1]. cbn [fst snd] in *.
    subst b. rewrite H. split; [|reflexivity].
    destruct (L k) eqn:EL.
    + unfold bs_del. rewrite F3. pose proof (B k) as Bk. unfold tadd, tdel in Bk.
      assert (E : (e_del (fetch (bs_db s) k) <? now) = true) by (apply Z.ltb_lt; lia). rewrite E.
      repeat split; try (apply store_coherent; exact F2); try lia.
      all: cbn [bs_store bs_db]; rewrite ?F3.
      1-4: unfold tadd, tdel, fetch; destruct (decide (k = k0)) as [<-|Hne];
        [rewrite lookup_insert; cbn [oget e_add e_del]; fold (fetch (bs_db s) k); lia
        | rewrite lookup_insert_ne by exact Hne; specialize (B k0); unfold tadd, tdel, fetch in B; lia].
      intros k'. rewrite has_insert. unfold upd. destruct (decide (k = k')) as [<-|]; [|apply H].
      unfold is_added. cbn [e_add e_del].
      apply andb_false_iff. right. apply Z.leb_gt. lia.
    + repeat split; try exact F2; try lia; rewrite F3.
      * specialize (B k0). lia. * specialize (B k0). lia. * specialize (B k0). lia. * specialize (B k0). lia.
      * intros k'. unfold upd. destruct (decide (k = k')) as [<-|]; [rewrite H; exact EL | apply H].
  - (* use *)
    destruct (has_coherent s k C) as (F1 & F2 & F3). destruct (bs_has s k) as [b s1]. cbn [fst snd] in *.
    subst b. rewrite H. split; [|reflexivity].
    repeat split; try exact F2; try lia; rewrite F3; try apply B. apply H.
  - split; [|reflexivity]. cbn [fst]. repeat split; try (apply evict_coherent; exact C); try lia; cbn [bs_evict bs_db]; try apply B. apply H.
  - split; [|reflexivity]. cbn [fst]. repeat split; try apply restart_coherent; try lia; cbn [bs_restart bs_db]; try apply B. apply H.
Qed.

Theorem run_spec : forall ops s t L, inv s t L -> mono t ops -> run s ops = spec L ops.
Proof.
  induction ops as [|o ops IH]; intros s t L I M; [reflexivity|].
  cbn [run].
  assert (Mo : match o with KBan _ now | KUnban _ now => t < now | _ => True end)
    by (destruct o; cbn [mono] in M; tauto).
  destruct (ban_step_inv s t L o I Mo) as [I' O]. cbv zeta in I'.
  destruct (ban_step s o) as [s' out]. cbn [fst snd] in *. subst out.
  destruct o as [k now | k now | k | k | ]; cbn [spec mono] in *; f_equal;
    first [ apply (IH _ _ _ I'); tauto | apply (IH _ _ _ I'); exact M ].
Qed.

(* on a second broker: once A's state has been merged into B, B answers like A - whether or not
   B had the key in its cache - provided B knows nothing newer than A (B only ever merges A) *)
Theorem merged_broker_agrees sa sb k :
  coherent sb -> nonneg (bs_db sb) ->
  (forall k, tadd (bs_db sb) k <= tadd (bs_db sa) k /\ tdel (bs_db sb) k <= tdel (bs_db sa) k) ->
  fst (bs_has (bs_merge sb (bs_db sa)) k) = has (bs_db sa) k.
Proof.
  intros C Nn Le. destruct (has_coherent _ k (merge_coherent sb (bs_db sa) C)) as (F1 & _ & _).
  rewrite F1. cbn [bs_merge bs_db]. unfold has, is_added.
  destruct (merge_times (bs_db sb) (bs_db sa) k Nn) as [E1 E2]. unfold tadd, tdel in *.
  rewrite E1, E2. specialize (Le k).
  replace (Z.max (e_add (fetch (bs_db sb) k)) (e_add (fetch (bs_db sa) k))) with (e_add (fetch (bs_db sa) k)) by lia.
  replace (Z.max (e_del (fetch (bs_db sb) k)) (e_del (fetch (bs_db sa) k))) with (e_del (fetch (bs_db sa) k)) by lia.
  reflexivity.
Qed.
