(* Correspondence cases of C11. *)
From Emitter Require Import Lib.Base Model.MsgCodec Model.Murmur Model.Channel Model.Cipher Model.Key Spec.KeyAuth.

Inductive gout := GOk (k : bytes) (channel : bytes) | GErr (e : gerr) | GPanic.

Inductive case :=
| CCreate (parent : res kerr key) (parent_str : bytes) (ct : contract) (now : Z) (channel : bytes) (access : N) (expires : Z) (out : gout)
| CGen (parent : res kerr key) (parent_str : bytes) (ct : contract) (now : Z)
       (channel ty : bytes) (ttl expires : Z) (conn_id : bytes) (out : gout)
(* the parent key string presented to Authorize after the request: still the key it was *)
(* an extendable key (read + write on a/) used as a channel key against a real broker: subscriptions the
   index gained, whether the client received a message of a/, whether its own publish was delivered *)
| CExtUse (how : N) (held : Z) (received delivered : bool)
| CProbe (parent : res kerr key) (parent_str : bytes) (ct : contract) (now : Z) (text : bytes) (perm : N) (ok : bool).

(* 0 is not a date but "never expires": it is near nothing else *)
Definition near (a b : N) : bool := (a <=? b + 3) && (b <=? a + 3) && Bool.eqb (a =? 0) (b =? 0).

(* all bytes equal except the expiry field, which may differ by the seconds that passed *)
Definition key_close (a b : bytes) : bool :=
  bytes_eqb (take 20 a) (take 20 b) && near (key_expiry_field a) (key_expiry_field b).

Definition gerr_eqb (a b : gerr) : bool :=
  match a, b with
  | GUnauthorized, GUnauthorized | GNotFound, GNotFound | GTargetInvalid, GTargetInvalid
  | GTargetTooLong, GTargetTooLong | GBadRequest, GBadRequest | GOther, GOther => true
  | _, _ => false
  end.

Definition check (c : case) : N :=
  match c with
  (* an extendable key cannot itself be used to publish or subscribe *)
  | CExtUse how held received delivered => bit ((held =? 0)%Z && negb received && negb delivered) 2
  | CCreate parent pstr ct now channel access expires out =>
    let decrypt := fun s => if bytes_eqb s pstr then parent else Err KCorrupt in
    let contracts := fun id => if id =? ct_id ct then Some ct else None in
    let salt := match out with GOk k _ => key_salt k | _ => 0 end in
    let m := create_key murmur decrypt contracts now pstr channel access expires salt in
    let corr := match m, out with
                | Ok mk, GOk k _ => key_close mk k
                | Err e, GErr e' => gerr_eqb e e'
                | Panic, GPanic => true
                | _, _ => false
                end in
    (* only a valid, unexpired master key of the contract on file mints; never a master key *)
    let oracle := match out, parent with
                  | GOk k _, Ok p => is_master p && negb (is_expired p now) && contract_validate ct p
                                     && (N.land (key_perms k) AllowMaster =? 0) && (N.land (key_perms k) (N.lnot access 8) =? 0)
                                     && (key_contract k =? key_contract p)
                  | GOk _ _, _ => false
                  | GPanic, _ => false
                  | GErr _, _ => true
                  end in
    bit corr 1 |+| bit oracle 2
  | CGen parent pstr ct now channel ty ttl expires conn out =>
    let decrypt := fun s => if bytes_eqb s pstr then parent else Err KCorrupt in
    let contracts := fun id => if id =? ct_id ct then Some ct else None in
    let salt := match out with GOk k _ => key_salt k | _ => 0 end in
    let m := keygen_request murmur (fun _ => false) decrypt contracts now pstr channel ty conn expires salt in
    let corr := match m, out with
                | Ok (mk, mch), GOk k ch => key_close mk k && bytes_eqb mch ch
                | Err e, GErr e' => gerr_eqb e e'
                | Panic, GPanic => true
                | _, _ => false
                end in
    let access := access_of ty in
    (* the property on the implementation's answer *)
    let oracle :=
      match out, parent with
      | GOk k ch, Ok p =>
        let minted_by_master := is_master p in
        (* only a valid, unexpired master (or extendable) key of the contract on file mints *)
        negb (is_expired p now) && contract_validate ct p
        && (minted_by_master || has_permission p AllowExtend)
        (* never master, never more than requested (nor than the parent, for extension) *)
        && (N.land (key_perms k) AllowMaster =? 0)
        && (N.land (key_perms k) (255 - access) =? 0)
        && (minted_by_master || ((N.land (key_perms k) (255 - key_perms p) =? 0) && (N.land (key_perms k) AllowExtend =? 0)))
        (* identity copied *)
        && (key_contract k =? key_contract p) && (key_signature k =? key_signature p) && (key_master k =? key_master p)
        (* target: exactly the requested channel / the connection's sub-channel *)
        && (match set_target murmur (rep 24 0) ch with
            | Ok t => (key_path k =? key_path t) && (key_target k =? key_target t)
            | _ => false
            end)
        && (if minted_by_master then bytes_eqb ch channel
            else let wild := has_suffix channel hash_slash in
                 let base := if wild then take (len channel - 2) channel else channel in
                 bytes_eqb ch (base ++ conn ++ sep :: (if wild then hash_slash else [])))
      | GOk _ _, _ => false
      | GPanic, _ => false
      | GErr _, _ => true
      end in
    (* expiry as requested: none for ttl 0, now+ttl otherwise (in the key's epoch); a date at or
       before the epoch is stored as the earliest one (the key is expired), a date beyond the field
       as the latest *)
    let expiry_ok :=
      match out with
      | GOk k _ =>
        if (ttl =? 0)%Z then key_expiry_field k =? 0
        else if (timeOffset <? expires)%Z && (expires <? timeOffset + 4294967296)%Z
             then near (key_expiry_field k) (Z.to_N (expires - timeOffset))
             else if (expires <=? timeOffset)%Z then (1 <=? key_expiry_field k) && (key_expiry_field k <=? 2)
             else 4294967290 <=? key_expiry_field k
      | _ => true
      end in
    bit corr 1 |+| bit oracle 2 |+| bit expiry_ok 2
  | CProbe parent pstr ct now text perm ok =>
    let decrypt := fun s => if bytes_eqb s pstr then parent else Err KCorrupt in
    let contracts := fun id => if id =? ct_id ct then Some ct else None in
    let m := authorize murmur (fun _ => false) decrypt contracts now (parse_channel text) perm in
    let mok := match m with Some _ => true | None => false end in
    (* model and oracle coincide here: the parent's grants are those of the key as issued *)
    bit (Bool.eqb mok ok) 1 |+| bit (Bool.eqb mok ok) 2
  end.
