(* C11: keys minted by CreateKey / ExtendKey. *)
From Emitter Require Import Lib.Base Lib.Bits Model.MsgCodec Model.Channel Model.Cipher Model.Key
     Proofs.ListFacts Proofs.MsgCodecProofs Proofs.IdProofs Proofs.KeyProofs.
From Coq Require Import Lia ZifyN ZifyNat ZifyBool.
Set Default Timeout 120.

Local Ltac split_andb :=
  repeat match goal with
         | H : _ && _ = true |- _ => apply andb_prop in H; destruct H
         end.

(* a 24-byte list, spelled out *)
Lemma list24 (k : bytes) : length k = 24%nat ->
  exists b0 b1 b2 b3 b4 b5 b6 b7 b8 b9 b10 b11 b12 b13 b14 b15 b16 b17 b18 b19 b20 b21 b22 b23,
    k = [b0;b1;b2;b3;b4;b5;b6;b7;b8;b9;b10;b11;b12;b13;b14;b15;b16;b17;b18;b19;b20;b21;b22;b23].
Proof.
  intros H.
  do 24 (destruct k as [|? k]; [discriminate H|]). destruct k; [|discriminate H].
  repeat eexists.
Qed.

Ltac Zify.zify_post_hook ::= Z.div_mod_to_equations.
Lemma be32_of_be32 v : v < 4294967296 ->
  match be32 v with [a; b; c; d] => be32_of a b c d = v | _ => False end.
Proof.
  intros H. unfold be32, be32_of. rewrite !N.shiftr_div_pow2.
  change (2 ^ 24) with 16777216. change (2 ^ 16) with 65536. change (2 ^ 8) with 256.
  destruct (be_decomp v H) as (E & _). lia.
Qed.

Lemma path_of_bytes bp : bp < 16777216 ->
  (N.shiftr bp 16 mod 256 * 256 + N.shiftr bp 8 mod 256) * 256 + bp mod 256 = bp.
Proof.
  intros H. rewrite !N.shiftr_div_pow2. change (2 ^ 16) with 65536. change (2 ^ 8) with 256. lia.
Qed.
Ltac Zify.zify_post_hook ::= idtac.

Lemma path_bits_lt : forall parts idx, idx + len parts <= 23 -> path_bits parts idx < 8388608.
Proof.
  intros parts idx H.
  destruct (N.lt_ge_cases (path_bits parts idx) 8388608) as [L|G]; [exact L|]. exfalso.
  (* a number >= 2^23 has a bit at position >= 23; the path has none *)
  assert (Hb : exists j, 23 <= j /\ N.testbit (path_bits parts idx) j = true).
  { exists (N.log2 (path_bits parts idx)). split.
    - change 23 with (N.log2 8388608). apply N.log2_le_mono. exact G.
    - apply N.bit_log2. lia. }
  destruct Hb as (j & J & T).
  assert (F : forall ps i0, i0 + len ps <= 23 -> N.testbit (path_bits ps i0) j = false).
  { induction ps as [|p r IH]; intros i0 L; cbn [path_bits]; [apply N.bits_0|].
    rewrite len_cons in L. rewrite N.lor_spec, IH by lia. rewrite orb_false_r.
    destruct (_ && _); [|apply N.bits_0]. rewrite testbit_pow2. apply N.eqb_neq. lia. }
  rewrite F in T by exact H. discriminate.
Qed.

Lemma expiry_field_lt t : expiry_field_of t < 4294967296.
Proof.
  unfold expiry_field_of. destruct (t =? 0)%Z; [reflexivity|].
  destruct (t - timeOffset <? 1)%Z eqn:A; [reflexivity|]. destruct (4294967295 <? t - timeOffset)%Z eqn:B; [reflexivity|].
  apply Z.ltb_ge in A. apply Z.ltb_ge in B. lia.
Qed.

Section keygen.
  Variable h : bytes -> N.
  Hypothesis h_range : forall s, h s < 4294967296.   (* a 32-bit hash *)

  (* the fields of a key after SetTarget *)
  Lemma set_target_fields k channel k' :
    length k = 24%nat -> set_target h k channel = Ok k' ->
    exists parts wild,
      len parts <= 23
      /\ key_path k' = fst (target_of h parts wild) /\ key_target k' = snd (target_of h parts wild)
      /\ key_perms k' = key_perms k /\ key_contract k' = key_contract k /\ key_signature k' = key_signature k
      /\ key_master k' = key_master k /\ key_expiry_field k' = key_expiry_field k /\ key_salt k' = key_salt k
      /\ length k' = 24%nat.
  Proof.
    intros L E. unfold set_target in E.
    destruct (rev channel) as [|c rc]; [discriminate|].
    destruct (negb (c =? sep)); [discriminate|].
    set (parts0 := split_on sep (rev (trim_right sep (c :: rc))) []) in *.
    set (wild := last_is parts0 hashs) in *.
    set (parts := if wild then drop_last parts0 else parts0) in *.
    destruct (23 <? len parts) eqn:E23; [discriminate|].
    exists parts, wild. split; [lia|].
    unfold target_of in *. set (bp := N.lor (if wild then 0 else 8388608) (path_bits parts 0)) in *.
    set (v := h (join_with sep parts)) in *.
    assert (Bbp : bp < 16777216).
    { unfold bp. pose proof (path_bits_lt parts 0 ltac:(lia)) as P.
      destruct wild; [rewrite N.lor_0_l; lia|].
      rewrite (lor_disjoint_add 8388608 (path_bits parts 0) 23); [lia | reflexivity | exact P]. }
    apply ok_inj in E. subst k'.
    destruct (list24 k L) as (b0&b1&b2&b3&b4&b5&b6&b7&b8&b9&b10&b11&b12&b13&b14&b15&b16&b17&b18&b19&b20&b21&b22&b23&->).
    pose proof (be32_of_be32 v (h_range _)) as Hv. unfold be32 in *.
    cbn [set_bytes set_at].
    unfold key_path, key_target, key_perms, key_contract, key_signature, key_master, key_expiry_field, key_salt, kb.
    cbn [nth fst snd length].
    repeat split; try reflexivity; [apply path_of_bytes; exact Bbp | exact Hv].
  Qed.

  (* ---- CreateKey ---- *)
  Theorem create_key_spec decrypt contracts now raw channel access expires salt k :
    (forall s x, decrypt s = Ok x -> length x = 24%nat) ->
    create_key h decrypt contracts now raw channel access expires salt = Ok k ->
    exists mk c,
      (* only a valid, unexpired master key of an allowed contract mints *)
      decrypt raw = Ok mk /\ is_master mk = true /\ is_expired mk now = false
      /\ contracts (key_contract mk) = Some c /\ contract_validate c mk = true
      (* never master, never more than requested *)
      /\ key_perms k = N.land access 254
      (* identity copied *)
      /\ key_contract k = key_contract mk /\ key_signature k = key_signature mk /\ key_master k = key_master mk
      (* expiry as handed to SetExpires *)
      /\ key_expiry_field k = expiry_field_of expires
      (* target: exactly the requested channel *)
      /\ exists k0, length k0 = 24%nat /\ set_target h k0 channel = Ok k.
  Proof.
    intros Hlen E. unfold create_key in E.
    destruct (decrypt raw) as [mk| |] eqn:D; try discriminate.
    destruct (negb (is_master mk) || is_expired mk now) eqn:M; [discriminate|].
    apply orb_false_iff in M. destruct M as [M1 M2]. apply negb_false_iff in M1.
    destruct (contracts (key_contract mk)) as [c|] eqn:C; [|discriminate].
    destruct (negb (contract_validate c mk)) eqn:V; [discriminate|]. apply negb_false_iff in V.
    pose proof (Hlen _ _ D) as L.
    destruct (list24 mk L) as (b0&b1&b2&b3&b4&b5&b6&b7&b8&b9&b10&b11&b12&b13&b14&b15&b16&b17&b18&b19&b20&b21&b22&b23&->).
    pose proof (expiry_field_lt expires) as Bx.
    pose proof (be32_of_be32 _ Bx) as Hx.
    set (k4 := set_bytes _ 20 (be32 (expiry_field_of expires))) in E.
    assert (L4 : length k4 = 24%nat) by (subst k4; unfold be32; reflexivity).
    destruct (set_target h k4 channel) as [k'|e|] eqn:S; [|destruct e; discriminate|discriminate].
    apply ok_inj in E. subst k'.
    destruct (set_target_fields k4 channel k L4 S) as (parts & wild & _ & _ & _ & P1 & P2 & P3 & P4 & P5 & _ & _).
    exists [b0;b1;b2;b3;b4;b5;b6;b7;b8;b9;b10;b11;b12;b13;b14;b15;b16;b17;b18;b19;b20;b21;b22;b23], c.
    split; [reflexivity|]. split; [exact M1|]. split; [exact M2|]. split; [exact C|]. split; [exact V|].
    split; [rewrite P1; subst k4; unfold be32; reflexivity|].
    split; [rewrite P2; subst k4; unfold be32; reflexivity|].
    split; [rewrite P3; subst k4; unfold be32; reflexivity|].
    split; [rewrite P4; subst k4; unfold be32; reflexivity|].
    split.
    - rewrite P5. subst k4. unfold be32 in *. unfold key_expiry_field, kb. cbn [set_bytes set_at nth firstn skipn rep repeat N.to_nat Pos.to_nat Pos.iter_op Nat.add]. exact Hx.
    - exists k4. split; [exact L4 | exact S].
  Qed.

  Corollary create_key_never_master decrypt contracts now raw channel access expires salt k :
    (forall s x, decrypt s = Ok x -> length x = 24%nat) ->
    create_key h decrypt contracts now raw channel access expires salt = Ok k ->
    N.land (key_perms k) AllowMaster = 0 /\ N.land (key_perms k) (N.lnot access 8) = 0.
  Proof.
    intros Hl E. destruct (create_key_spec _ _ _ _ _ _ _ _ _ Hl E) as (_ & _ & _ & _ & _ & _ & _ & P & _).
    rewrite P. split.
    - apply N.bits_inj. intros n. rewrite !N.land_spec, N.bits_0.
      destruct n as [|n]; [cbn; rewrite andb_false_r; reflexivity|].
      change AllowMaster with 1. rewrite (N.bits_above_log2 1 (N.pos n)) by (cbn; lia). apply andb_false_r.
    - apply N.bits_inj. intros n. rewrite !N.land_spec, N.bits_0.
      destruct (N.lt_ge_cases n 8) as [Hn|Hn].
      + rewrite N.lnot_spec_low by exact Hn. destruct (N.testbit access n); cbn; rewrite ?andb_false_r; reflexivity.
      + rewrite (N.bits_above_log2 254 n) by (change (N.log2 254) with 7; lia). rewrite andb_false_r. reflexivity.
  Qed.

  (* ---- ExtendKey ---- *)
  Theorem extend_key_spec banned decrypt contracts now ckey cname conn access expires k target :
    (forall s x, decrypt s = Ok x -> length x = 24%nat) ->
    extend_key h banned decrypt contracts now ckey cname conn access expires = Ok (k, target) ->
    let wild := has_suffix cname hash_slash in
    let name := if wild then take (len cname - 2) cname else cname in
    let ch := parse_channel (ckey ++ sep :: name) in
    exists p,
      (* the parent must pass Authorize with the extend permission on the (static) channel *)
      c_type ch = ChannelStatic /\ authorize h banned decrypt contracts now ch AllowExtend = Some p
      (* permissions: the parent's, without extend, restricted to the request *)
      /\ key_perms k = N.land (N.land (key_perms p) (255 - AllowExtend)) access
      /\ key_contract k = key_contract p /\ key_signature k = key_signature p /\ key_master k = key_master p
      /\ key_expiry_field k = expiry_field_of expires
      (* target: only the sub-channel named after the requesting connection *)
      /\ target = c_chan ch ++ conn ++ sep :: (if wild then hash_slash else [])
      /\ exists k0, length k0 = 24%nat /\ set_target h k0 target = Ok k.
  Proof.
    intros Hlen E. cbv zeta. unfold extend_key in E.
    set (wild := has_suffix cname hash_slash) in *.
    set (name := if wild then take (len cname - 2) cname else cname) in *.
    set (ch := parse_channel (ckey ++ sep :: name)) in *.
    destruct (negb (c_type ch =? ChannelStatic)) eqn:T; [discriminate|].
    apply negb_false_iff, N.eqb_eq in T.
    destruct (authorize h banned decrypt contracts now ch AllowExtend) as [p|] eqn:A; [|discriminate].
    pose proof A as A'. apply authorize_iff in A'. destruct A' as (_ & _ & D & _).
    pose proof (Hlen _ _ D) as L.
    destruct (list24 p L) as (b0&b1&b2&b3&b4&b5&b6&b7&b8&b9&b10&b11&b12&b13&b14&b15&b16&b17&b18&b19&b20&b21&b22&b23&->).
    pose proof (expiry_field_lt expires) as Bx.
    pose proof (be32_of_be32 _ Bx) as Hx.
    set (k2 := set_bytes _ 20 (be32 (expiry_field_of expires))) in E.
    assert (L2 : length k2 = 24%nat) by (subst k2; unfold be32; reflexivity).
    match type of E with
    | context [set_target h k2 ?t] => set (tg := t) in *; destruct (set_target h k2 tg) as [k'|e|] eqn:S; try discriminate
    end.
    apply ok_inj in E. injection E as <- <-.
    destruct (set_target_fields k2 tg k' L2 S) as (parts & w & _ & _ & _ & P1 & P2 & P3 & P4 & P5 & _ & _).
    exists [b0;b1;b2;b3;b4;b5;b6;b7;b8;b9;b10;b11;b12;b13;b14;b15;b16;b17;b18;b19;b20;b21;b22;b23].
    split; [exact T|]. split; [reflexivity|].
    split; [rewrite P1; subst k2; unfold be32; reflexivity|].
    split; [rewrite P2; subst k2; unfold be32; reflexivity|].
    split; [rewrite P3; subst k2; unfold be32; reflexivity|].
    split; [rewrite P4; subst k2; unfold be32; reflexivity|].
    split; [rewrite P5; subst k2; unfold be32 in *; unfold key_expiry_field, kb; cbn [set_bytes set_at nth]; exact Hx|].
    split; [reflexivity|].
    exists k2. split; [exact L2 | exact S].
  Qed.
End keygen.
