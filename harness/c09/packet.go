package main

import (
	"github.com/emitter-io/emitter/internal/network/mqtt"
	"github.com/emitter-io/emitter/internal/zzverif/vlib"
)

func hdrTerm(h mqtt.Header) string {
	return vlib.App("Hdr", vlib.Bool(h.DUP), vlib.N(uint64(h.QOS)), vlib.Bool(h.Retain))
}

func packetTerm(m mqtt.Message) string {
	switch p := m.(type) {
	case *mqtt.Connect:
		return vlib.App("Connect", vlib.Bytes(p.ProtoName), vlib.N(uint64(p.Version)), vlib.Bool(p.UsernameFlag),
			vlib.Bool(p.PasswordFlag), vlib.Bool(p.WillRetainFlag), vlib.N(uint64(p.WillQOS)), vlib.Bool(p.WillFlag),
			vlib.Bool(p.CleanSeshFlag), vlib.N(uint64(p.KeepAlive)), vlib.Bytes(p.ClientID), vlib.Bytes(p.WillTopic),
			vlib.Bytes(p.WillMessage), vlib.Bytes(p.Username), vlib.Bytes(p.Password))
	case *mqtt.Connack:
		return vlib.App("Connack", vlib.N(uint64(p.ReturnCode)))
	case *mqtt.Publish:
		return vlib.App("Publish", hdrTerm(p.Header), vlib.Bytes(p.Topic), vlib.N(uint64(p.MessageID)), vlib.Bytes(p.Payload))
	case *mqtt.Puback:
		return vlib.App("Puback", vlib.N(uint64(p.MessageID)))
	case *mqtt.Pubrec:
		return vlib.App("Pubrec", vlib.N(uint64(p.MessageID)))
	case *mqtt.Pubrel:
		return vlib.App("Pubrel", hdrTerm(p.Header), vlib.N(uint64(p.MessageID)))
	case *mqtt.Pubcomp:
		return vlib.App("Pubcomp", vlib.N(uint64(p.MessageID)))
	case *mqtt.Subscribe:
		items := []string{}
		for _, t := range p.Subscriptions {
			items = append(items, vlib.Pair(vlib.Bytes(t.Topic), vlib.N(uint64(t.Qos))))
		}
		return vlib.App("Subscribe", hdrTerm(p.Header), vlib.N(uint64(p.MessageID)), vlib.List(items))
	case *mqtt.Suback:
		return vlib.App("Suback", vlib.N(uint64(p.MessageID)), vlib.Bytes(p.Qos))
	case *mqtt.Unsubscribe:
		items := []string{}
		for _, t := range p.Topics {
			items = append(items, vlib.Bytes(t.Topic))
		}
		return vlib.App("Unsubscribe", hdrTerm(p.Header), vlib.N(uint64(p.MessageID)), vlib.List(items))
	case *mqtt.Unsuback:
		return vlib.App("Unsuback", vlib.N(uint64(p.MessageID)))
	case *mqtt.Pingreq:
		return "Pingreq"
	case *mqtt.Pingresp:
		return "Pingresp"
	case *mqtt.Disconnect:
		return "Disconnect"
	}
	panic("unknown packet")
}
