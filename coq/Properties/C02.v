(* C02 - An acknowledged subscription gets every matching publish once, until removed.
   Model: the generic broker of Model/Broker.v (conn.go, service/pubsub, service/link), every client
   request one step.  The statements hold for ANY subscription index meeting the contract IxSpec
   (set insertion / removal, lookup = the subscribers holding a matching filter, once each);
   Spec.BrokerSpec.held_ix meets it by construction, the trie meets it by C01.  The harness runs the
   trie instance and the specification instance against the real broker on every run. *)
From Emitter Require Import Proofs.TrieReach Proofs.TrieIx.
From Emitter Require Import Lib.Base Model.MsgCodec Model.Channel Model.Key Model.Trie Model.Store Model.Broker
     Spec.PubSub Spec.BrokerSpec Proofs.BrokerProofs Proofs.BrokerStep.

(* a publish the broker accepted is written exactly once to each connection that holds, at that
   moment, a subscription whose filter matches - minus the publisher if it excluded itself - and
   nothing else in the broker moves *)
Theorem C02_delivery_exact : forall {I} (X : ixops I) abs inv okf, IxSpec X abs inv okf ->
  forall mqtt (b : @broker I) ssid ch payload exclude, inv (b_trie b) ->
  let b' := deliver X mqtt b ssid ch payload exclude in
  ext b b'
  /\ exists tg, b_out b' = b_out b ++ map (fun i => (i, PMsg ch payload)) tg /\ NoDup tg
     /\ forall i, In i tg <-> exists s f, In (f, s) (abs (b_trie b)) /\ matches mqtt f ssid = true
                                       /\ conn_of_sub (b_conns b) s 0 = Some i /\ exclude <> Some s.
Proof. intros I X abs inv okf HS. exact (delivery_exact X abs inv okf HS). Qed.
Print Assumptions C02_delivery_exact.

(* subscribing inserts exactly (filter, subscriber), unsubscribing removes exactly it; a repeated
   subscribe and an unsubscribe of a filter not held are no-ops (acknowledged, nothing changes) *)
Theorem C02_subscribe_unsubscribe_exact : forall {I} (X : ixops I) abs inv okf, IxSpec X abs inv okf ->
  forall mqtt (b : @broker I) i c ssid ch, inv (b_trie b) -> get_conn (b_conns b) (N.to_nat i) = Some c ->
  (has_ctr c ssid = false -> okf ssid ->
     forall p, In p (abs (b_trie (subscribe_ev X b i c ssid ch))) <-> In p (abs (b_trie b)) \/ p = (ssid, cn_sub c))
  /\ (has_ctr c ssid = true -> subscribe_ev X b i c ssid ch = b)
  /\ (has_ctr c ssid = true ->
     forall p, In p (abs (b_trie (unsubscribe_ev X mqtt b i c ssid ch))) <-> In p (abs (b_trie b)) /\ p <> (ssid, cn_sub c))
  /\ (has_ctr c ssid = false -> unsubscribe_ev X mqtt b i c ssid ch = b).
Proof.
  intros I X abs inv okf HS mqtt b i c ssid ch Hi G.
  refine (conj _ (conj _ (conj _ _))).
  - intros H Ho p. destruct (subscribe_ev_effect X b i c ssid ch H) as (T & _). rewrite T.
    apply (ixs_sub X abs inv okf HS ssid (cn_sub c) (b_trie b) Hi Ho).
  - apply subscribe_ev_repeat.
  - intros H. apply (unsubscribe_ev_held X abs inv okf HS mqtt b i c ssid ch Hi H G).
  - apply unsubscribe_ev_not_held.
Qed.
Print Assumptions C02_subscribe_unsubscribe_exact.

(* a request that fails parsing or authorization changes nothing and is answered with an error *)
Theorem C02_failed_request_changes_nothing : forall {I} (X : ixops I) e (b : @broker I) i c mid,
  get_conn (b_conns b) (N.to_nat i) = Some c ->
  (forall topic qos b1 st, on_subscribe X e (clear_out b) i c topic = (b1, Some st) ->
     let r := step X e b i (OSub mid topic qos) in
     b_trie r = b_trie b /\ b_conns r = b_conns b /\ b_store r = b_store b /\ b_seq r = b_seq b
     /\ exists notes, b_out r = [(i, PError st mid); (i, PSuback mid [128])] ++ notes)
  /\ (forall topic b1 st, on_unsubscribe X e (clear_out b) i c topic = (b1, Some st) ->
     let r := step X e b i (OUnsub mid topic) in
     b_trie r = b_trie b /\ b_conns r = b_conns b /\ b_store r = b_store b /\ b_seq r = b_seq b
     /\ exists notes, b_out r = [(i, PError st mid); (i, PUnsuback mid)] ++ notes)
  /\ (forall retain topic payload b1 st, on_publish X e (clear_out b) i c mid retain topic payload ENone = (b1, Some st) ->
     let r := step X e b i (OPub mid retain topic payload) in
     b_trie r = b_trie b /\ b_conns r = b_conns b /\ b_store r = b_store b /\ b_seq r = b_seq b
     /\ exists notes, b_out r = [(i, PError st mid); (i, PPuback mid)] ++ notes).
Proof.
  intros I X e b i c mid G. refine (conj _ (conj _ _)); intros.
  - eapply failed_subscribe_changes_nothing; eassumption.
  - eapply failed_unsubscribe_changes_nothing; eassumption.
  - eapply failed_publish_changes_nothing; eassumption.
Qed.
Print Assumptions C02_failed_request_changes_nothing.

(* the specification index meets the contract, so the statements are not vacuous *)
Theorem C02_spec_index_meets_contract : IxSpec held_ix (fun h => h) (fun _ => True) (fun _ => True).
Proof. exact held_ix_spec. Qed.
Print Assumptions C02_spec_index_meets_contract.

(* ... and so does the model of the code, the trie, for every history of filters outside $share
   groups (C01's refinement): the statements above hold of the trie-indexed broker *)
Theorem C02_trie_index_meets_contract : IxSpec trie_ix TrieReach.abs trie_inv noshare.
Proof. exact trie_ix_spec. Qed.
Print Assumptions C02_trie_index_meets_contract.

Example C02_nonvacuous :
  let b := B [([7; 11], 5); ([7; 12], 6)] [Some (Conn 5 [] None true [] []); Some (Conn 6 [] None true [] [])] [] 0 [] [] in
  b_out (deliver held_ix false b [7; 11; 12] [97] [1; 2] None) = [(0, PMsg [97] [1; 2])]
  /\ b_out (deliver held_ix false b [7; 11; 12] [97] [1; 2] (Some 5)) = [].
Proof. vm_compute. split; reflexivity. Qed.
