(* Correspondence cases of C09. *)
From Emitter Require Import Lib.Base Model.Mqtt Model.MsgCodec Model.Hostile.

Inductive case :=
(* DecodePacket looped over a finite stream: packets served, how the loop ended (0 = reader ran
   dry, 1 = too large, 2 = other error, 3 = panic), bytes allocated *)
| CStream (s : bytes) (max : N) (served : list packet) (ending : N) (alloc : N)
(* SSD.lookup with a client-supplied limit: class (0 ok, 2 panic, 3 hang) and capacity allocated *)
| CLast (limit : Z) (class : N) (cap : Z)
(* Swarm.OnGossipUnicast on snappy(inner): 0 = nil, 1 = error, 2 = panic escaped, 3 = hang *)
| CUnicast (inner : bytes) (class : N) (delivered : list msg) (alloc : N)
(* Swarm.OnGossip / OnGossipBroadcast on snappy(inner); post = class of the later readers *)
| CGossip (which : N) (inner : bytes) (class post : N) (alloc : N)
(* raw bytes to a handler (0 unicast, 1 broadcast, 2 gossip) *)
| CRaw (which : N) (raw : bytes) (class : N) (alloc : N)
(* a live broker child under attack *)
| CLive (attacks : N) (ready alive canary_ok conns_back : bool) (max_sys : N) (last_attack : bytes)
(* a subscriber that never reads: did the broker give the connection up, was the publisher to its channel served *)
| CStall (gave_up publisher_served : bool)
(* answers to a survey arriving after it ended (peers, answers in time, answers afterwards): were they handled *)
| CSurvey (peers early late : N) (handled : bool)
(* the payload of a survey request from a peer handed to the storage (0) / presence (1) handler: class as
   above, bytes allocated *)
| CSurveyReq (which : N) (payload : bytes) (class : N) (alloc : N)
(* a broker configured with limit.messageSize = configured gets a packet announcing 256 MiB: was the
   connection closed, class, bytes allocated *)
| CLimit (configured : Z) (closed : bool) (class : N) (alloc : N).

Definition msg_eqb (a b : msg) : bool :=
  bytes_eqb (m_id a) (m_id b) && bytes_eqb (m_chan a) (m_chan b) && bytes_eqb (m_payload a) (m_payload b)
  && (m_ttl a =? m_ttl b).

Definition pend_class (p : pend) : N :=
  match p with PWait => 0 | PClosedErr ETooLarge => 1 | PClosedErr _ => 2 | PClosedPanic => 3 | PFuel => 9 end.

Definition fate_class (f : fate) : N :=
  match f with Served => 0 | Rejected => 1 | ConnClosed => 1 | ProcessExit => 2 end.

(* the decoded length a snappy header announces *)
Definition snappy_announced (raw : bytes) : N :=
  match read_uvarint raw with Ok (n, _) => n | _ => 0 end.

Definition check (c : case) : N :=
  match c with
  | CStall gave_up served => bit (gave_up && served) 2
  | CSurvey _ _ _ handled => bit handled 2
  | CLimit _ closed class alloc => bit (closed && (class <? 2)) 2 |+| bit (alloc <=? 16777216) 4
  | CSurveyReq _ payload class alloc => bit (class <? 2) 2 |+| bit (alloc <=? 256 * len payload + 1048576) 4
  | CStream s max served ending alloc =>
    let '(ms, e) := process (S (length s)) s max [] in
    bit (list_eqb packet_eqb ms served && (pend_class e =? ending)) 1
    (* oracle: the loop ends (the watchdog is the harness itself); allocation stays in proportion:
       every served packet was filled from the input, the last one may have reserved up to max *)
    |+| bit (ending <? 4) 2          (* 4 = still running after 3 s *)
    |+| bit (alloc <=? 64 * len s + 2 * max + 1048576) 4
  | CLast limit class cap =>
    bit ((class =? 0) && (cap =? lookup_prealloc limit)%Z) 1
    |+| bit (class =? 0) 2
    |+| bit ((0 <=? cap)%Z && (cap <=? 1024)%Z) 4
  | CUnicast inner class delivered alloc =>
    let '(f, del) := unicast true inner in
    bit ((fate_class f =? class) && list_eqb msg_eqb del delivered) 1
    |+| bit (class <? 2) 2
    |+| bit (alloc <=? 256 * len inner + 1048576) 4
  | CGossip which inner class post alloc =>
    (* OnGossip (which = 1) ignores payloads of at most one byte.  What Swarm.merge does with a
       decoded state (peer counters; an empty ssid panics in Ssid.GetHashCode and is recovered)
       is not modelled here: a decodable payload may be served or rejected. *)
    bit (if (which =? 1) && is_nil inner then class =? 0
         else match gossip true inner with
              | Served => class <? 2
              | f => fate_class f =? class
              end) 1
    |+| bit ((class <? 2) && (post =? 0)) 2
    |+| bit (alloc <=? 256 * len inner + 1048576) 4
  | CRaw which raw class alloc =>
    bit (class <? 2) 2
    |+| (if alloc <=? 256 * len raw + 1048576 then 0
         else if alloc <=? 2 * snappy_announced raw + 1048576 then 8 else 4)
  | CLive attacks ready alive canary conns max_sys last =>
    bit ready 1
    |+| bit (alive && canary && conns) 2
    |+| bit (max_sys <? 2147483648) 4
  end.
