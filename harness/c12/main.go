// Harness for C12: modifications of issued channel keys (bit flips, XOR masks, character
// substitutions, block swaps) presented to the real Service.Authorize, under the three licence
// versions; for each modified string the operations it is granted are compared with those of
// the original key over a probe set.
package main

import (
	"context"
	"encoding/base64"
	"fmt"
	"math/bits"
	"time"

	"github.com/emitter-io/emitter/internal/broker"
	"github.com/emitter-io/emitter/internal/config"
	"github.com/emitter-io/emitter/internal/provider/logging"
	"github.com/emitter-io/emitter/internal/security"
	"github.com/emitter-io/emitter/internal/security/hash"
	"github.com/emitter-io/emitter/internal/security/license"
	"github.com/emitter-io/emitter/internal/zzverif/vlib"
)

var cfg *vlib.Config

type quiet struct{}

func (quiet) Name() string                                  { return "quiet" }
func (quiet) Configure(config map[string]interface{}) error { return nil }
func (quiet) Printf(format string, v ...interface{})        {}

const alphabet = "ABCDEFGHIJKLMNOPQRSTUVWXYZabcdefghijklmnopqrstuvwxyz0123456789-_"

type probe struct {
	channel string
	perm    uint8
}

var probes = []probe{
	{"a/", security.AllowRead}, {"a/", security.AllowWrite}, {"a/b/", security.AllowRead}, {"a/b/", security.AllowWrite},
	{"b/", security.AllowRead}, {"b/", security.AllowWrite}, {"a/b/c/", security.AllowLoad}, {"c/", security.AllowPresence},
	{"a/", security.AllowExtend}, {"a/", security.AllowStore},
}

// cipherTerm: the cipher of licence l as a Coq term; for the shuffle cipher the keystream is given
// for the two salts in play (original and modified)
func cipherTerm(l license.License, c license.Cipher, salts [][2]byte) string {
	switch v := l.(type) {
	case *license.V1:
		raw, _ := base64.RawURLEncoding.DecodeString(v.EncryptionKey)
		w := make([]string, 4)
		for i := 0; i < 4; i++ {
			w[i] = vlib.N(uint64(raw[4*i])<<24 | uint64(raw[4*i+1])<<16 | uint64(raw[4*i+2])<<8 | uint64(raw[4*i+3]))
		}
		return "(CXtea (fun i => nth (N.to_nat i) " + vlib.List(w) + " 0))"
	case *license.V2:
		z := make(security.Key, 24)
		s, _ := c.EncryptKey(z)
		ks, _ := base64.RawURLEncoding.DecodeString(s)
		return "(CSalsa " + vlib.Bytes(ks) + ")"
	default:
		body := "[]"
		for _, st := range salts {
			z := make(security.Key, 24)
			z[0], z[1] = st[0], st[1]
			s, _ := c.EncryptKey(z)
			ks, _ := base64.RawURLEncoding.DecodeString(s)
			body = "(if (s0 =? " + vlib.N(uint64(st[0])) + ") && (s1 =? " + vlib.N(uint64(st[1])) + ") then " + vlib.Bytes(ks[2:]) + " else " + body + ")"
		}
		return "(CShuffle (fun s0 s1 => " + body + "))"
	}
}

// licences whose contract carries signature 0 (an "unsigned" contract must still pin the key's signature)
func unsigned() []license.License {
	a := license.NewV1()
	a.Sign = 0
	b := license.NewV2()
	b.Sign = 0
	return []license.License{a, b}
}

// ---- a different key text with the same 32-bit murmur hash (hash.Of) ------------------------------------

func inv32(a uint32) uint32 { // inverse of an odd number modulo 2^32
	x := a
	for i := 0; i < 5; i++ {
		x *= 2 - a*x
	}
	return x
}

func scramble(k uint32) uint32 {
	k *= 0xcc9e2d51
	k = bits.RotateLeft32(k, 15)
	return k * 0x1b873593
}

func unscramble(k uint32) uint32 {
	k *= inv32(0x1b873593)
	k = bits.RotateLeft32(k, -15)
	return k * inv32(0xcc9e2d51)
}

func le32(b []byte) uint32 {
	return uint32(b[0]) | uint32(b[1])<<8 | uint32(b[2])<<16 | uint32(b[3])<<24
}

func bswap(h uint32) uint32 {
	return (h << 24) | ((h >> 8) << 16 & 0xFF0000) | ((h >> 16) << 8 & 0xFF00) | (h >> 24)
}

// unfinal undoes the finalisation of hash.Of for a 32-byte input: the state after the last block
func unfinal(out uint32) uint32 {
	h := bswap(out)
	h ^= h >> 16
	h *= inv32(0xc2b2ae35)
	h ^= h >> 13
	h ^= h >> 26
	h *= inv32(0x85ebca6b)
	h ^= h >> 16
	return h ^ 32
}

// collide returns a 32-character string over the key alphabet that differs from s in its last eight
// characters and whose hash.Of value is that of s xor delta.
func collide(r interface{ Intn(int) int }, s string, delta uint32) string {
	b := []byte(s)
	h := uint32(37)
	for i := 0; i < 24; i += 4 {
		h ^= scramble(le32(b[i:]))
		h = bits.RotateLeft32(h, 13)
		h = h*5 + 0xe6546b64
	}
	h6 := bits.RotateLeft32(h^scramble(le32(b[24:])), 13)*5 + 0xe6546b64
	_ = h6
	// the state wanted after the last block, and from it what (state before) xor (scrambled last block) must be
	want := bits.RotateLeft32((unfinal(hash.OfString(s)^delta)-0xe6546b64)*inv32(5), -13)
	isKeyChar := func(c byte) bool {
		return (c >= '0' && c <= '9') || (c >= 'A' && c <= 'Z') || (c >= 'a' && c <= 'z') || c == '-' || c == '_'
	}
	for try := 0; try < 200000; try++ {
		var blk [4]byte
		for k := range blk {
			blk[k] = alphabet[r.Intn(64)]
		}
		if string(blk[:]) == s[24:28] {
			continue
		}
		h6b := bits.RotateLeft32(h^scramble(le32(blk[:])), 13)*5 + 0xe6546b64
		last := unscramble(want ^ h6b)
		c := []byte{byte(last), byte(last >> 8), byte(last >> 16), byte(last >> 24)}
		if isKeyChar(c[0]) && isKeyChar(c[1]) && isKeyChar(c[2]) && isKeyChar(c[3]) {
			out := s[:24] + string(blk[:]) + string(c)
			if hash.OfString(out) != hash.OfString(s)^delta {
				panic("collide: the hashes differ")
			}
			return out
		}
	}
	return s
}

func verOf(l license.License) int {
	switch l.(type) {
	case *license.V1:
		return 1
	case *license.V2:
		return 2
	}
	return 3
}

func main() {
	cfg = vlib.ParseFlags()
	r := cfg.Rng
	sh := vlib.NewShards(cfg.Out, "C12", "From Emitter Require Import Lib.Base Model.MsgCodec Model.Channel Model.Cipher Model.Key Check.C12.", "case", "check", 40)
	now := time.Now().Unix()

	for _, lic := range append([]license.License{license.NewV1(), license.NewV2(), license.NewV3()}, unsigned()...) {
		c := config.NewDefault().(*config.Config)
		c.License = lic.String()
		c.Cluster = nil
		svc, err := broker.NewService(context.Background(), c)
		if err != nil {
			panic(err)
		}
		logging.Logger = quiet{}
		cipher, _ := lic.Cipher()
		grants := func(s string) []bool {
			out := make([]bool, len(probes))
			for i, p := range probes {
				ch := security.ParseChannel([]byte(s + "/" + p.channel))
				ok := false
				vlib.Catch(func() { _, _, ok = svc.Authorize(ch, p.perm) })
				out[i] = ok
			}
			return out
		}
		n := 160 * cfg.Mult
		for i := 0; i < n; i++ {
			key := security.Key(make([]byte, 24))
			key.SetSalt(uint16(r.Intn(65536)))
			key.SetMaster(1)
			key.SetContract(lic.Contract())
			key.SetSignature(lic.Signature())
			key.SetPermissions(uint8(vlib.Pick(r, 2, 4, 6, 2, 16, 32, 30)))
			key.SetTarget(vlib.Pick2(r, "a/", "a/b/", "a/#/", "b/"))
			if r.Intn(4) == 0 {
				key.SetExpires(time.Unix(now-5000, 0)) // an expired key: altering the expiry revives it
			}
			enc, _ := cipher.EncryptKey(key)
			raw, _ := base64.RawURLEncoding.DecodeString(enc)
			mod := append([]byte{}, raw...)
			class := ""
			switch r.Intn(7) {
			case 0: // single bit flip anywhere
				mod[r.Intn(24)] ^= 1 << uint(r.Intn(8))
				class = "bitflip"
			case 1: // XOR mask on the permission byte position
				mod[15] ^= byte(1 + r.Intn(255))
				class = "mask-perm-byte"
			case 2: // XOR mask on the target / expiry bytes
				for k := 16; k < 24; k++ {
					if r.Intn(2) == 0 {
						mod[k] ^= byte(r.Intn(256))
					}
				}
				class = "mask-block3"
			case 3: // mask on identity bytes
				mod[2+r.Intn(10)] ^= byte(1 + r.Intn(255))
				class = "mask-identity"
			case 4: // swap two 8-byte blocks
				a, b := r.Intn(3), r.Intn(3)
				for k := 0; k < 8; k++ {
					mod[8*a+k], mod[8*b+k] = mod[8*b+k], mod[8*a+k]
				}
				class = "block-swap"
			case 5: // a chosen-difference mask: turn the target of "a/" into that of "b/" and add write (stream ciphers)
				ka := security.Key(make([]byte, 24))
				kb := security.Key(make([]byte, 24))
				ka.SetTarget("a/")
				kb.SetTarget("b/")
				for k := 12; k < 20; k++ {
					mod[k] ^= ka[k] ^ kb[k]
				}
				mod[15] ^= security.AllowWrite
				class = "chosen-difference"
			default: // random multi-byte mask
				for k := 0; k < 24; k++ {
					if r.Intn(4) == 0 {
						mod[k] ^= byte(r.Intn(256))
					}
				}
				class = "random-mask"
			}
			modStr := base64.RawURLEncoding.EncodeToString(mod)
			if r.Intn(10) == 0 { // another spelling with the same 32-bit hash as the original (the original is presented first)
				// ... or with a hash that differs by the difference of two permission bits
				delta := uint32(vlib.Pick(r, 0, 0, 2^4, 2^16, 4^8, 2^32, 4^16, 2^64))
				modStr = collide(r, enc, delta)
				mod, _ = base64.RawURLEncoding.DecodeString(modStr)
				class = "chosen-murmur-hash"
			} else if r.Intn(8) == 0 { // character substitution directly in the string
				b := []byte(enc)
				b[r.Intn(32)] = alphabet[r.Intn(64)]
				modStr = string(b)
				mod, _ = base64.RawURLEncoding.DecodeString(modStr)
				class = "char-substitution"
			}
			g0 := grants(enc)
			g1 := grants(modStr)
			// salts in play for the shuffle cipher: that of the original and of the modified plaintext
			salts := [][2]byte{{key[0], key[1]}}
			if len(mod) >= 2 {
				salts = append(salts, [2]byte{mod[0], mod[1]})
			}
			ps := make([]string, len(probes))
			for k, p := range probes {
				ps[k] = "(" + vlib.Str(p.channel) + ", " + vlib.N(uint64(p.perm)) + ", " + vlib.Bool(g0[k]) + ", " + vlib.Bool(g1[k]) + ")"
			}
			sh.Add(vlib.App("CMall", vlib.N(uint64(verOf(lic))), cipherTerm(lic, cipher, salts), vlib.Str(enc), vlib.Str(modStr),
				vlib.App("Contract", vlib.N(uint64(lic.Contract())), "1", vlib.N(uint64(lic.Signature())), "true"), vlib.Z(now), vlib.List(ps)),
				map[string]interface{}{"op": "alter key", "licence": verOf(lic), "modification": class, "key": []byte(key)}, fmt.Sprintf("v%d/%s", verOf(lic), class), true)
		}
		svc.Close()
	}
	sh.Finish("keys issued for read / write / load / presence masks on targets a/, a/b/, a/#/, b/ (a quarter of them expired) under each licence version; modifications: single bit flips, masks on the permission byte, on bytes 16-23, on identity bytes, 8-byte block swaps, a chosen-difference mask (a/ -> b/ plus write), random masks, character substitutions; each original and modified string presented to the real Service.Authorize on 10 (channel, permission) probes; non-trivial: all")
}
