(* C09 - Hostile or malformed input cannot take the broker down.
   What is logic is modelled (Model/Hostile.v over the decoders of Model/Mqtt.v and
   Model/MsgCodec.v, whose outcomes are Ok / Err / Panic): the packet loop of Conn.Process, the
   buffers sized by numbers found in the input, the frame and state decoders behind the cluster
   port, and where a panic lands.  The Go runtime's real memory behaviour, deadlines and the
   dependencies' internals (snappy, badger, the gossip library's own decoding) are not modelled;
   the harness observes them on the real code (panic catcher, allocation counter, watchdog, a live
   broker child with an address-space ceiling and a canary client). *)
From Emitter Require Import Lib.Base Model.Mqtt Model.MsgCodec Model.Hostile Proofs.HostileProofs.

(* client port: for every byte string and every size limit the packet loop ends - the reader runs
   dry, or that connection is closed - and never takes more than the stream's length in rounds *)
Theorem C09_client_stream_contained : forall s max, client_fate s max <> ProcessExit.
Proof. exact client_fate_contained. Qed.
Print Assumptions C09_client_stream_contained.

(* packets larger than the configured size are refused before anything is allocated, and the
   buffer allocated for a packet never exceeds the configured size *)
Theorem C09_oversize_refused : forall s max h size mt r,
  decode_header s = Some (h, size, mt, r) -> mt <> 12 -> mt <> 13 -> mt <> 14 -> max < size ->
  decode_packet s max = Err ETooLarge /\ packet_alloc s max = 0.
Proof. exact oversize_refused. Qed.
Print Assumptions C09_oversize_refused.

Theorem C09_packet_alloc_bounded : forall s max, packet_alloc s max <= max.
Proof. exact packet_alloc_le. Qed.
Print Assumptions C09_packet_alloc_bounded.

(* the history buffer is not sized by the client's number *)
Theorem C09_history_prealloc_bounded : forall limit, (0 <= lookup_prealloc limit <= 1024)%Z.
Proof. exact lookup_prealloc_bounded. Qed.
Print Assumptions C09_history_prealloc_bounded.

(* cluster port, unicast: the slice allocated for a frame is bounded by the payload, a count of
   2^63 or more never reaches the allocation, every payload is served or rejected, and only
   messages whose id can be indexed reach the local subscribers *)
Theorem C09_frame_alloc_bounded : forall d, frame_slots d <= len d / 4.
Proof. exact frame_slots_le. Qed.
Print Assumptions C09_frame_alloc_bounded.

Theorem C09_frame_count_guard : forall d n r,
  len d < two63 -> read_uvarint d = Ok (n, r) -> two63 <= n -> dec_frame_guarded d = Err CEOF.
Proof. exact frame_count_never_negative. Qed.
Print Assumptions C09_frame_count_guard.

Theorem C09_unicast_contained : forall d,
  fst (unicast true d) <> ProcessExit /\ Forall (fun m => peer_msg_ok m = true) (snd (unicast true d)).
Proof. intros d. split; [apply unicast_contained | apply unicast_delivers_only_safe]. Qed.
Print Assumptions C09_unicast_contained.

(* cluster port, gossip: every payload is merged or rejected, and every value that is merged holds
   its two timestamps (so no later reader of the replicated state indexes past its end) *)
Theorem C09_gossip_contained : forall d,
  gossip true d <> ProcessExit /\ (forall st, dec_state d = Ok st -> values_ok st = true).
Proof. intros d. split; [apply gossip_contained | apply dec_state_values_ok]. Qed.
Print Assumptions C09_gossip_contained.

(* why the handlers of Swarm must recover: without it the same model reaches process exit *)
Theorem C09_unrecovered_handlers_refuted :
  (exists d, fst (unicast false d) = ProcessExit) /\ (exists d, gossip false d = ProcessExit).
Proof. split; [exact unicast_unrecovered_exits | exact gossip_unrecovered_exits]. Qed.
Print Assumptions C09_unrecovered_handlers_refuted.

(* the premises are met by concrete inputs *)
Example C09_oversize_example :
  decode_header [48; 255; 255; 3; 0] = Some (hdr0, 65535, 3, [0]) /\ decode_packet [48; 255; 255; 3; 0] 1024 = Err ETooLarge.
Proof. vm_compute. split; reflexivity. Qed.
