(* C10: for every interleaving of concurrent writers and flushes, each writer's packets reach the
   socket in its program order, without duplication, and - once everything has been flushed -
   without loss. *)
From Coq Require Import List Arith Lia Bool.
Import ListNotations.
From Emitter Require Import Model.WriteQueueLTS.
Set Default Timeout 120.

(* per thread: what is on the socket followed by what is queued is exactly its first [done]
   packets in order; a thread about to write directly has nothing of its own in the queue *)
Definition Inv (s : lst) : Prop :=
  forall i, proj i (sock s ++ queue s) = seq 0 (done (thr s i))
         /\ (tpc (thr s i) = WDirect -> proj i (queue s) = []).

Lemma proj_app i a b : proj i (a ++ b) = proj i a ++ proj i b.
Proof. unfold proj. rewrite filter_app, map_app. reflexivity. Qed.

Lemma proj_single_same i n : proj i [(i, n)] = [n].
Proof. unfold proj. cbn. rewrite Nat.eqb_refl. reflexivity. Qed.

Lemma proj_single_other i j n : j <> i -> proj i [(j, n)] = [].
Proof. intros H. unfold proj. cbn. destruct (Nat.eqb_spec j i); [contradiction | reflexivity]. Qed.

Lemma seq_S_end n : seq 0 (S n) = seq 0 n ++ [n].
Proof. rewrite seq_S. reflexivity. Qed.

Lemma upd_same f i t : upd f i t i = t.
Proof. unfold upd. rewrite Nat.eqb_refl. reflexivity. Qed.
Lemma upd_other f i t j : j <> i -> upd f i t j = f j.
Proof. intros H. unfold upd. destruct (Nat.eqb_spec j i); [contradiction | reflexivity]. Qed.

Lemma proj_nil_of_nil i : proj i [] = [].
Proof. reflexivity. Qed.

Theorem step_inv s s' : Inv s -> lstep s s' -> Inv s'.
Proof.
  intros I S. destruct S as [s i P D|s i P D|s i P|s i P Q|s i P Q|s i P|s i P Q|s i P Q|s i P|s i P|s i P];
    intros j; destruct (I j) as [Ij Dj]; cbn [sock queue thr];
    (destruct (Nat.eq_dec j i) as [->|Hne]; [rewrite upd_same | rewrite (upd_other _ _ _ _ Hne)]); cbn [tpc done total].
  (* start_limited *)
  - split; [exact Ij | discriminate].
  - split; [exact Ij | exact Dj].
  (* start_free *)
  - split; [exact Ij | discriminate].
  - split; [exact Ij | exact Dj].
  (* enq_only *)
  - split; [|discriminate]. rewrite app_assoc, proj_app, Ij. unfold cur. rewrite proj_single_same, seq_S_end. reflexivity.
  - split.
    + rewrite app_assoc, proj_app, Ij. unfold cur. rewrite proj_single_other by congruence. apply app_nil_r.
    + intros H. rewrite proj_app, (Dj H). unfold cur. rewrite proj_single_other by congruence. reflexivity.
  (* len_pos *)
  - split; [exact Ij | discriminate].
  - split; [exact Ij | exact Dj].
  (* len_zero *)
  - split; [exact Ij|]. intros _. rewrite Q. reflexivity.
  - split; [exact Ij | exact Dj].
  (* enq_flush *)
  - split; [|discriminate]. rewrite app_assoc, proj_app, Ij. unfold cur. rewrite proj_single_same, seq_S_end. reflexivity.
  - split.
    + rewrite app_assoc, proj_app, Ij. unfold cur. rewrite proj_single_other by congruence. apply app_nil_r.
    + intros H. rewrite proj_app, (Dj H). unfold cur. rewrite proj_single_other by congruence. reflexivity.
  (* f0_zero *)
  - split; [exact Ij | discriminate].
  - split; [exact Ij | exact Dj].
  (* f0_pos *)
  - split; [exact Ij | discriminate].
  - split; [exact Ij | exact Dj].
  (* f1: the whole queue moves to the socket *)
  - split; [rewrite app_nil_r; exact Ij | discriminate].
  - split; [rewrite app_nil_r; exact Ij | intros _; reflexivity].
  (* direct write: nothing of this thread is queued, so its packet lands after all its earlier ones *)
  - split; [|discriminate].
    rewrite proj_app in Ij. rewrite (Dj P), app_nil_r in Ij.
    rewrite !proj_app, (Dj P), app_nil_r, Ij. unfold cur. rewrite proj_single_same, seq_S_end. reflexivity.
  - split; [|exact Dj].
    rewrite !proj_app in *. unfold cur. rewrite proj_single_other by congruence. rewrite app_nil_r. exact Ij.
  (* timer *)
  - split; [exact Ij | discriminate].
  - split; [exact Ij | exact Dj].
Qed.

Lemma init_inv totals : Inv (linit totals).
Proof. intros i. cbn. split; [reflexivity | discriminate]. Qed.

Theorem reachable_inv totals s : reachable (linit totals) s -> Inv s.
Proof. induction 1 as [|s s' R IH St]; [apply init_inv | exact (step_inv _ _ IH St)]. Qed.

(* a list l1 such that l1 ++ l2 = seq 0 n is seq 0 (length l1) *)
Lemma seq_prefix : forall l1 l2 n, l1 ++ l2 = seq 0 n -> l1 = seq 0 (length l1).
Proof.
  intros l1 l2 n E.
  assert (L : length l1 <= n) by (apply (f_equal (@length nat)) in E; rewrite app_length, seq_length in E; lia).
  replace n with (length l1 + (n - length l1)) in E by lia. rewrite seq_app in E.
  assert (H : firstn (length l1) (l1 ++ l2) = firstn (length l1) (seq 0 (length l1) ++ seq (0 + length l1) (n - length l1))) by (rewrite E; reflexivity).
  rewrite firstn_app, Nat.sub_diag, firstn_all in H. cbn [firstn] in H. rewrite app_nil_r in H.
  rewrite firstn_app, seq_length, Nat.sub_diag in H. cbn [firstn] in H. rewrite app_nil_r in H.
  rewrite firstn_all2 in H by (rewrite seq_length; lia). exact H.
Qed.

(* what a subscriber's socket has received from one writer is a prefix of that writer's packets,
   in program order, without duplication *)
Theorem per_thread_order totals s i :
  reachable (linit totals) s -> exists k, k <= done (thr s i) /\ proj i (sock s) = seq 0 k.
Proof.
  intros R. destruct (reachable_inv _ _ R i) as [H _]. rewrite proj_app in H.
  exists (length (proj i (sock s))). split.
  - apply (f_equal (@length nat)) in H. rewrite app_length, seq_length in H. lia.
  - exact (seq_prefix _ _ _ H).
Qed.

(* nothing is lost: once the queue is empty, every packet a writer has handed over is on the socket *)
Theorem no_loss totals s i :
  reachable (linit totals) s -> queue s = [] -> proj i (sock s) = seq 0 (done (thr s i)).
Proof.
  intros R Q. destruct (reachable_inv _ _ R i) as [H _]. rewrite Q, app_nil_r in H. exact H.
Qed.
